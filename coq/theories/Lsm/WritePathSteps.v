(* Lsm/WritePathSteps.v — the byte-level steps of Lsm/WritePath.v keep the byte state well-formed and have the L1 steps
   as their abstraction.  Composition only: C14 (memdb iterator, put), C13 (table writer / format check, through
   WritePathTable.writer_output_ok), C15 (key order), C06 (Lsm/C06Steps.v flush_step, compaction_step,
   trivial_move_step, model_compaction_admissible; Lsm/BuilderStep.v), C01 (read path refinement, write_wf).

   The invariant [bfull]: the byte state is well-formed (ReadPathProofs.wf_bstate), the abstraction of its levels
   satisfies the step invariant of property C06 (WfLsm.wf_lsm), and no two stored entries share user key and sequence
   number. *)
From GL Require Import Base.Bytes Base.BytesProofs Base.Varint Base.Order Base.OrderProofs Base.Cursor Codec.BytesCmp Codec.IKey
  Codec.IKeyProofs Codec.Table Codec.TableCheck Codec.TableSizes Codec.Batch Lsm.Lsm Lsm.Compact Lsm.LsmProofs Lsm.CompactProofs
  Lsm.WfProofs Lsm.History Lsm.HistoryProofs Lsm.ReorgProofs Lsm.Pick Lsm.PickBase Lsm.WfLsm Lsm.ModelStep Lsm.C06Steps
  Lsm.Builder Lsm.BuilderBase Lsm.BuilderCuts Lsm.BuilderStep Lsm.FinishProofs Lsm.StepProofs Lsm.OutputProofs
  Lsm.ReadPath Lsm.ReadPathKey Lsm.ReadPathMem Lsm.ReadPathTable Lsm.ReadPathProofs Lsm.BatchWriteProofs
  Lsm.WritePath Lsm.WritePathTable Lsm.WritePathMem Lsm.WritePathInstall.
From GL Require Mem.MemDB.
From Coq Require Import Arith ZArith Lia.
Open Scope N_scope.

Section Steps.
  Variable c : comparer.
  Hypothesis ok : comparer_ok c.
  Variable p : kparams.
  Hypothesis pok : kparams_ok p.
  Hypothesis seek_val : keyTypeSeek p <= keyTypeVal p.
  Variable mp : MemDB.mparams.
  Hypothesis mpok : MemDB.mparams_ok mp.
  Variable tp : tparams.
  Hypothesis tp_ok : tparams_ok tp.
  Variable crc : bytes -> N.
  Hypothesis crc_bound : forall b, crc b < 2 ^ 32.
  Variable compress : bytes -> bytes.
  Variable decompress : bytes -> option bytes.
  Hypothesis codec_ok : forall x, decompress (compress x) = Some x.
  Hypothesis compress_ne : forall x, compress x <> [].
  Variable fname : option bytes.
  Variable ufc : bytes -> N -> bytes -> bool.
  Variable verify : bool.
  Variable o : wopts.
  Hypothesis ri_pos : 1 <= wo_ri o.

  Local Notation ri := (wo_ri o).
  Local Notation icr := (ibc c).
  Local Notation wfb := (wf_bstate c p mp tp crc decompress fname ufc verify ri).
  Local Notation absS := (ReadPath.abs c mp tp crc decompress fname ufc verify ri).
  Local Notation atab := (abs_table c tp crc decompress fname ufc verify ri).
  Local Notation okb := (tfile_okb c p tp crc decompress fname ufc verify ri).
  Local Notation pairs := (tf_pairs c tp crc decompress fname ufc verify ri).
  Local Notation av := (aversion c tp crc decompress fname ufc verify o).
  Local Notation getb := (db_get_bytes c p mp tp crc decompress fname ufc verify).
  Local Notation wf_lsm := (wf_lsm c p).
  Local Notation inst := (install c tp crc decompress fname ufc verify o).

  Record bfull (st : bstate) : Prop := {
    bf_wf : wfb st;
    bf_lsm : wf_lsm (av st);
    bf_uniq : uniq_in (all_entries (absS st))
  }.

  Lemma abs_levels st : st_levels (absS st) = av st.
  Proof. reflexivity. Qed.

  Lemma all_entries_abs st :
    all_entries (absS st) = mem_entries mp (bs_mem st) ++ mem_entries mp (bs_frozen st) ++ LE (concat (av st)).
  Proof. reflexivity. Qed.

  Lemma in_LE_concat (v : list (list table)) x : In x (LE (concat v)) <-> exists i, In x (LE (lv v i)).
  Proof.
    rewrite LE_in. split.
    - intros (t & Ht & Hx). destruct (in_concat_lv v t Ht) as (j & Hj). exists j. apply LE_in. exists t. auto.
    - intros (i & Hx). apply LE_in in Hx as (t & Ht & Hx). exists t. split; [|exact Hx].
      apply in_concat. exists (lv v i). split; [|exact Ht]. unfold lv in *.
      destruct (Nat.lt_ge_cases i (length v)) as [L|L]; [apply nth_In; exact L|]. rewrite nth_overflow in Ht by lia. destruct Ht.
  Qed.

  (* ---------------- a well-formed L1 state from its parts ---------------- *)
  Lemma wf_state_parts mem frozen v :
    ssorted c mem -> kinds_ok p mem -> ssorted c frozen -> kinds_ok p frozen -> wf_lsm v ->
    newer_thanP mem frozen ->
    (forall i, newer_thanP mem (LE (lv v i))) -> (forall i, newer_thanP frozen (LE (lv v i))) ->
    wf_state c p {| st_mem := mem; st_frozen := frozen; st_aux := []; st_levels := v |}.
  Proof.
    intros S1 K1 S2 K2 W N1 N2 N3.
    destruct (wf_lsm_wf_state c p v W) as [_ _ Wa W0 Wd Wc]. cbn [st_mem st_frozen st_aux st_levels] in *.
    unfold comps in Wc. cbn [st_mem st_frozen st_aux st_levels chain_newer] in Wc. destruct Wc as (_ & _ & C3 & C4).
    assert (E : forall x, newer_thanP x []) by (intros x a b _ []).
    assert (Lv : forall x, (forall i, newer_thanP x (LE (lv v i))) -> Forall (fun y => newer_thanP x y) (map LE v)).
    { intros x H. apply Forall_forall. intros y Hy. apply in_map_iff in Hy as (l & <- & Hl).
      destruct (In_nth _ _ [] Hl) as (j & _ & <-). apply H. }
    constructor; cbn [st_mem st_frozen st_aux st_levels]; try assumption; try (split; assumption).
    unfold comps. cbn [st_mem st_frozen st_aux st_levels chain_newer].
    split; [constructor; [exact N1|constructor; [apply E|apply Lv; exact N2]]|].
    split; [constructor; [apply E|apply Lv; exact N3]|]. split; [exact C3|exact C4].
  Qed.

  (* what the parts of a well-formed state give back *)
  Lemma wf_state_newer st : wf_state c p st ->
    newer_thanP (st_mem st) (st_frozen st) /\
    (forall i, newer_thanP (st_mem st) (LE (lv (st_levels st) i))) /\
    (forall i, newer_thanP (st_frozen st) (LE (lv (st_levels st) i))).
  Proof.
    intros [_ _ _ _ _ Wc]. unfold comps in Wc. cbn [chain_newer] in Wc. destruct Wc as (C1 & C2 & _).
    inversion C1 as [|? ? N1 C1']; subst. inversion C1' as [|? ? _ C1'']; subst. inversion C2 as [|? ? _ C2']; subst.
    split; [exact N1|].
    assert (Lv : forall x, Forall (fun y => newer_thanP x y) (map LE (st_levels st)) -> forall i, newer_thanP x (LE (lv (st_levels st) i))).
    { intros x H i. unfold lv. destruct (Nat.lt_ge_cases i (length (st_levels st))) as [L|L].
      - rewrite Forall_forall in H. apply H. apply in_map. apply nth_In. exact L.
      - rewrite nth_overflow by lia. intros a b _ []. }
    split; apply Lv; assumption.
  Qed.

  Lemma mem_entries_wf d : (forall m, d = Some m -> mem_ok c p mp m) ->
    ssorted c (mem_entries mp d) /\ kinds_ok p (mem_entries mp d).
  Proof.
    intros H. destruct d as [m|]; [|split; [exact I|constructor]].
    destruct (H m eq_refl) as [(A & L & Iv) Hk]. cbn [mem_entries].
    assert (Hks : keys_ok p (mem_pairs mp m)).
    { unfold keys_ok. apply Forall_forall. unfold mem_keys_okb in Hk. rewrite forallb_forall in Hk. exact Hk. }
    split; [apply (sorted_ssorted c ok p _ Hks); apply (mem_pairs_sorted c p seek_val mp mpok m A L Iv)|apply (keys_ok_kinds p pok _ Hks)].
  Qed.

  (* ---------------- the files of a well-formed state have pairwise different numbers ---------------- *)
  Lemma files_nodup st : wf_lsm (av st) -> NoDup (map tf_num (files_of st)).
  Proof.
    intros W. unfold files_of. rewrite (files_nums c tp crc decompress fname ufc verify ri). apply (wf_lsm_nodup_nums c p). exact W.
  Qed.

  Lemma in_files_level st f : In f (files_of st) -> exists i, In (atab f) (lv (av st) i).
  Proof.
    unfold files_of. intros H. apply in_concat in H as (l & Hl & Hf). destruct (In_nth _ _ [] Hl) as (i & Hi & <-).
    exists i. unfold lv, aversion. rewrite (nth_indep _ [] (map atab [])) by (rewrite map_length; exact Hi).
    rewrite map_nth. apply in_map. exact Hf.
  Qed.

  Lemma in_level_file st i t : In t (lv (av st) i) -> exists f, In f (files_of st) /\ atab f = t.
  Proof.
    unfold lv, aversion. intros H.
    destruct (Nat.lt_ge_cases i (length (bs_levels st))) as [L|L].
    - rewrite (nth_indep _ [] (map atab [])) in H by (rewrite map_length; exact L). rewrite map_nth in H.
      apply in_map_iff in H as (f & <- & Hf). exists f. split; [|reflexivity].
      unfold files_of. apply in_concat. exists (nth i (bs_levels st) []). split; [apply nth_In; exact L|exact Hf].
    - rewrite nth_overflow in H by (rewrite map_length; lia). destruct H.
  Qed.

  (* ---------------- session.commit: the installed state ---------------- *)
  Lemma install_ok tr st newf ed mem frozen nv :
    wfb st -> wf_lsm (av st) ->
    finish c tr (av st) ed = POk nv ->
    Forall (fun f => okb f = true) newf ->
    NoDup (map tf_num (newf ++ files_of st)) ->
    (forall l t, In t (adds_at ed l) -> exists f, In f (newf ++ files_of st) /\ atab f = t) ->
    exists st', inst tr st newf ed mem frozen = Some st' /\
      bs_mem st' = mem /\ bs_frozen st' = frozen /\ av st' = nv /\
      Forall (Forall (fun f => okb f = true)) (bs_levels st').
  Proof.
    intros W Wl Ef Hnew Hnd Hadd. unfold install. rewrite Ef.
    assert (Hall : forall t, In t (concat nv) -> exists f, In f (newf ++ files_of st) /\ atab f = t).
    { intros t Ht. destruct (in_concat_lv nv t Ht) as (l & Hl).
      apply (finish_in c tr (av st) ed nv Ef l t) in Hl as [(Hb & _)|Ha]; [|apply (Hadd l t Ha)].
      destruct (in_level_file st l t Hb) as (f & Hf & E). exists f. split; [apply in_or_app; right; exact Hf|exact E]. }
    destruct (levels_for_ok c tp crc decompress fname ufc verify ri _ Hnd nv Hall) as (lvs & El & Ml & Il).
    rewrite El. cbn [option_map]. eexists. split; [reflexivity|]. cbn [bs_mem bs_frozen bs_levels].
    split; [reflexivity|]. split; [reflexivity|]. split; [exact Ml|].
    assert (Hpool : forall f, In f (newf ++ files_of st) -> okb f = true).
    { intros f Hf. apply in_app_or in Hf as [Hf|Hf]; [rewrite Forall_forall in Hnew; apply Hnew; exact Hf|].
      pose proof (wb_tables _ _ _ _ _ _ _ _ _ _ _ W) as Ht. unfold files_of in Hf. apply in_concat in Hf as (l & Hl & Hf).
      rewrite Forall_forall in Ht. specialize (Ht l Hl). rewrite Forall_forall in Ht. apply Ht. exact Hf. }
    apply Forall_forall. intros l Hl. apply Forall_forall. intros f Hf. apply Hpool. apply Il.
    apply in_concat. exists l. split; assumption.
  Qed.

  (* uniq_in and the sequence bound are properties of the SET of stored entries *)
  Lemma uniq_in_same l1 l2 : same_elems l1 l2 -> uniq_in l1 -> uniq_in l2.
  Proof. intros S U a b Ha Hb. apply U; apply S; assumption. Qed.

  Lemma LE_finish tr v ed nv : finish c tr v ed = POk nv -> forall x,
    In x (LE (concat nv)) <->
    exists l t, In x (t_entries t) /\
      ((In t (lv v l) /\ memN (t_num t) (dels_at ed l (lv v l)) = false /\ memN (t_num t) (nums_of (adds_at ed l)) = false)
       \/ In t (adds_at ed l)).
  Proof.
    intros Ef x. rewrite in_LE_concat. split.
    - intros (l & Hx). apply LE_in in Hx as (t & Ht & Hx). exists l, t. split; [exact Hx|].
      apply (finish_in c tr v ed nv Ef l t). exact Ht.
    - intros (l & t & Hx & Ht). exists l. apply LE_in. exists t. split; [|exact Hx].
      apply (finish_in c tr v ed nv Ef l t). exact Ht.
  Qed.

  (* ---------------- rotateMem / newMem ---------------- *)
  Theorem rotate_step st d : bfull st -> bs_mem st = Some d -> bs_frozen st = None ->
    exists st' d0, b_rotate mp st = Some st' /\ bfull st' /\
      bs_mem st' = Some d0 /\ bs_frozen st' = Some d /\ bs_levels st' = bs_levels st /\
      st_mem (absS st') = [] /\ st_frozen (absS st') = st_mem (absS st) /\ st_levels (absS st') = st_levels (absS st) /\
      all_entries (absS st') = all_entries (absS st).
  Proof.
    intros [W Wl U] Hm Hf.
    destruct (mem_new_ok c p seek_val mp mpok) as (d0 & E0 & M0 & P0).
    unfold b_rotate. rewrite Hm, Hf, E0. eexists. exists d0. split; [reflexivity|].
    set (st' := mkBS (Some d0) (Some d) (bs_levels st)).
    assert (Em : st_mem (absS st') = []) by (cbn [ReadPath.abs st_mem st' bs_mem mem_entries]; rewrite P0; reflexivity).
    assert (Efz : st_frozen (absS st') = st_mem (absS st)) by (cbn [ReadPath.abs st_mem st_frozen st' bs_mem bs_frozen]; rewrite Hm; reflexivity).
    assert (Eall : all_entries (absS st') = all_entries (absS st)).
    { rewrite !all_entries_abs. cbn [st' bs_mem bs_frozen]. rewrite Hm, Hf. cbn [mem_entries]. rewrite P0. cbn [map app]. reflexivity. }
    destruct (wf_state_newer _ (wb_abs _ _ _ _ _ _ _ _ _ _ _ W)) as (_ & N2 & _).
    destruct (mem_entries_wf (bs_mem st) (wb_mem _ _ _ _ _ _ _ _ _ _ _ W)) as [S1 K1].
    split; [|repeat split; try reflexivity; assumption].
    constructor.
    - constructor.
      + intros x Hx. cbn [st' bs_mem] in Hx. injection Hx as <-. exact M0.
      + intros x Hx. cbn [st' bs_frozen] in Hx. injection Hx as <-. apply (wb_mem _ _ _ _ _ _ _ _ _ _ _ W). exact Hm.
      + exact (wb_tables _ _ _ _ _ _ _ _ _ _ _ W).
      + change (absS st') with {| st_mem := st_mem (absS st'); st_frozen := st_frozen (absS st'); st_aux := []; st_levels := av st |}.
        rewrite Em, Efz. apply wf_state_parts; try assumption.
        * exact I.
        * constructor.
        * intros a b [].
        * intros i a b [].
    - exact Wl.
    - rewrite Eall. exact U.
  Qed.

  (* ---------------- memCompaction ---------------- *)
  Local Notation fsz st := (file_size (files_of st)).

  Lemma write_table_some num kvs data : kvs <> [] -> table_bytes c p tp crc compress o kvs = Some data ->
    write_table c p tp crc compress o num kvs = Some (mkTF num (key_first kvs) (key_last kvs) data).
  Proof. intros Hne E. unfold write_table. destruct kvs; [congruence|]. rewrite E. reflexivity. Qed.

  Definition frozen_table (num : N) (st : bstate) : table := {| t_num := num; t_entries := st_frozen (absS st) |}.

  Theorem flush_step st d num :
    bfull st -> bs_frozen st = Some d ->
    (forall f, In f (files_of st) -> tf_num f <> num) ->
    (forall x, In x (all_entries (absS st)) -> e_seq x <= keyMaxSeq p) ->
    (mem_pairs mp d <> [] -> write_sizes_ok c p tp crc compress o (mem_pairs mp d) = true) ->
    (wo_filter o = None \/
     forall f, write_table c p tp crc compress o num (mem_pairs mp d) = Some f ->
               filter_part c tp crc decompress fname ufc verify f = true) ->
    exists st', b_flush c p mp tp crc compress decompress fname ufc verify o num st = Some st' /\ bfull st' /\
      same_elems (all_entries (absS st)) (all_entries (absS st')) /\
      bs_mem st' = bs_mem st /\ bs_frozen st' = None /\
      (mem_pairs mp d = [] -> bs_levels st' = bs_levels st) /\
      (mem_pairs mp d <> [] ->
         finish c true (av st) (flush_edit c p (fsz st) (av st) (wo_gpOverlaps o) (wo_memMaxLevel o) (frozen_table num st))
         = POk (av st') /\
         exists f, write_table c p tp crc compress o num (mem_pairs mp d) = Some f /\ okb f = true /\
                   atab f = frozen_table num st /\ In f (files_of st')).
  Proof.
    intros [W Wl U] Hfz Hfresh Hseq Hsz Hflt.
    pose proof (wb_frozen _ _ _ _ _ _ _ _ _ _ _ W d Hfz) as Md.
    unfold b_flush. rewrite Hfz, (mem_iter_pairs c ok p seek_val mp mpok d Md).
    assert (Efr : st_frozen (absS st) = map entry_of (mem_pairs mp d)) by (cbn [ReadPath.abs st_frozen]; rewrite Hfz; reflexivity).
    destruct (mem_pairs mp d) as [|kv0 kvr] eqn:Ekv.
    - (* empty: the frozen memdb is dropped *)
      eexists. split; [reflexivity|]. set (st' := mkBS (bs_mem st) None (bs_levels st)).
      assert (Eabs : absS st' = absS st).
      { unfold ReadPath.abs. cbn [st' bs_mem bs_frozen bs_levels]. rewrite Hfz. cbn [mem_entries]. rewrite Ekv. reflexivity. }
      split; [constructor|].
      + constructor.
        * exact (wb_mem _ _ _ _ _ _ _ _ _ _ _ W).
        * intros x Hx. discriminate.
        * exact (wb_tables _ _ _ _ _ _ _ _ _ _ _ W).
        * rewrite Eabs. exact (wb_abs _ _ _ _ _ _ _ _ _ _ _ W).
      + exact Wl.
      + rewrite Eabs. exact U.
      + rewrite Eabs. split; [intros x; reflexivity|]. split; [reflexivity|]. split; [reflexivity|]. split; [reflexivity|]. intros Q. congruence.
    - (* a table is written *)
      set (kvs := kv0 :: kvr) in *. assert (Hne : kvs <> []) by discriminate.
      specialize (Hsz Hne). pose proof Hsz as Hsz0. unfold write_sizes_ok in Hsz0. apply andb_prop in Hsz0 as [_ Hb].
      destruct (table_bytes c p tp crc compress o kvs) as [data|] eqn:Eb; [|discriminate].
      assert (Ewt : write_table c p tp crc compress o num kvs = Some (mkTF num (key_first kvs) (key_last kvs) data)).
      { apply write_table_some; assumption. }
      set (f := mkTF num (key_first kvs) (key_last kvs) data) in *.
      destruct Md as [(A & L & Iv) Hk].
      assert (Hks : Forall (fun kv => key_okb p (fst kv) = true) kvs).
      { apply Forall_forall. unfold mem_keys_okb in Hk. rewrite forallb_forall in Hk. rewrite Ekv in Hk. exact Hk. }
      pose proof (mem_pairs_sorted c p seek_val mp mpok d A L Iv) as Hso. rewrite Ekv in Hso.
      destruct (writer_output_ok c ok p pok tp tp_ok crc crc_bound compress decompress codec_ok compress_ne fname ufc verify o ri_pos
                  num kvs data Hso Hne Hks Eb Hsz) as (Hokf & Hpf & _).
      { destruct Hflt as [Hn|Hf]; [left; exact Hn|right; apply Hf; exact Ewt]. }
      fold f in Hokf, Hpf.
      assert (Etab : atab f = frozen_table num st).
      { unfold abs_table, frozen_table. rewrite Hpf, Efr. reflexivity. }
      rewrite Ewt.
      (* the hypotheses of the L1 flush step *)
      destruct (mem_entries_wf (bs_frozen st) (wb_frozen _ _ _ _ _ _ _ _ _ _ _ W)) as [S2 K2].
      change (mem_entries mp (bs_frozen st)) with (st_frozen (absS st)) in S2, K2.
      destruct (wf_state_newer _ (wb_abs _ _ _ _ _ _ _ _ _ _ _ W)) as (N1 & N2 & N3).
      assert (Hfin : forall x, In x (st_frozen (absS st)) -> In x (all_entries (absS st))).
      { intros x Hx. unfold all_entries. apply in_or_app. right. apply in_or_app. left. exact Hx. }
      assert (Hlin : forall i x, In x (LE (lv (av st) i)) -> In x (all_entries (absS st))).
      { intros i x Hx. rewrite all_entries_abs. apply in_or_app. right. apply in_or_app. right.
        apply in_LE_concat. exists i. exact Hx. }
      assert (FO : flushed_ok c p (av st) (frozen_table num st)).
      { split; [|split; [|split]].
        - split; [split; assumption|]. cbn [frozen_table t_entries]. rewrite Efr. discriminate.
        - cbn [frozen_table t_entries]. apply (ssorted_uniq c ok); [exact S2|].
          intros a b Ha Hb'. apply U; apply Hfin; assumption.
        - intros i x y Hx Hy. cbn [frozen_table t_entries] in Hx. apply (N3 i x y Hx Hy).
        - intros i s Hs. destruct (in_level_file st i s Hs) as (g & Hg & <-). cbn [frozen_table t_num abs_table]. apply Hfresh. exact Hg. }
      assert (SF : seqs_fit p (av st)).
      { intros i t Ht. apply Hseq. apply (Hlin i). apply LE_in. exists t. split; [exact Ht|].
        destruct (wl_tbl c p _ Wl i t Ht) as [_ Hnz]. unfold t_hi. destruct (t_entries t) as [|e r] eqn:Et; [congruence|].
        rewrite (ReadPathProofs.last_cons_dflt r e no_entry). apply (ReadPathProofs.in_last r e). }
      destruct (flush_step c ok p pok (fsz st) (av st) (wo_gpOverlaps o) (wo_memMaxLevel o) _ Wl SF FO) as (nv & Ef & Wnv).
      rewrite Etab.
      set (ed := flush_edit c p (fsz st) (av st) (wo_gpOverlaps o) (wo_memMaxLevel o) (frozen_table num st)) in *.
      set (k := pick_memdb_level c p (fsz st) (av st) (Some (umin_of (frozen_table num st))) (Some (umax_of (frozen_table num st)))
                  (wo_gpOverlaps o) (wo_memMaxLevel o)) in *.
      assert (Eadd : forall l, adds_at ed l = if Nat.eqb k l then [frozen_table num st] else []).
      { intros l. unfold adds_at, ed, flush_edit. cbn [ed_add filter fst]. fold k. destruct (Nat.eqb k l); reflexivity. }
      assert (Edel : forall l base, dels_at ed l base = []).
      { intros l base. unfold dels_at, ed, flush_edit. cbn [ed_del filter map]. destruct base; reflexivity. }
      destruct (install_ok true st [f] ed (bs_mem st) None nv W Wl Ef) as (st' & Ei & Em' & Ef' & Eav & Hall).
      { constructor; [exact Hokf|constructor]. }
      { cbn [app map]. constructor; [|apply files_nodup; exact Wl].
        intros Hin. apply in_map_iff in Hin as (g & Eg & Hg). apply (Hfresh g Hg). exact Eg. }
      { intros l t Ht. rewrite Eadd in Ht. destruct (Nat.eqb k l); [|destruct Ht]. destruct Ht as [<-|[]].
        exists f. split; [left; reflexivity|exact Etab]. }
      exists st'. split; [exact Ei|].
      (* the entries of the new levels: the old ones and the frozen memdb's *)
      assert (HLE : forall x, In x (LE (concat (av st'))) <-> In x (st_frozen (absS st)) \/ In x (LE (concat (av st)))).
      { intros x. rewrite Eav, (LE_finish true (av st) ed nv Ef x). split.
        - intros (l & t & Hx & [(Ht & _)|Ht]).
          + right. apply in_LE_concat. exists l. apply LE_in. exists t. auto.
          + rewrite Eadd in Ht. destruct (Nat.eqb k l); [|destruct Ht]. destruct Ht as [<-|[]]. left. exact Hx.
        - intros [Hx|Hx].
          + exists k, (frozen_table num st). split; [exact Hx|]. right. rewrite Eadd, Nat.eqb_refl. left. reflexivity.
          + apply in_LE_concat in Hx as (l & Hx). apply LE_in in Hx as (t & Ht & Hx). exists l, t. split; [exact Hx|]. left.
            split; [exact Ht|]. rewrite Edel. split; [reflexivity|]. rewrite Eadd.
            destruct (Nat.eqb k l); [|reflexivity]. cbn [nums_of map memN existsb frozen_table t_num].
            destruct (in_level_file st l t Ht) as (g & Hg & <-). cbn [abs_table t_num].
            destruct (N.eqb_spec (tf_num g) num) as [Q|Q]; [exfalso; apply (Hfresh g Hg Q)|reflexivity]. }
      assert (Hnewlv : forall i x, In x (LE (lv (av st') i)) -> In x (st_frozen (absS st)) \/ exists j, In x (LE (lv (av st) j))).
      { intros i x Hx. assert (Hc : In x (LE (concat (av st')))) by (apply in_LE_concat; exists i; exact Hx).
        apply HLE in Hc as [Hc|Hc]; [left; exact Hc|right; apply in_LE_concat; exact Hc]. }
      assert (SE : same_elems (all_entries (absS st)) (all_entries (absS st'))).
      { intros x. rewrite !all_entries_abs, Em', Ef'. cbn [mem_entries app]. rewrite !in_app_iff, HLE.
        change (mem_entries mp (bs_frozen st)) with (st_frozen (absS st)). tauto. }
      split; [constructor|].
      + constructor.
        * rewrite Em'. exact (wb_mem _ _ _ _ _ _ _ _ _ _ _ W).
        * rewrite Ef'. intros x Hx. discriminate.
        * exact Hall.
        * destruct (mem_entries_wf (bs_mem st) (wb_mem _ _ _ _ _ _ _ _ _ _ _ W)) as [S1 K1].
          change (absS st') with {| st_mem := mem_entries mp (bs_mem st'); st_frozen := mem_entries mp (bs_frozen st'); st_aux := []; st_levels := av st' |}.
          rewrite Em', Ef'. cbn [mem_entries]. apply wf_state_parts; try assumption.
          -- exact I.
          -- constructor.
          -- rewrite Eav. exact Wnv.
          -- intros a b _ [].
          -- intros i a b Ha Hb2. destruct (Hnewlv i b Hb2) as [Hb'|(j & Hb')]; [apply (N1 a b Ha Hb')|apply (N2 j a b Ha Hb')].
          -- intros i a b [].
      + rewrite Eav. exact Wnv.
      + apply (uniq_in_same _ _ SE U).
      + split; [exact SE|]. split; [exact Em'|]. split; [exact Ef'|]. split; [intros Q; discriminate|].
        intros _. split; [rewrite Eav; exact Ef|]. exists f. split; [reflexivity|]. split; [exact Hokf|]. split; [exact Etab|].
        (* the new file is installed *)
        assert (Hin : In (frozen_table num st) (lv (av st') k)).
        { rewrite Eav. apply (finish_in c true (av st) ed nv Ef k). right. rewrite Eadd, Nat.eqb_refl. left. reflexivity. }
        destruct (in_level_file st' k _ Hin) as (g & Hg & Eg).
        assert (g = f); [|subst g; exact Hg].
        unfold install in Ei. rewrite Ef in Ei.
        destruct (levels_for ([f] ++ files_of st) nv) as [lvs|] eqn:El; [|discriminate]. cbn [option_map] in Ei. injection Ei as <-.
        cbn [files_of bs_levels] in Hg.
        assert (Hnd : NoDup (map tf_num ([f] ++ files_of st))).
        { cbn [app map]. constructor; [|apply files_nodup; exact Wl].
          intros Hi. apply in_map_iff in Hi as (g' & Eg' & Hg'). apply (Hfresh g' Hg'). exact Eg'. }
        assert (Hall2 : forall t, In t (concat nv) -> exists f0, In f0 ([f] ++ files_of st) /\ atab f0 = t).
        { intros t Ht. destruct (in_concat_lv nv t Ht) as (l & Hl).
          apply (finish_in c true (av st) ed nv Ef l t) in Hl as [(Hb' & _)|Ha].
          - destruct (in_level_file st l t Hb') as (f0 & Hf0 & E0). exists f0. split; [right; exact Hf0|exact E0].
          - rewrite Eadd in Ha. destruct (Nat.eqb k l); [|destruct Ha]. destruct Ha as [<-|[]]. exists f. split; [left; reflexivity|exact Etab]. }
        destruct (levels_for_ok c tp crc decompress fname ufc verify ri _ Hnd nv Hall2) as (lvs' & El' & _ & Il').
        rewrite El in El'. injection El' as <-.
        specialize (Il' g Hg). destruct Il' as [Q|Q]; [symmetry; exact Q|].
        exfalso. apply (Hfresh g Q). pose proof (f_equal t_num Eg) as En. cbn [abs_table t_num frozen_table] in En. exact En.
  Qed.

  (* ---------------- entries stored in table files, and writing them back ---------------- *)
  Definition stored (e : entry) : Prop :=
    exists kv, e = entry_of kv /\ key_okb p (fst kv) = true /\ item_kv (IGood e) = kv.

  Lemma stored_of_kv kv : key_okb p (fst kv) = true -> stored (entry_of kv).
  Proof.
    intros Hk. exists kv. split; [reflexivity|]. split; [exact Hk|].
    destruct (key_okb_dec p _ Hk) as (k & D & _). unfold item_kv.
    rewrite (e_ikey_entry_of kv k D), (entry_of_dec kv k D). cbn [e_val].
    destruct (ik_dec_some _ _ D) as (_ & _ & E). rewrite E. destruct kv; reflexivity.
  Qed.

  Lemma file_entries_stored f e : okb f = true -> In e (t_entries (atab f)) -> stored e.
  Proof.
    intros Hf He. destruct (okb_facts c p tp crc decompress fname ufc verify ri f Hf) as (bl & se & hs & F).
    unfold abs_table in He. cbn [t_entries] in He. apply in_map_iff in He as (kv & <- & Hkv).
    apply stored_of_kv. pose proof (tff_keys _ _ _ _ _ _ _ _ _ _ _ _ _ F) as Hk.
    rewrite <- (tff_pairs _ _ _ _ _ _ _ _ _ _ _ _ _ F) in Hk. unfold keys_ok in Hk. rewrite Forall_forall in Hk. apply Hk. exact Hkv.
  Qed.

  Lemma level_entries_stored st i e : wfb st -> In e (LE (lv (av st) i)) -> stored e.
  Proof.
    intros W He. apply LE_in in He as (t & Ht & He). destruct (in_level_file st i t Ht) as (f & Hf & <-).
    apply (file_entries_stored f e); [|exact He].
    pose proof (wb_tables _ _ _ _ _ _ _ _ _ _ _ W) as Hts. unfold files_of in Hf. apply in_concat in Hf as (l & Hl & Hf).
    rewrite Forall_forall in Hts. specialize (Hts l Hl). rewrite Forall_forall in Hts. apply Hts. exact Hf.
  Qed.

  Lemma chunk_kvs_entries es : Forall stored es ->
    map entry_of (chunk_kvs es) = es /\ Forall (fun kv => key_okb p (fst kv) = true) (chunk_kvs es).
  Proof.
    induction es as [|e es IH]; intros H; [split; [reflexivity|constructor]|].
    inversion H as [|? ? Hs H']; subst. destruct Hs as (kv & E1 & Hk & E2). destruct (IH H') as [J1 J2].
    unfold chunk_kvs in *. cbn [map]. rewrite E2. split; [rewrite <- E1, J1; reflexivity|constructor; assumption].
  Qed.

  (* entries strictly ordered by the internal-key order = their encoded keys strictly ordered *)
  Lemma ssorted_sorted_from k0 kv0 kvs : ik_dec (fst kv0) = Some k0 -> keys_ok p kvs ->
    ssorted c (map entry_of (kv0 :: kvs)) -> Cursor.sorted_from icr (fst kv0) kvs.
  Proof.
    revert k0 kv0. induction kvs as [|[k1 v1] kvs IH]; intros k0 kv0 D0 Hk Hs; [exact I|].
    inversion Hk as [|? ? Hk1 Hk']; subst. cbn [fst] in Hk1. destruct (key_okb_dec p _ Hk1) as (x1 & D1 & _).
    cbn [map ssorted] in Hs. destruct Hs as [F1 Hs]. cbn [Cursor.sorted_from]. split.
    - inversion F1 as [|? ? E1 _]; subst. unfold ecmp in E1.
      rewrite (e_ikey_entry_of kv0 k0 D0), (e_ikey_entry_of (k1, v1) x1 D1) in E1.
      rewrite (ibc_dec c _ _ _ _ D0 D1). exact E1.
    - apply (IH x1 (k1, v1) D1 Hk'). cbn [map ssorted]. exact Hs.
  Qed.

  Lemma ssorted_sorted kvs : keys_ok p kvs -> ssorted c (map entry_of kvs) -> Cursor.sorted icr kvs.
  Proof.
    destruct kvs as [|[k0 v0] kvs]; [intros; exact I|]. intros Hk Hs.
    inversion Hk as [|? ? Hk0 Hk']; subst. cbn [fst] in Hk0. destruct (key_okb_dec p _ Hk0) as (x0 & D0 & _).
    cbn [Cursor.sorted]. apply (ssorted_sorted_from x0 (k0, v0) kvs D0 Hk' Hs).
  Qed.

  (* tableCompactionBuilder's output tables, written by the model writer *)
  (* the filter condition of ONE written table: no filter policy configured (goleveldb's default), or the file the model
     writer produces for these pairs satisfies the no-false-negative condition of property C16 (ReadPath.filter_okb, a
     boolean the correspondence run evaluates) *)
  Definition table_filter_ok (kvs : list (bytes * bytes)) : Prop :=
    wo_filter o = None \/
    forall n f, write_table c p tp crc compress o n kvs = Some f -> filter_part c tp crc decompress fname ufc verify f = true.

  (* ... for every table the session could write *)
  Definition filter_safe : Prop :=
    wo_filter o = None \/
    forall n kvs f, write_table c p tp crc compress o n kvs = Some f -> filter_part c tp crc decompress fname ufc verify f = true.

  Lemma filter_safe_table kvs : filter_safe -> table_filter_ok kvs.
  Proof. intros [H|H]; [left; exact H|right; intros n f; apply H]. Qed.

  Definition chunk_ok (ch : list entry) : Prop :=
    ch <> [] /\ Forall stored ch /\ ssorted c ch /\ write_sizes_ok c p tp crc compress o (chunk_kvs ch) = true /\
    table_filter_ok (chunk_kvs ch).

  Lemma write_chunk n ch : chunk_ok ch ->
    exists f, write_table c p tp crc compress o n (chunk_kvs ch) = Some f /\ okb f = true /\
              atab f = {| t_num := n; t_entries := ch |} /\ tf_num f = n.
  Proof.
    intros (Hne & Hst & Hso & Hsz & Hfl). destruct (chunk_kvs_entries ch Hst) as [Eent Hk].
    assert (Hkne : chunk_kvs ch <> []) by (destruct ch; [congruence|discriminate]).
    pose proof Hsz as Hsz0. unfold write_sizes_ok in Hsz0. apply andb_prop in Hsz0 as [_ Hb].
    destruct (table_bytes c p tp crc compress o (chunk_kvs ch)) as [data|] eqn:Eb; [|discriminate].
    pose proof (write_table_some n _ data Hkne Eb) as Ewt.
    assert (Hsorted : Cursor.sorted icr (chunk_kvs ch)) by (apply ssorted_sorted; [exact Hk|rewrite Eent; exact Hso]).
    destruct (writer_output_ok c ok p pok tp tp_ok crc crc_bound compress decompress codec_ok compress_ne fname ufc verify o ri_pos
                n (chunk_kvs ch) data Hsorted Hkne Hk Eb Hsz) as (Hokf & Hpf & _).
    { destruct Hfl as [Hn|Hf]; [left; exact Hn|right; apply (Hf n); exact Ewt]. }
    eexists. split; [exact Ewt|]. split; [exact Hokf|]. split; [|reflexivity].
    unfold abs_table. rewrite Hpf, Eent. reflexivity.
  Qed.

  Lemma write_outputs_ok : forall nums chunks, length nums = length chunks -> Forall chunk_ok chunks ->
    exists outs, write_outputs c p tp crc compress o nums chunks = Some outs /\
      Forall (fun f => okb f = true) outs /\ map atab outs = mk_outputs nums chunks /\ map tf_num outs = nums.
  Proof.
    induction nums as [|n nums IH]; intros [|ch chunks] Hl Hc; cbn [length] in Hl; try lia.
    - exists []. repeat split; constructor.
    - inversion Hc as [|? ? Hch Hc']; subst.
      destruct (write_chunk n ch Hch) as (f & Ef & Hok & Et & En).
      destruct (IH chunks ltac:(lia) Hc') as (outs & Eo & Ho & Mo & No).
      exists (f :: outs). cbn [write_outputs]. rewrite Ef, Eo. split; [reflexivity|].
      split; [constructor; assumption|]. split; [cbn [map mk_outputs]; rewrite Et, Mo; reflexivity|cbn [map]; rewrite En, No; reflexivity].
  Qed.

  (* ---------------- the record of a table compaction / trivial move: which entries the new version holds ---------------- *)
  Lemma memN_filter n (g : N -> bool) l : memN n (filter g l) = true <-> memN n l = true /\ g n = true.
  Proof.
    unfold memN. rewrite !existsb_exists. split.
    - intros (m & Hm & E). apply filter_In in Hm as [Hm Hg]. apply N.eqb_eq in E. subst m. split; [|exact Hg].
      exists n. split; [exact Hm|apply N.eqb_refl].
    - intros [(m & Hm & E) Hg]. apply N.eqb_eq in E. subst m. exists n. split; [apply filter_In; split; assumption|apply N.eqb_refl].
  Qed.

  Lemma memN_app n a b : memN n (a ++ b) = memN n a || memN n b.
  Proof. unfold memN. apply existsb_app. Qed.

  Section CE.
    Variables (v : list (list table)) (lvl : nat) (cm : compaction) (outs : list table) (nv : list (list table)).
    Hypothesis Wv : wf_lsm v.
    Hypothesis Elvl : c_level cm = lvl.
    Hypothesis I0 : incl (c_t0 cm) (lv v lvl).
    Hypothesis I1 : incl (c_t1 cm) (lv v (S lvl)).
    Local Notation inputs := (c_t0 cm ++ c_t1 cm).
    Hypothesis Houts : forall x l t', In x outs -> In t' (lv v l) -> t_num t' = t_num x -> In t' inputs.
    Hypothesis Efin : finish c true v (compaction_edit cm outs) = POk nv.
    Local Notation ed := (compaction_edit cm outs).

    Lemma ce_keep l t' : In t' (lv v l) ->
      (memN (t_num t') (dels_at ed l (lv v l)) = false /\ memN (t_num t') (nums_of (adds_at ed l)) = false)
      <-> is_input (nums_of inputs) t' = false.
    Proof.
      intros Ht'. change (is_input (nums_of inputs) t') with (memN (t_num t') (nums_of inputs)).
      assert (Hbase : lv v l <> []) by (intros Q; rewrite Q in Ht'; destruct Ht').
      assert (Edel : dels_at ed l (lv v l) =
                     filter (fun n => negb (memN n (nums_of (adds_at ed l))))
                            ((if Nat.eqb (c_level cm) l then nums_of (c_t0 cm) else []) ++
                             (if Nat.eqb (S (c_level cm)) l then nums_of (c_t1 cm) else []))).
      { unfold dels_at. rewrite (dels_raw_ce cm outs l). destruct (lv v l); [congruence|reflexivity]. }
      rewrite Edel. split.
      - intros [D A]. destruct (memN (t_num t') (nums_of inputs)) eqn:Q; [|reflexivity]. exfalso.
        apply memN_nums in Q as (ti & Hti & En).
        assert (Hraw : memN (t_num t') ((if Nat.eqb (c_level cm) l then nums_of (c_t0 cm) else []) ++
                             (if Nat.eqb (S (c_level cm)) l then nums_of (c_t1 cm) else [])) = true).
        { rewrite memN_app. apply in_app_or in Hti as [Hti|Hti].
          - destruct (wl_nums c p v Wv lvl l ti t' (I0 _ Hti) Ht' En) as [<- _]. rewrite Elvl, Nat.eqb_refl.
            apply Bool.orb_true_iff. left. apply memN_nums. exists ti. auto.
          - destruct (wl_nums c p v Wv (S lvl) l ti t' (I1 _ Hti) Ht' En) as [<- _]. rewrite Elvl, Nat.eqb_refl.
            apply Bool.orb_true_iff. right. apply memN_nums. exists ti. auto. }
        assert (T : memN (t_num t') (filter (fun n => negb (memN n (nums_of (adds_at ed l))))
                             ((if Nat.eqb (c_level cm) l then nums_of (c_t0 cm) else []) ++
                              (if Nat.eqb (S (c_level cm)) l then nums_of (c_t1 cm) else []))) = true).
        { apply memN_filter. split; [exact Hraw|]. rewrite A. reflexivity. }
        congruence.
      - intros Q. split.
        + destruct (memN (t_num t') (filter _ _)) eqn:T; [|reflexivity]. exfalso.
          apply memN_filter in T as [T _]. rewrite memN_app in T. apply Bool.orb_true_iff in T as [T|T].
          * destruct (Nat.eqb (c_level cm) l); [|discriminate]. apply memN_nums in T as (ti & Hti & En).
            assert (memN (t_num t') (nums_of inputs) = true) by (apply memN_nums; exists ti; split; [apply in_or_app; left; exact Hti|exact En]).
            congruence.
          * destruct (Nat.eqb (S (c_level cm)) l); [|discriminate]. apply memN_nums in T as (ti & Hti & En).
            assert (memN (t_num t') (nums_of inputs) = true) by (apply memN_nums; exists ti; split; [apply in_or_app; right; exact Hti|exact En]).
            congruence.
        + destruct (memN (t_num t') (nums_of (adds_at ed l))) eqn:T; [|reflexivity]. exfalso.
          apply memN_nums in T as (x & Hx & En). rewrite adds_at_ce in Hx.
          destruct (Nat.eqb (S (c_level cm)) l); [|destruct Hx].
          pose proof (Houts x l t' Hx Ht' (eq_sym En)) as Hin.
          assert (memN (t_num t') (nums_of inputs) = true) by (apply memN_nums; exists t'; split; [exact Hin|reflexivity]).
          congruence.
    Qed.

    Lemma ce_entries x :
      In x (LE (concat nv)) <->
      In x (LE outs) \/ In x (LE (filter (fun t => negb (is_input (nums_of inputs) t)) (concat v))).
    Proof.
      rewrite (LE_finish true v ed nv Efin x). split.
      - intros (l & t & Hx & [(Ht & K)|Ht]).
        + right. apply LE_in. exists t. split; [|exact Hx]. apply filter_In. split.
          * apply in_concat. exists (lv v l). split; [|exact Ht]. unfold lv in *.
            destruct (Nat.lt_ge_cases l (length v)) as [L|L]; [apply nth_In; exact L|]. rewrite nth_overflow in Ht by lia. destruct Ht.
          * apply (ce_keep l t Ht) in K. rewrite K. reflexivity.
        + left. rewrite adds_at_ce in Ht. destruct (Nat.eqb (S (c_level cm)) l); [|destruct Ht]. apply LE_in. exists t. auto.
      - intros [Hx|Hx].
        + apply LE_in in Hx as (t & Ht & Hx). exists (S lvl), t. split; [exact Hx|]. right. rewrite adds_at_ce, Elvl, Nat.eqb_refl. exact Ht.
        + apply LE_in in Hx as (t & Ht & Hx). apply filter_In in Ht as [Ht K]. apply Bool.negb_true_iff in K.
          destruct (in_concat_lv v t Ht) as (l & Hl). exists l, t. split; [exact Hx|]. left. split; [exact Hl|].
          apply (ce_keep l t Hl). exact K.
    Qed.
  End CE.

  Lemma uniq_in_incl l1 l2 : (forall x, In x l2 -> In x l1) -> uniq_in l1 -> uniq_in l2.
  Proof. intros S U a b Ha Hb. apply U; apply S; assumption. Qed.

  Definition others_of (st : bstate) (cm : compaction) : list entry :=
    LE (filter (fun t => negb (is_input (nums_of (c_t0 cm ++ c_t1 cm)) t)) (concat (av st))).
  Definition bufs_of (st : bstate) : list entry := st_mem (absS st) ++ st_frozen (absS st).

  (* the stored tables = the inputs and the others *)
  Lemma split_inputs st lvl cm : wf_lsm (av st) -> incl (c_t0 cm) (lv (av st) lvl) -> incl (c_t1 cm) (lv (av st) (S lvl)) ->
    forall x, In x (LE (concat (av st))) <-> In x (LE (c_t0 cm ++ c_t1 cm)) \/ In x (others_of st cm).
  Proof.
    intros Wl I0 I1 x. unfold others_of. rewrite !LE_in. split.
    - intros (t & Ht & Hx). destruct (is_input (nums_of (c_t0 cm ++ c_t1 cm)) t) eqn:Q.
      + left. exists t. split; [|exact Hx]. change (memN (t_num t) (nums_of (c_t0 cm ++ c_t1 cm)) = true) in Q.
        apply memN_nums in Q as (ti & Hti & En). destruct (in_concat_lv _ t Ht) as (l & Hl).
        assert (Hlv : exists j, In ti (lv (av st) j)).
        { apply in_app_or in Hti as [H|H]; [exists lvl; apply I0; exact H|exists (S lvl); apply I1; exact H]. }
        destruct Hlv as (j & Hj). destruct (wl_nums c p _ Wl j l ti t Hj Hl En) as [_ <-]. exact Hti.
      + right. exists t. split; [|exact Hx]. apply filter_In. split; [exact Ht|rewrite Q; reflexivity].
    - intros [(t & Ht & Hx)|(t & Ht & Hx)].
      + exists t. split; [|exact Hx]. apply in_app_or in Ht as [Ht|Ht].
        * apply in_concat. exists (lv (av st) lvl). split; [|apply I0; exact Ht]. unfold lv.
          destruct (Nat.lt_ge_cases lvl (length (av st))) as [L|L]; [apply nth_In; exact L|].
          specialize (I0 t Ht). unfold lv in I0. rewrite nth_overflow in I0 by lia. destruct I0.
        * apply in_concat. exists (lv (av st) (S lvl)). split; [|apply I1; exact Ht]. unfold lv.
          destruct (Nat.lt_ge_cases (S lvl) (length (av st))) as [L|L]; [apply nth_In; exact L|].
          specialize (I1 t Ht). unfold lv in I1. rewrite nth_overflow in I1 by lia. destruct I1.
      + apply filter_In in Ht as [Ht _]. exists t. auto.
  Qed.

  Lemma all_entries_bufs st x : In x (all_entries (absS st)) <-> In x (bufs_of st) \/ In x (LE (concat (av st))).
  Proof. rewrite all_entries_abs. unfold bufs_of. cbn [ReadPath.abs st_mem st_frozen]. rewrite !in_app_iff. tauto. Qed.

  (* installing the record of a table compaction or of a trivial move *)
  Lemma reorg_install st lvl cm newf outs nv :
    bfull st -> c_level cm = lvl -> incl (c_t0 cm) (lv (av st) lvl) -> incl (c_t1 cm) (lv (av st) (S lvl)) ->
    finish c true (av st) (compaction_edit cm outs) = POk nv -> wf_lsm nv ->
    Forall (fun f => okb f = true) newf -> NoDup (map tf_num (newf ++ files_of st)) ->
    (forall t, In t outs -> exists f, In f (newf ++ files_of st) /\ atab f = t) ->
    (forall x l t', In x outs -> In t' (lv (av st) l) -> t_num t' = t_num x -> In t' (c_t0 cm ++ c_t1 cm)) ->
    (forall x, In x (LE outs) -> In x (LE (c_t0 cm ++ c_t1 cm))) ->
    exists st', inst true st newf (compaction_edit cm outs) (bs_mem st) (bs_frozen st) = Some st' /\ bfull st' /\
      bs_mem st' = bs_mem st /\ bs_frozen st' = bs_frozen st /\ av st' = nv /\
      (forall x, In x (all_entries (absS st')) <-> In x (bufs_of st) \/ In x (LE outs) \/ In x (others_of st cm)).
  Proof.
    intros [W Wl U] Elvl I0 I1 Ef Wnv Hnew Hnd Hpool Hnum Hent.
    destruct (install_ok true st newf (compaction_edit cm outs) (bs_mem st) (bs_frozen st) nv W Wl Ef Hnew Hnd) as (st' & Ei & Em & Efz & Eav & Hall).
    { intros l t Ht. rewrite adds_at_ce in Ht. destruct (Nat.eqb (S (c_level cm)) l); [|destruct Ht]. apply Hpool. exact Ht. }
    exists st'. split; [exact Ei|].
    assert (Ebufs : bufs_of st' = bufs_of st) by (unfold bufs_of; cbn [ReadPath.abs st_mem st_frozen]; rewrite Em, Efz; reflexivity).
    assert (Hce : forall x, In x (LE (concat (av st'))) <-> In x (LE outs) \/ In x (others_of st cm)).
    { intros x. rewrite Eav. apply (ce_entries (av st) lvl cm outs nv Wl Elvl I0 I1 Hnum Ef x). }
    assert (Hall' : forall x, In x (all_entries (absS st')) <-> In x (bufs_of st) \/ In x (LE outs) \/ In x (others_of st cm)).
    { intros x. rewrite all_entries_bufs, Ebufs, Hce. reflexivity. }
    assert (Hsub : forall x, In x (LE (concat (av st'))) -> In x (LE (concat (av st)))).
    { intros x Hx. apply Hce in Hx. apply (split_inputs st lvl cm Wl I0 I1). destruct Hx as [Hx|Hx]; [left; apply Hent; exact Hx|right; exact Hx]. }
    destruct (wf_state_newer _ (wb_abs _ _ _ _ _ _ _ _ _ _ _ W)) as (N1 & N2 & N3).
    assert (Hlvl : forall i x, In x (LE (lv (av st') i)) -> exists j, In x (LE (lv (av st) j))).
    { intros i x Hx. apply in_LE_concat. apply Hsub. apply in_LE_concat. exists i. exact Hx. }
    split; [constructor|].
    - constructor.
      + rewrite Em. exact (wb_mem _ _ _ _ _ _ _ _ _ _ _ W).
      + rewrite Efz. exact (wb_frozen _ _ _ _ _ _ _ _ _ _ _ W).
      + exact Hall.
      + destruct (mem_entries_wf (bs_mem st) (wb_mem _ _ _ _ _ _ _ _ _ _ _ W)) as [S1 K1].
        destruct (mem_entries_wf (bs_frozen st) (wb_frozen _ _ _ _ _ _ _ _ _ _ _ W)) as [S2 K2].
        change (absS st') with {| st_mem := mem_entries mp (bs_mem st'); st_frozen := mem_entries mp (bs_frozen st'); st_aux := []; st_levels := av st' |}.
        rewrite Em, Efz. apply wf_state_parts; try assumption.
        * rewrite Eav. exact Wnv.
        * intros i a b Ha Hb2. destruct (Hlvl i b Hb2) as (j & Hj). apply (N2 j a b Ha Hj).
        * intros i a b Ha Hb2. destruct (Hlvl i b Hb2) as (j & Hj). apply (N3 j a b Ha Hj).
    - rewrite Eav. exact Wnv.
    - apply (uniq_in_incl (all_entries (absS st))); [|exact U]. intros x Hx. apply all_entries_bufs.
      apply all_entries_bufs in Hx as [Hx|Hx]; [left; rewrite <- Ebufs; exact Hx|right; apply Hsub; exact Hx].
    - split; [exact Em|]. split; [exact Efz|]. split; [exact Eav|exact Hall'].
  Qed.

  Lemma seed_tables_ok st lvl seed : wf_lsm (av st) -> seed_tables (av st) lvl seed <> [] ->
    seed_ok (av st) lvl (seed_tables (av st) lvl seed).
  Proof.
    intros Wl Hne. split; [exact Hne|]. split.
    - intros t Ht. unfold seed_tables in Ht. apply filter_In in Ht as [Ht _]. exact Ht.
    - unfold seed_tables. apply NoDup_filter. apply (lv_nodup c p _ Wl).
  Qed.

  (* ---------------- tableCompaction: the trivial move ---------------- *)
  Theorem move_step st lvl seed :
    bfull st -> seed_tables (av st) lvl seed <> [] ->
    exists cm, b_pick c tp crc decompress fname ufc verify o st lvl seed = POk cm /\
      (trivial (fsz st) cm (wo_gpOverlaps o lvl) = true ->
       exists st', b_trivial_move c tp crc decompress fname ufc verify o lvl seed st = Some st' /\ bfull st' /\
         bs_mem st' = bs_mem st /\ bs_frozen st' = bs_frozen st /\
         finish c true (av st) (move_edit cm) = POk (av st') /\
         same_elems (all_entries (absS st)) (all_entries (absS st'))).
  Proof.
    intros B Hne. pose proof B as [W Wl U]. pose proof (seed_tables_ok st lvl seed Wl Hne) as S.
    destruct (trivial_move_step c ok p (fsz st) (av st) lvl (wo_expandLimit o lvl) _ Wl S) as (cm & Ecm & Hmove).
    destruct (inputs_closed c ok p (fsz st) (av st) lvl (wo_expandLimit o lvl) _ Wl S) as (cm' & Ecm' & Elvl & _ & I0 & I1 & _).
    rewrite Ecm in Ecm'. injection Ecm' as <-.
    exists cm. split; [exact Ecm|]. intros T.
    destruct (Hmove _ T) as (nv & Ef & Wnv).
    destruct (trivial_shape (fsz st) cm _ T) as (t & E0 & E1).
    unfold b_trivial_move, b_pick. rewrite Ecm, T.
    destruct (reorg_install st lvl cm [] (c_t0 cm) nv B Elvl I0 I1 Ef Wnv) as (st' & Ei & B' & Em & Efz & Eav & Hall).
    - constructor.
    - cbn [app]. apply files_nodup. exact Wl.
    - intros t' Ht'. destruct (in_level_file st lvl t' (I0 _ Ht')) as (f & Hf & E). exists f. split; [exact Hf|exact E].
    - intros x l t' Hx Ht' En. destruct (wl_nums c p _ Wl lvl l x t' (I0 _ Hx) Ht' (eq_sym En)) as [_ <-]. apply in_or_app. left. exact Hx.
    - intros x Hx. rewrite LE_app. apply in_or_app. left. exact Hx.
    - exists st'. split; [exact Ei|]. split; [exact B'|]. split; [exact Em|]. split; [exact Efz|]. split; [rewrite Eav; exact Ef|].
      intros x. rewrite Hall, all_entries_bufs, (split_inputs st lvl cm Wl I0 I1 x). rewrite E1, app_nil_r. tauto.
  Qed.

  (* ---------------- tableCompaction: tableCompactionBuilder + commit ---------------- *)
  Local Notation blen := (bytes_len c p tp crc compress o).

  Theorem compact_step st lvl seed os nums minSeq :
    bfull st -> seed_tables (av st) lvl seed <> [] -> minSeq < keyMaxSeq p ->
    NoDup nums -> (forall n f, In n nums -> In f (files_of st) -> tf_num f <> n) ->
    exists cm, b_pick c tp crc decompress fname ufc verify o st lvl seed = POk cm /\
      forall s',
        let deeper := skipn (lvl + 2) (av st) in
        transact c p (fsz st) (c_gp cm) (wo_gpOverlaps o lvl) deeper minSeq (wo_strict o) (wo_tableSize o (S lvl)) blen os
                 (map IGood (merge_inputs c (c_t0 cm ++ c_t1 cm))) (bst0 deeper) = (s', TDone) ->
        length nums = length (fin s') ->
        Forall (fun ch => write_sizes_ok c p tp crc compress o (chunk_kvs ch) = true /\ table_filter_ok (chunk_kvs ch)) (fin s') ->
        exists st', b_compact c p tp crc compress decompress fname ufc verify o lvl seed os nums minSeq st = Some st' /\ bfull st' /\
          bs_mem st' = bs_mem st /\ bs_frozen st' = bs_frozen st /\
          outputs_of c p cm minSeq deeper (fin s') /\
          finish c true (av st) (compaction_edit cm (mk_outputs nums (fin s'))) = POk (av st') /\
          (forall x, In x (all_entries (absS st')) -> In x (all_entries (absS st))) /\
          (forall k s, minSeq <= s ->
             History.res p (newest c k s (all_entries (absS st')) None) = History.res p (newest c k s (all_entries (absS st)) None)).
  Proof.
    intros B Hne Hms Hnd Hfresh. pose proof B as [W Wl U].
    pose proof (seed_tables_ok st lvl seed Wl Hne) as Sd. pose proof Sd as (S1 & S2 & S3).
    set (sd := seed_tables (av st) lvl seed) in *.
    destruct (model_pick c ok p (fsz st) (av st) Wl lvl (wo_expandLimit o lvl) sd S1 S2 S3) as (cm & Ecm & Pk).
    exists cm. split; [exact Ecm|]. intros s' deeper Htr Hlen Hsz.
    pose proof (pk_level c _ _ _ cm Pk) as Elvl.
    assert (I0 : incl (c_t0 cm) (lv (av st) lvl)) by (intros t Ht; apply (pk_t0 c _ _ _ cm Pk t Ht)).
    assert (I1 : incl (c_t1 cm) (lv (av st) (S lvl))) by (intros t Ht; apply (pk_t1 c _ _ _ cm Pk t Ht)).
    (* the builder's tables are outputs *)
    destruct (builder_outputs_of c ok p pok (fsz st) (av st) lvl (wo_expandLimit o lvl) sd Wl Sd) as (cm' & Ecm' & Hb).
    rewrite Ecm in Ecm'. injection Ecm' as <-.
    destruct (Hb (c_gp cm) (wo_gpOverlaps o lvl) minSeq (wo_strict o) (wo_tableSize o (S lvl)) blen os s' Htr) as (_ & [Cuts Kept] & _ & _).
    fold deeper in Cuts, Kept.
    set (chunks := fin s') in *.
    pose proof (kept_sorted c ok p pok (fsz st) (av st) Wl lvl sd cm Pk minSeq deeper chunks Kept) as Hks.
    destruct (outputs_well_formed c ok chunks Cuts Hks) as [Hwfc _].
    assert (HkI : forall x, In x (concat chunks) -> In x (LE (c_t0 cm ++ c_t1 cm))) by (intros x Hx; apply (kept_I c p cm minSeq deeper chunks Kept x Hx)).
    assert (Hinp : forall x, In x (LE (c_t0 cm ++ c_t1 cm)) -> exists j, In x (LE (lv (av st) j))).
    { intros x Hx. rewrite LE_app in Hx. apply in_app_or in Hx as [Hx|Hx]; apply LE_in in Hx as (t & Ht & Hx).
      - exists lvl. apply LE_in. exists t. split; [apply I0; exact Ht|exact Hx].
      - exists (S lvl). apply LE_in. exists t. split; [apply I1; exact Ht|exact Hx]. }
    assert (Hchunks : Forall chunk_ok chunks).
    { apply Forall_forall. intros ch Hch. rewrite Forall_forall in Hwfc, Hsz. destruct (Hwfc ch Hch) as [Hs Hn].
      split; [exact Hn|]. split; [|split; [exact Hs|apply Hsz; exact Hch]].
      apply Forall_forall. intros e He. destruct (Hinp e) as (j & Hj).
      - apply HkI. apply in_concat. exists ch. split; assumption.
      - apply (level_entries_stored st j e W Hj). }
    destruct (write_outputs_ok nums chunks Hlen Hchunks) as (outs & Eo & Hoko & Mo & No).
    (* the L1 compaction step *)
    destruct (model_compaction_step c ok p pok (fsz st) (av st) Wl lvl sd S2 cm Pk minSeq deeper chunks nums Cuts Kept Hlen Hnd)
      as (nv & Ef & Wnv).
    { intros n i t Hn Ht. destruct (in_level_file st i t Ht) as (f & Hf & <-). apply (Hfresh n f Hn Hf). }
    assert (Hnums : map t_num (mk_outputs nums chunks) = nums) by (apply mk_outputs_nums; exact Hlen).
    assert (Eole : LE (mk_outputs nums chunks) = concat chunks) by (unfold LE, LsmProofs.level_entries; rewrite (mk_outputs_entries nums chunks Hlen); reflexivity).
    destruct (reorg_install st lvl cm outs (mk_outputs nums chunks) nv B Elvl I0 I1 Ef Wnv Hoko) as (st' & Ei & B' & Em & Efz & Eav & Hall).
    - rewrite map_app, No. apply nodup_app_iff. split; [exact Hnd|]. split; [apply files_nodup; exact Wl|].
      intros n Hn Hc. apply in_map_iff in Hc as (f & En & Hf). apply (Hfresh n f Hn Hf En).
    - intros t Ht. rewrite <- Mo in Ht. apply in_map_iff in Ht as (f & <- & Hf). exists f. split; [apply in_or_app; left; exact Hf|reflexivity].
    - intros x l t' Hx Ht' En. exfalso. destruct (in_level_file st l t' Ht') as (f & Hf & <-).
      apply (Hfresh (t_num x) f); [rewrite <- Hnums; apply in_map; exact Hx|exact Hf|exact En].
    - intros x Hx. apply HkI. rewrite <- Eole. exact Hx.
    - exists st'. unfold b_compact, b_pick. fold sd. rewrite Ecm. fold deeper. rewrite Htr.
      change (fin_of s') with chunks. rewrite Eo.
      split; [exact Ei|]. split; [exact B'|]. split; [exact Em|]. split; [exact Efz|].
      split; [split; [exact Cuts|exact Kept]|]. split; [rewrite Eav; exact Ef|].
      assert (Eouts : LE (mk_outputs nums chunks) = compact_entries c p minSeq deeper (c_t0 cm ++ c_t1 cm))
        by (rewrite Eole; exact Kept).
      split.
      + intros x Hx. apply Hall in Hx. apply all_entries_bufs. destruct Hx as [Hx|[Hx|Hx]]; [left; exact Hx| |].
        * right. apply (split_inputs st lvl cm Wl I0 I1). left. apply HkI. rewrite <- Eole. exact Hx.
        * right. apply (split_inputs st lvl cm Wl I0 I1). right. exact Hx.
      + intros k s Hs.
        (* both collections, as sets, in the shape of ModelStep.model_compaction_admissible *)
        set (others := bufs_of st ++ others_of st cm).
        assert (Unew : uniq_in (all_entries (absS st'))) by exact (bf_uniq _ B').
        assert (SEnew : same_elems (all_entries (absS st')) (compact_entries c p minSeq deeper (c_t0 cm ++ c_t1 cm) ++ others)).
        { intros x. rewrite Hall, Eouts. unfold others. rewrite !in_app_iff. tauto. }
        assert (SEold : same_elems (all_entries (absS st)) (LE (c_t0 cm ++ c_t1 cm) ++ others)).
        { intros x. rewrite all_entries_bufs, (split_inputs st lvl cm Wl I0 I1 x). unfold others. rewrite !in_app_iff. tauto. }
        rewrite (newest_same_elems c ok k s _ _ Unew SEnew), (newest_same_elems c ok k s _ _ U SEold).
        destruct (wf_state_newer _ (wb_abs _ _ _ _ _ _ _ _ _ _ _ W)) as (N1 & N2 & N3).
        apply (ModelStep.model_compaction_admissible c ok p pok (fsz st) (av st) Wl lvl sd S2 cm Pk (bufs_of st) minSeq Hms).
        * apply (uniq_in_incl (all_entries (absS st))); [|exact U]. intros x Hx. apply all_entries_bufs. left. exact Hx.
        * intros m i x Hm Hx Hu. unfold bufs_of in Hm. apply in_app_or in Hm as [Hm|Hm].
          -- apply (N2 i m x Hm Hx). symmetry. exact Hu.
          -- apply (N3 i m x Hm Hx). symmetry. exact Hu.
        * exact Hs.
  Qed.

  (* ---------------- what a reader sees across a step ---------------- *)
  (* the same stored entries in another place: every read, at every sequence number, is unchanged *)
  Theorem reads_same st st' : bfull st -> bfull st' -> same_elems (all_entries (absS st)) (all_entries (absS st')) ->
    forall k s, wf_bytes k -> s <= keyMaxSeq p -> getb st' k s = getb st k s.
  Proof.
    intros B B' SE k s Wk Hs.
    rewrite (get_correct_bytes c ok p pok seek_val mp mpok tp crc decompress fname ufc verify ri k s Wk Hs st' (bf_wf _ B')).
    rewrite (get_correct_bytes c ok p pok seek_val mp mpok tp crc decompress fname ufc verify ri k s Wk Hs st (bf_wf _ B)).
    rewrite (newest_same_elems c ok k s _ _ (bf_uniq _ B) SE). reflexivity.
  Qed.

  (* a table compaction with the drop rule: every read at a sequence number >= minSeq returns the same value *)
  Theorem reads_kept st st' minSeq : bfull st -> bfull st' ->
    (forall k s, minSeq <= s ->
       History.res p (newest c k s (all_entries (absS st')) None) = History.res p (newest c k s (all_entries (absS st)) None)) ->
    forall k s, wf_bytes k -> minSeq <= s -> s <= keyMaxSeq p -> bapi (getb st' k s) = bapi (getb st k s).
  Proof.
    intros B B' H k s Wk Hm Hs.
    rewrite (get_correct_bytes c ok p pok seek_val mp mpok tp crc decompress fname ufc verify ri k s Wk Hs st' (bf_wf _ B')).
    rewrite (get_correct_bytes c ok p pok seek_val mp mpok tp crc decompress fname ufc verify ri k s Wk Hs st (bf_wf _ B)).
    cbn [bapi]. f_equal. apply (H k s Hm).
  Qed.
End Steps.
