(* Lsm/ReadPath.v — the read path of the DB at BYTE level: DB.Get as the code computes it, composed from
   the models of the layers below the L1 model:

     leveldb/db.go       DB.get, memGet                       (this file)
     leveldb/version.go  version.get, version.walkOverlapping  (this file)
     leveldb/table.go    tFile.after/before/overlaps, tFiles.searchMax (sort.Search), tOps.find  (this file)
     leveldb/key.go      makeInternalKey, parseInternalKey, internalKey.ukey  (Codec/IKey.v, property C15)
     leveldb/comparer.go iComparer.Compare on encoded keys     (ibc below; the order itself is Codec/IKey.v icmp)
     leveldb/memdb       DB.Find on the array-encoded skip list (Mem/MemDB.v, property C14)
     leveldb/table       Reader.Find(key, filtered = true) on the BYTES of a table file: footer, metaindex,
                         index block, filter block consulted first, data block seek, fall through to the next
                         block (Codec/Table.v open_table + tfind, property C13)
     leveldb/filter.go   iFilter: the filter is asked about the USER key of the probe (ifc below)

   State: the live and the frozen memdb as memdb model states (arrays), the levels as lists of table FILES
   (file number, recorded imin/imax as encoded internal keys, file bytes).  [db_get_bytes] keeps the branch
   structure of the Go code; results that are a Go panic, an error other than ErrNotFound, or exhausted fuel
   are explicit.  [abs] maps a byte state to the L1 state (Lsm/Lsm.v) whose buffers and tables are the sorted
   entry lists; [wf_bstate] is the well-formedness the refinement theorem (ReadPathProofs.v) is stated over.

   Not modelled (no influence on the returned value): seek sampling (tset/tseek/consumeSeek, cSched),
   reference counting of memdbs and versions, the table cache (tOps.open = open_table on the file's bytes
   every time), v.closing/ErrClosed, the auxiliary memdb/tables of a transaction (auxm = nil, auxt = nil:
   this is DB.Get / Snapshot.Get).  Model file: definitions only. *)
From GL Require Import Base.Bytes Base.Order Codec.BytesCmp Codec.IKey Codec.Block Codec.Table Codec.TableCheck
  Codec.Bloom Codec.FilterBlock Lsm.Lsm Lsm.Pick.
From GL Require Mem.MemDB.
Open Scope N_scope.

(* ------------------------------------------------------------------ encoded internal keys *)
(* an encoded internal key the Go code can hold and take apart: real bytes, at least 8 of them *)
Definition ik_dec (b : bytes) : option ikey := if wf_bytesb b then split_ikey b else None.

(* internalKey.ukey(): None = the assert panics *)
Definition ukey_b (b : bytes) : option bytes := option_map uk (split_ikey b).

Section IBC.
  Variable c : comparer.

  (* iComparer.Compare on encoded keys.  On two decodable keys this is Codec/IKey.v's icmp (user key
     ascending, then trailer number descending).  The Go function panics on a key shorter than 8 bytes; a
     [comparer] cannot panic, so the model extends the order to all byte lists (undecodable ones first, in
     bytewise order among themselves) — the table and memdb theories need a total lawful order; the
     well-formedness predicate below excludes undecodable keys from every state the theorems talk about. *)
  Definition ibc_cmp (a b : bytes) : comparison :=
    match ik_dec a, ik_dec b with
    | Some x, Some y => icmp c x y
    | None, None => cmp bytewise a b
    | None, Some _ => Lt
    | Some _, None => Gt
    end.

  (* Separator/Successor are used by the table WRITER only (Codec/IKey.v isep/isucc, property C15); the read
     path never calls them: "no shortening" *)
  Definition ibc : comparer := {| cmp := ibc_cmp; sep := fun _ _ => None; succ := fun _ => None |}.
End IBC.

(* a stored (key, value) pair as an L1 entry *)
Definition entry_of (kv : bytes * bytes) : entry :=
  match ik_dec (fst kv) with
  | Some k => {| e_uk := uk k; e_seq := ik_seq k; e_kind := ik_kind k; e_val := snd kv |}
  | None => {| e_uk := fst kv; e_seq := 0; e_kind := 0; e_val := snd kv |}     (* excluded by wf_bstate *)
  end.

(* iFilter.Contains: the table's filter block is asked about the user key.  [ufc data offset ukey] stands for
   filterBlock.contains(policy, offset, ukey) on the filter block [data] (Codec/FilterBlock.v fb_may_contain,
   property C16). *)
Definition ifc (ufc : bytes -> N -> bytes -> bool) (data : bytes) (offset : N) (key : bytes) : bool :=
  match ukey_b key with
  | Some u => ufc data offset u
  | None => true                     (* (approx) Go panics on a probe shorter than 8 bytes *)
  end.

(* the instance for filter.NewBloomFilter(bitsPerKey): filterBlock.contains with the bloom policy on the user
   key (Codec/FilterBlock.v fb_may_contain, Codec/Bloom.v); a panic of the policy's Contains (None; only for
   filter bytes no generator writes) is read as "may contain" *)
Definition bloom_ufc (bp : bparams) (bpk : BinNums.Z) (data : bytes) (off : N) (u : bytes) : bool :=
  match fb_may_contain (bloom_policy bp bpk) data off u with Some b => b | None => true end.

(* ------------------------------------------------------------------ state *)
Record tfile := mkTF { tf_num : N; tf_imin : bytes; tf_imax : bytes; tf_data : bytes }.

Record bstate := mkBS {
  bs_mem : option MemDB.db;            (* db.mem (nil only on a read-only DB without journal) *)
  bs_frozen : option MemDB.db;         (* db.frozenMem *)
  bs_levels : list (list tfile)        (* version.levels; level 0 in the order of the slice *)
}.

(* what DB.get returns: BRes (GFound v) = (v, nil); BRes GDeleted = ErrNotFound decided by a deletion marker;
   BRes GMiss = ErrNotFound because nothing was found; BErr = another error; BPanic; BFuel *)
Inductive bres := BRes (r : gres) | BErr | BPanic | BFuel.

Definition bapi (r : bres) : option (option bytes) :=
  match r with BRes g => Some (api_of g) | _ => None end.

(* one call of the closure f of version.get *)
Inductive fstep := FCont (z : option (N * N * bytes)) | FStop (r : bres).

Definition no_tfile : tfile := mkTF 0 [] [] [].

Section ReadPath.
  Variable c : comparer.               (* the user comparer *)
  Variable p : kparams.
  Variable mp : MemDB.mparams.
  Variable tp : tparams.
  Variable crc : bytes -> N.
  Variable decompress : bytes -> option bytes.
  Variable fname : option bytes.       (* name of o.Filter, None = no filter configured *)
  Variable ufc : bytes -> N -> bytes -> bool.
  Variable verify : bool.              (* StrictBlockChecksum *)
  Variable ri : N.                     (* BlockRestartInterval: used by the format check only *)

  Definition ic : comparer := ibc c.

  (* tOps.open + the cached *table.Reader *)
  Definition tf_reader (f : tfile) : treader :=
    open_table tp crc decompress (ifc ufc) ic (tf_data f) fname verify.

  (* ---------------- memGet ---------------- *)
  (* None = (ok = false): not decided here *)
  Definition mem_get (d : MemDB.db) (ikey ukey : bytes) : option bres :=
    match MemDB.mdb_find ic mp (MemDB.op_fuel d) d ikey with
    | MemDB.Panic => Some BPanic
    | MemDB.OutOfFuel => Some BFuel
    | MemDB.Ok None => None                                  (* ErrNotFound *)
    | MemDB.Ok (Some (mk, mv)) =>
        match parse_ikey p mk with
        | None => Some BPanic                                 (* panic(kerr) *)
        | Some (fukey, _, kt) =>
            match cmp c fukey ukey with
            | Eq => if kt =? keyTypeDel p then Some (BRes GDeleted) else Some (BRes (GFound mv))
            | _ => None
            end
        end
    end.

  Definition mem_get_opt (d : option MemDB.db) (ikey ukey : bytes) : option bres :=
    match d with Some m => mem_get m ikey ukey | None => None end.

  (* ---------------- tFile.after / before / overlaps (ukey is never nil here) ---------------- *)
  Definition tf_after (f : tfile) (ukey : bytes) : option bool :=
    match ukey_b (tf_imax f) with
    | Some m => Some (match cmp c ukey m with Gt => true | _ => false end)
    | None => None
    end.
  Definition tf_before (f : tfile) (ukey : bytes) : option bool :=
    match ukey_b (tf_imin f) with
    | Some m => Some (match cmp c ukey m with Lt => true | _ => false end)
    | None => None
    end.
  (* !t.after(umin) && !t.before(umax) *)
  Definition tf_overlaps (f : tfile) (ukey : bytes) : option bool :=
    match tf_after f ukey with
    | None => None
    | Some true => Some false
    | Some false => option_map negb (tf_before f ukey)
    end.

  (* tFiles.searchMax: sort.Search(len(tf), icmp.Compare(tf[i].imax, ikey) >= 0) *)
  Definition tf_search_max (ts : list tfile) (ikey : bytes) : nat :=
    sort_search (length ts)
      (fun i => match cmp ic (tf_imax (nth i ts no_tfile)) ikey with Lt => false | _ => true end).

  (* ---------------- the closure f of version.get ---------------- *)
  Definition zseq_of (z : option (N * N * bytes)) : N :=
    match z with Some (s, _, _) => s | None => 0 end.

  Definition kt_result (kt : N) (v : bytes) : bres :=
    if kt =? keyTypeVal p then BRes (GFound v)
    else if kt =? keyTypeDel p then BRes GDeleted
    else BPanic.                                              (* "leveldb: invalid internalKey type" *)

  Definition get_in_table (level0 : bool) (f : tfile) (ikey ukey : bytes) (z : option (N * N * bytes)) : fstep :=
    match tfind ic (tf_reader f) ikey true with               (* tops.find -> Reader.Find(key, true, ro) *)
    | FNotFound => FCont z
    | FCorrupted | FOther => FStop BErr
    | FPanicked => FStop BPanic
    | FFound fikey fval =>
        match parse_ikey p fikey with
        | None => FStop BErr                                  (* err = fkerr *)
        | Some (fukey, fseq, fkt) =>
            match cmp c ukey fukey with
            | Eq =>
                if level0 then
                  (if zseq_of z <=? fseq then FCont (Some (fseq, fkt, fval)) else FCont z)
                else FStop (kt_result fkt fval)
            | _ => FCont z
            end
        end
    end.

  (* the closure lf: decides after a level <= 0 that had a hit *)
  Definition lf_check (z : option (N * N * bytes)) : option bres :=
    match z with
    | Some (_, kt, v) => Some (kt_result kt v)
    | None => None
    end.

  (* ---------------- walkOverlapping ---------------- *)
  (* level 0: every table whose [imin.ukey, imax.ukey] contains ukey, in slice order *)
  Fixpoint walk_l0 (ts : list tfile) (ikey ukey : bytes) (z : option (N * N * bytes)) : fstep :=
    match ts with
    | [] => FCont z
    | t :: r =>
        match tf_overlaps t ukey with
        | None => FStop BPanic
        | Some false => walk_l0 r ikey ukey z
        | Some true =>
            match get_in_table true t ikey ukey z with
            | FCont z' => walk_l0 r ikey ukey z'
            | s => s
            end
        end
    end.

  (* a deeper level: at most the table found by searchMax, if ukey >= its imin.ukey *)
  Definition walk_deep (ts : list tfile) (ikey ukey : bytes) (z : option (N * N * bytes)) : fstep :=
    let i := tf_search_max ts ikey in
    if Nat.ltb i (length ts) then
      let t := nth i ts no_tfile in
      match ukey_b (tf_imin t) with
      | None => FStop BPanic
      | Some m =>
          match cmp c ukey m with
          | Lt => FCont z
          | _ => get_in_table false t ikey ukey z
          end
      end
    else FCont z.

  Fixpoint walk_levels (level : nat) (lvls : list (list tfile)) (ikey ukey : bytes)
           (z : option (N * N * bytes)) : bres :=
    match lvls with
    | [] => BRes GMiss                                        (* err = ErrNotFound *)
    | ts :: rest =>
        match ts with
        | [] => walk_levels (S level) rest ikey ukey z        (* len(tables) == 0: continue *)
        | _ =>
            match (match level with O => walk_l0 ts ikey ukey z | S _ => walk_deep ts ikey ukey z end) with
            | FStop r => r
            | FCont z' =>
                match lf_check z' with
                | Some r => r
                | None => walk_levels (S level) rest ikey ukey z'
                end
            end
        end
    end.

  (* version.get(nil, ikey, ro, false) *)
  Definition version_get_bytes (lvls : list (list tfile)) (ikey ukey : bytes) : bres :=
    walk_levels 0 lvls ikey ukey None.

  (* DB.get(nil, nil, key, seq, ro) *)
  Definition db_get_bytes (st : bstate) (key : bytes) (seq : N) : bres :=
    match make_ikey p key seq (keyTypeSeek p) with
    | MkPanic => BPanic
    | MkOk q =>
        let ikey := encode_ikey q in
        match ukey_b ikey with
        | None => BPanic
        | Some ukey =>
            match mem_get_opt (bs_mem st) ikey ukey with
            | Some r => r
            | None =>
                match mem_get_opt (bs_frozen st) ikey ukey with
                | Some r => r
                | None => version_get_bytes (bs_levels st) ikey ukey
                end
            end
        end
    end.

  (* ------------------------------------------------------------------ abstraction to the L1 state *)
  (* key and value of a node of the skip list, read the way Find reads them *)
  Definition node_kv (d : MemDB.db) (node : N) : MemDB.res (bytes * bytes) :=
    MemDB.bind (MemDB.aget (MemDB.nodeData d) node) (fun n =>
    MemDB.bind (MemDB.aget (MemDB.nodeData d) (node + MemDB.nKey mp)) (fun kl =>
    MemDB.bind (MemDB.bslice (MemDB.kvData d) n (n + kl)) (fun rkey =>
    MemDB.bind (MemDB.aget (MemDB.nodeData d) (node + MemDB.nVal mp)) (fun vl =>
    MemDB.bind (MemDB.bslice (MemDB.kvData d) (n + kl) (n + kl + vl)) (fun v =>
    MemDB.Ok (rkey, v)))))).

  (* the pairs of a memdb in list order: the level-0 chain from the head *)
  Fixpoint mem_walk (fuel : nat) (d : MemDB.db) (node : N) : list (bytes * bytes) :=
    match fuel with
    | O => []
    | S f =>
        match MemDB.aget (MemDB.nodeData d) (node + MemDB.nNext mp) with
        | MemDB.Ok next =>
            if next =? 0 then []
            else match node_kv d next with
                 | MemDB.Ok kv => kv :: mem_walk f d next
                 | _ => []
                 end
        | _ => []
        end
    end.

  Definition mem_pairs (d : MemDB.db) : list (bytes * bytes) := mem_walk (MemDB.op_fuel d) d 0.
  Definition mem_entries (d : option MemDB.db) : list entry :=
    match d with Some m => map entry_of (mem_pairs m) | None => [] end.

  (* the pairs of a table file: what C13's format check extracts *)
  Definition tf_pairs (f : tfile) : list (bytes * bytes) :=
    match table_check ic (tf_reader f) ri with Some kvs => kvs | None => [] end.
  Definition abs_table (f : tfile) : table := {| t_num := tf_num f; t_entries := map entry_of (tf_pairs f) |}.

  Definition abs (st : bstate) : lstate :=
    {| st_mem := mem_entries (bs_mem st); st_frozen := mem_entries (bs_frozen st);
       st_aux := []; st_levels := map (map abs_table) (bs_levels st) |}.

  (* ------------------------------------------------------------------ well-formedness (booleans) *)
  (* a stored key: decodable, kind = deletion or value *)
  Definition key_okb (b : bytes) : bool :=
    match ik_dec b with
    | Some k => (ik_kind k =? keyTypeDel p) || (ik_kind k =? keyTypeVal p)
    | None => false
    end.
  Definition ik_validb (b : bytes) : bool := match ik_dec b with Some _ => true | None => false end.

  Definition same_ukeyb (a b : bytes) : bool :=
    match ik_dec a, ik_dec b with
    | Some x, Some y => match cmp c (uk x) (uk y) with Eq => true | _ => false end
    | _, _ => false
    end.

  (* the filter never hides a stored user key: every key of data block j passes the test the reader makes
     for block j, and so does the separator of block j when it has the user key of the first key of block
     j+1 (a lookup of that user key may be routed to block j and answered from block j+1) *)
  Definition filter_okb (rd : treader) (bl : list (list (bytes * bytes))) (se : list bytes) (hs : list bhandle) : bool :=
    match tr_filter rd with
    | None => true
    | Some contains =>
        forallb (fun j =>
          let off := bh_off (nth j hs bh_zero) in
          forallb (fun x => contains off (fst x)) (nth j bl []) &&
          match nth (S j) bl [] with
          | x :: _ => if same_ukeyb (nth j se []) (fst x) then contains off (nth j se []) else true
          | [] => true
          end) (seq 0 (length bl))
    end.

  Definition tfile_okb (f : tfile) : bool :=
    let rd := tf_reader f in
    match table_parse rd with
    | Some (bl, se, hs) =>
        table_wfb ic rd ri bl se hs &&                          (* = table_check accepts the file *)
        forallb (fun kv => key_okb (fst kv)) (concat bl) &&
        forallb ik_validb se &&
        filter_okb rd bl se hs &&
        match concat bl with
        | [] => false
        | kv :: r => beq (tf_imin f) (fst kv) && beq (tf_imax f) (fst (last r kv))
        end
    | None => false
    end.

  Definition mem_keys_okb (d : MemDB.db) : bool := forallb (fun kv => key_okb (fst kv)) (mem_pairs d).

  (* a memdb built by Puts from memdb.New (used for concrete examples; heights as drawn by randHeight) *)
  Fixpoint mem_build (d : MemDB.db) (l : list (bytes * bytes * N)) : MemDB.res MemDB.db :=
    match l with
    | [] => MemDB.Ok d
    | (k, v, h) :: r => MemDB.bind (MemDB.mdb_put ic mp (MemDB.op_fuel d) d k v h) (fun d' => mem_build d' r)
    end.
  Definition mem_of (l : list (bytes * bytes * N)) : option MemDB.db :=
    match MemDB.bind (MemDB.mdb_new mp) (fun d => mem_build d l) with MemDB.Ok d => Some d | _ => None end.
End ReadPath.

(* the boolean form of LsmProofs.wf_state for a state without transaction tables: buffers sorted, the
   version certificate of property C06 (Compact.wf_versionb), the write buffer newer than everything else,
   the frozen buffer newer than the tables *)
Definition wf_fullb (c : comparer) (p : kparams) (st : lstate) : bool :=
  match st_aux st with [] => true | _ => false end &&
  sortedb c (st_mem st) && kindsb p (st_mem st) && sortedb c (st_frozen st) && kindsb p (st_frozen st) &&
  wf_versionb c p (st_levels st) &&
  forallb (fun d => newer_than c (st_mem st) d) (st_frozen st :: map level_entries (st_levels st)) &&
  forallb (fun d => newer_than c (st_frozen st) d) (map level_entries (st_levels st)).
