(* Lsm/CompactPreProofs.v — soundness of the compaction drop rule (tableCompactionBuilder.run) for every comparer
   satisfying the PREORDER contract (Base/OrderPre.v): the builder's "is this a new user key?" test is
   cmp c lastUkey ukey = Eq (Compact.last_seq), i.e. the USER COMPARER decides, not byte equality — replacing it by
   byte equality is unsound exactly for non-injective comparers (Props/C01.v C01_bytes_equal_drop_rule_refuted). *)
From GL Require Import Base.Order Base.OrderProofs Base.OrderPre Codec.IKey Codec.IKeyProofs Codec.IKeyPreProofs
  Lsm.Lsm Lsm.Compact Lsm.LsmProofs Lsm.LsmPreProofs Lsm.CompactProofs.
From Coq Require Import ZArith Lia ZifyN ZifyNat ZifyBool.

Section Proofs.
  Variable c : comparer.
  Hypothesis ok : comparer_pre_ok c.
  Variable p : kparams.
  Hypothesis pok : kparams_ok p.
  Variable minSeq : N.
  Variable base : bytes -> bool.
  Hypothesis minSeq_lt : minSeq < keyMaxSeq p.

  Notation drop := (drop_run c p minSeq base).
  Notation first_vis := (first_vis c).
  Notation ssorted := (ssorted c).
  Notation kinds_ok := (kinds_ok p).
  Notation res := (CompactProofs.res p).

  Lemma pdrop_incl last l x : In x (drop last l) -> In x l.
  Proof.
    revert last; induction l as [|e l IH]; intros last; cbn [drop_run]; [auto|].
    destruct (last_seq c p last e <=? minSeq); [intros H; right; eapply IH; eauto|].
    destruct ((e_kind e =? keyTypeDel p) && (e_seq e <=? minSeq) && base (e_uk e)).
    - intros H; right; eapply IH; eauto.
    - intros [<-|H]; [left; reflexivity|right; eapply IH; eauto].
  Qed.

  Lemma pdrop_sorted last l : ssorted l -> ssorted (drop last l).
  Proof.
    revert last; induction l as [|e l IH]; intros last Hs; cbn [drop_run]; [exact I|].
    destruct Hs as [Hall Hs].
    destruct (last_seq c p last e <=? minSeq); [apply IH; exact Hs|].
    destruct ((e_kind e =? keyTypeDel p) && (e_seq e <=? minSeq) && base (e_uk e)); [apply IH; exact Hs|].
    split; [|apply IH; exact Hs].
    rewrite Forall_forall in *. intros x Hx. apply Hall. eapply pdrop_incl; eauto.
  Qed.

  Lemma pdrop_kinds last l : kinds_ok l -> kinds_ok (drop last l).
  Proof.
    unfold LsmProofs.kinds_ok. rewrite !Forall_forall. intros H x Hx. apply H. eapply pdrop_incl; eauto.
  Qed.

  Lemma pkinds_pair l a b : kinds_ok l -> In a l -> In b l -> kinds_ok [a; b].
  Proof.
    intros H Ha Hb. unfold LsmProofs.kinds_ok. constructor; [eapply kinds_ok_in; eauto|].
    constructor; [eapply kinds_ok_in; eauto|constructor].
  Qed.

  Lemma pfirst_vis_none_of k s l : (forall x, In x l -> vis c k s x = false) -> first_vis k s l = None.
  Proof.
    induction l as [|e l IH]; intros H; cbn [LsmProofs.first_vis]; [reflexivity|].
    rewrite (H e) by (left; reflexivity). apply IH. intros x Hx. apply H. right; exact Hx.
  Qed.

  (* once an entry of k's class with seq <= minSeq has been seen, every older entry of the class is dropped;
     [u] is the spelling of the last processed entry *)
  Lemma pdrop_dead k s : forall l u ls, cmp c u k = Eq -> ssorted l -> kinds_ok l ->
    (forall x, In x l -> cmp c k (e_uk x) <> Gt) ->
    (forall x, In x l -> cmp c (e_uk x) k = Eq -> e_seq x <= ls) ->
    ls <= minSeq ->
    first_vis k s (drop (Some (u, ls)) l) = None.
  Proof.
    induction l as [|e l IH]; intros u ls Hu Hs Hk Hge Hseq Hls; cbn [drop_run]; [reflexivity|].
    unfold last_seq. rewrite (pcmp_eq_l c ok u k (e_uk e) Hu). destruct (cmp c k (e_uk e)) eqn:E.
    - replace (ls <=? minSeq) with true by (symmetry; apply N.leb_le; exact Hls).
      assert (Ek : cmp c (e_uk e) k = Eq) by (apply (pcmp_eq_sym c ok); exact E).
      apply IH.
      + exact Ek.
      + apply Hs.
      + eapply kinds_ok_tl; eauto.
      + intros x Hx. apply Hge. right; exact Hx.
      + intros x Hx Ux. destruct Hs as [Hall _]. rewrite Forall_forall in Hall.
        apply (pafter_same_key c p pok e x); [|apply Hall; exact Hx|].
        * apply (pkinds_pair (e :: l)); [assumption|left; reflexivity|right; exact Hx].
        * eapply (pcmp_eq_trans c ok); [exact Ek|]. apply (pcmp_eq_sym c ok). exact Ux.
      + assert (e_seq e <= ls) by (apply Hseq; [left; reflexivity|exact Ek]). lia.
    - (* a larger user key: nothing of k's class follows *)
      apply pfirst_vis_none_of. intros x Hx.
      assert (Hx' : In x (e :: l)).
      { destruct (keyMaxSeq p <=? minSeq); [right; eapply pdrop_incl; eauto|].
        destruct ((e_kind e =? keyTypeDel p) && (e_seq e <=? minSeq) && base (e_uk e));
          [right; eapply pdrop_incl; eauto|].
        destruct Hx as [<-|Hx]; [left; reflexivity|right; eapply pdrop_incl; eauto]. }
      destruct (vis c k s x) eqn:V; [|reflexivity]. exfalso.
      apply (pvis_true c) in V as [Ux _].
      assert (Gk : cmp c (e_uk e) k = Gt) by (apply (pcmp_lt_gt c ok); exact E).
      destruct Hx' as [<-|Hx'].
      + congruence.
      + destruct Hs as [Hall _]. rewrite Forall_forall in Hall. specialize (Hall x Hx').
        apply (after_uk_le c) in Hall. rewrite (pcmp_eq_r c ok (e_uk x) k (e_uk e) Ux) in Hall.
        apply Hall. exact Gk.
    - exfalso. apply (Hge e); [left; reflexivity|exact E].
  Qed.

  Lemma last_seq_cases k s last e :
    (forall u ls, last = Some (u, ls) -> cmp c u k = Eq -> s < ls) -> minSeq <= s ->
    minSeq < last_seq c p last e \/ vis c k s e = false.
  Proof.
    intros Hlast Hms. unfold last_seq. destruct last as [[u ls]|]; [|left; exact minSeq_lt].
    destruct (cmp c u (e_uk e)) eqn:E; [|left; exact minSeq_lt|left; exact minSeq_lt].
    destruct (vis c k s e) eqn:V; [|right; reflexivity].
    apply (pvis_true c) in V as [Ue _]. left.
    assert (s < ls) by (apply (Hlast u ls eq_refl); eapply (pcmp_eq_trans c ok); eauto). lia.
  Qed.

  (* the main induction with the exact outcome: either the first visible entry is unchanged, or it was a tombstone
     at base level with seq <= minSeq and nothing of k's class is left *)
  Lemma pdrop_fresh_strong k s : minSeq <= s -> forall l last, ssorted l -> kinds_ok l ->
    (forall u ls, last = Some (u, ls) -> cmp c u k = Eq -> s < ls) ->
    first_vis k s (drop last l) = first_vis k s l \/
    (exists e, first_vis k s l = Some e /\ e_kind e = keyTypeDel p /\ base (e_uk e) = true /\
               e_seq e <= minSeq /\ first_vis k s (drop last l) = None).
  Proof.
    intros Hms. induction l as [|e l IH]; intros last Hs Hk Hlast; cbn [drop_run LsmProofs.first_vis]; [left; reflexivity|].
    pose proof (last_seq_cases k s last e Hlast Hms) as LS.
    assert (Hl : ssorted l) by apply Hs.
    assert (Hkl : kinds_ok l) by (eapply kinds_ok_tl; eauto).
    destruct (vis c k s e) eqn:V.
    - destruct LS as [LS|LS]; [|discriminate].
      replace (last_seq c p last e <=? minSeq) with false by (symmetry; apply N.leb_gt; exact LS).
      destruct ((e_kind e =? keyTypeDel p) && (e_seq e <=? minSeq) && base (e_uk e)) eqn:B.
      + right. exists e. apply (pvis_true c) in V as [Ue Vs].
        apply andb_prop in B as [B B3]. apply andb_prop in B as [B1 B2].
        apply N.eqb_eq in B1. apply N.leb_le in B2.
        split; [reflexivity|]. split; [exact B1|]. split; [exact B3|]. split; [exact B2|].
        apply (pdrop_dead k s l (e_uk e) (e_seq e)).
        * exact Ue.
        * exact Hl.
        * exact Hkl.
        * intros x Hx. destruct Hs as [Hall _]. rewrite Forall_forall in Hall.
          pose proof (after_uk_le c e x (Hall x Hx)) as H.
          rewrite (pcmp_eq_l c ok (e_uk e) k (e_uk x) Ue) in H. exact H.
        * intros x Hx Ux. destruct Hs as [Hall _]. rewrite Forall_forall in Hall.
          apply (pafter_same_key c p pok e x); [|apply Hall; exact Hx|].
          -- apply (pkinds_pair (e :: l)); [assumption|left; reflexivity|right; exact Hx].
          -- eapply (pcmp_eq_trans c ok); [exact Ue|]. apply (pcmp_eq_sym c ok). exact Ux.
        * exact B2.
      + left. cbn [LsmProofs.first_vis]. rewrite V. reflexivity.
    - assert (IH' : first_vis k s (drop (Some (e_uk e, e_seq e)) l) = first_vis k s l \/
                    (exists e0, first_vis k s l = Some e0 /\ e_kind e0 = keyTypeDel p /\ base (e_uk e0) = true /\
                       e_seq e0 <= minSeq /\ first_vis k s (drop (Some (e_uk e, e_seq e)) l) = None)).
      { apply IH; [exact Hl|exact Hkl|]. intros u ls H Hu. injection H as <- <-.
        destruct (N.lt_ge_cases s (e_seq e)) as [H|H]; [exact H|].
        assert (vis c k s e = true) by (apply (pvis_true c); split; [exact Hu|lia]). congruence. }
      destruct (last_seq c p last e <=? minSeq); [exact IH'|].
      destruct ((e_kind e =? keyTypeDel p) && (e_seq e <=? minSeq) && base (e_uk e)); [exact IH'|].
      cbn [LsmProofs.first_vis]. rewrite V. exact IH'.
  Qed.

  Lemma pdrop_fresh k s : minSeq <= s -> forall l last, ssorted l -> kinds_ok l ->
    (forall u ls, last = Some (u, ls) -> cmp c u k = Eq -> s < ls) ->
    res (first_vis k s (drop last l)) = res (first_vis k s l).
  Proof.
    intros Hms l last Hs Hk Hlast.
    destruct (pdrop_fresh_strong k s Hms l last Hs Hk Hlast) as [->|[e [F [Kd [_ [_ D]]]]]]; [reflexivity|].
    rewrite D, F. unfold CompactProofs.res. cbn [group_res]. unfold res_of. rewrite Kd, N.eqb_refl. reflexivity.
  Qed.

  (* Drop rule, per user key (class): for every sequence number s a reader may still hold (s >= minSeq), the kept
     entries answer a lookup of k at s exactly as the inputs did. *)
  Theorem drop_rule_sound_pre k s l : ssorted l -> kinds_ok l -> minSeq <= s ->
    res (newest c k s (drop None l) None) = res (newest c k s l None).
  Proof.
    intros Hs Hk Hms.
    rewrite (pnewest_sorted c ok p pok k s _ None (pdrop_kinds None l Hk) (pdrop_sorted None l Hs)).
    rewrite (pnewest_sorted c ok p pok k s _ None Hk Hs).
    pose proof (pdrop_fresh k s Hms l None Hs Hk) as H.
    assert (H' : res (first_vis k s (drop None l)) = res (first_vis k s l)) by (apply H; discriminate).
    destruct (first_vis k s (drop None l)); destruct (first_vis k s l); exact H'.
  Qed.

  Theorem drop_rule_subset_pre l x : In x (drop None l) -> In x l.
  Proof. apply pdrop_incl. Qed.
End Proofs.
