(* Lsm/HistoryProofs.v — any history of writes, snapshots and admissible reorganisations answers every
   protected read like the plain map. *)
From GL Require Import Base.Order Base.OrderProofs Codec.IKey Codec.IKeyProofs Lsm.Lsm Lsm.Compact
  Lsm.LsmProofs Lsm.CompactProofs Lsm.History.
From Coq Require Import ZArith Lia ZifyN ZifyNat ZifyBool.

Section Proofs.
  Variable c : comparer.
  Hypothesis ok : comparer_ok c.
  Variable p : kparams.
  Hypothesis pok : kparams_ok p.

  Notation newest := (newest c).
  Notation vis := (vis c).
  Notation res := (History.res p).

  Lemma vis_seq_irrelevant k s1 s2 e : e_seq e <= s1 -> s1 <= s2 -> vis k s2 e = vis k s1 e.
  Proof.
    intros H1 H2. unfold Lsm.vis. destruct (cmp c (e_uk e) k); [|reflexivity|reflexivity].
    destruct (e_seq e <=? s2) eqn:A; destruct (e_seq e <=? s1) eqn:B; try reflexivity; lia.
  Qed.

  Lemma newest_seq_irrelevant k s1 s2 l acc : (forall x, In x l -> e_seq x <= s1) -> s1 <= s2 ->
    newest k s2 l acc = newest k s1 l acc.
  Proof.
    revert acc; induction l as [|e l IH]; intros acc H Hs; cbn [Lsm.newest]; [reflexivity|].
    rewrite (vis_seq_irrelevant k s1 s2 e) by (try apply H; try left; auto).
    apply IH; [|exact Hs]. intros x Hx. apply H. right; exact Hx.
  Qed.

  (* with an accumulator older than every visible element, and at least one visible element, the
     accumulator does not matter *)
  Lemma newest_acc_irrelevant k s l a b :
    (forall x, In x l -> vis k s x = true -> e_seq a < e_seq x /\ e_seq b < e_seq x) ->
    (exists x, In x l /\ vis k s x = true) ->
    newest k s l (Some a) = newest k s l (Some b).
  Proof.
    induction l as [|e l IH]; intros H [x [Hx Vx]]; [destruct Hx|]. cbn [Lsm.newest].
    destruct (vis k s e) eqn:V.
    - cbn [newer]. destruct (H e (or_introl eq_refl) V) as [Ha Hb].
      replace (e_seq a <? e_seq e) with true by (symmetry; apply N.ltb_lt; exact Ha).
      replace (e_seq b <? e_seq e) with true by (symmetry; apply N.ltb_lt; exact Hb). reflexivity.
    - apply IH.
      + intros y Hy. apply H. right; exact Hy.
      + destruct Hx as [<-|Hx]; [congruence|]. exists x. split; assumption.
  Qed.

  Lemma newest_acc_none k s l a :
    (forall x, In x l -> vis k s x = true -> e_seq a < e_seq x) ->
    (exists x, In x l /\ vis k s x = true) ->
    newest k s l (Some a) = newest k s l None.
  Proof.
    induction l as [|e l IH]; intros H [x [Hx Vx]]; [destruct Hx|]. cbn [Lsm.newest].
    destruct (vis k s e) eqn:V.
    - cbn [newer]. pose proof (H e (or_introl eq_refl) V) as Ha.
      replace (e_seq a <? e_seq e) with true by (symmetry; apply N.ltb_lt; exact Ha). reflexivity.
    - apply IH.
      + intros y Hy. apply H. right; exact Hy.
      + destruct Hx as [<-|Hx]; [congruence|]. exists x. split; assumption.
  Qed.

  Lemma vis_dec_list k s l : (exists x, In x l /\ vis k s x = true) \/ (forall x, In x l -> vis k s x = false).
  Proof.
    induction l as [|e l [[x [Hx Vx]]|IH]].
    - right. intros x [].
    - left. exists x. split; [right|]; assumption.
    - destruct (vis k s e) eqn:V.
      + left. exists e. split; [left; reflexivity|exact V].
      + right. intros x [<-|Hx]; [exact V|apply IH; exact Hx].
  Qed.

  (* appending a batch of strictly newer entries: the answer comes from the batch if it has a visible
     entry of k, else from what was there *)
  Lemma newest_append_newer k s l1 l2 es :
    res (newest k s l1 None) = res (newest k s l2 None) ->
    (forall a x, (In a l1 \/ In a l2) -> In x es -> e_seq a < e_seq x) ->
    res (newest k s (l1 ++ es) None) = res (newest k s (l2 ++ es) None).
  Proof.
    intros Hr Hnew. rewrite !(newest_app c).
    destruct (vis_dec_list k s es) as [Hex|Hno].
    - assert (E : forall l, (forall a, In a l -> In a l1 \/ In a l2) ->
                  newest k s es (newest k s l None) = newest k s es None).
      { intros l Hl. destruct (newest k s l None) as [a|] eqn:A; [|reflexivity].
        apply (newest_in c) in A as [A|[Ha _]]; [discriminate|].
        apply newest_acc_none; [|exact Hex]. intros x Hx _. apply (Hnew a x); [apply Hl; exact Ha|exact Hx]. }
      rewrite (E l1) by (intros; left; assumption). rewrite (E l2) by (intros; right; assumption). reflexivity.
    - rewrite !(newest_none c k s es Hno). exact Hr.
  Qed.

  (* ---- the invariant of histories ---- *)
  Record hinv (h : hstate) : Prop := {
    hi_store_le : forall x, In x (h_store h) -> e_seq x <= h_seq h;
    hi_hist_le : forall x, In x (h_hist h) -> e_seq x <= h_seq h;
    hi_prot_le : forall s, protected h s -> s <= h_seq h;
    hi_reads : forall k s, protected h s ->
      res (newest k s (h_store h) None) = res (newest k s (h_hist h) None)
  }.

  Lemma stamp_seq seq recs x : In x (stamp seq recs) -> seq < e_seq x /\ e_seq x <= seq + N.of_nat (length recs).
  Proof.
    revert seq; induction recs as [|[[kd k] v] recs IH]; intros seq; cbn [stamp length]; [intros []|].
    intros [<-|H]; cbn [e_seq]; [lia|]. apply IH in H. lia.
  Qed.

  Lemma hinv_init : hinv h_init.
  Proof.
    constructor; cbn.
    - intros x [].
    - intros x [].
    - intros s [->|[]]. cbn. lia.
    - reflexivity.
  Qed.

  Lemma remove_nth_in {A} i (l : list A) x : In x (remove_nth i l) -> In x l.
  Proof.
    revert i; induction l as [|y l IH]; intros [|i]; cbn; auto.
    intros [->|H]; [left; reflexivity|right; eapply IH; eauto].
  Qed.

  Lemma hinv_step h o : hinv h -> hop_ok c p h o -> hinv (hstep h o).
  Proof.
    intros [I1 I2 I3 I4] Hok. destruct o as [recs| |i|s']; cbn [hstep].
    - (* write *)
      constructor; cbn [h_seq h_store h_hist h_snaps].
      + intros x Hx. apply in_app_or in Hx as [Hx|Hx]; [specialize (I1 x Hx); lia|].
        apply stamp_seq in Hx. lia.
      + intros x Hx. apply in_app_or in Hx as [Hx|Hx]; [specialize (I2 x Hx); lia|].
        apply stamp_seq in Hx. lia.
      + intros s [->|Hs]; [cbn; lia|]. assert (s <= h_seq h) by (apply I3; right; exact Hs). lia.
      + intros k s Hp.
        assert (Hnew : forall a x, In a (h_store h) \/ In a (h_hist h) ->
                  In x (stamp (h_seq h) recs) -> e_seq a < e_seq x).
        { intros a x [Ha|Ha] Hx; apply stamp_seq in Hx; [specialize (I1 a Ha)|specialize (I2 a Ha)]; lia. }
        apply newest_append_newer; [|exact Hnew].
        destruct Hp as [Hs|Hs]; cbn [h_seq h_snaps] in Hs.
        * (* the new current sequence number: old entries are all <= the old one *)
          subst s.
          rewrite (newest_seq_irrelevant k (h_seq h) _ (h_store h) None I1) by lia.
          rewrite (newest_seq_irrelevant k (h_seq h) _ (h_hist h) None I2) by lia.
          apply I4. left; reflexivity.
        * apply I4. right; exact Hs.
    - (* snapshot *)
      constructor; cbn [h_seq h_store h_hist h_snaps]; auto.
      + intros s [->|Hs]; [cbn; lia|]. apply in_app_or in Hs as [Hs|[<-|[]]]; [apply I3; right; exact Hs|lia].
      + intros k s [Hs|Hs]; [apply I4; left; exact Hs|].
        apply in_app_or in Hs as [Hs|[<-|[]]]; apply I4; [right; exact Hs|left; reflexivity].
    - (* release *)
      constructor; cbn [h_seq h_store h_hist h_snaps]; auto.
      + intros s [->|Hs]; [cbn; lia|]. apply I3. right. eapply remove_nth_in; eauto.
      + intros k s [Hs|Hs]; apply I4; [left; exact Hs|right; eapply remove_nth_in; eauto].
    - (* reorganisation *)
      destruct Hok as [Hsub Hres].
      constructor; cbn [h_seq h_store h_hist h_snaps]; auto.
      intros k s Hp. rewrite (Hres k s Hp). apply I4. exact Hp.
  Qed.

  Lemma hinv_run_from h ops : hinv h -> hops_ok c p h ops -> hinv (fold_left (hstep) ops h).
  Proof.
    revert h; induction ops as [|o ops IH]; intros h Hi Hok; cbn [fold_left]; [exact Hi|].
    destruct Hok as [Ho Hrest]. apply IH; [apply hinv_step; assumption|exact Hrest].
  Qed.

  (* Every protected read of the stored collection equals the same read of the full history. *)
  Theorem history_correct ops : hops_ok c p h_init ops ->
    forall k s, protected (hrun ops) s -> store_get c p (hrun ops) k s = hist_get c p (hrun ops) k s.
  Proof.
    intros Hok k s Hp. unfold store_get, hist_get, hrun.
    apply (hi_reads _ (hinv_run_from h_init ops hinv_init Hok)). exact Hp.
  Qed.

  (* ---- the history read at the current sequence number is the plain map ---- *)
  Lemma a_get_remove_same k m : a_get c k (a_remove c k m) = None.
  Proof.
    induction m as [|[k' v] m IH]; cbn [a_remove a_get]; [reflexivity|].
    destruct (cmp c k' k) eqn:E; [exact IH| |]; cbn [a_get]; rewrite E; exact IH.
  Qed.

  Lemma a_get_remove_other k k' m : k' <> k -> a_get c k (a_remove c k' m) = a_get c k m.
  Proof.
    intros Hne. induction m as [|[k2 v] m IH]; cbn [a_remove a_get]; [reflexivity|].
    destruct (cmp c k2 k') eqn:E.
    - apply (cmp_eq c ok) in E. subst k2.
      destruct (cmp c k' k) eqn:E2; [apply (cmp_eq c ok) in E2; congruence|exact IH|exact IH].
    - cbn [a_get]. destruct (cmp c k2 k); [reflexivity|exact IH|exact IH].
    - cbn [a_get]. destruct (cmp c k2 k); [reflexivity|exact IH|exact IH].
  Qed.

  Definition rec_key (r : wrec) : bytes := snd (fst r).

  Lemma a_get_apply k m r :
    a_get c k (a_apply c p m r) =
    match r with (kd, k', v) =>
      match cmp c k' k with
      | Eq => if kd =? keyTypeDel p then None else Some v
      | _ => a_get c k m
      end
    end.
  Proof.
    destruct r as [[kd k'] v]. unfold a_apply.
    destruct (cmp c k' k) eqn:E.
    - apply (cmp_eq c ok) in E. subst k'. destruct (kd =? keyTypeDel p).
      + apply a_get_remove_same.
      + cbn [a_get]. rewrite (cmp_refl c ok). reflexivity.
    - assert (k' <> k) by (intros ->; rewrite (cmp_refl c ok) in E; discriminate).
      destruct (kd =? keyTypeDel p); [apply a_get_remove_other; assumption|].
      cbn [a_get]. rewrite E. apply a_get_remove_other; assumption.
    - assert (k' <> k) by (intros ->; rewrite (cmp_refl c ok) in E; discriminate).
      destruct (kd =? keyTypeDel p); [apply a_get_remove_other; assumption|].
      cbn [a_get]. rewrite E. apply a_get_remove_other; assumption.
  Qed.

  (* one more record on top of a history whose entries are all <= seq *)
  Lemma newest_snoc k seq l e : (forall x, In x l -> e_seq x <= seq) -> e_seq e = seq + 1 ->
    newest k (seq + 1) (l ++ [e]) None =
    match cmp c (e_uk e) k with Eq => Some e | _ => newest k seq l None end.
  Proof.
    intros Hl He. rewrite (newest_app c). cbn [Lsm.newest]. unfold Lsm.vis.
    rewrite (newest_seq_irrelevant k seq (seq + 1) l None Hl) by lia.
    destruct (cmp c (e_uk e) k); [|reflexivity|reflexivity].
    replace (e_seq e <=? seq + 1) with true by (symmetry; apply N.leb_le; lia).
    destruct (newest k seq l None) as [a|] eqn:A; [|reflexivity]. cbn [newer].
    apply (newest_in c) in A as [A|[Ha _]]; [discriminate|].
    specialize (Hl a Ha). replace (e_seq a <? e_seq e) with true by (symmetry; apply N.ltb_lt; lia). reflexivity.
  Qed.

  Lemma hist_recs k : forall recs seq l m,
    (forall x, In x l -> e_seq x <= seq) ->
    res (newest k seq l None) = a_get c k m ->
    res (newest k (seq + N.of_nat (length recs)) (l ++ stamp seq recs) None) = a_get c k (fold_left (a_apply c p) recs m).
  Proof.
    induction recs as [|[[kd k'] v] recs IH]; intros seq l m Hl Hm.
    - cbn [length stamp fold_left]. rewrite app_nil_r. replace (seq + N.of_nat 0) with seq by lia. exact Hm.
    - cbn [length stamp fold_left].
      replace (seq + N.of_nat (S (length recs))) with ((seq + 1) + N.of_nat (length recs)) by lia.
      replace (l ++ {| e_uk := k'; e_seq := seq + 1; e_kind := kd; e_val := v |} :: stamp (seq + 1) recs)
        with ((l ++ [{| e_uk := k'; e_seq := seq + 1; e_kind := kd; e_val := v |}]) ++ stamp (seq + 1) recs)
        by (rewrite <- app_assoc; reflexivity).
      apply IH.
      + intros x Hx. apply in_app_or in Hx as [Hx|[<-|[]]]; [specialize (Hl x Hx); lia|cbn; lia].
      + rewrite (newest_snoc k seq l {| e_uk := k'; e_seq := seq + 1; e_kind := kd; e_val := v |} Hl eq_refl). cbn [e_uk].
        rewrite (a_get_apply k m (kd, k', v)).
        destruct (cmp c k' k); [|exact Hm|exact Hm].
        unfold History.res. cbn [group_res]. unfold res_of. cbn [e_kind e_val].
        destruct (kd =? keyTypeDel p); reflexivity.
  Qed.

  Definition hbound (h : hstate) : Prop := forall x, In x (h_hist h) -> e_seq x <= h_seq h.

  Lemma hbound_step h o : hbound h -> hbound (hstep h o).
  Proof.
    intros Hb. destruct o as [recs| |i|s']; cbn [hstep]; unfold hbound; cbn [h_seq h_hist]; auto.
    intros x Hx. apply in_app_or in Hx as [Hx|Hx]; [specialize (Hb x Hx); lia|apply stamp_seq in Hx; lia].
  Qed.

  Definition map_step (m : amap) (o : hop) : amap :=
    match o with HWrite recs => fold_left (a_apply c p) recs m | _ => m end.

  Lemma hist_is_map_from ops : forall h m, hbound h ->
    (forall k, res (newest k (h_seq h) (h_hist h) None) = a_get c k m) ->
    forall k, res (newest k (h_seq (fold_left hstep ops h)) (h_hist (fold_left hstep ops h)) None) =
              a_get c k (fold_left map_step ops m).
  Proof.
    induction ops as [|o ops IH]; intros h m Hb Hm k; cbn [fold_left]; [apply Hm|].
    apply IH; [apply hbound_step; exact Hb|].
    intros k'. destruct o as [recs| |i|s']; cbn [hstep map_step h_seq h_hist]; try apply Hm.
    apply hist_recs; [exact Hb|apply Hm].
  Qed.

  (* Reading the full history at the current sequence number is reading the plain map driven by the
     same writes. *)
  Theorem hist_is_map ops k :
    hist_get c p (hrun ops) k (h_seq (hrun ops)) = a_get c k (map_of c p ops).
  Proof.
    unfold hist_get, hrun, map_of. apply (hist_is_map_from ops h_init []).
    - intros x [].
    - intros k'. reflexivity.
  Qed.

  (* C01 at the level of histories: every Get at the current sequence number returns what the plain map
     returns, whatever writes, snapshots and admissible reorganisations happened. *)
  Theorem get_is_map ops k : hops_ok c p h_init ops ->
    store_get c p (hrun ops) k (h_seq (hrun ops)) = a_get c k (map_of c p ops).
  Proof.
    intros Hok. rewrite (history_correct ops Hok k _ (or_introl eq_refl)). apply hist_is_map.
  Qed.

  (* ---- snapshots are frozen views (C03) ---- *)
  Lemma hist_prefix_step h o : exists es, h_hist (hstep h o) = h_hist h ++ es /\
    (forall x, In x es -> h_seq h < e_seq x) /\ h_seq h <= h_seq (hstep h o).
  Proof.
    destruct o as [recs| |i|s']; cbn [hstep h_hist h_seq].
    - exists (stamp (h_seq h) recs). split; [reflexivity|]. split; [|lia].
      intros x Hx. apply stamp_seq in Hx. lia.
    - exists []. rewrite app_nil_r. split; [reflexivity|]. split; [intros x []|lia].
    - exists []. rewrite app_nil_r. split; [reflexivity|]. split; [intros x []|lia].
    - exists []. rewrite app_nil_r. split; [reflexivity|]. split; [intros x []|lia].
  Qed.

  Lemma hist_prefix_run ops : forall h, exists es, h_hist (fold_left hstep ops h) = h_hist h ++ es /\
    (forall x, In x es -> h_seq h < e_seq x) /\ h_seq h <= h_seq (fold_left hstep ops h).
  Proof.
    induction ops as [|o ops IH]; intros h; cbn [fold_left].
    - exists []. rewrite app_nil_r. split; [reflexivity|]. split; [intros x []|lia].
    - destruct (hist_prefix_step h o) as [es1 [E1 [N1 L1]]].
      destruct (IH (hstep h o)) as [es2 [E2 [N2 L2]]].
      exists (es1 ++ es2). rewrite E2, E1, app_assoc. split; [reflexivity|]. split; [|lia].
      intros x Hx. apply in_app_or in Hx as [Hx|Hx]; [apply N1; exact Hx|specialize (N2 x Hx); lia].
  Qed.

  (* the later history does not change what is read at an older sequence number *)
  Lemma hist_get_stable ops h k s : s <= h_seq h ->
    hist_get c p (fold_left hstep ops h) k s = hist_get c p h k s.
  Proof.
    intros Hs. unfold hist_get. destruct (hist_prefix_run ops h) as [es [E [Nw _]]].
    rewrite E, (newest_app c). f_equal. apply (newest_none c). intros x Hx.
    specialize (Nw x Hx). unfold Lsm.vis. destruct (cmp c (e_uk x) k); [|reflexivity|reflexivity].
    apply N.leb_gt. lia.
  Qed.

  (* A snapshot keeps returning the contents of the instant it was taken, however many writes, flushes,
     compactions, other snapshots and releases follow, as long as it is itself still live. *)
  Theorem snapshot_stable ops1 ops2 k : let h1 := hrun ops1 in let s := h_seq h1 in
    hops_ok c p h_init (ops1 ++ ops2) ->
    In s (h_snaps (hrun (ops1 ++ ops2))) ->
    store_get c p (hrun (ops1 ++ ops2)) k s = a_get c k (map_of c p ops1).
  Proof.
    intros h1 s Hok Hlive.
    rewrite (history_correct (ops1 ++ ops2) Hok k s (or_intror Hlive)).
    unfold hrun. rewrite fold_left_app. fold (hrun ops1). fold h1.
    rewrite (hist_get_stable ops2 h1 k s) by (unfold s; lia).
    apply hist_is_map.
  Qed.
End Proofs.
