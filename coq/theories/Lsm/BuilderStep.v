(* Lsm/BuilderStep.v — the abstraction "outputs = chunks of the kept merged entries cut only between different user keys"
   (C06Steps.outputs_of) discharged for the model of tableCompactionBuilder: for the compaction the model picker builds
   on a well-formed version, whatever transient failures hit the attempts of compactionTransact, the tables recorded when
   it returns satisfy outputs_of — so installing them keeps the invariant (C06Steps.compaction_step, also interleaved with
   level-0 installs) and reads at every sequence number >= minSeq are preserved (C06Steps.model_compaction_admissible
   speaks about the same compact_entries). *)
From GL Require Import Base.Order Base.OrderProofs Codec.IKey Codec.IKeyProofs Lsm.Lsm Lsm.Compact Lsm.LsmProofs
  Lsm.CompactProofs Lsm.History Lsm.HistoryProofs Lsm.ReorgProofs Lsm.WfProofs Lsm.CertProofs Lsm.OutputProofs
  Lsm.Pick Lsm.PickBase Lsm.OverlapProofs Lsm.ExpandProofs Lsm.WfLsm Lsm.FinishProofs Lsm.InsertProofs Lsm.StepProofs
  Lsm.ModelStep Lsm.FlushProofs Lsm.C06Steps Lsm.Builder Lsm.BuilderBase Lsm.BuilderProofs Lsm.BuilderCuts.
From Coq Require Import Arith Lia.

Local Open Scope nat_scope.

Section Closed.
  Variable c : comparer.
  Hypothesis ok : comparer_ok c.
  Variable p : kparams.
  Hypothesis pok : kparams_ok p.
  Variable sz : table -> N.

  Notation wf_lsm := (wf_lsm c p).

  Lemma in_skipn_lv (v : list (list table)) k l : In l (skipn k v) -> exists j, k <= j /\ l = lv v j.
  Proof.
    revert v; induction k as [|k IH]; intros v H.
    - cbn [skipn] in H. destruct (In_nth _ _ [] H) as [j [_ E]]. exists j. split; [lia|]. unfold lv. symmetry. exact E.
    - destruct v as [|x v]; [destruct H|]. cbn [skipn] in H. destruct (IH v H) as [j [Hj E]]. exists (S j). split; [lia|exact E].
  Qed.

  Lemma deeper_ok v lvl : wf_lsm v -> Forall (lvl_ok c p) (skipn (lvl + 2) v).
  Proof.
    intros W. apply Forall_forall. intros l Hl. destruct (in_skipn_lv v (lvl + 2) l Hl) as [j [Hj ->]].
    split; [intros t Ht; apply (wl_tbl c p v W j t Ht)|apply (wl_deep c p v W j); lia].
  Qed.

  (* the builder's recorded tables are outputs in the sense of the step theorems *)
  Theorem builder_outputs_of v lvl limit seed : wf_lsm v -> seed_ok v lvl seed ->
    exists cm, new_compaction c sz v lvl limit seed = POk cm /\
      forall gp maxgp minSeq strict tableSize tsize os s',
        let deeper := skipn (lvl + 2) v in
        let es := merge_inputs c (c_t0 cm ++ c_t1 cm) in
        transact c p sz gp maxgp deeper minSeq strict tableSize tsize os (map IGood es) (bst0 deeper) = (s', TDone) ->
        out_items s' = map (map IGood) (fin s') /\
        outputs_of c p cm minSeq deeper (fin s') /\
        kerr s' = 0%N /\
        (drop s' + N.of_nat (length (compact_entries c p minSeq deeper (c_t0 cm ++ c_t1 cm))) = N.of_nat (length es))%N.
  Proof.
    intros W [S1 [S2 S3]]. destruct (model_pick c ok p sz v W lvl limit seed S1 S2 S3) as [cm [E Pk]].
    exists cm. split; [exact E|]. intros gp maxgp minSeq strict tableSize tsize os s' deeper es H.
    assert (Hs : ssorted c es).
    { unfold es, merge_inputs. apply (isort_sorted c ok p pok).
      - apply (pk_I_kinds c p v W lvl seed cm Pk).
      - apply (pk_I_uniq c p sz v W lvl seed cm Pk). }
    destruct (transact_good c ok p sz gp maxgp deeper (deeper_ok v lvl W) minSeq strict tableSize tsize es os s'
                (ssorted_uk_sorted c es Hs) H) as [Q1 [Q2 [Q3 [Q4 Q5]]]].
    split; [exact Q1|]. split; [split; [exact Q2|exact Q3]|]. split; [exact Q4|exact Q5].
  Qed.

  (* ... hence installing them keeps the invariant, for every history of transient failures *)
  Theorem builder_compaction_step v lvl limit seed : wf_lsm v -> seed_ok v lvl seed ->
    exists cm, new_compaction c sz v lvl limit seed = POk cm /\
      forall gp maxgp minSeq strict tableSize tsize os s' nums,
        let deeper := skipn (lvl + 2) v in
        transact c p sz gp maxgp deeper minSeq strict tableSize tsize os
                 (map IGood (merge_inputs c (c_t0 cm ++ c_t1 cm))) (bst0 deeper) = (s', TDone) ->
        length nums = length (fin s') -> fresh_nums v nums ->
        exists nv, finish c true v (compaction_edit cm (mk_outputs nums (fin s'))) = POk nv /\ wf_lsm nv.
  Proof.
    intros W Sd. destruct (builder_outputs_of v lvl limit seed W Sd) as [cm [E B]].
    destruct (compaction_step c ok p pok sz v lvl limit seed W Sd) as [cm' [E' St]].
    rewrite E in E'. injection E' as <-.
    exists cm. split; [exact E|]. intros gp maxgp minSeq strict tableSize tsize os s' nums deeper H Hl Hf.
    destruct (B gp maxgp minSeq strict tableSize tsize os s' H) as [_ [O _]].
    apply (St minSeq deeper (fin s') nums O Hl Hf).
  Qed.

  Theorem builder_compaction_step_interleaved v lvl limit seed : wf_lsm v -> seed_ok v lvl seed ->
    exists cm, new_compaction c sz v lvl limit seed = POk cm /\
      forall v2 gp maxgp minSeq strict tableSize tsize os s' nums,
        let deeper := skipn (lvl + 2) v in
        later_version c p v v2 ->
        transact c p sz gp maxgp deeper minSeq strict tableSize tsize os
                 (map IGood (merge_inputs c (c_t0 cm ++ c_t1 cm))) (bst0 deeper) = (s', TDone) ->
        length nums = length (fin s') -> fresh_nums v2 nums ->
        exists nv, finish c true v2 (compaction_edit cm (mk_outputs nums (fin s'))) = POk nv /\ wf_lsm nv.
  Proof.
    intros W Sd. destruct (builder_outputs_of v lvl limit seed W Sd) as [cm [E B]].
    destruct (compaction_step_interleaved c ok p pok sz v lvl limit seed W Sd) as [cm' [E' St]].
    rewrite E in E'. injection E' as <-.
    exists cm. split; [exact E|]. intros v2 gp maxgp minSeq strict tableSize tsize os s' nums deeper L H Hl Hf.
    destruct (B gp maxgp minSeq strict tableSize tsize os s' H) as [_ [O _]].
    apply (St v2 minSeq deeper (fin s') nums L O Hl Hf).
  Qed.
End Closed.
