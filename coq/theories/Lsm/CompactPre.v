(* Lsm/CompactPre.v — the boolean certificates of Lsm/Compact.v with "same user key" decided by the COMPARER
   (equivalence class) instead of byte equality: what the correspondence evaluator re-checks on dumped versions and
   observed compactions of programs run under a NON-INJECTIVE comparer (Corr/LsmRun.v, comparer id 4).  For an
   injective comparer they coincide with uniqb / wf_versionb / compaction_cert.  Model file: definitions only. *)
From GL Require Export Lsm.Lsm Lsm.Compact.

Section WithComparer.
  Variable c : comparer.
  Variable p : kparams.

  Definition keqb (a b : bytes) : bool := match cmp c a b with Eq => true | _ => false end.

  (* no two entries share user key (class) and sequence number *)
  Fixpoint uniqcb (l : list entry) : bool :=
    match l with
    | [] => true
    | a :: l' => forallb (fun b => negb (keqb (e_uk a) (e_uk b) && (e_seq a =? e_seq b))) l' && uniqcb l'
    end.

  Definition wf_versioncb (lvls : list (list table)) : bool :=
    forallb (table_okb c p) (concat lvls) &&
    match lvls with
    | [] => true
    | l0 :: rest => nums_desc l0 && uniqcb (Compact.level_entries l0) && forallb (level_disjoint c) rest
    end &&
    levels_newer c lvls.

  Definition compaction_certc (minSeq : N) (deeper : list (list table)) (I O : list entry)
             (outs : list (list entry)) : bool :=
    kindsb p I && uniqcb (I ++ O) && othersb c (is_base c deeper) I O && (minSeq <? keyMaxSeq p).
End WithComparer.
