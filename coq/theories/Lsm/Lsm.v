(* Lsm/Lsm.v — L1: the logical LSM state and its read path.
   Mirrors leveldb/db.go (DB.get, memGet), version.go (version.get, walkOverlapping),
   table.go (tFile.overlaps, searchMax).  Model file: definitions only. *)
From GL Require Export Base.Order Codec.IKey.

Record entry := { e_uk : bytes; e_seq : N; e_kind : N; e_val : bytes }.

Definition e_ikey (e : entry) : ikey := {| uk := e_uk e; num := pack (e_seq e) (e_kind e) |}.

Record table := { t_num : N; t_entries : list entry }.

(* what the dump of a DB state shows: write buffer, frozen buffer, the transaction's private tables
   ("level -1"), and the levels (level 0 newest first) *)
Record lstate := {
  st_mem : list entry;
  st_frozen : list entry;
  st_aux : list table;
  st_levels : list (list table)
}.

Inductive gres := GFound (v : bytes) | GDeleted | GMiss.

Section WithComparer.
  Variable c : comparer.
  Variable p : kparams.

  Definition ecmp (a b : entry) : comparison := icmp c (e_ikey a) (e_ikey b).

  (* first entry >= the probe key in an (icmp-sorted) entry list: what memdb.Find and the table's
     find return *)
  Fixpoint find_ge (q : ikey) (l : list entry) : option entry :=
    match l with
    | [] => None
    | e :: l' => match icmp c (e_ikey e) q with
                 | Lt => find_ge q l'
                 | _ => Some e
                 end
    end.

  Definition res_of (e : entry) : gres :=
    if e_kind e =? keyTypeDel p then GDeleted else GFound (e_val e).

  (* memGet: hit only if the found entry has the sought user key *)
  Definition comp_get (l : list entry) (k : bytes) (s : N) : gres :=
    match find_ge (probe p k s) l with
    | Some e => match cmp c (e_uk e) k with Eq => res_of e | _ => GMiss end
    | None => GMiss
    end.

  Definition t_first (t : table) : option entry := hd_error (t_entries t).
  Definition t_last (t : table) : option entry := last (map Some (t_entries t)) None.

  (* tFile.overlaps(ukey, ukey): not after imax, not before imin *)
  Definition t_covers (t : table) (k : bytes) : bool :=
    match t_first t, t_last t with
    | Some f, Some l => leb c (e_uk f) k && leb c k (e_uk l)
    | _, _ => false
    end.

  (* level 0 / aux group: among all covering tables, the hit with the largest sequence number
     (fseq >= zseq, first hit always accepted) *)
  Fixpoint group_get (ts : list table) (k : bytes) (s : N) (z : option entry) : option entry :=
    match ts with
    | [] => z
    | t :: ts' =>
        let z' :=
          if t_covers t k then
            match find_ge (probe p k s) (t_entries t) with
            | Some e => match cmp c (e_uk e) k with
                        | Eq => match z with
                                | Some ze => if e_seq ze <=? e_seq e then Some e else z
                                | None => Some e
                                end
                        | _ => z
                        end
            | None => z
            end
          else z in
        group_get ts' k s z'
    end.

  (* searchMax: first table whose largest key is >= the probe *)
  Fixpoint search_max (ts : list table) (q : ikey) : option table :=
    match ts with
    | [] => None
    | t :: ts' => match t_last t with
                  | Some l => match icmp c (e_ikey l) q with
                              | Lt => search_max ts' q
                              | _ => Some t
                              end
                  | None => search_max ts' q
                  end
    end.

  (* one sorted level: consult at most one table *)
  Definition level_get (ts : list table) (k : bytes) (s : N) : gres :=
    match search_max ts (probe p k s) with
    | Some t => match t_first t with
                | Some f => if leb c (e_uk f) k then comp_get (t_entries t) k s else GMiss
                | None => GMiss
                end
    | None => GMiss
    end.

  Fixpoint deep_get (lvls : list (list table)) (k : bytes) (s : N) : gres :=
    match lvls with
    | [] => GMiss
    | ts :: rest => match level_get ts k s with
                    | GMiss => deep_get rest k s
                    | r => r
                    end
    end.

  Definition group_res (z : option entry) : gres :=
    match z with Some e => res_of e | None => GMiss end.

  (* version.get with aux tables *)
  Definition version_get (aux : list table) (lvls : list (list table)) (k : bytes) (s : N) : gres :=
    match group_res (group_get aux k s None) with
    | GMiss =>
        match lvls with
        | [] => GMiss
        | l0 :: rest => match group_res (group_get l0 k s None) with
                        | GMiss => deep_get rest k s
                        | r => r
                        end
        end
    | r => r
    end.

  (* DB.get: write buffer, frozen buffer, then the version *)
  Definition lsm_get (st : lstate) (k : bytes) (s : N) : gres :=
    match comp_get (st_mem st) k s with
    | GMiss => match comp_get (st_frozen st) k s with
               | GMiss => version_get (st_aux st) (st_levels st) k s
               | r => r
               end
    | r => r
    end.

  (* what the API returns: Some value / None = ErrNotFound *)
  Definition api_of (r : gres) : option bytes :=
    match r with GFound v => Some v | _ => None end.

  (* ---- the specification: newest entry of k with seq <= s among ALL entries ---- *)
  Definition all_tables (st : lstate) : list table := st_aux st ++ concat (st_levels st).
  Definition all_entries (st : lstate) : list entry :=
    st_mem st ++ st_frozen st ++ concat (map t_entries (all_tables st)).

  Definition vis (k : bytes) (s : N) (e : entry) : bool :=
    match cmp c (e_uk e) k with Eq => e_seq e <=? s | _ => false end.

  Definition newer (a : option entry) (e : entry) : option entry :=
    match a with
    | None => Some e
    | Some x => if e_seq x <? e_seq e then Some e else a
    end.

  Fixpoint newest (k : bytes) (s : N) (l : list entry) (acc : option entry) : option entry :=
    match l with
    | [] => acc
    | e :: l' => newest k s l' (if vis k s e then newer acc e else acc)
    end.

  Definition spec_get (st : lstate) (k : bytes) (s : N) : option bytes :=
    api_of (group_res (newest k s (all_entries st) None)).
End WithComparer.
