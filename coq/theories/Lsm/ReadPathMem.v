(* Lsm/ReadPathMem.v — memGet on a memdb model state = comp_get of the L1 model on the buffer's entries
   (proof file).  Uses the memdb theory of property C14 as it stands: the representation invariant Inv
   (Mem/MemInv.v) and find_ok (Mem/MemOps.v: Find returns the first pair >= the key of the sorted map the
   arrays represent).  Added here: the level-0 chain read by [mem_walk] IS that map. *)
From GL Require Import Base.Bytes Base.Order Base.OrderProofs Codec.IKey Codec.IKeyProofs Lsm.Lsm Lsm.LsmProofs
  Lsm.ReadPath Lsm.ReadPathKey.
From GL Require Import Mem.MemDB Mem.MemSpec Mem.ArrayLemmas Mem.ListLemmas Mem.MemInv Mem.MemFind Mem.MemOps.
From Coq Require Import Lia ZifyBool.
Open Scope N_scope.

Section MemRead.
  Variable c : comparer.
  Hypothesis ok : comparer_ok c.
  Variable p : kparams.
  Hypothesis pok : kparams_ok p.
  Hypothesis seek_val : keyTypeSeek p <= keyTypeVal p.
  Variable mp : mparams.
  Hypothesis mpok : mparams_ok mp.

  Local Notation ic := (ibc c).
  Local Notation tmax := (tMaxHeight mp).

  (* the memdb satisfies C14's representation invariant and holds decodable keys only *)
  Definition mem_ok (d : db) : Prop :=
    (exists A L, Inv ic tmax d A L) /\ mem_keys_okb p mp d = true.

  Section WithInv.
    Variables (d : db) (A L : list N).
    Hypothesis I : Inv ic tmax d A L.

    Lemma node_kv_ok x : In x L -> node_kv mp d x = Ok (kvof (nodeData d) (kvData d) x).
    Proof.
      intros Hx. destruct (read_node_ok ic mp d A L x I Hx) as (R0 & R1 & R2 & RK & RV).
      unfold node_kv. rewrite (Ekey mp mpok), (Eval mp mpok).
      rewrite R0. cbn [bind]. rewrite R1. cbn [bind]. rewrite RK. cbn [bind]. rewrite R2. cbn [bind].
      rewrite RV. reflexivity.
    Qed.

    Lemma mem_walk_path : forall l fuel x,
      (length l < fuel)%nat -> incl l L -> x + 4 < len (nodeData d) ->
      path (nodeData d) 0 x l 0 ->
      mem_walk mp fuel d x = map (kvof (nodeData d) (kvData d)) l.
    Proof.
      induction l as [|z l IH]; intros fuel x Hf Hin Hx Hp; (destruct fuel as [|fuel]; [cbn in Hf; lia|]);
        cbn [mem_walk]; rewrite (Enext mp mpok), (aget_ok _ _ Hx).
      - cbn [path] in Hp. unfold nx in Hp. rewrite N.add_0_r in Hp. rewrite Hp. reflexivity.
      - cbn [path] in Hp. destruct Hp as [Hz Hp]. unfold nx in Hz. rewrite N.add_0_r in Hz. rewrite Hz.
        assert (HzL : In z L) by (apply Hin; left; reflexivity).
        pose proof (inv_nonzero ic tmax d A L I z (inv_sub _ _ _ _ _ I z HzL)) as Hz0.
        replace (z =? 0) with false by lia.
        rewrite (node_kv_ok z HzL). cbn [map]. f_equal.
        apply IH.
        + cbn in Hf. lia.
        + intros y Hy. apply Hin. right; exact Hy.
        + destruct (inv_node_L ic tmax d A L I z HzL) as (_ & H2 & _ & H4 & _). lia.
        + exact Hp.
    Qed.

    Lemma mem_pairs_abs : mem_pairs mp d = MemInv.abs d L.
    Proof.
      unfold mem_pairs, MemInv.abs. apply mem_walk_path.
      - unfold op_fuel. rewrite (inv_n _ _ _ _ _ I). destruct (inv_mh _ _ _ _ _ I). lia.
      - intros y Hy; exact Hy.
      - pose proof (inv_head _ _ _ _ _ I). pose proof (tmax_pos mp mpok). lia.
      - pose proof (inv_chain _ _ _ _ _ I 0) as Hc. rewrite (inv_lvl0 ic tmax d A L I) in Hc. apply Hc.
        pose proof (tmax_pos mp mpok). lia.
    Qed.

    Lemma mem_find_ok k : mdb_find ic mp (op_fuel d) d k = Ok (s_find_ge ic k (mem_pairs mp d)).
    Proof.
      rewrite mem_pairs_abs.
      apply (find_ok ic (ibc_ok c ok) mp mpok d A L (MemInv.abs d L) (len (kvData d))).
      split; [exact I|]. split; reflexivity.
    Qed.

    (* the represented map is strictly increasing in the encoded order *)
    Lemma mem_pairs_sorted : Cursor.sorted ic (mem_pairs mp d).
    Proof.
      rewrite mem_pairs_abs. unfold MemInv.abs.
      pose proof (inv_sorted _ _ _ _ _ I) as HS. unfold key_sorted in HS.
      clear I. induction L as [|x l IH]; [exact Logic.I|].
      cbn [ListLemmas.sorted] in HS. destruct HS as [HF HS]. specialize (IH HS).
      cbn [map]. unfold kvof at 1. cbn [Cursor.sorted].
      clear IH. revert x HF. induction l as [|y l IH2]; intros x HF; cbn [map Cursor.sorted_from]; [exact Logic.I|].
      inversion HF as [|? ? Hxy HF']; subst. unfold kvof at 1. split; [exact Hxy|].
      apply IH2.
      - cbn [ListLemmas.sorted] in HS. apply HS.
      - cbn [ListLemmas.sorted] in HS. apply HS.
    Qed.
  End WithInv.

  Lemma s_find_ge_find k m : s_find_ge ic k m = find (not_below c k) m.
  Proof.
    unfold s_find_ge. induction m as [|kv m IH]; [reflexivity|]. cbn [find]. rewrite IH.
    unfold key_ge, not_below, ltb. destruct (cmp ic (fst kv) k); reflexivity.
  Qed.

  (* memGet = comp_get on the decoded entries *)
  Theorem mem_get_comp d k s : mem_ok d -> wf_bytes k -> s <= keyMaxSeq p ->
    mem_get c p mp d (encode_ikey (probe p k s)) k =
    match comp_get c p (map entry_of (mem_pairs mp d)) k s with
    | GMiss => None
    | r => Some (BRes r)
    end.
  Proof.
    intros [(A & L & I) Hk] Wk Hs.
    assert (Dq : ik_dec (encode_ikey (probe p k s)) = Some (probe p k s)).
    { apply ik_dec_encode; [exact Wk|]. unfold probe, pack. cbn [num].
      destruct pok as (_ & _ & _ & H256 & Hmax & _). rewrite Hmax in Hs.
      change (2 ^ 64) with (2 ^ 56 * 256). change (2 ^ 56) with 72057594037927936 in *. nia. }
    unfold mem_get. rewrite (mem_find_ok d A L I), s_find_ge_find.
    assert (Hks : keys_ok p (mem_pairs mp d)).
    { unfold keys_ok. apply Forall_forall. unfold mem_keys_okb in Hk. rewrite forallb_forall in Hk. exact Hk. }
    pose proof (find_not_below c p _ _ _ Hks Dq) as F.
    unfold comp_get. rewrite <- F.
    destruct (find (not_below c (encode_ikey (probe p k s))) (mem_pairs mp d)) as [[mk mv]|] eqn:E; cbn [option_map]; [|reflexivity].
    apply find_some in E as [Hin _].
    unfold keys_ok in Hks. rewrite Forall_forall in Hks. specialize (Hks _ Hin). cbn [fst] in Hks.
    apply key_okb_dec in Hks as (x & Dx & Kx).
    rewrite (parse_ok p mk x Dx (kind_le_val p pok x Kx seek_val)).
    rewrite (entry_of_dec (mk, mv) x Dx). cbn [e_uk fst snd].
    destruct (cmp c (uk x) k); try reflexivity.
    unfold res_of. cbn [e_kind e_val]. destruct (ik_kind x =? keyTypeDel p); reflexivity.
  Qed.

  (* memdbs built by the model's own Put from New satisfy the invariant (C14: new_ok, put_ok) *)
  Lemma mem_build_rep l : forall d A L m used, rep ic mp d A L m used ->
    Forall (fun x => 1 <= snd x /\ snd x <= tmax) l ->
    exists d' A' L' m' used', mem_build c mp d l = Ok d' /\ rep ic mp d' A' L' m' used'.
  Proof.
    induction l as [|[[k0 v0] h0] l IH]; intros d A L m used R Hh; [exists d, A, L, m, used; split; [reflexivity|exact R]|].
    inversion Hh as [|? ? [H1 H2] Hh']; subst. cbn [snd] in H1, H2.
    destruct (put_ok ic (ibc_ok c ok) mp mpok d A L m used k0 v0 h0 R H1 H2) as (d' & A' & L' & E & R' & _).
    cbn [mem_build]. unfold ReadPath.ic. rewrite E. cbn [bind]. apply (IH d' A' L' _ _ R' Hh').
  Qed.

  Lemma mem_of_inv l d : Forall (fun x => 1 <= snd x /\ snd x <= tmax) l -> mem_of c mp l = Some d ->
    exists A L, Inv ic tmax d A L.
  Proof.
    intros Hh. unfold mem_of. destruct (new_ok ic mp mpok) as (d0 & E0 & R0). rewrite E0. cbn [bind].
    destruct (mem_build_rep l d0 [] [] [] 0 R0 Hh) as (d' & A' & L' & m' & u' & E & (I & _)).
    rewrite E. intros H. injection H as <-. exists A', L'. exact I.
  Qed.
End MemRead.
