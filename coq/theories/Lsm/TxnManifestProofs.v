(* Lsm/TxnManifestProofs.v — Commit's effect on the manifest (Lsm/TxnBytes.v session_commit / commit_loop, with
   the manifest record codec and replay of Codec/SessionRecord.v, property C04): the record a commit attempt
   appends is ONE record; it encodes; decoded it is the record built from (next-file-num, seq-num = tr.seq, the
   private tables at level 0); replayed behind any manifest it changes exactly that: the sequence number
   becomes tr.seq, the next file number the one it carries, and the live tables gain exactly the private tables;
   a prefix of the manifest's records that does not hold it replays as if the transaction had never been. *)
From GL Require Import Base.Bytes Codec.SessionRecord Codec.SessionRecordSpec Codec.SessionRecordProofs
  Codec.SessionRecordCutProofs Codec.SessionRecordBuildProofs Store.ManifestReplayProofs.
From GL Require Lsm.ReadPath Lsm.TxnBytes.
From Coq Require Import Lia ZArith.
Open Scope N_scope.

Section Manifest.
  Variable p : rparams.
  Hypothesis pok : rparams_ok p.

  Lemma tag_facts :
    tNextFileNum p <> tComparer p /\ tSeqNum p <> tComparer p /\ tNextFileNum p <> tJournalNum p /\
    tSeqNum p <> tJournalNum p /\ tNextFileNum p <> tSeqNum p.
  Proof.
    destruct pok as [Hn _]. unfold tags in Hn.
    repeat match goal with H : NoDup (_ :: _) |- _ => apply NoDup_cons_iff in H; destruct H end.
    cbn [In] in *. intuition congruence.
  Qed.

  (* the fields of the record Commit writes *)
  Definition commit_fields (adds : list atrec) (seq : N) (nf : Z) : rfields :=
    mkrf None None (Some nf) (Some seq) [] [] adds.

  (* tr.rec before the commit: added tables only (Transaction.flush: addTableFile), nothing else that is written *)
  Definition rec_plain (r : srec) : Prop :=
    sr_cps r = [] /\ sr_dels r = [] /\ has r (tComparer p) = false /\ has r (tJournalNum p) = false.

  (* tr.rec.setSeqNum(tr.seq), then fillRecord's setNextFileNum *)
  Definition commit_rec (r : srec) (seq : N) (nf : Z) : srec := set_nextfile p (set_seq p r seq) nf.

  Lemma items_of_commit r seq nf : rec_plain r ->
    items_of p (commit_rec r seq nf) = items_of_fields (commit_fields (sr_adds r) seq nf).
  Proof.
    intros (Ec & Ed & Hc & Hj). destruct tag_facts as (T1 & T2 & T3 & T4 & T5).
    unfold items_of, commit_rec, has, set_nextfile, set_seq in *.
    cbn [sr_has sr_comparer sr_journal sr_nextfile sr_seq sr_cps sr_dels sr_adds]. rewrite !N.setbit_eqb, Hc, Hj, Ec, Ed.
    rewrite !N.eqb_refl.
    replace (tNextFileNum p =? tComparer p) with false by (symmetry; apply N.eqb_neq; exact T1).
    replace (tSeqNum p =? tComparer p) with false by (symmetry; apply N.eqb_neq; exact T2).
    replace (tNextFileNum p =? tJournalNum p) with false by (symmetry; apply N.eqb_neq; exact T3).
    replace (tSeqNum p =? tJournalNum p) with false by (symmetry; apply N.eqb_neq; exact T4).
    cbn [orb]. rewrite Bool.orb_true_r. reflexivity.
  Qed.

  (* the record of a commit encodes, and read back it is the record built from its three kinds of fields *)
  Theorem commit_record_roundtrip r seq nf : rec_plain r -> fields_ok (commit_fields (sr_adds r) seq nf) ->
    exists b, encode p (commit_rec r seq nf) = Some b /\
              decode p sr_empty b = DOk (build p (commit_fields (sr_adds r) seq nf)).
  Proof.
    intros Hp Hf. assert (R : rec_ok p (commit_rec r seq nf)) by (unfold rec_ok; rewrite items_of_commit; assumption).
    destruct (record_roundtrip p pok _ R) as (b & E & D). exists b. split; [exact E|].
    rewrite D, (items_of_commit r seq nf Hp). reflexivity.
  Qed.

  (* ---- replay ---- *)
  Lemma scalar_of_snoc {A} t (f : srec -> A) rs r :
    scalar_of t f (rs ++ [r]) = if has r t then Some (f r) else scalar_of t f rs.
  Proof. unfold scalar_of, last_some. rewrite map_app. cbn [map]. rewrite last_some_from_snoc. destruct (has r t); reflexivity. Qed.

  Lemma live_of_snoc rs r : live_of (rs ++ [r]) = live_apply (live_of rs) r.
  Proof. unfold live_of. rewrite fold_left_app. reflexivity. Qed.

  Theorem commit_replay cmp rs j pj nf0 q live cps adds seq nf :
    replay_result p cmp rs = SpecOk j pj nf0 q live cps ->
    replay_result p cmp (rs ++ [build p (commit_fields adds seq nf)]) =
    SpecOk j pj nf seq (fold_left live_add adds live) cps.
  Proof.
    set (r := build p (commit_fields adds seq nf)). unfold replay_result. intros H.
    rewrite !scalar_of_snoc. unfold r.
    rewrite (has_build_comparer p pok), (has_build_journal p pok), (has_build_nextfile p pok), (has_build_seq p pok), (has_build_prev p pok).
    cbn [commit_fields f_comparer f_journal f_nextfile f_seq is_some].
    destruct (scalar_of (tComparer p) sr_comparer rs) as [cn|]; [|discriminate].
    destruct (negb (beq cn cmp)); [discriminate|].
    destruct (scalar_of (tNextFileNum p) sr_nextfile rs) as [nfo|]; [|discriminate].
    destruct (scalar_of (tJournalNum p) sr_journal rs) as [jo|]; [|discriminate].
    destruct (scalar_of (tSeqNum p) sr_seq rs) as [qo|]; [|discriminate].
    injection H as <- <- <- <- <- <-.
    rewrite live_of_snoc, flat_map_app. cbn [flat_map]. rewrite (build_closed p).
    cbn [commit_fields f_comparer f_journal f_nextfile f_seq f_cps f_dels f_adds sr_nextfile sr_seq sr_cps odflt].
    unfold live_apply. cbn [sr_adds sr_dels fold_left]. rewrite !app_nil_r. reflexivity.
  Qed.

  (* "adds exactly the private tables": for tables whose file numbers are new at their level, the live set after
     the record is the old live set plus those tables *)
  Definition adds_fresh (live adds : list atrec) : Prop :=
    NoDup (map at_num adds) /\
    forall a x, In a adds -> In x live -> same_file (at_level a) (at_num a) x = false.

  Lemma live_add_in live a x : In x (live_add live a) <-> x = a \/ (In x live /\ same_file (at_level a) (at_num a) x = false).
  Proof.
    unfold live_add. cbn [In]. rewrite filter_In, Bool.negb_true_iff. split; [intros [H|H]; [left; symmetry; exact H|right; exact H]|].
    intros [H|H]; [left; symmetry; exact H|right; exact H].
  Qed.

  Lemma live_adds_fresh adds : forall live, adds_fresh live adds -> Forall (fun a => at_level a = 0%Z) adds ->
    forall x, In x (fold_left live_add adds live) <-> In x adds \/ In x live.
  Proof.
    induction adds as [|a adds IH]; intros live [Hn Hf] Hl x; cbn [fold_left]; [cbn [In]; tauto|].
    cbn [map] in Hn. apply NoDup_cons_iff in Hn as [Hna Hn]. inversion Hl as [|? ? La Hl']; subst.
    rewrite (IH (live_add live a)).
    - rewrite live_add_in. cbn [In]. split.
      + intros [H|[H|[H _]]]; auto.
      + intros [[H|H]|H]; auto. right. right. split; [exact H|]. apply (Hf a x); [left; reflexivity|exact H].
    - split; [exact Hn|]. intros a' y Ha' Hy. apply live_add_in in Hy as [->|[Hy _]].
      + unfold same_file. rewrite Forall_forall in Hl'. rewrite (Hl' a' Ha'), La. cbn [Z.eqb andb].
        apply Z.eqb_neq. intros E. apply Hna. rewrite E. apply in_map. exact Ha'.
      + apply (Hf a' y); [right; exact Ha'|exact Hy].
    - exact Hl'.
  Qed.

  (* ---- a crash: any prefix of the manifest's records ---- *)
  Lemma Forall2_firstn {A B} (R : A -> B -> Prop) k : forall l1 l2, Forall2 R l1 l2 -> Forall2 R (firstn k l1) (firstn k l2).
  Proof.
    induction k as [|k IH]; intros l1 l2 H; [constructor|]. destruct H; cbn [firstn]; [constructor|].
    constructor; [assumption|apply IH; assumption].
  Qed.

  (* C11_commit_crash_atomic, manifest part.  Whatever prefix of the records of the manifest file survives (torn
     bytes never yield more than a prefix of the records: C04_byte_cut_is_record_image), recovery either replays
     a prefix of the manifest as it was BEFORE the commit — the transaction's record is not read at all — or the
     whole manifest including the record: then the sequence number is tr.seq and every private table is live.
     There is no image with some of the transaction's tables, or with the tables but the old sequence number. *)
  Theorem commit_crash_atomic strict cmp recs rs b adds seq nf j pj nf0 q live cps k :
    Forall2 (fun b r => decode p sr_empty b = DOk r) recs rs ->
    decode p sr_empty b = DOk (build p (commit_fields adds seq nf)) ->
    replay_result p cmp rs = SpecOk j pj nf0 q live cps ->
    let img := firstn k (recs ++ [b]) in
    ((k <= length recs)%nat /\ img = firstn k recs /\
       agrees (session_recover p strict cmp img) (replay_result p cmp (firstn k rs))) \/
    ((length recs < k)%nat /\ img = recs ++ [b] /\
       agrees (session_recover p strict cmp img) (SpecOk j pj nf seq (fold_left live_add adds live) cps)).
  Proof.
    intros HF Hb Hr img. destruct (Nat.le_gt_cases k (length recs)) as [Hk|Hk].
    - left. assert (E : img = firstn k recs) by (unfold img; rewrite firstn_app; replace (k - length recs)%nat with O by lia; cbn [firstn]; apply app_nil_r).
      split; [exact Hk|]. split; [exact E|]. rewrite E. apply (manifest_replay p pok). apply Forall2_firstn. exact HF.
    - right. assert (E : img = recs ++ [b]).
      { unfold img. rewrite firstn_all2; [reflexivity|]. rewrite app_length. cbn [length]. lia. }
      split; [exact Hk|]. split; [exact E|]. rewrite E, <- (commit_replay cmp rs j pj nf0 q live cps adds seq nf Hr).
      apply (manifest_replay p pok). apply Forall2_app; [exact HF|]. constructor; [exact Hb|constructor].
  Qed.
End Manifest.

(* ------------------------------------------------------------------ tr.rec along the byte machine *)
Section RecInv.
  Import Lsm.ReadPath Lsm.TxnBytes.
  Variable c : Order.comparer.
  Variable kp : IKey.kparams.
  Variable mp : MemDB.mparams.
  Variable p : rparams.
  Hypothesis pok : rparams_ok p.

  Lemma tag_facts_add :
    tAddTable p <> tComparer p /\ tAddTable p <> tJournalNum p.
  Proof.
    destruct pok as [Hn _]. unfold tags in Hn.
    repeat match goal with H : NoDup (_ :: _) |- _ => apply NoDup_cons_iff in H; destruct H end.
    cbn [In] in *. intuition congruence.
  Qed.

  (* tr.rec holds the private tables as level-0 additions and nothing else that a record writes, whatever
     happened before (flushes, failed commits: setSeqNum / setNextFileNum only touch scalar fields) *)
  Definition rec_inv (t : ttxn) : Prop :=
    rec_plain p (tt_rec t) /\ sr_adds (tt_rec t) = map (at_of 0) (tt_tables t).

  Lemma rec_plain_set_seq r q : rec_plain p r -> rec_plain p (set_seq p r q).
  Proof.
    intros (A & B & C & D). destruct (tag_facts p pok) as (_ & T2 & _ & T4 & _).
    unfold rec_plain, has, set_seq in *. cbn [sr_has sr_cps sr_dels]. rewrite !N.setbit_eqb, C, D.
    replace (tSeqNum p =? tComparer p) with false by (symmetry; apply N.eqb_neq; exact T2).
    replace (tSeqNum p =? tJournalNum p) with false by (symmetry; apply N.eqb_neq; exact T4). auto.
  Qed.

  Lemma rec_plain_set_nextfile r n : rec_plain p r -> rec_plain p (set_nextfile p r n).
  Proof.
    intros (A & B & C & D). destruct (tag_facts p pok) as (T1 & _ & T3 & _ & _).
    unfold rec_plain, has, set_nextfile in *. cbn [sr_has sr_cps sr_dels]. rewrite !N.setbit_eqb, C, D.
    replace (tNextFileNum p =? tComparer p) with false by (symmetry; apply N.eqb_neq; exact T1).
    replace (tNextFileNum p =? tJournalNum p) with false by (symmetry; apply N.eqb_neq; exact T3). auto.
  Qed.

  Lemma rec_plain_add_table r a : rec_plain p r -> rec_plain p (add_table p r a).
  Proof.
    intros (A & B & C & D). destruct tag_facts_add as (T1 & T2).
    unfold rec_plain, has, add_table in *. cbn [sr_has sr_cps sr_dels]. rewrite !N.setbit_eqb, C, D.
    replace (tAddTable p =? tComparer p) with false by (symmetry; apply N.eqb_neq; exact T1).
    replace (tAddTable p =? tJournalNum p) with false by (symmetry; apply N.eqb_neq; exact T2). auto.
  Qed.

  Lemma rec_inv_open q d cap : rec_inv (mkTT q d cap 1 [] sr_empty false false).
  Proof.
    split; [|reflexivity]. unfold rec_plain, has. cbn [tt_rec sr_empty sr_has sr_cps sr_dels]. rewrite !N.bits_0. auto.
  Qed.

  Lemma t_flush_rec t fo t' r : rec_inv t -> t_flush mp p t fo = (t', r) -> rec_inv t'.
  Proof.
    intros [Hp Ha]. unfold t_flush. destruct (MemDB.mdb_len (tt_mem t) =? 0)%Z; [intros E; injection E as <- <-; split; assumption|].
    destruct fo as [f cap|]; [|intros E; injection E as <- <-; split; assumption].
    assert (G : forall d cp rf, rec_inv (mkTT (tt_seq t) d cp rf (tt_tables t ++ [f]) (add_table p (tt_rec t) (at_of 0 f)) (tt_closed t) (tt_cfailed t))).
    { intros d cp rf. split; cbn [tt_rec tt_tables]; [apply rec_plain_add_table; exact Hp|].
      unfold add_table. cbn [sr_adds]. rewrite Ha, map_app. reflexivity. }
    destruct (tt_refs t =? 1).
    - destruct (MemDB.mdb_reset mp (tt_mem t)); intros E; injection E as <- <-; try (split; assumption). apply G.
    - destruct (MemDB.mdb_new mp); intros E; injection E as <- <-; try (split; assumption). apply G.
  Qed.

  Lemma t_put_rec t kt k v o t' r : rec_inv t -> t_put c kp mp p t kt k v o = (t', r) -> rec_inv t'.
  Proof.
    intros RI. unfold t_put. destruct (IKey.make_ikey kp k (Batch.u64 (tt_seq t + 1)) kt); [|intros E; injection E as <- <-; exact RI].
    match goal with |- context [if ?b then t_flush mp p t (pi_flush o) else (t, TOk)] => destruct b end.
    - destruct (t_flush mp p t (pi_flush o)) as [t1 r1] eqn:Ef. pose proof (t_flush_rec t _ t1 r1 RI Ef) as R1.
      destruct r1; try (intros E; injection E as <- <-; exact R1).
      destruct (Batch.put_one kp (ibc c) mp (tt_mem t1) [pi_h o] k (Batch.u64 (tt_seq t + 1)) kt v); intros E; injection E as <- <-; exact R1.
    - destruct (Batch.put_one kp (ibc c) mp (tt_mem t) [pi_h o] k (Batch.u64 (tt_seq t + 1)) kt v); intros E; injection E as <- <-; exact RI.
  Qed.

  Lemma t_puts_rec recs : forall t os t' r, rec_inv t -> t_puts c kp mp p t recs os = (t', r) -> rec_inv t'.
  Proof.
    induction recs as [|[[kt k] v] rest IH]; intros t os t' r RI; cbn [t_puts]; [intros E; injection E as <- <-; exact RI|].
    destruct (t_put c kp mp p t kt k v (hd (mkPI 1 FlErr 0) os)) as [t1 r1] eqn:Ep.
    pose proof (t_put_rec _ _ _ _ _ _ _ RI Ep) as R1.
    destruct r1; try (intros E; injection E as <- <-; exact R1). apply IH. exact R1.
  Qed.

  Lemma session_commit_rec w r seq lvls a w' r' b : session_commit p w r seq lvls a = Some (w', r', b) ->
    r' = r \/ r' = set_nextfile p r (ai_nf a).
  Proof.
    unfold session_commit. destruct (tw_mfail w || ai_rot a).
    - destruct (encode p (snapshot_rec p w seq (ai_nf a) lvls)); [|discriminate].
      destruct (ai_ok a); intros E; injection E as _ <- _; left; reflexivity.
    - unfold edit_rec. destruct (encode p (set_nextfile p r (ai_nf a))); [|discriminate].
      destruct (ai_ok a); intros E; injection E as _ <- _; right; reflexivity.
  Qed.

  Lemma commit_loop_rec sof n : forall w t atts w' t' b, rec_inv t -> commit_loop p sof n w t atts = Some (w', t', b) -> rec_inv t'.
  Proof.
    induction n as [|n IH]; intros w t atts w' t' b RI; cbn [commit_loop]; [intros E; injection E as _ <- _; exact RI|].
    destruct (session_commit p w (tt_rec t) (Some (tt_seq t)) (install_tables (bs_levels (tw_db w)) (tt_tables t)) (hd no_att atts))
      as [[[w1 r1] b1]|] eqn:Es; [|discriminate].
    assert (R1 : rec_inv (tt_with_rec t r1)).
    { destruct RI as [Hp Ha]. destruct (session_commit_rec _ _ _ _ _ _ _ _ Es) as [-> | ->]; split; cbn [tt_with_rec tt_rec tt_tables]; auto.
      apply rec_plain_set_nextfile. exact Hp. }
    destruct b1; [intros E; injection E as _ <- _; exact R1|].
    apply IH. destruct R1 as [A B]. split; cbn [tt_failed tt_rec tt_tables] in *; assumption.
  Qed.

  Definition wrec_inv (w : tworld) : Prop := match tw_tr w with Some t => rec_inv t | None => True end.

  (* every step of the byte machine keeps it *)
  Theorem bstep_rec_inv sof w o : wrec_inv w -> wrec_inv (fst (bstep c kp mp p sof w o)).
  Proof.
    unfold wrec_inv. intros H.
    assert (Keep : forall r : tres, match tw_tr (fst (w, r)) with Some t => rec_inv t | None => True end) by (intros r; exact H).
    destruct o; unfold bstep, w_open, w_put, w_write, w_iter_open, w_iter_release, w_commit, w_discard, w_env, on_open.
    - destruct (tw_tr w) as [t|] eqn:Et; [apply Keep|]. destruct (open_ready (tw_db w)); [|apply Keep].
      destruct (MemDB.mdb_new mp); try apply Keep. cbn [fst tw_with_tr tw_tr]. apply rec_inv_open.
    - destruct (tw_tr w) as [t|] eqn:Et; [|apply Keep]. destruct (tt_closed t); [apply Keep|].
      destruct (t_put c kp mp p t kt key value o) as [t' r] eqn:Ep. cbn [fst tw_with_tr tw_tr]. apply (t_put_rec _ _ _ _ _ _ _ H Ep).
    - destruct (Batch.batch_len b =? 0); [apply Keep|]. destruct (tw_tr w) as [t|] eqn:Et; [|apply Keep].
      destruct (tt_closed t); [apply Keep|]. destruct (Batch.batch_records b) as [recs|]; cbn [fst tw_with_tr tw_tr]; [|exact H].
      destruct (t_puts c kp mp p t recs os) as [t' r] eqn:Ep. cbn [fst tw_with_tr tw_tr]. apply (t_puts_rec _ _ _ _ _ H Ep).
    - destruct (tw_tr w) as [t|] eqn:Et; [|apply Keep]. destruct (tt_closed t); [apply Keep|].
      cbn [fst tw_with_tr tw_tr]. destruct H as [A B]. split; assumption.
    - cbn [fst]. destruct (tw_tr w) as [t|] eqn:Et; [|rewrite Et; exact I]. cbn [tw_with_tr tw_tr]. destruct H as [A B]. split; assumption.
    - destruct (tw_tr w) as [t0|] eqn:Et; [|apply Keep]. destruct (tt_closed t0); [apply Keep|].
      destruct (t_flush mp p t0 fo) as [t r] eqn:Ef. pose proof (t_flush_rec _ _ _ _ H Ef) as R1.
      destruct r; cbn [fst tw_with_tr tw_tr]; try exact R1.
      destruct (tt_tables t); [exact I|].
      match goal with |- context [commit_loop p sof 3 w ?t1 atts] => destruct (commit_loop p sof 3 w t1 atts) as [[[w' t'] b]|] eqn:El end.
      + assert (R2 : rec_inv t').
        { apply (commit_loop_rec sof 3 _ _ _ _ _ _) with (2 := El). destruct R1 as [A B]. split; cbn [tt_with_rec tt_rec tt_tables].
          - apply rec_plain_set_seq. exact A.
          - exact B. }
        destruct b; cbn [fst tw_with_tr tw_tr]; [exact I|exact R2].
      + cbn [fst]. rewrite Et. exact H.
    - cbn [fst]. destruct (tw_tr w) as [t|] eqn:Et; [|rewrite Et; exact I]. destruct (tt_closed t); [rewrite Et; exact H|].
      destruct (tt_cfailed t).
      + match goal with |- context [if tw_mfail ?w1 then _ else _] => destruct (tw_mfail w1) end.
        * match goal with |- context [session_commit p ?w1 sr_empty None ?l fresh] => destruct (session_commit p w1 sr_empty None l fresh) as [[[w2 r2] b2]|] end;
            [destruct b2|]; exact I.
        * exact I.
      + exact I.
    - exact H.
  Qed.

  (* C11_commit_is_one_record, the record.  In any state the byte machine reaches, an attempt of Commit that goes
     through flushManifest and succeeds appends exactly ONE record to the manifest, and that record, decoded, is the
     record built from: next-file-num, seq-num = tr.seq, and the private tables as additions at level 0. *)
  Theorem commit_appends_one_record w t a lvls : rec_inv t -> (tw_mfail w || ai_rot a) = false -> ai_ok a = true ->
    fields_ok (commit_fields (map (at_of 0) (tt_tables t)) (tt_seq t) (ai_nf a)) ->
    exists b w' r', session_commit p w (set_seq p (tt_rec t) (tt_seq t)) (Some (tt_seq t)) lvls a = Some (w', r', true) /\
      tw_man w' = tw_man w ++ [b] /\
      decode p sr_empty b = DOk (build p (commit_fields (map (at_of 0) (tt_tables t)) (tt_seq t) (ai_nf a))).
  Proof.
    intros [Hp Ha] Hpath Hok Hf. rewrite <- Ha in Hf.
    destruct (commit_record_roundtrip p pok (tt_rec t) (tt_seq t) (ai_nf a) Hp Hf) as (b & E & D).
    unfold session_commit. rewrite Hpath. unfold edit_rec. unfold commit_rec in E. rewrite E, Hok.
    eexists b, _, _. split; [reflexivity|]. split; [reflexivity|]. rewrite <- Ha. exact D.
  Qed.
End RecInv.
