(* Lsm/WritePathTxn.v — the byte-level step of a committed transaction (Lsm/WritePath.v b_txn_commit; also DB.Write of a
   batch larger than the write buffer): the records go into the transaction's own memdb at db.seq+1.., Commit flushes it into
   ONE table that a record committed with trivial = false adds at level 0 (versionStaging.finish re-sorts level 0 by file
   number).  OpenTransaction has flushed the DB's memdbs: the step is enabled only without a frozen memdb and with an empty
   live one.  Proved here: the L1 step (finish with trivial = false of the one-table record keeps WfLsm.wf_lsm — the case
   property C06 left to the correspondence check, for one added level-0 table that is newer than everything stored) and the
   byte-level step theorem. *)
From GL Require Import Base.Bytes Base.BytesProofs Base.Varint Base.Order Base.OrderProofs Base.Cursor Codec.BytesCmp Codec.IKey
  Codec.IKeyProofs Codec.Table Codec.TableCheck Codec.TableSizes Codec.Batch Lsm.Lsm Lsm.Compact Lsm.LsmProofs Lsm.CompactProofs
  Lsm.WfProofs Lsm.History Lsm.HistoryProofs Lsm.ReorgProofs Lsm.Pick Lsm.PickBase Lsm.WfLsm Lsm.ModelStep Lsm.FinishProofs Lsm.StepProofs
  Lsm.ReadPath Lsm.ReadPathKey Lsm.ReadPathMem Lsm.ReadPathTable Lsm.ReadPathProofs Lsm.BatchWriteProofs
  Lsm.WritePath Lsm.WritePathTable Lsm.WritePathMem Lsm.WritePathInstall Lsm.WritePathSteps.
From GL Require Mem.MemDB.
From Coq Require Import Arith ZArith Lia Permutation.
Open Scope N_scope.

(* ------------------------------------------------------------------ sort.Sort by descending file number *)
Lemma ins_num_perm t l : Permutation (ins_num t l) (t :: l).
Proof.
  induction l as [|x l IH]; cbn [ins_num]; [apply Permutation_refl|].
  destruct (t_num x <? t_num t); [apply Permutation_refl|].
  eapply Permutation_trans; [apply perm_skip; exact IH|apply perm_swap].
Qed.

Lemma sort_by_num_perm l : Permutation (sort_by_num l) l.
Proof.
  induction l as [|t l IH]; [apply Permutation_refl|]. cbn [sort_by_num fold_right]. fold (sort_by_num l).
  eapply Permutation_trans; [apply ins_num_perm|apply perm_skip; exact IH].
Qed.

Lemma perm_LE a b : Permutation a b -> Permutation (LE a) (LE b).
Proof.
  intros H. unfold LE, LsmProofs.level_entries. induction H; cbn [map concat].
  - apply Permutation_refl.
  - apply Permutation_app_head. exact IHPermutation.
  - rewrite !app_assoc. apply Permutation_app_tail. apply Permutation_app_comm.
  - eapply Permutation_trans; eassumption.
Qed.

Lemma uniq_perm a b : Permutation a b -> uniq a -> uniq b.
Proof. unfold uniq. intros H U. eapply Permutation_NoDup; [apply Permutation_map; exact H|exact U]. Qed.

Lemma ins_num_sorted t l : nums_sorted l -> (forall x, In x l -> t_num x <> t_num t) -> nums_sorted (ins_num t l).
Proof.
  induction l as [|x l IH]; intros Hs Hd; cbn [ins_num]; [split; [constructor|exact I]|].
  destruct Hs as [Hf Hs]. destruct (t_num x <? t_num t) eqn:E.
  - apply N.ltb_lt in E. split; [|split; assumption].
    constructor; [exact E|]. eapply Forall_impl; [|exact Hf]. cbn beta. intros y Hy. lia.
  - apply N.ltb_ge in E. assert (Hx : t_num x <> t_num t) by (apply Hd; left; reflexivity).
    split.
    + apply Forall_forall. intros y Hy. apply (Permutation_in _ (ins_num_perm t l)) in Hy.
      destruct Hy as [<-|Hy]; [lia|]. rewrite Forall_forall in Hf. apply Hf. exact Hy.
    + apply IH; [exact Hs|]. intros y Hy. apply Hd. right. exact Hy.
Qed.

Lemma sort_by_num_sorted l : NoDup (nums_of l) -> nums_sorted (sort_by_num l).
Proof.
  induction l as [|t l IH]; intros Hn; [exact I|]. cbn [sort_by_num fold_right]. fold (sort_by_num l).
  cbn [nums_of map] in Hn. inversion Hn as [|? ? Ht Hn']; subst.
  apply ins_num_sorted; [apply IH; exact Hn'|].
  intros x Hx E. apply Ht. apply (Permutation_in _ (sort_by_num_perm l)) in Hx. rewrite <- E. apply in_map. exact Hx.
Qed.

Section TxnL1.
  Variable c : comparer.
  Hypothesis ok : comparer_ok c.
  Variable p : kparams.

  Local Notation wf_lsm := (wf_lsm c p).

  (* the record of a committed transaction with one table *)
  Definition txn_edit (t : table) : edit := {| ed_del := []; ed_add := [(O, t)] |}.

  Lemma adds_at_txn t l : adds_at (txn_edit t) l = if Nat.eqb 0 l then [t] else [].
  Proof. unfold adds_at, txn_edit. cbn [ed_add filter fst]. destruct (Nat.eqb 0 l); reflexivity. Qed.

  Lemma dels_at_txn t l base : dels_at (txn_edit t) l base = [].
  Proof. unfold dels_at, txn_edit. cbn [ed_del filter map]. destruct base; reflexivity. Qed.

  (* L1: the table is well-formed, under an unused number, and newer than every stored entry of the same user key *)
  Theorem txn_install v t : wf_lsm v -> tbl_ok c p t -> uniq (t_entries t) ->
    (forall i x y, In x (t_entries t) -> In y (LE (lv v i)) -> e_uk x = e_uk y -> e_seq y < e_seq x) ->
    (forall i s, In s (lv v i) -> t_num s <> t_num t) ->
    exists nv, finish c false v (txn_edit t) = POk nv /\ wf_lsm nv /\
      Permutation (lv nv 0) (t :: lv v 0) /\ forall l, (0 < l)%nat -> lv nv l = lv v l.
  Proof.
    intros W Tt Ut Tn Tf.
    set (G := fun l : nat => match l with O => sort_by_num (lv v 0 ++ [t]) | S _ => lv v l end).
    destruct (finish_levels c false v (txn_edit t) G) as (nv & Ef & Hlv).
    { intros l. unfold level_fn. rewrite dels_at_txn, adds_at_txn. destruct l as [|l]; cbn [Nat.eqb G].
      - unfold finish_level. cbn [nums_of map memN existsb Nat.eqb]. rewrite filter_all; [reflexivity|].
        intros s Hs. cbn [andb negb]. rewrite orb_false_r.
        destruct (N.eqb_spec (t_num s) (t_num t)) as [E|E]; [exfalso; apply (Tf 0%nat s Hs E)|reflexivity].
      - reflexivity. }
    assert (P0 : Permutation (lv nv 0) (t :: lv v 0)).
    { rewrite (Hlv 0%nat). cbn [G]. eapply Permutation_trans; [apply sort_by_num_perm|].
      eapply Permutation_trans; [apply Permutation_app_comm|apply Permutation_refl]. }
    assert (Pl : forall l, (0 < l)%nat -> lv nv l = lv v l) by (intros [|l] Hl; [lia|apply (Hlv (S l))]).
    exists nv. split; [exact Ef|]. split; [|split; assumption].
    assert (In0 : forall s, In s (lv nv 0) <-> s = t \/ In s (lv v 0)).
    { intros s. split; intros H.
      - apply (Permutation_in _ P0) in H. destruct H as [<-|H]; auto.
      - apply (Permutation_in _ (Permutation_sym P0)). destruct H as [->|H]; [left; reflexivity|right; exact H]. }
    constructor.
    - intros [|i] s Hs; [|rewrite Pl in Hs by lia; apply (wl_tbl c p v W (S i) s Hs)].
      apply In0 in Hs as [->|Hs]; [exact Tt|apply (wl_tbl c p v W 0%nat s Hs)].
    - intros [|i]; [|rewrite Pl by lia; apply (wl_uniq c p v W)].
      apply (uniq_perm (LE (t :: lv v 0))); [apply perm_LE; apply Permutation_sym; exact P0|].
      change (LE (t :: lv v 0)) with (t_entries t ++ LE (lv v 0)). apply uniq_app. split; [exact Ut|]. split; [apply (wl_uniq c p v W)|].
      intros x y Hx Hy E. unfold keyseq in E. injection E as Eu Es. pose proof (Tn 0%nat x y Hx Hy Eu). lia.
    - rewrite (Hlv 0%nat). cbn [G]. apply sort_by_num_sorted. unfold nums_of. rewrite map_app. apply nodup_app_iff.
      split; [|split].
      + apply nodup_map_in; [|apply (lv_nodup c p v W)]. intros a b Ha Hb E. apply (wl_nums c p v W 0%nat 0%nat a b Ha Hb E).
      + cbn [map]. constructor; [intros []|constructor].
      + intros n Hn [<-|[]]. apply in_map_iff in Hn as (s & E & Hs). apply (Tf 0%nat s Hs E).
    - intros i Hi. rewrite Pl by exact Hi. apply (wl_deep c p v W i Hi).
    - intros i j Hij. destruct i as [|i].
      + rewrite (Pl j) by lia. intros x y Hx Hy Hu. apply LE_in in Hx as (s & Hs & Hx). apply In0 in Hs as [->|Hs].
        * apply (Tn j x y Hx Hy Hu).
        * apply (wl_chain c p v W 0%nat j Hij x y); [apply LE_in; exists s; auto|exact Hy|exact Hu].
      + rewrite (Pl (S i)), (Pl j) by lia. apply (wl_chain c p v W (S i) j Hij).
    - intros i j s s' Hs Hs' E.
      assert (Hold : forall l x, In x (lv nv l) -> (l = 0%nat /\ x = t) \/ In x (lv v l)).
      { intros [|l] x Hx; [apply In0 in Hx as [->|Hx]; auto|rewrite Pl in Hx by lia; right; exact Hx]. }
      destruct (Hold i s Hs) as [[-> ->]|Hs0]; destruct (Hold j s' Hs') as [[-> ->]|Hs0'].
      + auto.
      + exfalso. apply (Tf j s' Hs0'). symmetry. exact E.
      + exfalso. apply (Tf i s Hs0 E).
      + apply (wl_nums c p v W i j s s' Hs0 Hs0' E).
  Qed.
End TxnL1.

Section TxnBytes.
  Variable c : comparer.
  Hypothesis ok : comparer_ok c.
  Variable p : kparams.
  Hypothesis pok : kparams_ok p.
  Hypothesis seek_val : keyTypeSeek p <= keyTypeVal p.
  Variable mp : MemDB.mparams.
  Hypothesis mpok : MemDB.mparams_ok mp.
  Variable tp : tparams.
  Hypothesis tp_ok : tparams_ok tp.
  Variable crc : bytes -> N.
  Hypothesis crc_bound : forall b, crc b < 2 ^ 32.
  Variable compress : bytes -> bytes.
  Variable decompress : bytes -> option bytes.
  Hypothesis codec_ok : forall x, decompress (compress x) = Some x.
  Hypothesis compress_ne : forall x, compress x <> [].
  Variable fname : option bytes.
  Variable ufc : bytes -> N -> bytes -> bool.
  Variable verify : bool.
  Variable o : wopts.
  Hypothesis ri_pos : 1 <= wo_ri o.

  Local Notation ri := (wo_ri o).
  Local Notation icr := (ibc c).
  Local Notation wfb := (wf_bstate c p mp tp crc decompress fname ufc verify ri).
  Local Notation absS := (ReadPath.abs c mp tp crc decompress fname ufc verify ri).
  Local Notation atab := (abs_table c tp crc decompress fname ufc verify ri).
  Local Notation okb := (tfile_okb c p tp crc decompress fname ufc verify ri).
  Local Notation av := (aversion c tp crc decompress fname ufc verify o).
  Local Notation bfull := (bfull c p mp tp crc decompress fname ufc verify o).
  Local Notation sizes_ok := (write_sizes_ok c p tp crc compress o).
  Local Notation tfilt := (table_filter_ok c p tp crc compress decompress fname ufc verify o).
  Local Notation wf_lsm := (wf_lsm c p).

  Lemma mem_empty_entries d : (forall m, d = Some m -> mem_ok c p mp m) ->
    mem_is_empty c mp d = true -> mem_entries mp d = [].
  Proof.
    intros Hm He. destruct d as [m|]; [|reflexivity]. unfold mem_is_empty in He.
    rewrite (mem_iter_pairs c ok p seek_val mp mpok m (Hm m eq_refl)) in He. cbn [mem_entries].
    destruct (mem_pairs mp m); [reflexivity|discriminate].
  Qed.

  Theorem txn_step st recs hs num seq :
    bfull st -> bs_frozen st = None -> mem_is_empty c mp (bs_mem st) = true ->
    (forall x, In x (all_entries (absS st)) -> e_seq x <= seq) ->
    Forall (rec_wf p) recs -> seq + N.of_nat (length recs) <= keyMaxSeq p -> heights_okl mp hs ->
    lenN (enc_recs p recs) < 2 ^ 63 ->
    (forall f, In f (files_of st) -> tf_num f <> num) ->
    (forall d0 d' hs', MemDB.mdb_new mp = MemDB.Ok d0 ->
       batch_putmem p icr mp (batch_of p recs) (seq + 1) d0 hs = PmOk d' hs' -> mem_pairs mp d' <> [] ->
       sizes_ok (mem_pairs mp d') = true /\ tfilt (mem_pairs mp d')) ->
    exists st', b_txn_commit c p mp tp crc compress decompress fname ufc verify o recs hs num seq st = Some st' /\ bfull st' /\
      bs_mem st' = bs_mem st /\ bs_frozen st' = None /\
      same_elems (all_entries (absS st) ++ stamp seq (map (norm_rec p) recs)) (all_entries (absS st')).
  Proof.
    intros B Hfz Hme Hbd Hrw Hsq Hhs Hlen Hfresh Hsz. pose proof B as [W Wl U].
    pose proof (mem_empty_entries (bs_mem st) (wb_mem _ _ _ _ _ _ _ _ _ _ _ W) Hme) as Emem.
    destruct (mem_new_ok c p seek_val mp mpok) as (d0 & E0 & M0 & P0).
    destruct (putmem_is_history_write c ok p pok seek_val mp mpok d0 recs seq hs M0) as (d' & hs' & Epm & Md' & _ & Hin); try assumption.
    { intros x Hx. cbn [mem_entries] in Hx. rewrite P0 in Hx. destruct Hx. }
    set (rs := map (norm_rec p) recs) in *.
    assert (Hin' : forall x, In x (mem_entries mp (Some d')) <-> In x (stamp seq rs)).
    { intros x. rewrite Hin. cbn [mem_entries]. rewrite P0. cbn [map In]. tauto. }
    unfold b_txn_commit. rewrite Hme, Hfz, E0, Epm. cbn [negb]. rewrite (mem_iter_pairs c ok p seek_val mp mpok d' Md').
    assert (Eall : forall x, In x (all_entries (absS st)) <-> In x (LE (concat (av st)))).
    { intros x. rewrite (all_entries_abs c mp tp crc decompress fname ufc verify o), Emem, Hfz. cbn [mem_entries app]. reflexivity. }
    destruct (mem_pairs mp d') as [|kv0 kvr] eqn:Ekv.
    - (* no record *)
      exists st. split; [reflexivity|]. split; [exact B|]. split; [reflexivity|]. split; [exact Hfz|].
      assert (Es : stamp seq rs = []).
      { destruct (stamp seq rs) as [|e r] eqn:Q; [reflexivity|]. exfalso.
        assert (Hx : In e (mem_entries mp (Some d'))) by (apply Hin'; left; reflexivity).
        cbn [mem_entries] in Hx. rewrite Ekv in Hx. destruct Hx. }
      rewrite Es, app_nil_r. intros x; reflexivity.
    - set (kvs := kv0 :: kvr) in *. assert (Hne : kvs <> []) by discriminate.
      destruct (Hsz d0 d' hs' E0 Epm) as [Hs1 Hs2]; [rewrite Ekv; exact Hne|]. rewrite Ekv in Hs1, Hs2.
      pose proof Hs1 as Hsz0. unfold write_sizes_ok in Hsz0. apply andb_prop in Hsz0 as [_ Hb].
      destruct (table_bytes c p tp crc compress o kvs) as [data|] eqn:Eb; [|discriminate].
      pose proof (write_table_some c p tp crc compress o num kvs data Hne Eb) as Ewt.
      set (f := mkTF num (key_first kvs) (key_last kvs) data) in *.
      destruct Md' as [(A & L & Iv) Hk].
      assert (Hks : Forall (fun kv => key_okb p (fst kv) = true) kvs).
      { apply Forall_forall. unfold mem_keys_okb in Hk. rewrite forallb_forall in Hk. rewrite Ekv in Hk. exact Hk. }
      pose proof (mem_pairs_sorted c p seek_val mp mpok d' A L Iv) as Hso. rewrite Ekv in Hso.
      destruct (writer_output_ok c ok p pok tp tp_ok crc crc_bound compress decompress codec_ok compress_ne fname ufc verify o ri_pos
                  num kvs data Hso Hne Hks Eb Hs1) as (Hokf & Hpf & _).
      { destruct Hs2 as [Hn|Hf]; [left; exact Hn|right; apply (Hf num); exact Ewt]. }
      fold f in Hokf, Hpf.
      set (t := {| t_num := num; t_entries := mem_entries mp (Some d') |}).
      assert (Etab : atab f = t).
      { unfold abs_table, t. rewrite Hpf. cbn [mem_entries]. rewrite Ekv. reflexivity. }
      rewrite Ewt.
      assert (Md2 : mem_ok c p mp d') by (split; [exists A, L; exact Iv|exact Hk]).
      destruct (mem_entries_wf c ok p pok seek_val mp mpok (Some d') ltac:(intros m Q; injection Q as <-; exact Md2)) as [St Kt].
      assert (Ust : uniq_in (all_entries (absS st) ++ stamp seq rs)).
      { intros a b Ha Hb2 Eu Es. apply in_app_iff in Ha. apply in_app_iff in Hb2.
        destruct Ha as [Ha|Ha], Hb2 as [Hb2|Hb2].
        - apply U; assumption.
        - apply stamp_seq in Hb2 as [Hb2 _]. specialize (Hbd a Ha). lia.
        - apply stamp_seq in Ha as [Ha _]. specialize (Hbd b Hb2). lia.
        - clear - Ha Hb2 Es. revert seq Ha Hb2.
          induction rs as [|[[kd k'] v] r IH]; intros s Ha Hb; [destruct Ha|].
          cbn [stamp] in Ha, Hb. destruct Ha as [<-|Ha], Hb as [<-|Hb].
          + reflexivity.
          + apply stamp_seq in Hb as [Hb _]. cbn [e_seq] in *. lia.
          + apply stamp_seq in Ha as [Ha _]. cbn [e_seq] in *. lia.
          + apply (IH (s + 1)); assumption. }
      destruct (txn_install c p (av st) t Wl) as (nv & Ef & Wnv & P0' & Pl).
      { split; [split; assumption|]. cbn [t t_entries mem_entries]. rewrite Ekv. discriminate. }
      { cbn [t t_entries]. apply (ssorted_uniq c ok); [exact St|].
        intros a b Ha Hb2. apply Ust; apply in_or_app; right; apply Hin'; assumption. }
      { intros i x y Hx Hy _. cbn [t t_entries] in Hx. apply Hin' in Hx. apply stamp_seq in Hx as [Hx _].
        assert (Hy' : In y (all_entries (absS st))) by (apply Eall; apply (in_LE_concat p seek_val o ri_pos); exists i; exact Hy).
        specialize (Hbd y Hy'). lia. }
      { intros i s Hs. destruct (in_level_file c p seek_val tp crc decompress fname ufc verify o ri_pos st i s Hs) as (g & Hg & <-).
        cbn [t t_num abs_table]. apply Hfresh. exact Hg. }
      change {| ed_del := []; ed_add := [(0%nat, atab f)] |} with (txn_edit (atab f)). rewrite Etab.
      destruct (install_ok c p seek_val mp tp crc decompress fname ufc verify o ri_pos false st [f] (txn_edit t) (bs_mem st) None nv W Wl Ef)
        as (st' & Ei & Em' & Ef' & Eav & Hall).
      { constructor; [exact Hokf|constructor]. }
      { cbn [app map]. constructor; [|apply (files_nodup c p tp crc decompress fname ufc verify o); exact Wl].
        intros Hi. apply in_map_iff in Hi as (g & Eg & Hg). apply (Hfresh g Hg). exact Eg. }
      { intros l t' Ht'. rewrite adds_at_txn in Ht'. destruct (Nat.eqb 0 l); [|destruct Ht']. destruct Ht' as [<-|[]].
        exists f. split; [left; reflexivity|exact Etab]. }
      exists st'. split; [exact Ei|].
      assert (HLE : forall x, In x (LE (concat (av st'))) <-> In x (t_entries t) \/ In x (LE (concat (av st)))).
      { intros x. rewrite Eav, !(in_LE_concat p seek_val o ri_pos). split.
        - intros ([|i] & Hx).
          + apply (Permutation_in _ (perm_LE _ _ P0')) in Hx. change (LE (t :: lv (av st) 0)) with (t_entries t ++ LE (lv (av st) 0)) in Hx.
            apply in_app_or in Hx as [Hx|Hx]; [left; exact Hx|right; exists 0%nat; exact Hx].
          + rewrite Pl in Hx by lia. right. exists (S i). exact Hx.
        - intros [Hx|([|i] & Hx)].
          + exists 0%nat. apply (Permutation_in _ (Permutation_sym (perm_LE _ _ P0'))).
            change (LE (t :: lv (av st) 0)) with (t_entries t ++ LE (lv (av st) 0)). apply in_or_app. left. exact Hx.
          + exists 0%nat. apply (Permutation_in _ (Permutation_sym (perm_LE _ _ P0'))).
            change (LE (t :: lv (av st) 0)) with (t_entries t ++ LE (lv (av st) 0)). apply in_or_app. right. exact Hx.
          + exists (S i). rewrite Pl by lia. exact Hx. }
      assert (SE : same_elems (all_entries (absS st) ++ stamp seq rs) (all_entries (absS st'))).
      { intros x. rewrite in_app_iff, Eall.
        rewrite (all_entries_abs c mp tp crc decompress fname ufc verify o st'), Em', Ef', Emem. cbn [mem_entries app].
        rewrite HLE. cbn [t t_entries]. rewrite Hin'. tauto. }
      split; [constructor|].
      + constructor.
        * rewrite Em'. exact (wb_mem _ _ _ _ _ _ _ _ _ _ _ W).
        * rewrite Ef'. intros x Hx. discriminate.
        * exact Hall.
        * change (absS st') with {| st_mem := mem_entries mp (bs_mem st'); st_frozen := mem_entries mp (bs_frozen st'); st_aux := []; st_levels := av st' |}.
          rewrite Em', Ef', Emem. cbn [mem_entries].
          apply (wf_state_parts c p [] [] (av st') I (Forall_nil _) I (Forall_nil _)); [rewrite Eav; exact Wnv|intros a b []|intros i a b []|intros i a b []].
      + rewrite Eav. exact Wnv.
      + apply (uniq_in_same _ _ SE Ust).
      + split; [exact Em'|]. split; [exact Ef'|exact SE].
  Qed.
End TxnBytes.
