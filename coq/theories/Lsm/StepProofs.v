(* Lsm/StepProofs.v — the step lemma of property C06 for a table compaction / trivial move: installing (finish) the
   record of a compaction whose inputs are admissible (closed in the source level, complete in the next level) and whose
   outputs are an ordered run of well-formed tables holding only input entries keeps the invariant WfLsm.wf_lsm. *)
From GL Require Import Base.Order Base.OrderProofs Codec.IKey Codec.IKeyProofs Lsm.Lsm Lsm.Compact Lsm.LsmProofs
  Lsm.WfProofs Lsm.CertProofs Lsm.Pick Lsm.PickBase Lsm.OverlapProofs Lsm.ExpandProofs Lsm.WfLsm Lsm.FinishProofs
  Lsm.InsertProofs.
From Coq Require Import Arith Lia Permutation.

Local Open Scope nat_scope.

Lemma filter_all {A} (f : A -> bool) l : (forall x, In x l -> f x = true) -> filter f l = l.
Proof.
  induction l as [|x l IH]; intros H; [reflexivity|]. cbn [filter]. rewrite (H x (or_introl eq_refl)).
  f_equal. apply IH. intros y Hy. apply H. right; exact Hy.
Qed.

Lemma nil_or_not {A} (l : list A) : l = [] \/ l <> [].
Proof. destruct l; [left; reflexivity|right; discriminate]. Qed.

Lemma memN_nums n ts : memN n (nums_of ts) = true <-> exists t, In t ts /\ t_num t = n.
Proof.
  unfold memN, nums_of. rewrite existsb_exists. split.
  - intros [m [Hm E]]. apply in_map_iff in Hm as [t [<- Ht]]. apply N.eqb_eq in E. exists t. split; [exact Ht|congruence].
  - intros [t [Ht <-]]. exists (t_num t). split; [apply in_map; exact Ht|apply N.eqb_refl].
Qed.

Lemma memN_false n ts : memN n (nums_of ts) = false <-> forall t, In t ts -> t_num t <> n.
Proof.
  split.
  - intros H t Ht E. assert (memN n (nums_of ts) = true) by (apply memN_nums; exists t; split; assumption). congruence.
  - intros H. destruct (memN n (nums_of ts)) eqn:E; [|reflexivity]. apply memN_nums in E as [t [Ht E]].
    exfalso. apply (H t Ht E).
Qed.

Section Step.
  Variable c : comparer.
  Hypothesis ok : comparer_ok c.
  Variable p : kparams.

  Notation wf_lsm := (wf_lsm c p).
  Notation tbl_ok := (tbl_ok c p).

  Variable v : list (list table).
  Hypothesis W : wf_lsm v.
  Variable cm : compaction.
  Variable outs : list table.

  Let L := c_level cm.
  Let t0 := c_t0 cm.
  Let t1 := c_t1 cm.
  Let I := LE (t0 ++ t1).

  (* admissible inputs *)
  Hypothesis A0a : incl t0 (lv v L).
  Hypothesis A0b : incl t1 (lv v (S L)).
  (* a table of the source level sharing a user key with a source input is itself an input — or it is newer (a
     level-0 table flushed after the compaction was picked) *)
  Hypothesis A1 : forall s t x y, In s (lv v L) -> In t t0 -> In x (t_entries s) -> In y (t_entries t) ->
                  e_uk x = e_uk y -> In s t0 \/ (e_seq y < e_seq x)%N.
  Hypothesis A2 : forall s, In s (lv v (S L)) -> ~ In s t1 -> sep c s I.
  (* admissible outputs *)
  Hypothesis O1 : forall o, In o outs -> tbl_ok o.
  Hypothesis O2 : level_sorted c outs.
  Hypothesis O3 : forall o x, In o outs -> In x (t_entries o) -> In x I.
  Hypothesis O4 : uniq (LE outs).
  Hypothesis O5 : forall o o', In o outs -> In o' outs -> t_num o = t_num o' -> o = o'.
  Hypothesis O6 : forall o i s, In o outs -> In s (lv v i) -> t_num s = t_num o ->
                  (i = L /\ In s t0) \/ (i = S L /\ In s t1).

  Let ed := compaction_edit cm outs.
  Let base0 := lv v L.
  Let base1 := lv v (S L).
  Let keep0 := fun t : table => negb (memN (t_num t) (nums_of t0)).
  Let D1 := dels_at ed (S L) base1.
  Let nt := filter (fun t => negb (memN (t_num t) D1) && negb (memN (t_num t) (nums_of outs))) base1.

  Lemma in_t0_iff t : In t base0 -> (memN (t_num t) (nums_of t0) = true <-> In t t0).
  Proof.
    intros Ht. rewrite memN_nums. split.
    - intros [t' [Ht' E]]. destruct (wl_nums c p v W L L t' t (A0a t' Ht') Ht E) as [_ ->]. exact Ht'.
    - intros H. exists t. split; [exact H|reflexivity].
  Qed.

  Lemma in_t1_iff t : In t base1 -> (memN (t_num t) (nums_of t1) = true <-> In t t1).
  Proof.
    intros Ht. rewrite memN_nums. split.
    - intros [t' [Ht' E]]. destruct (wl_nums c p v W (S L) (S L) t' t (A0b t' Ht') Ht E) as [_ ->]. exact Ht'.
    - intros H. exists t. split; [exact H|reflexivity].
  Qed.

  Lemma D1_mem n : base1 <> [] -> (memN n D1 = true <-> memN n (nums_of t1) = true /\ memN n (nums_of outs) = false).
  Proof.
    intros Hne. unfold D1, dels_at. destruct base1 as [|b bs] eqn:Eb; [congruence|].
    unfold ed. rewrite dels_raw_ce, adds_at_ce. fold L t0 t1.
    replace (Nat.eqb L (S L)) with false by (symmetry; apply Nat.eqb_neq; lia).
    rewrite Nat.eqb_refl. cbn [app]. unfold memN at 1. rewrite existsb_exists. split.
    - intros [m [Hm E]]. apply N.eqb_eq in E. subst m. apply filter_In in Hm as [H1 H2].
      apply Bool.negb_true_iff in H2. split; [|exact H2].
      unfold memN. apply existsb_exists. exists n. split; [exact H1|apply N.eqb_refl].
    - intros [H1 H2]. exists n. split; [|apply N.eqb_refl]. apply filter_In. split; [|rewrite H2; reflexivity].
      unfold memN in H1. apply existsb_exists in H1 as [m [Hm E]]. apply N.eqb_eq in E. subst m. exact Hm.
  Qed.

  (* the survivors of the next level *)
  Lemma nt_in s : In s nt <-> In s base1 /\ ~ In s t1.
  Proof.
    unfold nt. rewrite filter_In. split.
    - intros [Hs H]. split; [exact Hs|]. apply andb_prop in H as [H1 H2].
      apply Bool.negb_true_iff in H1, H2. intros Hi.
      assert (Hne : base1 <> []) by (intros E; rewrite E in Hs; destruct Hs).
      assert (memN (t_num s) D1 = true); [|congruence].
      apply (D1_mem _ Hne). split; [apply (in_t1_iff s Hs); exact Hi|exact H2].
    - intros [Hs Hn]. split; [exact Hs|].
      assert (Hne : base1 <> []) by (intros E; rewrite E in Hs; destruct Hs).
      assert (Q : memN (t_num s) (nums_of outs) = false).
      { apply memN_false. intros o Ho E. destruct (O6 o (S L) s Ho Hs (eq_sym E)) as [[Q _]|[_ Q]]; [lia|contradiction]. }
      apply andb_true_intro. split; apply Bool.negb_true_iff; [|exact Q].
      destruct (memN (t_num s) D1) eqn:E; [|reflexivity]. apply (D1_mem _ Hne) in E as [E _].
      apply (in_t1_iff s Hs) in E. contradiction.
  Qed.

  (* the levels of the new version *)
  Definition new_level (idx : nat) (l : nat) : list table :=
    if Nat.eqb l L then filter keep0 base0
    else if Nat.eqb l (S L) then firstn idx nt ++ outs ++ skipn idx nt
    else lv v l.

  Lemma level_other l : l <> L -> l <> S L -> level_fn c true v ed l = POk (lv v l).
  Proof.
    intros H1 H2. unfold level_fn, ed. rewrite adds_at_ce. fold L.
    replace (Nat.eqb (S L) l) with false by (symmetry; apply Nat.eqb_neq; lia).
    rewrite finish_level_no_adds. f_equal. apply filter_all. intros t Ht. apply Bool.negb_true_iff.
    unfold dels_at. destruct (nth l v []); [reflexivity|]. rewrite dels_raw_ce, adds_at_ce. fold L.
    replace (Nat.eqb L l) with false by (symmetry; apply Nat.eqb_neq; lia).
    replace (Nat.eqb (S L) l) with false by (symmetry; apply Nat.eqb_neq; lia). reflexivity.
  Qed.

  Lemma level_src : level_fn c true v ed L = POk (filter keep0 base0).
  Proof.
    unfold level_fn, ed. rewrite adds_at_ce. fold L.
    replace (Nat.eqb (S L) L) with false by (symmetry; apply Nat.eqb_neq; lia).
    rewrite finish_level_no_adds. fold (lv v L). fold base0. f_equal. apply filter_ext_in. intros t Ht. unfold keep0. f_equal.
    unfold dels_at. destruct base0 as [|b bs]; [destruct Ht|]. rewrite dels_raw_ce, adds_at_ce. fold L t0 t1.
    replace (Nat.eqb (S L) L) with false by (symmetry; apply Nat.eqb_neq; lia).
    rewrite Nat.eqb_refl, app_nil_r. cbn [nums_of map memN existsb negb]. f_equal.
    apply filter_all. intros; reflexivity.
  Qed.

  Lemma level_dst : exists idx, level_fn c true v ed (S L) = POk (firstn idx nt ++ outs ++ skipn idx nt) /\
    (outs <> [] -> exists amax, idx = search_min_idx c nt amax /\ exists a, In a outs /\ amax = imax_of a).
  Proof.
    unfold level_fn. fold (lv v (S L)). fold base1. fold D1.
    assert (Ea : adds_at ed (S L) = outs).
    { unfold ed. rewrite adds_at_ce. fold L. rewrite Nat.eqb_refl. reflexivity. }
    rewrite Ea. destruct (nil_or_not outs) as [Eo|Hne].
    - exists 0. split; [|congruence]. cbn [firstn skipn app]. rewrite Eo at 1 2. cbn [app]. rewrite finish_level_no_adds. f_equal.
      unfold nt. rewrite Eo. apply filter_ext. intros t. cbn [nums_of map memN existsb negb]. rewrite Bool.andb_true_r. reflexivity.
    -
      assert (Es : sort_by_key c outs = outs) by (apply (sort_by_key_sorted c ok p); assumption).
      destruct (get_range_spec c ok outs Hne) as [r [Er _]].
      destruct (get_range_mem c outs r Er) as [a [Ha Em]].
      assert (R : finish_level c true (S L) base1 D1 outs =
                  POk (firstn (search_min_idx c nt (snd r)) nt ++ outs ++ skipn (search_min_idx c nt (snd r)) nt)).
      { rewrite (finish_level_adds_deep c L base1 D1 outs Hne). cbv zeta. rewrite Es, Er. reflexivity. }
      exists (search_min_idx c nt (snd r)). split; [exact R|].
      intros _. exists (snd r). split; [reflexivity|]. exists a. split; assumption.
  Qed.

  Lemma firstn_incl {A} k (l : list A) x : In x (firstn k l) -> In x l.
  Proof. intros H. rewrite <- (firstn_skipn k l). apply in_or_app. left; exact H. Qed.
  Lemma skipn_incl {A} k (l : list A) x : In x (skipn k l) -> In x l.
  Proof. intros H. rewrite <- (firstn_skipn k l). apply in_or_app. right; exact H. Qed.

  Section NewVersion.
    Variable idx : nat.
    Hypothesis Hidx : outs <> [] -> exists amax, idx = search_min_idx c nt amax /\ exists a, In a outs /\ amax = imax_of a.
    Variable nv : list (list table).
    Hypothesis Hnv : forall l, lv nv l = new_level idx l.

    Lemma new_in l t : In t (new_level idx l) ->
      (In t (lv v l) /\ (l = L -> ~ In t t0) /\ (l = S L -> ~ In t t1)) \/ (l = S L /\ In t outs).
    Proof.
      unfold new_level. destruct (Nat.eqb l L) eqn:Q1.
      - apply Nat.eqb_eq in Q1. subst l. intros H. apply filter_In in H as [H1 H2]. left.
        split; [exact H1|]. split; [|lia]. intros _ Hi. apply (in_t0_iff t H1) in Hi.
        unfold keep0 in H2. rewrite Hi in H2. discriminate.
      - apply Nat.eqb_neq in Q1. destruct (Nat.eqb l (S L)) eqn:Q2.
        + apply Nat.eqb_eq in Q2. subst l. intros H. apply in_app_or in H as [H|H]; [|apply in_app_or in H as [H|H]].
          * apply firstn_incl in H. apply nt_in in H as [H1 H2]. left. split; [exact H1|]. split; [lia|intros _; exact H2].
          * right. split; [reflexivity|exact H].
          * apply skipn_incl in H. apply nt_in in H as [H1 H2]. left. split; [exact H1|]. split; [lia|intros _; exact H2].
        + apply Nat.eqb_neq in Q2. intros H. left. split; [exact H|]. split; intros; congruence.
    Qed.

    Lemma I_split x : In x I -> In x (LE (lv v L)) \/ In x (LE (lv v (S L))).
    Proof.
      unfold I. rewrite LE_app. intros H. apply in_app_or in H as [H|H]; apply LE_in in H as [t [Ht Hx]].
      - left. apply LE_in. exists t. split; [apply A0a; exact Ht|exact Hx].
      - right. apply LE_in. exists t. split; [apply A0b; exact Ht|exact Hx].
    Qed.

    Lemma new_tbl l t : In t (lv nv l) -> tbl_ok t.
    Proof.
      rewrite Hnv. intros H. apply new_in in H as [[H _]|[_ H]]; [apply (wl_tbl c p v W l t H)|apply O1; exact H].
    Qed.

    Lemma new_uniq l : uniq (LE (lv nv l)).
    Proof.
      rewrite Hnv. unfold new_level. destruct (Nat.eqb l L) eqn:Q1.
      - apply uniq_filter. apply (wl_uniq c p v W).
      - destruct (Nat.eqb l (S L)) eqn:Q2; [|apply (wl_uniq c p v W)].
        assert (P : Permutation (LE outs ++ LE nt) (LE (firstn idx nt ++ outs ++ skipn idx nt))).
        { rewrite !LE_app. rewrite <- (firstn_skipn idx nt) at 1. rewrite LE_app. apply Permutation_app_swap_app. }
        unfold uniq. eapply Permutation_NoDup; [apply Permutation_map; exact P|]. apply uniq_app.
        split; [exact O4|]. split; [unfold nt; apply uniq_filter; apply (wl_uniq c p v W)|].
        intros x y Hx Hy E. apply LE_in in Hx as [o [Ho Hx]]. apply LE_in in Hy as [s [Hs Hy]].
        apply nt_in in Hs as [Hs1 Hs2]. pose proof (O3 o x Ho Hx) as Hi. unfold I in Hi. rewrite LE_app in Hi.
        unfold keyseq in E. injection E as Eu Es.
        apply in_app_or in Hi as [Hi|Hi]; apply LE_in in Hi as [t [Ht Hxt]].
        + assert (Hx' : In x (LE (lv v L))) by (apply LE_in; exists t; split; [apply A0a; exact Ht|exact Hxt]).
          assert (Hy' : In y (LE (lv v (S L)))) by (apply LE_in; exists s; split; assumption).
          pose proof (wl_chain c p v W L (S L) ltac:(lia) x y Hx' Hy' Eu). lia.
        + apply (uniq_members base1 t s x y (wl_uniq c p v W (S L)) (A0b t Ht) Hs1); try assumption.
          * intros ->. contradiction.
          * unfold keyseq. congruence.
    Qed.

    Lemma new_l0n : nums_sorted (lv nv 0).
    Proof.
      rewrite Hnv. unfold new_level. destruct (Nat.eqb 0 L) eqn:Q1.
      { apply Nat.eqb_eq in Q1. apply nums_sorted_filter. unfold base0. rewrite <- Q1. apply (wl_l0n c p v W). }
      replace (Nat.eqb 0 (S L)) with false by reflexivity. apply (wl_l0n c p v W).
    Qed.

    Lemma nt_tbl s : In s nt -> tbl_ok s.
    Proof. intros H. apply nt_in in H as [H _]. apply (wl_tbl c p v W (S L) s H). Qed.

    Lemma nt_sorted : level_sorted c nt.
    Proof. unfold nt. apply level_sorted_filter. apply (wl_deep c p v W). lia. Qed.

    Lemma new_deep l : 0 < l -> level_sorted c (lv nv l).
    Proof.
      intros Hl. rewrite Hnv. unfold new_level. destruct (Nat.eqb l L) eqn:Q1.
      - apply level_sorted_filter. apply (wl_deep c p v W). apply Nat.eqb_eq in Q1. lia.
      - destruct (Nat.eqb l (S L)) eqn:Q2; [|apply (wl_deep c p v W); exact Hl].
        destruct (nil_or_not outs) as [Eo|Hne].
        + rewrite Eo. cbn [app]. rewrite firstn_skipn. apply nt_sorted.
        + destruct (Hidx Hne) as [amax [Eidx Ha]]. rewrite Eidx.
          apply (insert_sorted c ok p nt outs nt_tbl nt_sorted O1 O2 amax Ha).
          intros s Hs. apply nt_in in Hs as [H1 H2]. apply (sep_incl c s I); [apply A2; assumption|].
          intros x Hx. apply LE_in in Hx as [o [Ho Hx]]. apply (O3 o x Ho Hx).
    Qed.

    Lemma new_chain i j : i < j -> newer_thanP (LE (lv nv i)) (LE (lv nv j)).
    Proof.
      intros Hij a b Ha Hb Eu. rewrite Hnv in Ha, Hb.
      apply LE_in in Ha as [ta [Hta Ha]]. apply LE_in in Hb as [tb [Htb Hb]].
      apply new_in in Hta. apply new_in in Htb.
      assert (Old : forall i' j', i' < j' -> In a (LE (lv v i')) -> In b (LE (lv v j')) -> (e_seq b < e_seq a)%N).
      { intros i' j' Q Ha' Hb'. apply (wl_chain c p v W i' j' Q a b Ha' Hb' Eu). }
      destruct Hta as [[Hta [Sa0 Sa1]]|[Ei Hta]]; destruct Htb as [[Htb [Sb0 Sb1]]|[Ej Htb]].
      - apply (Old i j Hij); apply LE_in; [exists ta|exists tb]; split; assumption.
      - (* b was written by the compaction *)
        subst j. destruct (I_split b (O3 tb b Htb Hb)) as [Hb'|Hb'].
        + assert (Hale : In a (LE (lv v i))) by (apply LE_in; exists ta; split; assumption).
          destruct (Nat.lt_ge_cases i L) as [Q|Q]; [apply (Old i L Q Hale Hb')|].
          assert (i = L) by lia. subst i.
          pose proof (O3 tb b Htb Hb) as Hi. unfold I in Hi. rewrite LE_app in Hi.
          apply in_app_or in Hi as [Hi|Hi]; apply LE_in in Hi as [t [Ht Hbt]].
          * destruct (A1 ta t a b Hta Ht Ha Hbt Eu) as [Q1|Q1]; [exfalso; apply (Sa0 eq_refl Q1)|exact Q1].
          * exfalso. assert (Hb2 : In b (LE (lv v (S L)))) by (apply LE_in; exists t; split; [apply A0b; exact Ht|exact Hbt]).
            pose proof (Old L (S L) ltac:(lia) Hale Hb2) as Q1.
            (* b also lies in level L: the same entry in two levels *)
            pose proof (wl_chain c p v W L (S L) ltac:(lia) b b Hb' Hb2 eq_refl). lia.
        + apply (Old i (S L) Hij); [apply LE_in; exists ta; split; assumption|exact Hb'].
      - (* a was written by the compaction *)
        subst i. assert (Hble : In b (LE (lv v j))) by (apply LE_in; exists tb; split; assumption).
        destruct (I_split a (O3 ta a Hta Ha)) as [Ha'|Ha']; [apply (Old L j ltac:(lia) Ha' Hble)|apply (Old (S L) j Hij Ha' Hble)].
      - lia.
    Qed.

    Lemma new_nums i j t t' : In t (lv nv i) -> In t' (lv nv j) -> t_num t = t_num t' -> i = j /\ t = t'.
    Proof.
      rewrite !Hnv. intros Ht Ht' E. apply new_in in Ht. apply new_in in Ht'.
      destruct Ht as [[Ht [S0 S1]]|[Ei Ht]]; destruct Ht' as [[Ht' [S0' S1']]|[Ej Ht']].
      - apply (wl_nums c p v W i j t t' Ht Ht' E).
      - exfalso. destruct (O6 t' i t Ht' Ht E) as [[Q1 Q2]|[Q1 Q2]]; [apply (S0 Q1 Q2)|apply (S1 Q1 Q2)].
      - exfalso. destruct (O6 t j t' Ht Ht' (eq_sym E)) as [[Q1 Q2]|[Q1 Q2]]; [apply (S0' Q1 Q2)|apply (S1' Q1 Q2)].
      - split; [congruence|apply O5; assumption].
    Qed.

    Lemma new_wf : wf_lsm nv.
    Proof.
      constructor; [exact new_tbl|exact new_uniq|exact new_l0n|exact new_deep|exact new_chain|exact new_nums].
    Qed.
  End NewVersion.

  (* installing the record of an admissible compaction keeps the invariant *)
  Theorem compaction_step : exists nv, finish c true v ed = POk nv /\ wf_lsm nv.
  Proof.
    destruct level_dst as [idx [Ed Hidx]].
    destruct (finish_levels c true v ed (new_level idx)) as [nv [E H]].
    - intros l. unfold new_level. destruct (Nat.eqb l L) eqn:Q1.
      + apply Nat.eqb_eq in Q1. subst l. apply level_src.
      + destruct (Nat.eqb l (S L)) eqn:Q2.
        * apply Nat.eqb_eq in Q2. subst l. exact Ed.
        * apply Nat.eqb_neq in Q1, Q2. apply level_other; assumption.
    - exists nv. split; [exact E|]. apply (new_wf idx Hidx nv H).
  Qed.
End Step.
