(* Lsm/Compact.v — L1: table compaction (merge, drop rule, base-level test) and the boolean
   well-formedness of a version.  Mirrors db_compaction.go (tableCompactionBuilder.run),
   session_compaction.go (baseLevelForKey) and the conditions of property C06.
   Model file: definitions only. *)
From GL Require Export Lsm.Lsm.

Section WithComparer.
  Variable c : comparer.
  Variable p : kparams.

  (* the merged iterator over sorted inputs with pairwise distinct keys yields the sorted union *)
  Fixpoint ins (e : entry) (l : list entry) : list entry :=
    match l with
    | [] => [e]
    | x :: l' => match ecmp c e x with
                 | Gt => x :: ins e l'
                 | _ => e :: l
                 end
    end.
  Definition isort (l : list entry) : list entry := fold_right ins [] l.
  Definition merge_inputs (inputs : list table) : list entry := isort (concat (map t_entries inputs)).

  (* baseLevelForKey: no table of the levels below the output level covers the key *)
  Definition is_base (deeper : list (list table)) (k : bytes) : bool :=
    forallb (fun t => negb (t_covers c t k)) (concat deeper).

  (* tableCompactionBuilder.run: [last] = (lastUkey, lastSeq) when hasLastUkey *)
  Definition last_seq (last : option (bytes * N)) (e : entry) : N :=
    match last with
    | Some (u, ls) => match cmp c u (e_uk e) with Eq => ls | _ => keyMaxSeq p end
    | None => keyMaxSeq p
    end.

  Fixpoint drop_run (minSeq : N) (base : bytes -> bool) (last : option (bytes * N)) (l : list entry)
    : list entry :=
    match l with
    | [] => []
    | e :: l' =>
        let ls := last_seq last e in
        let last' := Some (e_uk e, e_seq e) in
        if ls <=? minSeq then drop_run minSeq base last' l'
        else if (e_kind e =? keyTypeDel p) && (e_seq e <=? minSeq) && base (e_uk e)
             then drop_run minSeq base last' l'
             else e :: drop_run minSeq base last' l'
    end.

  Definition compact_entries (minSeq : N) (deeper : list (list table)) (inputs : list table) : list entry :=
    drop_run minSeq (is_base deeper) None (merge_inputs inputs).

  (* output tables: a partition of the kept entries into non-empty runs cut only between different
     user keys *)
  Fixpoint cuts_ok (outs : list (list entry)) : bool :=
    match outs with
    | [] => true
    | o :: rest =>
        negb (match o with [] => true | _ => false end) &&
        match rest with
        | [] => true
        | o2 :: _ => match last (map Some o) None, hd_error o2 with
                     | Some a, Some b => match cmp c (e_uk a) (e_uk b) with Eq => false | _ => true end
                     | _, _ => false
                     end
        end && cuts_ok rest
    end.

  (* ---- boolean well-formedness of a dumped version (property C06) ---- *)
  Fixpoint sortedb (l : list entry) : bool :=
    match l with
    | a :: (b :: _) as l' => match ecmp c a b with Lt => sortedb l' | _ => false end
    | _ => true
    end.

  Definition kindsb (l : list entry) : bool := forallb (fun e => e_kind e <=? keyTypeSeek p) l.

  Definition table_okb (t : table) : bool :=
    negb (match t_entries t with [] => true | _ => false end) && sortedb (t_entries t) && kindsb (t_entries t).

  (* no two entries share user key and sequence number *)
  Fixpoint uniqb (l : list entry) : bool :=
    match l with
    | [] => true
    | a :: l' => forallb (fun b => negb (beq (e_uk a) (e_uk b) && (e_seq a =? e_seq b))) l' && uniqb l'
    end.

  Fixpoint nums_desc (ts : list table) : bool :=
    match ts with
    | a :: (b :: _) as ts' => (t_num b <? t_num a) && nums_desc ts'
    | _ => true
    end.

  Fixpoint level_disjoint (ts : list table) : bool :=
    match ts with
    | a :: (b :: _) as ts' =>
        match t_last a, t_first b with
        | Some x, Some y => ltb c (e_uk x) (e_uk y)
        | _, _ => false
        end && level_disjoint ts'
    | _ => true
    end.

  (* every entry of [hi] is newer than every entry of the same user key in [lo] *)
  Definition newer_than (hi lo : list entry) : bool :=
    forallb (fun a => forallb (fun b =>
      match cmp c (e_uk a) (e_uk b) with Eq => e_seq b <? e_seq a | _ => true end) lo) hi.

  Definition level_entries (ts : list table) : list entry := concat (map t_entries ts).

  Fixpoint levels_newer (lvls : list (list table)) : bool :=
    match lvls with
    | [] => true
    | l :: rest => forallb (fun d => newer_than (level_entries l) (level_entries d)) rest && levels_newer rest
    end.

  Definition wf_versionb (lvls : list (list table)) : bool :=
    forallb table_okb (concat lvls) &&
    match lvls with
    | [] => true
    | l0 :: rest => nums_desc l0 && uniqb (level_entries l0) && forallb level_disjoint rest
    end &&
    levels_newer lvls.

  (* ---- certificate of an observed table compaction: the pre-compaction version is well-formed, and
     every table of the source level and of the next level that shares a user key with an input table is
     itself an input (closure) ---- *)
  Definition is_input (nums : list N) (t : table) : bool := existsb (N.eqb (t_num t)) nums.

  Definition shares_key (es : list entry) (t : table) : bool :=
    existsb (fun x => existsb (fun e => match cmp c (e_uk x) (e_uk e) with Eq => true | _ => false end) es) (t_entries t).

  (* every other stored entry with the user key of an input entry is newer than it, or older and then the
     key is not at base level (the hypothesis of ReorgProofs.compaction_preserves, as a boolean) *)
  Definition othersb (base : bytes -> bool) (I O : list entry) : bool :=
    forallb (fun o => forallb (fun i =>
      match cmp c (e_uk o) (e_uk i) with
      | Eq => (e_seq i <? e_seq o) || ((e_seq o <? e_seq i) && negb (base (e_uk i)))
      | _ => true
      end) I) O.

  (* the certificate evaluated on every observed table compaction: I = entries of the input tables,
     O = every other stored entry, deeper = the levels below the output level, outs = the output tables *)
  Definition compaction_cert (minSeq : N) (deeper : list (list table)) (I O : list entry)
             (outs : list (list entry)) : bool :=
    kindsb I && uniqb (I ++ O) && othersb (is_base deeper) I O && (minSeq <? keyMaxSeq p).

  Definition closure_okb (nums : list N) (lv0 lv1 : list table) : bool :=
    let ins := filter (is_input nums) (lv0 ++ lv1) in
    let es := level_entries ins in
    forallb (fun t => is_input nums t || negb (shares_key es t)) (lv0 ++ lv1).
End WithComparer.
