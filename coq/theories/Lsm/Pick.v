(* Lsm/Pick.v — L1: how goleveldb builds a table compaction and installs its result.
   Mirrors, branch by branch,
     leveldb/table.go               tFile.after/before/overlaps, tFiles.searchMinUkey/searchMaxUkey/searchMin/searchMax/
                                    searchNumLess (sort.Search = binary search), tFiles.overlaps, tFiles.getOverlaps (both the
                                    binary-search variant for sorted levels and the restart-the-scan loop for level 0),
                                    tFiles.getRange, tFiles.size, sortByKey/sortByNum
     leveldb/session_compaction.go  newCompaction, compaction.expand, compaction.trivial, getCompactionRange
     leveldb/version.go             version.pickMemdbLevel, versionStaging.commit + finish (one record)
   A table's recorded bounds imin/imax are its first/last entries (Lsm.table has no separate bounds; that the recorded
   bounds equal the first/last entry is checked on the implementation by the C06 oracle).  Table sizes are a function
   [sz]; the options-derived limits are arguments.  The choice of level and seed tables (score / seek / range) is an input.
   Model file: definitions only. *)
From GL Require Export Lsm.Compact.
From Coq Require Import Arith.

(* result of a model function: a Go panic (index/assert) and exhausted fuel are explicit *)
Inductive pres (A : Type) := POk (a : A) | PPanic | POutOfFuel.
Arguments POk {A} a.
Arguments PPanic {A}.
Arguments POutOfFuel {A}.

Definition pbind {A B} (r : pres A) (f : A -> pres B) : pres B :=
  match r with POk a => f a | PPanic => PPanic | POutOfFuel => POutOfFuel end.

Notation "'pdo' x <- r ; k" := (pbind r (fun x => k)) (at level 200, x pattern, r at level 100, k at level 200).

(* sort.Search(n, f): i, j := 0, n; for i < j { h := (i+j)/2; if !f(h) { i = h+1 } else { j = h } }; return i *)
Fixpoint bsearch (fuel : nat) (f : nat -> bool) (i j : nat) : nat :=
  match fuel with
  | O => i
  | S fu => if Nat.ltb i j
            then let h := Nat.div2 (i + j) in
                 if f h then bsearch fu f i h else bsearch fu f (S h) j
            else i
  end.
Definition sort_search (n : nat) (f : nat -> bool) : nat := bsearch n f 0 n.

Definition no_entry : entry := {| e_uk := []; e_seq := 0; e_kind := 0; e_val := [] |}.
Definition no_table : table := {| t_num := 0; t_entries := [] |}.
Definition t_lo (t : table) : entry := hd no_entry (t_entries t).       (* imin *)
Definition t_hi (t : table) : entry := last (t_entries t) no_entry.     (* imax *)
Definition tnth (tf : list table) (i : nat) : table := nth i tf no_table.
Definition memN (n : N) (l : list N) : bool := existsb (N.eqb n) l.
Definition nums_of (l : list table) : list N := map t_num l.

(* the part of the step invariant that Compact.wf_versionb does not check: no two entries of one level share user key
   and sequence number (wf_versionb checks level 0 only), and live tables have pairwise different numbers *)
Fixpoint nodupN (l : list N) : bool :=
  match l with
  | [] => true
  | a :: r => negb (memN a r) && nodupN r
  end.
Definition wf_extrab (v : list (list table)) : bool :=
  forallb (fun l => uniqb (level_entries l)) v && nodupN (concat (map nums_of v)).

(* one session record restricted to tables: (level, number) deleted, (level, table) added *)
Record edit := { ed_del : list (nat * N); ed_add : list (nat * table) }.

Record compaction := {
  c_level : nat;
  c_t0 : list table;      (* levels[0]: inputs of the source level *)
  c_t1 : list table;      (* levels[1]: inputs of the next level *)
  c_gp : list table;      (* grandparents overlapping the whole compaction *)
  c_imin : ikey; c_imax : ikey
}.

Section WithComparer.
  Variable c : comparer.
  Variable p : kparams.
  Variable sz : table -> N.            (* tFile.size *)

  Definition umin_of (t : table) : bytes := e_uk (t_lo t).
  Definition umax_of (t : table) : bytes := e_uk (t_hi t).
  Definition imin_of (t : table) : ikey := e_ikey (t_lo t).
  Definition imax_of (t : table) : ikey := e_ikey (t_hi t).

  (* tFile.after / before / overlaps; a bound None is Go's nil slice *)
  Definition t_after (t : table) (u : option bytes) : bool :=
    match u with
    | Some k => match cmp c k (umax_of t) with Gt => true | _ => false end
    | None => false
    end.
  Definition t_before (t : table) (u : option bytes) : bool :=
    match u with
    | Some k => match cmp c k (umin_of t) with Lt => true | _ => false end
    | None => false
    end.
  Definition t_overlaps (t : table) (umin umax : option bytes) : bool :=
    negb (t_after t umin) && negb (t_before t umax).

  Definition total_size (tf : list table) : N := fold_left (fun a t => a + sz t) tf 0.

  (* ---- the binary searches of table.go ---- *)
  Definition search_min_ukey (tf : list table) (u : bytes) : nat :=
    sort_search (length tf) (fun i => match cmp c (umin_of (tnth tf i)) u with Gt => true | _ => false end).
  Definition search_max_ukey (tf : list table) (u : bytes) : nat :=
    sort_search (length tf) (fun i => match cmp c (umax_of (tnth tf i)) u with Gt => true | _ => false end).
  Definition search_min_idx (tf : list table) (k : ikey) : nat :=
    sort_search (length tf) (fun i => match icmp c (imin_of (tnth tf i)) k with Lt => false | _ => true end).
  Definition search_max_idx (tf : list table) (k : ikey) : nat :=
    sort_search (length tf) (fun i => match icmp c (imax_of (tnth tf i)) k with Lt => false | _ => true end).
  Definition search_num_less (tf : list table) (n : N) : nat :=
    sort_search (length tf) (fun i => t_num (tnth tf i) <? n).

  (* tFiles.overlaps(icmp, umin, umax, unsorted) *)
  Definition files_overlaps (tf : list table) (umin umax : option bytes) (unsorted : bool) : bool :=
    if unsorted then existsb (fun t => t_overlaps t umin umax) tf
    else
      let i := match umin with
               | Some (b :: m) => search_max_idx tf (probe p (b :: m) (keyMaxSeq p))     (* len(umin) > 0 *)
               | _ => O
               end in
      if Nat.leb (length tf) i then false else negb (t_before (tnth tf i) umax).

  (* ---- tFiles.getOverlaps, !overlapped: the level is sorted and disjoint, two binary searches ---- *)
  Definition ov_begin (tf : list table) (umin : option bytes) : nat :=
    match umin with
    | Some m =>
        let index := search_min_ukey tf m in
        match index with
        | O => O
        | S i1 => match cmp c (umax_of (tnth tf i1)) m with
                  | Lt => index
                  | _ => i1                 (* the min ukey overlaps with the index-1 file *)
                  end
        end
    | None => O
    end.
  Definition ov_end (tf : list table) (umax : option bytes) : nat :=
    match umax with
    | Some m =>
        let index := search_max_ukey tf m in
        if Nat.eqb index (length tf) then length tf
        else match cmp c (umin_of (tnth tf index)) m with
             | Gt => index
             | _ => S index               (* the max ukey overlaps with the index file *)
             end
    | None => length tf
    end.
  Definition get_overlaps_sorted (tf : list table) (umin umax : option bytes) : list table :=
    match tf with
    | [] => []
    | _ => let b := ov_begin tf umin in
           let e := ov_end tf umax in
           if Nat.leb e b then [] else firstn (e - b) (skipn b tf)
    end.

  (* ---- tFiles.getOverlaps, overlapped (level 0): one scan either completes or widens a bound and restarts
     (dst = dst[:0]; i = 0; continue) ---- *)
  Inductive pass_res := PDone (dst : list table) | PRestart (umin umax : option bytes).

  Fixpoint ov_pass (rest : list table) (umin umax : option bytes) (dst : list table) : pass_res :=
    match rest with
    | [] => PDone dst
    | t :: rest' =>
        if t_overlaps t umin umax then
          if match umin with Some m => ltb c (umin_of t) m | None => false end
          then PRestart (Some (umin_of t)) umax
          else if match umax with Some m => ltb c m (umax_of t) | None => false end
               then PRestart umin (Some (umax_of t))
               else ov_pass rest' umin umax (dst ++ [t])
        else ov_pass rest' umin umax dst
    end.

  Fixpoint ov_loop (fuel : nat) (tf : list table) (umin umax : option bytes) : pres (list table) :=
    match fuel with
    | O => POutOfFuel
    | S fu => match ov_pass tf umin umax [] with
              | PDone d => POk d
              | PRestart a b => ov_loop fu tf a b
              end
    end.

  Definition get_overlaps (tf : list table) (umin umax : option bytes) (overlapped : bool) : pres (list table) :=
    match tf with
    | [] => POk []
    | _ => if overlapped then ov_loop (2 * length tf + 1) tf umin umax
           else POk (get_overlaps_sorted tf umin umax)
    end.

  (* ---- tFiles.getRange; on an empty list Go returns nil keys whose ukey() panics ---- *)
  Fixpoint get_range_from (imin imax : ikey) (tf : list table) : ikey * ikey :=
    match tf with
    | [] => (imin, imax)
    | t :: r =>
        let imin' := match icmp c (imin_of t) imin with Lt => imin_of t | _ => imin end in
        let imax' := match icmp c (imax_of t) imax with Gt => imax_of t | _ => imax end in
        get_range_from imin' imax' r
    end.
  Definition get_range (tf : list table) : pres (ikey * ikey) :=
    match tf with
    | [] => PPanic
    | t :: r => POk (get_range_from (imin_of t) (imax_of t) r)
    end.

  (* ---- compaction.expand, called by newCompaction with levels = {seed, nil} ---- *)
  Definition expand (v : list (list table)) (lvl : nat) (limit : N) (seed : list table) : pres compaction :=
    let vt0 := nth lvl v [] in
    let vt1 := nth (S lvl) v [] in
    pdo r0 <- get_range seed;
    (* "We expand t0 here just incase ukey hop across tables." *)
    pdo s0 <- (if Nat.eqb lvl 0 then
                 pdo t0' <- get_overlaps vt0 (Some (uk (fst r0))) (Some (uk (snd r0))) true;
                 if Nat.eqb (length t0') (length seed) then POk (t0', r0)
                 else pdo r0' <- get_range t0'; POk (t0', r0')
               else POk (seed, r0));
    let t0 := fst s0 in
    let imin := fst (snd s0) in
    let imax := snd (snd s0) in
    pdo t1 <- get_overlaps vt1 (Some (uk imin)) (Some (uk imax)) false;
    pdo a0 <- get_range (t0 ++ t1);
    (* "See if we can grow the number of inputs in sourceLevel without changing the number of sourceLevel+1 files" *)
    pdo s1 <- (match t1 with
               | [] => POk (t0, t1, (imin, imax), a0)
               | _ =>
                 pdo exp0 <- get_overlaps vt0 (Some (uk (fst a0))) (Some (uk (snd a0))) (Nat.eqb lvl 0);
                 if Nat.ltb (length t0) (length exp0) && (total_size t1 + total_size exp0 <? limit) then
                   pdo x <- get_range exp0;
                   pdo exp1 <- get_overlaps vt1 (Some (uk (fst x))) (Some (uk (snd x))) false;
                   if Nat.eqb (length exp1) (length t1) then
                     pdo a1 <- get_range (exp0 ++ exp1);
                     POk (exp0, exp1, x, a1)
                   else POk (t0, t1, (imin, imax), a0)
                 else POk (t0, t1, (imin, imax), a0)
               end);
    let '(f0, f1, (fmin, fmax), (amin, amax)) := s1 in
    pdo gp <- (if Nat.ltb (lvl + 2) (length v)
               then get_overlaps (nth (lvl + 2) v []) (Some (uk amin)) (Some (uk amax)) false
               else POk []);
    POk {| c_level := lvl; c_t0 := f0; c_t1 := f1; c_gp := gp; c_imin := fmin; c_imax := fmax |}.

  Definition new_compaction (v : list (list table)) (lvl : nat) (limit : N) (seed : list table) : pres compaction :=
    expand v lvl limit seed.

  (* compaction.trivial *)
  Definition trivial (cm : compaction) (max_gp : N) : bool :=
    Nat.eqb (length (c_t0 cm)) 1 && Nat.eqb (length (c_t1 cm)) 0 && (total_size (c_gp cm) <=? max_gp).

  (* session.getCompactionRange: the seed of a range compaction; None = no compaction *)
  Fixpoint limit_prefix (total limit : N) (tf : list table) : list table :=
    match tf with
    | [] => []
    | t :: r => let total' := total + sz t in
                if limit <=? total' then [t] else t :: limit_prefix total' limit r
    end.
  Definition compaction_range (v : list (list table)) (lvl : nat) (umin umax : option bytes) (noLimit : bool)
             (src_limit exp_limit : N) : pres (option compaction) :=
    if Nat.leb (length v) lvl then POk None
    else
      pdo t0 <- get_overlaps (nth lvl v []) umin umax (Nat.eqb lvl 0);
      match t0 with
      | [] => POk None
      | _ => let t0' := if negb noLimit && Nat.ltb 0 lvl then limit_prefix 0 src_limit t0 else t0 in
             pdo cm <- new_compaction v lvl exp_limit t0'; POk (Some cm)
      end.

  (* the record a table compaction commits (tableCompaction): inputs deleted, outputs added one level down;
     a trivial move deletes and re-adds the same table *)
  Definition compaction_edit (cm : compaction) (outs : list table) : edit :=
    {| ed_del := map (fun t => (c_level cm, t_num t)) (c_t0 cm) ++ map (fun t => (S (c_level cm), t_num t)) (c_t1 cm);
       ed_add := map (fun t => (S (c_level cm), t)) outs |}.
  Definition move_edit (cm : compaction) : edit := compaction_edit cm (c_t0 cm).

  (* ---- version.pickMemdbLevel ---- *)
  Fixpoint pick_loop (v : list (list table)) (umin umax : option bytes) (gp_limit : nat -> N) (maxLevel : nat)
           (fuel level : nat) : nat :=
    match fuel with
    | O => level
    | S fu =>
        if Nat.leb maxLevel level then level
        else if Nat.leb (length v) (S level) then maxLevel
        else if files_overlaps (nth (S level) v []) umin umax false then level
        else if Nat.ltb (level + 2) (length v)
                && (gp_limit level <? total_size (get_overlaps_sorted (nth (level + 2) v []) umin umax))
             then level
             else pick_loop v umin umax gp_limit maxLevel fu (S level)
    end.
  Definition pick_memdb_level (v : list (list table)) (umin umax : option bytes) (gp_limit : nat -> N) (maxLevel : nat) : nat :=
    if Nat.ltb 0 maxLevel then
      match v with
      | [] => maxLevel
      | l0 :: _ => if files_overlaps l0 umin umax true then O
                   else pick_loop v umin umax gp_limit maxLevel maxLevel O
      end
    else O.

  (* session.flushMemdb: the record of a flush of one table *)
  Definition flush_edit (v : list (list table)) (gp_limit : nat -> N) (maxLevel : nat) (t : table) : edit :=
    {| ed_del := [];
       ed_add := [(pick_memdb_level v (Some (umin_of t)) (Some (umax_of t)) gp_limit maxLevel, t)] |}.

  (* ---- versionStaging.commit + finish for one record ---- *)
  (* sort.Sort with lessByNum (descending number) / lessByKey (imin ascending, then number): insertion sorts; Go's
     sort is not stable, the result is determined because live tables have pairwise different numbers *)
  Fixpoint ins_num (t : table) (l : list table) : list table :=
    match l with
    | [] => [t]
    | x :: l' => if t_num x <? t_num t then t :: l else x :: ins_num t l'
    end.
  Definition sort_by_num (l : list table) : list table := fold_right ins_num [] l.

  Definition less_by_key (a b : table) : bool :=
    match icmp c (imin_of a) (imin_of b) with
    | Lt => true
    | Eq => t_num a <? t_num b
    | Gt => false
    end.
  Fixpoint ins_key (t : table) (l : list table) : list table :=
    match l with
    | [] => [t]
    | x :: l' => if less_by_key x t then x :: ins_key t l' else t :: l
    end.
  Definition sort_by_key (l : list table) : list table := fold_right ins_key [] l.

  Definition adds_at (ed : edit) (l : nat) : list table :=
    map snd (filter (fun x => Nat.eqb (fst x) l) (ed_add ed)).
  (* scratch.deleted: recorded only when the base level has tables; an added number is removed from it again *)
  Definition dels_at (ed : edit) (l : nat) (base : list table) : list N :=
    match base with
    | [] => []
    | _ => filter (fun n => negb (memN n (nums_of (adds_at ed l))))
                  (map snd (filter (fun x => Nat.eqb (fst x) l) (ed_del ed)))
    end.
  Definition edit_levels (ed : edit) : nat :=
    fold_right Nat.max O (map (fun x => S (fst x)) (ed_del ed) ++ map (fun x => S (fst x)) (ed_add ed)).

  Definition finish_level (trivial : bool) (level : nat) (base : list table) (dels : list N) (adds : list table)
    : pres (list table) :=
    match dels, adds with
    | [], [] => POk base                                   (* "Short circuit if there is no change at all." *)
    | _, _ =>
        let nt := filter (fun t => negb (memN (t_num t) dels) && negb (memN (t_num t) (nums_of adds))) base in
        match adds with
        | [] => POk nt                                     (* "Avoid resort if only files in this level are deleted" *)
        | _ =>
            if trivial then
              if Nat.eqb level 0 then
                let added := sort_by_num adds in
                let index := search_num_less nt (t_num (last added no_table)) in
                POk (firstn index nt ++ added ++ skipn index nt)
              else
                let added := sort_by_key adds in
                pdo r <- get_range added;
                let index := search_min_idx nt (snd r) in
                POk (firstn index nt ++ added ++ skipn index nt)
            else if Nat.eqb level 0 then POk (sort_by_num (nt ++ adds))
                 else POk (sort_by_key (nt ++ adds))
        end
    end.

  (* "Trim levels." *)
  Fixpoint trim (l : list (list table)) : list (list table) :=
    match l with
    | [] => []
    | x :: r => match trim r, x with
                | [], [] => []
                | r', _ => x :: r'
                end
    end.

  Fixpoint pres_all {A} (l : list (pres A)) : pres (list A) :=
    match l with
    | [] => POk []
    | x :: r => pdo a <- x; pdo b <- pres_all r; POk (a :: b)
    end.

  Definition finish (trivial : bool) (base : list (list table)) (ed : edit) : pres (list (list table)) :=
    let n := Nat.max (length base) (edit_levels ed) in
    pdo lv <- pres_all (map (fun l => finish_level trivial l (nth l base []) (dels_at ed l (nth l base [])) (adds_at ed l))
                            (seq 0 n));
    POk (trim lv).

  (* ---- the output tables of tableCompactionBuilder.run, abstractly: consecutive non-empty chunks of the kept
     merged sequence, cut only between different user keys (Compact.cuts_ok), each written under a new number ---- *)
  Fixpoint mk_outputs (nums : list N) (outs : list (list entry)) : list table :=
    match nums, outs with
    | n :: nums', o :: outs' => {| t_num := n; t_entries := o |} :: mk_outputs nums' outs'
    | _, _ => []
    end.

  Definition layout (v : list (list table)) : list (list N) := map nums_of (trim v).

  (* the boolean form of the invariant of the step theorems (StepProofs.wf_lsm) *)
  Definition wf_lsmb (v : list (list table)) : bool := wf_versionb c p v && wf_extrab v.
End WithComparer.
