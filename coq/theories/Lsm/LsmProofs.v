(* Lsm/LsmProofs.v — the read path of the L1 model returns the newest visible entry. *)
From GL Require Import Base.Order Base.OrderProofs Codec.IKey Codec.IKeyProofs Lsm.Lsm.
From Coq Require Import ZArith Lia ZifyN ZifyNat ZifyBool.

Section Proofs.
  Variable c : comparer.
  Hypothesis ok : comparer_ok c.
  Variable p : kparams.
  Hypothesis pok : kparams_ok p.

  Notation ecmp := (ecmp c).
  Notation find_ge := (find_ge c).
  Notation vis := (vis c).
  Notation newest := (newest c).

  (* strongly sorted by the internal order *)
  Fixpoint ssorted (l : list entry) : Prop :=
    match l with
    | [] => True
    | a :: l' => Forall (fun b => ecmp a b = Lt) l' /\ ssorted l'
    end.

  Definition kinds_ok (l : list entry) : Prop := Forall (fun e => e_kind e <= keyTypeSeek p) l.

  Lemma seek_lt_256 : keyTypeSeek p < 256.
  Proof. destruct pok as (_ & _ & _ & H & _). exact H. Qed.

  (* an entry is below the probe (k,s) iff its user key is smaller, or equal with a newer seq *)
  Lemma below_probe e k s : e_kind e <= keyTypeSeek p ->
    icmp c (e_ikey e) (probe p k s) = Lt <->
    (cmp c (e_uk e) k = Lt \/ (e_uk e = k /\ s < e_seq e)).
  Proof.
    intros Hk. unfold icmp, probe, e_ikey; cbn [uk num].
    destruct (cmp c (e_uk e) k) eqn:E.
    - apply (cmp_eq c ok) in E. rewrite N.compare_lt_iff. unfold pack.
      pose proof seek_lt_256. split.
      + intros H1. right. split; [exact E|]. nia.
      + intros [H1|[_ H1]]; [discriminate|]. nia.
    - split; auto.
    - split; [discriminate|]. intros [H1|[H1 _]]; [discriminate|].
      subst. rewrite (cmp_refl c ok) in E. discriminate.
  Qed.

  Lemma vis_true e k s : vis k s e = true <-> (e_uk e = k /\ e_seq e <= s).
  Proof.
    unfold Lsm.vis. destruct (cmp c (e_uk e) k) eqn:E.
    - apply (cmp_eq c ok) in E. rewrite N.leb_le. tauto.
    - split; [discriminate|]. intros [H _]. subst. rewrite (cmp_refl c ok) in E. discriminate.
    - split; [discriminate|]. intros [H _]. subst. rewrite (cmp_refl c ok) in E. discriminate.
  Qed.

  (* visible entries are never below the probe *)
  Lemma vis_not_below e k s : e_kind e <= keyTypeSeek p -> vis k s e = true ->
    icmp c (e_ikey e) (probe p k s) <> Lt.
  Proof.
    intros Hk Hv H. apply vis_true in Hv as [Hu Hs]. apply (below_probe e k s Hk) in H.
    destruct H as [H|[_ H]]; [|lia]. subst. rewrite (cmp_refl c ok) in H. discriminate.
  Qed.

  Lemma ecmp_lt_trans a b d : ecmp a b = Lt -> ecmp b d = Lt -> ecmp a d = Lt.
  Proof. apply (icmp_trans c ok). Qed.

  (* in a sorted list, what follows a visible entry of k is either another entry of k with a smaller
     or equal sequence number, or an entry of a larger user key *)
  Lemma after_same_key a b : kinds_ok [a; b] -> ecmp a b = Lt -> e_uk a = e_uk b -> e_seq b <= e_seq a.
  Proof.
    intros Hk H Hu. unfold Lsm.ecmp, icmp, e_ikey in H; cbn [uk num] in H.
    rewrite Hu, (cmp_refl c ok) in H. rewrite N.compare_lt_iff in H. unfold pack in H.
    inversion Hk as [|? ? Ha Hk']; subst. inversion Hk' as [|? ? Hb _]; subst.
    pose proof seek_lt_256. nia.
  Qed.

  Lemma after_uk_le a b : ecmp a b = Lt -> cmp c (e_uk a) (e_uk b) <> Gt.
  Proof.
    unfold Lsm.ecmp, icmp, e_ikey; cbn [uk num]. destruct (cmp c (e_uk a) (e_uk b)); congruence.
  Qed.

  (* ---- newest ---- *)
  Lemma newest_app k s l1 l2 acc : newest k s (l1 ++ l2) acc = newest k s l2 (newest k s l1 acc).
  Proof. revert acc; induction l1 as [|e l1 IH]; intros acc; cbn [app Lsm.newest]; auto. Qed.

  Lemma newest_dominated k s l a :
    (forall x, In x l -> vis k s x = true -> e_seq x <= e_seq a) ->
    newest k s l (Some a) = Some a.
  Proof.
    induction l as [|e l IH]; intros H; cbn [Lsm.newest]; [reflexivity|].
    destruct (vis k s e) eqn:V.
    - cbn [newer]. assert (e_seq e <= e_seq a) by (apply H; [left; reflexivity|exact V]).
      replace (e_seq a <? e_seq e) with false by (symmetry; apply N.ltb_ge; lia).
      apply IH. intros x Hx. apply H. right; exact Hx.
    - apply IH. intros x Hx. apply H. right; exact Hx.
  Qed.

  Lemma newest_none k s l : (forall x, In x l -> vis k s x = false) -> forall acc, newest k s l acc = acc.
  Proof.
    induction l as [|e l IH]; intros H acc; cbn [Lsm.newest]; [reflexivity|].
    rewrite (H e) by (left; reflexivity). apply IH. intros x Hx. apply H. right; exact Hx.
  Qed.

  Definition seq_of (a : option entry) : option N := option_map e_seq a.

  (* first visible entry *)
  Fixpoint first_vis (k : bytes) (s : N) (l : list entry) : option entry :=
    match l with
    | [] => None
    | e :: l' => if vis k s e then Some e else first_vis k s l'
    end.

  Lemma first_vis_in k s l e : first_vis k s l = Some e -> In e l /\ vis k s e = true.
  Proof.
    induction l as [|x l IH]; cbn [first_vis]; [discriminate|].
    destruct (vis k s x) eqn:V.
    - intros H; injection H as <-. split; [left; reflexivity|exact V].
    - intros H. destruct (IH H). split; [right|]; assumption.
  Qed.

  Lemma first_vis_none k s l : first_vis k s l = None -> forall x, In x l -> vis k s x = false.
  Proof.
    induction l as [|y l IH]; cbn [first_vis]; intros H x Hx; [destruct Hx|].
    destruct (vis k s y) eqn:V; [discriminate|]. destruct Hx as [<-|Hx]; [exact V|]. apply IH; assumption.
  Qed.

  (* in a sorted list the first visible entry dominates all later visible ones *)
  Lemma sorted_first_dominates k s e l : kinds_ok (e :: l) -> ssorted (e :: l) -> vis k s e = true ->
    forall x, In x l -> vis k s x = true -> e_seq x <= e_seq e.
  Proof.
    intros Hk [Hall _] Ve x Hx Vx.
    rewrite Forall_forall in Hall. specialize (Hall x Hx).
    apply vis_true in Ve as [Hue _]. apply vis_true in Vx as [Hux _].
    apply after_same_key; [|exact Hall|congruence].
    unfold kinds_ok in *. rewrite Forall_forall in Hk.
    repeat constructor; apply Hk; [left; reflexivity|right; exact Hx].
  Qed.

  Lemma kinds_ok_in l x : kinds_ok l -> In x l -> e_kind x <= keyTypeSeek p.
  Proof. unfold kinds_ok. rewrite Forall_forall. auto. Qed.

  Lemma kinds_ok_tl e l : kinds_ok (e :: l) -> kinds_ok l.
  Proof. intros H. inversion H; assumption. Qed.

  Lemma newest_sorted k s l acc : kinds_ok l -> ssorted l ->
    newest k s l acc = match first_vis k s l with Some e => newer acc e | None => acc end.
  Proof.
    revert acc; induction l as [|e l IH]; intros acc Hk Hs; cbn [Lsm.newest first_vis]; [reflexivity|].
    destruct (vis k s e) eqn:V.
    - pose proof (sorted_first_dominates k s e l Hk Hs V) as D.
      destruct acc as [a|]; cbn [newer].
      + destruct (e_seq a <? e_seq e) eqn:L.
        * apply newest_dominated. exact D.
        * apply newest_dominated. intros x Hx Vx. apply N.ltb_ge in L. specialize (D x Hx Vx). lia.
      + apply newest_dominated. exact D.
    - apply IH; [eapply kinds_ok_tl; eauto|apply Hs].
  Qed.

  (* ---- find_ge on a sorted list is the first visible entry, or an entry of another key ---- *)
  Lemma find_ge_sorted k s l : kinds_ok l -> ssorted l ->
    match find_ge (probe p k s) l with
    | Some e => match cmp c (e_uk e) k with
                | Eq => first_vis k s l = Some e
                | _ => first_vis k s l = None
                end
    | None => first_vis k s l = None
    end.
  Proof.
    induction l as [|e l IH]; intros Hk Hs; cbn [Lsm.find_ge first_vis]; [reflexivity|].
    assert (Hke : e_kind e <= keyTypeSeek p) by (inversion Hk; assumption).
    destruct (icmp c (e_ikey e) (probe p k s)) eqn:E.
    - (* equal to the probe: visible *)
      apply (icmp_eq c ok) in E. unfold probe, e_ikey in E. injection E as Eu En.
      rewrite Eu, (cmp_refl c ok).
      assert (V : vis k s e = true).
      { apply vis_true. split; [exact Eu|]. unfold pack in En. pose proof seek_lt_256. nia. }
      rewrite V. reflexivity.
    - (* below the probe: not visible, continue *)
      assert (V : vis k s e = false).
      { destruct (vis k s e) eqn:V; [|reflexivity]. exfalso. eapply vis_not_below; eauto. }
      rewrite V. apply IH; [eapply kinds_ok_tl; eauto|apply Hs].
    - (* above the probe *)
      assert (NB : ~ (cmp c (e_uk e) k = Lt \/ (e_uk e = k /\ s < e_seq e))).
      { intros H. apply (below_probe e k s Hke) in H. congruence. }
      destruct (cmp c (e_uk e) k) eqn:U.
      + apply (cmp_eq c ok) in U.
        assert (V : vis k s e = true).
        { apply vis_true; split; [exact U|].
          destruct (N.le_gt_cases (e_seq e) s) as [Hle|Hgt]; [exact Hle|].
          exfalso. apply NB. right. split; [exact U|lia]. }
        rewrite V. reflexivity.
      + exfalso. apply NB. left. reflexivity.
      + (* e has a larger user key: nothing visible from here on *)
        assert (V : vis k s e = false).
        { destruct (vis k s e) eqn:V; [|reflexivity]. apply vis_true in V as [V _].
          subst. rewrite (cmp_refl c ok) in U. discriminate. }
        rewrite V.
        destruct (first_vis k s l) as [x|] eqn:F; [|reflexivity]. exfalso.
        apply first_vis_in in F as [Hx Vx]. apply vis_true in Vx as [Vx _].
        destruct Hs as [Hall _]. rewrite Forall_forall in Hall. specialize (Hall x Hx).
        apply after_uk_le in Hall. rewrite Vx in Hall. apply Hall. exact U.
  Qed.

  Lemma comp_get_sorted k s l : kinds_ok l -> ssorted l ->
    comp_get c p l k s = group_res p (first_vis k s l).
  Proof.
    intros Hk Hs. pose proof (find_ge_sorted k s l Hk Hs) as H. unfold comp_get.
    destruct (find_ge (probe p k s) l) as [e|]; [|rewrite H; reflexivity].
    destruct (cmp c (e_uk e) k); rewrite H; reflexivity.
  Qed.

  Lemma comp_get_newest k s l : kinds_ok l -> ssorted l ->
    comp_get c p l k s = group_res p (newest k s l None).
  Proof.
    intros Hk Hs. rewrite comp_get_sorted, newest_sorted by assumption.
    destruct (first_vis k s l); reflexivity.
  Qed.

  (* ---- general facts about newest ---- *)
  Lemma newest_in k s l acc a : newest k s l acc = Some a ->
    acc = Some a \/ (In a l /\ vis k s a = true).
  Proof.
    revert acc; induction l as [|e l IH]; intros acc; cbn [Lsm.newest]; [auto|].
    intros H. apply IH in H. destruct H as [H|[H1 H2]]; [|right; split; [right|]; assumption].
    destruct (vis k s e) eqn:V; [|left; exact H].
    destruct acc as [x|]; cbn [newer] in H.
    - destruct (e_seq x <? e_seq e); [|left; exact H].
      injection H as <-. right. split; [left; reflexivity|exact V].
    - injection H as <-. right. split; [left; reflexivity|exact V].
  Qed.

  (* every entry of [lo] with the user key of an entry of [hi] is older *)
  Definition newer_thanP (hi lo : list entry) : Prop :=
    forall a b, In a hi -> In b lo -> e_uk a = e_uk b -> e_seq b < e_seq a.

  Lemma chain_step k s A R : newer_thanP A R ->
    newest k s (A ++ R) None =
    match newest k s A None with Some a => Some a | None => newest k s R None end.
  Proof.
    intros HN. rewrite newest_app. destruct (newest k s A None) as [a|] eqn:E; [|reflexivity].
    apply newest_dominated. intros x Hx Vx.
    apply newest_in in E as [E|[Ha Va]]; [discriminate|].
    apply vis_true in Vx as [Ux _]. apply vis_true in Va as [Ua _].
    assert (e_seq x < e_seq a) by (apply (HN a x Ha Hx); congruence). lia.
  Qed.

  Lemma group_res_miss z : group_res p z = GMiss <-> z = None.
  Proof.
    destruct z as [e|]; cbn; [|tauto]. unfold res_of. destruct (e_kind e =? keyTypeDel p); split; discriminate.
  Qed.

  (* ---- tables ---- *)
  Definition table_ok (t : table) : Prop := ssorted (t_entries t) /\ kinds_ok (t_entries t).
  Definition tables_ok (ts : list table) : Prop := Forall table_ok ts.
  Definition level_entries (ts : list table) : list entry := concat (map t_entries ts).
  Definition keyseq (e : entry) : bytes * N := (e_uk e, e_seq e).
  Definition uniq (l : list entry) : Prop := NoDup (map keyseq l).

  Lemma ssorted_hd_le l f x : ssorted l -> hd_error l = Some f -> In x l -> cmp c (e_uk f) (e_uk x) <> Gt.
  Proof.
    destruct l as [|y l]; cbn; [discriminate|]. intros [Hall _] H Hx. injection H as <-.
    destruct Hx as [<-|Hx]; [rewrite (cmp_refl c ok); discriminate|].
    rewrite Forall_forall in Hall. apply after_uk_le. apply Hall. exact Hx.
  Qed.

  Lemma last_some_in (l : list entry) x : last (map Some l) None = Some x -> In x l.
  Proof.
    induction l as [|y l IH]; cbn [map last]; [discriminate|].
    destruct l as [|z l']; cbn [map] in *.
    - intros H; injection H as <-. left; reflexivity.
    - intros H. right. apply IH. exact H.
  Qed.

  Lemma last_none_nil (l : list entry) : last (map Some l) None = None -> l = [].
  Proof.
    induction l as [|y l IH]; [reflexivity|]. cbn [map last].
    destruct l as [|z l']; cbn [map] in *; [discriminate|]. intros H. specialize (IH H). discriminate.
  Qed.

  Lemma ssorted_last_ge l x y : ssorted l -> last (map Some l) None = Some y -> In x l ->
    x = y \/ ecmp x y = Lt.
  Proof.
    induction l as [|e l IH]; cbn [map last]; [discriminate|].
    intros [Hall Hs] HL Hx. destruct l as [|z l'].
    - cbn in HL. injection HL as <-. destruct Hx as [<-|[]]. left; reflexivity.
    - cbn [map] in *. destruct Hx as [<-|Hx].
      + right. rewrite Forall_forall in Hall. apply Hall. apply last_some_in. exact HL.
      + apply IH; assumption.
  Qed.

  Lemma covers_of_member t x : ssorted (t_entries t) -> In x (t_entries t) -> t_covers c t (e_uk x) = true.
  Proof.
    intros Hs Hx. unfold t_covers, t_first, t_last.
    destruct (hd_error (t_entries t)) as [f|] eqn:F.
    2:{ destruct (t_entries t); [destruct Hx|discriminate]. }
    destruct (last (map Some (t_entries t)) None) as [l|] eqn:L.
    2:{ apply last_none_nil in L. rewrite L in Hx. destruct Hx. }
    apply andb_true_intro. split; apply (leb_le c).
    - apply (ssorted_hd_le _ f x Hs F Hx).
    - destruct (ssorted_last_ge _ x l Hs L Hx) as [->|H].
      + unfold le. rewrite (cmp_refl c ok). discriminate.
      + apply after_uk_le. exact H.
  Qed.

  Lemma NoDup_app_l {A} (l1 l2 : list A) : NoDup (l1 ++ l2) -> NoDup l2.
  Proof. induction l1 as [|x l1 IH]; cbn; [auto|]. intros H. inversion H; auto. Qed.

  Lemma NoDup_app_sep {A} (l1 l2 : list A) x : NoDup (l1 ++ l2) -> In x l1 -> ~ In x l2.
  Proof.
    induction l1 as [|y l1 IH]; cbn; [tauto|]. intros H [->|Hx] H2.
    - inversion H as [|? ? Hn _]; subst. apply Hn. apply in_or_app. right; exact H2.
    - inversion H; subst. eapply IH; eauto.
  Qed.

  (* level 0 / aux group = newest over the group's entries *)
  Lemma group_get_newest k s ts z :
    tables_ok ts ->
    (forall ze, z = Some ze -> e_uk ze = k) ->
    NoDup (map keyseq (match z with Some ze => [ze] | None => [] end ++ level_entries ts)) ->
    group_get c p ts k s z = newest k s (level_entries ts) z.
  Proof.
    revert z; induction ts as [|t ts IH]; intros z Hok Hz Hnd; cbn [group_get]; [reflexivity|].
    unfold level_entries in *. cbn [map concat]. rewrite newest_app.
    inversion Hok as [|? ? [Hs Hk] Hok']; subst.
    assert (Z' : (if t_covers c t k then
                    match find_ge (probe p k s) (t_entries t) with
                    | Some e => match cmp c (e_uk e) k with
                                | Eq => match z with
                                        | Some ze => if e_seq ze <=? e_seq e then Some e else z
                                        | None => Some e end
                                | _ => z end
                    | None => z end
                  else z) = newest k s (t_entries t) z).
    { rewrite (newest_sorted k s _ z Hk Hs).
      pose proof (find_ge_sorted k s _ Hk Hs) as FG.
      destruct (first_vis k s (t_entries t)) as [e|] eqn:FV.
      - apply first_vis_in in FV as FV'. destruct FV' as [He Ve]. apply vis_true in Ve as [Ue _].
        rewrite <- Ue, (covers_of_member t e Hs He), Ue.
        destruct (find_ge (probe p k s) (t_entries t)) as [e'|]; [|discriminate].
        destruct (cmp c (e_uk e') k); try discriminate. injection FG as FGe; subst e'.
        destruct z as [ze|]; cbn [newer]; [|reflexivity].
        destruct (N.eq_dec (e_seq ze) (e_seq e)) as [Heq|Hne].
        + exfalso. cbn [app map] in Hnd. apply NoDup_cons_iff in Hnd as [Hn _]. apply Hn. cbn [concat].
          rewrite map_app. apply in_or_app. left. apply in_map_iff. exists e. split; [|exact He].
          unfold keyseq. rewrite (Hz ze eq_refl), Ue, Heq. reflexivity.
        + destruct (e_seq ze <=? e_seq e) eqn:A; destruct (e_seq ze <? e_seq e) eqn:B; try reflexivity; lia.
      - destruct (t_covers c t k); [|reflexivity].
        destruct (find_ge (probe p k s) (t_entries t)) as [e'|]; [|reflexivity].
        destruct (cmp c (e_uk e') k); try reflexivity. discriminate. }
    rewrite Z'. apply IH.
    - exact Hok'.
    - intros ze Hze. apply newest_in in Hze as [Hze|[_ V]]; [apply Hz; exact Hze|].
      apply vis_true in V. tauto.
    - (* uniqueness for the new accumulator *)
      destruct (newest k s (t_entries t) z) as [a|] eqn:EA.
      2:{ cbn [app]. cbn [map concat] in Hnd. rewrite !map_app in Hnd.
          destruct z; cbn [app map] in Hnd.
          - inversion Hnd; subst. eapply NoDup_app_l; eauto.
          - eapply NoDup_app_l; eauto. }
      cbn [app map]. cbn [map concat] in Hnd. rewrite !map_app in Hnd.
      apply newest_in in EA as [EA|[Ha _]].
      + subst z. cbn [app map] in Hnd. inversion Hnd as [|? ? Hn Hnd']; subst. constructor.
        * intros H. apply Hn. apply in_or_app. right. exact H.
        * eapply NoDup_app_l; eauto.
      + assert (Hnd2 : NoDup (map keyseq (t_entries t) ++ map keyseq (concat (map t_entries ts)))).
        { destruct z; cbn [app map] in Hnd; [inversion Hnd; assumption|assumption]. }
        constructor.
        * eapply NoDup_app_sep; eauto. apply in_map. exact Ha.
        * eapply NoDup_app_l; eauto.
  Qed.

  (* ---- one sorted level ---- *)
  Fixpoint level_sorted (ts : list table) : Prop :=
    match ts with
    | [] => True
    | t :: ts' =>
        Forall (fun t' => forall x y, In x (t_entries t) -> In y (t_entries t') -> cmp c (e_uk x) (e_uk y) = Lt) ts'
        /\ level_sorted ts'
    end.

  Lemma level_get_cons_skip t ts k s :
    (t_last t = None \/ exists l, t_last t = Some l /\ icmp c (e_ikey l) (probe p k s) = Lt) ->
    level_get c p (t :: ts) k s = level_get c p ts k s.
  Proof.
    intros H. unfold level_get. cbn [search_max].
    destruct H as [->|[l [-> ->]]]; reflexivity.
  Qed.

  Lemma level_get_newest k s ts : tables_ok ts -> level_sorted ts ->
    level_get c p ts k s = group_res p (newest k s (level_entries ts) None).
  Proof.
    induction ts as [|t ts IH]; intros Hok Hls; [reflexivity|].
    inversion Hok as [|? ? [Hs Hk] Hok']; subst. destruct Hls as [Hsep Hls].
    unfold level_entries. cbn [map concat]. fold (level_entries ts).
    destruct (t_last t) as [l|] eqn:L.
    2:{ rewrite level_get_cons_skip by (left; exact L).
        unfold t_last in L. apply last_none_nil in L. rewrite L. cbn [app]. apply IH; assumption. }
    assert (Cases : icmp c (e_ikey l) (probe p k s) = Lt \/ icmp c (e_ikey l) (probe p k s) <> Lt)
      by (destruct (icmp c (e_ikey l) (probe p k s)); [right|left|right]; congruence).
    destruct Cases as [E|NBl].
    { (* last entry below the probe: nothing visible in this table *)
      rewrite level_get_cons_skip by (right; exists l; split; [exact L|exact E]).
      assert (Hl : In l (t_entries t)) by (apply last_some_in; exact L).
      rewrite newest_app, (newest_none k s (t_entries t)); [apply IH; assumption|].
      intros x Hx. destruct (vis k s x) eqn:V; [|reflexivity]. exfalso.
      assert (Hkx : e_kind x <= keyTypeSeek p) by (apply (kinds_ok_in _ _ Hk Hx)).
      apply (vis_not_below x k s Hkx V).
      destruct (ssorted_last_ge _ x l Hs L Hx) as [->|Hxl]; [exact E|].
      eapply (icmp_trans c ok); eauto. }
    assert (Hl : In l (t_entries t)) by (apply last_some_in; exact L).
    assert (Hkl : e_kind l <= keyTypeSeek p) by (apply (kinds_ok_in _ _ Hk Hl)).
    assert (Ul : cmp c (e_uk l) k <> Lt).
    { intros U. apply NBl. apply (below_probe l k s Hkl). left. exact U. }
    assert (Rest : forall y, In y (level_entries ts) -> vis k s y = false).
    { intros y Hy. destruct (vis k s y) eqn:V; [|reflexivity]. exfalso.
      apply vis_true in V as [Uy _]. unfold level_entries in Hy.
      apply in_concat in Hy as [es [Hes Hy]]. apply in_map_iff in Hes as [t' [<- Ht']].
      rewrite Forall_forall in Hsep. specialize (Hsep t' Ht' l y Hl Hy). rewrite Uy in Hsep.
      apply Ul. exact Hsep. }
    rewrite newest_app, (newest_none k s _ Rest).
    assert (SM : search_max c (t :: ts) (probe p k s) = Some t).
    { cbn [search_max]. rewrite L. destruct (icmp c (e_ikey l) (probe p k s)); congruence. }
    unfold level_get. rewrite SM.
    destruct (t_first t) as [f|] eqn:F;
      [|unfold t_first in F; destruct (t_entries t); [destruct Hl|discriminate]].
    destruct (Order.leb c (e_uk f) k) eqn:LB; [apply comp_get_newest; assumption|].
    rewrite (newest_none k s (t_entries t)); [reflexivity|].
    intros x Hx; destruct (vis k s x) eqn:V; [|reflexivity]; exfalso.
    apply vis_true in V as [Ux _].
    pose proof (ssorted_hd_le _ f x Hs F Hx) as HH; rewrite Ux in HH.
    apply (leb_le c) in HH; congruence.
  Qed.

  (* ---- levels below level 0 ---- *)
  Fixpoint chain_newer (cs : list (list entry)) : Prop :=
    match cs with
    | [] => True
    | x :: rest => Forall (fun y => newer_thanP x y) rest /\ chain_newer rest
    end.

  Lemma newer_thanP_concat x rest : Forall (fun y => newer_thanP x y) rest -> newer_thanP x (concat rest).
  Proof.
    intros H a b Ha Hb. apply in_concat in Hb as [y [Hy Hb]].
    rewrite Forall_forall in H. exact (H y Hy a b Ha Hb).
  Qed.

  Definition level_ok (ts : list table) : Prop := tables_ok ts /\ level_sorted ts.

  Lemma deep_get_newest k s lvls : Forall level_ok lvls -> chain_newer (map level_entries lvls) ->
    deep_get c p lvls k s = group_res p (newest k s (concat (map level_entries lvls)) None).
  Proof.
    induction lvls as [|ts rest IH]; intros Hok Hch; [reflexivity|].
    inversion Hok as [|? ? [H1 H2] Hok']; subst. cbn [map] in Hch. destruct Hch as [Hn Hch].
    cbn [deep_get map concat]. rewrite (level_get_newest k s ts H1 H2).
    rewrite (chain_step k s _ _ (newer_thanP_concat _ _ Hn)).
    destruct (newest k s (level_entries ts) None) as [a|] eqn:E.
    - cbn [group_res]. unfold res_of. destruct (e_kind a =? keyTypeDel p); reflexivity.
    - cbn [group_res]. apply IH; assumption.
  Qed.

  (* ---- the whole state ---- *)
  Definition comps (st : lstate) : list (list entry) :=
    st_mem st :: st_frozen st :: level_entries (st_aux st) :: map level_entries (st_levels st).

  Record wf_state (st : lstate) : Prop := {
    wf_mem : ssorted (st_mem st) /\ kinds_ok (st_mem st);
    wf_frozen : ssorted (st_frozen st) /\ kinds_ok (st_frozen st);
    wf_aux : tables_ok (st_aux st) /\ uniq (level_entries (st_aux st));
    wf_l0 : tables_ok (hd [] (st_levels st)) /\ uniq (level_entries (hd [] (st_levels st)));
    wf_deep : Forall level_ok (tl (st_levels st));
    wf_chain : chain_newer (comps st)
  }.

  Lemma all_entries_comps st : all_entries st = concat (comps st).
  Proof.
    unfold all_entries, all_tables, comps. cbn [concat]. f_equal. f_equal.
    rewrite map_app, concat_app. f_equal.
    induction (st_levels st) as [|l ls IH]; [reflexivity|].
    cbn [concat map]. rewrite map_app, concat_app, IH. reflexivity.
  Qed.

  Lemma res_nonmiss a : res_of p a <> GMiss.
  Proof. unfold res_of. destruct (e_kind a =? keyTypeDel p); discriminate. Qed.

  Theorem get_correct st k s : wf_state st ->
    lsm_get c p st k s = group_res p (newest k s (all_entries st) None).
  Proof.
    intros [[Hm1 Hm2] [Hf1 Hf2] [Ha1 Ha2] [H01 H02] Hd Hch].
    rewrite all_entries_comps. unfold comps in *. cbn [chain_newer] in Hch.
    destruct Hch as [Nm [Nf [Na Hch]]].
    unfold lsm_get.
    rewrite (comp_get_newest k s _ Hm2 Hm1).
    rewrite concat_cons, (chain_step k s (st_mem st) _ (newer_thanP_concat _ _ Nm)).
    destruct (newest k s (st_mem st) None) as [a|]; cbn [group_res].
    { pose proof (res_nonmiss a). destruct (res_of p a); congruence. }
    rewrite (comp_get_newest k s _ Hf2 Hf1).
    rewrite concat_cons, (chain_step k s (st_frozen st) _ (newer_thanP_concat _ _ Nf)).
    destruct (newest k s (st_frozen st) None) as [a|]; cbn [group_res].
    { pose proof (res_nonmiss a). destruct (res_of p a); congruence. }
    unfold version_get.
    rewrite (group_get_newest k s (st_aux st) None Ha1) by (try discriminate; exact Ha2).
    rewrite concat_cons, (chain_step k s (level_entries (st_aux st)) _ (newer_thanP_concat _ _ Na)).
    destruct (newest k s (level_entries (st_aux st)) None) as [a|]; cbn [group_res].
    { pose proof (res_nonmiss a). destruct (res_of p a); congruence. }
    destruct (st_levels st) as [|l0 rest]; [reflexivity|].
    cbn [hd tl map] in *. destruct Hch as [N0 Hch].
    rewrite (group_get_newest k s l0 None H01) by (try discriminate; exact H02).
    rewrite concat_cons, (chain_step k s (level_entries l0) _ (newer_thanP_concat _ _ N0)).
    destruct (newest k s (level_entries l0) None) as [a|]; cbn [group_res].
    { pose proof (res_nonmiss a). destruct (res_of p a); congruence. }
    apply deep_get_newest; assumption.
  Qed.

  (* the API-level corollary: Get = the specification map lookup *)
  Corollary get_refines_spec st k s : wf_state st ->
    api_of (lsm_get c p st k s) = spec_get c p st k s.
  Proof. intros H. unfold spec_get. rewrite (get_correct st k s H). reflexivity. Qed.
End Proofs.
