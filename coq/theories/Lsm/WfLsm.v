(* Lsm/WfLsm.v — the invariant of the step theorems (property C06) in per-level form, that it implies the read-path
   invariant LsmProofs.wf_state, and that the boolean Pick.wf_lsmb (evaluated inside Coq on the versions the running
   code installs) implies it. *)
From GL Require Import Base.Order Base.BytesProofs Base.OrderProofs Codec.IKey Codec.IKeyProofs Lsm.Lsm Lsm.Compact
  Lsm.LsmProofs Lsm.CompactProofs Lsm.History Lsm.HistoryProofs Lsm.ReorgProofs Lsm.WfProofs Lsm.CertProofs
  Lsm.OutputProofs Lsm.Pick Lsm.PickBase.
From Coq Require Import Arith Lia Permutation.

Local Open Scope nat_scope.

Notation LE := LsmProofs.level_entries.

(* ---- lists ---- *)
Lemma nodup_app_iff {A} (a b : list A) : NoDup (a ++ b) <-> NoDup a /\ NoDup b /\ (forall x, In x a -> ~ In x b).
Proof.
  induction a as [|x a IH]; cbn [app].
  - split; [intros H; repeat split; [constructor|exact H|intros x []]|intros [_ [H _]]; exact H].
  - rewrite !NoDup_cons_iff, IH, in_app_iff. split.
    + intros [N [Ha [Hb D]]]. repeat split; try tauto.
      intros y [<-|Hy]; [tauto|apply D; exact Hy].
    + intros [[N Ha] [Hb D]]. repeat split; try tauto.
      * intros [H|H]; [tauto|]. apply (D x); [left; reflexivity|exact H].
      * intros y Hy. apply D. right; exact Hy.
Qed.

Lemma LE_app a b : LE (a ++ b) = LE a ++ LE b.
Proof. unfold LE. rewrite map_app, concat_app. reflexivity. Qed.

Lemma LE_in ts x : In x (LE ts) <-> exists t, In t ts /\ In x (t_entries t).
Proof.
  unfold LE. rewrite in_concat. split.
  - intros [l [Hl Hx]]. apply in_map_iff in Hl as [t [<- Ht]]. exists t. split; assumption.
  - intros [t [Ht Hx]]. exists (t_entries t). split; [apply in_map; exact Ht|exact Hx].
Qed.

Lemma uniq_app a b : uniq (a ++ b) <-> uniq a /\ uniq b /\ (forall x y, In x a -> In y b -> keyseq x <> keyseq y).
Proof.
  unfold uniq. rewrite map_app, nodup_app_iff. split; intros [H1 [H2 H3]]; repeat split; try assumption.
  - intros x y Hx Hy E. apply (H3 (keyseq x)); [apply in_map; exact Hx|rewrite E; apply in_map; exact Hy].
  - intros k Ha Hb. apply in_map_iff in Ha as [x [<- Hx]]. apply in_map_iff in Hb as [y [E Hy]].
    apply (H3 x y Hx Hy). congruence.
Qed.

Lemma uniq_inj l a b : uniq l -> In a l -> In b l -> e_uk a = e_uk b -> e_seq a = e_seq b -> a = b.
Proof.
  intros U Ha Hb Hu Hs. apply (NoDup_map_inj keyseq l a b U Ha Hb). unfold keyseq. congruence.
Qed.

Lemma uniq_filter f ts : uniq (LE ts) -> uniq (LE (filter f ts)).
Proof.
  induction ts as [|t ts IH]; [auto|]. unfold LE in *. cbn [map concat filter]. intros H.
  apply uniq_app in H as [H1 [H2 H3]]. destruct (f t); [|apply IH; exact H2].
  cbn [map concat]. apply uniq_app. split; [exact H1|]. split; [apply IH; exact H2|].
  intros x y Hx Hy. apply H3; [exact Hx|].
  apply LE_in in Hy as [t' [Ht' Hy]]. apply LE_in. exists t'. split; [|exact Hy]. apply filter_In in Ht'. apply Ht'.
Qed.

(* two different members of a list of tables whose entries are unique do not share (user key, seq) *)
Lemma uniq_members ts s t x y : uniq (LE ts) -> In s ts -> In t ts -> s <> t ->
  In x (t_entries s) -> In y (t_entries t) -> keyseq x <> keyseq y.
Proof.
  induction ts as [|u ts IH]; intros U Hs Ht Hne Hx Hy; [destruct Hs|].
  unfold LE in U. cbn [map concat] in U. apply uniq_app in U as [U1 [U2 U3]].
  destruct Hs as [->|Hs]; destruct Ht as [->|Ht].
  - congruence.
  - apply U3; [exact Hx|]. apply LE_in. exists t. split; assumption.
  - intros E. apply (U3 y x); [exact Hy| |symmetry; exact E]. apply LE_in. exists s. split; assumption.
  - apply (IH U2 Hs Ht Hne Hx Hy).
Qed.

Lemma uniq_sub ts l : NoDup ts -> incl ts l -> uniq (LE l) -> uniq (LE ts).
Proof.
  induction ts as [|t ts IH]; intros N I U; [constructor|].
  apply NoDup_cons_iff in N as [N1 N2]. unfold LE. cbn [map concat]. apply uniq_app.
  assert (Ht : In t l) by (apply I; left; reflexivity).
  split.
  - clear -U Ht. induction l as [|u l IHl]; [destruct Ht|]. unfold LE in U. cbn [map concat] in U.
    apply uniq_app in U as [U1 [U2 _]]. destruct Ht as [->|Ht]; [exact U1|apply IHl; assumption].
  - split; [apply IH; [exact N2|intros u Hu; apply I; right; exact Hu|exact U]|].
    intros x y Hx Hy. apply LE_in in Hy as [t' [Ht' Hy]].
    apply (uniq_members l t t' x y U Ht); [apply I; right; exact Ht'| |exact Hx|exact Hy].
    intros ->. contradiction.
Qed.

Section Inv.
  Variable c : comparer.
  Hypothesis ok : comparer_ok c.
  Variable p : kparams.
  Hypothesis pok : kparams_ok p.

  Definition lv (v : list (list table)) (i : nat) : list table := nth i v [].

  Fixpoint nums_sorted (l : list table) : Prop :=
    match l with
    | [] => True
    | a :: r => Forall (fun b => (t_num b < t_num a)%N) r /\ nums_sorted r
    end.

  (* The invariant: every table non-empty, strictly ordered, valid kinds; in every level no two entries share user key
     and sequence number; level 0 ordered by strictly descending file number; every deeper level ordered with pairwise
     disjoint user-key ranges; for one user key every entry of a shallower level is newer than every entry of a deeper
     level; live tables have pairwise different numbers. *)
  Record wf_lsm (v : list (list table)) : Prop := {
    wl_tbl : forall i t, In t (lv v i) -> tbl_ok c p t;
    wl_uniq : forall i, uniq (LE (lv v i));
    wl_l0n : nums_sorted (lv v 0);
    wl_deep : forall i, 0 < i -> level_sorted c (lv v i);
    wl_chain : forall i j, i < j -> newer_thanP (LE (lv v i)) (LE (lv v j));
    wl_nums : forall i j t t', In t (lv v i) -> In t' (lv v j) -> t_num t = t_num t' -> i = j /\ t = t'
  }.

  (* ---- it implies the invariant of the read path ---- *)
  Lemma chain_of_nth (v : list (list table)) :
    (forall i j, i < j -> newer_thanP (LE (lv v i)) (LE (lv v j))) -> chain_newer (map LE v).
  Proof.
    induction v as [|l v IH]; intros H; [exact I|]. cbn [map chain_newer]. split.
    - rewrite Forall_forall. intros y Hy. apply in_map_iff in Hy as [l' [<- Hl']].
      destruct (In_nth _ _ [] Hl') as [j [Hj E]]. specialize (H 0 (S j) ltac:(lia)).
      unfold lv in H. cbn [nth] in H. rewrite E in H. exact H.
    - apply IH. intros i j Hij. apply (H (S i) (S j)). lia.
  Qed.

  Theorem wf_lsm_wf_state v : wf_lsm v ->
    wf_state c p {| st_mem := []; st_frozen := []; st_aux := []; st_levels := v |}.
  Proof.
    intros W. constructor; cbn [st_mem st_frozen st_aux st_levels].
    - split; [exact I|constructor].
    - split; [exact I|constructor].
    - split; [constructor|constructor].
    - assert (E : hd [] v = lv v 0) by (destruct v; reflexivity). rewrite E. split; [|apply (wl_uniq v W)].
      apply Forall_forall. intros t Ht. apply (wl_tbl v W 0 t Ht).
    - rewrite Forall_forall. intros l Hl. destruct (In_nth _ _ [] Hl) as [j [Hj E]].
      assert (E2 : l = lv v (S j)) by (unfold lv; destruct v; [destruct Hl|cbn [nth tl] in *; congruence]).
      rewrite E2. split; [|apply (wl_deep v W); lia].
      apply Forall_forall. intros t Ht. apply (wl_tbl v W (S j) t Ht).
    - unfold comps; cbn [st_mem st_frozen st_aux st_levels chain_newer].
      assert (E : forall l : list (list entry), Forall (fun y => newer_thanP [] y) l).
      { intros l. rewrite Forall_forall. intros y _ a b []. }
      split; [apply E|]. split; [apply E|]. split; [apply E|]. apply chain_of_nth. apply (wl_chain v W).
  Qed.

  (* ---- the boolean implies it ---- *)
  Lemma nums_desc_sorted l : nums_desc l = true -> nums_sorted l.
  Proof.
    induction l as [|a l IH]; intros H; [exact I|]. destruct l as [|b l']; [split; [constructor|exact I]|].
    cbn [nums_desc] in H. apply andb_prop in H as [H1 H2]. specialize (IH H2). split; [|exact IH].
    apply N.ltb_lt in H1. constructor; [exact H1|]. destruct IH as [Hall _].
    rewrite Forall_forall in *. intros x Hx. specialize (Hall x Hx). lia.
  Qed.

  Lemma levels_newer_nth v : levels_newer c v = true ->
    forall i j, i < j -> newer_thanP (LE (lv v i)) (LE (lv v j)).
  Proof.
    induction v as [|l v IH]; intros H i j Hij.
    - unfold lv. rewrite !nth_overflow by (cbn; lia). intros a b [].
    - cbn [levels_newer] in H. apply andb_prop in H as [H1 H2].
      destruct j as [|j]; [lia|]. destruct i as [|i].
      + unfold lv. cbn [nth]. destruct (Nat.lt_ge_cases j (length v)) as [Q|Q].
        * rewrite forallb_forall in H1. apply (newer_than_P c ok). apply H1. apply nth_In. exact Q.
        * rewrite (nth_overflow v [] Q). intros a b _ [].
      + apply (IH H2 i j). lia.
  Qed.

  Lemma nodupN_NoDup l : nodupN l = true -> NoDup l.
  Proof.
    induction l as [|a l IH]; intros H; [constructor|]. cbn [nodupN] in H. apply andb_prop in H as [H1 H2].
    constructor; [|apply IH; exact H2]. intros Ha. apply Bool.negb_true_iff in H1.
    unfold memN in H1. assert (existsb (N.eqb a) l = true); [|congruence].
    apply existsb_exists. exists a. split; [exact Ha|apply N.eqb_refl].
  Qed.

  Lemma nodup_concat_levels {A} (ls : list (list A)) i j x :
    NoDup (concat ls) -> In x (nth i ls []) -> In x (nth j ls []) -> i = j.
  Proof.
    revert i j; induction ls as [|l ls IH]; intros i j N Hi Hj; [destruct i; destruct Hi|].
    cbn [concat] in N. apply nodup_app_iff in N as [N1 [N2 N3]].
    destruct i as [|i]; destruct j as [|j]; cbn [nth] in *; [reflexivity| | |f_equal; apply (IH i j N2 Hi Hj)].
    - exfalso. apply (N3 x Hi). apply in_concat. exists (nth j ls []). split; [|exact Hj].
      destruct (Nat.lt_ge_cases j (length ls)) as [Q|Q]; [apply nth_In; exact Q|].
      rewrite (nth_overflow ls [] Q) in Hj. destruct Hj.
    - exfalso. apply (N3 x Hj). apply in_concat. exists (nth i ls []). split; [|exact Hi].
      destruct (Nat.lt_ge_cases i (length ls)) as [Q|Q]; [apply nth_In; exact Q|].
      rewrite (nth_overflow ls [] Q) in Hi. destruct Hi.
  Qed.

  Lemma nodup_concat_level {A} (ls : list (list A)) i : NoDup (concat ls) -> NoDup (nth i ls []).
  Proof.
    revert i; induction ls as [|l ls IH]; intros i N; [destruct i; constructor|].
    cbn [concat] in N. apply nodup_app_iff in N as [N1 [N2 _]].
    destruct i as [|i]; cbn [nth]; [exact N1|apply IH; exact N2].
  Qed.

  Lemma in_level_concat (v : list (list table)) i t : In t (lv v i) -> In t (concat v).
  Proof.
    intros H. apply in_concat. exists (lv v i). split; [|exact H]. unfold lv in *.
    destruct (Nat.lt_ge_cases i (length v)) as [Q|Q]; [apply nth_In; exact Q|].
    rewrite (nth_overflow v [] Q) in H. destruct H.
  Qed.

  Theorem wf_lsmb_sound v : wf_lsmb c p v = true -> wf_lsm v.
  Proof.
    unfold wf_lsmb, wf_versionb, wf_extrab. intros H. apply andb_prop in H as [H X].
    apply andb_prop in H as [H H3]. apply andb_prop in H as [H1 H2]. apply andb_prop in X as [X1 X2].
    assert (T : forall i t, In t (lv v i) -> tbl_ok c p t).
    { intros i t Ht. rewrite forallb_forall in H1. apply (table_okb_ok c ok p). apply H1.
      apply (in_level_concat v i). exact Ht. }
    constructor.
    - exact T.
    - intros i. unfold lv. destruct (Nat.lt_ge_cases i (length v)) as [Q|Q].
      + rewrite forallb_forall in X1. apply uniqb_nodup. apply X1. apply nth_In. exact Q.
      + rewrite (nth_overflow v [] Q). constructor.
    - destruct v as [|l0 rest]; [exact I|]. apply andb_prop in H2 as [H2 _]. apply andb_prop in H2 as [H2 _].
      apply nums_desc_sorted. exact H2.
    - intros i Hi. destruct v as [|l0 rest]; [unfold lv; rewrite nth_overflow by (cbn; lia); exact I|].
      apply andb_prop in H2 as [_ H2]. destruct i as [|i]; [lia|]. unfold lv. cbn [nth].
      destruct (Nat.lt_ge_cases i (length rest)) as [Q|Q]; [|rewrite (nth_overflow rest [] Q); exact I].
      rewrite forallb_forall in H2.
      apply (level_disjoint_sorted c ok p).
      + apply Forall_forall. intros t Ht. apply (T (S i) t). exact Ht.
      + intros t Ht. apply (T (S i) t). exact Ht.
      + apply H2. apply nth_In. exact Q.
    - apply levels_newer_nth. exact H3.
    - intros i j t t' Ht Ht' E. apply nodupN_NoDup in X2.
      assert (Hi : In (t_num t) (nth i (map nums_of v) [])).
      { change [] with (nums_of []). rewrite map_nth. apply in_map. exact Ht. }
      assert (Hj : In (t_num t) (nth j (map nums_of v) [])).
      { change [] with (nums_of []). rewrite map_nth, E. apply in_map. exact Ht'. }
      pose proof (nodup_concat_levels _ i j _ X2 Hi Hj) as ->. split; [reflexivity|].
      pose proof (nodup_concat_level _ j X2) as ND. change [] with (nums_of []) in ND. rewrite map_nth in ND.
      apply (NoDup_map_inj t_num (nth j v []) t t' ND Ht Ht' E).
  Qed.

  (* consequences *)
  Lemma wf_uniq_global v i j a b : wf_lsm v -> In a (LE (lv v i)) -> In b (LE (lv v j)) ->
    e_uk a = e_uk b -> e_seq a = e_seq b -> a = b.
  Proof.
    intros W Ha Hb Hu Hs. destruct (Nat.lt_trichotomy i j) as [Q|[->|Q]].
    - pose proof (wl_chain v W i j Q a b Ha Hb Hu). lia.
    - apply (uniq_inj (LE (lv v j)) a b (wl_uniq v W j) Ha Hb Hu Hs).
    - pose proof (wl_chain v W j i Q b a Hb Ha (eq_sym Hu)). lia.
  Qed.

  (* two tables of one level that share a user key are the same table, for levels >= 1 *)
  Lemma level_sorted_share ts s t x y : level_sorted c ts -> In s ts -> In t ts ->
    In x (t_entries s) -> In y (t_entries t) -> e_uk x = e_uk y -> s = t.
  Proof.
    intros Hs Hi Hj Hx Hy Hu.
    apply (in_nth_ex no_table) in Hi as [i [Hi <-]]. apply (in_nth_ex no_table) in Hj as [j [Hj <-]].
    destruct (Nat.lt_trichotomy i j) as [Q|[->|Q]]; [|reflexivity|].
    - pose proof (level_sorted_pair c ts i j Hs Q Hj x y Hx Hy) as L. rewrite Hu, (cmp_refl c ok) in L. discriminate.
    - pose proof (level_sorted_pair c ts j i Hs Q Hi y x Hy Hx) as L. rewrite Hu, (cmp_refl c ok) in L. discriminate.
  Qed.
End Inv.
