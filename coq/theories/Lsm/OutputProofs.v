(* Lsm/OutputProofs.v — the tables written by a compaction form a well-formed run: each is sorted, and
   since the builder only cuts between different user keys no user key spans two of them (C06). *)
From GL Require Import Base.Order Base.OrderProofs Codec.IKey Codec.IKeyProofs Lsm.Lsm Lsm.Compact Lsm.LsmProofs.
From Coq Require Import ZArith Lia.

Section Proofs.
  Variable c : comparer.
  Hypothesis ok : comparer_ok c.

  Notation ssorted := (ssorted c).

  Lemma ssorted_app_l l1 l2 : ssorted (l1 ++ l2) -> ssorted l1.
  Proof.
    induction l1 as [|a l1 IH]; cbn [app LsmProofs.ssorted]; [intros; exact I|].
    intros [Hall Hs]. split; [|apply IH; exact Hs].
    rewrite Forall_forall in *. intros x Hx. apply Hall. apply in_or_app. left; exact Hx.
  Qed.

  Lemma ssorted_app_r l1 l2 : ssorted (l1 ++ l2) -> ssorted l2.
  Proof. induction l1 as [|a l1 IH]; cbn [app LsmProofs.ssorted]; [auto|]. intros [_ Hs]. apply IH; exact Hs. Qed.

  Lemma ssorted_app_cross l1 l2 x y : ssorted (l1 ++ l2) -> In x l1 -> In y l2 -> ecmp c x y = Lt.
  Proof.
    induction l1 as [|a l1 IH]; intros Hs Hx Hy; [destruct Hx|].
    cbn [app LsmProofs.ssorted] in Hs. destruct Hs as [Hall Hs]. destruct Hx as [->|Hx].
    - rewrite Forall_forall in Hall. apply Hall. apply in_or_app. right; exact Hy.
    - apply IH; assumption.
  Qed.

  Definition mk_tables (outs : list (list entry)) : list table :=
    map (fun es => {| t_num := 0; t_entries := es |}) outs.

  Lemma uk_le_of_sorted l x y : ssorted l -> In x l -> In y l -> x = y \/ ecmp c x y = Lt \/ ecmp c y x = Lt.
  Proof.
    induction l as [|a l IH]; intros Hs Hx Hy; [destruct Hx|].
    destruct Hs as [Hall Hs]. rewrite Forall_forall in Hall.
    destruct Hx as [->|Hx]; destruct Hy as [->|Hy]; auto.
  Qed.

  (* every output table is sorted, and for two different output tables every user key of the earlier one
     is strictly smaller than every user key of the later one *)
  Theorem outputs_well_formed outs : cuts_ok c outs = true -> ssorted (concat outs) ->
    Forall (fun es => ssorted es /\ es <> []) outs /\ level_sorted c (mk_tables outs).
  Proof.
    induction outs as [|o rest IH]; intros Hc Hs; [split; [constructor|exact I]|].
    cbn [cuts_ok] in Hc. apply andb_prop in Hc as [Hc Hc3]. apply andb_prop in Hc as [Hc1 Hc2].
    cbn [concat] in Hs.
    destruct (IH Hc3 (ssorted_app_r _ _ Hs)) as [IH1 IH2].
    assert (Hne : o <> []) by (destruct o; [discriminate|discriminate]).
    split; [constructor; [split; [eapply ssorted_app_l; eauto|exact Hne]|exact IH1]|].
    cbn [mk_tables map level_sorted]. split; [|exact IH2].
    rewrite Forall_forall. intros t' Ht' x y Hx Hy. cbn [t_entries] in Hx.
    apply in_map_iff in Ht' as [es [<- Hes]]. cbn [t_entries] in Hy.
    (* the first entry of the next table has a user key different from the last entry of o *)
    destruct rest as [|o2 rest']; [destruct Hes|].
    destruct (last (map Some o) None) as [la|] eqn:LA; [|discriminate].
    destruct (hd_error o2) as [fb|] eqn:FB; [|discriminate].
    assert (Hla : In la o) by (apply last_some_in; exact LA).
    assert (Hfb : In fb o2) by (destruct o2; [discriminate|injection FB as ->; left; reflexivity]).
    assert (Hy' : In y (concat (o2 :: rest'))) by (apply in_concat; exists es; split; assumption).
    assert (Hfb' : In fb (concat (o2 :: rest'))) by (cbn [concat]; apply in_or_app; left; exact Hfb).
    (* x <= la *)
    assert (X : cmp c (e_uk x) (e_uk la) <> Gt).
    { destruct (ssorted_last_ge c o x la (ssorted_app_l _ _ Hs) LA Hx) as [->|H].
      - rewrite (cmp_refl c ok). discriminate.
      - apply (after_uk_le c). exact H. }
    (* la < fb strictly in user key *)
    assert (L : cmp c (e_uk la) (e_uk fb) = Lt).
    { pose proof (ssorted_app_cross o _ la fb Hs Hla Hfb') as H. apply (after_uk_le c) in H.
      destruct (cmp c (e_uk la) (e_uk fb)) eqn:E; [discriminate|reflexivity|congruence]. }
    (* fb <= y *)
    assert (Y : cmp c (e_uk fb) (e_uk y) <> Gt).
    { assert (Hs2 : ssorted (concat (o2 :: rest'))) by (eapply ssorted_app_r; eauto).
      destruct o2 as [|f o2']; [discriminate|]. injection FB as ->.
      cbn [concat app] in Hs2, Hy'. destruct Hs2 as [Hall _]. destruct Hy' as [<-|Hy'].
      - rewrite (cmp_refl c ok). discriminate.
      - rewrite Forall_forall in Hall. apply (after_uk_le c). apply Hall. exact Hy'. }
    eapply (OrderProofs.lt_le_trans c ok); [|exact Y]. eapply (OrderProofs.le_lt_trans c ok); [exact X|exact L].
  Qed.
End Proofs.
