(* Lsm/HistoryPreProofs.v — the history theorems for every comparer satisfying the PREORDER contract: the plain map
   (History.a_get/a_apply) is keyed by the comparer's equivalence (a Put of another spelling of a stored user key
   overwrites it; a Delete of any spelling removes it), and every read of any spelling of the key at the current
   sequence number (or at a live snapshot's) returns what that map returns.
   history_correct (HistoryProofs.v) never used the comparer contract; only the map side did. *)
From GL Require Import Base.Order Base.OrderProofs Base.OrderPre Codec.IKey Lsm.Lsm Lsm.Compact
  Lsm.LsmProofs Lsm.CompactProofs Lsm.History Lsm.HistoryProofs.
From Coq Require Import ZArith Lia ZifyN ZifyNat ZifyBool.

Section Proofs.
  Variable c : comparer.
  Hypothesis ok : comparer_pre_ok c.
  Variable p : kparams.

  Notation newest := (newest c).
  Notation res := (History.res p).

  Lemma a_remove_compat k k' m : cmp c k k' = Eq -> a_remove c k m = a_remove c k' m.
  Proof.
    intros H. induction m as [|[k2 v] m IH]; cbn [a_remove]; [reflexivity|].
    rewrite (pcmp_eq_r c ok k k' k2 H), IH. reflexivity.
  Qed.

  Lemma a_get_compat k k' m : cmp c k k' = Eq -> a_get c k m = a_get c k' m.
  Proof.
    intros H. induction m as [|[k2 v] m IH]; cbn [a_get]; [reflexivity|].
    rewrite (pcmp_eq_r c ok k k' k2 H), IH. reflexivity.
  Qed.

  Lemma pa_get_remove_other k k' m : cmp c k' k <> Eq -> a_get c k (a_remove c k' m) = a_get c k m.
  Proof.
    intros Hne. induction m as [|[k2 v] m IH]; cbn [a_remove a_get]; [reflexivity|].
    destruct (cmp c k2 k') eqn:E.
    - rewrite (pcmp_eq_l c ok k2 k' k E).
      destruct (cmp c k' k) eqn:E2; [congruence|exact IH|exact IH].
    - cbn [a_get]. destruct (cmp c k2 k); [reflexivity|exact IH|exact IH].
    - cbn [a_get]. destruct (cmp c k2 k); [reflexivity|exact IH|exact IH].
  Qed.

  Lemma pa_get_apply k m r :
    a_get c k (a_apply c p m r) =
    match r with (kd, k', v) =>
      match cmp c k' k with
      | Eq => if kd =? keyTypeDel p then None else Some v
      | _ => a_get c k m
      end
    end.
  Proof.
    destruct r as [[kd k'] v]. unfold a_apply.
    destruct (cmp c k' k) eqn:E.
    - destruct (kd =? keyTypeDel p).
      + rewrite (a_remove_compat k' k m E). apply a_get_remove_same.
      + cbn [a_get]. rewrite E. reflexivity.
    - assert (cmp c k' k <> Eq) by congruence.
      destruct (kd =? keyTypeDel p); [apply pa_get_remove_other; assumption|].
      cbn [a_get]. rewrite E. apply pa_get_remove_other; assumption.
    - assert (cmp c k' k <> Eq) by congruence.
      destruct (kd =? keyTypeDel p); [apply pa_get_remove_other; assumption|].
      cbn [a_get]. rewrite E. apply pa_get_remove_other; assumption.
  Qed.

  Lemma phist_recs k : forall recs seq l m,
    (forall x, In x l -> e_seq x <= seq) ->
    res (newest k seq l None) = a_get c k m ->
    res (newest k (seq + N.of_nat (length recs)) (l ++ stamp seq recs) None) = a_get c k (fold_left (a_apply c p) recs m).
  Proof.
    induction recs as [|[[kd k'] v] recs IH]; intros seq l m Hl Hm.
    - cbn [length stamp fold_left]. rewrite app_nil_r. replace (seq + N.of_nat 0) with seq by lia. exact Hm.
    - cbn [length stamp fold_left].
      replace (seq + N.of_nat (S (length recs))) with ((seq + 1) + N.of_nat (length recs)) by lia.
      replace (l ++ {| e_uk := k'; e_seq := seq + 1; e_kind := kd; e_val := v |} :: stamp (seq + 1) recs)
        with ((l ++ [{| e_uk := k'; e_seq := seq + 1; e_kind := kd; e_val := v |}]) ++ stamp (seq + 1) recs)
        by (rewrite <- app_assoc; reflexivity).
      apply IH.
      + intros x Hx. apply in_app_or in Hx as [Hx|[<-|[]]]; [specialize (Hl x Hx); lia|cbn; lia].
      + rewrite (newest_snoc c k seq l {| e_uk := k'; e_seq := seq + 1; e_kind := kd; e_val := v |} Hl eq_refl). cbn [e_uk].
        rewrite (pa_get_apply k m (kd, k', v)).
        destruct (cmp c k' k); [|exact Hm|exact Hm].
        unfold History.res. cbn [group_res]. unfold res_of. cbn [e_kind e_val].
        destruct (kd =? keyTypeDel p); reflexivity.
  Qed.

  Lemma phist_is_map_from ops : forall h m, hbound h ->
    (forall k, res (newest k (h_seq h) (h_hist h) None) = a_get c k m) ->
    forall k, res (newest k (h_seq (fold_left hstep ops h)) (h_hist (fold_left hstep ops h)) None) =
              a_get c k (fold_left (map_step c p) ops m).
  Proof.
    induction ops as [|o ops IH]; intros h m Hb Hm k; cbn [fold_left]; [apply Hm|].
    apply IH; [apply hbound_step; exact Hb|].
    intros k'. destruct o as [recs| |i|s']; cbn [hstep map_step h_seq h_hist]; try apply Hm.
    apply phist_recs; [exact Hb|apply Hm].
  Qed.

  Theorem hist_is_map_pre ops k :
    hist_get c p (hrun ops) k (h_seq (hrun ops)) = a_get c k (map_of c p ops).
  Proof.
    unfold hist_get, hrun, map_of. apply (phist_is_map_from ops h_init []).
    - intros x [].
    - intros k'. reflexivity.
  Qed.

  (* C01 at the level of histories, preorder comparers: every Get at the current sequence number returns what the
     class-keyed plain map returns, whatever writes, snapshots and admissible reorganisations happened. *)
  Theorem get_is_map_pre ops k : hops_ok c p h_init ops ->
    store_get c p (hrun ops) k (h_seq (hrun ops)) = a_get c k (map_of c p ops).
  Proof.
    intros Hok. rewrite (history_correct c p ops Hok k _ (or_introl eq_refl)). apply hist_is_map_pre.
  Qed.

  (* ... and any two spellings of one user key read the same *)
  Corollary get_is_map_spelling ops k k' : hops_ok c p h_init ops -> cmp c k k' = Eq ->
    store_get c p (hrun ops) k (h_seq (hrun ops)) = store_get c p (hrun ops) k' (h_seq (hrun ops)).
  Proof. intros Hok H. rewrite !get_is_map_pre by exact Hok. apply a_get_compat. exact H. Qed.

  (* C03, preorder comparers: a live snapshot keeps returning the contents of the instant it was taken *)
  Theorem snapshot_stable_pre ops1 ops2 k : let h1 := hrun ops1 in let s := h_seq h1 in
    hops_ok c p h_init (ops1 ++ ops2) ->
    In s (h_snaps (hrun (ops1 ++ ops2))) ->
    store_get c p (hrun (ops1 ++ ops2)) k s = a_get c k (map_of c p ops1).
  Proof.
    intros h1 s Hok Hlive.
    rewrite (history_correct c p (ops1 ++ ops2) Hok k s (or_intror Hlive)).
    unfold hrun. rewrite fold_left_app. fold (hrun ops1). fold h1.
    rewrite (hist_get_stable c p ops2 h1 k s) by (unfold s; lia).
    apply hist_is_map_pre.
  Qed.
End Proofs.
