(* Lsm/History.v — L1, layout-free: the history of a DB as a collection of stored entries that writes
   extend and that background work (flush, rotation, trivial move, compaction) reorganises; and the plain
   map the property compares it with.  Model file: definitions only. *)
From GL Require Export Lsm.Lsm Lsm.Compact.

Section WithComparer.
  Variable c : comparer.
  Variable p : kparams.

  Record hstate := {
    h_seq : N;                 (* db.seq *)
    h_store : list entry;      (* every entry held in buffers and live tables *)
    h_snaps : list N;          (* sequence numbers of live snapshots *)
    h_hist : list entry        (* ghost: every entry ever written, in write order *)
  }.

  Definition h_init : hstate := {| h_seq := 0; h_store := []; h_snaps := []; h_hist := [] |}.

  (* a write record: kind (keyTypeDel / keyTypeVal), key, value *)
  Definition wrec := (N * bytes * bytes)%type.

  Fixpoint stamp (seq : N) (recs : list wrec) : list entry :=
    match recs with
    | [] => []
    | (kd, k, v) :: rest =>
        {| e_uk := k; e_seq := seq + 1; e_kind := kd; e_val := v |} :: stamp (seq + 1) rest
    end.

  Inductive hop :=
  | HWrite (recs : list wrec)        (* Put / Delete / Write(batch) / transaction commit *)
  | HSnap                            (* GetSnapshot *)
  | HRelease (i : nat)               (* Snapshot.Release of the i-th live snapshot *)
  | HReorg (store' : list entry).    (* flush, rotation, trivial move, table compaction *)

  Fixpoint remove_nth {A} (i : nat) (l : list A) : list A :=
    match i, l with
    | _, [] => []
    | O, _ :: l' => l'
    | S i', x :: l' => x :: remove_nth i' l'
    end.

  Definition hstep (h : hstate) (o : hop) : hstate :=
    match o with
    | HWrite recs =>
        let es := stamp (h_seq h) recs in
        {| h_seq := h_seq h + N.of_nat (length recs); h_store := h_store h ++ es;
           h_snaps := h_snaps h; h_hist := h_hist h ++ es |}
    | HSnap => {| h_seq := h_seq h; h_store := h_store h; h_snaps := h_snaps h ++ [h_seq h]; h_hist := h_hist h |}
    | HRelease i => {| h_seq := h_seq h; h_store := h_store h; h_snaps := remove_nth i (h_snaps h); h_hist := h_hist h |}
    | HReorg s' => {| h_seq := h_seq h; h_store := s'; h_snaps := h_snaps h; h_hist := h_hist h |}
    end.

  Definition hrun (ops : list hop) : hstate := fold_left hstep ops h_init.

  (* sequence numbers a reader may hold: the live snapshots and the current one *)
  Definition protected (h : hstate) (s : N) : Prop := s = h_seq h \/ In s (h_snaps h).

  Definition res (z : option entry) : option bytes := api_of (group_res p z).

  (* what a read of k at s must return, judged on all entries ever written *)
  Definition hist_get (h : hstate) (k : bytes) (s : N) : option bytes := res (newest c k s (h_hist h) None).
  (* what the stored collection answers *)
  Definition store_get (h : hstate) (k : bytes) (s : N) : option bytes := res (newest c k s (h_store h) None).

  (* ---- the plain map ---- *)
  Definition amap := list (bytes * bytes).
  Fixpoint a_remove (k : bytes) (m : amap) : amap :=
    match m with
    | [] => []
    | (k', v) :: m' => match cmp c k' k with Eq => a_remove k m' | _ => (k', v) :: a_remove k m' end
    end.
  Fixpoint a_get (k : bytes) (m : amap) : option bytes :=
    match m with
    | [] => None
    | (k', v) :: m' => match cmp c k' k with Eq => Some v | _ => a_get k m' end
    end.
  Definition a_apply (m : amap) (r : wrec) : amap :=
    match r with (kd, k, v) => if kd =? keyTypeDel p then a_remove k m else (k, v) :: a_remove k m end.
  Definition map_of (ops : list hop) : amap :=
    fold_left (fun m o => match o with HWrite recs => fold_left a_apply recs m | _ => m end) ops [].

  (* ---- what a reorganisation must satisfy (proved for the code's compaction in HistoryProofs.v) ---- *)
  Definition reorg_ok (h : hstate) (s' : list entry) : Prop :=
    (forall x, In x s' -> In x (h_store h)) /\
    (forall k s, protected h s ->
                 res (newest c k s s' None) = res (newest c k s (h_store h) None)).

  Definition hop_ok (h : hstate) (o : hop) : Prop :=
    match o with
    | HReorg s' => reorg_ok h s'
    | HWrite recs => Forall (fun r => fst (fst r) <= keyTypeSeek p) recs
    | _ => True
    end.

  Fixpoint hops_ok (h : hstate) (ops : list hop) : Prop :=
    match ops with
    | [] => True
    | o :: rest => hop_ok h o /\ hops_ok (hstep h o) rest
    end.
End WithComparer.
