(* Lsm/ModelStep.v — property C06 for the compaction the model of goleveldb's own picker builds (Pick.new_compaction):
   on a well-formed version, for every level and every seed, the chosen inputs are closed and admissible, installing
   the outputs (chunks of the kept merged entries cut at user-key boundaries) or moving the single input table keeps the
   invariant, and the entry-level hypotheses of ReorgProofs.compaction_preserves hold. *)
From GL Require Import Base.Order Base.OrderProofs Codec.IKey Codec.IKeyProofs Lsm.Lsm Lsm.Compact Lsm.LsmProofs
  Lsm.CompactProofs Lsm.History Lsm.HistoryProofs Lsm.ReorgProofs Lsm.WfProofs Lsm.CertProofs Lsm.OutputProofs
  Lsm.Pick Lsm.PickBase Lsm.OverlapProofs Lsm.ExpandProofs Lsm.WfLsm Lsm.FinishProofs Lsm.InsertProofs Lsm.StepProofs.
From Coq Require Import Arith Lia Permutation.

Local Open Scope nat_scope.

Lemma uniq_nodup_tables l : (forall t, In t l -> t_entries t <> []) -> uniq (LE l) -> NoDup l.
Proof.
  induction l as [|t l IH]; intros Hne U; [constructor|].
  unfold LE in U. cbn [map concat] in U. apply uniq_app in U as [_ [U2 U3]].
  constructor; [|apply IH; [intros u Hu; apply Hne; right; exact Hu|exact U2]].
  intros Hin. destruct (t_entries t) as [|x xs] eqn:E; [apply (Hne t (or_introl eq_refl) E)|].
  apply (U3 x x); [left; reflexivity| |reflexivity]. apply LE_in. exists t. split; [exact Hin|rewrite E; left; reflexivity].
Qed.

(* a strictly ordered list whose (key, seq) pairs determine the entry has no two entries with the same (key, seq) *)
Lemma ssorted_uniq c (ok : comparer_ok c) l : ssorted c l -> uniq_in l -> uniq l.
Proof.
  induction l as [|a l IH]; intros Hs Hu; [constructor|]. destruct Hs as [Hall Hs]. unfold uniq. cbn [map].
  constructor.
  - intros Hin. apply in_map_iff in Hin as [b [E Hb]]. unfold keyseq in E. injection E as E1 E2.
    assert (a = b) by (apply Hu; [left; reflexivity|right; exact Hb|congruence|congruence]). subst b.
    rewrite Forall_forall in Hall. specialize (Hall a Hb). unfold ecmp in Hall.
    apply (icmp_irrefl c ok _ Hall).
  - apply IH; [exact Hs|]. intros x y Hx Hy. apply Hu; right; assumption.
Qed.

Lemma level_sorted_entries c a b : map t_entries a = map t_entries b -> level_sorted c a -> level_sorted c b.
Proof.
  revert b; induction a as [|x a IH]; intros b E H; destruct b as [|y b]; try discriminate; [exact I|].
  cbn [map] in E. injection E as E1 E2. destruct H as [Hall H]. split; [|apply IH; assumption].
  rewrite Forall_forall in *. intros t' Ht'. rewrite <- E1.
  destruct (In_nth _ _ no_table Ht') as [i [Hi Ei]].
  assert (Hl : length a = length b) by (rewrite <- (map_length t_entries a), E2, map_length; reflexivity).
  assert (Et : t_entries (nth i a no_table) = t_entries t').
  { rewrite <- Ei. change (t_entries (nth i a no_table)) with (t_entries (nth i a no_table)).
    rewrite <- (map_nth t_entries a no_table i), <- (map_nth t_entries b no_table i), E2. reflexivity. }
  rewrite <- Et. apply Hall. apply nth_In. lia.
Qed.

Lemma mk_outputs_entries nums chunks : length nums = length chunks -> map t_entries (mk_outputs nums chunks) = chunks.
Proof.
  revert chunks; induction nums as [|n nums IH]; intros [|o chunks] H; try discriminate; [reflexivity|].
  cbn [mk_outputs map t_entries]. f_equal. apply IH. cbn in H. lia.
Qed.

Lemma mk_outputs_nums nums chunks : length nums = length chunks -> map t_num (mk_outputs nums chunks) = nums.
Proof.
  revert chunks; induction nums as [|n nums IH]; intros [|o chunks] H; try discriminate; [reflexivity|].
  cbn [mk_outputs map t_num]. f_equal. apply IH. cbn in H. lia.
Qed.

Lemma in_concat_lv (v : list (list table)) s : In s (concat v) -> exists j, In s (lv v j).
Proof.
  intros H. apply in_concat in H as [l [Hl Hs]]. destruct (In_nth _ _ [] Hl) as [j [_ E]].
  exists j. unfold lv. rewrite E. exact Hs.
Qed.

Lemma in_lv_skipn (v : list (list table)) k j s : k <= j -> In s (lv v j) -> In s (concat (skipn k v)).
Proof.
  intros Hk Hs. apply in_concat. exists (lv v j). split; [|exact Hs].
  unfold lv in *. destruct (Nat.lt_ge_cases j (length v)) as [Q|Q].
  - apply (in_skipn_nth [] k v). exists j. repeat split; assumption.
  - rewrite (nth_overflow v [] Q) in Hs. destruct Hs.
Qed.

Section Model.
  Variable c : comparer.
  Hypothesis ok : comparer_ok c.
  Variable p : kparams.
  Hypothesis pok : kparams_ok p.
  Variable sz : table -> N.

  Notation wf_lsm := (wf_lsm c p).
  Notation tbl_ok := (tbl_ok c p).
  Notation umin_of := Pick.umin_of.
  Notation umax_of := Pick.umax_of.
  Notation lt := (Order.lt c).
  Notation le := (Order.le c).

  Variable v : list (list table).
  Hypothesis W : wf_lsm v.

  Lemma lv_nodup l : NoDup (lv v l).
  Proof.
    apply uniq_nodup_tables; [|apply (wl_uniq c p v W)]. intros t Ht. apply (wl_tbl c p v W l t Ht).
  Qed.

  Variable lvl : nat.
  Variable limit : N.
  Variable seed : list table.
  Hypothesis seed_ne : seed <> [].
  Hypothesis seed_in : incl seed (lv v lvl).
  Hypothesis seed_nd : NoDup seed.

  (* the model picker terminates without panic and its choice satisfies ExpandProofs.pick_ok *)
  Theorem model_pick : exists cm, new_compaction c sz v lvl limit seed = POk cm /\ pick_ok c v lvl seed cm.
  Proof.
    unfold new_compaction. apply (expand_spec c ok p sz v lvl limit seed); try assumption.
    - intros l t Ht. apply (wl_tbl c p v W l t Ht).
    - intros l Hl. apply (wl_deep c p v W l Hl).
    - intros l. apply lv_nodup.
  Qed.

  Section Picked.
    Variable cm : compaction.
    Hypothesis Pk : pick_ok c v lvl seed cm.

    Let t0 := c_t0 cm.
    Let t1 := c_t1 cm.
    Let I := LE (t0 ++ t1).

    Lemma pk_level : c_level cm = lvl.
    Proof. apply Pk. Qed.

    Lemma pk_seed : incl seed t0.
    Proof. destruct Pk as [_ [fr S]]. apply S. Qed.

    Lemma pk_t0 : incl t0 (lv v lvl).
    Proof. destruct Pk as [_ [fr S]]. apply S. Qed.

    Lemma pk_t1 : incl t1 (lv v (S lvl)).
    Proof. destruct Pk as [_ [fr [_ [_ [_ [_ [_ [_ M]]]]]]]]. intros s Hs. apply M in Hs. apply Hs. Qed.

    Lemma pk_nd0 : NoDup t0.
    Proof. destruct Pk as [_ [fr S]]. apply S. Qed.

    Lemma pk_nd1 : NoDup t1.
    Proof. destruct Pk as [_ [fr S]]. apply S. Qed.

    Lemma pk_t0_ne : t0 <> [].
    Proof.
      intros E. apply seed_ne. apply incl_l_nil. rewrite <- E. exact pk_seed.
    Qed.

    (* the inputs are closed: every table of the next level overlapping the user-key range of any two chosen source
       tables is an input, and for source level 0 so is every such table of level 0 *)
    Theorem inputs_closed_next s ta tb : In s (lv v (S lvl)) -> In ta t0 -> In tb t0 ->
      t_overlaps c s (Some (umin_of ta)) (Some (umax_of tb)) = true -> In s t1.
    Proof.
      destruct Pk as [_ [fr [_ [_ [Cv [_ [_ [_ M]]]]]]]]. intros Hs Ha Hb Ho. apply M. split; [exact Hs|].
      apply (overlaps_wider c ok s _ _ (Some (umin_of ta)) (Some (umax_of tb))); [| |exact Ho]; cbn.
      - apply (Cv ta Ha).
      - apply (Cv tb Hb).
    Qed.

    Theorem inputs_closed_l0 s ta tb : lvl = 0 -> In s (lv v 0) -> In ta t0 -> In tb t0 ->
      t_overlaps c s (Some (umin_of ta)) (Some (umax_of tb)) = true -> In s t0.
    Proof.
      destruct Pk as [_ [fr [_ [_ [_ [Cl _]]]]]]. intros -> Hs Ha Hb Ho. apply (Cl eq_refl s ta tb Hs Ha Hb Ho).
    Qed.

    (* ---- admissibility in the form StepProofs.compaction_step needs ---- *)
    Lemma pk_A1 s t x y : In s (lv v lvl) -> In t t0 -> In x (t_entries s) -> In y (t_entries t) ->
      e_uk x = e_uk y -> In s t0.
    Proof.
      intros Hs Ht Hx Hy Hu. destruct (Nat.eq_dec lvl 0) as [E|E].
      - apply (inputs_closed_l0 s t t E); [rewrite <- E; exact Hs|exact Ht|exact Ht|].
        apply (overlaps_of_key c ok p s x _ _ (wl_tbl c p v W lvl s Hs) Hx). rewrite Hu.
        apply (tbl_bounds c ok p t y (wl_tbl c p v W lvl t (pk_t0 t Ht)) Hy).
      - rewrite (level_sorted_share c ok (lv v lvl) s t x y (wl_deep c p v W lvl ltac:(lia)) Hs (pk_t0 t Ht) Hx Hy Hu).
        exact Ht.
    Qed.

    Lemma pk_A2 s : In s (lv v (S lvl)) -> ~ In s t1 -> sep c s I.
    Proof.
      intros Hs Hn. destruct Pk as [_ [fr [_ [_ [Cv [_ [_ [_ M]]]]]]]].
      set (rlo := uk (fst fr)) in *. set (rhi := uk (snd fr)) in *.
      assert (No : t_overlaps c s (Some rlo) (Some rhi) = false).
      { destruct (t_overlaps c s (Some rlo) (Some rhi)) eqn:E; [|reflexivity]. exfalso. apply Hn. apply M. split; assumption. }
      pose proof (wl_tbl c p v W (S lvl)) as T1.
      pose proof (wl_deep c p v W (S lvl) ltac:(lia)) as Srt.
      pose proof (level_sorted_bsorted c p _ T1 Srt) as Bs.
      apply (in_nth_ex no_table) in Hs as [i [Hi Ei]].
      (* position of an input of the next level relative to s *)
      assert (Pos : forall u, In u t1 -> exists j, j < length (lv v (S lvl)) /\ nth j (lv v (S lvl)) no_table = u /\ j <> i).
      { intros u Hu. pose proof (pk_t1 u Hu) as Hu'. apply (in_nth_ex no_table) in Hu' as [j [Hj Ej]].
        exists j. split; [exact Hj|]. split; [exact Ej|]. intros ->. apply Hn. rewrite <- Ei, Ej. exact Hu. }
      assert (Ts : tbl_ok s) by (apply T1; rewrite <- Ei; apply nth_In; exact Hi).
      unfold t_overlaps in No. apply Bool.andb_false_iff in No as [No|No]; apply Bool.negb_false_iff in No.
      - (* s lies before the range *)
        left. apply (t_after_some c ok) in No. intros x y Hx Hy. unfold I in Hy. rewrite LE_app in Hy.
        destruct (tbl_bounds c ok p s x Ts Hx) as [_ Bx].
        apply in_app_or in Hy as [Hy|Hy]; apply LE_in in Hy as [t [Ht Hy]].
        + destruct (Cv t Ht) as [C1 _]. fold rlo in C1.
          destruct (tbl_bounds c ok p t y (wl_tbl c p v W lvl t (pk_t0 t Ht)) Hy) as [By _].
          eapply (OrderProofs.le_lt_trans c ok); [exact Bx|]. eapply (OrderProofs.lt_le_trans c ok); [exact No|].
          eapply (OrderProofs.le_trans c ok); eassumption.
        + destruct (Pos t Ht) as [j [Hj [Ej Hne]]].
          assert (Ou : t_overlaps c t (Some rlo) (Some rhi) = true) by (apply M; exact Ht).
          unfold t_overlaps in Ou. apply andb_prop in Ou as [Ou _]. apply Bool.negb_true_iff in Ou.
          apply (t_after_false c ok) in Ou.
          destruct (Nat.lt_ge_cases i j) as [Q|Q].
          * rewrite <- Ei in Hx. rewrite <- Ej in Hy. apply (level_sorted_pair c _ i j Srt Q Hj x y Hx Hy).
          * exfalso. assert (Q' : j < i) by lia. pose proof (Bs j i Q' Hi) as B. unfold tnth in B. rewrite Ei, Ej in B.
            apply (OrderProofs.lt_irrefl c ok (umax_of t)).
            eapply (OrderProofs.lt_le_trans c ok); [exact B|].
            eapply (OrderProofs.le_trans c ok); [apply (tbl_valid c ok p s Ts)|].
            eapply (OrderProofs.le_trans c ok); [apply (OrderProofs.lt_le c); exact No|exact Ou].
      - (* s lies after the range *)
        right. apply (t_before_some c) in No. intros y x Hy Hx. unfold I in Hy. rewrite LE_app in Hy.
        destruct (tbl_bounds c ok p s x Ts Hx) as [Bx _].
        apply in_app_or in Hy as [Hy|Hy]; apply LE_in in Hy as [t [Ht Hy]].
        + destruct (Cv t Ht) as [_ C2]. fold rhi in C2.
          destruct (tbl_bounds c ok p t y (wl_tbl c p v W lvl t (pk_t0 t Ht)) Hy) as [_ By].
          eapply (OrderProofs.le_lt_trans c ok); [eapply (OrderProofs.le_trans c ok); eassumption|].
          eapply (OrderProofs.lt_le_trans c ok); [exact No|exact Bx].
        + destruct (Pos t Ht) as [j [Hj [Ej Hne]]].
          assert (Ou : t_overlaps c t (Some rlo) (Some rhi) = true) by (apply M; exact Ht).
          unfold t_overlaps in Ou. apply andb_prop in Ou as [_ Ou]. apply Bool.negb_true_iff in Ou.
          apply (t_before_false c ok) in Ou.
          destruct (Nat.lt_ge_cases j i) as [Q|Q].
          * rewrite <- Ei in Hx. rewrite <- Ej in Hy. apply (level_sorted_pair c _ j i Srt Q Hi y x Hy Hx).
          * exfalso. assert (Q' : i < j) by lia. pose proof (Bs i j Q' Hj) as B. unfold tnth in B. rewrite Ei, Ej in B.
            apply (OrderProofs.lt_irrefl c ok (umin_of t)).
            eapply (OrderProofs.le_lt_trans c ok); [exact Ou|].
            eapply (OrderProofs.lt_le_trans c ok); [exact No|].
            eapply (OrderProofs.le_trans c ok); [apply (tbl_valid c ok p s Ts)|apply (OrderProofs.lt_le c); exact B].
    Qed.

    (* the input entries: valid kinds, no two with the same (key, seq) *)
    Lemma pk_I_kinds : kinds_ok p I.
    Proof.
      apply Forall_forall. intros x Hx. unfold I in Hx. rewrite LE_app in Hx.
      apply in_app_or in Hx as [Hx|Hx]; apply LE_in in Hx as [t [Ht Hx]].
      - destruct (wl_tbl c p v W lvl t (pk_t0 t Ht)) as [[_ K] _]. apply (kinds_ok_in p _ _ K Hx).
      - destruct (wl_tbl c p v W (S lvl) t (pk_t1 t Ht)) as [[_ K] _]. apply (kinds_ok_in p _ _ K Hx).
    Qed.

    Lemma pk_I_uniq : uniq I.
    Proof.
      unfold I. rewrite LE_app. apply uniq_app.
      split; [apply (uniq_sub t0 (lv v lvl) pk_nd0 pk_t0 (wl_uniq c p v W lvl))|].
      split; [apply (uniq_sub t1 (lv v (S lvl)) pk_nd1 pk_t1 (wl_uniq c p v W (S lvl)))|].
      intros x y Hx Hy E. unfold keyseq in E. injection E as Eu Es.
      apply LE_in in Hx as [t [Ht Hx]]. apply LE_in in Hy as [u [Hu Hy]].
      assert (Hx' : In x (LE (lv v lvl))) by (apply LE_in; exists t; split; [apply pk_t0; exact Ht|exact Hx]).
      assert (Hy' : In y (LE (lv v (S lvl)))) by (apply LE_in; exists u; split; [apply pk_t1; exact Hu|exact Hy]).
      pose proof (wl_chain c p v W lvl (S lvl) ltac:(lia) x y Hx' Hy' Eu). lia.
    Qed.

    (* ---- the compaction step: outputs are chunks of the kept merged entries ---- *)
    Section Outputs.
      Variable minSeq : N.
      Variable deeper : list (list table).
      Variable chunks : list (list entry).
      Variable nums : list N.
      Hypothesis cuts : cuts_ok c chunks = true.
      Hypothesis kept : concat chunks = compact_entries c p minSeq deeper (t0 ++ t1).
      Hypothesis nums_len : length nums = length chunks.
      Hypothesis nums_nd : NoDup nums.

      Let outs := mk_outputs nums chunks.

      Lemma kept_I x : In x (concat chunks) -> In x I.
      Proof.
        rewrite kept. unfold compact_entries, merge_inputs. intros H. apply drop_incl in H.
        apply (proj1 (isort_in c _ x)) in H. exact H.
      Qed.

      Lemma kept_sorted : ssorted c (concat chunks).
      Proof.
        rewrite kept. unfold compact_entries, merge_inputs. apply drop_sorted.
        apply (isort_sorted c ok p pok); [exact pk_I_kinds|exact pk_I_uniq].
      Qed.

      Lemma outs_entries : map t_entries outs = chunks.
      Proof. apply mk_outputs_entries. exact nums_len. Qed.

      Lemma outs_LE : LE outs = concat chunks.
      Proof. unfold LE. rewrite outs_entries. reflexivity. Qed.

      Lemma out_in_chunks o : In o outs -> In (t_entries o) chunks.
      Proof. intros H. rewrite <- outs_entries. apply in_map. exact H. Qed.

      (* the output tables are admissible for StepProofs.compaction_step *)
      Lemma outs_ok :
        (forall o, In o outs -> tbl_ok o) /\ level_sorted c outs /\
        (forall o x, In o outs -> In x (t_entries o) -> In x I) /\ uniq (LE outs) /\
        (forall o o', In o outs -> In o' outs -> t_num o = t_num o' -> o = o') /\
        (forall o, In o outs -> In (t_num o) nums).
      Proof.
        destruct (outputs_well_formed c ok chunks cuts kept_sorted) as [F1 F2].
        assert (O3 : forall o x, In o outs -> In x (t_entries o) -> In x I).
        { intros o x Ho Hx. apply kept_I. apply in_concat. exists (t_entries o). split; [apply out_in_chunks; exact Ho|exact Hx]. }
        assert (Hn : map t_num outs = nums) by (apply mk_outputs_nums; exact nums_len).
        split; [|split; [|split; [exact O3|split; [|split]]]].
        - intros o Ho. rewrite Forall_forall in F1. destruct (F1 _ (out_in_chunks o Ho)) as [S1 S2].
          split; [|exact S2]. split; [exact S1|]. apply Forall_forall. intros x Hx.
          apply (kinds_ok_in p _ _ pk_I_kinds). apply (O3 o x Ho Hx).
        - apply (level_sorted_entries c (mk_tables chunks) outs); [|exact F2].
          rewrite outs_entries. unfold mk_tables. rewrite map_map. cbn [t_entries]. apply map_id.
        - rewrite outs_LE. apply (ssorted_uniq c ok _ kept_sorted).
          intros a b Ha Hb Hu Hs. apply (uniq_inj I a b pk_I_uniq (kept_I a Ha) (kept_I b Hb) Hu Hs).
        - intros o o' Ho Ho' E.
          destruct (In_nth _ _ no_table Ho) as [i [Hi Ei]]. destruct (In_nth _ _ no_table Ho') as [j [Hj Ej]].
          assert (Li : i < length nums) by (rewrite <- Hn, map_length; exact Hi).
          assert (Lj : j < length nums) by (rewrite <- Hn, map_length; exact Hj).
          assert (Ni : nth i nums 0%N = t_num o).
          { rewrite <- Hn, <- Ei. change 0%N with (t_num no_table). apply map_nth. }
          assert (Nj : nth j nums 0%N = t_num o').
          { rewrite <- Hn, <- Ej. change 0%N with (t_num no_table). apply map_nth. }
          assert (i = j) by (apply (proj1 (NoDup_nth nums 0%N) nums_nd i j Li Lj); congruence).
          subst j. congruence.
        - intros o Ho. rewrite <- Hn. apply in_map. exact Ho.
      Qed.

      Theorem model_compaction_step :
        (forall n i s, In n nums -> In s (lv v i) -> t_num s <> n) ->
        exists nv, finish c true v (compaction_edit cm outs) = POk nv /\ wf_lsm nv.
      Proof.
        intros nums_fresh. destruct outs_ok as [O1 [O2 [O3 [O4 [O5 On]]]]].
        apply (compaction_step c ok p v W cm outs); rewrite ?pk_level; try assumption.
        - exact pk_t0.
        - exact pk_t1.
        - intros s t x y H1 H2 H3 H4 H5. left. apply (pk_A1 s t x y); assumption.
        - exact pk_A2.
        - intros o i s Ho Hs E. exfalso. apply (nums_fresh (t_num o) i s (On o Ho) Hs E).
      Qed.

      (* the same when level-0 tables were installed between picking and committing (memdb flushes and transaction
         commits are not blocked by a running table compaction): v2 is the version at commit time *)
      Theorem model_compaction_step_interleaved v2 :
        wf_lsm v2 ->
        (forall l, 0 < l -> lv v2 l = lv v l) ->
        (forall s, In s (lv v 0) -> In s (lv v2 0)) ->
        (forall s, In s (lv v2 0) -> In s (lv v 0) \/
           forall x i y, In x (t_entries s) -> In y (LE (lv v i)) -> e_uk x = e_uk y -> (e_seq y < e_seq x)%N) ->
        (forall n i s, In n nums -> In s (lv v2 i) -> t_num s <> n) ->
        exists nv, finish c true v2 (compaction_edit cm outs) = POk nv /\ wf_lsm nv.
      Proof.
        intros W2 Same Sub0 Split0 nums_fresh. destruct outs_ok as [O1 [O2 [O3 [O4 [O5 On]]]]].
        assert (Sub : forall l s, In s (lv v l) -> In s (lv v2 l)).
        { intros l s Hs. destruct l as [|l]; [apply Sub0; exact Hs|rewrite Same by lia; exact Hs]. }
        apply (compaction_step c ok p v2 W2 cm outs); rewrite ?pk_level; try assumption.
        - intros s Hs. apply Sub. apply pk_t0. exact Hs.
        - intros s Hs. apply Sub. apply pk_t1. exact Hs.
        - intros s t x y H1 H2 H3 H4 H5. destruct (Nat.eq_dec lvl 0) as [E0|E0].
          + assert (H1' : In s (lv v2 0)) by (rewrite <- E0; exact H1).
            destruct (Split0 s H1') as [Q|Q]; [left; apply (pk_A1 s t x y); try assumption; rewrite E0; exact Q|].
            right. apply (Q x lvl y H3); [|exact H5]. apply LE_in. exists t. split; [apply pk_t0; exact H2|exact H4].
          + left. rewrite Same in H1 by lia. apply (pk_A1 s t x y); assumption.
        - intros s Hs Hn. rewrite Same in Hs by lia. apply pk_A2; assumption.
        - intros o i s Ho Hs E. exfalso. apply (nums_fresh (t_num o) i s (On o Ho) Hs E).
      Qed.
    End Outputs.

    (* ---- the trivial move: the single source table is re-added one level down ---- *)
    Theorem model_move_step t : t0 = [t] -> t1 = [] ->
      exists nv, finish c true v (move_edit cm) = POk nv /\ wf_lsm nv.
    Proof.
      intros E0 E1. unfold move_edit. fold t0.
      assert (Ht : In t (lv v lvl)) by (apply pk_t0; rewrite E0; left; reflexivity).
      apply (compaction_step c ok p v W cm t0); rewrite ?pk_level.
      - exact pk_t0.
      - exact pk_t1.
      - intros s u x y H1 H2 H3 H4 H5. left. apply (pk_A1 s u x y); assumption.
      - exact pk_A2.
      - intros o Ho. apply (wl_tbl c p v W lvl o (pk_t0 o Ho)).
      - rewrite E0. split; [apply Forall_nil|exact Logic.I].
      - intros o x Ho Hx. unfold I. rewrite LE_app. apply in_or_app. left. apply LE_in. exists o. split; assumption.
      - apply (uniq_sub t0 (lv v lvl) pk_nd0 pk_t0 (wl_uniq c p v W lvl)).
      - rewrite E0. intros o o' [<-|[]] [<-|[]] _. reflexivity.
      - intros o i s Ho Hs E. left. destruct (wl_nums c p v W i lvl s o Hs (pk_t0 o Ho) E) as [-> ->].
        split; [reflexivity|exact Ho].
    Qed.

    (* ---- the entry-level hypotheses of ReorgProofs.compaction_preserves hold: M = the entries of the write buffers
       (newer than every table entry), the other stored entries are those of all tables that are not inputs ---- *)
    Section Admissible.
      Variable M : list entry.
      Variable minSeq : N.
      Hypothesis minSeq_lt : (minSeq < keyMaxSeq p)%N.
      Hypothesis M_uniq : uniq_in M.
      Hypothesis M_newer : forall m i x, In m M -> In x (LE (lv v i)) -> e_uk x = e_uk m -> (e_seq x < e_seq m)%N.

      Let others := filter (fun t => negb (is_input (nums_of (t0 ++ t1)) t)) (concat v).
      Let O := M ++ LE others.
      Let deeper := skipn (lvl + 2) v.

      Lemma others_src s : In s others -> exists j, In s (lv v j) /\ ~ In s t0 /\ ~ In s t1.
      Proof.
        unfold others. intros H. apply filter_In in H as [H1 H2]. destruct (in_concat_lv v s H1) as [j Hj].
        exists j. split; [exact Hj|]. apply Bool.negb_true_iff in H2.
        assert (N : forall t, In t (t0 ++ t1) -> t_num t <> t_num s).
        { apply memN_false. exact H2. }
        split; intros Hi; apply (N s); try reflexivity; apply in_or_app; [left|right]; exact Hi.
      Qed.

      Lemma I_src i : In i I -> (In i (LE (lv v lvl)) /\ exists t, In t t0 /\ In i (t_entries t)) \/
                                (In i (LE (lv v (S lvl))) /\ exists t, In t t1 /\ In i (t_entries t)).
      Proof.
        unfold I. rewrite LE_app. intros H. apply in_app_or in H as [H|H]; apply LE_in in H as [t [Ht Hi]].
        - left. split; [apply LE_in; exists t; split; [apply pk_t0; exact Ht|exact Hi]|exists t; split; assumption].
        - right. split; [apply LE_in; exists t; split; [apply pk_t1; exact Ht|exact Hi]|exists t; split; assumption].
      Qed.

      Lemma admissible_others o i : In o O -> In i I -> e_uk o = e_uk i ->
        (e_seq i < e_seq o)%N \/ ((e_seq o < e_seq i)%N /\ is_base c deeper (e_uk i) = false).
      Proof.
        intros Ho Hi Hu. unfold O in Ho. apply in_app_or in Ho as [Ho|Ho].
        { left. destruct (I_src i Hi) as [[H _]|[H _]]; apply (M_newer o _ i Ho H); congruence. }
        apply LE_in in Ho as [s [Hs Ho]]. destruct (others_src s Hs) as [j [Hj [N0 N1]]].
        assert (Hoj : In o (LE (lv v j))) by (apply LE_in; exists s; split; assumption).
        assert (Deep : S lvl < j -> is_base c deeper (e_uk i) = false).
        { intros Q. unfold is_base. apply Bool.not_true_iff_false. intros F. rewrite forallb_forall in F.
          assert (Hd : In s (concat deeper)) by (apply (in_lv_skipn v (lvl + 2) j s); [lia|exact Hj]).
          specialize (F s Hd). apply Bool.negb_true_iff in F. rewrite <- Hu in F.
          destruct (wl_tbl c p v W j s Hj) as [[Ss _] _].
          rewrite (covers_of_member c ok s o Ss Ho) in F. discriminate. }
        destruct (I_src i Hi) as [[Hil [t [Ht Hit]]]|[Hil [t [Ht Hit]]]].
        - destruct (Nat.lt_trichotomy j lvl) as [Q|[Q|Q]].
          + left. apply (wl_chain c p v W j lvl Q o i Hoj Hil Hu).
          + subst j. exfalso. apply N0. apply (pk_A1 s t o i Hj Ht Ho Hit Hu).
          + destruct (Nat.eq_dec j (S lvl)) as [->|Hne].
            * exfalso. destruct (pk_A2 s Hj N1) as [H|H].
              -- pose proof (H o i Ho Hi) as L. rewrite Hu, (cmp_refl c ok) in L. discriminate.
              -- pose proof (H i o Hi Ho) as L. rewrite Hu, (cmp_refl c ok) in L. discriminate.
            * right. split; [apply (wl_chain c p v W lvl j Q i o Hil Hoj (eq_sym Hu))|apply Deep; lia].
        - destruct (Nat.lt_trichotomy j (S lvl)) as [Q|[Q|Q]].
          + left. apply (wl_chain c p v W j (S lvl) Q o i Hoj Hil Hu).
          + subst j. exfalso. destruct (pk_A2 s Hj N1) as [H|H].
            * pose proof (H o i Ho Hi) as L. rewrite Hu, (cmp_refl c ok) in L. discriminate.
            * pose proof (H i o Hi Ho) as L. rewrite Hu, (cmp_refl c ok) in L. discriminate.
          + right. split; [apply (wl_chain c p v W (S lvl) j Q i o Hil Hoj (eq_sym Hu))|apply Deep; exact Q].
      Qed.

      Lemma admissible_uniq : uniq_in (I ++ O).
      Proof.
        assert (InV : forall x, In x I \/ In x (LE others) -> exists j, In x (LE (lv v j))).
        { intros x [H|H].
          - destruct (I_src x H) as [[H' _]|[H' _]]; eexists; exact H'.
          - apply LE_in in H as [s [Hs Hx]]. destruct (others_src s Hs) as [j [Hj _]]. exists j. apply LE_in. exists s. split; assumption. }
        assert (Cls : forall x, In x (I ++ O) -> In x M \/ exists j, In x (LE (lv v j))).
        { intros x H. apply in_app_or in H as [H|H]; [right; apply InV; left; exact H|].
          unfold O in H. apply in_app_or in H as [H|H]; [left; exact H|right; apply InV; right; exact H]. }
        intros a b Ha Hb Hu Hs. destruct (Cls a Ha) as [Ma|[ja Va]]; destruct (Cls b Hb) as [Mb|[jb Vb]].
        - apply M_uniq; assumption.
        - pose proof (M_newer a jb b Ma Vb (eq_sym Hu)). lia.
        - pose proof (M_newer b ja a Mb Va Hu). lia.
        - apply (wf_uniq_global c p v ja jb a b W Va Vb Hu Hs).
      Qed.

      Theorem model_compaction_admissible k s : (minSeq <= s)%N ->
        History.res p (newest c k s (compact_entries c p minSeq deeper (t0 ++ t1) ++ O) None) =
        History.res p (newest c k s (I ++ O) None).
      Proof.
        intros Hs. unfold compact_entries, merge_inputs.
        apply (compaction_preserves c ok p pok minSeq (is_base c deeper) minSeq_lt I O);
          [exact pk_I_kinds|exact pk_I_uniq|exact admissible_uniq|exact admissible_others|exact Hs].
      Qed.
    End Admissible.

    (* compaction.trivial() = true gives exactly that shape *)
    Lemma trivial_shape maxgp : trivial sz cm maxgp = true -> exists t, t0 = [t] /\ t1 = [].
    Proof.
      unfold trivial. fold t0 t1. intros H. apply andb_prop in H as [H _]. apply andb_prop in H as [H0 H1].
      apply Nat.eqb_eq in H0, H1. destruct t0 as [|t [|t' r]]; try discriminate. destruct t1; [|discriminate].
      exists t. split; reflexivity.
    Qed.
  End Picked.
End Model.
