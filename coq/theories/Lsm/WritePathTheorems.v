(* Lsm/WritePathTheorems.v — the per-step theorems of the byte-level write path in the form Props/C01.v states them:
   the step succeeds, keeps the invariant [bfull] (wf_bstate + the step invariant of property C06 on the abstraction + no
   duplicate (key, seq)), its abstraction is the L1 step (Lsm/Pick.v finish of flush_edit / move_edit / compaction_edit),
   and what readers see: nothing changes (rotation, flush, trivial move) or nothing at sequence numbers >= minSeq
   (table compaction). *)
From GL Require Import Base.Bytes Base.Order Codec.BytesCmp Codec.IKey Codec.Table Codec.TableCheck Codec.TableSizes Codec.Batch
  Lsm.Lsm Lsm.Compact Lsm.LsmProofs Lsm.History Lsm.ReorgProofs Lsm.Pick Lsm.WfLsm Lsm.C06Steps Lsm.Builder Lsm.BuilderCuts
  Lsm.ReadPath Lsm.ReadPathMem Lsm.ReadPathProofs Lsm.WritePath Lsm.WritePathTable Lsm.WritePathSteps.
From GL Require Mem.MemDB.
From Coq Require Import Arith ZArith Lia.
Open Scope N_scope.

Section Theorems.
  Variable c : comparer.
  Hypothesis ok : comparer_ok c.
  Variable p : kparams.
  Hypothesis pok : kparams_ok p.
  Hypothesis seek_val : keyTypeSeek p <= keyTypeVal p.
  Variable mp : MemDB.mparams.
  Hypothesis mpok : MemDB.mparams_ok mp.
  Variable tp : tparams.
  Hypothesis tp_ok : tparams_ok tp.
  Variable crc : bytes -> N.
  Hypothesis crc_bound : forall b, crc b < 2 ^ 32.
  Variable compress : bytes -> bytes.
  Variable decompress : bytes -> option bytes.
  Hypothesis codec_ok : forall x, decompress (compress x) = Some x.
  Hypothesis compress_ne : forall x, compress x <> [].
  Variable fname : option bytes.
  Variable ufc : bytes -> N -> bytes -> bool.
  Variable verify : bool.
  Variable o : wopts.
  Hypothesis ri_pos : 1 <= wo_ri o.

  Local Notation ri := (wo_ri o).
  Local Notation absS := (ReadPath.abs c mp tp crc decompress fname ufc verify ri).
  Local Notation atab := (abs_table c tp crc decompress fname ufc verify ri).
  Local Notation okb := (tfile_okb c p tp crc decompress fname ufc verify ri).
  Local Notation getb := (db_get_bytes c p mp tp crc decompress fname ufc verify).
  Local Notation bfull := (bfull c p mp tp crc decompress fname ufc verify o).
  Local Notation tfilt := (table_filter_ok c p tp crc compress decompress fname ufc verify o).
  Local Notation fsz st := (file_size (files_of st)).
  Local Notation blen := (bytes_len c p tp crc compress o).
  Local Notation sizes_ok := (write_sizes_ok c p tp crc compress o).

  Theorem bfull_wf st : bfull st -> wf_bstate c p mp tp crc decompress fname ufc verify ri st.
  Proof. intros B. exact (bf_wf _ _ _ _ _ _ _ _ _ _ _ B). Qed.

  Theorem rotate_bytes st d : bfull st -> bs_mem st = Some d -> bs_frozen st = None ->
    exists st', b_rotate mp st = Some st' /\ bfull st' /\
      st_mem (absS st') = [] /\ st_frozen (absS st') = st_mem (absS st) /\ st_levels (absS st') = st_levels (absS st) /\
      all_entries (absS st') = all_entries (absS st) /\
      forall k s, wf_bytes k -> s <= keyMaxSeq p -> getb st' k s = getb st k s.
  Proof.
    intros B Hm Hf.
    destruct (rotate_step c ok p pok seek_val mp mpok tp crc decompress fname ufc verify o ri_pos st d B Hm Hf)
      as (st' & d0 & E & B' & _ & _ & _ & E1 & E2 & E3 & E4).
    exists st'. repeat (split; [assumption|]).
    apply (reads_same c ok p pok seek_val mp mpok tp crc decompress fname ufc verify o st st' B B'). rewrite E4. intros x; reflexivity.
  Qed.

  Theorem flush_bytes st d num :
    bfull st -> bs_frozen st = Some d ->
    (forall f, In f (files_of st) -> tf_num f <> num) ->
    (forall x, In x (all_entries (absS st)) -> e_seq x <= keyMaxSeq p) ->
    (mem_pairs mp d <> [] -> sizes_ok (mem_pairs mp d) = true) -> tfilt (mem_pairs mp d) ->
    exists st', b_flush c p mp tp crc compress decompress fname ufc verify o num st = Some st' /\ bfull st' /\
      st_mem (absS st') = st_mem (absS st) /\ st_frozen (absS st') = [] /\
      (mem_pairs mp d = [] -> st_levels (absS st') = st_levels (absS st)) /\
      (mem_pairs mp d <> [] ->
         finish c true (st_levels (absS st))
                (flush_edit c p (fsz st) (st_levels (absS st)) (wo_gpOverlaps o) (wo_memMaxLevel o)
                            {| t_num := num; t_entries := st_frozen (absS st) |}) = POk (st_levels (absS st')) /\
         exists f, write_table c p tp crc compress o num (mem_pairs mp d) = Some f /\ okb f = true /\
                   atab f = {| t_num := num; t_entries := st_frozen (absS st) |} /\ In f (files_of st')) /\
      same_elems (all_entries (absS st)) (all_entries (absS st')) /\
      forall k s, wf_bytes k -> s <= keyMaxSeq p -> getb st' k s = getb st k s.
  Proof.
    intros B Hfz Hfresh Hseq Hsz Hfl.
    destruct (flush_step c ok p pok seek_val mp mpok tp tp_ok crc crc_bound compress decompress codec_ok compress_ne fname ufc verify o ri_pos
                st d num B Hfz Hfresh Hseq Hsz) as (st' & E & B' & SE & Em & Ef & El & Hn).
    { destruct Hfl as [Hn|Hf]; [left; exact Hn|right; intros f Hw; apply (Hf num f Hw)]. }
    exists st'. split; [exact E|]. split; [exact B'|].
    split; [cbn [ReadPath.abs st_mem]; rewrite Em; reflexivity|]. split; [cbn [ReadPath.abs st_frozen]; rewrite Ef; reflexivity|].
    split; [intros Q; cbn [ReadPath.abs st_levels]; rewrite (El Q); reflexivity|]. split; [exact Hn|]. split; [exact SE|].
    apply (reads_same c ok p pok seek_val mp mpok tp crc decompress fname ufc verify o st st' B B' SE).
  Qed.

  Theorem move_bytes st lvl seed :
    bfull st -> seed_tables (st_levels (absS st)) lvl seed <> [] ->
    exists cm, new_compaction c (fsz st) (st_levels (absS st)) lvl (wo_expandLimit o lvl) (seed_tables (st_levels (absS st)) lvl seed) = POk cm /\
      (trivial (fsz st) cm (wo_gpOverlaps o lvl) = true ->
       exists st', b_trivial_move c tp crc decompress fname ufc verify o lvl seed st = Some st' /\ bfull st' /\
         st_mem (absS st') = st_mem (absS st) /\ st_frozen (absS st') = st_frozen (absS st) /\
         finish c true (st_levels (absS st)) (move_edit cm) = POk (st_levels (absS st')) /\
         same_elems (all_entries (absS st)) (all_entries (absS st')) /\
         forall k s, wf_bytes k -> s <= keyMaxSeq p -> getb st' k s = getb st k s).
  Proof.
    intros B Hne.
    destruct (move_step c ok p pok seek_val mp mpok tp crc decompress fname ufc verify o ri_pos st lvl seed B Hne) as (cm & Ecm & H).
    exists cm. split; [exact Ecm|]. intros T. destruct (H T) as (st' & E & B' & Em & Ef & Efin & SE).
    exists st'. split; [exact E|]. split; [exact B'|].
    split; [cbn [ReadPath.abs st_mem]; rewrite Em; reflexivity|]. split; [cbn [ReadPath.abs st_frozen]; rewrite Ef; reflexivity|].
    split; [exact Efin|]. split; [exact SE|].
    apply (reads_same c ok p pok seek_val mp mpok tp crc decompress fname ufc verify o st st' B B' SE).
  Qed.

  Theorem compact_bytes st lvl seed os nums minSeq :
    bfull st -> seed_tables (st_levels (absS st)) lvl seed <> [] -> minSeq < keyMaxSeq p ->
    NoDup nums -> (forall n f, In n nums -> In f (files_of st) -> tf_num f <> n) ->
    exists cm, new_compaction c (fsz st) (st_levels (absS st)) lvl (wo_expandLimit o lvl) (seed_tables (st_levels (absS st)) lvl seed) = POk cm /\
      forall s',
        let deeper := skipn (lvl + 2) (st_levels (absS st)) in
        transact c p (fsz st) (c_gp cm) (wo_gpOverlaps o lvl) deeper minSeq (wo_strict o) (wo_tableSize o (S lvl)) blen os
                 (map IGood (merge_inputs c (c_t0 cm ++ c_t1 cm))) (bst0 deeper) = (s', TDone) ->
        length nums = length (fin s') ->
        Forall (fun ch => sizes_ok (chunk_kvs ch) = true /\ tfilt (chunk_kvs ch)) (fin s') ->
        exists st', b_compact c p tp crc compress decompress fname ufc verify o lvl seed os nums minSeq st = Some st' /\ bfull st' /\
          st_mem (absS st') = st_mem (absS st) /\ st_frozen (absS st') = st_frozen (absS st) /\
          outputs_of c p cm minSeq deeper (fin s') /\
          finish c true (st_levels (absS st)) (compaction_edit cm (mk_outputs nums (fin s'))) = POk (st_levels (absS st')) /\
          (forall x, In x (all_entries (absS st')) -> In x (all_entries (absS st))) /\
          forall k s, wf_bytes k -> minSeq <= s -> s <= keyMaxSeq p -> bapi (getb st' k s) = bapi (getb st k s).
  Proof.
    intros B Hne Hms Hnd Hfresh.
    destruct (compact_step c ok p pok seek_val mp mpok tp tp_ok crc crc_bound compress decompress codec_ok compress_ne fname ufc verify o ri_pos
                st lvl seed os nums minSeq B Hne Hms Hnd Hfresh) as (cm & Ecm & H).
    exists cm. split; [exact Ecm|]. intros s' deeper Htr Hlen Hsz.
    destruct (H s' Htr Hlen Hsz) as (st' & E & B' & Em & Ef & Ho & Efin & Hincl & Hreads).
    exists st'. split; [exact E|]. split; [exact B'|].
    split; [cbn [ReadPath.abs st_mem]; rewrite Em; reflexivity|]. split; [cbn [ReadPath.abs st_frozen]; rewrite Ef; reflexivity|].
    split; [exact Ho|]. split; [exact Efin|]. split; [exact Hincl|].
    apply (reads_kept c ok p pok seek_val mp mpok tp crc decompress fname ufc verify o st st' minSeq B B' Hreads).
  Qed.
End Theorems.
