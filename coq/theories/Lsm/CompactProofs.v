(* Lsm/CompactProofs.v — soundness of the compaction drop rule (tableCompactionBuilder.run). *)
From GL Require Import Base.Order Base.OrderProofs Codec.IKey Codec.IKeyProofs Lsm.Lsm Lsm.Compact Lsm.LsmProofs.
From Coq Require Import ZArith Lia ZifyN ZifyNat ZifyBool.

Section Proofs.
  Variable c : comparer.
  Hypothesis ok : comparer_ok c.
  Variable p : kparams.
  Hypothesis pok : kparams_ok p.
  Variable minSeq : N.
  Variable base : bytes -> bool.
  Hypothesis minSeq_lt : minSeq < keyMaxSeq p.

  Notation drop := (drop_run c p minSeq base).
  Notation first_vis := (first_vis c).
  Notation ssorted := (ssorted c).
  Notation kinds_ok := (kinds_ok p).

  Definition res (z : option entry) : option bytes := api_of (group_res p z).

  Lemma drop_incl last l x : In x (drop last l) -> In x l.
  Proof.
    revert last; induction l as [|e l IH]; intros last; cbn [drop_run]; [auto|].
    destruct (last_seq c p last e <=? minSeq); [intros H; right; eapply IH; eauto|].
    destruct ((e_kind e =? keyTypeDel p) && (e_seq e <=? minSeq) && base (e_uk e)).
    - intros H; right; eapply IH; eauto.
    - intros [<-|H]; [left; reflexivity|right; eapply IH; eauto].
  Qed.

  Lemma drop_sorted last l : ssorted l -> ssorted (drop last l).
  Proof.
    revert last; induction l as [|e l IH]; intros last Hs; cbn [drop_run]; [exact I|].
    destruct Hs as [Hall Hs].
    destruct (last_seq c p last e <=? minSeq); [apply IH; exact Hs|].
    destruct ((e_kind e =? keyTypeDel p) && (e_seq e <=? minSeq) && base (e_uk e)); [apply IH; exact Hs|].
    split; [|apply IH; exact Hs].
    rewrite Forall_forall in *. intros x Hx. apply Hall. eapply drop_incl; eauto.
  Qed.

  Lemma drop_kinds last l : kinds_ok l -> kinds_ok (drop last l).
  Proof.
    unfold LsmProofs.kinds_ok. rewrite !Forall_forall. intros H x Hx. apply H. eapply drop_incl; eauto.
  Qed.

  Lemma kinds_pair l a b : kinds_ok l -> In a l -> In b l -> kinds_ok [a; b].
  Proof.
    intros H Ha Hb. unfold LsmProofs.kinds_ok. constructor; [eapply kinds_ok_in; eauto|].
    constructor; [eapply kinds_ok_in; eauto|constructor].
  Qed.

  Lemma first_vis_none_of k s l : (forall x, In x l -> vis c k s x = false) -> first_vis k s l = None.
  Proof.
    induction l as [|e l IH]; intros H; cbn [LsmProofs.first_vis]; [reflexivity|].
    rewrite (H e) by (left; reflexivity). apply IH. intros x Hx. apply H. right; exact Hx.
  Qed.

  (* once an entry of k with seq <= minSeq has been seen, every older entry of k is dropped *)
  Lemma drop_dead k s : forall l ls, ssorted l -> kinds_ok l ->
    (forall x, In x l -> cmp c k (e_uk x) <> Gt) ->
    (forall x, In x l -> e_uk x = k -> e_seq x <= ls) ->
    ls <= minSeq ->
    first_vis k s (drop (Some (k, ls)) l) = None.
  Proof.
    induction l as [|e l IH]; intros ls Hs Hk Hge Hseq Hls; cbn [drop_run]; [reflexivity|].
    unfold last_seq. destruct (cmp c k (e_uk e)) eqn:E.
    - apply (cmp_eq c ok) in E.
      replace (ls <=? minSeq) with true by (symmetry; apply N.leb_le; exact Hls).
      rewrite <- E. apply IH.
      + apply Hs.
      + eapply kinds_ok_tl; eauto.
      + intros x Hx. apply Hge. right; exact Hx.
      + intros x Hx Ux. destruct Hs as [Hall _]. rewrite Forall_forall in Hall.
        apply (after_same_key c ok p pok e x); [|apply Hall; exact Hx|congruence].
        apply (kinds_pair (e :: l)); [assumption|left; reflexivity|right; exact Hx].
      + assert (e_seq e <= ls) by (apply Hseq; [left; reflexivity|congruence]). lia.
    - (* a larger user key: nothing of k follows *)
      apply first_vis_none_of. intros x Hx.
      assert (Hx' : In x (e :: l)).
      { destruct (keyMaxSeq p <=? minSeq); [right; eapply drop_incl; eauto|].
        destruct ((e_kind e =? keyTypeDel p) && (e_seq e <=? minSeq) && base (e_uk e));
          [right; eapply drop_incl; eauto|].
        destruct Hx as [<-|Hx]; [left; reflexivity|right; eapply drop_incl; eauto]. }
      destruct (vis c k s x) eqn:V; [|reflexivity]. exfalso.
      apply (vis_true c ok) in V as [Ux _].
      destruct Hx' as [<-|Hx'].
      + rewrite Ux, (cmp_refl c ok) in E. discriminate.
      + destruct Hs as [Hall _]. rewrite Forall_forall in Hall. specialize (Hall x Hx').
        apply (after_uk_le c) in Hall. rewrite Ux in Hall.
        apply Hall. apply (cmp_gt_lt c ok). exact E.
    - exfalso. apply (Hge e); [left; reflexivity|exact E].
  Qed.

  (* the main induction: [last] describes the previously processed entry *)
  Lemma drop_fresh k s : minSeq <= s -> forall l last, ssorted l -> kinds_ok l ->
    (forall u ls, last = Some (u, ls) -> u = k -> s < ls) ->
    res (first_vis k s (drop last l)) = res (first_vis k s l).
  Proof.
    intros Hms. induction l as [|e l IH]; intros last Hs Hk Hlast; cbn [drop_run LsmProofs.first_vis]; [reflexivity|].
    assert (LS : minSeq < last_seq c p last e \/ (vis c k s e = false)).
    { unfold last_seq. destruct last as [[u ls]|]; [|left; exact minSeq_lt].
      destruct (cmp c u (e_uk e)) eqn:E; [|left; exact minSeq_lt|left; exact minSeq_lt].
      apply (cmp_eq c ok) in E. destruct (vis c k s e) eqn:V; [|right; reflexivity].
      apply (vis_true c ok) in V as [Ue _]. left.
      assert (s < ls) by (apply (Hlast u ls eq_refl); congruence). lia. }
    assert (Hl : ssorted l) by apply Hs.
    assert (Hkl : kinds_ok l) by (eapply kinds_ok_tl; eauto).
    assert (Hnext : forall u ls, Some (e_uk e, e_seq e) = Some (u, ls) -> u = k -> s < ls \/ vis c k s e = true).
    { intros u ls H Hu. injection H as <- <-.
      destruct (vis c k s e) eqn:V; [right; reflexivity|left].
      destruct (N.lt_ge_cases s (e_seq e)) as [H|H]; [exact H|].
      assert (vis c k s e = true) by (apply (vis_true c ok); split; [exact Hu|lia]). congruence. }
    destruct (vis c k s e) eqn:V.
    - (* e is the first visible entry of k *)
      destruct LS as [LS|LS]; [|discriminate].
      replace (last_seq c p last e <=? minSeq) with false by (symmetry; apply N.leb_gt; exact LS).
      destruct ((e_kind e =? keyTypeDel p) && (e_seq e <=? minSeq) && base (e_uk e)) eqn:B.
      + (* dropped tombstone: everything older of k is dropped too; both sides read "not found" *)
        apply (vis_true c ok) in V as [Ue Vs]. rewrite Ue at 1.
        rewrite (drop_dead k s l (e_seq e)).
        * unfold res. cbn [group_res]. unfold res_of.
          apply andb_prop in B as [B _]. apply andb_prop in B as [B _]. rewrite B. reflexivity.
        * exact Hl.
        * exact Hkl.
        * intros x Hx. destruct Hs as [Hall _]. rewrite Forall_forall in Hall.
          pose proof (after_uk_le c e x (Hall x Hx)) as H. rewrite Ue in H. exact H.
        * intros x Hx Ux. destruct Hs as [Hall _]. rewrite Forall_forall in Hall.
          apply (after_same_key c ok p pok e x); [|apply Hall; exact Hx|congruence].
          apply (kinds_pair (e :: l)); [assumption|left; reflexivity|right; exact Hx].
        * apply andb_prop in B as [B _]. apply andb_prop in B as [_ B]. apply N.leb_le in B. exact B.
      + cbn [LsmProofs.first_vis]. rewrite V. reflexivity.
    - (* e is not visible for (k,s): it may stay or go, the answer is decided later *)
      assert (IH' : res (first_vis k s (drop (Some (e_uk e, e_seq e)) l)) = res (first_vis k s l)).
      { apply IH; [exact Hl|exact Hkl|]. intros u ls H Hu.
        destruct (Hnext u ls H Hu) as [H1|H1]; [exact H1|congruence]. }
      destruct (last_seq c p last e <=? minSeq); [exact IH'|].
      destruct ((e_kind e =? keyTypeDel p) && (e_seq e <=? minSeq) && base (e_uk e)); [exact IH'|].
      cbn [LsmProofs.first_vis]. rewrite V. exact IH'.
  Qed.

  (* the same induction with the exact outcome: either the first visible entry is unchanged, or it was
     a tombstone at base level with seq <= minSeq and nothing of k is left *)
  Lemma drop_fresh_strong k s : minSeq <= s -> forall l last, ssorted l -> kinds_ok l ->
    (forall u ls, last = Some (u, ls) -> u = k -> s < ls) ->
    first_vis k s (drop last l) = first_vis k s l \/
    (exists e, first_vis k s l = Some e /\ e_kind e = keyTypeDel p /\ base k = true /\
               e_seq e <= minSeq /\ first_vis k s (drop last l) = None).
  Proof.
    intros Hms. induction l as [|e l IH]; intros last Hs Hk Hlast; cbn [drop_run LsmProofs.first_vis]; [left; reflexivity|].
    assert (LS : minSeq < last_seq c p last e \/ (vis c k s e = false)).
    { unfold last_seq. destruct last as [[u ls]|]; [|left; exact minSeq_lt].
      destruct (cmp c u (e_uk e)) eqn:E; [|left; exact minSeq_lt|left; exact minSeq_lt].
      apply (cmp_eq c ok) in E. destruct (vis c k s e) eqn:V; [|right; reflexivity].
      apply (vis_true c ok) in V as [Ue _]. left.
      assert (s < ls) by (apply (Hlast u ls eq_refl); congruence). lia. }
    assert (Hl : ssorted l) by apply Hs.
    assert (Hkl : kinds_ok l) by (eapply kinds_ok_tl; eauto).
    destruct (vis c k s e) eqn:V.
    - destruct LS as [LS|LS]; [|discriminate].
      replace (last_seq c p last e <=? minSeq) with false by (symmetry; apply N.leb_gt; exact LS).
      destruct ((e_kind e =? keyTypeDel p) && (e_seq e <=? minSeq) && base (e_uk e)) eqn:B.
      + right. exists e. apply (vis_true c ok) in V as [Ue Vs].
        apply andb_prop in B as [B B3]. apply andb_prop in B as [B1 B2].
        apply N.eqb_eq in B1. apply N.leb_le in B2. rewrite Ue in B3.
        split; [reflexivity|]. split; [exact B1|]. split; [exact B3|]. split; [exact B2|].
        rewrite Ue. apply (drop_dead k s l (e_seq e)).
        * exact Hl.
        * exact Hkl.
        * intros x Hx. destruct Hs as [Hall _]. rewrite Forall_forall in Hall.
          pose proof (after_uk_le c e x (Hall x Hx)) as H. rewrite Ue in H. exact H.
        * intros x Hx Ux. destruct Hs as [Hall _]. rewrite Forall_forall in Hall.
          apply (after_same_key c ok p pok e x); [|apply Hall; exact Hx|congruence].
          apply (kinds_pair (e :: l)); [assumption|left; reflexivity|right; exact Hx].
        * exact B2.
      + left. cbn [LsmProofs.first_vis]. rewrite V. reflexivity.
    - assert (IH' : first_vis k s (drop (Some (e_uk e, e_seq e)) l) = first_vis k s l \/
                    (exists e0, first_vis k s l = Some e0 /\ e_kind e0 = keyTypeDel p /\ base k = true /\
                       e_seq e0 <= minSeq /\ first_vis k s (drop (Some (e_uk e, e_seq e)) l) = None)).
      { apply IH; [exact Hl|exact Hkl|]. intros u ls H Hu. injection H as <- <-.
        destruct (N.lt_ge_cases s (e_seq e)) as [H|H]; [exact H|].
        assert (vis c k s e = true) by (apply (vis_true c ok); split; [exact Hu|lia]). congruence. }
      destruct (last_seq c p last e <=? minSeq); [exact IH'|].
      destruct ((e_kind e =? keyTypeDel p) && (e_seq e <=? minSeq) && base (e_uk e)); [exact IH'|].
      cbn [LsmProofs.first_vis]. rewrite V. exact IH'.
  Qed.

  (* Drop rule, per key: for every sequence number s a reader may still hold (s >= minSeq), the kept
     entries answer a lookup of k at s exactly as the inputs did. *)
  Theorem drop_rule_sound k s l : ssorted l -> kinds_ok l -> minSeq <= s ->
    res (newest c k s (drop None l) None) = res (newest c k s l None).
  Proof.
    intros Hs Hk Hms.
    rewrite (newest_sorted c ok p pok k s _ None (drop_kinds None l Hk) (drop_sorted None l Hs)).
    rewrite (newest_sorted c ok p pok k s _ None Hk Hs).
    pose proof (drop_fresh k s Hms l None Hs Hk) as H.
    assert (H' : res (first_vis k s (drop None l)) = res (first_vis k s l)) by (apply H; discriminate).
    destruct (first_vis k s (drop None l)); destruct (first_vis k s l); exact H'.
  Qed.

  (* nothing is invented: the output is a sub-list of the input *)
  Theorem drop_rule_subset l x : In x (drop None l) -> In x l.
  Proof. apply drop_incl. Qed.
End Proofs.
