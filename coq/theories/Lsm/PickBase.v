(* Lsm/PickBase.v — groundwork for the picker proofs: sort.Search finds the boundary of a monotone predicate;
   slices; bounds of a table; ordered lists of tables in index form. *)
From GL Require Import Base.Order Base.OrderProofs Codec.IKey Codec.IKeyProofs Lsm.Lsm Lsm.Compact Lsm.LsmProofs
  Lsm.WfProofs Lsm.Pick.
From Coq Require Import Arith Lia.

Local Open Scope nat_scope.

(* ---- sort.Search ---- *)
Lemma div2_mid i j : i < j -> i <= Nat.div2 (i + j) /\ Nat.div2 (i + j) < j.
Proof.
  intros H. rewrite Nat.div2_div.
  pose proof (Nat.div_mod (i + j) 2 ltac:(lia)) as D.
  pose proof (Nat.mod_upper_bound (i + j) 2 ltac:(lia)) as M. lia.
Qed.

Definition monotone (f : nat -> bool) (i j : nat) : Prop :=
  forall a b, i <= a -> a <= b -> b < j -> f a = true -> f b = true.

Lemma bsearch_spec f fuel : forall i j, i <= j -> j - i <= fuel -> monotone f i j ->
  i <= bsearch fuel f i j <= j /\
  (forall a, i <= a -> a < bsearch fuel f i j -> f a = false) /\
  (forall a, bsearch fuel f i j <= a -> a < j -> f a = true).
Proof.
  induction fuel as [|fu IH]; intros i j Hij Hf Hm; cbn [bsearch].
  - assert (i = j) by lia. subst. repeat split; intros; lia.
  - destruct (Nat.ltb i j) eqn:L.
    2:{ apply Nat.ltb_ge in L. assert (i = j) by lia. subst. repeat split; intros; lia. }
    apply Nat.ltb_lt in L. destruct (div2_mid i j L) as [H1 H2].
    set (h := Nat.div2 (i + j)) in *. cbv zeta.
    destruct (f h) eqn:Fh.
    + assert (Hm' : monotone f i h) by (intros a b Ha Hab Hb; apply Hm; lia).
      destruct (IH i h H1 ltac:(lia) Hm') as [K1 [K2 K3]].
      split; [lia|]. split; [exact K2|].
      intros a Ha Hj. destruct (Nat.lt_ge_cases a h) as [Q|Q]; [apply K3; assumption|].
      apply (Hm h a); try lia. exact Fh.
    + assert (Hm' : monotone f (S h) j) by (intros a b Ha Hab Hb; apply Hm; lia).
      destruct (IH (S h) j ltac:(lia) ltac:(lia) Hm') as [K1 [K2 K3]].
      split; [lia|]. split; [|exact K3].
      intros a Ha Hk. destruct (Nat.lt_ge_cases h a) as [Q|Q]; [apply K2; lia|].
      destruct (f a) eqn:Fa; [|reflexivity].
      rewrite (Hm a h Ha Q H2 Fa) in Fh. discriminate.
Qed.

Lemma sort_search_spec n f : monotone f 0 n ->
  sort_search n f <= n /\
  (forall a, a < sort_search n f -> f a = false) /\
  (forall a, sort_search n f <= a -> a < n -> f a = true).
Proof.
  intros Hm. unfold sort_search.
  destruct (bsearch_spec f n 0 n ltac:(lia) ltac:(lia) Hm) as [K1 [K2 K3]].
  split; [lia|]. split; [intros a Ha; apply K2; lia|exact K3].
Qed.

(* ---- slices ---- *)
Lemma in_firstn_nth {A} (d : A) k (l : list A) x :
  In x (firstn k l) <-> exists i, i < k /\ i < length l /\ nth i l d = x.
Proof.
  revert k; induction l as [|y l IH]; intros k.
  - rewrite firstn_nil. split; [intros []|intros [i [_ [H _]]]; cbn in H; lia].
  - destruct k as [|k]; cbn [firstn].
    + split; [intros []|intros [i [H _]]; lia].
    + cbn [In]. rewrite IH. split.
      * intros [<-|[i [H1 [H2 H3]]]]; [exists 0; cbn; repeat split; lia|].
        exists (S i). cbn [length nth]. repeat split; try lia. exact H3.
      * intros [[|i] [H1 [H2 H3]]]; cbn [nth length] in *; [left; exact H3|].
        right. exists i. repeat split; try lia. exact H3.
Qed.

Lemma in_skipn_nth {A} (d : A) k (l : list A) x :
  In x (skipn k l) <-> exists i, k <= i /\ i < length l /\ nth i l d = x.
Proof.
  revert k; induction l as [|y l IH]; intros k.
  - rewrite skipn_nil. split; [intros []|intros [i [_ [H _]]]; cbn in H; lia].
  - destruct k as [|k]; cbn [skipn].
    + split.
      * intros H. destruct (In_nth _ _ d H) as [i [H1 H2]]. exists i. repeat split; try lia; assumption.
      * intros [i [_ [H2 H3]]]. rewrite <- H3. apply nth_In. exact H2.
    + rewrite IH. split.
      * intros [i [H1 [H2 H3]]]. exists (S i). cbn [length nth]. repeat split; try lia. exact H3.
      * intros [[|i] [H1 [H2 H3]]]; [lia|]. cbn [nth length] in *. exists i. repeat split; try lia. exact H3.
Qed.

Lemma nth_skipn' {A} (d : A) b : forall (l : list A) i, nth i (skipn b l) d = nth (b + i) l d.
Proof.
  induction b as [|b IH]; intros l i; [reflexivity|].
  destruct l as [|x l]; [cbn [skipn]; destruct i; reflexivity|]. cbn [skipn plus nth]. apply IH.
Qed.

Lemma in_slice_nth {A} (d : A) b e (l : list A) x :
  In x (firstn (e - b) (skipn b l)) <-> exists i, b <= i /\ i < e /\ i < length l /\ nth i l d = x.
Proof.
  rewrite (in_firstn_nth d). split.
  - intros [i [H1 [H2 H3]]]. rewrite skipn_length in H2. exists (b + i).
    rewrite nth_skipn' in H3. repeat split; try lia. exact H3.
  - intros [i [H1 [H2 [H3 H4]]]]. exists (i - b). rewrite skipn_length, nth_skipn'.
    replace (b + (i - b)) with i by lia. repeat split; try lia. exact H4.
Qed.

Lemma in_nth_ex {A} (d : A) (l : list A) x : In x l <-> exists i, i < length l /\ nth i l d = x.
Proof.
  split.
  - intros H. destruct (In_nth _ _ d H) as [i [H1 H2]]. exists i. split; assumption.
  - intros [i [H1 H2]]. rewrite <- H2. apply nth_In. exact H1.
Qed.

Section Bounds.
  Variable c : comparer.
  Hypothesis ok : comparer_ok c.
  Variable p : kparams.

  Notation ssorted := (ssorted c).
  Notation umin_of := (umin_of).
  Notation lt := (Order.lt c).
  Notation le := (Order.le c).

  (* a well-formed table: non-empty, strictly ordered, valid kinds *)
  Definition tbl_ok (t : table) : Prop := table_ok c p t /\ t_entries t <> [].

  Lemma last_map_some (l : list entry) d : l <> [] -> last (map Some l) None = Some (last l d).
  Proof.
    induction l as [|x l IH]; [congruence|]. intros _. destruct l as [|y l']; [reflexivity|].
    cbn [map last] in *. apply IH. discriminate.
  Qed.

  Lemma t_first_lo t : t_entries t <> [] -> t_first t = Some (t_lo t).
  Proof. unfold t_first, t_lo. destruct (t_entries t); [congruence|reflexivity]. Qed.

  Lemma t_last_hi t : t_entries t <> [] -> t_last t = Some (t_hi t).
  Proof. unfold t_last, t_hi. apply last_map_some. Qed.

  Lemma t_lo_in t : t_entries t <> [] -> In (t_lo t) (t_entries t).
  Proof. unfold t_lo. destruct (t_entries t); [congruence|]. intros _. left; reflexivity. Qed.

  Lemma t_hi_in t : t_entries t <> [] -> In (t_hi t) (t_entries t).
  Proof.
    intros H. apply (last_some_in (t_entries t)). rewrite <- (t_last_hi t H). reflexivity.
  Qed.

  (* every user key of a table lies between the user keys of its bounds *)
  Lemma tbl_bounds t x : tbl_ok t -> In x (t_entries t) ->
    le (umin_of t) (e_uk x) /\ le (e_uk x) (umax_of t).
  Proof.
    intros [[Hs _] Hne] Hx.
    destruct (in_table_bounds c ok t x Hs Hx) as [f [l [F [L [H1 H2]]]]].
    rewrite (t_first_lo t Hne) in F. rewrite (t_last_hi t Hne) in L.
    injection F as <-. injection L as <-. split; assumption.
  Qed.

  Lemma tbl_valid t : tbl_ok t -> le (umin_of t) (umax_of t).
  Proof. intros H. apply (tbl_bounds t (t_hi t) H). apply t_hi_in. apply H. Qed.

  (* internal-key form: the first entry is the smallest, the last the largest *)
  Lemma tbl_lo_min t x : tbl_ok t -> In x (t_entries t) -> x = t_lo t \/ ecmp c (t_lo t) x = Lt.
  Proof.
    intros [[Hs _] Hne] Hx. unfold t_lo. destruct (t_entries t) as [|y l]; [congruence|].
    cbn [hd]. destruct Hx as [<-|Hx]; [left; reflexivity|]. right.
    destruct Hs as [Hall _]. rewrite Forall_forall in Hall. apply Hall. exact Hx.
  Qed.

  Lemma tbl_hi_max t x : tbl_ok t -> In x (t_entries t) -> x = t_hi t \/ ecmp c x (t_hi t) = Lt.
  Proof.
    intros [[Hs _] Hne] Hx. apply (ssorted_last_ge c (t_entries t) x (t_hi t) Hs); [|exact Hx].
    rewrite <- (t_last_hi t Hne). reflexivity.
  Qed.

  (* ---- comparisons as booleans ---- *)
  Lemma cmp_cases a b : lt a b \/ a = b \/ lt b a.
  Proof. apply (OrderProofs.lt_total c ok). Qed.

  Lemma cmp_gt_iff a b : cmp c a b = Gt <-> lt b a.
  Proof. apply (cmp_gt_lt c ok). Qed.

  Lemma ule_iff_not_lt a b : le a b <-> ~ lt b a.
  Proof. symmetry. apply (OrderProofs.not_lt_le c ok). Qed.

  Lemma ule_or_lt a b : le a b \/ lt b a.
  Proof.
    destruct (cmp_cases a b) as [H|[->|H]]; [left; apply (OrderProofs.lt_le c); exact H|left; apply (OrderProofs.le_refl c ok)|right; exact H].
  Qed.

  Lemma ult_not_le a b : lt a b -> le b a -> False.
  Proof. intros H1 H2. apply (proj1 (ule_iff_not_lt b a) H2). exact H1. Qed.

  (* tFile.after / before in order form *)
  Lemma t_after_some t k : t_after c t (Some k) = true <-> lt (umax_of t) k.
  Proof. unfold t_after. rewrite <- cmp_gt_iff. destruct (cmp c k (Pick.umax_of t)); split; congruence. Qed.

  Lemma t_after_false t k : t_after c t (Some k) = false <-> le k (umax_of t).
  Proof.
    rewrite ule_iff_not_lt, <- t_after_some. destruct (t_after c t (Some k)); split; congruence.
  Qed.

  Lemma t_before_some t k : t_before c t (Some k) = true <-> lt k (umin_of t).
  Proof. unfold t_before, Order.lt. destruct (cmp c k (Pick.umin_of t)); split; congruence. Qed.

  Lemma t_before_false t k : t_before c t (Some k) = false <-> le (umin_of t) k.
  Proof.
    rewrite ule_iff_not_lt, <- t_before_some. destruct (t_before c t (Some k)); split; congruence.
  Qed.

  (* a key of the table inside the range makes the table overlap the range *)
  Definition key_in (k : bytes) (umin umax : option bytes) : Prop :=
    match umin with Some m => le m k | None => True end /\
    match umax with Some m => le k m | None => True end.

  Lemma overlaps_of_key t x umin umax : tbl_ok t -> In x (t_entries t) -> key_in (e_uk x) umin umax ->
    t_overlaps c t umin umax = true.
  Proof.
    intros Ht Hx [K1 K2]. destruct (tbl_bounds t x Ht Hx) as [B1 B2].
    unfold t_overlaps. apply andb_true_intro. split; apply Bool.negb_true_iff.
    - destruct umin as [m|]; [|reflexivity]. apply t_after_false. eapply (OrderProofs.le_trans c ok); eauto.
    - destruct umax as [m|]; [|reflexivity]. apply t_before_false. eapply (OrderProofs.le_trans c ok); eauto.
  Qed.

  (* ---- lists of tables ordered and disjoint in user keys, in index form ---- *)
  Definition bsorted (tf : list table) : Prop :=
    forall i j, i < j -> j < length tf -> lt (umax_of (tnth tf i)) (umin_of (tnth tf j)).

  Definition tables_lt (A B : list table) : Prop :=
    forall a b, In a A -> In b B -> forall x y, In x (t_entries a) -> In y (t_entries b) -> cmp c (e_uk x) (e_uk y) = Lt.

  Lemma level_sorted_app A B : level_sorted c (A ++ B) <-> level_sorted c A /\ level_sorted c B /\ tables_lt A B.
  Proof.
    induction A as [|a A IH]; cbn [app level_sorted].
    - split; [intros H; repeat split; [exact H|intros a b []]|intros [_ [H _]]; exact H].
    - rewrite IH, Forall_app. split.
      + intros [[F1 F2] [H1 [H2 H3]]]. repeat split; try assumption.
        intros a' b [<-|Ha] Hb x y Hx Hy.
        * rewrite Forall_forall in F2. exact (F2 b Hb x y Hx Hy).
        * exact (H3 a' b Ha Hb x y Hx Hy).
      + intros [[F1 H1] [H2 H3]]. repeat split; try assumption.
        * rewrite Forall_forall. intros b Hb x y Hx Hy. apply (H3 a b (or_introl eq_refl) Hb x y Hx Hy).
        * intros a' b Ha Hb. apply H3; [right; exact Ha|exact Hb].
  Qed.

  Lemma level_sorted_pair ts i j : level_sorted c ts -> i < j -> j < length ts ->
    forall x y, In x (t_entries (tnth ts i)) -> In y (t_entries (tnth ts j)) -> cmp c (e_uk x) (e_uk y) = Lt.
  Proof.
    revert i j; induction ts as [|t ts IH]; intros i j Hs Hij Hj; [cbn in Hj; lia|].
    destruct Hs as [Hall Hs]. destruct j as [|j]; [lia|]. cbn [length] in Hj.
    destruct i as [|i].
    - unfold tnth. cbn [nth]. rewrite Forall_forall in Hall. apply Hall. apply nth_In. lia.
    - unfold tnth. cbn [nth]. apply (IH i j Hs); lia.
  Qed.

  Lemma level_sorted_bsorted ts : (forall t, In t ts -> tbl_ok t) -> level_sorted c ts -> bsorted ts.
  Proof.
    intros Hok Hs i j Hij Hj.
    assert (Hi : In (tnth ts i) ts) by (apply nth_In; lia).
    assert (Hjn : In (tnth ts j) ts) by (apply nth_In; lia).
    apply (level_sorted_pair ts i j Hs Hij Hj).
    - apply t_hi_in. apply (Hok _ Hi).
    - apply t_lo_in. apply (Hok _ Hjn).
  Qed.

  Lemma level_sorted_filter f ts : level_sorted c ts -> level_sorted c (filter f ts).
  Proof.
    induction ts as [|t ts IH]; [auto|]. intros [Hall Hs]. cbn [filter].
    destruct (f t); [|apply IH; exact Hs]. split; [|apply IH; exact Hs].
    rewrite Forall_forall in *. intros t' Ht'. apply Hall. apply filter_In in Ht'. apply Ht'.
  Qed.

  Lemma level_sorted_firstn k ts : level_sorted c ts -> level_sorted c (firstn k ts).
  Proof.
    intros H. rewrite <- (firstn_skipn k ts) in H. apply level_sorted_app in H. apply H.
  Qed.

  Lemma level_sorted_skipn k ts : level_sorted c ts -> level_sorted c (skipn k ts).
  Proof.
    intros H. rewrite <- (firstn_skipn k ts) in H. apply level_sorted_app in H. apply H.
  Qed.

  (* monotone bounds along an ordered list *)
  Lemma bsorted_umax_mono tf i j : (forall t, In t tf -> tbl_ok t) -> bsorted tf -> i <= j -> j < length tf ->
    le (umax_of (tnth tf i)) (umax_of (tnth tf j)).
  Proof.
    intros Hok Hb Hij Hj. destruct (Nat.eq_dec i j) as [->|Hne]; [apply (OrderProofs.le_refl c ok)|].
    apply (OrderProofs.lt_le c). eapply (OrderProofs.lt_le_trans c ok); [apply (Hb i j); lia|].
    apply tbl_valid. apply Hok. apply nth_In. exact Hj.
  Qed.

  Lemma bsorted_umin_mono tf i j : (forall t, In t tf -> tbl_ok t) -> bsorted tf -> i <= j -> j < length tf ->
    le (umin_of (tnth tf i)) (umin_of (tnth tf j)).
  Proof.
    intros Hok Hb Hij Hj. destruct (Nat.eq_dec i j) as [->|Hne]; [apply (OrderProofs.le_refl c ok)|].
    apply (OrderProofs.lt_le c). eapply (OrderProofs.le_lt_trans c ok); [|apply (Hb i j); lia].
    apply tbl_valid. apply Hok. apply nth_In. lia.
  Qed.
End Bounds.
