(* Lsm/BuilderProofs.v — the retry invariant of tableCompactionBuilder (model Lsm/Builder.v): whatever transient failures
   hit the attempts of compactionTransact (any steps, any positions, any number of attempts), the attempt that succeeds
   ends in exactly the state a single failure-free run ends in: same finished tables (entries, recorded first/last), same
   dropCnt / kerrCnt.  Proof idea: a state reached right after "flush + snapshot" at entry i is a fixed point of [restore],
   and processing entry i from it with [resumed] set is what the original iteration did after the snapshot; every failing
   attempt therefore leaves a persistent state (snapshot, finished tables) from which the failure-free rerun computes the
   failure-free result. *)
From GL Require Import Base.Order Codec.IKey Lsm.Lsm Lsm.Compact Lsm.Pick Lsm.Builder.
From Coq Require Import Arith Lia.

Local Open Scope nat_scope.

Section Retry.
  Variable c : comparer.
  Variable p : kparams.
  Variable sz : table -> N.
  Variable gp : list table.
  Variable maxgp : N.
  Variable deeper : list (list table).
  Variable minSeq : N.
  Variable strict : bool.
  Variable tableSize : N.
  Variable tsize : list item -> N.
  Variable items : list item.

  Notation run_loop := (run_loop c p sz gp maxgp deeper minSeq strict tableSize tsize).
  Notation step := (step c p sz gp maxgp deeper minSeq strict tableSize tsize).
  Notation step_good := (step_good c p sz gp maxgp deeper minSeq tableSize tsize).
  Notation step_bad := (step_bad p strict).
  Notation run_attempt := (run_attempt c p sz gp maxgp deeper minSeq strict tableSize tsize).
  Notation transact := (transact c p sz gp maxgp deeper minSeq strict tableSize tsize).
  Notation should_stop := (should_stop c sz gp maxgp).
  Notation need_flush := (need_flush tableSize tsize).
  Notation bst0 := (bst0 deeper).

  (* the persistent part of the builder: what a later attempt starts from *)
  Definition pers (s : bst) : snapshot * list otable := (snap s, recs s).

  Lemma restore_det s s' : pers s = pers s' -> tw s = tw s' -> restore s = restore s'.
  Proof. unfold pers, restore. intros E T. injection E as E1 E2. rewrite E1, E2, T. reflexivity. Qed.

  Lemma set_tw_none s : tw s = None -> set_tw s None = s.
  Proof. destruct s. cbn. intros ->. reflexivity. Qed.

  Lemma set_cs_same s : set_cs s (cs s) = s.
  Proof. destruct s. reflexivity. Qed.

  (* ---- the two halves of an iteration for a good entry ---- *)
  Definition phaseA (o : oracle) (rp : bool) (i : nat) (e : entry) (s : bst) : sres :=
    let '(stop, cs1) := if rp then (false, cs s) else should_stop (cs s) (e_ikey e) in
    let s1 := set_cs s cs1 in
    if first_occ c s1 (e_uk e) then
      match (match tw s1 with
             | Some w => if stop || need_flush w
                         then if o_flush o i then SFail s1 RErr else SCont (flush_and_snapshot i w s1)
                         else SCont s1
             | None => SCont s1
             end) with
      | SCont s2 => SCont (set_last s2 true (e_uk e) (keyMaxSeq p))
      | f => f
      end
    else SCont s1.

  Definition phaseB (o : oracle) (i : nat) (e : entry) (s3 : bst) : sres :=
    if (lseq s3 <=? minSeq)%N then SCont (drop_entry s3 (e_seq e))
    else if ((e_kind e =? keyTypeDel p) && (e_seq e <=? minSeq))%N then
           let '(b, ptrs') := base_levels c deeper (cs_ptrs (cs s3)) (ukey s3) in
           let s4 := set_ptrs s3 ptrs' in
           if b then SCont (drop_entry s4 (e_seq e))
           else append_kv o i (IGood e) (set_seq s4 (e_seq e))
         else append_kv o i (IGood e) (set_seq s3 (e_seq e)).

  Lemma step_good_split o rp i e s :
    step_good o rp i e s = match phaseA o rp i e s with SCont s3 => phaseB o i e s3 | f => f end.
  Proof.
    unfold Builder.step_good, phaseA, phaseB.
    destruct (if rp then (false, cs s) else should_stop (cs s) (e_ikey e)) as [stop cs1].
    destruct (first_occ c (set_cs s cs1) (e_uk e)); [|reflexivity].
    destruct (tw (set_cs s cs1)) as [w|]; [|reflexivity].
    destruct (stop || need_flush w); [|reflexivity].
    destruct (o_flush o i); reflexivity.
  Qed.

  Definition snapped (s : bst) (i : nat) (m : bst) : Prop :=
    tw s <> None /\ tw m = None /\ restore m = m /\ sn_iter (snap m) = i.

  Lemma phaseA_resume i e m : tw m = None -> first_occ c m (e_uk e) = true ->
    phaseA o_ok true i e m = SCont (set_last m true (e_uk e) (keyMaxSeq p)).
  Proof. intros T F. unfold phaseA. cbv beta iota zeta. rewrite set_cs_same, F, T. reflexivity. Qed.

  Lemma phaseA_cases o rp i e s :
    (exists s1, phaseA o rp i e s = SFail s1 RErr /\ pers s1 = pers s) \/
    (exists s3, phaseA o rp i e s = SCont s3 /\ phaseA o_ok rp i e s = SCont s3 /\
       (pers s3 = pers s \/
        exists m, snapped s i m /\ pers s3 = pers m /\ phaseA o_ok true i e m = SCont s3)).
  Proof.
    unfold phaseA.
    destruct (if rp then (false, cs s) else should_stop (cs s) (e_ikey e)) as [stop cs1].
    destruct (first_occ c (set_cs s cs1) (e_uk e)) eqn:F.
    2:{ right. eexists. split; [reflexivity|]. split; [reflexivity|]. left. reflexivity. }
    destruct (tw (set_cs s cs1)) as [w|] eqn:T.
    2:{ right. eexists. split; [reflexivity|]. split; [reflexivity|]. left. reflexivity. }
    destruct (stop || need_flush w).
    2:{ right. eexists. split; [reflexivity|]. split; [reflexivity|]. left. reflexivity. }
    destruct (o_flush o i).
    { left. eexists. split; [reflexivity|]. reflexivity. }
    right. eexists. split; [reflexivity|]. cbn [o_flush o_ok]. split; [reflexivity|]. right.
    exists (flush_and_snapshot i w (set_cs s cs1)). split.
    { split; [cbn [tw set_cs] in T; rewrite T; discriminate|]. split; [reflexivity|]. split; reflexivity. }
    split; [reflexivity|].
    exact (phaseA_resume i e (flush_and_snapshot i w (set_cs s cs1)) eq_refl F).
  Qed.

  Lemma append_cases o i it s :
    (exists s', append_kv o i it s = SFail s' RErr /\ pers s' = pers s) \/
    (exists s', append_kv o i it s = SCont s' /\ append_kv o_ok i it s = SCont s' /\ pers s' = pers s).
  Proof.
    unfold append_kv. cbn [o_append o_ok].
    destruct (tw s) as [w|] eqn:T; destruct (o_append o i);
      try (right; eexists; split; [reflexivity|split; reflexivity]);
      left; eexists; split; reflexivity.
  Qed.

  Lemma phaseB_cases o i e s3 :
    (exists s', phaseB o i e s3 = SFail s' RErr /\ pers s' = pers s3) \/
    (exists s', phaseB o i e s3 = SCont s' /\ phaseB o_ok i e s3 = SCont s' /\ pers s' = pers s3).
  Proof.
    unfold phaseB. destruct (lseq s3 <=? minSeq)%N.
    { right. eexists. split; [reflexivity|split; reflexivity]. }
    destruct ((e_kind e =? keyTypeDel p) && (e_seq e <=? minSeq))%N.
    - destruct (base_levels c deeper (cs_ptrs (cs s3)) (ukey s3)) as [b ptrs'].
      destruct b.
      + right. eexists. split; [reflexivity|split; reflexivity].
      + destruct (append_cases o i (IGood e) (set_seq (set_ptrs s3 ptrs') (e_seq e))) as [[s' [E P]]|[s' [E [E' P]]]].
        * left. exists s'. split; [exact E|exact P].
        * right. exists s'. split; [exact E|]. split; [exact E'|exact P].
    - destruct (append_cases o i (IGood e) (set_seq s3 (e_seq e))) as [[s' [E P]]|[s' [E [E' P]]]].
      + left. exists s'. split; [exact E|exact P].
      + right. exists s'. split; [exact E|]. split; [exact E'|exact P].
  Qed.

  Lemma step_cases o rp i it s :
    match step o rp i it s with
    | SCont s' => step o_ok rp i it s = SCont s' /\
                  (pers s' = pers s \/
                   exists m, snapped s i m /\ pers s' = pers m /\ step o_ok true i it m = SCont s')
    | SFail s' RErr => pers s' = pers s \/
                       exists m, snapped s i m /\ pers s' = pers m /\ step o_ok rp i it s = step o_ok true i it m
    | SFail s' RCorrupt => step o_ok rp i it s = SFail s' RCorrupt /\ pers s' = pers s
    | SFail s' ROk => False
    end.
  Proof.
    destruct it as [e|bk bv].
    - cbn [Builder.step]. rewrite !step_good_split.
      destruct (phaseA_cases o rp i e s) as [[s1 [E P]]|[s3 [E [E' D]]]].
      + rewrite E. left. exact P.
      + rewrite E, E'.
        destruct (phaseB_cases o i e s3) as [[s' [B P]]|[s' [B [B' P]]]].
        * rewrite B. destruct D as [D|[m [Sn [Pm Am]]]].
          -- left. rewrite P. exact D.
          -- right. exists m. split; [exact Sn|]. split; [rewrite P; exact Pm|].
             rewrite step_good_split, Am. reflexivity.
        * rewrite B. split; [exact B'|]. destruct D as [D|[m [Sn [Pm Am]]]].
          -- left. rewrite P. exact D.
          -- right. exists m. split; [exact Sn|]. split; [rewrite P; exact Pm|].
             rewrite step_good_split, Am. exact B'.
    - cbn [Builder.step]. unfold Builder.step_bad. destruct strict.
      + split; reflexivity.
      + destruct (append_cases o i (IBad bk bv) (set_kerr (set_last s false [] (keyMaxSeq p)) (kerr s + 1)))
          as [[s' [E P]]|[s' [E [E' P]]]].
        * rewrite E. left. exact P.
        * rewrite E. split; [exact E'|]. left. exact P.
  Qed.

  (* a step that succeeds leaves a writer only if the index is positive afterwards (trivially) — and a writer exists
     at index i only if an entry before i was appended in this attempt *)

  (* ---- the loop ---- *)
  Lemma run_loop_k o k k' : forall l i rp s, k <= i -> k' <= i -> run_loop o k i rp l s = run_loop o k' i rp l s.
  Proof.
    induction l as [|it l IH]; intros i rp s H H'; cbn [Builder.run_loop].
    - reflexivity.
    - destruct (o_next o i); [reflexivity|].
      assert (E : Nat.ltb i k = false) by (apply Nat.ltb_ge; exact H).
      assert (E' : Nat.ltb i k' = false) by (apply Nat.ltb_ge; exact H').
      rewrite E, E'. destruct (step o rp i it s) as [s'|s' r]; [|reflexivity].
      apply IH; lia.
  Qed.

  Lemma skip_ok k rp s : forall pre l i, i + length pre <= k ->
    run_loop o_ok k i rp (pre ++ l) s = run_loop o_ok k (i + length pre) rp l s.
  Proof.
    induction pre as [|x pre IH]; intros l i H; cbn [app length].
    - rewrite Nat.add_0_r. reflexivity.
    - cbn [length] in H. cbn [Builder.run_loop o_next o_ok].
      assert (E : Nat.ltb i k = true) by (apply Nat.ltb_lt; lia). rewrite E.
      rewrite IH by lia. f_equal. lia.
  Qed.

  Lemma skip_or_fail o k rp s : forall pre l i, i + length pre <= k ->
    run_loop o k i rp (pre ++ l) s = (s, RErr) \/
    run_loop o k i rp (pre ++ l) s = run_loop o k (i + length pre) rp l s.
  Proof.
    induction pre as [|x pre IH]; intros l i H; cbn [app length].
    - right. rewrite Nat.add_0_r. reflexivity.
    - cbn [length] in H. cbn [Builder.run_loop]. destruct (o_next o i); [left; reflexivity|].
      assert (E : Nat.ltb i k = true) by (apply Nat.ltb_lt; lia). rewrite E.
      destruct (IH l (S i) ltac:(lia)) as [F|F]; [left; exact F|right].
      rewrite F. f_equal. lia.
  Qed.

  (* the failure-free rerun from the persistent part of a state *)
  Definition redo (sA : bst) : bst * rres :=
    let r := restore (set_tw sA None) in
    run_loop o_ok (sn_iter (snap r)) 0 (Nat.ltb 0 (sn_iter (snap r))) items r.

  Lemma redo_pers sA sB : pers sA = pers sB -> redo sA = redo sB.
  Proof.
    intros E. unfold redo.
    assert (R : restore (set_tw sA None) = restore (set_tw sB None)) by (apply restore_det; [exact E|reflexivity]).
    rewrite R. reflexivity.
  Qed.

  Lemma redo_snapped s i m pre it l k :
    items = pre ++ it :: l -> length pre = i -> snapped s i m -> 0 < i -> k <= i ->
    redo m = match step o_ok true i it m with
             | SCont s' => run_loop o_ok k (S i) false l s'
             | SFail s' r => (s', r)
             end.
  Proof.
    intros Ei Hl [_ [T [R Si]]] Hpos Hk.
    unfold redo. rewrite (set_tw_none m T), R, Si.
    assert (E0 : Nat.ltb 0 i = true) by (apply Nat.ltb_lt; exact Hpos). rewrite E0.
    rewrite Ei. rewrite (skip_ok i true m pre (it :: l) 0) by lia. cbn [plus]. rewrite Hl.
    cbn [Builder.run_loop o_next o_ok]. rewrite Nat.ltb_irrefl.
    destruct (step o_ok true i it m) as [s'|s' r]; [|reflexivity].
    apply run_loop_k; lia.
  Qed.

  Lemma sim o k : forall l pre i rp s, items = pre ++ l -> length pre = i -> k <= i -> (tw s <> None -> 0 < i) ->
    let A := run_loop o k i rp l s in
    let B := run_loop o_ok k i rp l s in
    (snd A <> RErr -> A = B) /\
    ((snd A = RErr \/ tw (fst A) <> None) ->
       pers (fst A) = pers s \/ (redo (fst A) = B /\ sn_iter (snap (fst A)) < length items)).
  Proof.
    induction l as [|it l IH]; intros pre i rp s Ei Hl Hk Hw; cbn zeta.
    - cbn [Builder.run_loop o_next o_ok o_flush]. destruct (o_next o i).
      { cbn [fst snd]. split; [intros H; exfalso; apply H; reflexivity|]. intros _. left. reflexivity. }
      destruct (tw s) as [w|] eqn:T.
      + destruct (tw_empty w).
        * cbn [fst snd]. split; [reflexivity|]. intros _. left. reflexivity.
        * destruct (o_flush o i); cbn [fst snd].
          -- split; [intros H; exfalso; apply H; reflexivity|]. intros _. left. reflexivity.
          -- split; [reflexivity|]. intros [H|H]; [discriminate|]. cbn [tw] in H. exfalso. apply H. reflexivity.
      + cbn [fst snd]. split; [reflexivity|]. intros [H|H]; [discriminate|]. exfalso. apply H. exact T.
    - cbn [Builder.run_loop o_next o_ok]. destruct (o_next o i).
      { cbn [fst snd]. split; [intros H; exfalso; apply H; reflexivity|]. intros _. left. reflexivity. }
      assert (E : Nat.ltb i k = false) by (apply Nat.ltb_ge; exact Hk). rewrite E.
      assert (Hlt : i < length items) by (rewrite Ei, app_length; cbn [length]; lia).
      pose proof (step_cases o rp i it s) as SC.
      destruct (step o rp i it s) as [s'|s' r].
      + destruct SC as [Eok D]. rewrite Eok.
        assert (Ei' : items = (pre ++ [it]) ++ l) by (rewrite <- app_assoc; exact Ei).
        assert (Hl' : length (pre ++ [it]) = S i) by (rewrite app_length; cbn [length]; lia).
        destruct (IH (pre ++ [it]) (S i) false s' Ei' Hl' ltac:(lia) ltac:(intros _; lia)) as [I1 I2].
        split; [exact I1|]. intros H. destruct (I2 H) as [P|[Rd Lt]].
        * destruct D as [D|[m [Sn [Pm St]]]].
          -- left. rewrite P. exact D.
          -- right. assert (Hpos : 0 < i) by (apply Hw; destruct Sn as [Sn _]; exact Sn).
             split.
             ++ rewrite (redo_pers _ m) by (rewrite P; exact Pm).
                pose proof (redo_snapped s i m pre it l k Ei Hl Sn Hpos Hk) as Rm. rewrite Rm, St. reflexivity.
             ++ assert (Es : snap (fst (run_loop o k (S i) false l s')) = snap m).
                { assert (Q : pers (fst (run_loop o k (S i) false l s')) = pers m) by (rewrite P; exact Pm).
                  unfold pers in Q. injection Q as Q1 _. exact Q1. }
                rewrite Es. destruct Sn as [_ [_ [_ Si]]]. rewrite Si. exact Hlt.
        * right. split; [exact Rd|exact Lt].
      + destruct r.
        * destruct SC.
        * cbn [fst snd]. split; [intros H; exfalso; apply H; reflexivity|]. intros _.
          destruct SC as [P|[m [Sn [Pm St]]]]; [left; exact P|right].
          assert (Hpos : 0 < i) by (apply Hw; destruct Sn as [Sn _]; exact Sn).
          split.
          -- rewrite (redo_pers _ m Pm).
             pose proof (redo_snapped s i m pre it l k Ei Hl Sn Hpos Hk) as Rm. rewrite Rm, St. reflexivity.
          -- assert (Es : snap s' = snap m) by (unfold pers in Pm; injection Pm as Q1 _; exact Q1).
             rewrite Es. destruct Sn as [_ [_ [_ Si]]]. rewrite Si. exact Hlt.
        * destruct SC as [Eok P]. rewrite Eok. cbn [fst snd]. split; [reflexivity|]. intros _. left. exact P.
  Qed.

  (* ---- attempts ---- *)
  Definition ff_result : bst * rres := run_attempt o_ok items bst0.

  Definition inv (s : bst) : Prop :=
    tw s = None /\ sn_iter (snap s) <= length items /\ run_attempt o_ok items s = ff_result.

  Lemma inv0 : inv bst0.
  Proof. split; [reflexivity|]. split; [cbn; lia|reflexivity]. Qed.

  Lemma run_attempt_pers o s s' : pers s = pers s' -> tw s = tw s' -> run_attempt o items s = run_attempt o items s'.
  Proof. intros E T. unfold Builder.run_attempt. rewrite (restore_det s s' E T). reflexivity. Qed.

  Lemma attempt_sim o s : inv s ->
    match snd (run_attempt o items s) with
    | RErr => inv (fst (run_attempt o items s))
    | _ => run_attempt o items s = ff_result
    end.
  Proof.
    intros [T [Hk F]].
    set (k := sn_iter (snap s)) in *.
    assert (Ks : sn_iter (snap (restore s)) = k) by reflexivity.
    assert (T0 : tw (restore s) = None) by exact T.
    assert (P0 : pers (restore s) = pers s) by reflexivity.
    (* the failure-free attempt from s, with the skip unfolded *)
    assert (Split : items = firstn k items ++ skipn k items) by (symmetry; apply firstn_skipn).
    assert (Lf : length (firstn k items) = k) by (apply firstn_length_le; exact Hk).
    set (rp := Nat.ltb 0 k).
    set (B := run_loop o_ok k k rp (skipn k items) (restore s)).
    assert (FB : Builder.cleanup o_ok B = ff_result).
    { rewrite <- F. unfold Builder.run_attempt. rewrite Ks. fold rp. rewrite Split at 1.
      rewrite (skip_ok k rp (restore s) (firstn k items) (skipn k items) 0) by lia.
      cbn [plus]. rewrite Lf. reflexivity. }
    assert (EA : run_attempt o items s = Builder.cleanup o (run_loop o k 0 rp items (restore s))) by reflexivity.
    rewrite EA. clear EA.
    assert (Hsk := skip_or_fail o k rp (restore s) (firstn k items) (skipn k items) 0 ltac:(lia)).
    rewrite <- Split in Hsk. cbn [plus] in Hsk. rewrite Lf in Hsk.
    destruct Hsk as [Hf|Hs].
    { (* the iterator failed while skipping *)
      rewrite Hf. unfold Builder.cleanup. cbn [fst snd]. rewrite T0. cbn [fst snd].
      split; [exact T0|]. split; [exact Hk|].
      rewrite (run_attempt_pers o_ok (restore s) s P0 eq_refl). exact F. }
    rewrite Hs.
    destruct (sim o k (skipn k items) (firstn k items) k rp (restore s) Split Lf (le_n k)
                ltac:(intros H; exfalso; apply H; exact T0)) as [S1 S2].
    fold B in S1, S2.
    set (A := run_loop o k k rp (skipn k items) (restore s)) in *.
    (* what a state with the persistent part of [x] and no writer gives *)
    assert (InvOf : forall x, (pers x = pers (restore s) \/ (redo x = B /\ sn_iter (snap x) < length items)) ->
                              inv (set_tw x None)).
    { intros x [Px|[Rx Lx]].
      - split; [reflexivity|]. split.
        + change (sn_iter (snap x) <= length items).
          assert (Q : snap x = snap s) by (rewrite P0 in Px; unfold pers in Px; injection Px as Q1 _; exact Q1).
          rewrite Q. exact Hk.
        + rewrite (run_attempt_pers o_ok (set_tw x None) s); [exact F| |rewrite T; reflexivity].
          rewrite <- P0, <- Px. reflexivity.
      - split; [reflexivity|]. split; [change (sn_iter (snap x) <= length items); lia|].
        unfold Builder.run_attempt. unfold redo in Rx. rewrite Rx. exact FB. }
    unfold Builder.cleanup.
    destruct (tw (fst A)) as [w|] eqn:TA.
    - cbn [fst snd]. destruct (o_cleanup o) eqn:Oc.
      + apply InvOf. apply S2. right. discriminate.
      + destruct (snd A) eqn:SA.
        * rewrite <- FB. rewrite <- S1 by discriminate.
          unfold Builder.cleanup. rewrite TA. cbn [o_cleanup o_ok]. rewrite SA. reflexivity.
        * apply InvOf. apply S2. left. reflexivity.
        * rewrite <- FB. rewrite <- S1 by discriminate.
          unfold Builder.cleanup. rewrite TA. cbn [o_cleanup o_ok]. rewrite SA. reflexivity.
    - destruct (snd A) eqn:SA.
      + rewrite <- FB. rewrite <- S1 by discriminate.
        unfold Builder.cleanup. rewrite TA. reflexivity.
      + rewrite <- (set_tw_none (fst A) TA). apply InvOf. apply S2. left. reflexivity.
      + rewrite <- FB. rewrite <- S1 by discriminate.
        unfold Builder.cleanup. rewrite TA. reflexivity.
  Qed.

  (* every attempt that does not end in a retried error ends exactly like the failure-free run — for every history of
     failed attempts before it *)
  Theorem transact_inv : forall os s s', inv s -> transact os items s = (s', TDone) -> ff_result = (s', ROk).
  Proof.
    induction os as [|o os IH]; intros s s' I H; cbn [Builder.transact] in H; [discriminate|].
    destruct (o_closed o); [discriminate|].
    pose proof (attempt_sim o s I) as AS.
    destruct (run_attempt o items s) as [s1 r] eqn:E. cbn [fst snd] in AS.
    destruct (o_closed_sel o); [discriminate|].
    destruct r.
    - injection H as <-. symmetry. exact AS.
    - destruct (o_perr o); [discriminate|]. apply (IH s1 s' AS H).
    - discriminate.
  Qed.

  Theorem retry_invariant os s' :
    transact os items bst0 = (s', TDone) -> run_attempt o_ok items bst0 = (s', ROk).
  Proof. intros H. apply (transact_inv os bst0 s' inv0 H). Qed.

  (* an exit caused by a corrupted key under StrictCompaction happens iff the failure-free run meets it too: the state it
     ends in is the failure-free one *)
  Theorem corrupt_exit_inv o s : inv s -> snd (run_attempt o items s) = RCorrupt -> run_attempt o items s = ff_result.
  Proof. intros I H. pose proof (attempt_sim o s I) as AS. rewrite H in AS. exact AS. Qed.
End Retry.
