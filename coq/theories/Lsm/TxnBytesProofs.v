(* Lsm/TxnBytesProofs.v — proofs about the byte-level transaction machine of Lsm/TxnBytes.v:
   (A) the read path with the transaction's memdb and tables (DB.get with auxm / auxt) refines the L1 read
       path on the abstraction that has the private memdb as first buffer and the private tables as aux level;
   (B) one Put / Delete, a private flush, a (possibly failing) Write keep the transaction's invariant and
       apply exactly a prefix of the records, stamped tr.seq+1, tr.seq+2, ...;
   (C) the byte machine refines the history-level machine of Lsm/Txn.v, step by step;
   (D) reads inside = base overlaid with the applied records, reads outside = base, on bytes. *)
From GL Require Import Base.Bytes Base.Order Base.OrderProofs Codec.IKey Codec.IKeyProofs Codec.Table
  Lsm.Lsm Lsm.Compact Lsm.LsmProofs Lsm.CompactProofs Lsm.History Lsm.HistoryProofs
  Lsm.ReadPath Lsm.ReadPathKey Lsm.ReadPathMem Lsm.ReadPathTable Lsm.ReadPathProofs Lsm.ReorgProofs
  Lsm.BatchWriteProofs Lsm.Txn Lsm.TxnProofs Lsm.IterPath Lsm.IterPathProofs Lsm.IterPathAbs Lsm.TxnBytes.
From GL Require Mem.MemDB Mem.MemOps Mem.MemInv Codec.Batch.
From GL Require Import Iter.Cursor Iter.CursorProofs Iter.Merged Iter.MergedProofs Iter.LiveProofs.
From GL Require Iter.DBIter.
From Coq Require Import ZArith Lia Permutation.
Open Scope N_scope.

Section Reads.
  Variable c : comparer.
  Hypothesis ok : comparer_ok c.
  Variable p : kparams.
  Hypothesis pok : kparams_ok p.
  Hypothesis seek_val : keyTypeSeek p <= keyTypeVal p.
  Variable mp : MemDB.mparams.
  Hypothesis mpok : MemDB.mparams_ok mp.
  Variable tp : tparams.
  Variable crc : bytes -> N.
  Variable decompress : bytes -> option bytes.
  Variable fname : option bytes.
  Variable ufc : bytes -> N -> bytes -> bool.
  Variable verify : bool.
  Variable ri : N.

  Local Notation okb := (tfile_okb c p tp crc decompress fname ufc verify ri).
  Local Notation pairs := (tf_pairs c tp crc decompress fname ufc verify ri).
  Local Notation atab := (abs_table c tp crc decompress fname ufc verify ri).
  Local Notation absS := (abs c mp tp crc decompress fname ufc verify ri).

  (* the L1 state DB.get(auxm, auxt, ...) walks once the private memdb missed: the DB's own buffers (empty while a
     transaction is open), the private tables as aux level, the version *)
  Definition aux_state (auxt : list tfile) (st : bstate) : lstate :=
    {| st_mem := mem_entries mp (bs_mem st); st_frozen := mem_entries mp (bs_frozen st);
       st_aux := map atab auxt; st_levels := map (map atab) (bs_levels st) |}.

  Lemma probe_dec k s : wf_bytes k -> s <= keyMaxSeq p -> ik_dec (encode_ikey (probe p k s)) = Some (probe p k s).
  Proof.
    intros Wk Hs. apply ik_dec_encode; [exact Wk|]. unfold probe, pack. cbn [num].
    destruct pok as (_ & _ & _ & H256 & Hmax & _). rewrite Hmax in Hs.
    change (2 ^ 64) with (2 ^ 56 * 256). change (2 ^ 56) with 72057594037927936 in *. nia.
  Qed.

  (* DB.get with the transaction's memdb and tables, on bytes = Lsm/Txn.v's txn_lsm_get on the abstraction.
     Needs of the components only what the byte-level theorems of C01 need: C14's invariant of the memdbs,
     the format check of every file, the deeper levels sorted. *)
  Theorem db_get_aux_refines auxm auxt st k s : wf_bytes k -> s <= keyMaxSeq p ->
    mem_ok c p mp auxm -> wf_bstate c p mp tp crc decompress fname ufc verify ri st ->
    Forall (fun f => okb f = true) auxt ->
    db_get_aux c p mp tp crc decompress fname ufc verify (Some auxm) auxt st k s =
    BRes (txn_lsm_get c p (mem_entries mp (Some auxm)) (aux_state auxt st) k s).
  Proof.
    intros Wk Hs Ham [Hm Hf Ht Ha] Hat. unfold db_get_aux.
    assert (MK : make_ikey p k s (keyTypeSeek p) = MkOk (probe p k s)).
    { unfold make_ikey. replace (keyMaxSeq p <? s) with false by (symmetry; apply N.ltb_ge; exact Hs).
      replace (keyTypeVal p <? keyTypeSeek p) with false by (symmetry; apply N.ltb_ge; exact seek_val). reflexivity. }
    rewrite MK, (ik_dec_ukey _ _ (probe_dec k s Wk Hs)). cbn [uk probe].
    unfold txn_lsm_get, lsm_get, aux_state. cbn [st_mem st_frozen st_aux st_levels].
    rewrite (mem_get_opt_comp c ok p pok seek_val mp mpok k s Wk Hs (Some auxm)) by (intros m E; injection E as <-; exact Ham).
    destruct (comp_get c p (mem_entries mp (Some auxm)) k s); try reflexivity.
    rewrite (mem_get_opt_comp c ok p pok seek_val mp mpok k s Wk Hs _ Hm).
    destruct (comp_get c p (mem_entries mp (bs_mem st)) k s); try reflexivity.
    rewrite (mem_get_opt_comp c ok p pok seek_val mp mpok k s Wk Hs _ Hf).
    destruct (comp_get c p (mem_entries mp (bs_frozen st)) k s); try reflexivity.
    pose proof (wf_deep c p _ Ha) as Hd. unfold abs in Hd. cbn [st_levels] in Hd.
    pose proof (version_get_refines c ok p pok seek_val tp crc decompress fname ufc verify ri k s Wk Hs (bs_levels st) Ht Hd) as VG.
    unfold version_get_aux. destruct auxt as [|f auxt'].
    - rewrite VG. reflexivity.
    - pose proof (walk_l0_group c ok p pok seek_val tp crc decompress fname ufc verify ri k s Wk Hs (f :: auxt') Hat None) as W.
      cbn [option_map] in W. rewrite W. unfold version_get at 1.
      destruct (group_get c p (map atab (f :: auxt')) k s None) as [e|] eqn:Eg; cbn [option_map lf_check group_res].
      + apply group_get_in in Eg as [Eg|(t0 & Ht0 & He)]; [discriminate|].
        apply in_map_iff in Ht0 as (f0 & <- & Hf0). rewrite Forall_forall in Hat.
        unfold zproj. cbn [fst snd]. rewrite (kt_result_entry c p pok tp crc decompress fname ufc verify ri f0 e (Hat _ Hf0) He).
        pose proof (res_nonmiss p e). destruct (res_of p e); congruence.
      + unfold version_get_bytes in VG. rewrite VG. unfold version_get. cbn [group_get group_res]. reflexivity.
  Qed.
End Reads.

(* ------------------------------------------------------------------ (B) Put / Delete / flush / Write *)
Section Txn.
  Variable c : comparer.
  Hypothesis ok : comparer_ok c.
  Variable p : kparams.
  Hypothesis pok : kparams_ok p.
  Hypothesis seek_val : keyTypeSeek p <= keyTypeVal p.
  Variable mp : MemDB.mparams.
  Hypothesis mpok : MemDB.mparams_ok mp.
  Variable tp : tparams.
  Variable crc : bytes -> N.
  Variable decompress : bytes -> option bytes.
  Variable fname : option bytes.
  Variable ufc : bytes -> N -> bytes -> bool.
  Variable verify : bool.
  Variable ri : N.
  Variable rp : SR.rparams.

  Local Notation ic := (ibc c).
  Local Notation okb := (tfile_okb c p tp crc decompress fname ufc verify ri).
  Local Notation pairs := (tf_pairs c tp crc decompress fname ufc verify ri).
  Local Notation atab := (abs_table c tp crc decompress fname ufc verify ri).
  Local Notation absS := (abs c mp tp crc decompress fname ufc verify ri).
  Local Notation T_flush := (t_flush mp rp).
  Local Notation T_put := (t_put c p mp rp).
  Local Notation T_puts := (t_puts c p mp rp).

  Definition tab_entries (ts : list tfile) : list entry := level_entries (map atab ts).
  Definition mem_es (t : ttxn) : list entry := mem_entries mp (Some (tt_mem t)).
  (* everything the transaction holds: its memdb and its private tables *)
  Definition priv_entries (t : ttxn) : list entry := mem_es t ++ tab_entries (tt_tables t).

  Definition seq_inj (l : list entry) : Prop := forall a b, In a l -> In b l -> e_seq a = e_seq b -> a = b.

  (* the transaction's invariant, relative to the sequence number [base] the DB had when it was opened: the memdb
     satisfies C14's invariant, the private tables pass the format check and are sorted entry lists, every
     private entry carries its own sequence number in (base, tr.seq], the tables hold the older ones *)
  Record tinv (base : N) (t : ttxn) : Prop := {
    ti_mem : mem_ok c p mp (tt_mem t);
    ti_tabs : Forall (fun f => okb f = true) (tt_tables t);
    ti_tok : tables_ok c p (map atab (tt_tables t));
    ti_uniq : uniq (tab_entries (tt_tables t));
    ti_cut : exists fs, base <= fs /\ fs <= tt_seq t /\
               (forall x, In x (tab_entries (tt_tables t)) -> base < e_seq x <= fs) /\
               (forall x, In x (mem_es t) -> fs < e_seq x <= tt_seq t);
    ti_inj : seq_inj (priv_entries t);
    ti_max : tt_seq t <= keyMaxSeq p
  }.

  (* the records applied so far: exactly the transaction's entries, stamped base+1, base+2, ... *)
  Definition applied_rel (base : N) (wr : list wrec) (t : ttxn) : Prop :=
    tt_seq t = base + N.of_nat (length wr) /\ same_elems (priv_entries t) (stamp base wr).

  (* the contract of the table writer (property C13's writer theorems; evaluated at every observed flush by the
     correspondence): the file passes the format check and holds exactly the pairs of the memdb *)
  Definition flush_ok (t : ttxn) (fo : flush_out) : Prop :=
    match fo with
    | FlOk f _ => okb f = true /\ pairs f = mem_pairs mp (tt_mem t)
    | FlErr => True
    end.

  Definition put_pre (t : ttxn) (kt : N) (k : bytes) (o : put_in) : Prop :=
    (kt = keyTypeDel p \/ kt = keyTypeVal p) /\ wf_bytes k /\
    1 <= pi_h o <= MemDB.tMaxHeight mp /\ tt_seq t + 1 <= keyMaxSeq p /\ flush_ok t (pi_flush o).

  (* ---- memdb facts ---- *)
  Lemma mem_ok_sorted d : mem_ok c p mp d ->
    ssorted c (mem_entries mp (Some d)) /\ kinds_ok p (mem_entries mp (Some d)).
  Proof.
    intros [(A & L & I) Hk].
    assert (Hks : keys_ok p (mem_pairs mp d)).
    { unfold keys_ok. apply Forall_forall. unfold mem_keys_okb in Hk. rewrite forallb_forall in Hk. exact Hk. }
    split; cbn [mem_entries].
    - apply (sorted_ssorted c ok p _ Hks). apply (mem_pairs_sorted c p seek_val mp mpok d A L I).
    - apply (keys_ok_kinds p pok _ Hks).
  Qed.

  Lemma mem_ok_empty d : mem_ok c p mp d -> (MemDB.mdb_len d = 0)%Z -> mem_pairs mp d = [].
  Proof.
    intros [(A & L & I) _] Hn. rewrite (mem_pairs_abs c p seek_val mp mpok d A L I).
    pose proof (MemInv.inv_n _ _ _ _ _ I) as En. unfold MemDB.mdb_len in Hn. rewrite Hn in En.
    destruct L; [reflexivity|cbn [length] in En; lia].
  Qed.

  Lemma rep_empty_ok d : MemOps.rep ic mp d [] [] [] 0 -> mem_ok c p mp d /\ mem_pairs mp d = [].
  Proof.
    intros (I & Ea & _).
    assert (E : mem_pairs mp d = []) by (rewrite (mem_pairs_abs c p seek_val mp mpok d [] [] I); reflexivity).
    split; [|exact E]. split; [exists [], []; exact I|]. unfold mem_keys_okb. rewrite E. reflexivity.
  Qed.

  (* ---- lists ---- *)
  Lemma tab_entries_snoc ts f : tab_entries (ts ++ [f]) = tab_entries ts ++ map entry_of (pairs f).
  Proof.
    unfold tab_entries, level_entries. rewrite !map_app, concat_app. cbn [map concat abs_table t_entries].
    rewrite app_nil_r. reflexivity.
  Qed.

  Lemma seq_inj_same l1 l2 : same_elems l1 l2 -> seq_inj l1 -> seq_inj l2.
  Proof. intros S H a b Ha Hb. apply H; apply S; assumption. Qed.

  Lemma nodup_keyseq l : NoDup (map e_ikey l) -> seq_inj l -> uniq l.
  Proof.
    unfold uniq. induction l as [|a l IH]; intros Hn Hi; [constructor|]. cbn [map] in *.
    apply NoDup_cons_iff in Hn as [Hna Hn]. constructor.
    - intros Hin. apply in_map_iff in Hin as (b & E & Hb). apply Hna.
      assert (a = b).
      { apply Hi; [left; reflexivity|right; exact Hb|]. unfold keyseq in E. congruence. }
      subst b. apply in_map. exact Hb.
    - apply IH; [exact Hn|]. intros x y Hx Hy. apply Hi; right; assumption.
  Qed.

  Lemma uniq_app A M : uniq A -> uniq M -> (forall a b, In a A -> In b M -> e_seq a <> e_seq b) -> uniq (A ++ M).
  Proof.
    unfold uniq. intros HA HM Hd. rewrite map_app. induction A as [|a A IH]; [exact HM|].
    cbn [map app] in *. apply NoDup_cons_iff in HA as [Hna HA]. constructor.
    - intros Hin. apply in_app_or in Hin as [Hin|Hin]; [exact (Hna Hin)|].
      apply in_map_iff in Hin as (b & E & Hb). apply (Hd a b); [left; reflexivity|exact Hb|]. unfold keyseq in E. congruence.
    - apply IH; [exact HA|]. intros x y Hx Hy. apply Hd; [right; exact Hx|exact Hy].
  Qed.

  (* ---- Transaction.flush ---- *)
  Lemma t_flush_ok base t fo t' r : tinv base t -> flush_ok t fo -> T_flush t fo = (t', r) ->
    match r with
    | TOk => tinv base t' /\ same_elems (priv_entries t') (priv_entries t) /\ tt_seq t' = tt_seq t /\
             tt_closed t' = tt_closed t /\ tt_cfailed t' = tt_cfailed t /\ mem_es t' = []
    | TErr e => e = ETable /\ fo = FlErr /\ t' = t
    | _ => False
    end.
  Proof.
    intros [Hm Ht Htok Hu (fs & Hb & Hfs & Hcut1 & Hcut2) Hi Hmax] Hfo. unfold t_flush.
    destruct (MemDB.mdb_len (tt_mem t) =? 0)%Z eqn:El.
    - intros E. injection E as <- <-. apply Z.eqb_eq in El.
      assert (Em : mem_es t = []) by (unfold mem_es; cbn [mem_entries]; rewrite (mem_ok_empty _ Hm El); reflexivity).
      split; [constructor; try assumption; exists fs; auto|].
      split; [intros x; tauto|]. repeat split; try reflexivity. exact Em.
    - destruct fo as [f poolcap|]; [|intros E; injection E as <- <-; auto].
      destruct Hfo as [Hf Hp].
      assert (Ef : map entry_of (pairs f) = mem_es t) by (unfold mem_es; cbn [mem_entries]; rewrite Hp; reflexivity).
      destruct (mem_ok_sorted _ Hm) as [Hs Hk]. fold (mem_es t) in Hs, Hk.
      (* the state after the flush, for any fresh (empty, well-formed) memdb *)
      assert (G : forall d cap refs, mem_ok c p mp d -> mem_pairs mp d = [] ->
        let t2 := mkTT (tt_seq t) d cap refs (tt_tables t ++ [f]) (SR.add_table rp (tt_rec t) (at_of 0 f)) (tt_closed t) (tt_cfailed t) in
        tinv base t2 /\ same_elems (priv_entries t2) (priv_entries t) /\ tt_seq t2 = tt_seq t /\
        tt_closed t2 = tt_closed t /\ tt_cfailed t2 = tt_cfailed t /\ mem_es t2 = []).
      { intros d cap refs Hd Ed t2.
        assert (Em2 : mem_es t2 = []) by (unfold mem_es, t2; cbn [tt_mem mem_entries]; rewrite Ed; reflexivity).
        assert (Et2 : tab_entries (tt_tables t2) = tab_entries (tt_tables t) ++ mem_es t)
          by (unfold t2; cbn [tt_tables]; rewrite tab_entries_snoc, Ef; reflexivity).
        assert (SE : same_elems (priv_entries t2) (priv_entries t)).
        { intros x. unfold priv_entries. rewrite Em2, Et2. cbn [app]. rewrite !in_app_iff. tauto. }
        split; [|split; [exact SE|repeat split; try reflexivity; exact Em2]].
        constructor.
        - exact Hd.
        - unfold t2; cbn [tt_tables]. apply Forall_app. split; [exact Ht|constructor; [exact Hf|constructor]].
        - unfold t2; cbn [tt_tables]. unfold tables_ok. rewrite map_app. apply Forall_app. split; [exact Htok|].
          constructor; [|constructor]. unfold table_ok, abs_table. cbn [t_entries]. rewrite Ef. split; assumption.
        - rewrite Et2. apply uniq_app; [exact Hu| |].
          + apply nodup_keyseq; [apply (ssorted_nodup c ok); exact Hs|].
            intros a b Ha Hb'. apply Hi; unfold priv_entries; apply in_or_app; left; assumption.
          + intros a b Ha Hb' E. specialize (Hcut1 a Ha). specialize (Hcut2 b Hb'). lia.
        - exists (tt_seq t). change (tt_seq t2) with (tt_seq t). split; [lia|]. split; [lia|]. split.
          + intros x Hx. rewrite Et2 in Hx. apply in_app_or in Hx as [Hx|Hx]; [specialize (Hcut1 x Hx)|specialize (Hcut2 x Hx)]; lia.
          + intros x Hx. rewrite Em2 in Hx. destruct Hx.
        - apply (seq_inj_same (priv_entries t)); [intros x; symmetry; apply SE|exact Hi].
        - exact Hmax. }
      destruct (tt_refs t =? 1).
      + destruct Hm as [(A & L & I) Hk0].
        destruct (MemOps.reset_ok ic mp mpok (tt_mem t) (MemInv.inv_head _ _ _ _ _ I)) as (d' & E & R). rewrite E.
        intros E2. injection E2 as <- <-. destruct (rep_empty_ok d' R) as [Hd Ed].
        apply (G d' (tt_cap t) (tt_refs t) Hd Ed).
      + destruct (MemOps.new_ok ic mp mpok) as (d' & E & R). rewrite E.
        intros E2. injection E2 as <- <-. destruct (rep_empty_ok d' R) as [Hd Ed].
        apply (G d' poolcap 1 Hd Ed).
  Qed.

  (* ---- Transaction.put ---- *)
  Lemma max_lt_64 : keyMaxSeq p < 2 ^ 64.
  Proof.
    destruct pok as (_ & _ & _ & _ & Hm & _). rewrite Hm. change (2 ^ 56) with 72057594037927936.
    change (2 ^ 64) with 18446744073709551616. lia.
  Qed.

  Lemma stamp_one s kt k v : stamp s [(kt, k, v)] = [{| e_uk := k; e_seq := s + 1; e_kind := kt; e_val := v |}].
  Proof. reflexivity. Qed.

  Lemma t_put_ok base wr t kt k v o t' r : tinv base t -> applied_rel base wr t -> put_pre t kt k o ->
    T_put t kt k v o = (t', r) ->
    match r with
    | TOk => tinv base t' /\ applied_rel base (wr ++ [(kt, k, v)]) t' /\ tt_closed t' = tt_closed t /\ tt_cfailed t' = tt_cfailed t
    | TErr e => e = ETable /\ pi_flush o = FlErr /\ t' = t
    | _ => False
    end.
  Proof.
    intros TI [Hseq SE] (Hkt & Wk & Hh & Hnext & Hfo). unfold t_put.
    pose proof max_lt_64 as H64. pose proof (del_le_val p pok) as Hdv.
    assert (Hle : kt <= keyTypeVal p) by (destruct Hkt as [-> | ->]; lia).
    rewrite (Codec.BatchProofs.u64_small (tt_seq t + 1)) by lia.
    rewrite (make_ikey_ok p seek_val k (tt_seq t + 1) kt Hnext Hle).
    set (need := lenN (encode_ikey {| uk := k; num := pack (tt_seq t + 1) kt |}) + lenN v).
    (* the state the record is put into: after the flush, if one is due *)
    assert (F : forall t1 r1,
      (if tt_cap t - MemDB.mdb_used (tt_mem t) <? need then T_flush t (pi_flush o) else (t, TOk)) = (t1, r1) ->
      match r1 with
      | TOk => tinv base t1 /\ same_elems (priv_entries t1) (priv_entries t) /\ tt_seq t1 = tt_seq t /\ tt_closed t1 = tt_closed t /\ tt_cfailed t1 = tt_cfailed t
      | TErr e => e = ETable /\ pi_flush o = FlErr /\ t1 = t
      | _ => False
      end).
    { intros t1 r1. destruct (tt_cap t - MemDB.mdb_used (tt_mem t) <? need).
      - intros E. pose proof (t_flush_ok base t (pi_flush o) t1 r1 TI Hfo E) as G.
        destruct r1; try exact G. destruct G as (G1 & G2 & G3 & G4 & G5 & _). auto.
      - intros E. injection E as <- <-. split; [exact TI|]. split; [intros x; tauto|]. auto. }
    destruct (if tt_cap t - MemDB.mdb_used (tt_mem t) <? need then T_flush t (pi_flush o) else (t, TOk)) as [t1 r1] eqn:Ef.
    specialize (F t1 r1 eq_refl).
    destruct r1 as [|e| |]; try (intros E; injection E as <- <-; exact F).
    destruct F as (TI1 & SE1 & Es1 & Ec1 & Ecf1).
    destruct TI1 as [Hm Ht Htok Hu (fs & Hb & Hfs & Hcut1 & Hcut2) Hi Hmax].
    assert (Hfresh : forall x, In x (mem_entries mp (Some (tt_mem t1))) -> e_seq x <= tt_seq t1)
      by (intros x Hx; specialize (Hcut2 x Hx); lia).
    assert (Hw : Forall (rec_wf p) [(kt, k, v)]) by (constructor; [split; assumption|constructor]).
    assert (Hhs : heights_okl mp [pi_h o]) by (constructor; [exact Hh|constructor]).
    destruct (putmem_recs_history c ok p pok seek_val mp mpok (tt_mem t1) [(kt, k, v)] (tt_seq t1) [pi_h o] Hm Hfresh Hw
                ltac:(cbn [length]; lia) Hhs) as (d' & hs' & E & Hm' & _ & Hin).
    cbn [Batch.putmem_recs] in E. rewrite (Codec.BatchProofs.u64_small (tt_seq t1 + 1)) in E by lia.
    rewrite Es1 in E. destruct (Batch.put_one p ic mp (tt_mem t1) [pi_h o] k (tt_seq t + 1) kt v) as [d2 hs2| |] eqn:Ep; try discriminate.
    injection E as -> ->. intros E. injection E as <- <-.
    rewrite stamp_one in Hin.
    set (ne := {| e_uk := k; e_seq := tt_seq t1 + 1; e_kind := kt; e_val := v |}) in *.
    set (t2 := mkTT (tt_seq t + 1) d' (if tt_cap t1 <? MemDB.mdb_used d' then pi_gcap o else tt_cap t1) (tt_refs t1)
                    (tt_tables t1) (tt_rec t1) (tt_closed t1) (tt_cfailed t1)).
    assert (Em2 : forall x, In x (mem_es t2) <-> In x (mem_es t1) \/ x = ne).
    { intros x. unfold mem_es, t2. cbn [tt_mem]. rewrite Hin. cbn [In]. intuition. }
    assert (SE2 : forall x, In x (priv_entries t2) <-> In x (priv_entries t1) \/ x = ne).
    { intros x. unfold priv_entries. change (tt_tables t2) with (tt_tables t1). rewrite !in_app_iff, Em2. tauto. }
    split; [|split; [|split; assumption]].
    - constructor.
      + exact Hm'.
      + exact Ht.
      + exact Htok.
      + exact Hu.
      + exists fs. change (tt_seq t2) with (tt_seq t + 1). change (tt_tables t2) with (tt_tables t1). split; [exact Hb|]. split; [lia|]. split; [exact Hcut1|].
        intros x Hx. apply Em2 in Hx as [Hx| ->]; [specialize (Hcut2 x Hx); lia|unfold ne; cbn [e_seq]; lia].
      + intros a b Ha Hb' Es. apply SE2 in Ha. apply SE2 in Hb'.
        assert (Hold : forall x, In x (priv_entries t1) -> e_seq x <= tt_seq t1).
        { intros x Hx. unfold priv_entries in Hx. apply in_app_or in Hx as [Hx|Hx]; [specialize (Hcut2 x Hx)|specialize (Hcut1 x Hx)]; lia. }
        destruct Ha as [Ha| ->], Hb' as [Hb'| ->]; try reflexivity.
        * apply Hi; assumption.
        * specialize (Hold a Ha). unfold ne in Es. cbn [e_seq] in Es. lia.
        * specialize (Hold b Hb'). unfold ne in Es. cbn [e_seq] in Es. lia.
      + change (tt_seq t2) with (tt_seq t + 1). exact Hnext.
    - split.
      + change (tt_seq t2) with (tt_seq t + 1). rewrite app_length. cbn [length]. lia.
      + intros x. rewrite SE2, (stamp_app base wr [(kt, k, v)]), in_app_iff, stamp_one, <- Hseq.
        rewrite (SE1 x), (SE x). cbn [In]. unfold ne. rewrite Es1. intuition.
  Qed.

  (* ---- Transaction.Write: Batch.replayInternal over tr.put ---- *)
  Definition dflt_in : put_in := mkPI 1 FlErr 0.

  (* the preconditions of every put the call reaches (the table writer's contract is about the memdb as it is
     when that put flushes) *)
  Fixpoint puts_pre (t : ttxn) (recs : list Batch.brec) (os : list put_in) : Prop :=
    match recs with
    | [] => True
    | (kt, k, v) :: rest =>
        put_pre t kt k (hd dflt_in os) /\
        match T_put t kt k v (hd dflt_in os) with
        | (t1, TOk) => puts_pre t1 rest (tl os)
        | _ => True
        end
    end.

  Lemma applied_prefix t recs os : exists post, recs = applied c p mp rp t recs os ++ post.
  Proof.
    revert t os. induction recs as [|[[kt k] v] rest IH]; intros t os; [exists []; reflexivity|].
    cbn [applied]. destruct (t_put c p mp rp t kt k v (hd (mkPI 1 FlErr 0) os)) as [t1 [|e| |]].
    - destruct (IH t1 (tl os)) as [post E]. exists post. cbn [app]. rewrite <- E. reflexivity.
    - exists ((kt, k, v) :: rest). reflexivity.
    - exists ((kt, k, v) :: rest). reflexivity.
    - exists ((kt, k, v) :: rest). reflexivity.
  Qed.

  (* A Write applies exactly the records of [applied]: a PREFIX of the batch.  It returns nil iff that is the whole
     batch; otherwise the error of the flush that failed (the table could not be written), the record that needed
     the flush and everything after it are not applied, everything before it STAYS applied. *)
  Lemma t_puts_ok base : forall recs wr t os t' r, tinv base t -> applied_rel base wr t -> puts_pre t recs os ->
    T_puts t recs os = (t', r) ->
    tinv base t' /\ applied_rel base (wr ++ applied c p mp rp t recs os) t' /\
    tt_closed t' = tt_closed t /\ tt_cfailed t' = tt_cfailed t /\
    match r with
    | TOk => applied c p mp rp t recs os = recs
    | TErr e => e = ETable /\ (length (applied c p mp rp t recs os) < length recs)%nat
    | _ => False
    end.
  Proof.
    induction recs as [|[[kt k] v] rest IH]; intros wr t os t' r TI AR Hpre.
    - cbn [t_puts applied]. intros E. injection E as <- <-. rewrite app_nil_r. auto.
    - cbn [t_puts applied puts_pre] in *. destruct Hpre as [Hp Hrest]. fold dflt_in in *.
      destruct (T_put t kt k v (hd dflt_in os)) as [t1 r1] eqn:Ep.
      pose proof (t_put_ok base wr t kt k v (hd dflt_in os) t1 r1 TI AR Hp Ep) as G.
      destruct r1 as [|e| |]; try contradiction.
      + destruct G as (TI1 & AR1 & Ec & Ef). intros E.
        destruct (IH (wr ++ [(kt, k, v)]) t1 (tl os) t' r TI1 AR1 Hrest E) as (TI' & AR' & Ec' & Ef' & Hr).
        rewrite <- app_assoc in AR'. cbn [app] in AR'.
        split; [exact TI'|]. split; [exact AR'|]. split; [congruence|]. split; [congruence|].
        destruct r; try exact Hr.
        * rewrite Hr. reflexivity.
        * destruct Hr as [-> Hl]. split; [reflexivity|]. cbn [length]. lia.
      + destruct G as (-> & _ & ->). intros E. injection E as <- <-. rewrite app_nil_r.
        split; [exact TI|]. split; [exact AR|]. split; [reflexivity|]. split; [reflexivity|].
        split; [reflexivity|]. cbn [length]. lia.
  Qed.

  (* ------------------------------------------------------------------ (C) the world *)
  Local Notation wfb := (wf_bstate c p mp tp crc decompress fname ufc verify ri).

  (* the shared part while a transaction is (or may be) open: a well-formed byte state whose own memdb is empty
     and that has no frozen memdb (what OpenTransaction establishes and the write lock keeps), nothing stored
     above db.seq, no two stored entries with the same user key and sequence number *)
  Record sinv_of (db : bstate) (seq : N) : Prop := {
    si_wf : wfb db;
    si_frozen : bs_frozen db = None;
    si_mem : mem_entries mp (bs_mem db) = [];
    si_le : forall x, In x (all_entries (absS db)) -> e_seq x <= seq;
    si_uniq : uniq_in (all_entries (absS db));
    si_max : seq <= keyMaxSeq p
  }.
  Definition sinv (w : tworld) : Prop := sinv_of (tw_db w) (tw_seq w).

  Definition winv_of (db : bstate) (seq : N) (tr : option ttxn) : Prop :=
    sinv_of db seq /\ match tr with Some t => tt_closed t = false /\ tinv seq t | None => True end.
  Definition winv (w : tworld) : Prop := winv_of (tw_db w) (tw_seq w) (tw_tr w).

  (* the L1 state Transaction.Get / NewIterator read: the private memdb as the write buffer, the private tables
     as aux level, the version *)
  Definition txn_state (t : ttxn) (st : bstate) : lstate :=
    {| st_mem := mem_es t; st_frozen := []; st_aux := map atab (tt_tables t);
       st_levels := map (map atab) (bs_levels st) |}.

  Lemma abs_levels st : st_levels (absS st) = map (map atab) (bs_levels st).
  Proof. reflexivity. Qed.

  Lemma shared_entries_eq w : sinv w ->
    all_entries (absS (tw_db w)) = concat (map t_entries (concat (map (map atab) (bs_levels (tw_db w))))).
  Proof.
    intros [_ Hf Hm _ _ _]. unfold all_entries, all_tables, abs. cbn [st_mem st_frozen st_aux st_levels app].
    rewrite Hm, Hf. reflexivity.
  Qed.

  Lemma txn_state_entries w t : sinv w ->
    all_entries (txn_state t (tw_db w)) = priv_entries t ++ all_entries (absS (tw_db w)).
  Proof.
    intros S. rewrite (shared_entries_eq w S). unfold all_entries, all_tables, txn_state, priv_entries, tab_entries, level_entries.
    cbn [st_mem st_frozen st_aux st_levels app]. rewrite map_app, concat_app, app_assoc. reflexivity.
  Qed.

  Lemma in_level_all (lvls : list (list table)) y b :
    In y (map level_entries lvls) -> In b y -> In b (concat (map t_entries (concat lvls))).
  Proof.
    intros Hy Hb. apply in_map_iff in Hy as [ts [<- Hts]]. unfold level_entries in Hb.
    apply in_concat in Hb as [es [Hes Hb]]. apply in_map_iff in Hes as [tb [<- Htb]].
    apply in_concat. exists (t_entries tb). split; [|exact Hb]. apply in_map. apply in_concat. exists ts. split; assumption.
  Qed.

  (* the transaction's layout is a well-formed L1 state *)
  Lemma txn_state_wf w t : sinv w -> tinv (tw_seq w) t -> wf_state c p (txn_state t (tw_db w)).
  Proof.
    intros S [Hm Ht Htok Hu (fs & Hb & Hfs & Hcut1 & Hcut2) Hi Hmax].
    pose proof (shared_entries_eq w S) as ES.
    destruct S as [[_ _ _ Wa] Hf Hme Hle Hun _]. destruct Wa as [W1 W2 W3 W4 W5 W6].
    destruct (mem_ok_sorted _ Hm) as [Hs Hk]. fold (mem_es t) in Hs, Hk.
    assert (Hsh : forall y b, In y (map level_entries (map (map atab) (bs_levels (tw_db w)))) -> In b y -> e_seq b <= tw_seq w).
    { intros y b Hy Hb'. apply Hle. rewrite ES. eapply in_level_all; eassumption. }
    constructor; unfold txn_state; cbn [st_mem st_frozen st_aux st_levels].
    - split; assumption.
    - split; [exact I|constructor].
    - split; assumption.
    - rewrite <- abs_levels. exact W4.
    - rewrite <- abs_levels. exact W5.
    - unfold comps in *. cbn [st_mem st_frozen st_aux st_levels chain_newer] in *.
      rewrite abs_levels in W6. destruct W6 as [_ [_ [_ W6]]].
      split.
      { constructor; [intros a b _ []|]. constructor.
        - intros a b Ha Hb' _. specialize (Hcut2 a Ha). specialize (Hcut1 b Hb'). lia.
        - apply Forall_forall. intros y Hy a b Ha Hb' _. specialize (Hcut2 a Ha). specialize (Hsh y b Hy Hb'). lia. }
      split; [apply Forall_forall; intros y _ a b []|].
      split; [|exact W6].
      apply Forall_forall. intros y Hy a b Ha Hb' _. specialize (Hcut1 a Ha). specialize (Hsh y b Hy Hb'). lia.
  Qed.

  (* ------------------------------------------------------------------ (D) reads inside the transaction *)
  Local Notation AUX := (aux_state c mp tp crc decompress fname ufc verify ri).

  Lemma lsm_get_txn_state t st k s : mem_entries mp (bs_mem st) = [] -> bs_frozen st = None ->
    txn_lsm_get c p (mem_es t) (AUX (tt_tables t) st) k s = lsm_get c p (txn_state t st) k s.
  Proof.
    intros Hm Hf. unfold txn_lsm_get, lsm_get, aux_state, txn_state. cbn [st_mem st_frozen st_aux st_levels].
    rewrite Hm, Hf. cbn [mem_entries comp_get find_ge]. reflexivity.
  Qed.

  Lemma uniq_in_stamp l s recs : uniq_in l -> (forall x, In x l -> e_seq x <= s) -> uniq_in (l ++ stamp s recs).
  Proof.
    intros Hu Hfresh a b Ha Hb Euk Eseq. apply in_app_iff in Ha. apply in_app_iff in Hb.
    destruct Ha as [Ha|Ha], Hb as [Hb|Hb].
    - apply Hu; assumption.
    - apply stamp_seq in Hb as [Hb _]. specialize (Hfresh a Ha). lia.
    - apply stamp_seq in Ha as [Ha _]. specialize (Hfresh b Hb). lia.
    - clear - Ha Hb Eseq. revert s Ha Hb.
      induction recs as [|[[kd k'] v] t IH]; intros s Ha Hb; [destruct Ha|].
      cbn [stamp] in Ha, Hb. destruct Ha as [<-|Ha], Hb as [<-|Hb].
      + reflexivity.
      + apply stamp_seq in Hb as [Hb _]. cbn [e_seq] in *. lia.
      + apply stamp_seq in Ha as [Ha _]. cbn [e_seq] in *. lia.
      + apply (IH (s + 1)); assumption.
  Qed.

  (* Transaction.Get computed on the bytes (private memdb arrays, private table files, the version's files)
     returns the newest visible entry among the transaction's own entries and everything stored in the DB *)
  Theorem txn_get_newest w t k : winv w -> tw_tr w = Some t -> wf_bytes k ->
    t_get c p mp tp crc decompress fname ufc verify w k =
    Some (BRes (group_res p (newest c k (tt_seq t) (priv_entries t ++ all_entries (absS (tw_db w))) None))).
  Proof.
    intros [S Ht] Et Wk. rewrite Et in Ht. destruct Ht as [Hc TI]. unfold t_get. rewrite Et, Hc.
    rewrite (db_get_aux_refines c ok p pok seek_val mp mpok tp crc decompress fname ufc verify ri (tt_mem t) (tt_tables t) (tw_db w) k
               (tt_seq t) Wk (ti_max _ _ TI) (ti_mem _ _ TI) (si_wf _ _ S) (ti_tabs _ _ TI)).
    fold (mem_es t). rewrite (lsm_get_txn_state t (tw_db w) k (tt_seq t) (si_mem _ _ S) (si_frozen _ _ S)).
    rewrite (get_correct c ok p pok _ k (tt_seq t) (txn_state_wf w t S TI)).
    rewrite (txn_state_entries w t S). reflexivity.
  Qed.

  (* ... hence: the base at open overlaid with the records applied so far.  [m] is any plain map that answers the
     reads of the shared state at db.seq (by C01_get_is_map_bytes: the map of the committed writes). *)
  Theorem txn_get_overlay w t wr m k : winv w -> tw_tr w = Some t -> applied_rel (tw_seq w) wr t ->
    (forall k', History.res p (newest c k' (tw_seq w) (all_entries (absS (tw_db w))) None) = a_get c k' m) ->
    wf_bytes k ->
    option_map bapi (t_get c p mp tp crc decompress fname ufc verify w k) =
    Some (Some (a_get c k (fold_left (a_apply c p) wr m))).
  Proof.
    intros WI Et [Hseq SE] Hbase Wk. rewrite (txn_get_newest w t k WI Et Wk). cbn [option_map bapi]. do 2 f_equal.
    destruct WI as [S _].
    change (api_of (group_res p ?z)) with (History.res p z).
    rewrite Hseq.
    rewrite <- (hist_recs c ok p k wr (tw_seq w) (all_entries (absS (tw_db w))) m (si_le _ _ S) (Hbase k)).
    f_equal. symmetry. apply (newest_same_elems c ok).
    - apply uniq_in_stamp; [exact (si_uniq _ _ S)|exact (si_le _ _ S)].
    - intros x. rewrite !in_app_iff, (SE x). tauto.
  Qed.

  (* ------------------------------------------------------------------ the version a commit installs *)
  Lemma ins_num_perm f l : Permutation (ins_num f l) (f :: l).
  Proof.
    induction l as [|x l IH]; cbn [ins_num]; [apply Permutation_refl|].
    destruct (tf_num x <? tf_num f); [apply Permutation_refl|].
    apply Permutation_trans with (x :: f :: l); [apply perm_skip; exact IH|apply perm_swap].
  Qed.

  Lemma sort_by_num_perm l : Permutation (sort_by_num l) l.
  Proof.
    induction l as [|f l IH]; cbn [sort_by_num fold_right]; [apply Permutation_refl|].
    apply Permutation_trans with (f :: sort_by_num l); [apply ins_num_perm|apply perm_skip; exact IH].
  Qed.

  Lemma tab_entries_perm l l' : Permutation l l' -> Permutation (tab_entries l) (tab_entries l').
  Proof.
    intros H. unfold tab_entries, level_entries. rewrite !map_map, <- !flat_map_concat_map.
    apply Permutation_flat_map. exact H.
  Qed.

  Lemma tab_entries_app a b : tab_entries (a ++ b) = tab_entries a ++ tab_entries b.
  Proof. unfold tab_entries, level_entries. rewrite !map_app, concat_app. reflexivity. Qed.

  Definition new_l0 (st : bstate) (ts : list tfile) : list tfile := sort_by_num (hd [] (bs_levels st) ++ ts).
  Definition installed (st : bstate) (ts : list tfile) : bstate :=
    db_with_levels st (install_tables (bs_levels st) ts).

  Lemma installed_levels st ts : ts <> [] ->
    bs_levels (installed st ts) = new_l0 st ts :: tl (bs_levels st).
  Proof.
    intros Hne. unfold installed, db_with_levels, install_tables, new_l0. cbn [bs_levels].
    destruct ts as [|f ts]; [congruence|]. destruct (bs_levels st) as [|l0 rest]; reflexivity.
  Qed.

  (* what the shared state holds after the transaction's tables entered level 0: the old entries and the
     transaction's, nothing else *)
  Lemma installed_entries w t : sinv w -> tt_tables t <> [] ->
    forall x, In x (all_entries (absS (installed (tw_db w) (tt_tables t)))) <->
              In x (tab_entries (tt_tables t)) \/ In x (all_entries (absS (tw_db w))).
  Proof.
    intros S Hne x. rewrite (shared_entries_eq w S).
    unfold all_entries, all_tables, abs. cbn [st_mem st_frozen st_aux st_levels app].
    change (bs_mem (installed (tw_db w) (tt_tables t))) with (bs_mem (tw_db w)).
    change (bs_frozen (installed (tw_db w) (tt_tables t))) with (bs_frozen (tw_db w)).
    rewrite (si_mem _ _ S), (si_frozen _ _ S). cbn [mem_entries app].
    rewrite (installed_levels _ _ Hne). cbn [map concat]. rewrite map_app, concat_app, in_app_iff.
    fold (level_entries (map atab (new_l0 (tw_db w) (tt_tables t)))). fold (tab_entries (new_l0 (tw_db w) (tt_tables t))).
    assert (P : Permutation (tab_entries (new_l0 (tw_db w) (tt_tables t)))
                            (tab_entries (hd [] (bs_levels (tw_db w))) ++ tab_entries (tt_tables t))).
    { rewrite <- tab_entries_app. apply tab_entries_perm. apply sort_by_num_perm. }
    assert (E : forall y, In y (tab_entries (new_l0 (tw_db w) (tt_tables t))) <->
                          In y (tab_entries (hd [] (bs_levels (tw_db w)))) \/ In y (tab_entries (tt_tables t))).
    { intros y. rewrite <- in_app_iff. split; apply Permutation_in; [exact P|apply Permutation_sym; exact P]. }
    rewrite E. destruct (bs_levels (tw_db w)) as [|l0 rest]; cbn [hd tl map concat].
    - unfold tab_entries at 1. cbn [map level_entries concat]. cbn [In]. tauto.
    - rewrite map_app, concat_app, in_app_iff. unfold tab_entries, level_entries. tauto.
  Qed.

  Lemma seq_inj_uniq_in l : seq_inj l -> uniq_in l.
  Proof. intros H a b Ha Hb _ Es. apply H; assumption. Qed.

  (* after the transaction's tables entered level 0 and db.seq was set to tr.seq the shared state satisfies the
     shared invariant again *)
  Lemma installed_sinv w t w' : sinv w -> tinv (tw_seq w) t -> tt_tables t <> [] ->
    tw_db w' = installed (tw_db w) (tt_tables t) -> tw_seq w' = tt_seq t -> sinv w'.
  Proof.
    intros S TI Hne Edb Eseq.
    pose proof (installed_entries w t S Hne) as IE.
    pose proof (shared_entries_eq w S) as ES.
    destruct TI as [Hm Ht Htok Hu (fs & Hb & Hfs & Hcut1 & Hcut2) Hi Hmax].
    assert (Hpriv : forall a, In a (tab_entries (tt_tables t)) -> tw_seq w < e_seq a <= tt_seq t)
      by (intros a Ha; specialize (Hcut1 a Ha); lia).
    destruct S as [[Wm Wf Wt Wa] Hf Hme Hle Hun _].
    set (ts := tt_tables t) in *. set (db := tw_db w) in *.
    assert (EL : bs_levels (installed db ts) = new_l0 db ts :: tl (bs_levels db)) by (apply installed_levels; exact Hne).
    assert (P0 : Permutation (new_l0 db ts) (hd [] (bs_levels db) ++ ts)) by apply sort_by_num_perm.
    assert (PE : Permutation (tab_entries (new_l0 db ts)) (tab_entries (hd [] (bs_levels db)) ++ tab_entries ts))
      by (rewrite <- tab_entries_app; apply tab_entries_perm; exact P0).
    assert (Hl0 : forall a, In a (tab_entries (hd [] (bs_levels db))) -> In a (all_entries (absS db))).
    { intros a Ha. rewrite ES. destruct (bs_levels db) as [|l0 rest]; cbn [hd] in Ha; [destruct Ha|].
      cbn [map concat]. rewrite map_app, concat_app. apply in_or_app. left. exact Ha. }
    destruct Wa as [W1 W2 W3 W4 W5 W6].
    assert (W4' : tables_ok c p (map atab (hd [] (bs_levels db))) /\ uniq (tab_entries (hd [] (bs_levels db)))).
    { unfold abs in W4. cbn [st_levels] in W4. destruct (bs_levels db); exact W4. }
    constructor.
    - constructor.
      + rewrite Edb. exact Wm.
      + rewrite Edb. exact Wf.
      + rewrite Edb, EL. constructor.
        * eapply Permutation_Forall; [apply Permutation_sym; exact P0|]. apply Forall_app. split; [|exact Ht].
          destruct (bs_levels db); [constructor|]. inversion Wt; assumption.
        * destruct (bs_levels db); [constructor|]. inversion Wt; assumption.
      + rewrite Edb. unfold abs. rewrite EL. constructor; cbn [st_mem st_frozen st_aux st_levels map hd tl].
        * exact W1.
        * exact W2.
        * exact W3.
        * split.
          -- unfold tables_ok. eapply Permutation_Forall; [apply Permutation_map; apply Permutation_sym; exact P0|].
             rewrite map_app. apply Forall_app. split; [exact (proj1 W4')|exact Htok].
          -- fold (tab_entries (new_l0 db ts)). unfold uniq.
             eapply Permutation_NoDup; [apply Permutation_map; apply Permutation_sym; exact PE|].
             apply uniq_app; [exact (proj2 W4')|exact Hu|].
             intros a b Ha Hb' E. specialize (Hle a (Hl0 a Ha)). specialize (Hpriv b Hb'). lia.
        * unfold abs in W5. cbn [st_levels] in W5. destruct (bs_levels db); exact W5.
        * unfold comps in *. unfold abs in W6. cbn [st_mem st_frozen st_aux st_levels chain_newer map] in *.
          change (bs_mem (installed db ts)) with (bs_mem db). change (bs_frozen (installed db ts)) with (bs_frozen db).
          rewrite Hme, Hf in *. cbn [mem_entries] in *.
          split; [apply Forall_forall; intros y _ a b []|].
          split; [apply Forall_forall; intros y _ a b []|].
          split; [apply Forall_forall; intros y _ a b []|].
          destruct (bs_levels db) as [|l0 rest] eqn:EB; cbn [tl map hd] in *; [split; [constructor|exact I]|].
          destruct W6 as [_ [_ [_ [N0 Hch]]]]. split; [|exact Hch].
          apply Forall_forall. intros y Hy a b Ha Hb' Eu.
          fold (tab_entries (new_l0 db ts)) in Ha. apply (Permutation_in _ PE) in Ha. apply in_app_or in Ha as [Ha|Ha].
          -- rewrite Forall_forall in N0. exact (N0 y Hy a b Ha Hb' Eu).
          -- specialize (Hpriv a Ha).
             assert (In b (all_entries (absS db))).
             { rewrite ES. cbn [map concat]. rewrite map_app, concat_app. apply in_or_app. right.
               eapply in_level_all; eassumption. }
             specialize (Hle b H). lia.
    - rewrite Edb. exact Hf.
    - rewrite Edb. exact Hme.
    - intros x Hx. rewrite Edb in Hx. rewrite Eseq. apply IE in Hx as [Hx|Hx]; [specialize (Hpriv x Hx)|specialize (Hle x Hx)]; lia.
    - intros a b Ha Hb' Eu Es. rewrite Edb in Ha, Hb'. apply IE in Ha. apply IE in Hb'.
      destruct Ha as [Ha|Ha], Hb' as [Hb'|Hb'].
      + apply Hi; [unfold priv_entries; apply in_or_app; right; exact Ha|unfold priv_entries; apply in_or_app; right; exact Hb'|exact Es].
      + specialize (Hpriv a Ha). specialize (Hle b Hb'). lia.
      + specialize (Hpriv b Hb'). specialize (Hle a Ha). lia.
      + apply Hun; assumption.
    - rewrite Eseq. exact Hmax.
  Qed.

  (* ------------------------------------------------------------------ (C) refinement, step by step *)
  (* the byte world against a state of the history-level machine: same sequence number, the same stored entries
     (as sets), and the open transaction holds exactly the records applied so far, stamped above db.seq *)
  Definition wrel_of (db : bstate) (seq : N) (tr : option ttxn) (s : tstate) : Prop :=
    h_seq (ts_h s) = seq /\ same_elems (h_store (ts_h s)) (all_entries (absS db)) /\
    match tr, ts_txn s with
    | Some t, Some a => exists wr, a = mk_txn seq wr /\ applied_rel seq wr t
    | None, None => True
    | _, _ => False
    end.
  Definition wrel (w : tworld) (s : tstate) : Prop := wrel_of (tw_db w) (tw_seq w) (tw_tr w) s.

  Lemma tinv_ext base t t' : tt_seq t' = tt_seq t -> tt_mem t' = tt_mem t -> tt_tables t' = tt_tables t ->
    tinv base t -> tinv base t'.
  Proof.
    intros E1 E2 E3 [H1 H2 H3 H4 H5 H6 H7].
    constructor; unfold priv_entries, mem_es in *; rewrite ?E1, ?E2, ?E3; assumption.
  Qed.

  Lemma applied_rel_ext base wr t t' : tt_seq t' = tt_seq t -> tt_mem t' = tt_mem t -> tt_tables t' = tt_tables t ->
    applied_rel base wr t -> applied_rel base wr t'.
  Proof.
    intros E1 E2 E3 [H1 H2]. split; unfold priv_entries, mem_es in *; rewrite ?E1, ?E2, ?E3; assumption.
  Qed.

  (* the preconditions of a step: what the environment contributes obeys its contract *)
  Definition bop_pre (w : tworld) (o : bop) : Prop :=
    match o with
    | BPut kt k v i => match tw_tr w with Some t => put_pre t kt k i | None => True end
    | BWrite b os => match tw_tr w, Batch.batch_records b with Some t, Some recs => puts_pre t recs os | _, _ => True end
    | BCommit fo atts => match tw_tr w with Some t => flush_ok t fo | None => True end
    | BEnv st' => sinv_of st' (tw_seq w)
    | _ => True
    end.

  Local Notation ABS := (abs_ops c p mp tp crc decompress fname ufc verify ri rp).
  Local Notation BSTEP := (bstep c p mp rp false).

  Definition step_ok (w : tworld) (s : tstate) (o : bop) : Prop :=
    let w' := fst (BSTEP w o) in wrel w' (xrun s (ABS w o)) /\ winv w'.

  Lemma fresh_tinv base d : MemOps.rep ic mp d [] [] [] 0 -> base <= keyMaxSeq p ->
    forall cap, tinv base (mkTT base d cap 1 [] SR.sr_empty false false).
  Proof.
    intros R Hb cap. destruct (rep_empty_ok d R) as [Hd Ed].
    assert (Em : mem_es (mkTT base d cap 1 [] SR.sr_empty false false) = [])
      by (unfold mem_es; cbn [tt_mem mem_entries]; rewrite Ed; reflexivity).
    constructor; cbn [tt_mem tt_tables tt_seq].
    - exact Hd.
    - constructor.
    - constructor.
    - constructor.
    - exists base. split; [lia|]. split; [lia|]. split; [intros x []|]. intros x Hx. rewrite Em in Hx. destruct Hx.
    - intros a b Ha. unfold priv_entries in Ha. rewrite Em in Ha. destruct Ha.
    - exact Hb.
  Qed.

  Lemma step_open w s cap : wrel w s -> winv w -> step_ok w s (BOpen cap).
  Proof.
    intros (Hs & Hst & Htr) [S Ht]. unfold step_ok, abs_ops, bstep, w_open.
    destruct (tw_tr w) as [t|] eqn:Et.
    - cbn [fst xrun fold_left]. split; [split; [exact Hs|split; [exact Hst|rewrite Et; exact Htr]]|split; [exact S|rewrite Et; exact Ht]].
    - destruct (open_ready (tw_db w)).
      + destruct (MemOps.new_ok ic mp mpok) as (d & E & R). rewrite E. cbn [fst xrun fold_left xstep].
        unfold wrel, winv. cbn [tw_with_tr tw_db tw_seq tw_tr].
        destruct s as [h tx]. cbn [ts_h ts_txn] in *. destruct tx; [contradiction|]. cbn [tstep ts_txn ts_h].
        split.
        * split; [exact Hs|]. split; [exact Hst|]. exists []. split; [rewrite open_txn_mk, Hs; reflexivity|].
          destruct (rep_empty_ok d R) as [_ Ed]. split; [cbn [tt_seq length]; lia|].
          intros x. unfold priv_entries, mem_es. cbn [tt_mem tt_tables mem_entries stamp]. rewrite Ed. cbn. tauto.
        * split; [exact S|]. split; [reflexivity|]. apply fresh_tinv; [exact R|exact (si_max _ _ S)].
      + cbn [fst xrun fold_left]. split; [split; [exact Hs|split; [exact Hst|rewrite Et; exact Htr]]|split; [exact S|rewrite Et; exact I]].
  Qed.

  Lemma wrel_same w w' s : tw_db w' = tw_db w -> tw_seq w' = tw_seq w -> tw_tr w' = tw_tr w -> wrel w s -> wrel w' s.
  Proof. unfold wrel. intros -> -> ->. auto. Qed.
  Lemma winv_same w w' : tw_db w' = tw_db w -> tw_seq w' = tw_seq w -> tw_tr w' = tw_tr w -> winv w -> winv w'.
  Proof. unfold winv. intros -> -> ->. auto. Qed.

  (* a step of the open transaction that leaves it open with the state t' holding the records wr' *)
  Lemma txn_step_rel w s t (recs : list wrec) t' : wrel w s -> winv w -> tw_tr w = Some t ->
    (forall wr, applied_rel (tw_seq w) wr t -> applied_rel (tw_seq w) (wr ++ recs) t') ->
    tinv (tw_seq w) t' -> tt_closed t' = false ->
    wrel (tw_with_tr w (Some t')) (tstep s (TWrite recs)) /\ winv (tw_with_tr w (Some t')).
  Proof.
    intros (Hs & Hst & Htr) [S Ht] Et Happ TI' Hc'. rewrite Et in Htr.
    destruct s as [h tx]. cbn [ts_h ts_txn] in *. destruct tx as [a|]; [|contradiction].
    destruct Htr as (wr & -> & AR). cbn [tstep ts_txn ts_h]. unfold wrel, winv. cbn [tw_with_tr tw_db tw_seq tw_tr ts_h ts_txn].
    split.
    - split; [exact Hs|]. split; [exact Hst|]. exists (wr ++ recs). split; [apply txn_write_mk|apply Happ; exact AR].
    - split; [exact S|split; assumption].
  Qed.

  Lemma step_put w s kt k v i : wrel w s -> winv w -> bop_pre w (BPut kt k v i) -> step_ok w s (BPut kt k v i).
  Proof.
    intros R WI Hpre. unfold step_ok, abs_ops, bstep, w_put, on_open. cbn [bop_pre] in Hpre.
    destruct (tw_tr w) as [t|] eqn:Et; [|cbn [fst xrun fold_left]; split; assumption].
    pose proof WI as [S Ht]. rewrite Et in Ht. destruct Ht as [Hc TI]. rewrite Hc.
    destruct (T_put t kt k v i) as [t' r] eqn:Ep. cbn [fst].
    pose proof R as R0. destruct R as (Hs & Hst & Htr). pose proof Htr as Htr0. rewrite Et in Htr0.
    destruct (ts_txn s) as [a|] eqn:Ea; [|contradiction]. destruct Htr0 as (wr & Ea' & AR).
    pose proof (t_put_ok (tw_seq w) wr t kt k v i t' r TI AR Hpre Ep) as G.
    destruct r as [|e| |]; try contradiction.
    - destruct G as (TI' & AR' & Ec' & _). cbn [xrun fold_left xstep].
      apply (txn_step_rel w s t [(kt, k, v)] t' R0 WI Et).
      + intros wr0 AR0. destruct (t_put_ok (tw_seq w) wr0 t kt k v i t' TOk TI AR0 Hpre Ep) as (_ & A & _). exact A.
      + exact TI'.
      + congruence.
    - destruct G as (_ & _ & ->). cbn [xrun fold_left]. split.
      + apply (wrel_same w); try reflexivity; [cbn [tw_with_tr tw_tr]; symmetry; exact Et|exact R0].
      + apply (winv_same w); try reflexivity; [cbn [tw_with_tr tw_tr]; symmetry; exact Et|exact WI].
  Qed.

  Lemma step_write w s b os : wrel w s -> winv w -> bop_pre w (BWrite b os) -> step_ok w s (BWrite b os).
  Proof.
    intros R WI Hpre. unfold step_ok, abs_ops, bstep, w_write, on_open. cbn [bop_pre] in Hpre.
    destruct (Batch.batch_len b =? 0); [cbn [fst xrun fold_left]; split; assumption|].
    destruct (tw_tr w) as [t|] eqn:Et; [|cbn [fst xrun fold_left]; split; assumption].
    pose proof WI as [S Ht]. rewrite Et in Ht. destruct Ht as [Hc TI]. rewrite Hc.
    destruct (Batch.batch_records b) as [recs|].
    2:{ cbn [fst xrun fold_left]. split.
        - apply (wrel_same w); try reflexivity; [cbn [tw_with_tr tw_tr]; symmetry; exact Et|exact R].
        - apply (winv_same w); try reflexivity; [cbn [tw_with_tr tw_tr]; symmetry; exact Et|exact WI]. }
    destruct (T_puts t recs os) as [t' r] eqn:Ep. cbn [fst xrun fold_left xstep].
    pose proof R as R0. destruct R as (Hs & Hst & Htr). pose proof Htr as Htr0. rewrite Et in Htr0.
    destruct (ts_txn s) as [a|] eqn:Ea; [|contradiction]. destruct Htr0 as (wr & Ea' & AR).
    destruct (t_puts_ok (tw_seq w) recs wr t os t' r TI AR Hpre Ep) as (TI' & AR' & Ec' & _ & _).
    apply (txn_step_rel w s t (applied c p mp rp t recs os) t' R0 WI Et).
    - intros wr0 AR0. destruct (t_puts_ok (tw_seq w) recs wr0 t os t' r TI AR0 Hpre Ep) as (_ & A & _). exact A.
    - exact TI'.
    - congruence.
  Qed.

  Lemma step_iter w s : wrel w s -> winv w -> step_ok w s BIterOpen /\ step_ok w s BIterRelease.
  Proof.
    intros R WI. unfold step_ok, abs_ops, bstep, w_iter_open, w_iter_release, on_open. cbn [xrun fold_left].
    destruct (tw_tr w) as [t|] eqn:Et; [|cbn [fst]; split; split; assumption].
    pose proof WI as [S Ht]. rewrite Et in Ht. destruct Ht as [Hc TI]. rewrite Hc. cbn [fst].
    assert (G : forall n, wrel (tw_with_tr w (Some (tt_with_refs t n))) s /\ winv (tw_with_tr w (Some (tt_with_refs t n)))).
    { intros n. destruct R as (Hs & Hst & Htr). rewrite Et in Htr. unfold wrel, winv. cbn [tw_with_tr tw_db tw_seq tw_tr].
      split.
      - split; [exact Hs|]. split; [exact Hst|]. destruct (ts_txn s) as [a|]; [|contradiction].
        destruct Htr as (wr & Ea & AR). exists wr. split; [exact Ea|]. apply (applied_rel_ext _ _ t); auto.
      - split; [exact S|]. split; [exact Hc|]. apply (tinv_ext _ t); auto. }
    split; apply G.
  Qed.

  (* ---- Commit ---- *)
  Lemma session_commit_facts w r seq lvls a w' r' b : session_commit rp w r seq lvls a = Some (w', r', b) ->
    tw_seq w' = tw_seq w /\ tw_tr w' = tw_tr w /\
    (b = true -> tw_db w' = db_with_levels (tw_db w) lvls) /\ (b = false -> tw_db w' = tw_db w).
  Proof.
    unfold session_commit. destruct (tw_mfail w || ai_rot a).
    - destruct (SR.encode rp (snapshot_rec rp w seq (ai_nf a) lvls)); [|discriminate].
      destruct (ai_ok a); intros E; injection E as <- <- <-; cbn [tw_with_man tw_seq tw_tr tw_db];
        repeat split; try reflexivity; try discriminate.
    - destruct (SR.encode rp (edit_rec rp r (ai_nf a))); [|discriminate].
      destruct (ai_ok a); intros E; injection E as <- <- <-; cbn [tw_with_man tw_seq tw_tr tw_db];
        repeat split; try reflexivity; try discriminate.
  Qed.

  Lemma commit_loop_facts n : forall w t atts w' t' b, commit_loop rp false n w t atts = Some (w', t', b) ->
    tw_seq w' = tw_seq w /\ tw_tr w' = tw_tr w /\ tt_seq t' = tt_seq t /\ tt_mem t' = tt_mem t /\
    tt_tables t' = tt_tables t /\ tt_closed t' = tt_closed t /\
    (b = true -> tw_db w' = installed (tw_db w) (tt_tables t)) /\ (b = false -> tw_db w' = tw_db w).
  Proof.
    induction n as [|n IH]; intros w t atts w' t' b; cbn [commit_loop].
    - intros E. injection E as <- <- <-. repeat split; try reflexivity. discriminate.
    - destruct (session_commit rp w (tt_rec t) (Some (tt_seq t)) (install_tables (bs_levels (tw_db w)) (tt_tables t)) (hd no_att atts))
        as [[[w1 r1] b1]|] eqn:Es; [|discriminate].
      destruct (session_commit_facts _ _ _ _ _ _ _ _ Es) as (E1 & E2 & E3 & E4).
      destruct b1.
      + intros E. injection E as <- <- <-. cbn [tt_with_rec tt_seq tt_mem tt_tables tt_closed].
        split; [exact E1|]. split; [exact E2|]. split; [reflexivity|]. split; [reflexivity|]. split; [reflexivity|].
        split; [reflexivity|]. split; [intros _; apply E3; reflexivity|discriminate].
      + intros E. apply IH in E as (F1 & F2 & F3 & F4 & F5 & F6 & F7 & F8).
        cbn [tt_failed tt_with_rec tt_seq tt_mem tt_tables tt_closed] in *. specialize (E4 eq_refl).
        repeat split; try congruence.
        * intros Hb. rewrite (F7 Hb), E4. reflexivity.
        * intros Hb. rewrite (F8 Hb). exact E4.
  Qed.

  Lemma stamp_nil_inv base wr : same_elems [] (stamp base wr) -> wr = [].
  Proof.
    destruct wr as [|[[kd k] v] wr]; [reflexivity|]. intros H. exfalso. cbn [stamp] in H.
    apply (proj2 (H {| e_uk := k; e_seq := base + 1; e_kind := kd; e_val := v |})). left. reflexivity.
  Qed.

  Lemma step_commit w s fo atts : wrel w s -> winv w -> bop_pre w (BCommit fo atts) -> step_ok w s (BCommit fo atts).
  Proof.
    intros R WI Hpre. unfold step_ok, abs_ops, bstep, w_commit. cbn [bop_pre] in Hpre.
    destruct (tw_tr w) as [t0|] eqn:Et; [|cbn [fst xrun fold_left]; split; assumption].
    pose proof WI as [S Ht]. rewrite Et in Ht. destruct Ht as [Hc TI0]. rewrite Hc.
    pose proof R as R0. destruct R as (Hs & Hst & Htr). rewrite Et in Htr.
    destruct s as [h tx]. cbn [ts_h ts_txn] in *. destruct tx as [a|]; [|contradiction].
    destruct Htr as (wr & -> & AR0).
    assert (Same : forall t', tt_seq t' = tt_seq t0 -> tt_closed t' = false -> tinv (tw_seq w) t' ->
                     same_elems (priv_entries t') (priv_entries t0) ->
              wrel (tw_with_tr w (Some t')) {| ts_h := h; ts_txn := Some (mk_txn (tw_seq w) wr) |} /\ winv (tw_with_tr w (Some t'))).
    { intros t' E1 E2 TI' SE'. unfold wrel, winv. cbn [tw_with_tr tw_db tw_seq tw_tr ts_h ts_txn]. split.
      - split; [exact Hs|]. split; [exact Hst|]. exists wr. split; [reflexivity|]. destruct AR0 as [A1 A2].
        split; [congruence|]. intros x. rewrite (SE' x). apply A2.
      - split; [exact S|split; assumption]. }
    destruct (T_flush t0 fo) as [t r] eqn:Ef.
    pose proof (t_flush_ok (tw_seq w) t0 fo t r TI0 Hpre Ef) as G.
    destruct r as [|e| |]; try contradiction.
    2:{ destruct G as (_ & _ & ->). cbn [fst xrun fold_left]. apply Same; auto. intros x; tauto. }
    destruct G as (TI & SE & Eseq & Ecl & Ecf & Em).
    destruct (tt_tables t) as [|f0 ts0] eqn:Etab.
    - (* nothing to commit *)
      cbn [fst xrun fold_left xstep tstep ts_txn ts_h].
      assert (Ewr : wr = []).
      { apply (stamp_nil_inv (tw_seq w)). intros x. destruct AR0 as [_ A2]. rewrite <- (A2 x), <- (SE x).
        unfold priv_entries. rewrite Em, Etab. cbn. tauto. }
      subst wr. unfold wrel, winv. cbn [tw_with_tr tw_db tw_seq tw_tr ts_h ts_txn commit_h publish_seq publish_version h_seq h_store mk_txn t_seq t_writes length stamp].
      split.
      + unfold wrel_of, commit_h, publish_seq, publish_version, mk_txn. cbn [ts_h ts_txn h_seq h_store t_seq t_writes length stamp].
        split; [lia|]. split; [rewrite app_nil_r; exact Hst|exact I].
      + split; [exact S|exact I].
    - set (t1 := tt_with_rec t (SR.set_seq rp (tt_rec t) (tt_seq t))).
      destruct (commit_loop rp false 3 w t1 atts) as [[[w' t'] b]|] eqn:El.
      2:{ cbn [fst xrun fold_left]. split; assumption. }
      destruct (commit_loop_facts 3 w t1 atts w' t' b El) as (F1 & F2 & F3 & F4 & F5 & F6 & F7 & F8).
      cbn [t1 tt_with_rec tt_seq tt_mem tt_tables tt_closed] in F3, F4, F5, F6, F7.
      destruct b.
      + (* committed *)
        cbn [fst xrun fold_left xstep tstep ts_txn ts_h]. specialize (F7 eq_refl).
        assert (Hne : tt_tables t <> []) by (rewrite Etab; discriminate).
        set (w2 := tw_with_tr (tw_with_seq w' (tt_seq t')) None).
        assert (D2 : tw_db w2 = installed (tw_db w) (tt_tables t)) by exact F7.
        assert (S2 : tw_seq w2 = tt_seq t) by exact F3.
        pose proof (installed_sinv w t w2 S TI Hne D2 S2) as SI.
        pose proof (installed_entries w t S Hne) as IE.
        split.
        * unfold wrel, wrel_of. rewrite D2, S2. change (tw_tr w2) with (@None ttxn).
          cbn [ts_h ts_txn commit_h publish_seq publish_version h_seq h_store mk_txn t_seq t_writes].
          destruct AR0 as [A1 A2]. split; [congruence|]. split; [|exact I].
          intros x. rewrite in_app_iff, (IE x), (Hst x), <- (A2 x), <- (SE x). unfold priv_entries. rewrite Em. cbn [app]. tauto.
        * split; [exact SI|exact I].
      + (* every attempt failed: still open *)
        cbn [fst xrun fold_left]. specialize (F8 eq_refl).
        assert (TI' : tinv (tw_seq w) t') by (apply (tinv_ext _ t); assumption).
        assert (SE' : same_elems (priv_entries t') (priv_entries t0)).
        { intros x. rewrite <- (SE x). unfold priv_entries, mem_es. rewrite F4, F5. tauto. }
        destruct (Same t' ltac:(congruence) ltac:(congruence) TI' SE') as [G1 G2].
        split.
        * apply (wrel_same (tw_with_tr w (Some t'))); try assumption; reflexivity.
        * apply (winv_same (tw_with_tr w (Some t'))); try assumption; reflexivity.
  Qed.

  (* ---- Discard ---- *)
  Lemma db_with_levels_same st : db_with_levels st (bs_levels st) = st.
  Proof. destruct st; reflexivity. Qed.

  Lemma discard_facts w t fresh : tw_tr w = Some t -> tt_closed t = false ->
    let w' := w_discard rp false w fresh in
    tw_tr w' = None /\ tw_db w' = tw_db w /\ tw_seq w' = (if tt_cfailed t then tt_seq t else tw_seq w).
  Proof.
    intros Et Hc. unfold w_discard. rewrite Et, Hc. destruct (tt_cfailed t).
    - set (w1 := tw_with_seq w (tt_seq t)). destruct (tw_mfail w1).
      + destruct (session_commit rp w1 SR.sr_empty None (bs_levels (tw_db w1)) fresh) as [[[w2 r2] b2]|] eqn:Es.
        * destruct (session_commit_facts _ _ _ _ _ _ _ _ Es) as (E1 & E2 & E3 & E4).
          destruct b2; cbn [tw_with_tr tw_with_gone tw_tr tw_db tw_seq].
          -- rewrite (E3 eq_refl), db_with_levels_same, E1. auto.
          -- rewrite (E4 eq_refl), E1. auto.
        * cbn [tw_with_tr tw_tr tw_db tw_seq]. auto.
      + cbn [tw_with_tr tw_with_gone tw_tr tw_db tw_seq]. auto.
    - cbn [tw_with_tr tw_with_gone tw_tr tw_db tw_seq]. auto.
  Qed.

  Lemma step_discard w s fresh : wrel w s -> winv w -> step_ok w s (BDiscard fresh).
  Proof.
    intros R WI. unfold step_ok, abs_ops, bstep. cbn [fst].
    destruct (tw_tr w) as [t|] eqn:Et.
    2:{ unfold w_discard. rewrite Et. cbn [xrun fold_left]. split; assumption. }
    pose proof WI as [S Ht]. rewrite Et in Ht. destruct Ht as [Hc TI]. rewrite Hc.
    destruct (discard_facts w t fresh Et Hc) as (F1 & F2 & F3).
    destruct R as (Hs & Hst & Htr). rewrite Et in Htr.
    destruct s as [h tx]. cbn [ts_h ts_txn] in *. destruct tx as [a|]; [|contradiction].
    unfold wrel, winv, wrel_of, winv_of. rewrite F1, F2, F3.
    destruct (tt_cfailed t); cbn [xrun fold_left xstep tstep x_skip ts_h ts_txn h_seq h_store].
    - split; [split; [reflexivity|split; [exact Hst|exact I]]|]. split; [|exact I].
      destruct S as [W1 W2 W3 W4 W5 W6]. destruct TI as [_ _ _ _ (fs & Hb & Hfs & _) _ Hmax].
      constructor; try assumption. intros x Hx. specialize (W4 x Hx). lia.
    - split; [split; [exact Hs|split; [exact Hst|exact I]]|]. split; [exact S|exact I].
  Qed.

  (* ---- a background reorganisation ---- *)
  Lemma step_env w s st' : wrel w s -> winv w -> bop_pre w (BEnv st') -> step_ok w s (BEnv st').
  Proof.
    intros (Hs & Hst & Htr) [S Ht] Hpre. unfold step_ok, abs_ops, bstep, w_env. cbn [fst xrun fold_left xstep bop_pre] in *.
    unfold wrel, winv, wrel_of, winv_of. cbn [tw_with_db tw_db tw_seq tw_tr].
    destruct s as [h tx]. cbn [ts_h ts_txn] in *.
    assert (E : tstep {| ts_h := h; ts_txn := tx |} (TOut (HReorg (all_entries (absS st')))) =
                {| ts_h := hstep h (HReorg (all_entries (absS st'))); ts_txn := tx |}) by (destruct tx; reflexivity).
    rewrite E. cbn [ts_h ts_txn hstep h_seq h_store]. split.
    - split; [exact Hs|]. split; [intros x; tauto|exact Htr].
    - split; [exact Hpre|exact Ht].
  Qed.

  (* ---- C11_txn_bytes_refines: every step of the byte machine, whatever the environment contributes within its
     contract (heights, table files that hold the memdb's pairs or a failure, capacities, outcomes of the
     manifest attempts, background reorganisations), is matched by the history-level machine: the relation
     between the two states and the invariants of the byte world are kept ---- *)
  Theorem bstep_refines w s o : wrel w s -> winv w -> bop_pre w o -> step_ok w s o.
  Proof.
    intros R WI Hpre. destruct o.
    - apply step_open; assumption.
    - apply step_put; assumption.
    - apply step_write; assumption.
    - apply (proj1 (step_iter w s R WI)).
    - apply (proj2 (step_iter w s R WI)).
    - apply step_commit; assumption.
    - apply step_discard; assumption.
    - apply step_env; assumption.
  Qed.

  (* ... hence for every operation sequence *)
  Fixpoint bops_pre (w : tworld) (ops : list bop) : Prop :=
    match ops with
    | [] => True
    | o :: rest => bop_pre w o /\ bops_pre (fst (BSTEP w o)) rest
    end.

  Fixpoint abs_run (w : tworld) (ops : list bop) : list xop :=
    match ops with
    | [] => []
    | o :: rest => ABS w o ++ abs_run (fst (BSTEP w o)) rest
    end.

  Theorem brun_refines : forall ops w s, wrel w s -> winv w -> bops_pre w ops ->
    wrel (brun_from c p mp rp false w ops) (xrun s (abs_run w ops)) /\ winv (brun_from c p mp rp false w ops).
  Proof.
    induction ops as [|o ops IH]; intros w s R WI Hpre; [split; assumption|].
    destruct Hpre as [Ho Hrest]. destruct (bstep_refines w s o R WI Ho) as [R' WI'].
    cbn [brun_from fold_left abs_run]. unfold xrun. rewrite fold_left_app. apply IH; assumption.
  Qed.

  (* ------------------------------------------------------------------ reads outside; reads against the abstract state *)
  Local Notation O_get := (o_get c p mp tp crc decompress fname ufc verify).
  Local Notation T_get := (t_get c p mp tp crc decompress fname ufc verify).

  (* what everyone else reads: computed from the DB's byte state alone *)
  Theorem outside_get_newest w k q : sinv w -> wf_bytes k -> q <= keyMaxSeq p ->
    O_get w k q = BRes (group_res p (newest c k q (all_entries (absS (tw_db w))) None)).
  Proof.
    intros S Wk Hq. unfold o_get.
    apply (get_correct_bytes c ok p pok seek_val mp mpok tp crc decompress fname ufc verify ri k q Wk Hq _ (si_wf _ _ S)).
  Qed.

  (* both kinds of read, computed on the bytes, are the reads of the related history-level state *)
  Theorem reads_refine w s k : wrel w s -> winv w -> wf_bytes k ->
    (forall q, q <= keyMaxSeq p -> bapi (O_get w k q) = Some (out_get c p s k q)) /\
    (tw_tr w <> None -> option_map bapi (T_get w k) = Some (Some (txn_get c p s k))).
  Proof.
    intros (Hs & Hst & Htr) WI Wk. pose proof WI as [S Ht]. split.
    - intros q Hq. rewrite (outside_get_newest w k q S Wk Hq). cbn [bapi]. f_equal. unfold out_get, store_get.
      change (api_of (group_res p ?z)) with (History.res p z). f_equal. symmetry.
      apply (newest_same_elems c ok).
      + intros a b Ha Hb. apply (si_uniq _ _ S); apply Hst; assumption.
      + exact Hst.
    - intros Hopen. destruct (tw_tr w) as [t|] eqn:Et; [|congruence]. destruct Ht as [Hc TI].
      destruct (ts_txn s) as [a|] eqn:Ea; [|contradiction]. destruct Htr as (wr & -> & [A1 A2]).
      rewrite (txn_get_newest w t k WI Et Wk). cbn [option_map bapi]. do 2 f_equal. unfold txn_get. rewrite Ea.
      change (api_of (group_res p ?z)) with (History.res p z). cbn [mk_txn t_seq t_writes]. rewrite <- A1. f_equal. symmetry.
      apply (newest_same_elems c ok).
      + intros x y Hx Hy. assert (U : uniq_in (all_entries (absS (tw_db w)) ++ stamp (tw_seq w) wr))
          by (apply uniq_in_stamp; [exact (si_uniq _ _ S)|exact (si_le _ _ S)]).
        apply U; rewrite in_app_iff; rewrite in_app_iff in Hx, Hy; [destruct Hx as [Hx|Hx]; [left; apply Hst; exact Hx|right; exact Hx]
                                                                    |destruct Hy as [Hy|Hy]; [left; apply Hst; exact Hy|right; exact Hy]].
      + intros x. rewrite !in_app_iff, (Hst x), (A2 x). tauto.
  Qed.

  (* C11_outside_unaffected_bytes: no operation of the open transaction touches what an outside read is computed
     from — the DB's memdbs, version and sequence number; a Commit touches them only when it succeeds, a Discard
     leaves the version alone *)
  Definition txn_local (o : bop) : bool :=
    match o with BOpen _ | BPut _ _ _ _ | BWrite _ _ | BIterOpen | BIterRelease => true | _ => false end.

  Theorem outside_unaffected w o : (txn_local o = true \/ (exists fo atts, o = BCommit fo atts /\ snd (BSTEP w o) <> TOk)) ->
    tw_db (fst (BSTEP w o)) = tw_db w /\ tw_seq (fst (BSTEP w o)) = tw_seq w /\
    forall k q, O_get (fst (BSTEP w o)) k q = O_get w k q.
  Proof.
    intros H.
    assert (G : tw_db (fst (BSTEP w o)) = tw_db w /\ tw_seq (fst (BSTEP w o)) = tw_seq w).
    { destruct H as [H|(fo & atts & -> & H)].
      - destruct o; try discriminate; unfold bstep, w_open, w_put, w_write, w_iter_open, w_iter_release, on_open.
        + destruct (tw_tr w); [auto|]. destruct (open_ready (tw_db w)); [|auto]. destruct (MemDB.mdb_new mp); auto.
        + destruct (tw_tr w) as [t|]; [|auto]. destruct (tt_closed t); [auto|]. destruct (T_put t kt key value o); auto.
        + destruct (Batch.batch_len b =? 0); [auto|]. destruct (tw_tr w) as [t|]; [|auto]. destruct (tt_closed t); [auto|].
          destruct (Batch.batch_records b); [destruct (T_puts t l os)|]; auto.
        + destruct (tw_tr w) as [t|]; [|auto]. destruct (tt_closed t); auto.
        + destruct (tw_tr w) as [t|]; auto.
      - unfold bstep, w_commit in *. destruct (tw_tr w) as [t0|]; [|auto]. destruct (tt_closed t0); [auto|].
        destruct (T_flush t0 fo) as [t r]. destruct r; try (cbn [fst]; auto).
        destruct (tt_tables t); [cbn [snd] in H; congruence|].
        destruct (commit_loop rp false 3 w _ atts) as [[[w' t'] b]|] eqn:El; [|auto].
        destruct (commit_loop_facts 3 _ _ _ _ _ _ El) as (F1 & _ & _ & _ & _ & _ & _ & F8).
        destruct b; [cbn [snd] in H; congruence|]. cbn [fst tw_with_tr tw_db tw_seq]. split; [apply F8; reflexivity|exact F1]. }
    destruct G as [G1 G2]. split; [exact G1|]. split; [exact G2|]. intros k q. unfold o_get. rewrite G1. reflexivity.
  Qed.

  (* ... and inside the commit window (the tables are in the version, db.seq is not yet set): a read at any sequence
     number up to db.seq, computed on the bytes of the NEW version, is the read before the commit *)
  Theorem commit_window_bytes w t k q : sinv w -> tinv (tw_seq w) t -> tt_tables t <> [] -> wf_bytes k -> q <= tw_seq w ->
    db_get_bytes c p mp tp crc decompress fname ufc verify (installed (tw_db w) (tt_tables t)) k q =
    db_get_bytes c p mp tp crc decompress fname ufc verify (tw_db w) k q.
  Proof.
    intros S TI Hne Wk Hq.
    set (w2 := tw_with_seq (tw_with_db w (installed (tw_db w) (tt_tables t))) (tt_seq t)).
    pose proof (installed_sinv w t w2 S TI Hne eq_refl eq_refl) as S2.
    pose proof (installed_entries w t S Hne) as IE.
    assert (Hqm : q <= keyMaxSeq p) by (pose proof (si_max _ _ S); lia).
    pose proof (get_correct_bytes c ok p pok seek_val mp mpok tp crc decompress fname ufc verify ri k q Wk Hqm _ (si_wf _ _ S2)) as E2.
    change (tw_db w2) with (installed (tw_db w) (tt_tables t)) in E2. rewrite E2.
    rewrite (get_correct_bytes c ok p pok seek_val mp mpok tp crc decompress fname ufc verify ri k q Wk Hqm _ (si_wf _ _ S)).
    do 2 f_equal.
    rewrite (newest_same_elems c ok k q _ (tab_entries (tt_tables t) ++ all_entries (absS (tw_db w)))).
    - apply (newest_skip_invisible c). intros x Hx.
      destruct TI as [_ _ _ _ (fs & Hb & Hfs & Hcut1 & _) _ _]. specialize (Hcut1 x Hx).
      unfold Lsm.vis. destruct (cmp c (e_uk x) k); try reflexivity. apply N.leb_gt. lia.
    - exact (si_uniq _ _ S2).
    - intros x. rewrite in_app_iff. apply IE.
  Qed.

  (* C11_failed_write_partial: a Transaction.Write that returns an error has applied exactly a proper PREFIX of the
     batch — the records before the one whose private flush failed.  The transaction stays open and consistent;
     the prefix is part of what it holds: its later reads see it (reads_refine / txn_get_overlay with the record list
     extended by that prefix) and a later successful Commit publishes it (bstep_refines: the commit step of the
     history machine writes ALL records the transaction holds). *)
  Theorem failed_write_partial w t wr b os recs : winv w -> tw_tr w = Some t -> applied_rel (tw_seq w) wr t ->
    Batch.batch_records b = Some recs -> Batch.batch_len b <> 0 -> puts_pre t recs os ->
    let '(w', r) := w_write c p mp rp w b os in
    exists t' post, recs = applied c p mp rp t recs os ++ post /\ tw_tr w' = Some t' /\
      tw_db w' = tw_db w /\ tw_seq w' = tw_seq w /\ tt_closed t' = false /\ tinv (tw_seq w) t' /\
      applied_rel (tw_seq w) (wr ++ applied c p mp rp t recs os) t' /\
      match r with
      | TOk => post = []
      | TErr e => e = ETable /\ post <> []
      | _ => False
      end.
  Proof.
    intros [S Ht] Et AR Eb Hl Hpre. rewrite Et in Ht. destruct Ht as [Hc TI].
    unfold w_write, on_open. apply N.eqb_neq in Hl. rewrite Hl, Et, Hc, Eb.
    destruct (T_puts t recs os) as [t' r] eqn:Ep.
    destruct (applied_prefix t recs os) as [post Epost].
    destruct (t_puts_ok (tw_seq w) recs wr t os t' r TI AR Hpre Ep) as (TI' & AR' & Ec' & _ & Hr).
    exists t', post. split; [exact Epost|]. split; [reflexivity|]. split; [reflexivity|]. split; [reflexivity|].
    split; [congruence|]. split; [exact TI'|]. split; [exact AR'|].
    destruct r as [|e| |]; try exact Hr.
    - rewrite Hr in Epost. rewrite <- (app_nil_r recs) in Epost at 1. apply app_inv_head in Epost. auto.
    - destruct Hr as [-> Hlen]. split; [reflexivity|]. intros ->. rewrite app_nil_r in Epost. rewrite <- Epost in Hlen. lia.
  Qed.

  (* ------------------------------------------------------------------ Transaction.NewIterator on bytes *)
  Variable strict : bool.

  Local Notation CL := (child_lists c mp tp crc decompress fname ufc verify ri).
  Local Notation IWF := (iter_wf c p mp tp crc decompress fname ufc verify ri).
  Local Notation DBE := (db_entries c mp tp crc decompress fname ufc verify ri).

  Lemma dpok : DBIter.dbparams_ok p.
  Proof. unfold DBIter.dbparams_ok. pose proof (del_le_val p pok). auto. Qed.

  (* the pairs of the iterator's children are the entries of the transaction's L1 state *)
  Lemma txn_children_entries w t : sinv w ->
    map entry_of (concat (CL (Some (tt_mem t)) (tt_tables t) (tw_db w))) = all_entries (txn_state t (tw_db w)).
  Proof.
    intros S. unfold child_lists, all_entries, all_tables, txn_state, mem_es.
    cbn [st_mem st_frozen st_aux st_levels map app opt_list concat].
    rewrite !concat_app, !map_app, !opt_mem_entries, (si_mem _ _ S), (si_frozen _ _ S). cbn [mem_entries opt_list map concat app].
    rewrite table_lists_concat, <- table_entries_concat, concat_app. f_equal. f_equal.
    unfold abs_table. induction (tt_tables t) as [|f l IH]; [reflexivity|]. cbn [map concat t_entries]. rewrite map_app, IH. reflexivity.
  Qed.

  Lemma txn_iter_wf w t : sinv w -> tinv (tw_seq w) t -> bs_mem (tw_db w) <> None ->
    IWF (Some (tt_mem t)) (tt_tables t) (tw_db w).
  Proof.
    intros S TI Ho. pose proof (txn_state_wf w t S TI) as WS.
    destruct (si_wf _ _ S) as [Hm Hf Ht Ha]. constructor.
    - intros d E. injection E as <-. exact (ti_mem _ _ TI).
    - exact Hm.
    - exact Ho.
    - exact Hf.
    - exact (ti_tabs _ _ TI).
    - exact Ht.
    - pose proof (wf_deep c p _ Ha) as Hd. unfold abs in Hd. cbn [st_levels] in Hd.
      destruct (bs_levels (tw_db w)) as [|l0 rest]; [constructor|]. cbn [map tl] in *.
      clear Ht. induction rest as [|ts rest IH]; [constructor|]. cbn [map] in Hd. inversion Hd as [|? ? [_ Hls] Hd']; subst.
      constructor; [exact Hls|apply IH; exact Hd'].
    - apply (nodup_map_comp fst hkey).
      pose proof (wf_state_ikeys_nodup c ok p pok _ WS) as Hn.
      rewrite <- (txn_children_entries w t S), map_map in Hn.
      erewrite map_ext; [exact Hn|]. intros x. symmetry. apply e_ikey_hkey.
  Qed.

  Lemma nodup_keyseq_u l : NoDup (map e_ikey l) -> uniq_in l -> uniq l.
  Proof.
    unfold uniq. induction l as [|a l IH]; intros Hn Hi; [constructor|]. cbn [map] in *.
    apply NoDup_cons_iff in Hn as [Hna Hn]. constructor.
    - intros Hin. apply in_map_iff in Hin as (b & E & Hb). apply Hna.
      assert (a = b).
      { unfold keyseq in E. apply Hi; [left; reflexivity|right; exact Hb|congruence|congruence]. }
      subst b. apply in_map. exact Hb.
    - apply IH; [exact Hn|]. intros x y Hx Hy. apply Hi; right; assumption.
  Qed.

  Lemma txn_state_uniq_in w t : sinv w -> tinv (tw_seq w) t -> uniq_in (all_entries (txn_state t (tw_db w))).
  Proof.
    intros S TI. rewrite (txn_state_entries w t S). intros a b Ha Hb Eu Es.
    assert (Hp : forall x, In x (priv_entries t) -> tw_seq w < e_seq x).
    { destruct TI as [_ _ _ _ (fs & Hb' & Hfs & Hc1 & Hc2) _ _]. intros x Hx. unfold priv_entries in Hx.
      apply in_app_or in Hx as [Hx|Hx]; [specialize (Hc2 x Hx)|specialize (Hc1 x Hx)]; lia. }
    apply in_app_or in Ha. apply in_app_or in Hb. destruct Ha as [Ha|Ha], Hb as [Hb|Hb].
    - apply (ti_inj _ _ TI); assumption.
    - specialize (Hp a Ha). pose proof (si_le _ _ S b Hb). lia.
    - specialize (Hp b Hb). pose proof (si_le _ _ S a Ha). lia.
    - apply (si_uniq _ _ S); assumption.
  Qed.

  (* C11_txn_iter_bytes.  An iterator of the open transaction, computed on the bytes, walks — for every range and
     every call sequence — the reference cursor over the live pairs at tr.seq of everything the transaction
     consults, and those pairs are exactly the (key, value) Transaction.Get finds: the iterator and the point
     reads of the transaction agree (hence, with txn_get_overlay: the base at open overlaid with its writes). *)
  Theorem txn_iter_bytes w t slice fuel ms : winv w -> tw_tr w = Some t -> bs_mem (tw_db w) <> None ->
    range_wf slice -> Forall umove_wf ms ->
    (length (all_entries (txn_state t (tw_db w))) < fuel)%nat ->
    t_iter c p mp tp crc decompress fname ufc verify strict fuel w slice ms =
      Some (Some (run_cursor (cmp c) (range_view c slice
                    (DBIter.live_pairs c p (tt_seq t) (DBE (Some (tt_mem t)) (tt_tables t) (tw_db w)))) ms)) /\
    (forall u v, wf_bytes u ->
       (In (u, v) (DBIter.live_pairs c p (tt_seq t) (DBE (Some (tt_mem t)) (tt_tables t) (tw_db w))) <->
        T_get w u = Some (BRes (GFound v)))).
  Proof.
    intros WI Et Ho Hr Hms Hfuel. pose proof WI as [S Ht]. rewrite Et in Ht. destruct Ht as [Hc TI].
    pose proof (txn_iter_wf w t S TI Ho) as IW.
    pose proof (txn_state_wf w t S TI) as WS.
    pose proof (txn_children_entries w t S) as EC.
    split.
    - unfold t_iter. rewrite Et, Hc. f_equal.
      apply (db_iterator_bytes_gen c ok p dpok mp mpok tp crc decompress fname ufc verify ri strict _ _ _ _ slice fuel ms IW
               (ti_max _ _ TI) Hr Hms).
      rewrite <- (map_length entry_of), EC. exact Hfuel.
    - intros u v Wu.
      pose proof (all_pairs_keys c ok p dpok mp mpok tp crc decompress fname ufc verify ri strict _ _ _ IW) as Hk.
      pose proof (all_pairs_sorted c ok p mp tp crc decompress fname ufc verify ri _ _ _ IW) as Hs.
      assert (EE : DBE (Some (tt_mem t)) (tt_tables t) (tw_db w) = lsm_entries c (txn_state t (tw_db w))).
      { apply (sorted_kv_ext (icmp c) (icmp_ord_ok c ok)).
        - unfold db_entries. apply (dec_sorted c p); assumption.
        - unfold lsm_entries. apply (merge_sorted ikey bytes (icmp c) (icmp_ord_ok c ok)).
          cbn [concat]. rewrite app_nil_r, map_map. cbn [entry_kv fst]. exact (wf_state_ikeys_nodup c ok p pok _ WS).
        - intros x. unfold db_entries, lsm_entries, merge_lists. rewrite (fold_insert_in ikey bytes (icmp c)).
          cbn [concat]. rewrite app_nil_r, <- EC, map_map. rewrite !in_map_iff.
          split; intros (y & E & Hy).
          + apply (all_pairs_in c mp tp crc decompress fname ufc verify ri) in Hy.
            exists y. split; [|exact Hy]. rewrite <- E. symmetry. apply (dec_entry_kv p).
            unfold keys_okl in Hk. rewrite Forall_forall in Hk. apply Hk.
            apply (all_pairs_in c mp tp crc decompress fname ufc verify ri). exact Hy.
          + exists y. assert (Hy' : In y (all_pairs c mp tp crc decompress fname ufc verify ri (Some (tt_mem t)) (tt_tables t) (tw_db w)))
              by (apply (all_pairs_in c mp tp crc decompress fname ufc verify ri); exact Hy).
            split; [|exact Hy']. rewrite <- E. apply (dec_entry_kv p).
            unfold keys_okl in Hk. rewrite Forall_forall in Hk. apply Hk. exact Hy'. }
      rewrite EE.
      assert (Hkinds : Forall (fun e => e_kind e = keyTypeDel p \/ e_kind e = keyTypeVal p) (all_entries (txn_state t (tw_db w)))).
      { rewrite <- EC. apply Forall_forall. intros e He. apply in_map_iff in He as (x & <- & Hx).
        apply (all_pairs_in c mp tp crc decompress fname ufc verify ri) in Hx.
        unfold keys_okl in Hk. rewrite Forall_forall in Hk. specialize (Hk x Hx).
        destruct (key_okb_dec p _ Hk) as (kk & D & K). rewrite (entry_of_dec x kk D). exact K. }
      assert (Hun : uniq (all_entries (txn_state t (tw_db w)))).
      { apply nodup_keyseq_u; [exact (wf_state_ikeys_nodup c ok p pok _ WS)|apply txn_state_uniq_in; assumption]. }
      rewrite (view_agrees_with_get c ok p pok _ WS Hun Hkinds (tt_seq t) u v).
      rewrite (txn_get_newest w t u WI Et Wu).
      rewrite (get_correct c ok p pok _ u (tt_seq t) WS), (txn_state_entries w t S).
      split; [intros ->; reflexivity|intros E; injection E as E; exact E].
  Qed.
End Txn.
