(* Lsm/InsertProofs.v — the batch insert of versionStaging.finish (binary search for the insert index instead of a
   sort): inserting an ordered run of tables at searchMin(amax) into an ordered level keeps the level ordered when every
   table of the level lies entirely on one side of the run; the level-0 insert by file number keeps the numbers
   descending; sorting an already ordered run is the identity. *)
From GL Require Import Base.Order Base.OrderProofs Codec.IKey Codec.IKeyProofs Lsm.Lsm Lsm.Compact Lsm.LsmProofs
  Lsm.WfProofs Lsm.Pick Lsm.PickBase Lsm.OverlapProofs Lsm.ExpandProofs Lsm.WfLsm.
From Coq Require Import Arith Lia.

Local Open Scope nat_scope.

Section Insert.
  Variable c : comparer.
  Hypothesis ok : comparer_ok c.
  Variable p : kparams.

  Notation lt := (Order.lt c).
  Notation le := (Order.le c).

  Definition ents_lt (A B : list entry) : Prop :=
    forall x y, In x A -> In y B -> cmp c (e_uk x) (e_uk y) = Lt.
  (* the table lies entirely below or entirely above the entries I *)
  Definition sep (s : table) (I : list entry) : Prop := ents_lt (t_entries s) I \/ ents_lt I (t_entries s).

  Lemma sep_incl s I J : sep s I -> incl J I -> sep s J.
  Proof. intros [H|H] Hi; [left|right]; intros x y Hx Hy; apply H; auto. Qed.

  (* getRange: the maximum is the bound of a member *)
  Lemma get_range_from_mem tf : forall imin imax,
    snd (get_range_from c imin imax tf) = imax \/ exists t, In t tf /\ snd (get_range_from c imin imax tf) = imax_of t.
  Proof.
    induction tf as [|t tf IH]; intros imin imax; cbn [get_range_from]; [left; reflexivity|]. cbv zeta.
    match goal with |- context [get_range_from c ?a ?b tf] => destruct (IH a b) as [E|[t' [Ht' E]]] end.
    - rewrite E. destruct (icmp c (imax_of t) imax); [left; reflexivity|left; reflexivity|].
      right. exists t. split; [left; reflexivity|reflexivity].
    - right. exists t'. split; [right; exact Ht'|exact E].
  Qed.

  Lemma get_range_mem tf r : get_range c tf = POk r -> exists t, In t tf /\ snd r = imax_of t.
  Proof.
    destruct tf as [|t tf]; [discriminate|]. cbn [get_range]. intros H. injection H as <-.
    destruct (get_range_from_mem tf (imin_of t) (imax_of t)) as [E|[t' [Ht' E]]].
    - exists t. split; [left; reflexivity|exact E].
    - exists t'. split; [right; exact Ht'|exact E].
  Qed.

  (* ---- insert into an ordered level ---- *)
  Section Deep.
    Variable nt A : list table.
    Hypothesis nt_ok : forall t, In t nt -> tbl_ok c p t.
    Hypothesis nt_sorted : level_sorted c nt.
    Hypothesis A_ok : forall t, In t A -> tbl_ok c p t.
    Hypothesis A_sorted : level_sorted c A.
    Variable amax : ikey.
    Hypothesis amax_in : exists a, In a A /\ amax = imax_of a.
    Hypothesis nt_sep : forall s, In s nt -> sep s (LE A).

    Let idx := search_min_idx c nt amax.
    Let f := fun i => match icmp c (imin_of (tnth nt i)) amax with Lt => false | _ => true end.

    Lemma amax_entry : exists a, In a A /\ In (t_hi a) (LE A) /\ amax = e_ikey (t_hi a).
    Proof.
      destruct amax_in as [a [Ha E]]. exists a. split; [exact Ha|]. split; [|exact E].
      apply LE_in. exists a. split; [exact Ha|]. apply t_hi_in. apply (A_ok a Ha).
    Qed.

    Lemma imin_increasing i j : i < j -> j < length nt -> icmp c (imin_of (tnth nt i)) (imin_of (tnth nt j)) = Lt.
    Proof.
      intros Hij Hj. apply icmp_ukey_lt. unfold imin_of. cbn [e_ikey uk].
      apply (level_sorted_pair c nt i j nt_sorted Hij Hj); apply t_lo_in; apply nt_ok; apply nth_In; lia.
    Qed.

    Lemma f_monotone : monotone f 0 (length nt).
    Proof.
      intros a b _ Hab Hb Fa. destruct (Nat.eq_dec a b) as [->|Hne]; [exact Fa|].
      unfold f in *. destruct (icmp c (imin_of (tnth nt b)) amax) eqn:E; try reflexivity.
      pose proof (imin_increasing a b ltac:(lia) Hb) as L.
      rewrite (icmp_trans c ok _ _ _ L E) in Fa. discriminate.
    Qed.

    Lemma below_idx s : In s (firstn idx nt) -> ents_lt (t_entries s) (LE A).
    Proof.
      intros Hs. apply (in_firstn_nth no_table) in Hs as [i [Hi [Hn E]]].
      destruct (sort_search_spec (length nt) f f_monotone) as [_ [K2 _]].
      specialize (K2 i Hi). unfold f in K2. fold (tnth nt i) in E. rewrite E in K2.
      assert (Hin : In s nt) by (rewrite <- E; apply nth_In; exact Hn).
      destruct (nt_sep s Hin) as [H|H]; [exact H|]. exfalso.
      destruct amax_entry as [a [Ha [Hh Ea]]].
      pose proof (H (t_hi a) (t_lo s) Hh (t_lo_in s (proj2 (nt_ok s Hin)))) as L.
      assert (L2 : icmp c amax (imin_of s) = Lt) by (rewrite Ea; apply icmp_ukey_lt; exact L).
      destruct (icmp c (imin_of s) amax) eqn:E2; try discriminate.
      apply (icmp_irrefl c ok amax). eapply (icmp_trans c ok); eauto.
    Qed.

    Lemma above_idx s : In s (skipn idx nt) -> ents_lt (LE A) (t_entries s).
    Proof.
      intros Hs. apply (in_skipn_nth no_table) in Hs as [i [Hi [Hn E]]].
      destruct (sort_search_spec (length nt) f f_monotone) as [_ [_ K3]].
      specialize (K3 i Hi Hn). unfold f in K3. fold (tnth nt i) in E. rewrite E in K3.
      assert (Hin : In s nt) by (rewrite <- E; apply nth_In; exact Hn).
      destruct (nt_sep s Hin) as [H|H]; [|exact H]. exfalso.
      destruct amax_entry as [a [Ha [Hh Ea]]].
      pose proof (H (t_lo s) (t_hi a) (t_lo_in s (proj2 (nt_ok s Hin))) Hh) as L.
      assert (L2 : icmp c (imin_of s) amax = Lt) by (rewrite Ea; apply icmp_ukey_lt; exact L).
      rewrite L2 in K3. discriminate.
    Qed.

    Theorem insert_sorted : level_sorted c (firstn idx nt ++ A ++ skipn idx nt).
    Proof.
      pose proof nt_sorted as S0. rewrite <- (firstn_skipn idx nt) in S0.
      apply (level_sorted_app c) in S0 as [S1 [S2 S3]].
      apply (level_sorted_app c). split; [exact S1|]. split.
      - apply (level_sorted_app c). split; [exact A_sorted|]. split; [exact S2|].
        intros a s Ha Hs x y Hx Hy. apply (above_idx s Hs x y); [|exact Hy].
        apply LE_in. exists a. split; assumption.
      - intros s b Hs Hb x y Hx Hy. apply in_app_or in Hb as [Hb|Hb].
        + apply (below_idx s Hs x y Hx). apply LE_in. exists b. split; assumption.
        + apply (S3 s b Hs Hb x y Hx Hy).
    Qed.
  End Deep.

  (* sortByKey of an ordered run is the identity *)
  Lemma sort_by_key_sorted A : (forall t, In t A -> tbl_ok c p t) -> level_sorted c A -> sort_by_key c A = A.
  Proof.
    induction A as [|a A IH]; intros Hok Hs; [reflexivity|]. cbn [sort_by_key fold_right].
    fold (sort_by_key c A). destruct Hs as [Hall Hs].
    rewrite IH by (try exact Hs; intros t Ht; apply Hok; right; exact Ht).
    destruct A as [|b A']; [reflexivity|]. cbn [ins_key].
    assert (L : cmp c (e_uk (t_lo a)) (e_uk (t_lo b)) = Lt).
    { rewrite Forall_forall in Hall. apply (Hall b (or_introl eq_refl)); apply t_lo_in; apply Hok; [left|right; left]; reflexivity. }
    unfold less_by_key, imin_of, icmp. cbn [e_ikey uk].
    rewrite (cmp_opp c ok), L. reflexivity.
  Qed.

  (* ---- level 0: insert by file number ---- *)
  Lemma nums_sorted_app A B : nums_sorted (A ++ B) <->
    nums_sorted A /\ nums_sorted B /\ (forall a b, In a A -> In b B -> (t_num b < t_num a)%N).
  Proof.
    induction A as [|a A IH]; cbn [app nums_sorted].
    - split; [intros H; repeat split; [exact H|intros a b []]|intros [_ [H _]]; exact H].
    - rewrite IH, Forall_app, !Forall_forall. split.
      + intros [[F1 F2] [H1 [H2 H3]]]. repeat split; try assumption.
        intros a' b [<-|Ha] Hb; [apply F2; exact Hb|apply H3; assumption].
      + intros [[F1 H1] [H2 H3]]. repeat split; try assumption.
        * intros b Hb. apply H3; [left; reflexivity|exact Hb].
        * intros a' b Ha Hb. apply H3; [right; exact Ha|exact Hb].
  Qed.

  Lemma nums_sorted_filter g l : nums_sorted l -> nums_sorted (filter g l).
  Proof.
    induction l as [|a l IH]; [auto|]. intros [Hall Hs]. cbn [filter].
    destruct (g a); [|apply IH; exact Hs]. split; [|apply IH; exact Hs].
    rewrite Forall_forall in *. intros b Hb. apply Hall. apply filter_In in Hb. apply Hb.
  Qed.

  Lemma nums_sorted_nth l i j : nums_sorted l -> i < j -> j < length l -> (t_num (tnth l j) < t_num (tnth l i))%N.
  Proof.
    revert i j; induction l as [|a l IH]; intros i j Hs Hij Hj; [cbn in Hj; lia|].
    destruct Hs as [Hall Hs]. destruct j as [|j]; [lia|]. cbn [length] in Hj. unfold tnth.
    destruct i as [|i]; cbn [nth].
    - rewrite Forall_forall in Hall. apply Hall. apply nth_In. lia.
    - apply (IH i j Hs); lia.
  Qed.

  Theorem insert_by_num nt t : nums_sorted nt -> (forall s, In s nt -> t_num s <> t_num t) ->
    nums_sorted (firstn (search_num_less nt (t_num t)) nt ++ [t] ++ skipn (search_num_less nt (t_num t)) nt).
  Proof.
    intros Hs Hf. set (n := t_num t). set (g := fun i => (t_num (tnth nt i) <? n)%N).
    assert (Hm : monotone g 0 (length nt)).
    { intros a b _ Hab Hb Ga. destruct (Nat.eq_dec a b) as [->|Hne]; [exact Ga|]. unfold g in *.
      apply N.ltb_lt in Ga. apply N.ltb_lt. pose proof (nums_sorted_nth nt a b Hs ltac:(lia) Hb). lia. }
    destruct (sort_search_spec (length nt) g Hm) as [_ [K2 K3]].
    fold (search_num_less nt n) in K2, K3. set (idx := search_num_less nt n) in *.
    pose proof Hs as S0. rewrite <- (firstn_skipn idx nt) in S0. apply nums_sorted_app in S0 as [S1 [S2 S3]].
    apply nums_sorted_app. split; [exact S1|]. split.
    - apply (nums_sorted_app [t]). split; [split; [constructor|exact I]|]. split; [exact S2|].
      intros a b [<-|[]] Hb. apply (in_skipn_nth no_table) in Hb as [i [Hi [Hn E]]].
      specialize (K3 i Hi Hn). unfold g in K3. fold (tnth nt i) in E. rewrite E in K3. apply N.ltb_lt. exact K3.
    - intros a b Ha Hb. apply in_app_or in Hb as [[<-|[]]|Hb]; [|apply S3; assumption].
      apply (in_firstn_nth no_table) in Ha as [i [Hi [Hn E]]].
      specialize (K2 i Hi). unfold g in K2. fold (tnth nt i) in E. rewrite E in K2. apply N.ltb_ge in K2.
      assert (In a nt) by (rewrite <- E; apply nth_In; exact Hn).
      pose proof (Hf a H). fold n in H0. lia.
  Qed.
End Insert.
