(* Lsm/IterPathLevel.v — one sorted level under the DB iterator (proof file): the indexed iterator over
   tFiles.newIndexIterator (Lsm/IterPath.v: cut_files = tf[searchMax(Start):searchMin(Limit)] with the
   inverted-range clamp; aidx = basicArrayIterator over tFilesArrayIndexer, Search = searchMax, Get(i) hands
   the slice on only for the first and the last table of the cut) refines the cursor over the pairs of ALL
   tables of the level that lie inside the slice.
   Shape: (1) the array indexer refines the cursor over the index list [il_of] (index key = imax);
          (2) that list meets Iter/Indexed.v's index_ok;
          (3) the concatenation of the blocks of the cut = the slice of the concatenation of the level
              (tables before the cut are below Start, tables after it are at or above Limit, tables strictly
              inside the cut lie wholly inside the slice - the first/last slice rule);
          (4) C02's indexed_is_cursor. *)
From GL Require Import Base.Bytes Base.Order Base.OrderProofs Codec.IKey Codec.Block Codec.Table
  Lsm.Pick Lsm.PickBase Lsm.ReadPath Lsm.ReadPathKey Lsm.ReadPathProofs Lsm.IterPath Lsm.IterPathChild.
From GL Require Base.Cursor.
From GL Require Import Iter.Cursor Iter.CursorProofs Iter.CursorBridge Iter.Indexed Iter.IndexedProofs Iter.LiveProofs.
From Coq Require Import Lia Arith ZArith.

(* ------------------------------------------------------------------ lists *)
Lemma ss_nth {A} (R : A -> A -> Prop) (d : A) (l : list A) : StronglySorted R l ->
  forall i j, i < j -> j < length l -> R (nth i l d) (nth j l d).
Proof.
  induction l as [|x l IH]; intros Hs i j Hij Hj; [cbn in Hj; lia|].
  apply StronglySorted_inv in Hs as [Hs Hall]. destruct j as [|j]; [lia|]. cbn [length] in Hj.
  destruct i as [|i]; cbn [nth].
  - rewrite Forall_forall in Hall. apply Hall. apply nth_In. lia.
  - apply IH; [exact Hs|lia|lia].
Qed.

Lemma ss_app_inv {A} (R : A -> A -> Prop) (l1 l2 : list A) : StronglySorted R (l1 ++ l2) ->
  StronglySorted R l1 /\ StronglySorted R l2 /\ forall x y, In x l1 -> In y l2 -> R x y.
Proof.
  induction l1 as [|x l1 IH]; intros H; cbn [app] in H.
  - split; [constructor|]. split; [exact H|]. intros x y [].
  - apply StronglySorted_inv in H as [Hs Hall]. destruct (IH Hs) as (H1 & H2 & H3).
    split; [constructor; [exact H1|]|split; [exact H2|]].
    + rewrite Forall_forall in *. intros y Hy. apply Hall. apply in_or_app. left. exact Hy.
    + intros a b [<-|Ha] Hb; [|apply H3; assumption].
      rewrite Forall_forall in Hall. apply Hall. apply in_or_app. right. exact Hb.
Qed.

Lemma nth_error_map_seq {B} (g : nat -> B) n i : i < n -> nth_error (map g (seq 0 n)) i = Some (g i).
Proof.
  intros Hi. rewrite nth_error_map, (nth_error_nth' (seq 0 n) 0) by (rewrite seq_length; exact Hi).
  rewrite seq_nth by exact Hi. reflexivity.
Qed.

Lemma in_firstn_nth {A} (d : A) (l : list A) n x : In x (firstn n l) -> exists i, i < n /\ i < length l /\ nth i l d = x.
Proof.
  revert n. induction l as [|y l IH]; intros n H; [rewrite firstn_nil in H; destruct H|].
  destruct n as [|n]; [destruct H|]. cbn [firstn] in H. destruct H as [<-|H].
  - exists 0. cbn. split; [lia|]. split; [lia|reflexivity].
  - destruct (IH n H) as (i & H1 & H2 & H3). exists (S i). cbn [length nth]. split; [lia|]. split; [lia|exact H3].
Qed.

Lemma in_skipn_nth {A} (d : A) (l : list A) n x : In x (skipn n l) -> exists i, n <= i /\ i < length l /\ nth i l d = x.
Proof.
  revert n. induction l as [|y l IH]; intros n H; [rewrite skipn_nil in H; destruct H|].
  destruct n as [|n].
  - cbn [skipn] in H. destruct (In_nth _ _ d H) as (i & Hi & E). exists i. split; [lia|]. split; assumption.
  - cbn [skipn] in H. destruct (IH n H) as (i & H1 & H2 & H3). exists (S i). cbn [length nth]. split; [lia|]. split; [lia|exact H3].
Qed.

Lemma nth_error_mid {A} (a : list A) e b : nth_error (a ++ e :: b) (length a) = Some e.
Proof. induction a as [|x a IH]; [reflexivity|exact IH]. Qed.

Lemma skipn_skipn' {A} (l : list A) : forall m n, skipn n (skipn m l) = skipn (m + n) l.
Proof.
  induction l as [|x l IH]; intros m n; [rewrite !skipn_nil; reflexivity|].
  destruct m as [|m]; [reflexivity|]. cbn [skipn Nat.add]. apply IH.
Qed.

Lemma map_nth_seq {A B} (g : A -> B) (d : A) (l : list A) :
  map g l = map (fun i => g (nth i l d)) (seq 0 (length l)).
Proof.
  induction l as [|x l IH]; [reflexivity|]. cbn [length seq map nth]. f_equal.
  rewrite <- seq_shift, map_map. cbn [nth]. exact IH.
Qed.

Lemma filter_nil_intro {A} (g : A -> bool) (l : list A) : (forall x, In x l -> g x = false) -> filter g l = [].
Proof.
  induction l as [|x l IH]; intros H; [reflexivity|]. cbn [filter]. rewrite (H x (or_introl eq_refl)).
  apply IH. intros y Hy. apply H. right. exact Hy.
Qed.

Lemma filter_all_intro {A} (g : A -> bool) (l : list A) : (forall x, In x l -> g x = true) -> filter g l = l.
Proof.
  induction l as [|x l IH]; intros H; [reflexivity|]. cbn [filter]. rewrite (H x (or_introl eq_refl)).
  f_equal. apply IH. intros y Hy. apply H. right. exact Hy.
Qed.

Lemma filter_concat_map {A B} (g : B -> bool) (h : A -> list B) (l : list A) :
  filter g (concat (map h l)) = concat (map (fun a => filter g (h a)) l).
Proof.
  induction l as [|a l IH]; [reflexivity|]. cbn [map concat]. rewrite filter_app, IH. reflexivity.
Qed.

(* find_ge lands on the first index whose key is not below the probe *)
Lemma find_ge_first {K V} (f : K -> K -> comparison) (k : K) (d : K * V) : forall (l : list (K * V)) (j i0 : nat),
  (forall a, a < j -> f (fst (nth a l d)) k = Lt) ->
  (j < length l -> f (fst (nth j l d)) k <> Lt) -> j <= length l ->
  find_ge f k l i0 = if Nat.ltb j (length l) then At (i0 + j) else EOI.
Proof.
  induction l as [|x l IH]; intros j i0 H1 H2 H3.
  - cbn in H3. assert (j = 0) by lia. subst. reflexivity.
  - destruct j as [|j].
    + specialize (H2 ltac:(cbn; lia)). cbn [nth] in H2. cbn [find_ge length].
      replace (0 <? S (length l)) with true by (symmetry; apply Nat.ltb_lt; lia).
      rewrite Nat.add_0_r. destruct (f (fst x) k); congruence.
    + pose proof (H1 0 ltac:(lia)) as G. cbn [nth] in G. cbn [find_ge]. rewrite G. cbn [length].
      rewrite (IH j (S i0)).
      * change (S j <? S (length l)) with (j <? length l). destruct (j <? length l); [f_equal; lia|reflexivity].
      * intros a Ha. apply (H1 (S a)). lia.
      * intros Hj. apply H2. cbn [length]. lia.
      * cbn [length] in H3. lia.
Qed.

Section Level.
  Variable c : comparer.
  Hypothesis ok : comparer_ok c.
  Variable tp : tparams.
  Variable crc : bytes -> N.
  Variable decompress : bytes -> option bytes.
  Variable fname : option bytes.
  Variable ufc : bytes -> N -> bytes -> bool.
  Variable verify : bool.
  Variable strict : bool.
  Variable prs : tfile -> list (bytes * bytes).        (* the pairs of a table file (ReadPath.tf_pairs) *)

  Local Notation ic := (ibc c).
  Local Notation icok := (ibc_ok c ok).
  Local Notation fok := (cmp_ord_ok ic icok).
  Local Notation tnew := (tc_new c tp crc decompress fname ufc verify strict).

  (* what the level theorem needs of one table file *)
  Record file_ok (f : tfile) : Prop := {
    fo_pairs : exists kv r, prs f = kv :: r /\ tf_imin f = fst kv /\ tf_imax f = fst (last r kv);
    fo_sorted : sorted_kv (cmp ic) (prs f);
    fo_iter : forall sl, refines (cmp ic) (tc_step c) tc_obs (tnew f sl) (sl_pairs ic sl (prs f))
  }.

  (* every key of f is below every key of g *)
  Definition file_lt (f g : tfile) : Prop :=
    forall x y, In x (prs f) -> In y (prs g) -> cmp ic (fst x) (fst y) = Lt.

  Definition level_ok (ts : list tfile) : Prop := Forall file_ok ts /\ StronglySorted file_lt ts.

  Lemma imin_in f : file_ok f -> exists x, In x (prs f) /\ fst x = tf_imin f.
  Proof. intros [(kv & r & E & E1 & _) _ _]. exists kv. rewrite E. split; [left; reflexivity|auto]. Qed.

  Lemma imax_in f : file_ok f -> exists x, In x (prs f) /\ fst x = tf_imax f.
  Proof. intros [(kv & r & E & _ & E2) _ _]. exists (last r kv). rewrite E. split; [apply in_last|auto]. Qed.

  Lemma imin_le f x : file_ok f -> In x (prs f) -> cmp ic (tf_imin f) (fst x) <> Gt.
  Proof.
    intros [(kv & r & E & E1 & _) Hs _] Hx. rewrite E in Hx, Hs. rewrite E1.
    destruct Hx as [<-|Hx]; [rewrite (f_refl _ fok); discriminate|].
    apply StronglySorted_inv in Hs as [_ Hall]. rewrite Forall_forall in Hall. specialize (Hall x Hx).
    unfold kv_lt in Hall. rewrite Hall. discriminate.
  Qed.

  Lemma sorted_last_ge (l : list (bytes * bytes)) : sorted_kv (cmp ic) l -> forall kv x, In x (kv :: l) ->
    sorted_kv (cmp ic) (kv :: l) -> cmp ic (fst x) (fst (last l kv)) <> Gt.
  Proof.
    induction l as [|y l IH]; intros Hs kv x Hx Hsk.
    - destruct Hx as [<-|[]]. cbn [last]. rewrite (f_refl _ fok). discriminate.
    - apply StronglySorted_inv in Hsk as [Hs' Hall].
      rewrite (last_cons_dflt l y kv).
      destruct Hx as [<-|Hx].
      + (* kv < y <= last *)
        assert (Hy : cmp ic (fst y) (fst (last l y)) <> Gt).
        { apply StronglySorted_inv in Hs as [Hs2 _]. apply (IH Hs2 y y (or_introl eq_refl) Hs'). }
        apply Forall_inv in Hall. unfold kv_lt in Hall.
        pose proof (f_lt_le_trans _ fok _ _ _ Hall Hy) as H. rewrite H. discriminate.
      + apply StronglySorted_inv in Hs as [Hs2 _]. apply (IH Hs2 y x Hx Hs').
  Qed.

  Lemma imax_ge f x : file_ok f -> In x (prs f) -> cmp ic (fst x) (tf_imax f) <> Gt.
  Proof.
    intros [(kv & r & E & _ & E2) Hs _] Hx. rewrite E in Hx, Hs. rewrite E2.
    pose proof Hs as Hs0. apply StronglySorted_inv in Hs as [Hs _].
    apply (sorted_last_ge r Hs kv x Hx Hs0).
  Qed.

  Lemma imax_lt f g : file_ok f -> file_ok g -> file_lt f g -> cmp ic (tf_imax f) (tf_imax g) = Lt.
  Proof.
    intros Hf Hg Hl. destruct (imax_in f Hf) as (x & Hx & <-). destruct (imax_in g Hg) as (y & Hy & <-).
    apply Hl; assumption.
  Qed.

  Lemma level_ok_app ts1 ts2 : level_ok (ts1 ++ ts2) -> level_ok ts1 /\ level_ok ts2.
  Proof.
    intros [Hf Hs]. apply Forall_app in Hf as [F1 F2]. apply ss_app_inv in Hs as (S1 & S2 & _).
    split; split; assumption.
  Qed.

  Lemma level_ok_nth ts i : level_ok ts -> i < length ts -> file_ok (nth i ts no_tfile).
  Proof. intros [Hf _] Hi. rewrite Forall_forall in Hf. apply Hf. apply nth_In. exact Hi. Qed.

  Lemma level_lt_nth ts i j : level_ok ts -> i < j -> j < length ts -> file_lt (nth i ts no_tfile) (nth j ts no_tfile).
  Proof. intros [_ Hs] Hij Hj. apply (ss_nth file_lt no_tfile ts Hs i j Hij Hj). Qed.

  (* ---- the two binary searches ---- *)
  Definition gmax (ts : list tfile) (k : bytes) (i : nat) : bool :=
    match cmp ic (tf_imax (nth i ts no_tfile)) k with Lt => false | _ => true end.
  Definition gmin (ts : list tfile) (k : bytes) (i : nat) : bool :=
    match cmp ic (tf_imin (nth i ts no_tfile)) k with Lt => false | _ => true end.

  Lemma gmax_mono ts k : level_ok ts -> monotone (gmax ts k) 0 (length ts).
  Proof.
    intros Hl a b _ Hab Hb Ha. destruct (Nat.eq_dec a b) as [->|Hne]; [exact Ha|].
    unfold gmax in *.
    pose proof (imax_lt _ _ (level_ok_nth ts a Hl ltac:(lia)) (level_ok_nth ts b Hl Hb)
                  (level_lt_nth ts a b Hl ltac:(lia) Hb)) as Hlt.
    destruct (cmp ic (tf_imax (nth b ts no_tfile)) k) eqn:E; try reflexivity. exfalso.
    pose proof (cmp_trans ic icok _ _ _ Hlt E) as T. rewrite T in Ha. discriminate.
  Qed.

  Lemma gmin_mono ts k : level_ok ts -> monotone (gmin ts k) 0 (length ts).
  Proof.
    intros Hl a b _ Hab Hb Ha. destruct (Nat.eq_dec a b) as [->|Hne]; [exact Ha|].
    unfold gmin in *.
    destruct (imin_in _ (level_ok_nth ts a Hl ltac:(lia))) as (x & Hx & Ex).
    destruct (imin_in _ (level_ok_nth ts b Hl Hb)) as (y & Hy & Ey).
    pose proof (level_lt_nth ts a b Hl ltac:(lia) Hb x y Hx Hy) as Hlt. rewrite Ex, Ey in Hlt.
    destruct (cmp ic (tf_imin (nth b ts no_tfile)) k) eqn:E; try reflexivity. exfalso.
    pose proof (cmp_trans ic icok _ _ _ Hlt E) as T. rewrite T in Ha. discriminate.
  Qed.

  Lemma search_max_spec ts k : level_ok ts ->
    tf_search_max c ts k <= length ts /\
    (forall a, a < tf_search_max c ts k -> cmp ic (tf_imax (nth a ts no_tfile)) k = Lt) /\
    (forall a, tf_search_max c ts k <= a -> a < length ts -> cmp ic (tf_imax (nth a ts no_tfile)) k <> Lt).
  Proof.
    intros Hl. destruct (sort_search_spec (length ts) (gmax ts k) (gmax_mono ts k Hl)) as (K1 & K2 & K3).
    unfold tf_search_max, ReadPath.ic. fold (gmax ts k). split; [exact K1|]. split.
    - intros a Ha. specialize (K2 a Ha). unfold gmax in K2. destruct (cmp ic _ k); congruence.
    - intros a H1 H2. specialize (K3 a H1 H2). unfold gmax in K3. destruct (cmp ic _ k); congruence.
  Qed.

  Lemma search_min_spec ts k : level_ok ts ->
    tf_search_min c ts k <= length ts /\
    (forall a, a < tf_search_min c ts k -> cmp ic (tf_imin (nth a ts no_tfile)) k = Lt) /\
    (forall a, tf_search_min c ts k <= a -> a < length ts -> cmp ic (tf_imin (nth a ts no_tfile)) k <> Lt).
  Proof.
    intros Hl. destruct (sort_search_spec (length ts) (gmin ts k) (gmin_mono ts k Hl)) as (K1 & K2 & K3).
    unfold tf_search_min. fold (gmin ts k). split; [exact K1|]. split.
    - intros a Ha. specialize (K2 a Ha). unfold gmin in K2. destruct (cmp ic _ k); congruence.
    - intros a H1 H2. specialize (K3 a H1 H2). unfold gmin in K3. destruct (cmp ic _ k); congruence.
  Qed.

  (* ---- (1) the array indexer ---- *)
  Definition il_entry (fs : list tfile) (sl : option krange) (i : nat) : bytes * (tfile * option krange) :=
    let f := nth i fs no_tfile in
    (tf_imax f, (f, if Nat.eqb i 0 || Nat.eqb i (length fs - 1) then sl else None)).
  Definition il_of (fs : list tfile) (sl : option krange) : list (bytes * (tfile * option krange)) :=
    map (il_entry fs sl) (seq 0 (length fs)).

  Lemma il_length fs sl : length (il_of fs sl) = length fs.
  Proof. unfold il_of. rewrite map_length, seq_length. reflexivity. Qed.

  Lemma il_nth fs sl i : i < length fs -> nth_error (il_of fs sl) i = Some (il_entry fs sl i).
  Proof. intros Hi. apply nth_error_map_seq. exact Hi. Qed.

  Lemma il_nth_d fs sl i d : i < length fs -> nth i (il_of fs sl) d = il_entry fs sl i.
  Proof. intros Hi. apply nth_error_nth. apply il_nth. exact Hi. Qed.

  Section Indexer.
    Variables (fs : list tfile) (sl : option krange).
    Hypothesis Hl : level_ok fs.
    Local Notation il := (il_of fs sl).
    Local Notation n := (length fs).

    Definition AR (a : aidx) (q : pos) : Prop :=
      ai_files a = fs /\ ai_slice a = sl /\
      (n = 0 \/
       (0 < n /\ match q with
                 | SOI => ai_pos a = (-1)%Z
                 | At i => i < n /\ ai_pos a = Z.of_nat i
                 | EOI => ai_pos a = Z.of_nat n
                 end)).

    Lemma AR_obs a q : AR a q -> ai_obs a = cobs il q.
    Proof.
      intros (Hf & Hs & H). unfold ai_obs, ai_valid, ai_len. rewrite Hf, Hs.
      destruct H as [H0|(Hn & H)].
      - rewrite H0. cbn [Z.of_nat].
        assert (E : ((0 <=? ai_pos a) && (ai_pos a <? 0))%Z = false).
        { destruct (0 <=? ai_pos a)%Z eqn:E1; destruct (ai_pos a <? 0)%Z eqn:E2; try reflexivity.
          apply Z.leb_le in E1. apply Z.ltb_lt in E2. lia. }
        rewrite E. destruct q; cbn [cobs]; try reflexivity. symmetry. apply nth_error_None. rewrite il_length. lia.
      - destruct q as [|i|]; cbn [cobs].
        + rewrite H. reflexivity.
        + destruct H as [Hi ->].
          replace (0 <=? Z.of_nat i)%Z with true by (symmetry; apply Z.leb_le; lia).
          replace (Z.of_nat i <? Z.of_nat n)%Z with true by (symmetry; apply Z.ltb_lt; lia).
          cbn [andb]. rewrite Nat2Z.id, (il_nth fs sl i Hi). reflexivity.
        + rewrite H. replace (Z.of_nat n <? Z.of_nat n)%Z with false by (symmetry; apply Z.ltb_irrefl).
          rewrite Bool.andb_false_r. reflexivity.
    Qed.

    Lemma seek_il k : find_ge (cmp ic) k il 0 =
      if Nat.ltb (tf_search_max c fs k) n then At (tf_search_max c fs k) else EOI.
    Proof.
      destruct (search_max_spec fs k Hl) as (K1 & K2 & K3).
      pose proof (find_ge_first (cmp ic) k (il_entry fs sl 0) il (tf_search_max c fs k) 0) as H.
      rewrite il_length in H. cbn [Nat.add] in H. apply H.
      - intros a Ha. rewrite il_nth_d by lia. cbn [il_entry fst]. apply K2. exact Ha.
      - intros Hj. rewrite il_nth_d by lia. cbn [il_entry fst]. apply K3; [lia|exact Hj].
      - exact K1.
    Qed.

    Lemma AR_step a q mv : AR a q -> AR (ai_step c a mv) (cstep (cmp ic) il q mv).
    Proof.
      intros (Hf & Hs & H). unfold AR.
      assert (Hfs : forall z, ai_files (ai_set a z) = fs /\ ai_slice (ai_set a z) = sl) by (intros z; split; assumption).
      assert (Hfiles : ai_files (ai_step c a mv) = fs /\ ai_slice (ai_step c a mv) = sl).
      { unfold ai_step. destruct mv; repeat match goal with |- context [if ?b then _ else _] => destruct b end; apply Hfs. }
      destruct Hfiles as [Hf' Hs']. split; [exact Hf'|]. split; [exact Hs'|].
      destruct H as [H0|(Hn & H)]; [left; exact H0|right]. split; [exact Hn|].
      assert (Elen : ai_len a = Z.of_nat n) by (unfold ai_len; rewrite Hf; reflexivity).
      assert (Enz : (ai_len a =? 0)%Z = false) by (apply Z.eqb_neq; lia).
      destruct mv as [| |k| |]; cbn [cstep]; unfold ai_step; rewrite ?Enz; cbn [ai_set ai_pos].
      - unfold cfirst. destruct il eqn:E; [exfalso; pose proof (il_length fs sl) as L; rewrite E in L; cbn in L; lia|].
        split; [lia|reflexivity].
      - unfold clast. rewrite il_length. destruct n as [|n'] eqn:En; [lia|]. split; [lia|]. rewrite Elen. lia.
      - rewrite Hf, seek_il. destruct (search_max_spec fs k Hl) as (K1 & _).
        destruct (Nat.ltb (tf_search_max c fs k) n) eqn:E.
        + apply Nat.ltb_lt in E. split; [exact E|reflexivity].
        + apply Nat.ltb_ge in E. f_equal. lia.
      - rewrite Elen. destruct q as [|i|].
        + rewrite H. replace (Z.of_nat n <=? -1 + 1)%Z with false by (symmetry; apply Z.leb_gt; lia).
          cbn [ai_set ai_pos]. unfold cfirst. destruct il eqn:E; [exfalso; pose proof (il_length fs sl) as L; rewrite E in L; cbn in L; lia|].
          split; [lia|reflexivity].
        + destruct H as [Hi ->]. rewrite il_length.
          destruct (Nat.ltb (S i) n) eqn:E.
          * apply Nat.ltb_lt in E. replace (Z.of_nat n <=? Z.of_nat i + 1)%Z with false by (symmetry; apply Z.leb_gt; lia).
            cbn [ai_set ai_pos]. split; [exact E|lia].
          * apply Nat.ltb_ge in E. replace (Z.of_nat n <=? Z.of_nat i + 1)%Z with true by (symmetry; apply Z.leb_le; lia).
            cbn [ai_set ai_pos]. reflexivity.
        + rewrite H. replace (Z.of_nat n <=? Z.of_nat n + 1)%Z with true by (symmetry; apply Z.leb_le; lia). reflexivity.
      - destruct q as [|i|].
        + rewrite H. cbn. reflexivity.
        + destruct H as [Hi ->]. destruct i as [|i].
          * cbn. reflexivity.
          * replace (Z.of_nat (S i) - 1 <? 0)%Z with false by (symmetry; apply Z.ltb_ge; lia).
            cbn [ai_set ai_pos]. split; [lia|lia].
        + rewrite H. unfold clast. rewrite il_length. destruct n as [|n'] eqn:En; [lia|].
          replace (Z.of_nat (S n') - 1 <? 0)%Z with false by (symmetry; apply Z.ltb_ge; lia).
          cbn [ai_set ai_pos]. split; [lia|lia].
    Qed.

    Lemma indexer_refines : refines (cmp ic) (ai_step c) ai_obs (mkAI fs sl (-1)%Z) il.
    Proof.
      apply (refines_by_sim (cmp ic) (ai_step c) ai_obs il AR AR_obs AR_step).
      split; [reflexivity|]. split; [reflexivity|]. destruct fs; [left; reflexivity|right]. split; [cbn; lia|reflexivity].
    Qed.

    (* ---- (2) index_ok ---- *)
    Definition dl (d : tfile * option krange) : list (bytes * bytes) := sl_pairs ic (snd d) (prs (fst d)).

    Lemma il_in e : In e il -> exists i, i < n /\ e = il_entry fs sl i.
    Proof.
      unfold il_of. intros H. apply in_map_iff in H as (i & <- & Hi). apply in_seq in Hi. exists i. split; [lia|reflexivity].
    Qed.

    Lemma il_sorted : sorted_kv (cmp ic) il.
    Proof.
      unfold il_of. assert (G : forall m s, s + m <= n -> sorted_kv (cmp ic) (map (il_entry fs sl) (seq s m))).
      { induction m as [|m IH]; intros s Hs; [constructor|]. cbn [seq map]. constructor; [apply IH; lia|].
        apply Forall_forall. intros e He. apply in_map_iff in He as (j & <- & Hj). apply in_seq in Hj.
        unfold kv_lt. cbn [il_entry fst].
        apply imax_lt; [apply level_ok_nth; [exact Hl|lia]|apply level_ok_nth; [exact Hl|lia]|apply level_lt_nth; [exact Hl|lia|lia]]. }
      apply G. lia.
    Qed.

    Lemma il_split_index A e B : il = A ++ e :: B ->
      e = il_entry fs sl (length A) /\ length A < n /\
      forall e', In e' B -> exists j, length A < j /\ j < n /\ e' = il_entry fs sl j.
    Proof.
      intros E. assert (Hlen : length A < n).
      { pose proof (il_length fs sl) as L. rewrite E, app_length in L. cbn [length] in L. lia. }
      assert (He : nth_error il (length A) = Some e) by (rewrite E; apply nth_error_mid).
      rewrite (il_nth fs sl _ Hlen) in He. injection He as He. split; [auto|]. split; [exact Hlen|].
      intros e' He'. destruct (In_nth_error _ _ He') as (j & Hj).
      assert (Hj' : nth_error il (length A + S j) = Some e').
      { rewrite E. rewrite nth_error_app2 by lia. replace (length A + S j - length A) with (S j) by lia. exact Hj. }
      assert (Hjn : length A + S j < n).
      { rewrite <- (il_length fs sl). apply nth_error_Some. rewrite Hj'. discriminate. }
      rewrite (il_nth fs sl _ Hjn) in Hj'. injection Hj' as Hj'. exists (length A + S j). split; [lia|]. split; [exact Hjn|auto].
    Qed.

    Lemma il_index_ok : index_ok (cmp ic) il dl.
    Proof.
      split; [exact il_sorted|]. split; [|split].
      - intros e He. apply il_in in He as (i & Hi & ->). unfold dl. cbn [il_entry snd fst].
        apply (sl_pairs_sorted ic). apply (fo_sorted _ (level_ok_nth fs i Hl Hi)).
      - intros e x He Hx. apply il_in in He as (i & Hi & ->). unfold dl in Hx. cbn [il_entry snd fst] in *.
        apply sl_pairs_incl in Hx. apply (imax_ge _ x (level_ok_nth fs i Hl Hi) Hx).
      - intros A e B x E e' He' Hx. destruct (il_split_index A e B E) as (-> & Hi & HB).
        destruct (HB e' He') as (j & Hij & Hj & ->). unfold dl in Hx. cbn [il_entry snd fst] in *.
        apply sl_pairs_incl in Hx.
        destruct (imax_in _ (level_ok_nth fs (length A) Hl Hi)) as (y & Hy & <-).
        apply (level_lt_nth fs (length A) j Hl Hij Hj y x Hy Hx).
    Qed.

    Lemma il_mk_refines d : In d (map snd il) ->
      refines (cmp ic) (tc_step c) tc_obs (lv_mk c tp crc decompress fname ufc verify strict d) (dl d).
    Proof.
      intros H. apply in_map_iff in H as (e & <- & He). apply il_in in He as (i & Hi & ->).
      unfold lv_mk, dl. cbn [il_entry snd fst]. apply (fo_iter _ (level_ok_nth fs i Hl Hi)).
    Qed.
  End Indexer.

  (* ---- (3) the cut ---- *)
  Definition lv_pairs (ts : list tfile) : list (bytes * bytes) := concat (map prs ts).

  Definition below (a : option bytes) (f : tfile) : Prop :=
    match a with Some k => cmp ic (tf_imax f) k = Lt | None => False end.
  Definition above (b : option bytes) (f : tfile) : Prop :=
    match b with Some k => cmp ic (tf_imin f) k <> Lt | None => False end.

  Lemma restrict_below a b f : file_ok f -> below a f -> Base.Cursor.restrict ic a b (prs f) = [].
  Proof.
    intros Hf Hb. unfold Base.Cursor.restrict. apply filter_nil_intro. intros x Hx.
    destruct a as [k|]; [|destruct Hb]. cbn [below] in Hb.
    unfold Base.Cursor.in_range. apply Bool.andb_false_iff. left. unfold Order.leb.
    (* x <= imax < k, so k > x *)
    pose proof (imax_ge f x Hf Hx) as H1. pose proof (f_le_lt_trans _ fok _ _ _ H1 Hb) as H2.
    apply (f_lt_gt _ fok) in H2. rewrite H2. reflexivity.
  Qed.

  Lemma restrict_above a b f : file_ok f -> above b f -> Base.Cursor.restrict ic a b (prs f) = [].
  Proof.
    intros Hf Hb. unfold Base.Cursor.restrict. apply filter_nil_intro. intros x Hx.
    destruct b as [k|]; [|destruct Hb]. cbn [above] in Hb.
    unfold Base.Cursor.in_range. apply Bool.andb_false_iff. right. unfold Order.ltb.
    (* k <= imin <= x *)
    pose proof (imin_le f x Hf Hx) as H1.
    destruct (cmp ic (fst x) k) eqn:E; try reflexivity. exfalso.
    (* imin <= x < k *)
    pose proof (f_le_lt_trans _ fok _ _ _ H1 E) as H2. contradiction.
  Qed.

  Lemma restrict_files_nil a b fs : Forall file_ok fs -> (forall f, In f fs -> below a f \/ above b f) ->
    Base.Cursor.restrict ic a b (lv_pairs fs) = [].
  Proof.
    intros Hf H. unfold lv_pairs, Base.Cursor.restrict. rewrite filter_concat_map.
    induction fs as [|f fs IH]; [reflexivity|]. cbn [map concat].
    inversion Hf as [|? ? Hf1 Hf2]; subst.
    rewrite IH; [|exact Hf2|intros g Hg; apply H; right; exact Hg]. rewrite app_nil_r.
    destruct (H f (or_introl eq_refl)) as [Hb|Ha]; [apply (restrict_below a b f Hf1 Hb)|apply (restrict_above a b f Hf1 Ha)].
  Qed.

  (* the cut as a decomposition of the level *)
  Lemma cut_split ts a b : level_ok ts ->
    exists A B, ts = A ++ cut_files c ts (Some (a, b)) ++ B /\
      (forall f, In f A -> below a f) /\ (forall f, In f B -> above b f) /\
      (forall f r, cut_files c ts (Some (a, b)) = f :: r ->
         match a with Some k => cmp ic (tf_imax f) k <> Lt | None => True end) /\
      (forall f r, cut_files c ts (Some (a, b)) = r ++ [f] ->
         match b with Some k => cmp ic (tf_imin f) k = Lt | None => True end).
  Proof.
    intros Hl. cbn [cut_files].
    set (start := match a with Some k => tf_search_max c ts k | None => 0 end).
    set (limit0 := match b with Some k => tf_search_min c ts k | None => length ts end).
    set (limit := if Nat.ltb limit0 start then start else limit0).
    assert (Hstart : start <= length ts).
    { subst start. destruct a as [k|]; [apply (search_max_spec ts k Hl)|lia]. }
    assert (Hlimit0 : limit0 <= length ts).
    { subst limit0. destruct b as [k|]; [apply (search_min_spec ts k Hl)|lia]. }
    assert (Hsl : start <= limit /\ limit <= length ts /\ (start < limit -> limit = limit0)).
    { subst limit. destruct (Nat.ltb limit0 start) eqn:E; [apply Nat.ltb_lt in E|apply Nat.ltb_ge in E]; lia. }
    destruct Hsl as (H1 & H2 & H3).
    exists (firstn start ts), (skipn limit ts). split; [|split; [|split; [|split]]].
    - rewrite <- (firstn_skipn start ts) at 1. f_equal.
      rewrite <- (firstn_skipn (limit - start) (skipn start ts)) at 1. f_equal.
      rewrite skipn_skipn'. f_equal. lia.
    - intros f Hf. apply (in_firstn_nth no_tfile) in Hf as (i & Hi & _ & <-).
      subst start. destruct a as [k|]; [|lia]. cbn [below]. apply (search_max_spec ts k Hl). exact Hi.
    - intros f Hf. apply (in_skipn_nth no_tfile) in Hf as (i & Hi & Hi2 & <-).
      destruct b as [k|]; cbn [above].
      + apply (search_min_spec ts k Hl); [|exact Hi2]. subst limit limit0.
        destruct (Nat.ltb (tf_search_min c ts k) start) eqn:E; [apply Nat.ltb_lt in E|]; lia.
      + subst limit limit0. destruct (Nat.ltb (length ts) start) eqn:E; [apply Nat.ltb_lt in E|]; lia.
    - intros f r E. destruct a as [k|]; [|exact Logic.I].
      assert (Hlt : start < limit).
      { destruct (Nat.eq_dec start limit) as [En|]; [|lia]. rewrite En, Nat.sub_diag in E. discriminate. }
      assert (Ef : f = nth start ts no_tfile).
      { rewrite <- (firstn_skipn start ts) at 1. rewrite app_nth2 by (rewrite firstn_length; lia).
        rewrite firstn_length, Nat.min_l by lia. rewrite Nat.sub_diag.
        destruct (skipn start ts) as [|g rest] eqn:Es; [rewrite firstn_nil in E; discriminate|].
        destruct (limit - start) as [|m] eqn:Em; [lia|]. cbn [firstn] in E. injection E as -> _. reflexivity. }
      rewrite Ef. apply (search_max_spec ts k Hl); [reflexivity|lia].
    - intros f r E. destruct b as [k|]; [|exact Logic.I].
      assert (Hlt : start < limit).
      { destruct (Nat.eq_dec start limit) as [En|]; [|lia]. rewrite En, Nat.sub_diag in E. cbn in E. destruct r; discriminate. }
      specialize (H3 Hlt).
      assert (Ef : f = nth (limit - 1) ts no_tfile).
      { assert (Hlen : length (firstn (limit - start) (skipn start ts)) = limit - start).
        { rewrite firstn_length, skipn_length. lia. }
        assert (Hr : length r = limit - start - 1) by (rewrite E, app_length in Hlen; cbn in Hlen; lia).
        assert (Hn : nth (limit - start - 1) (firstn (limit - start) (skipn start ts)) no_tfile = f).
        { rewrite E, app_nth2 by lia. rewrite Hr, Nat.sub_diag. reflexivity. }
        rewrite <- Hn.
        rewrite <- (firstn_skipn start ts) at 2. rewrite app_nth2 by (rewrite firstn_length; lia).
        rewrite firstn_length, Nat.min_l by lia.
        rewrite <- (firstn_skipn (limit - start) (skipn start ts)) at 2.
        rewrite app_nth1 by (rewrite Hlen; lia). f_equal. lia. }
      rewrite Ef. apply (search_min_spec ts k Hl). subst limit0. lia.
  Qed.

  (* strictly inside a cut: wholly inside the slice *)
  Lemma restrict_inside a b f0 f f1 : file_ok f0 -> file_ok f -> file_ok f1 -> file_lt f0 f -> file_lt f f1 ->
    match a with Some k => cmp ic (tf_imax f0) k <> Lt | None => True end ->
    match b with Some k => cmp ic (tf_imin f1) k = Lt | None => True end ->
    Base.Cursor.restrict ic a b (prs f) = prs f.
  Proof.
    intros H0 Hf H1 L0 L1 Ha Hb. unfold Base.Cursor.restrict. apply filter_all_intro. intros x Hx.
    unfold Base.Cursor.in_range. apply Bool.andb_true_iff. split.
    - destruct a as [k|]; [|reflexivity]. unfold Order.leb.
      destruct (imax_in f0 H0) as (y & Hy & Ey). pose proof (L0 y x Hy Hx) as Hlt. rewrite Ey in Hlt.
      (* k <= imax0 < x *)
      destruct (cmp ic k (fst x)) eqn:E; try reflexivity. exfalso.
      apply (f_gt_lt _ fok) in E. pose proof (cmp_trans ic icok _ _ _ Hlt E) as T.
      apply Ha. exact T.
    - destruct b as [k|]; [|reflexivity]. unfold Order.ltb.
      destruct (imin_in f1 H1) as (y & Hy & Ey). pose proof (L1 x y Hx Hy) as Hlt. rewrite Ey in Hlt.
      rewrite (cmp_trans ic icok _ _ _ Hlt Hb). reflexivity.
  Qed.

  Lemma concat_blocks_il fs sl : concat_blocks (il_of fs sl) dl =
    concat (map (fun i => sl_pairs ic (if Nat.eqb i 0 || Nat.eqb i (length fs - 1) then sl else None) (prs (nth i fs no_tfile)))
                (seq 0 (length fs))).
  Proof. unfold concat_blocks, il_of. rewrite map_map. reflexivity. Qed.

  Lemma lv_pairs_seq fs : lv_pairs fs = concat (map (fun i => prs (nth i fs no_tfile)) (seq 0 (length fs))).
  Proof.
    unfold lv_pairs. f_equal. apply (map_nth_seq prs no_tfile fs).
  Qed.

  Lemma cut_blocks fs a b : level_ok fs ->
    (forall f r, fs = f :: r -> match a with Some k => cmp ic (tf_imax f) k <> Lt | None => True end) ->
    (forall f r, fs = r ++ [f] -> match b with Some k => cmp ic (tf_imin f) k = Lt | None => True end) ->
    concat_blocks (il_of fs (Some (a, b))) dl = Base.Cursor.restrict ic a b (lv_pairs fs).
  Proof.
    intros Hl Hhd Hlast. rewrite concat_blocks_il, lv_pairs_seq.
    unfold Base.Cursor.restrict at 1. rewrite filter_concat_map. f_equal.
    apply map_ext_in. intros i Hi. apply in_seq in Hi.
    destruct (Nat.eqb i 0 || Nat.eqb i (length fs - 1)) eqn:E; [reflexivity|]. cbn [sl_pairs].
    apply Bool.orb_false_iff in E as [E0 E1]. apply Nat.eqb_neq in E0, E1.
    symmetry.
    assert (Hn : 2 <= length fs) by lia.
    apply (restrict_inside a b (nth 0 fs no_tfile) (nth i fs no_tfile) (nth (length fs - 1) fs no_tfile)).
    - apply level_ok_nth; [exact Hl|lia].
    - apply level_ok_nth; [exact Hl|lia].
    - apply level_ok_nth; [exact Hl|lia].
    - apply level_lt_nth; [exact Hl|lia|lia].
    - apply level_lt_nth; [exact Hl|lia|lia].
    - destruct fs as [|f r]; [cbn in Hn; lia|]. cbn [nth]. apply (Hhd f r eq_refl).
    - destruct (snoc_cases fs) as [->|(r & f & E)]; [cbn in Hn; lia|].
      assert (Ef : nth (length fs - 1) fs no_tfile = f).
      { rewrite E, app_length. cbn [length]. rewrite app_nth2 by lia. replace (length r + 1 - 1 - length r) with 0 by lia. reflexivity. }
      rewrite Ef. apply (Hlast f r E).
  Qed.

  (* ---- (4) the level as a child of the merged iterator ---- *)
  Theorem level_refines ts sl fuel : level_ok ts -> length ts < fuel ->
    refines (cmp ic) (lv_step c tp crc decompress fname ufc verify strict fuel) (lv_obs) (x_init (new_index_iterator c ts sl)) (sl_pairs ic sl (lv_pairs ts)).
  Proof.
    intros Hl Hfuel. unfold new_index_iterator.
    assert (Hcut : level_ok (cut_files c ts sl) /\ length (cut_files c ts sl) <= length ts /\
                   concat_blocks (il_of (cut_files c ts sl) sl) dl = sl_pairs ic sl (lv_pairs ts)).
    { destruct sl as [[a b]|].
      - destruct (cut_split ts a b Hl) as (A & B & E & HA & HB & Hhd & Hlast).
        set (M := cut_files c ts (Some (a, b))) in *.
        assert (HlM : level_ok M).
        { rewrite E in Hl. apply level_ok_app in Hl as [_ Hl]. apply level_ok_app in Hl as [Hl _]. exact Hl. }
        split; [exact HlM|]. split.
        { pose proof (f_equal (@length _) E) as EL. rewrite !app_length in EL. change (length M <= length ts). lia. }
        cbn [sl_pairs]. change (concat_blocks (il_of M (Some (a, b))) dl = Base.Cursor.restrict ic a b (lv_pairs ts)).
        rewrite (cut_blocks M a b HlM Hhd Hlast).
        assert (Ep : lv_pairs ts = lv_pairs (A ++ M ++ B)) by (rewrite <- E; reflexivity).
        rewrite Ep. unfold lv_pairs. rewrite !map_app, !concat_app. unfold Base.Cursor.restrict. rewrite !filter_app.
        pose proof Hl as Hl0. rewrite E in Hl0. apply level_ok_app in Hl0 as [[HfA _] Hl0]. apply level_ok_app in Hl0 as [_ [HfB _]].
        pose proof (restrict_files_nil a b A HfA (fun f Hf => or_introl (HA f Hf))) as EA.
        pose proof (restrict_files_nil a b B HfB (fun f Hf => or_intror (HB f Hf))) as EB.
        unfold lv_pairs, Base.Cursor.restrict in EA, EB. rewrite EA, EB, app_nil_r. reflexivity.
      - cbn [cut_files sl_pairs]. split; [exact Hl|]. split; [lia|].
        rewrite concat_blocks_il, lv_pairs_seq. f_equal. apply map_ext. intros i.
        destruct (Nat.eqb i 0 || Nat.eqb i (length ts - 1)); reflexivity. }
    destruct Hcut as (HlM & Hlen & Ecat). rewrite <- Ecat.
    apply (indexed_is_cursor bytes bytes (tfile * option krange) aidx tchild (cmp ic)
             (ai_step c) ai_obs (lv_mk c tp crc decompress fname ufc verify strict) (tc_step c) tc_obs
             (il_of (cut_files c ts sl) sl) dl (mkAI (cut_files c ts sl) sl (-1)%Z) fuel fok).
    - apply il_index_ok. exact HlM.
    - apply indexer_refines. exact HlM.
    - apply il_mk_refines. exact HlM.
    - rewrite il_length. lia.
  Qed.

  Lemma lv_pairs_sorted ts : level_ok ts -> sorted_kv (cmp ic) (lv_pairs ts).
  Proof.
    intros [Hf Hs]. unfold lv_pairs. induction ts as [|f ts IH]; [constructor|]. cbn [map concat].
    inversion Hf as [|? ? Hf1 Hf2]; subst. apply StronglySorted_inv in Hs as [Hs Hall].
    apply (sorted_app (cmp ic)); [apply (fo_sorted f Hf1)|apply IH; assumption|].
    intros x y Hx Hy. apply in_concat in Hy as (l & Hl & Hy). apply in_map_iff in Hl as (g & <- & Hg).
    rewrite Forall_forall in Hall. apply (Hall g Hg x y Hx Hy).
  Qed.
End Level.
