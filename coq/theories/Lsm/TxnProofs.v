(* Lsm/TxnProofs.v — the transaction machine refines the history machine: outside readers see exactly the
   committed writes, a transaction sees its own writes layered over them, commit is one write of all of
   them, discard is nothing; and the layout-level read path of a transaction. *)
From GL Require Import Base.Order Base.OrderProofs Codec.IKey Codec.IKeyProofs Lsm.Lsm Lsm.Compact
  Lsm.LsmProofs Lsm.CompactProofs Lsm.History Lsm.HistoryProofs Lsm.WfProofs Lsm.Txn.
From Coq Require Import ZArith Lia ZifyN ZifyNat ZifyBool.

Section Proofs.
  Variable c : comparer.
  Hypothesis ok : comparer_ok c.
  Variable p : kparams.
  Hypothesis pok : kparams_ok p.

  Notation newest := (newest c).
  Notation vis := (vis c).
  Notation res := (History.res p).

  (* ---- small facts about the history machine ---- *)
  Lemma stamp_app seq a b : stamp seq (a ++ b) = stamp seq a ++ stamp (seq + N.of_nat (length a)) b.
  Proof.
    revert seq; induction a as [|[[kd k] v] a IH]; intros seq; cbn [app stamp length].
    - replace (seq + N.of_nat 0) with seq by lia. reflexivity.
    - rewrite IH. cbn [app]. do 3 f_equal. lia.
  Qed.

  Lemma hrun_snoc done o : hrun (done ++ [o]) = hstep (hrun done) o.
  Proof. unfold hrun. rewrite fold_left_app. reflexivity. Qed.

  Definition is_write (o : hop) : bool := match o with HWrite _ => true | _ => false end.

  Lemma hstep_nonwrite h o : is_write o = false ->
    h_seq (hstep h o) = h_seq h /\ h_hist (hstep h o) = h_hist h.
  Proof. destruct o; cbn; intros H; try discriminate; split; reflexivity. Qed.

  Lemma hops_ok_app h a b : hops_ok c p h (a ++ b) <-> hops_ok c p h a /\ hops_ok c p (fold_left hstep a h) b.
  Proof.
    revert h; induction a as [|o a IH]; intros h; cbn [app hops_ok fold_left]; [tauto|].
    rewrite IH. tauto.
  Qed.

  Lemma map_of_snoc done o : map_of c p (done ++ [o]) = map_step c p (map_of c p done) o.
  Proof. unfold map_of. rewrite fold_left_app. reflexivity. Qed.

  (* ---- the simulation ---- *)
  Definition mk_txn (base : N) (w : list wrec) : txn :=
    {| t_seq := base + N.of_nat (length w); t_writes := stamp base w |}.

  Definition kinds_recs (w : list wrec) : Prop := Forall (fun r => fst (fst r) <= keyTypeSeek p) w.

  Record sim (s : tstate) (l : lin_state) : Prop := {
    sim_h : ts_h s = hrun (l_done l);
    sim_t : ts_txn s = option_map (mk_txn (h_seq (ts_h s))) (l_cur l)
  }.

  Lemma sim_init : sim t_init lin_init.
  Proof. constructor; reflexivity. Qed.

  Lemma commit_is_write h w : commit_h h (mk_txn (h_seq h) w) = hstep h (HWrite w).
  Proof. reflexivity. Qed.

  Lemma txn_write_mk b w recs : txn_write (mk_txn b w) recs = mk_txn b (w ++ recs).
  Proof.
    unfold txn_write, mk_txn. cbn [t_seq t_writes]. rewrite stamp_app, app_length. f_equal. lia.
  Qed.

  Lemma open_txn_mk h : open_txn h = mk_txn (h_seq h) [].
  Proof. unfold open_txn, mk_txn. cbn [length stamp]. f_equal. lia. Qed.

  Lemma sim_step s l o : sim s l -> sim (tstep s o) (lin_step l o).
  Proof.
    intros [Hh Ht]. destruct s as [h tx]. cbn [ts_h ts_txn] in *. destruct l as [done cur]. cbn [l_done l_cur] in *.
    destruct cur as [w|]; cbn [option_map] in Ht; subst tx.
    - (* a transaction is open *)
      destruct o as [o'| |recs|okc| | |recs okb]; cbn [tstep lin_step ts_txn ts_h l_cur l_done with_h].
      + destruct o' as [r| |i|s']; cbn [tstep lin_step ts_txn ts_h l_cur l_done with_h];
          try (constructor; cbn [ts_h ts_txn l_done l_cur option_map]; [rewrite hrun_snoc, Hh; reflexivity|reflexivity]).
        constructor; cbn [ts_h ts_txn l_done l_cur option_map]; [exact Hh|reflexivity].
      + constructor; cbn [ts_h ts_txn l_done l_cur option_map]; [exact Hh|reflexivity].
      + constructor; cbn [ts_h ts_txn l_done l_cur option_map]; [exact Hh|]. rewrite txn_write_mk. reflexivity.
      + destruct okc; cbn [tstep lin_step ts_txn ts_h l_cur l_done].
        * constructor; cbn [ts_h ts_txn l_done l_cur option_map]; [|reflexivity].
          rewrite hrun_snoc, <- Hh. apply commit_is_write.
        * constructor; cbn [ts_h ts_txn l_done l_cur option_map]; [exact Hh|reflexivity].
      + constructor; cbn [ts_h ts_txn l_done l_cur option_map]; [exact Hh|reflexivity].
      + constructor; cbn [ts_h ts_txn l_done l_cur option_map]; [exact Hh|reflexivity].
      + constructor; cbn [ts_h ts_txn l_done l_cur option_map]; [exact Hh|reflexivity].
    - (* none is open *)
      destruct o as [o'| |recs|okc| | |recs okb]; cbn [tstep lin_step ts_txn ts_h l_cur l_done with_h].
      + destruct o' as [r| |i|s']; cbn [tstep lin_step ts_txn ts_h l_cur l_done with_h];
          constructor; cbn [ts_h ts_txn l_done l_cur option_map]; try reflexivity; rewrite hrun_snoc, Hh; reflexivity.
      + constructor; cbn [ts_h ts_txn l_done l_cur option_map]; [exact Hh|]. rewrite open_txn_mk. reflexivity.
      + constructor; cbn [ts_h ts_txn l_done l_cur option_map]; [exact Hh|reflexivity].
      + destruct okc; constructor; cbn [ts_h ts_txn l_done l_cur option_map]; try exact Hh; reflexivity.
      + constructor; cbn [ts_h ts_txn l_done l_cur option_map]; [exact Hh|reflexivity].
      + constructor; cbn [ts_h ts_txn l_done l_cur option_map]; [exact Hh|reflexivity].
      + destruct okb; cbn [tstep lin_step ts_txn ts_h l_cur l_done].
        * constructor; cbn [ts_h ts_txn l_done l_cur option_map]; [|reflexivity].
          rewrite hrun_snoc, <- Hh. rewrite open_txn_mk, txn_write_mk. cbn [app]. apply commit_is_write.
        * constructor; cbn [ts_h ts_txn l_done l_cur option_map]; [exact Hh|reflexivity].
  Qed.

  Lemma sim_run_from ops : forall s l, sim s l -> sim (trun_from s ops) (lin_from l ops).
  Proof.
    induction ops as [|o ops IH]; intros s l H; cbn [trun_from lin_from fold_left]; [exact H|].
    apply IH. apply sim_step. exact H.
  Qed.

  (* The transaction machine refines the history machine: after any trace the shared state is exactly the
     state of the history machine run on the linearised trace, and the open transaction (if any) holds
     exactly the records written through it, stamped with the sequence numbers above the shared one. *)
  Theorem txn_refines_history ops : sim (trun ops) (lin ops).
  Proof. apply sim_run_from. apply sim_init. Qed.

  (* ---- admissibility carries over to the linearised trace ---- *)
  Record inv (s : tstate) (l : lin_state) : Prop := {
    inv_sim : sim s l;
    inv_ok : hops_ok c p h_init (l_done l);
    inv_cur : match l_cur l with Some w => kinds_recs w | None => True end
  }.

  Lemma hops_ok_snoc done o : hops_ok c p h_init done -> hop_ok c p (hrun done) o ->
    hops_ok c p h_init (done ++ [o]).
  Proof. intros H1 H2. apply hops_ok_app. split; [exact H1|]. cbn [hops_ok]. split; [exact H2|exact I]. Qed.

  Lemma inv_init : inv t_init lin_init.
  Proof. constructor; [apply sim_init|exact I|exact I]. Qed.

  Lemma inv_step s l o : inv s l -> top_ok c p s o -> inv (tstep s o) (lin_step l o).
  Proof.
    intros [Hs Hok Hc] Ho. constructor; [apply sim_step; exact Hs| |].
    - destruct Hs as [Hh _]. destruct l as [done cur]. cbn [l_done l_cur] in *.
      destruct cur as [w|]; destruct o as [o'| |recs|okc| | |recs okb]; cbn [lin_step l_done l_cur]; try exact Hok.
      + destruct o'; cbn [lin_step l_done l_cur]; try exact Hok;
          apply hops_ok_snoc; try exact Hok; rewrite <- Hh; exact Ho.
      + destruct okc; cbn [lin_step l_done l_cur]; [|exact Hok].
        apply hops_ok_snoc; [exact Hok|]. exact Hc.
      + destruct o'; cbn [lin_step l_done l_cur];
          apply hops_ok_snoc; try exact Hok; rewrite <- Hh; exact Ho.
      + destruct okc; exact Hok.
      + destruct okb; cbn [l_done]; [|exact Hok]. apply hops_ok_snoc; [exact Hok|]. exact Ho.
    - destruct l as [done cur]. cbn [l_done l_cur] in *.
      destruct cur as [w|]; destruct o as [o'| |recs|okc| | |recs okb]; cbn [lin_step l_done l_cur]; try exact I; try exact Hc.
      + destruct o'; exact Hc.
      + apply Forall_app. split; [exact Hc|exact Ho].
      + destruct okc; [exact I|exact Hc].
      + destruct o'; exact I.
      + constructor.
      + destruct okc; exact I.
      + destruct okb; exact I.
  Qed.

  Lemma inv_run_from ops : forall s l, inv s l -> tops_ok c p s ops -> inv (trun_from s ops) (lin_from l ops).
  Proof.
    induction ops as [|o ops IH]; intros s l H Hok; cbn [trun_from lin_from fold_left]; [exact H|].
    destruct Hok as [Ho Hrest]. apply IH; [apply inv_step; assumption|exact Hrest].
  Qed.

  Lemma inv_run ops : tops_ok c p t_init ops -> inv (trun ops) (lin ops).
  Proof. apply inv_run_from. apply inv_init. Qed.

  Theorem lin_ok ops : tops_ok c p t_init ops -> hops_ok c p h_init (l_done (lin ops)).
  Proof. intros H. apply (inv_ok _ _ (inv_run ops H)). Qed.

  Lemma trun_hinv ops : tops_ok c p t_init ops -> hinv c p (ts_h (trun ops)).
  Proof.
    intros H. rewrite (sim_h _ _ (txn_refines_history ops)). unfold hrun.
    apply hinv_run_from; [apply hinv_init|apply lin_ok; exact H].
  Qed.

  (* ---- everyone outside sees exactly the committed writes ---- *)
  Theorem outside_is_map ops k : tops_ok c p t_init ops ->
    out_get c p (trun ops) k (h_seq (ts_h (trun ops))) = a_get c k (base_map c p ops).
  Proof.
    intros H. unfold out_get, base_map. rewrite (sim_h _ _ (txn_refines_history ops)).
    apply get_is_map; [exact ok|apply lin_ok; exact H].
  Qed.

  (* ---- the transaction sees its writes so far layered over the committed writes ---- *)
  Theorem txn_reads_overlay_gen ops k : tops_ok c p t_init ops -> ts_txn (trun ops) <> None ->
    txn_get c p (trun ops) k = a_get c k (overlay_map c p ops).
  Proof.
    intros H Hopen. pose proof (outside_is_map ops k H) as Hout.
    pose proof (trun_hinv ops H) as Hinv.
    destruct (txn_refines_history ops) as [Hh Ht].
    unfold txn_get, overlay_map. rewrite Ht in Hopen |- *.
    destruct (l_cur (lin ops)) as [w|]; cbn [option_map] in *; [|congruence].
    unfold mk_txn. cbn [t_seq t_writes].
    apply (hist_recs c ok p k w (h_seq (ts_h (trun ops))) (h_store (ts_h (trun ops))) (base_map c p ops)).
    - apply (hi_store_le c p _ Hinv).
    - exact Hout.
  Qed.

  (* ---- traces grow the linearised trace by appending ---- *)
  Lemma lin_step_extends l o : exists d, l_done (lin_step l o) = l_done l ++ d.
  Proof.
    destruct l as [done cur]. destruct cur as [w|]; destruct o as [o'| |recs|okc| | |recs okb]; cbn [lin_step l_done l_cur];
      try (exists []; rewrite app_nil_r; reflexivity).
    - destruct o'; cbn [l_done]; try (exists []; rewrite app_nil_r; reflexivity); eexists; reflexivity.
    - destruct okc; cbn [l_done]; [eexists; reflexivity|exists []; rewrite app_nil_r; reflexivity].
    - destruct o'; cbn [l_done]; eexists; reflexivity.
    - destruct okc; exists []; rewrite app_nil_r; reflexivity.
    - destruct okb; cbn [l_done]; [eexists; reflexivity|exists []; rewrite app_nil_r; reflexivity].
  Qed.

  Lemma lin_from_extends ops : forall l, exists d, l_done (lin_from l ops) = l_done l ++ d.
  Proof.
    induction ops as [|o ops IH]; intros l; cbn [lin_from fold_left].
    - exists []. rewrite app_nil_r. reflexivity.
    - destruct (lin_step_extends l o) as [d1 E1]. destruct (IH (lin_step l o)) as [d2 E2].
      exists (d1 ++ d2). unfold lin_from in E2. rewrite E2, E1, app_assoc. reflexivity.
  Qed.

  Lemma lin_app a b : lin (a ++ b) = lin_from (lin a) b.
  Proof. unfold lin, lin_from. apply fold_left_app. Qed.

  Lemma trun_app a b : trun (a ++ b) = trun_from (trun a) b.
  Proof. unfold trun, trun_from. apply fold_left_app. Qed.

  (* A snapshot taken at any instant (before, while or after a transaction is open) keeps showing the
     committed writes of that instant, whatever is committed or discarded later. *)
  Theorem snapshot_sees_base ops1 ops2 k : tops_ok c p t_init (ops1 ++ ops2) ->
    In (h_seq (ts_h (trun ops1))) (h_snaps (ts_h (trun (ops1 ++ ops2)))) ->
    out_get c p (trun (ops1 ++ ops2)) k (h_seq (ts_h (trun ops1))) = a_get c k (base_map c p ops1).
  Proof.
    intros H Hlive. pose proof (lin_ok _ H) as Hok.
    unfold out_get, base_map in *.
    rewrite (sim_h _ _ (txn_refines_history (ops1 ++ ops2))) in *.
    rewrite (sim_h _ _ (txn_refines_history ops1)) in *.
    rewrite lin_app in *. destruct (lin_from_extends ops2 (lin ops1)) as [d E]. rewrite E in *.
    apply (snapshot_stable c ok p (l_done (lin ops1)) d k); assumption.
  Qed.

  (* ---- while a transaction stays open ---- *)
  Lemma tops_ok_app s a b : tops_ok c p s (a ++ b) <-> tops_ok c p s a /\ tops_ok c p (trun_from s a) b.
  Proof.
    revert s; induction a as [|o a IH]; intros s; cbn [app tops_ok trun_from fold_left]; [tauto|].
    unfold trun_from in IH. rewrite IH. tauto.
  Qed.

  Lemma map_of_nonwrites done d : Forall (fun o => is_write o = false) d ->
    map_of c p (done ++ d) = map_of c p done.
  Proof.
    intros H. unfold map_of. rewrite fold_left_app. induction H as [|o d Ho _ IH] in done |- *; [reflexivity|].
    cbn [fold_left]. destruct o; try discriminate; apply IH.
  Qed.

  (* the shared state moves exactly as if the transaction did not exist; the sequence number and the history
     do not move at all *)
  Lemma body_keeps body : forall h t, forallb keeps_open body = true ->
    exists t',
      trun_from {| ts_h := h; ts_txn := Some t |} body =
        {| ts_h := ts_h (trun_from {| ts_h := h; ts_txn := None |} (body_outside body)); ts_txn := Some t' |}
      /\ ts_txn (trun_from {| ts_h := h; ts_txn := None |} (body_outside body)) = None
      /\ h_seq (ts_h (trun_from {| ts_h := h; ts_txn := None |} (body_outside body))) = h_seq h
      /\ h_hist (ts_h (trun_from {| ts_h := h; ts_txn := None |} (body_outside body))) = h_hist h.
  Proof.
    induction body as [|o body IH]; intros h t Hk.
    - exists t. cbn. repeat split; reflexivity.
    - cbn [forallb] in Hk. apply andb_prop in Hk as [Ho Hk].
      destruct o as [o'| |recs|okc| | |recs okb]; try discriminate Ho.
      + destruct o' as [r| |i|s'].
        * cbn [trun_from fold_left tstep ts_txn body_outside]. apply (IH h t Hk).
        * cbn [trun_from fold_left tstep ts_txn ts_h body_outside with_h].
          destruct (IH (hstep h HSnap) t Hk) as [t' (E1 & E2 & E3 & E4)]. exists t'. repeat split; assumption.
        * cbn [trun_from fold_left tstep ts_txn ts_h body_outside with_h].
          destruct (IH (hstep h (HRelease i)) t Hk) as [t' (E1 & E2 & E3 & E4)]. exists t'. repeat split; assumption.
        * cbn [trun_from fold_left tstep ts_txn ts_h body_outside with_h].
          destruct (IH (hstep h (HReorg s')) t Hk) as [t' (E1 & E2 & E3 & E4)]. exists t'. repeat split; assumption.
      + cbn [trun_from fold_left tstep ts_txn body_outside]. apply (IH h t Hk).
      + cbn [trun_from fold_left tstep ts_txn ts_h body_outside]. apply (IH h (txn_write t recs) Hk).
      + destruct okc; [discriminate Ho|]. cbn [trun_from fold_left tstep ts_txn body_outside]. apply (IH h t Hk).
      + cbn [trun_from fold_left tstep ts_txn body_outside]. apply (IH h t Hk).
  Qed.

  Lemma lin_body body : forall done w, forallb keeps_open body = true ->
    exists d, lin_from {| l_done := done; l_cur := Some w |} body =
                {| l_done := done ++ d; l_cur := Some (w ++ body_writes body) |}
              /\ Forall (fun o => is_write o = false) d.
  Proof.
    induction body as [|o body IH]; intros done w Hk.
    - exists []. cbn. rewrite !app_nil_r. split; [reflexivity|constructor].
    - cbn [forallb] in Hk. apply andb_prop in Hk as [Ho Hk].
      destruct o as [o'| |recs|okc| | |recs okb]; try discriminate Ho.
      + destruct o' as [r| |i|s'].
        * cbn [lin_from fold_left lin_step l_cur body_writes]. apply (IH done w Hk).
        * cbn [lin_from fold_left lin_step l_cur l_done body_writes].
          destruct (IH (done ++ [HSnap]) w Hk) as [d [E F]]. exists (HSnap :: d).
          unfold lin_from in E. rewrite E, <- app_assoc. split; [reflexivity|constructor; [reflexivity|exact F]].
        * cbn [lin_from fold_left lin_step l_cur l_done body_writes].
          destruct (IH (done ++ [HRelease i]) w Hk) as [d [E F]]. exists (HRelease i :: d).
          unfold lin_from in E. rewrite E, <- app_assoc. split; [reflexivity|constructor; [reflexivity|exact F]].
        * cbn [lin_from fold_left lin_step l_cur l_done body_writes].
          destruct (IH (done ++ [HReorg s']) w Hk) as [d [E F]]. exists (HReorg s' :: d).
          unfold lin_from in E. rewrite E, <- app_assoc. split; [reflexivity|constructor; [reflexivity|exact F]].
      + cbn [lin_from fold_left lin_step l_cur body_writes]. apply (IH done w Hk).
      + cbn [lin_from fold_left lin_step l_cur l_done body_writes].
        destruct (IH done (w ++ recs) Hk) as [d [E F]]. exists d. unfold lin_from in E. rewrite E, <- app_assoc.
        split; [reflexivity|exact F].
      + destruct okc; [discriminate Ho|]. cbn [lin_from fold_left lin_step l_cur body_writes]. apply (IH done w Hk).
      + cbn [lin_from fold_left lin_step l_cur body_writes]. apply (IH done w Hk).
  Qed.

  Lemma closed_cur ops : ts_txn (trun ops) = None -> l_cur (lin ops) = None.
  Proof.
    intros H. rewrite (sim_t _ _ (txn_refines_history ops)) in H.
    destruct (l_cur (lin ops)); [discriminate|reflexivity].
  Qed.

  Lemma closed_state ops : ts_txn (trun ops) = None -> trun ops = {| ts_h := ts_h (trun ops); ts_txn := None |}.
  Proof. intros H. destruct (trun ops) as [h t]. cbn in *. subst t. reflexivity. Qed.

  (* the linearised trace of [ops1 ++ TOpen :: body]: what ops1 gave, then only non-writes; the open
     transaction holds body_writes *)
  Lemma lin_open_body ops1 body : ts_txn (trun ops1) = None -> forallb keeps_open body = true ->
    exists d, lin (ops1 ++ TOpen :: body) =
                {| l_done := l_done (lin ops1) ++ d; l_cur := Some (body_writes body) |}
              /\ Forall (fun o => is_write o = false) d.
  Proof.
    intros Hc Hk. rewrite lin_app. pose proof (closed_cur ops1 Hc) as Hcur.
    destruct (lin ops1) as [done cur]. cbn [l_cur l_done] in *. subst cur.
    cbn [lin_from fold_left lin_step l_cur l_done].
    destruct (lin_body body done [] Hk) as [d [E F]]. exists d. unfold lin_from in E. rewrite E. split; [reflexivity|exact F].
  Qed.

  Lemma base_map_open_body ops1 body : ts_txn (trun ops1) = None -> forallb keeps_open body = true ->
    base_map c p (ops1 ++ TOpen :: body) = base_map c p ops1.
  Proof.
    intros Hc Hk. destruct (lin_open_body ops1 body Hc Hk) as [d [E F]].
    unfold base_map. rewrite E. cbn [l_done]. apply map_of_nonwrites. exact F.
  Qed.

  Lemma overlay_map_open_body ops1 body : ts_txn (trun ops1) = None -> forallb keeps_open body = true ->
    overlay_map c p (ops1 ++ TOpen :: body) = fold_left (a_apply c p) (body_writes body) (base_map c p ops1).
  Proof.
    intros Hc Hk. unfold overlay_map. rewrite (base_map_open_body ops1 body Hc Hk).
    destruct (lin_open_body ops1 body Hc Hk) as [d [E F]]. rewrite E. reflexivity.
  Qed.

  Lemma state_open_body ops1 body : ts_txn (trun ops1) = None -> forallb keeps_open body = true ->
    exists t', trun (ops1 ++ TOpen :: body) =
                 {| ts_h := ts_h (trun (ops1 ++ body_outside body)); ts_txn := Some t' |}
      /\ ts_txn (trun (ops1 ++ body_outside body)) = None
      /\ h_seq (ts_h (trun (ops1 ++ body_outside body))) = h_seq (ts_h (trun ops1))
      /\ h_hist (ts_h (trun (ops1 ++ body_outside body))) = h_hist (ts_h (trun ops1)).
  Proof.
    intros Hc Hk. rewrite !trun_app. rewrite (closed_state ops1 Hc).
    cbn [trun_from fold_left tstep ts_txn ts_h].
    apply (body_keeps body (ts_h (trun ops1)) (open_txn (ts_h (trun ops1))) Hk).
  Qed.

  (* C11, isolation: while the transaction is open (through any number of its own writes, failed commits,
     outside snapshots, releases, background reorganisations and held-back writers) the sequence number and
     the history of the DB do not move; a read at the current sequence number returns the plain map of the
     writes committed before it was opened; every protected read (current or any live snapshot, taken before
     or while it is open) is answered as the history at open answers it; the private entries all carry
     sequence numbers above the DB's. *)
  Theorem txn_invisible_outside ops1 body :
    ts_txn (trun ops1) = None -> forallb keeps_open body = true ->
    tops_ok c p t_init (ops1 ++ TOpen :: body) ->
    let s0 := trun ops1 in let s1 := trun (ops1 ++ TOpen :: body) in
    ts_txn s1 <> None /\
    h_seq (ts_h s1) = h_seq (ts_h s0) /\ h_hist (ts_h s1) = h_hist (ts_h s0) /\
    (forall k, out_get c p s1 k (h_seq (ts_h s1)) = a_get c k (base_map c p ops1)) /\
    (forall k q, protected (ts_h s1) q -> out_get c p s1 k q = hist_get c p (ts_h s0) k q) /\
    (forall t x, ts_txn s1 = Some t -> In x (t_writes t) -> h_seq (ts_h s1) < e_seq x <= t_seq t).
  Proof.
    intros Hc Hk Hok s0 s1.
    destruct (state_open_body ops1 body Hc Hk) as [t' (E & _ & Eseq & Ehist)].
    assert (Hs : h_seq (ts_h s1) = h_seq (ts_h s0)) by (unfold s1, s0; rewrite E; exact Eseq).
    assert (Hh : h_hist (ts_h s1) = h_hist (ts_h s0)) by (unfold s1, s0; rewrite E; exact Ehist).
    split; [unfold s1; rewrite E; discriminate|]. split; [exact Hs|]. split; [exact Hh|]. split; [|split].
    - intros k. unfold s1. rewrite (outside_is_map _ k Hok). rewrite (base_map_open_body ops1 body Hc Hk). reflexivity.
    - intros k q Hq. unfold out_get. unfold s1 in *.
      pose proof (lin_ok _ Hok) as Hlok.
      rewrite (sim_h _ _ (txn_refines_history (ops1 ++ TOpen :: body))) in Hq |- *.
      rewrite (history_correct c p _ Hlok k q Hq).
      rewrite <- (sim_h _ _ (txn_refines_history (ops1 ++ TOpen :: body))).
      unfold hist_get. rewrite Hh. reflexivity.
    - intros t x Ht Hx. unfold s1 in *.
      rewrite (sim_t _ _ (txn_refines_history (ops1 ++ TOpen :: body))) in Ht.
      destruct (l_cur (lin (ops1 ++ TOpen :: body))) as [w|]; cbn [option_map] in Ht; [|discriminate].
      injection Ht as <-. unfold mk_txn in *. cbn [t_writes t_seq] in *. apply stamp_seq in Hx. exact Hx.
  Qed.

  (* C11, the transaction's own view: its writes so far layered over the plain map at open. *)
  Theorem txn_reads_overlay ops1 body k :
    ts_txn (trun ops1) = None -> forallb keeps_open body = true ->
    tops_ok c p t_init (ops1 ++ TOpen :: body) ->
    txn_get c p (trun (ops1 ++ TOpen :: body)) k =
    a_get c k (fold_left (a_apply c p) (body_writes body) (base_map c p ops1)).
  Proof.
    intros Hc Hk Hok. rewrite <- (overlay_map_open_body ops1 body Hc Hk).
    apply txn_reads_overlay_gen; [exact Hok|].
    destruct (state_open_body ops1 body Hc Hk) as [t' (E & _)]. rewrite E. discriminate.
  Qed.

  (* C11, atomic commit: a successful Commit is ONE step of the history machine, the write of all the
     transaction's records; afterwards everyone reads the plain map of the base writes followed by all of
     them, which is what the transaction itself read just before. *)
  Theorem commit_atomic ops1 body :
    ts_txn (trun ops1) = None -> forallb keeps_open body = true ->
    tops_ok c p t_init (ops1 ++ TOpen :: body) ->
    let s1 := trun (ops1 ++ TOpen :: body) in
    let s2 := trun ((ops1 ++ TOpen :: body) ++ [TCommit true]) in
    s2 = {| ts_h := hstep (ts_h s1) (HWrite (body_writes body)); ts_txn := None |} /\
    (forall k, out_get c p s2 k (h_seq (ts_h s2)) =
               a_get c k (fold_left (a_apply c p) (body_writes body) (base_map c p ops1))) /\
    (forall k, out_get c p s2 k (h_seq (ts_h s2)) = txn_get c p s1 k).
  Proof.
    intros Hc Hk Hok s1 s2.
    destruct (lin_open_body ops1 body Hc Hk) as [d [El Fd]].
    assert (E2 : s2 = {| ts_h := hstep (ts_h s1) (HWrite (body_writes body)); ts_txn := None |}).
    { unfold s2. rewrite trun_app. fold s1. cbn [trun_from fold_left].
      pose proof (sim_t _ _ (txn_refines_history (ops1 ++ TOpen :: body))) as Ht. fold s1 in Ht.
      rewrite El in Ht. cbn [l_cur option_map] in Ht.
      destruct s1 as [h tx]. cbn [ts_txn ts_h] in *. subst tx. cbn [tstep ts_txn ts_h].
      rewrite commit_is_write. reflexivity. }
    assert (Hok2 : tops_ok c p t_init ((ops1 ++ TOpen :: body) ++ [TCommit true])).
    { apply tops_ok_app. split; [exact Hok|]. cbn. split; exact I. }
    assert (Hmap : forall k, out_get c p s2 k (h_seq (ts_h s2)) =
               a_get c k (fold_left (a_apply c p) (body_writes body) (base_map c p ops1))).
    { intros k. unfold s2. rewrite (outside_is_map _ k Hok2). f_equal.
      unfold base_map at 1. rewrite lin_app, El. cbn [lin_from fold_left lin_step l_cur l_done].
      rewrite map_of_snoc. cbn [map_step]. f_equal. apply map_of_nonwrites. exact Fd. }
    split; [exact E2|]. split; [exact Hmap|].
    intros k. rewrite Hmap. symmetry. apply txn_reads_overlay; assumption.
  Qed.

  (* why publishing the version before the sequence number is invisible: entries above a reader's sequence
     number do not count *)
  Theorem commit_window_unobservable h t k q :
    (forall x, In x (t_writes t) -> h_seq h < e_seq x) -> q <= h_seq h ->
    store_get c p (publish_version h t) k q = store_get c p h k q.
  Proof.
    intros Hnew Hq. unfold store_get, publish_version. cbn [h_store].
    rewrite (newest_app c). f_equal. apply (newest_none c). intros x Hx.
    specialize (Hnew x Hx). unfold Lsm.vis. destruct (cmp c (e_uk x) k); [|reflexivity|reflexivity].
    apply N.leb_gt. lia.
  Qed.

  (* C11, Discard (and Close with the transaction open): the whole run is the run in which the transaction
     never existed — same store, history, sequence number, snapshots — so nothing of it can ever show. *)
  Theorem discard_no_trace ops1 body fin :
    ts_txn (trun ops1) = None -> forallb keeps_open body = true -> fin = TDiscard \/ fin = TClose ->
    trun ((ops1 ++ TOpen :: body) ++ [fin]) = trun (ops1 ++ body_outside body) /\
    h_seq (ts_h (trun ((ops1 ++ TOpen :: body) ++ [fin]))) = h_seq (ts_h (trun ops1)) /\
    h_hist (ts_h (trun ((ops1 ++ TOpen :: body) ++ [fin]))) = h_hist (ts_h (trun ops1)).
  Proof.
    intros Hc Hk Hf. destruct (state_open_body ops1 body Hc Hk) as [t' (E & Enone & Eseq & Ehist)].
    assert (E2 : trun ((ops1 ++ TOpen :: body) ++ [fin]) = trun (ops1 ++ body_outside body)).
    { rewrite trun_app, E. cbn [trun_from fold_left].
      rewrite (closed_state _ Enone) at 2. destruct Hf as [-> | ->]; reflexivity. }
    rewrite E2. repeat split; assumption.
  Qed.

  (* C11, oversized batch: DB.Write of a batch larger than the write buffer is the write of all its records
     or nothing at all. *)
  Theorem large_batch_all_or_nothing s recs okb : ts_txn s = None ->
    tstep s (TBigWrite recs okb) =
    if okb then {| ts_h := hstep (ts_h s) (HWrite recs); ts_txn := None |} else s.
  Proof.
    intros H. destruct s as [h tx]. cbn [ts_txn ts_h] in *. subst tx. cbn [tstep ts_txn ts_h].
    destruct okb; [|reflexivity]. rewrite open_txn_mk, txn_write_mk. cbn [app]. rewrite commit_is_write. reflexivity.
  Qed.

  Theorem large_batch_reads ops recs okb k : ts_txn (trun ops) = None ->
    tops_ok c p t_init (ops ++ [TBigWrite recs okb]) ->
    let s := trun (ops ++ [TBigWrite recs okb]) in
    out_get c p s k (h_seq (ts_h s)) =
    a_get c k (if okb then fold_left (a_apply c p) recs (base_map c p ops) else base_map c p ops).
  Proof.
    intros Hc Hok s. unfold s. rewrite (outside_is_map _ k Hok). f_equal.
    unfold base_map. rewrite lin_app. pose proof (closed_cur ops Hc) as Hcur.
    destruct (lin ops) as [done cur]. cbn [l_cur l_done] in *. subst cur.
    cbn [lin_from fold_left lin_step l_cur l_done]. destruct okb; cbn [l_done]; [|reflexivity].
    rewrite map_of_snoc. reflexivity.
  Qed.

  (* other writers wait: while a transaction is open a write, an OpenTransaction and an oversized Write have
     no effect at that point of the trace (they take effect where they appear again, after it ended) *)
  Theorem writers_wait s t recs okb : ts_txn s = Some t ->
    tstep s (TOut (HWrite recs)) = s /\ tstep s TOpen = s /\ tstep s (TBigWrite recs okb) = s.
  Proof. intros H. destruct s as [h tx]. cbn in H. subst tx. repeat split; reflexivity. Qed.

  (* ---- layout level: Transaction.Get on the code's structures ---- *)
  Lemma newest_skip_invisible k s A R : (forall x, In x A -> vis k s x = false) ->
    newest k s (A ++ R) None = newest k s R None.
  Proof. intros H. rewrite (newest_app c). rewrite (newest_none c k s A H). reflexivity. Qed.

  (* Transaction.Get (private buffer, then DB.get with the private tables in front of level 0) returns the
     newest visible entry among the private buffer and everything DB.get consults. *)
  Theorem txn_lsm_get_correct auxm st k s :
    ssorted c auxm -> kinds_ok p auxm -> newer_thanP auxm (all_entries st) -> wf_state c p st ->
    txn_lsm_get c p auxm st k s = group_res p (newest k s (auxm ++ all_entries st) None).
  Proof.
    intros Hs Hk Hn Hwf. unfold txn_lsm_get. rewrite (comp_get_newest c ok p pok k s auxm Hk Hs).
    rewrite (chain_step c ok k s auxm _ Hn).
    destruct (newest k s auxm None) as [a|]; cbn [group_res].
    - pose proof (res_nonmiss p a). destruct (res_of p a); congruence.
    - apply (get_correct c ok p pok). exact Hwf.
  Qed.

  Lemma in_levels_shared st y b : In y (map level_entries (st_levels st)) -> In b y -> In b (shared_entries st).
  Proof.
    intros Hy Hb. unfold shared_entries. apply in_or_app. right. apply in_or_app. right.
    apply in_map_iff in Hy as [ts [<- Hts]]. unfold level_entries in Hb.
    apply in_concat in Hb as [es [Hes Hb]]. apply in_map_iff in Hes as [t [<- Ht]].
    apply in_concat. exists (t_entries t). split; [|exact Hb].
    apply in_map. apply in_concat. exists ts. split; assumption.
  Qed.

  Lemma all_entries_split st : st_mem st = [] -> st_frozen st = [] ->
    all_entries st = level_entries (st_aux st) ++ all_entries (outside_of st).
  Proof.
    intros Hm Hf. unfold all_entries, all_tables, outside_of, level_entries. cbn [st_mem st_frozen st_aux st_levels].
    rewrite Hm, Hf. cbn [app]. rewrite map_app, concat_app. reflexivity.
  Qed.

  Lemma outside_entries_shared st x : In x (all_entries (outside_of st)) -> In x (shared_entries st).
  Proof. unfold all_entries, all_tables, outside_of, shared_entries. cbn [st_mem st_frozen st_aux st_levels app]. auto. Qed.

  (* The transaction's situation: the DB's own buffers are empty, every private entry (buffer and private
     tables) is newer than [base] and every shared entry is at most [base].  Then (i) the private tables,
     consulted first, are sound: Transaction.Get returns the newest visible entry among private buffer,
     private tables and levels; (ii) at any sequence number up to [base] (what every outside reader uses, also
     while the commit has installed the tables but not yet published the sequence number) the private entries
     do not count: the read equals the outside read. *)
  Theorem aux_tables_first_sound auxm st base :
    st_mem st = [] -> st_frozen st = [] ->
    ssorted c auxm -> kinds_ok p auxm ->
    tables_ok c p (st_aux st) -> uniq (level_entries (st_aux st)) ->
    newer_thanP auxm (level_entries (st_aux st)) ->
    wf_state c p (outside_of st) ->
    (forall e, In e (private_entries auxm st) -> base < e_seq e) ->
    (forall e, In e (shared_entries st) -> e_seq e <= base) ->
    (forall k s, txn_lsm_get c p auxm st k s = group_res p (newest k s (auxm ++ all_entries st) None)) /\
    (forall k s, s <= base -> txn_lsm_get c p auxm st k s = lsm_get c p (outside_of st) k s) /\
    (forall k s, s <= base -> lsm_get c p st k s = lsm_get c p (outside_of st) k s).
  Proof.
    intros Hm Hf Hs Hk Hta Hua Hna Hwo Hpriv Hshared.
    assert (Hsep : forall a b, In a (private_entries auxm st) -> In b (shared_entries st) -> e_seq b < e_seq a).
    { intros a b Ha Hb. specialize (Hpriv a Ha). specialize (Hshared b Hb). lia. }
    assert (Hwf : wf_state c p st).
    { destruct Hwo as [W1 W2 W3 W4 W5 W6]. cbn [outside_of st_mem st_frozen st_aux st_levels] in *.
      constructor; try assumption; [split; assumption|].
      unfold comps in *. cbn [outside_of st_mem st_frozen st_aux st_levels chain_newer] in *.
      rewrite Hm, Hf in *. destruct W6 as [_ [_ [_ W6]]].
      split; [apply Forall_forall; intros y _ a b []|].
      split; [apply Forall_forall; intros y _ a b []|].
      split; [|exact W6].
      apply Forall_forall. intros y Hy a b Ha Hb _. apply Hsep.
      - unfold private_entries. apply in_or_app. right. exact Ha.
      - eapply in_levels_shared; eassumption. }
    assert (Hnew : newer_thanP auxm (all_entries st)).
    { intros a b Ha Hb Hab. rewrite (all_entries_split st Hm Hf) in Hb. apply in_app_or in Hb as [Hb|Hb].
      - apply (Hna a b Ha Hb Hab).
      - apply Hsep; [unfold private_entries; apply in_or_app; left; exact Ha|apply outside_entries_shared; exact Hb]. }
    assert (Hinv : forall k s, s <= base -> forall x, In x (private_entries auxm st) -> vis k s x = false).
    { intros k s Hle x Hx. specialize (Hpriv x Hx). unfold Lsm.vis.
      destruct (cmp c (e_uk x) k); [|reflexivity|reflexivity]. apply N.leb_gt. lia. }
    split; [|split].
    - intros k s. apply txn_lsm_get_correct; assumption.
    - intros k s Hle. rewrite (txn_lsm_get_correct auxm st k s Hs Hk Hnew Hwf).
      rewrite (get_correct c ok p pok (outside_of st) k s Hwo).
      rewrite (all_entries_split st Hm Hf), app_assoc. f_equal.
      apply newest_skip_invisible. apply (Hinv k s Hle).
    - intros k s Hle. rewrite (get_correct c ok p pok st k s Hwf), (get_correct c ok p pok (outside_of st) k s Hwo).
      rewrite (all_entries_split st Hm Hf). f_equal. apply newest_skip_invisible.
      intros x Hx. apply (Hinv k s Hle). unfold private_entries. apply in_or_app. right. exact Hx.
  Qed.

  (* the boolean the correspondence check evaluates on dumped transaction states implies the sequence
     hypotheses above, with base = the DB's sequence number *)
  Theorem txn_private_okb_sound dbseq tseq auxm st : txn_private_okb dbseq tseq auxm st = true ->
    (forall e, In e (private_entries auxm st) -> dbseq < e_seq e <= tseq) /\
    (forall e, In e (shared_entries st) -> e_seq e <= dbseq) /\
    st_mem st = [] /\ st_frozen st = [].
  Proof.
    unfold txn_private_okb. intros H.
    apply andb_prop in H as [H H6]. apply andb_prop in H as [H H5]. apply andb_prop in H as [H _].
    apply andb_prop in H as [_ H3].
    split; [|split].
    - intros e He. rewrite forallb_forall in H3. specialize (H3 e He). apply andb_prop in H3 as [A B].
      apply N.ltb_lt in A. apply N.leb_le in B. lia.
    - intros e He. rewrite forallb_forall in H5. specialize (H5 e He). apply N.leb_le in H5. exact H5.
    - destruct (st_mem st); [|discriminate]. destruct (st_frozen st); [|discriminate]. split; reflexivity.
  Qed.

  (* the certificate evaluated by the correspondence check on every dumped transaction state implies the
     conclusions of aux_tables_first_sound for that state *)
  Theorem txn_layout_cert_sound dbseq tseq auxm st : txn_layout_okb c p dbseq tseq auxm st = true ->
    (forall k s, txn_lsm_get c p auxm st k s = group_res p (newest k s (auxm ++ all_entries st) None)) /\
    (forall k s, s <= dbseq -> txn_lsm_get c p auxm st k s = lsm_get c p (outside_of st) k s) /\
    (forall k s, s <= dbseq -> lsm_get c p st k s = lsm_get c p (outside_of st) k s).
  Proof.
    unfold txn_layout_okb. intros H.
    apply andb_prop in H as [H H7]. apply andb_prop in H as [H H6]. apply andb_prop in H as [H H5].
    apply andb_prop in H as [H H4]. apply andb_prop in H as [H H3]. apply andb_prop in H as [H1 H2].
    destruct (txn_private_okb_sound dbseq tseq auxm st H1) as (P1 & P2 & Pm & Pf).
    apply (aux_tables_first_sound auxm st dbseq); try assumption.
    - apply (sortedb_ssorted c ok); assumption.
    - apply kindsb_ok; assumption.
    - apply (tables_okb_ok c ok); assumption.
    - apply uniqb_nodup. exact H5.
    - apply (newer_than_P c ok); assumption.
    - pose proof (wf_versionb_sound c ok p (st_levels st) H7) as W.
      destruct st as [m f a l]. cbn [st_mem st_frozen st_levels outside_of] in *. subst m f. exact W.
    - intros e He. apply P1. exact He.
  Qed.
End Proofs.
