(* Lsm/Txn.v — L1: transactions on top of the history machine (History.v), and the layout-level read path
   of a transaction on top of the read path (Lsm.v).
   Mirrors leveldb/db_transaction.go (OpenTransaction, put/Put/Delete/Write, Commit, Discard, setDone),
   db_write.go (DB.Write: a batch larger than the write buffer goes through a transaction), db.go
   (DB.get with auxm/auxt; Close discards the open transaction).  Model file: definitions only. *)
From GL Require Export Lsm.History.

Section WithComparer.
  Variable c : comparer.
  Variable p : kparams.

  (* ---- layout level: Transaction.Get = DB.get(tr.mem, tr.tables, key, tr.seq) ----
     the transaction's private buffer is consulted first, then the DB's buffers, then the version with the
     transaction's private tables in front of level 0 (st_aux) *)
  Definition txn_lsm_get (auxm : list entry) (st : lstate) (k : bytes) (s : N) : gres :=
    match comp_get c p auxm k s with
    | GMiss => lsm_get c p st k s
    | r => r
    end.

  (* what a reader outside the transaction runs on the same instant: no private buffer, no private tables *)
  Definition outside_of (st : lstate) : lstate :=
    {| st_mem := st_mem st; st_frozen := st_frozen st; st_aux := []; st_levels := st_levels st |}.

  (* the sequence discipline of an open transaction, as a boolean the correspondence check evaluates on
     dumped states: private entries carry exactly the sequence numbers dbseq+1 .. tseq (each once), shared
     entries are at most dbseq, and the DB's own buffers are empty (OpenTransaction flushed them and
     writers are held back) *)
  Definition private_entries (auxm : list entry) (st : lstate) : list entry :=
    auxm ++ concat (map t_entries (st_aux st)).
  Definition shared_entries (st : lstate) : list entry :=
    st_mem st ++ st_frozen st ++ concat (map t_entries (concat (st_levels st))).

  Fixpoint count_seq (s : N) (l : list entry) : nat :=
    match l with
    | [] => O
    | e :: l' => if e_seq e =? s then S (count_seq s l') else count_seq s l'
    end.

  Fixpoint seqs_from (s : N) (n : nat) : list N :=
    match n with O => [] | S n' => (s + 1) :: seqs_from (s + 1) n' end.

  Definition txn_private_okb (dbseq tseq : N) (auxm : list entry) (st : lstate) : bool :=
    let pr := private_entries auxm st in
    (dbseq <=? tseq)
    && (N.of_nat (length pr) =? tseq - dbseq)
    && forallb (fun e => (dbseq <? e_seq e) && (e_seq e <=? tseq)) pr
    && forallb (fun s => Nat.eqb (count_seq s pr) 1) (seqs_from dbseq (length pr))
    && forallb (fun e => e_seq e <=? dbseq) (shared_entries st)
    && match st_mem st, st_frozen st with [], [] => true | _, _ => false end.

  (* the whole certificate for a dumped transaction state: sequence discipline, private buffer sorted,
     private tables well-formed and older (per user key) than the private buffer, shared levels well-formed *)
  Definition txn_layout_okb (dbseq tseq : N) (auxm : list entry) (st : lstate) : bool :=
    txn_private_okb dbseq tseq auxm st
    && sortedb c auxm && kindsb p auxm
    && forallb (table_okb c p) (st_aux st) && uniqb (level_entries (st_aux st))
    && newer_than c auxm (level_entries (st_aux st))
    && wf_versionb c p (st_levels st).

  (* ---- history level ---- *)
  Record txn := {
    t_seq : N;                 (* tr.seq: private counter, starts at db.seq *)
    t_writes : list entry      (* every entry the transaction holds (private buffer + private tables) *)
  }.

  Record tstate := {
    ts_h : hstate;
    ts_txn : option txn        (* db.tr *)
  }.

  Definition t_init : tstate := {| ts_h := h_init; ts_txn := None |}.

  Inductive top :=
  | TOut (o : hop)                          (* what History.v has: writes, snapshots, reorganisations *)
  | TOpen                                   (* OpenTransaction *)
  | TWrite (recs : list wrec)               (* Transaction.Put / Delete / Write *)
  | TCommit (ok : bool)                     (* Transaction.Commit; ok = false: all attempts failed *)
  | TDiscard                                (* Transaction.Discard *)
  | TClose                                  (* DB.Close (discards the open transaction) and reopen *)
  | TBigWrite (recs : list wrec) (ok : bool).  (* DB.Write of a batch larger than the write buffer *)

  Definition with_h (s : tstate) (h : hstate) : tstate := {| ts_h := h; ts_txn := ts_txn s |}.

  (* Commit, first half (session.commit): the private tables enter the version; db.seq is untouched *)
  Definition publish_version (h : hstate) (t : txn) : hstate :=
    {| h_seq := h_seq h; h_store := h_store h ++ t_writes t; h_snaps := h_snaps h;
       h_hist := h_hist h ++ t_writes t |}.
  (* Commit, second half (db.setSeq(tr.seq)) *)
  Definition publish_seq (h : hstate) (t : txn) : hstate :=
    {| h_seq := t_seq t; h_store := h_store h; h_snaps := h_snaps h; h_hist := h_hist h |}.
  Definition commit_h (h : hstate) (t : txn) : hstate := publish_seq (publish_version h t) t.

  Definition open_txn (h : hstate) : txn := {| t_seq := h_seq h; t_writes := [] |}.
  Definition txn_write (t : txn) (recs : list wrec) : txn :=
    {| t_seq := t_seq t + N.of_nat (length recs); t_writes := t_writes t ++ stamp (t_seq t) recs |}.

  Definition tstep (s : tstate) (o : top) : tstate :=
    match o, ts_txn s with
    (* a writer (and OpenTransaction, and an oversized Write) waits for the write lock the transaction holds:
       no effect at this point of the trace *)
    | TOut (HWrite _), Some _ => s
    | TOut o', _ => with_h s (hstep (ts_h s) o')
    | TOpen, None => {| ts_h := ts_h s; ts_txn := Some (open_txn (ts_h s)) |}
    | TOpen, Some _ => s
    | TWrite recs, Some t => {| ts_h := ts_h s; ts_txn := Some (txn_write t recs) |}
    | TWrite _, None => s                                   (* errTransactionDone *)
    | TCommit true, Some t => {| ts_h := commit_h (ts_h s) t; ts_txn := None |}
    | TCommit false, _ => s                                 (* error returned; still open, retry or discard *)
    | TCommit true, None => s                               (* errTransactionDone *)
    | TDiscard, _ => {| ts_h := ts_h s; ts_txn := None |}
    | TClose, _ => {| ts_h := ts_h s; ts_txn := None |}
    | TBigWrite recs ok, None =>
        (* tr := OpenTransaction(); tr.Write(batch); if tr.Commit() fails then tr.Discard() *)
        let t := txn_write (open_txn (ts_h s)) recs in
        if ok then {| ts_h := commit_h (ts_h s) t; ts_txn := None |}
        else {| ts_h := ts_h s; ts_txn := None |}
    | TBigWrite _ _, Some _ => s
    end.

  Definition trun_from (s : tstate) (ops : list top) : tstate := fold_left tstep ops s.
  Definition trun (ops : list top) : tstate := trun_from t_init ops.

  (* reads *)
  Definition out_get (s : tstate) (k : bytes) (q : N) : option bytes := store_get c p (ts_h s) k q.
  (* Transaction.Get: the shared collection and the private entries, at the private counter *)
  Definition txn_get (s : tstate) (k : bytes) : option bytes :=
    match ts_txn s with
    | Some t => res p (newest c k (t_seq t) (h_store (ts_h s) ++ t_writes t) None)
    | None => None
    end.

  (* ---- the specification side: the committed writes, in commit order ---- *)
  (* lin folds a transactional trace into the History trace that has the same effect on everyone outside:
     a committed transaction is ONE write of all its records at the commit point, a discarded one is nothing,
     a writer held back by the open transaction is nothing (it shows up again in the trace when it runs) *)
  Record lin_state := { l_done : list hop; l_cur : option (list wrec) }.
  Definition lin_init : lin_state := {| l_done := []; l_cur := None |}.

  Definition lin_step (l : lin_state) (o : top) : lin_state :=
    match o, l_cur l with
    | TOut (HWrite _), Some _ => l
    | TOut o', _ => {| l_done := l_done l ++ [o']; l_cur := l_cur l |}
    | TOpen, None => {| l_done := l_done l; l_cur := Some [] |}
    | TOpen, Some _ => l
    | TWrite recs, Some w => {| l_done := l_done l; l_cur := Some (w ++ recs) |}
    | TWrite _, None => l
    | TCommit true, Some w => {| l_done := l_done l ++ [HWrite w]; l_cur := None |}
    | TCommit false, _ => l
    | TCommit true, None => l
    | TDiscard, _ => {| l_done := l_done l; l_cur := None |}
    | TClose, _ => {| l_done := l_done l; l_cur := None |}
    | TBigWrite recs ok, None =>
        if ok then {| l_done := l_done l ++ [HWrite recs]; l_cur := None |} else l
    | TBigWrite _ _, Some _ => l
    end.

  Definition lin_from (l : lin_state) (ops : list top) : lin_state := fold_left lin_step ops l.
  Definition lin (ops : list top) : lin_state := lin_from lin_init ops.

  (* the plain map everyone outside must see after ops, and the overlay the transaction must see *)
  Definition base_map (ops : list top) : amap := map_of c p (l_done (lin ops)).
  Definition overlay_map (ops : list top) : amap :=
    match l_cur (lin ops) with
    | Some w => fold_left (a_apply c p) w (base_map ops)
    | None => base_map ops
    end.

  (* admissibility of the reorganisations in a transactional trace, judged on the shared state *)
  Definition top_ok (s : tstate) (o : top) : Prop :=
    match o with
    | TOut o' => hop_ok c p (ts_h s) o'
    | TWrite recs | TBigWrite recs _ => Forall (fun r => fst (fst r) <= keyTypeSeek p) recs
    | _ => True
    end.
  Fixpoint tops_ok (s : tstate) (ops : list top) : Prop :=
    match ops with
    | [] => True
    | o :: rest => top_ok s o /\ tops_ok (tstep s o) rest
    end.

  (* the ops that leave an open transaction open *)
  Definition keeps_open (o : top) : bool :=
    match o with
    | TCommit true | TDiscard | TClose => false
    | _ => true
    end.

  (* the records written by the transaction in a body *)
  Fixpoint body_writes (body : list top) : list wrec :=
    match body with
    | [] => []
    | TWrite recs :: rest => recs ++ body_writes rest
    | _ :: rest => body_writes rest
    end.

  (* what the same body is for a run in which the transaction never existed: the outside activity that was
     not held back *)
  Fixpoint body_outside (body : list top) : list top :=
    match body with
    | [] => []
    | TOut (HWrite _) :: rest => body_outside rest
    | TOut o :: rest => TOut o :: body_outside rest
    | _ :: rest => body_outside rest
    end.
End WithComparer.
