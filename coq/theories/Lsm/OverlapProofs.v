(* Lsm/OverlapProofs.v — what tFiles.getOverlaps / getRange / overlaps compute (model Lsm/Pick.v):
   - on an ordered, disjoint level the two binary searches return exactly the tables overlapping the range;
   - the level-0 restart loop terminates and returns a set that is closed: every table of the level sharing a user key
     with a returned table is returned;
   - getRange returns the smallest imin and the largest imax. *)
From GL Require Import Base.Order Base.OrderProofs Codec.IKey Codec.IKeyProofs Lsm.Lsm Lsm.Compact Lsm.LsmProofs
  Lsm.WfProofs Lsm.Pick Lsm.PickBase.
From Coq Require Import Arith Lia.

Local Open Scope nat_scope.

Lemma get_overlaps_sorted_unfold c tf umin umax :
  get_overlaps_sorted c tf umin umax =
  if Nat.leb (ov_end c tf umax) (ov_begin c tf umin) then []
  else firstn (ov_end c tf umax - ov_begin c tf umin) (skipn (ov_begin c tf umin) tf).
Proof.
  unfold get_overlaps_sorted. destruct tf as [|t tf']; [|reflexivity].
  destruct (Nat.leb _ _); [reflexivity|]. rewrite skipn_nil, firstn_nil. reflexivity.
Qed.

Section Sorted.
  Variable c : comparer.
  Hypothesis ok : comparer_ok c.
  Variable p : kparams.

  Notation lt := (Order.lt c).
  Notation le := (Order.le c).
  Notation umin_of := Pick.umin_of.
  Notation umax_of := Pick.umax_of.

  Variable tf : list table.
  Hypothesis Hok : forall t, In t tf -> tbl_ok c p t.
  Hypothesis Hb : bsorted c tf.

  Let n := length tf.

  Lemma nth_ok i : i < n -> tbl_ok c p (tnth tf i).
  Proof. intros H. apply Hok. apply nth_In. exact H. Qed.

  Lemma search_min_ukey_spec m :
    search_min_ukey c tf m <= n /\
    (forall i, i < search_min_ukey c tf m -> le (umin_of (tnth tf i)) m) /\
    (forall i, search_min_ukey c tf m <= i -> i < n -> lt m (umin_of (tnth tf i))).
  Proof.
    unfold search_min_ukey.
    set (f := fun i => match cmp c (umin_of (tnth tf i)) m with Gt => true | _ => false end).
    assert (Hm : monotone f 0 n).
    { intros a b _ Hab Hbn Fa. unfold f in *.
      assert (L : lt m (umin_of (tnth tf a))).
      { apply (cmp_gt_iff c ok). destruct (cmp c (umin_of (tnth tf a)) m); congruence. }
      assert (L2 : lt m (umin_of (tnth tf b))).
      { eapply (OrderProofs.lt_le_trans c ok); [exact L|]. apply (bsorted_umin_mono c ok p tf a b Hok Hb Hab Hbn). }
      apply (cmp_gt_iff c ok) in L2. rewrite L2. reflexivity. }
    destruct (sort_search_spec n f Hm) as [K1 [K2 K3]]. fold n. split; [exact K1|]. split.
    - intros i Hi. specialize (K2 i Hi). unfold f in K2. unfold Order.le.
      destruct (cmp c (umin_of (tnth tf i)) m); congruence.
    - intros i Hi Hn. specialize (K3 i Hi Hn). unfold f in K3. apply (cmp_gt_iff c ok).
      destruct (cmp c (umin_of (tnth tf i)) m); congruence.
  Qed.

  Lemma search_max_ukey_spec m :
    search_max_ukey c tf m <= n /\
    (forall i, i < search_max_ukey c tf m -> le (umax_of (tnth tf i)) m) /\
    (forall i, search_max_ukey c tf m <= i -> i < n -> lt m (umax_of (tnth tf i))).
  Proof.
    unfold search_max_ukey.
    set (f := fun i => match cmp c (umax_of (tnth tf i)) m with Gt => true | _ => false end).
    assert (Hm : monotone f 0 n).
    { intros a b _ Hab Hbn Fa. unfold f in *.
      assert (L : lt m (umax_of (tnth tf a))).
      { apply (cmp_gt_iff c ok). destruct (cmp c (umax_of (tnth tf a)) m); congruence. }
      assert (L2 : lt m (umax_of (tnth tf b))).
      { eapply (OrderProofs.lt_le_trans c ok); [exact L|]. apply (bsorted_umax_mono c ok p tf a b Hok Hb Hab Hbn). }
      apply (cmp_gt_iff c ok) in L2. rewrite L2. reflexivity. }
    destruct (sort_search_spec n f Hm) as [K1 [K2 K3]]. fold n. split; [exact K1|]. split.
    - intros i Hi. specialize (K2 i Hi). unfold f in K2. unfold Order.le.
      destruct (cmp c (umax_of (tnth tf i)) m); congruence.
    - intros i Hi Hn. specialize (K3 i Hi Hn). unfold f in K3. apply (cmp_gt_iff c ok).
      destruct (cmp c (umax_of (tnth tf i)) m); congruence.
  Qed.

  (* begin = the first table that is not entirely before umin *)
  Lemma ov_begin_spec umin i : i < n -> (ov_begin c tf umin <= i <-> t_after c (tnth tf i) umin = false).
  Proof.
    intros Hi. destruct umin as [m|]; cbn [ov_begin t_after]; [|split; [reflexivity|lia]].
    destruct (search_min_ukey_spec m) as [K1 [K2 K3]].
    fold (t_after c (tnth tf i) (Some m)). rewrite (t_after_false c ok).
    destruct (search_min_ukey c tf m) as [|i1] eqn:E.
    - split; [intros _|lia].
      eapply (OrderProofs.le_trans c ok); [apply (OrderProofs.lt_le c); apply (K3 i); lia|].
      apply (tbl_valid c ok p). apply nth_ok. exact Hi.
    - assert (Hi1 : i1 < n) by lia.
      assert (Above : forall j, S i1 <= j -> j < n -> le m (umax_of (tnth tf j))).
      { intros j H1 H2. eapply (OrderProofs.le_trans c ok); [apply (OrderProofs.lt_le c); apply (K3 j); lia|].
        apply (tbl_valid c ok p). apply nth_ok. exact H2. }
      assert (Below : forall j, j < i1 -> lt (umax_of (tnth tf j)) m).
      { intros j H1. eapply (OrderProofs.lt_le_trans c ok); [apply (Hb j i1); lia|]. apply K2. lia. }
      destruct (cmp c (umax_of (tnth tf i1)) m) eqn:C1.
      + (* equal: the file before overlaps *)
        apply (cmp_eq c ok) in C1. split.
        * intros H. destruct (Nat.eq_dec i i1) as [->|Hne]; [rewrite C1; apply (OrderProofs.le_refl c ok)|].
          apply Above; lia.
        * intros H. destruct (Nat.lt_ge_cases i i1) as [Q|Q]; [|exact Q].
          exfalso. apply (ult_not_le c ok _ _ (Below i Q) H).
      + (* strictly before umin *)
        split.
        * intros H. apply Above; lia.
        * intros H. destruct (Nat.lt_ge_cases i (S i1)) as [Q|Q]; [|exact Q]. exfalso.
          assert (L : lt (umax_of (tnth tf i)) m).
          { destruct (Nat.eq_dec i i1) as [->|Hne]; [exact C1|apply Below; lia]. }
          apply (ult_not_le c ok _ _ L H).
      + apply (cmp_gt_iff c ok) in C1. split.
        * intros H. destruct (Nat.eq_dec i i1) as [->|Hne]; [apply (OrderProofs.lt_le c); exact C1|].
          apply Above; lia.
        * intros H. destruct (Nat.lt_ge_cases i i1) as [Q|Q]; [|exact Q].
          exfalso. apply (ult_not_le c ok _ _ (Below i Q) H).
  Qed.

  (* end = one past the last table that is not entirely after umax *)
  Lemma ov_end_spec umax : ov_end c tf umax <= n /\
    forall i, i < n -> (i < ov_end c tf umax <-> t_before c (tnth tf i) umax = false).
  Proof.
    destruct umax as [m|]; cbn [ov_end t_before]; [|split; [fold n; lia|intros i Hi; fold n; split; [reflexivity|lia]]].
    destruct (search_max_ukey_spec m) as [K1 [K2 K3]]. fold n.
    destruct (Nat.eqb (search_max_ukey c tf m) n) eqn:E.
    - apply Nat.eqb_eq in E. split; [lia|]. intros i Hi. fold (t_before c (tnth tf i) (Some m)).
      rewrite (t_before_false c ok). split; [intros _|lia].
      eapply (OrderProofs.le_trans c ok); [apply (tbl_valid c ok p); apply nth_ok; exact Hi|]. apply K2. lia.
    - apply Nat.eqb_neq in E. set (ix := search_max_ukey c tf m) in *.
      assert (Hix : ix < n) by lia.
      assert (Below : forall j, j < ix -> le (umin_of (tnth tf j)) m).
      { intros j H1. eapply (OrderProofs.le_trans c ok); [apply (tbl_valid c ok p); apply nth_ok; lia|]. apply K2. exact H1. }
      assert (Above : forall j, ix < j -> j < n -> lt m (umin_of (tnth tf j))).
      { intros j H1 H2. eapply (OrderProofs.lt_trans c ok); [apply (K3 ix); lia|]. apply (Hb ix j); lia. }
      destruct (cmp c (umin_of (tnth tf ix)) m) eqn:C1.
      + apply (cmp_eq c ok) in C1. split; [lia|]. intros i Hi. fold (t_before c (tnth tf i) (Some m)).
        rewrite (t_before_false c ok). split.
        * intros H. destruct (Nat.eq_dec i ix) as [->|Hne]; [rewrite C1; apply (OrderProofs.le_refl c ok)|].
          apply Below; lia.
        * intros H. destruct (Nat.lt_ge_cases ix i) as [Q|Q]; [|lia].
          exfalso. apply (ult_not_le c ok _ _ (Above i Q Hi) H).
      + split; [lia|]. intros i Hi. fold (t_before c (tnth tf i) (Some m)).
        rewrite (t_before_false c ok). split.
        * intros H. destruct (Nat.eq_dec i ix) as [->|Hne]; [apply (OrderProofs.lt_le c); exact C1|].
          apply Below; lia.
        * intros H. destruct (Nat.lt_ge_cases ix i) as [Q|Q]; [|lia].
          exfalso. apply (ult_not_le c ok _ _ (Above i Q Hi) H).
      + apply (cmp_gt_iff c ok) in C1. split; [lia|]. intros i Hi. fold (t_before c (tnth tf i) (Some m)).
        rewrite (t_before_false c ok). split.
        * intros H. apply Below. exact H.
        * intros H. destruct (Nat.lt_ge_cases i ix) as [Q|Q]; [exact Q|]. exfalso.
          assert (L : lt m (umin_of (tnth tf i))).
          { destruct (Nat.eq_dec i ix) as [->|Hne]; [exact C1|apply Above; lia]. }
          apply (ult_not_le c ok _ _ L H).
  Qed.

  (* the binary-search variant returns exactly the overlapping tables (as a contiguous slice) *)
  Theorem get_overlaps_sorted_in umin umax t :
    In t (get_overlaps_sorted c tf umin umax) <-> In t tf /\ t_overlaps c t umin umax = true.
  Proof.
    rewrite get_overlaps_sorted_unfold.
    destruct (ov_end_spec umax) as [E1 E2].
    pose proof (ov_begin_spec umin) as B.
    assert (Ov : forall i, i < n -> (t_overlaps c (tnth tf i) umin umax = true <->
                                     ov_begin c tf umin <= i /\ i < ov_end c tf umax)).
    { intros i Hi. unfold t_overlaps. rewrite Bool.andb_true_iff, !Bool.negb_true_iff, (B i Hi), (E2 i Hi). tauto. }
    destruct (Nat.leb (ov_end c tf umax) (ov_begin c tf umin)) eqn:L.
    - apply Nat.leb_le in L. split; [intros []|]. intros [Ht Ho].
      apply (in_nth_ex no_table) in Ht as [i [Hi <-]]. apply (Ov i Hi) in Ho. lia.
    - apply Nat.leb_gt in L. rewrite (in_slice_nth no_table). split.
      + intros [i [H1 [H2 [H3 H4]]]]. subst t. split; [apply nth_In; exact H3|]. apply (Ov i H3). lia.
      + intros [Ht Ho]. apply (in_nth_ex no_table) in Ht as [i [Hi <-]]. apply (Ov i Hi) in Ho.
        exists i. repeat split; try lia.
  Qed.
End Sorted.

(* ---- level 0: the restart loop ---- *)
Section Level0.
  Variable c : comparer.
  Hypothesis ok : comparer_ok c.
  Variable p : kparams.

  Notation lt := (Order.lt c).
  Notation le := (Order.le c).
  Notation umin_of := Pick.umin_of.
  Notation umax_of := Pick.umax_of.

  Definition needs_min (t : table) (umin : option bytes) : bool :=
    match umin with Some m => ltb c (umin_of t) m | None => false end.
  Definition needs_max (t : table) (umax : option bytes) : bool :=
    match umax with Some m => ltb c m (umax_of t) | None => false end.

  Lemma ov_pass_done rest umin umax : forall dst d,
    ov_pass c rest umin umax dst = PDone d ->
    d = dst ++ filter (fun t => t_overlaps c t umin umax) rest /\
    (forall t, In t rest -> t_overlaps c t umin umax = true -> needs_min t umin = false /\ needs_max t umax = false).
  Proof.
    induction rest as [|t rest IH]; intros dst d H; cbn [ov_pass] in H.
    - injection H as <-. cbn [filter]. rewrite app_nil_r. split; [reflexivity|intros t []].
    - cbn [filter]. destruct (t_overlaps c t umin umax) eqn:O.
      + fold (needs_min t umin) in H. fold (needs_max t umax) in H.
        destruct (needs_min t umin) eqn:N1; [discriminate|]. destruct (needs_max t umax) eqn:N2; [discriminate|].
        destruct (IH _ _ H) as [E F]. split; [rewrite E, <- app_assoc; reflexivity|].
        intros t' [<-|Ht'] Ho; [split; assumption|apply F; assumption].
      + destruct (IH _ _ H) as [E F]. split; [exact E|].
        intros t' [<-|Ht'] Ho; [congruence|apply F; assumption].
  Qed.

  Lemma ov_pass_restart rest umin umax : forall dst a b,
    ov_pass c rest umin umax dst = PRestart a b ->
    exists t, In t rest /\
      ((needs_min t umin = true /\ a = Some (umin_of t) /\ b = umax) \/
       (needs_max t umax = true /\ a = umin /\ b = Some (umax_of t))).
  Proof.
    induction rest as [|t rest IH]; intros dst a b H; cbn [ov_pass] in H; [discriminate|].
    destruct (t_overlaps c t umin umax) eqn:O.
    - fold (needs_min t umin) in H. fold (needs_max t umax) in H.
      destruct (needs_min t umin) eqn:N1.
      + injection H as <- <-. exists t. split; [left; reflexivity|]. left. split; [exact N1|split; reflexivity].
      + destruct (needs_max t umax) eqn:N2.
        * injection H as <- <-. exists t. split; [left; reflexivity|]. right. split; [exact N2|split; reflexivity].
        * destruct (IH _ _ _ H) as [t' [Ht' R]]. exists t'. split; [right; exact Ht'|exact R].
    - destruct (IH _ _ _ H) as [t' [Ht' R]]. exists t'. split; [right; exact Ht'|exact R].
  Qed.

  Lemma filter_length_lt {A} (P Q : A -> bool) (l : list A) t :
    (forall x, P x = true -> Q x = true) -> In t l -> Q t = true -> P t = false ->
    length (filter P l) < length (filter Q l).
  Proof.
    intros PQ. induction l as [|x l IH]; intros Ht Qt Pt; [destruct Ht|]. cbn [filter].
    assert (Le : length (filter P l) <= length (filter Q l)).
    { clear -PQ. induction l as [|y l IHl]; [cbn; lia|]. cbn [filter].
      destruct (P y) eqn:Py; [rewrite (PQ y Py); cbn [length]; lia|]. destruct (Q y); cbn [length]; lia. }
    destruct Ht as [->|Ht].
    - rewrite Pt, Qt. cbn [length]. lia.
    - specialize (IH Ht Qt Pt). destruct (P x) eqn:Px; [rewrite (PQ x Px); cbn [length]; lia|].
      destruct (Q x); cbn [length]; lia.
  Qed.

  Lemma filter_len_le {A} (P : A -> bool) (l : list A) : length (filter P l) <= length l.
  Proof. induction l as [|x l IH]; [cbn; lia|]. cbn [filter]. destruct (P x); cbn [length]; lia. Qed.

  Definition meas (tf : list table) (umin umax : option bytes) : nat :=
    length (filter (fun t => needs_min t umin) tf) + length (filter (fun t => needs_max t umax) tf).

  Lemma meas_bound tf umin umax : meas tf umin umax <= 2 * length tf.
  Proof.
    unfold meas. pose proof (filter_len_le (fun t => needs_min t umin) tf).
    pose proof (filter_len_le (fun t => needs_max t umax) tf). lia.
  Qed.

  Lemma meas_dec_min tf t umin umax : In t tf -> needs_min t umin = true ->
    meas tf (Some (umin_of t)) umax < meas tf umin umax.
  Proof.
    intros Ht N. unfold meas. apply Nat.add_lt_mono_r.
    destruct umin as [m|]; [|discriminate]. cbn [needs_min] in N. apply (ltb_lt c) in N.
    apply (filter_length_lt _ _ tf t); [|exact Ht| |].
    - intros x Px. cbn [needs_min] in *. apply (ltb_lt c) in Px. apply (ltb_lt c).
      eapply (OrderProofs.lt_trans c ok); eauto.
    - cbn [needs_min]. apply (ltb_lt c). exact N.
    - cbn [needs_min]. destruct (ltb c (umin_of t) (umin_of t)) eqn:E; [|reflexivity].
      apply (ltb_lt c) in E. exfalso. apply (OrderProofs.lt_irrefl c ok _ E).
  Qed.

  Lemma meas_dec_max tf t umin umax : In t tf -> needs_max t umax = true ->
    meas tf umin (Some (umax_of t)) < meas tf umin umax.
  Proof.
    intros Ht N. unfold meas. apply Nat.add_lt_mono_l.
    destruct umax as [m|]; [|discriminate]. cbn [needs_max] in N. apply (ltb_lt c) in N.
    apply (filter_length_lt _ _ tf t); [|exact Ht| |].
    - intros x Px. cbn [needs_max] in *. apply (ltb_lt c) in Px. apply (ltb_lt c).
      eapply (OrderProofs.lt_trans c ok); eauto.
    - cbn [needs_max]. apply (ltb_lt c). exact N.
    - cbn [needs_max]. destruct (ltb c (umax_of t) (umax_of t)) eqn:E; [|reflexivity].
      apply (ltb_lt c) in E. exfalso. apply (OrderProofs.lt_irrefl c ok _ E).
  Qed.

  (* [a,b] contains [umin,umax] *)
  Definition wider_lo (a umin : option bytes) : Prop :=
    match a, umin with
    | None, _ => True
    | Some m', Some m => le m' m
    | Some _, None => False
    end.
  Definition wider_hi (b umax : option bytes) : Prop :=
    match b, umax with
    | None, _ => True
    | Some m', Some m => le m m'
    | Some _, None => False
    end.

  Lemma wider_lo_refl a : wider_lo a a.
  Proof. destruct a; cbn; [apply (OrderProofs.le_refl c ok)|exact I]. Qed.
  Lemma wider_hi_refl a : wider_hi a a.
  Proof. destruct a; cbn; [apply (OrderProofs.le_refl c ok)|exact I]. Qed.
  Lemma wider_lo_trans a b d : wider_lo a b -> wider_lo b d -> wider_lo a d.
  Proof.
    destruct a, b, d; cbn; try tauto. intros H1 H2. eapply (OrderProofs.le_trans c ok); eauto.
  Qed.
  Lemma wider_hi_trans a b d : wider_hi a b -> wider_hi b d -> wider_hi a d.
  Proof.
    destruct a, b, d; cbn; try tauto. intros H1 H2. eapply (OrderProofs.le_trans c ok); eauto.
  Qed.

  Lemma overlaps_wider t a b umin umax : wider_lo a umin -> wider_hi b umax ->
    t_overlaps c t umin umax = true -> t_overlaps c t a b = true.
  Proof.
    intros W1 W2. unfold t_overlaps. rewrite !Bool.andb_true_iff, !Bool.negb_true_iff. intros [H1 H2]. split.
    - destruct a as [m'|]; [|reflexivity]. destruct umin as [m|]; [|destruct W1].
      apply (t_after_false c ok). apply (t_after_false c ok) in H1. eapply (OrderProofs.le_trans c ok); eauto.
    - destruct b as [m'|]; [|reflexivity]. destruct umax as [m|]; [|destruct W2].
      apply (t_before_false c ok). apply (t_before_false c ok) in H2. eapply (OrderProofs.le_trans c ok); eauto.
  Qed.

  (* what the loop returns: the tables overlapping a widened range none of which sticks out of it *)
  Definition l0_result (tf : list table) (umin umax : option bytes) (d : list table) : Prop :=
    exists a b, wider_lo a umin /\ wider_hi b umax /\
      d = filter (fun t => t_overlaps c t a b) tf /\
      (forall t, In t d -> needs_min t a = false /\ needs_max t b = false).

  Lemma ov_loop_spec fuel : forall tf umin umax, meas tf umin umax < fuel ->
    exists d, ov_loop c fuel tf umin umax = POk d /\ l0_result tf umin umax d.
  Proof.
    induction fuel as [|fu IH]; intros tf umin umax Hm; [lia|]. cbn [ov_loop].
    destruct (ov_pass c tf umin umax []) as [d|a b] eqn:E.
    - exists d. split; [reflexivity|]. destruct (ov_pass_done _ _ _ _ _ E) as [E1 E2]. cbn [app] in E1.
      exists umin, umax. split; [apply wider_lo_refl|]. split; [apply wider_hi_refl|]. split; [exact E1|].
      intros t Ht. rewrite E1 in Ht. apply filter_In in Ht as [H1 H2]. apply E2; assumption.
    - destruct (ov_pass_restart _ _ _ _ _ _ E) as [t [Ht [[N [-> ->]]|[N [-> ->]]]]].
      + pose proof (meas_dec_min tf t umin umax Ht N) as D.
        destruct (IH tf (Some (umin_of t)) umax ltac:(lia)) as [d [R [a [b [W1 [W2 [F1 F2]]]]]]].
        exists d. split; [exact R|]. exists a, b. split; [|split; [exact W2|split; assumption]].
        eapply wider_lo_trans; [exact W1|]. destruct umin as [m|]; [|discriminate].
        cbn [needs_min] in N. apply (ltb_lt c) in N. cbn. apply (OrderProofs.lt_le c). exact N.
      + pose proof (meas_dec_max tf t umin umax Ht N) as D.
        destruct (IH tf umin (Some (umax_of t)) ltac:(lia)) as [d [R [a [b [W1 [W2 [F1 F2]]]]]]].
        exists d. split; [exact R|]. exists a, b. split; [exact W1|split; [|split; assumption]].
        eapply wider_hi_trans; [exact W2|]. destruct umax as [m|]; [|discriminate].
        cbn [needs_max] in N. apply (ltb_lt c) in N. cbn. apply (OrderProofs.lt_le c). exact N.
  Qed.

  Theorem get_overlaps_l0_spec tf umin umax :
    exists d, get_overlaps c tf umin umax true = POk d /\ l0_result tf umin umax d.
  Proof.
    unfold get_overlaps. destruct tf as [|t tf'] eqn:E.
    - exists []. split; [reflexivity|]. exists umin, umax.
      split; [apply wider_lo_refl|]. split; [apply wider_hi_refl|]. split; [reflexivity|intros t []].
    - rewrite <- E. apply ov_loop_spec. pose proof (meas_bound tf umin umax). lia.
  Qed.

  (* consequences used by the picker proof *)
  Lemma l0_result_incl tf umin umax d : l0_result tf umin umax d -> incl d tf.
  Proof. intros [a [b [_ [_ [-> _]]]]] t Ht. apply filter_In in Ht. apply Ht. Qed.

  Lemma l0_result_seeds tf umin umax d t : l0_result tf umin umax d ->
    In t tf -> t_overlaps c t umin umax = true -> In t d.
  Proof.
    intros [a [b [W1 [W2 [-> _]]]]] Ht Ho. apply filter_In. split; [exact Ht|].
    eapply overlaps_wider; eauto.
  Qed.

  (* closure: a table of the level overlapping the user-key hull of returned tables is returned *)
  Definition hull_closed (tf d : list table) : Prop :=
    forall s ta tb, In s tf -> In ta d -> In tb d ->
      t_overlaps c s (Some (umin_of ta)) (Some (umax_of tb)) = true -> In s d.

  Lemma l0_result_hull tf umin umax d : l0_result tf umin umax d -> hull_closed tf d.
  Proof.
    intros [a [b [W1 [W2 [E F]]]]] s ta tb Hs Ha Hb Ho.
    destruct (F ta Ha) as [N1 _]. destruct (F tb Hb) as [_ N2].
    rewrite E. apply filter_In. split; [exact Hs|].
    apply (overlaps_wider s a b (Some (umin_of ta)) (Some (umax_of tb))); [| |exact Ho].
    - destruct a as [m|]; [|exact I]. cbn [needs_min] in N1. cbn. apply (not_lt_le c ok).
      intros L. apply (ltb_lt c) in L. congruence.
    - destruct b as [m|]; [|exact I]. cbn [needs_max] in N2. cbn. apply (not_lt_le c ok).
      intros L. apply (ltb_lt c) in L. congruence.
  Qed.

  (* closure: a table of the level sharing a user key with a returned table is returned *)
  Lemma l0_result_closed tf umin umax d s t x y : l0_result tf umin umax d ->
    (forall t, In t tf -> tbl_ok c p t) ->
    In s tf -> In t d -> In x (t_entries s) -> In y (t_entries t) -> e_uk x = e_uk y -> In s d.
  Proof.
    intros [a [b [W1 [W2 [E F]]]]] Hok Hs Ht Hx Hy Hu.
    destruct (F t Ht) as [N1 N2].
    assert (Htf : In t tf) by (rewrite E in Ht; apply filter_In in Ht; apply Ht).
    destruct (tbl_bounds c ok p t y (Hok t Htf) Hy) as [B1 B2].
    rewrite E. apply filter_In. split; [exact Hs|].
    apply (overlaps_of_key c ok p s x a b (Hok s Hs) Hx). rewrite Hu. split.
    - destruct a as [m|]; [|exact I]. cbn [needs_min] in N1.
      eapply (OrderProofs.le_trans c ok); [|exact B1]. apply (not_lt_le c ok).
      intros L. apply (ltb_lt c) in L. congruence.
    - destruct b as [m|]; [|exact I]. cbn [needs_max] in N2.
      eapply (OrderProofs.le_trans c ok); [exact B2|]. apply (not_lt_le c ok).
      intros L. apply (ltb_lt c) in L. congruence.
  Qed.
End Level0.
