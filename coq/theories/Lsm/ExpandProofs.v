(* Lsm/ExpandProofs.v — what newCompaction/expand (model Lsm/Pick.v) chooses on a well-formed version:
   it terminates without panic, the source inputs contain the seed and are tables of the source level, the next-level
   inputs are exactly the tables of the next level overlapping a range that covers every source input, and for source
   level 0 the source inputs are closed under "shares a user key with". *)
From GL Require Import Base.Order Base.OrderProofs Codec.IKey Codec.IKeyProofs Lsm.Lsm Lsm.Compact Lsm.LsmProofs
  Lsm.WfProofs Lsm.Pick Lsm.PickBase Lsm.OverlapProofs Lsm.WfLsm.
From Coq Require Import Arith Lia.

Local Open Scope nat_scope.

Lemma nodup_firstn {A} k (l : list A) : NoDup l -> NoDup (firstn k l).
Proof. intros H. rewrite <- (firstn_skipn k l) in H. apply nodup_app_iff in H. apply H. Qed.

Lemma nodup_skipn {A} k (l : list A) : NoDup l -> NoDup (skipn k l).
Proof. intros H. rewrite <- (firstn_skipn k l) in H. apply nodup_app_iff in H. apply H. Qed.

Section Range.
  Variable c : comparer.
  Hypothesis ok : comparer_ok c.

  Notation lt := (Order.lt c).
  Notation le := (Order.le c).
  Notation umin_of := Pick.umin_of.
  Notation umax_of := Pick.umax_of.

  Lemma icmp_lt_uk a b : icmp c a b = Lt -> le (uk a) (uk b).
  Proof. unfold icmp, Order.le. destruct (cmp c (uk a) (uk b)); congruence. Qed.

  Lemma icmp_nlt_uk a b : icmp c a b <> Lt -> le (uk b) (uk a).
  Proof.
    intros H. apply (not_lt_le c ok). intros L. apply H. unfold icmp. unfold Order.lt in L. rewrite L. reflexivity.
  Qed.

  Lemma icmp_gt_uk a b : icmp c a b = Gt -> le (uk b) (uk a).
  Proof. intros H. apply icmp_nlt_uk. congruence. Qed.

  Lemma icmp_ngt_uk a b : icmp c a b <> Gt -> le (uk a) (uk b).
  Proof.
    intros H. unfold Order.le. intros G. apply H. unfold icmp. rewrite G. reflexivity.
  Qed.

  (* [r] covers the tables [tf]: every bound lies inside *)
  Definition covers (r : ikey * ikey) (tf : list table) : Prop :=
    forall t, In t tf -> le (uk (fst r)) (umin_of t) /\ le (umax_of t) (uk (snd r)).

  Lemma get_range_from_spec tf : forall imin imax,
    let r := get_range_from c imin imax tf in
    le (uk (fst r)) (uk imin) /\ le (uk imax) (uk (snd r)) /\ covers r tf.
  Proof.
    induction tf as [|t tf IH]; intros imin imax; cbn [get_range_from].
    - cbv zeta. cbn [fst snd]. split; [apply (OrderProofs.le_refl c ok)|]. split; [apply (OrderProofs.le_refl c ok)|intros t []].
    - cbv zeta.
      set (imin' := match icmp c (imin_of t) imin with Lt => imin_of t | _ => imin end).
      set (imax' := match icmp c (imax_of t) imax with Gt => imax_of t | _ => imax end).
      destruct (IH imin' imax') as [H1 [H2 H3]].
      assert (A1 : le (uk imin') (uk imin) /\ le (uk imin') (umin_of t)).
      { unfold imin'. destruct (icmp c (imin_of t) imin) eqn:E.
        - split; [apply (OrderProofs.le_refl c ok)|]. apply (icmp_nlt_uk (imin_of t) imin). congruence.
        - split; [apply (icmp_lt_uk _ _ E)|apply (OrderProofs.le_refl c ok)].
        - split; [apply (OrderProofs.le_refl c ok)|]. apply (icmp_nlt_uk (imin_of t) imin). congruence. }
      assert (A2 : le (uk imax) (uk imax') /\ le (umax_of t) (uk imax')).
      { unfold imax'. destruct (icmp c (imax_of t) imax) eqn:E.
        - split; [apply (OrderProofs.le_refl c ok)|]. apply (icmp_ngt_uk (imax_of t) imax). congruence.
        - split; [apply (OrderProofs.le_refl c ok)|]. apply (icmp_ngt_uk (imax_of t) imax). congruence.
        - split; [apply (icmp_gt_uk _ _ E)|apply (OrderProofs.le_refl c ok)]. }
      split; [eapply (OrderProofs.le_trans c ok); [exact H1|apply A1]|].
      split; [eapply (OrderProofs.le_trans c ok); [apply A2|exact H2]|].
      intros t' [<-|Ht']; [|apply H3; exact Ht'].
      split; [eapply (OrderProofs.le_trans c ok); [exact H1|apply A1]|eapply (OrderProofs.le_trans c ok); [apply A2|exact H2]].
  Qed.

  Lemma get_range_spec tf : tf <> [] -> exists r, get_range c tf = POk r /\ covers r tf.
  Proof.
    destruct tf as [|t tf]; [congruence|]. intros _. cbn [get_range].
    exists (get_range_from c (imin_of t) (imax_of t) tf). split; [reflexivity|].
    destruct (get_range_from_spec tf (imin_of t) (imax_of t)) as [H1 [H2 H3]].
    intros t' [<-|Ht']; [split; assumption|apply H3; exact Ht'].
  Qed.

  Lemma covers_incl r a b : covers r b -> incl a b -> covers r a.
  Proof. intros H I t Ht. apply H. apply I. exact Ht. Qed.

  Lemma covers_app r a b : covers r (a ++ b) -> covers r a /\ covers r b.
  Proof. intros H. split; intros t Ht; apply H; apply in_or_app; [left|right]; exact Ht. Qed.

  Variable p : kparams.

  Lemma overlaps_of_cover r t : tbl_ok c p t ->
    le (uk (fst r)) (umin_of t) -> le (umax_of t) (uk (snd r)) ->
    t_overlaps c t (Some (uk (fst r))) (Some (uk (snd r))) = true.
  Proof.
    intros Ht H1 H2. pose proof (tbl_valid c ok p t Ht) as V.
    unfold t_overlaps. apply andb_true_intro. split; apply Bool.negb_true_iff.
    - apply (t_after_false c ok). eapply (OrderProofs.le_trans c ok); eauto.
    - apply (t_before_false c ok). eapply (OrderProofs.le_trans c ok); eauto.
  Qed.

  (* a unified statement about both variants of getOverlaps *)
  Definition closed_in (tf d : list table) : Prop :=
    forall s t x y, In s tf -> In t d -> In x (t_entries s) -> In y (t_entries t) -> e_uk x = e_uk y -> In s d.

  Lemma hull_closed_in tf d : (forall t, In t tf -> tbl_ok c p t) -> incl d tf -> hull_closed c tf d -> closed_in tf d.
  Proof.
    intros Hok Hi H s t x y Hs Ht Hx Hy Hu. apply (H s t t Hs Ht Ht).
    apply (overlaps_of_key c ok p s x _ _ (Hok s Hs) Hx). rewrite Hu.
    apply (tbl_bounds c ok p t y (Hok t (Hi t Ht)) Hy).
  Qed.

  Lemma gov_spec tf a b flag : (forall t, In t tf -> tbl_ok c p t) -> (flag = false -> bsorted c tf) ->
    exists d, get_overlaps c tf a b flag = POk d /\ incl d tf /\
      (forall s, In s tf -> t_overlaps c s a b = true -> In s d) /\
      (flag = false -> forall s, In s d -> t_overlaps c s a b = true) /\
      (flag = true -> hull_closed c tf d) /\
      (NoDup tf -> NoDup d).
  Proof.
    intros Hok Hb. destruct flag.
    - destruct (get_overlaps_l0_spec c ok tf a b) as [d [E R]]. exists d. split; [exact E|].
      split; [eapply l0_result_incl; eauto|]. split; [intros s; eapply l0_result_seeds; eauto|].
      split; [discriminate|]. split; [intros _; eapply l0_result_hull; eauto|].
      intros N. destruct R as [a' [b' [_ [_ [-> _]]]]]. apply NoDup_filter. exact N.
    - exists (get_overlaps_sorted c tf a b). split.
      { unfold get_overlaps. destruct tf; reflexivity. }
      pose proof (get_overlaps_sorted_in c ok p tf Hok (Hb eq_refl) a b) as M.
      split; [intros s Hs; apply M in Hs; apply Hs|]. split; [intros s H1 H2; apply M; split; assumption|].
      split; [intros _ s Hs; apply M in Hs; apply Hs|]. split; [discriminate|].
      intros N. rewrite get_overlaps_sorted_unfold. destruct (Nat.leb _ _); [constructor|].
      apply nodup_firstn. apply nodup_skipn. exact N.
  Qed.
End Range.

Section Expand.
  Variable c : comparer.
  Hypothesis ok : comparer_ok c.
  Variable p : kparams.
  Variable sz : table -> N.

  Notation lt := (Order.lt c).
  Notation le := (Order.le c).
  Notation umin_of := Pick.umin_of.
  Notation umax_of := Pick.umax_of.

  Variable v : list (list table).
  Variable lvl : nat.
  Variable limit : N.
  Variable seed : list table.

  (* what the proof needs of the version: well-formed tables, levels >= 1 ordered and disjoint *)
  Hypothesis Hv : forall l t, In t (nth l v []) -> tbl_ok c p t.
  Hypothesis Hs : forall l, 0 < l -> level_sorted c (nth l v []).
  Hypothesis seed_ne : seed <> [].
  Hypothesis seed_in : incl seed (nth lvl v []).
  Hypothesis seed_nd : NoDup seed.
  Hypothesis Hnd : forall l, NoDup (nth l v []).

  Let vt0 := nth lvl v [].
  Let vt1 := nth (S lvl) v [].

  Lemma lvl_bsorted l flag : (flag = false -> 0 < l) -> flag = false -> bsorted c (nth l v []).
  Proof.
    intros H F. apply (level_sorted_bsorted c p); [apply Hv|apply Hs; apply H; exact F].
  Qed.

  (* the selected inputs of both levels together with the range used to query the next level *)
  Definition sel_ok (f0 f1 : list table) (fr : ikey * ikey) : Prop :=
    incl seed f0 /\ incl f0 vt0 /\ covers c fr f0 /\ (lvl = 0 -> hull_closed c vt0 f0) /\ NoDup f0 /\ NoDup f1 /\
    (forall s, In s f1 <-> In s vt1 /\ t_overlaps c s (Some (uk (fst fr))) (Some (uk (snd fr))) = true).

  Definition pick_ok (cm : compaction) : Prop :=
    c_level cm = lvl /\ exists fr, sel_ok (c_t0 cm) (c_t1 cm) fr.

  Lemma flag_lvl : (Nat.eqb lvl 0 = false -> 0 < lvl).
  Proof. intros H. apply Nat.eqb_neq in H. lia. Qed.

  Lemma next_level_query (f0 : list table) (fr : ikey * ikey) :
    exists t1, get_overlaps c vt1 (Some (uk (fst fr))) (Some (uk (snd fr))) false = POk t1 /\
      NoDup t1 /\
      (forall s, In s t1 <-> In s vt1 /\ t_overlaps c s (Some (uk (fst fr))) (Some (uk (snd fr))) = true).
  Proof.
    destruct (gov_spec c ok p vt1 (Some (uk (fst fr))) (Some (uk (snd fr))) false (Hv (S lvl))
                (lvl_bsorted (S lvl) false ltac:(lia))) as [t1 [E [I1 [I2 [I3 [_ I5]]]]]].
    exists t1. split; [exact E|]. split; [apply I5; apply Hnd|]. intros s. split.
    - intros H. split; [apply I1; exact H|apply I3; [reflexivity|exact H]].
    - intros [H1 H2]. apply I2; assumption.
  Qed.

  Theorem expand_spec : exists cm, expand c sz v lvl limit seed = POk cm /\ pick_ok cm.
  Proof.
    unfold expand. fold vt0 vt1.
    destruct (get_range_spec c ok seed seed_ne) as [r0 [E0 C0]]. rewrite E0. cbn [pbind].
    (* stage 1: the level-0 closure of the seed *)
    assert (S1 : exists t0 rr,
      (if Nat.eqb lvl 0
       then pdo t0' <- get_overlaps c vt0 (Some (uk (fst r0))) (Some (uk (snd r0))) true;
            if Nat.eqb (length t0') (length seed) then POk (t0', r0)
            else pdo r0' <- get_range c t0'; POk (t0', r0')
       else POk (seed, r0)) = POk (t0, rr) /\
      incl seed t0 /\ incl t0 vt0 /\ covers c rr t0 /\ (lvl = 0 -> hull_closed c vt0 t0) /\ NoDup t0).
    { destruct (Nat.eqb lvl 0) eqn:L0.
      - destruct (gov_spec c ok p vt0 (Some (uk (fst r0))) (Some (uk (snd r0))) true (Hv lvl) ltac:(discriminate))
          as [t0' [E [I1 [I2 [_ [I4 I5]]]]]].
        rewrite E. cbn [pbind]. specialize (I5 (Hnd lvl)).
        assert (Sd : incl seed t0').
        { intros t Ht. apply I2; [apply seed_in; exact Ht|].
          destruct (C0 t Ht) as [A B]. apply (overlaps_of_cover c ok p r0 t); [apply (Hv lvl); apply seed_in; exact Ht| |]; assumption. }
        destruct (Nat.eqb (length t0') (length seed)) eqn:LE.
        + apply Nat.eqb_eq in LE. exists t0', r0. split; [reflexivity|]. split; [exact Sd|]. split; [exact I1|].
          split; [|split; [intros _; apply I4; reflexivity|exact I5]].
          apply (covers_incl c r0 t0' seed C0). apply (NoDup_length_incl seed_nd); [lia|exact Sd].
        + assert (Hne : t0' <> []).
          { destruct seed as [|s0 sd]; [congruence|]. intros ->. apply (Sd s0). left; reflexivity. }
          destruct (get_range_spec c ok t0' Hne) as [r0' [E1 C1]]. rewrite E1. cbn [pbind].
          exists t0', r0'. split; [reflexivity|]. split; [exact Sd|]. split; [exact I1|].
          split; [exact C1|split; [intros _; apply I4; reflexivity|exact I5]].
      - exists seed, r0. split; [reflexivity|]. split; [apply incl_refl|]. split; [exact seed_in|].
        split; [exact C0|]. split; [intros ->; discriminate|exact seed_nd]. }
    destruct S1 as [t0 [rr [E1 [Sd [In0 [Cv [Cl Nd0]]]]]]]. rewrite E1. cbn [pbind fst snd].
    assert (t0_ne : t0 <> []).
    { destruct seed as [|s0 sd]; [congruence|]. intros ->. apply (Sd s0). left; reflexivity. }
    (* stage 2: the next-level inputs *)
    destruct (next_level_query t0 rr) as [t1 [E2 [Nd1 M1]]].
    replace (fst (snd (t0, rr))) with (fst rr) by reflexivity.
    replace (snd (snd (t0, rr))) with (snd rr) by reflexivity.
    rewrite E2. cbn [pbind].
    assert (a_ne : t0 ++ t1 <> []) by (destruct t0; [congruence|discriminate]).
    destruct (get_range_spec c ok (t0 ++ t1) a_ne) as [a0 [E3 C3]]. rewrite E3. cbn [pbind].
    (* stage 3: the attempt to grow the source inputs *)
    assert (S3 : exists f0 f1 fr aa,
      (match t1 with
       | [] => POk (t0, t1, (fst rr, snd rr), a0)
       | _ =>
         pdo exp0 <- get_overlaps c vt0 (Some (uk (fst a0))) (Some (uk (snd a0))) (Nat.eqb lvl 0);
         if Nat.ltb (length t0) (length exp0) && (total_size sz t1 + total_size sz exp0 <? limit)%N then
           pdo x <- get_range c exp0;
           pdo exp1 <- get_overlaps c vt1 (Some (uk (fst x))) (Some (uk (snd x))) false;
           if Nat.eqb (length exp1) (length t1) then
             pdo a1 <- get_range c (exp0 ++ exp1);
             POk (exp0, exp1, x, a1)
           else POk (t0, t1, (fst rr, snd rr), a0)
         else POk (t0, t1, (fst rr, snd rr), a0)
       end) = POk (f0, f1, fr, aa) /\ sel_ok f0 f1 fr).
    { assert (Keep : sel_ok t0 t1 (fst rr, snd rr)).
      { destruct rr as [r1 r2]. cbn [fst snd] in *. unfold sel_ok. cbn [fst snd].
        split; [exact Sd|]. split; [exact In0|]. split; [exact Cv|]. split; [exact Cl|].
        split; [exact Nd0|]. split; [exact Nd1|exact M1]. }
      destruct t1 as [|u1 t1'] eqn:Et1; [exists t0, [], (fst rr, snd rr), a0; split; [reflexivity|exact Keep]|].
      rewrite <- Et1 in *. clear Et1.
      destruct (gov_spec c ok p vt0 (Some (uk (fst a0))) (Some (uk (snd a0))) (Nat.eqb lvl 0) (Hv lvl)
                  (lvl_bsorted lvl (Nat.eqb lvl 0) flag_lvl)) as [exp0 [E [I1 [I2 [_ [I4 I5]]]]]].
      rewrite E. cbn [pbind]. specialize (I5 (Hnd lvl)).
      destruct (Nat.ltb (length t0) (length exp0) && (total_size sz t1 + total_size sz exp0 <? limit)%N) eqn:Cond;
        [|exists t0, t1, (fst rr, snd rr), a0; split; [reflexivity|exact Keep]].
      apply andb_prop in Cond as [Len _]. apply Nat.ltb_lt in Len.
      assert (e_ne : exp0 <> []) by (intros ->; cbn in Len; lia).
      destruct (get_range_spec c ok exp0 e_ne) as [x [E4 C4]]. rewrite E4. cbn [pbind].
      destruct (next_level_query exp0 x) as [exp1 [E5 [Nd2 M2]]]. rewrite E5. cbn [pbind].
      destruct (Nat.eqb (length exp1) (length t1));
        [|exists t0, t1, (fst rr, snd rr), a0; split; [reflexivity|exact Keep]].
      assert (x_ne : exp0 ++ exp1 <> []) by (destruct exp0; [congruence|discriminate]).
      destruct (get_range_spec c ok (exp0 ++ exp1) x_ne) as [a1 [E6 _]]. rewrite E6. cbn [pbind].
      exists exp0, exp1, x, a1. split; [reflexivity|].
      unfold sel_ok. split; [|split; [exact I1|split; [exact C4|split; [|split; [exact I5|split; [exact Nd2|exact M2]]]]]].
      - intros t Ht. apply Sd in Ht. apply I2; [apply In0; exact Ht|].
        destruct (covers_app c a0 t0 t1 C3) as [Ca _]. destruct (Ca t Ht) as [A B].
        apply (overlaps_of_cover c ok p a0 t); [apply (Hv lvl); apply In0; exact Ht| |]; assumption.
      - intros L0. apply I4. rewrite L0. reflexivity. }
    destruct S3 as [f0 [f1 [[fmin fmax] [[amin amax] [E7 Sel]]]]]. rewrite E7. cbn [pbind].
    (* stage 4: grandparents *)
    assert (S4 : exists gp, (if Nat.ltb (lvl + 2) (length v)
                             then get_overlaps c (nth (lvl + 2) v []) (Some (uk amin)) (Some (uk amax)) false
                             else POk []) = POk gp).
    { destruct (Nat.ltb (lvl + 2) (length v)); [|exists []; reflexivity].
      destruct (gov_spec c ok p (nth (lvl + 2) v []) (Some (uk amin)) (Some (uk amax)) false (Hv (lvl + 2))
                  (lvl_bsorted (lvl + 2) false ltac:(lia))) as [gp [E _]].
      exists gp. exact E. }
    destruct S4 as [gp E8]. rewrite E8. cbn [pbind].
    eexists. split; [reflexivity|]. split; [reflexivity|]. cbn [c_t0 c_t1]. exists (fmin, fmax). exact Sel.
  Qed.
End Expand.
