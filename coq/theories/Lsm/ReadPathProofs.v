(* Lsm/ReadPathProofs.v — the composition: DB.Get computed on BYTES (Lsm/ReadPath.v: memdb arrays, table
   files read through the filter and the index block) equals the L1 model's read (Lsm/Lsm.v lsm_get) on the
   abstraction of the state, hence (LsmProofs.get_correct) returns the newest visible write.
   Layers used as lemmas, not re-proved: C15 (Codec/IKeyProofs.v: order laws, encoding), C14 (Mem/MemOps.v
   find_ok under Mem/MemInv.v Inv), C13 (Codec/TableProofs.v under table_wf, TableCheckProofs.v
   table_wfb_sound), C06's sort.Search lemma (Lsm/PickBase.v sort_search_spec), C01 (LsmProofs.v). *)
From GL Require Import Base.Bytes Base.BytesProofs Base.Order Base.OrderProofs Codec.IKey Codec.IKeyProofs
  Codec.Table Codec.TableProofs Codec.TableCheck Lsm.Lsm Lsm.Compact Lsm.LsmProofs Lsm.WfProofs Lsm.Pick Lsm.PickBase
  Lsm.ReadPath Lsm.ReadPathKey Lsm.ReadPathMem Lsm.ReadPathTable Lsm.History Lsm.HistoryProofs.
From GL Require Mem.MemDB.
From Coq Require Import Arith Lia.
Open Scope N_scope.

(* ------------------------------------------------------------------ sort.Search on a list = first hit *)
Lemma find_at {A} (g : A -> bool) (d : A) : forall (l : list A) (i : nat),
  (forall a, (a < i)%nat -> g (nth a l d) = false) ->
  ((i < length l)%nat -> g (nth i l d) = true) -> (i <= length l)%nat ->
  find g l = if Nat.ltb i (length l) then Some (nth i l d) else None.
Proof.
  induction l as [|x l IH]; intros i H1 H2 H3.
  - cbn in H3. assert (i = 0%nat) by lia. subst. reflexivity.
  - destruct i as [|i].
    + pose proof (H2 ltac:(cbn; lia)) as G. cbn [nth] in G. cbn [find nth length]. rewrite G. reflexivity.
    + pose proof (H1 0%nat ltac:(lia)) as G. cbn [nth] in G. cbn [find]. rewrite G. cbn [nth length].
      rewrite (IH i).
      * destruct (Nat.ltb i (length l)) eqn:E; destruct (Nat.ltb (S i) (S (length l))) eqn:E2; try reflexivity;
          apply Nat.ltb_lt in E || apply Nat.ltb_ge in E; apply Nat.ltb_lt in E2 || apply Nat.ltb_ge in E2; lia.
      * intros a Ha. apply (H1 (S a)). lia.
      * intros Hi. apply H2. cbn [length]. lia.
      * cbn [length] in H3. lia.
Qed.

Lemma sort_search_find {A} (g : A -> bool) (d : A) (l : list A) :
  monotone (fun i => g (nth i l d)) 0 (length l) ->
  find g l = if Nat.ltb (sort_search (length l) (fun i => g (nth i l d))) (length l)
             then Some (nth (sort_search (length l) (fun i => g (nth i l d))) l d) else None.
Proof.
  intros Hm. destruct (sort_search_spec (length l) _ Hm) as [K1 [K2 K3]].
  apply find_at; [exact K2 | intros Hi; apply K3; [lia|exact Hi] | exact K1].
Qed.

Lemma last_cons_dflt {A} (r : list A) : forall (x d : A), last (x :: r) d = last r x.
Proof.
  induction r as [|y r IH]; intros x d; [reflexivity|].
  change (last (x :: y :: r) d) with (last (y :: r) d). rewrite (IH y d), (IH y x). reflexivity.
Qed.

Lemma in_last {A} (r : list A) (x : A) : In (last r x) (x :: r).
Proof.
  revert x. induction r as [|y r IH]; intros x; [left; reflexivity|].
  right. rewrite (last_cons_dflt r y x). apply IH.
Qed.

Lemma last_map_ne {A B} (h : A -> B) (r : list A) : forall (x : A) (d : B), last (map h (x :: r)) d = h (last r x).
Proof.
  induction r as [|y r IH]; intros x d; [reflexivity|].
  change (map h (x :: y :: r)) with (h x :: map h (y :: r)).
  change (last (h x :: map h (y :: r)) d) with (last (map h (y :: r)) d).
  rewrite (IH y d). f_equal. symmetry. apply last_cons_dflt.
Qed.

Lemma last_map_some {A B} (g : A -> B) (x : A) (r : list A) :
  last (map Some (map g (x :: r))) None = Some (g (last r x)).
Proof. rewrite map_map. apply (last_map_ne (fun a => Some (g a))). Qed.

(* ------------------------------------------------------------------ the boolean certificate of wf_state *)
Section WfFull.
  Variable c : comparer.
  Hypothesis ok : comparer_ok c.
  Variable p : kparams.
  Hypothesis pok : kparams_ok p.

  Theorem wf_fullb_sound st : wf_fullb c p st = true -> wf_state c p st.
  Proof.
    unfold wf_fullb. intros H.
    apply andb_prop in H as [H Hfz]. apply andb_prop in H as [H Hmem]. apply andb_prop in H as [H Hv].
    apply andb_prop in H as [H Hfk]. apply andb_prop in H as [H Hfs]. apply andb_prop in H as [H Hmk].
    apply andb_prop in H as [Haux Hms].
    destruct st as [mem frozen aux lvls]. cbn [st_mem st_frozen st_aux st_levels] in *.
    destruct aux; [|discriminate].
    pose proof (wf_versionb_sound c ok p lvls Hv) as [_ _ Wa W0 Wd Wc].
    cbn [st_mem st_frozen st_aux st_levels] in *.
    constructor; cbn [st_mem st_frozen st_aux st_levels].
    - split; [apply (sortedb_ssorted c ok); exact Hms | apply kindsb_ok; exact Hmk].
    - split; [apply (sortedb_ssorted c ok); exact Hfs | apply kindsb_ok; exact Hfk].
    - exact Wa.
    - exact W0.
    - exact Wd.
    - unfold comps in *. cbn [st_mem st_frozen st_aux st_levels chain_newer] in *.
      destruct Wc as (_ & _ & W3 & W4).
      cbn [forallb] in Hmem. apply andb_prop in Hmem as [Hmf Hml].
      assert (E : forall x, newer_thanP x []) by (intros x a b _ []).
      split; [|split; [|split; [exact W3|exact W4]]].
      + constructor; [apply (newer_than_P c ok); exact Hmf|]. constructor; [apply E|].
        rewrite Forall_forall. intros y Hy. apply in_map_iff in Hy as (l & <- & Hl).
        apply (newer_than_P c ok). rewrite forallb_forall in Hml. apply Hml. apply in_map. exact Hl.
      + constructor; [apply E|].
        rewrite Forall_forall. intros y Hy. apply in_map_iff in Hy as (l & <- & Hl).
        apply (newer_than_P c ok). rewrite forallb_forall in Hfz. apply Hfz. apply in_map. exact Hl.
  Qed.
End WfFull.

Section Compose.
  Variable c : comparer.
  Hypothesis ok : comparer_ok c.
  Variable p : kparams.
  Hypothesis pok : kparams_ok p.
  Hypothesis seek_val : keyTypeSeek p <= keyTypeVal p.
  Variable mp : MemDB.mparams.
  Hypothesis mpok : MemDB.mparams_ok mp.
  Variable tp : tparams.
  Variable crc : bytes -> N.
  Variable decompress : bytes -> option bytes.
  Variable fname : option bytes.
  Variable ufc : bytes -> N -> bytes -> bool.
  Variable verify : bool.
  Variable ri : N.

  Local Notation icc := (ibc c).
  Local Notation okb := (tfile_okb c p tp crc decompress fname ufc verify ri).
  Local Notation pairs := (tf_pairs c tp crc decompress fname ufc verify ri).
  Local Notation atab := (abs_table c tp crc decompress fname ufc verify ri).
  Local Notation absS := (abs c mp tp crc decompress fname ufc verify ri).
  Local Notation facts := (tf_facts c p tp crc decompress fname ufc verify ri).

  (* the well-formedness the refinement is stated over: memdbs satisfy C14's invariant and hold stored keys
     only; every table file passes the format check (C13's table_check plus decodable keys, the recorded
     bounds and the filter condition); the abstraction is a well-formed L1 layout *)
  Record wf_bstate (st : bstate) : Prop := {
    wb_mem : forall d, bs_mem st = Some d -> mem_ok c p mp d;
    wb_frozen : forall d, bs_frozen st = Some d -> mem_ok c p mp d;
    wb_tables : Forall (Forall (fun f => okb f = true)) (bs_levels st);
    wb_abs : wf_state c p (absS st)
  }.

  Section Probe.
    Variables (k : bytes) (s : N).
    Hypothesis Wk : wf_bytes k.
    Hypothesis Hs : s <= keyMaxSeq p.

    Local Notation q := (probe p k s).
    Local Notation key := (encode_ikey (probe p k s)).

    Lemma key_dec : ik_dec key = Some q.
    Proof.
      apply ik_dec_encode; [exact Wk|]. unfold probe, pack. cbn [num].
      destruct pok as (_ & _ & _ & H256 & Hmax & _). rewrite Hmax in Hs.
      change (2 ^ 64) with (2 ^ 56 * 256). change (2 ^ 56) with 72057594037927936 in *. nia.
    Qed.

    (* ---- bounds of an accepted file ---- *)
    Lemma file_bounds f : okb f = true ->
      exists kv r amin amax,
        pairs f = kv :: r /\
        ik_dec (tf_imin f) = Some amin /\ ik_dec (tf_imax f) = Some amax /\
        e_ikey (entry_of kv) = amin /\ e_ikey (entry_of (last r kv)) = amax /\
        t_first (atab f) = Some (entry_of kv) /\ t_last (atab f) = Some (entry_of (last r kv)).
    Proof.
      intros Hf. destruct (okb_facts c p tp crc decompress fname ufc verify ri f Hf) as (bl & se & hs & F).
      destruct (tff_bounds _ _ _ _ _ _ _ _ _ _ _ _ _ F) as (kv & r & E & Emin & Emax).
      pose proof (tff_keys _ _ _ _ _ _ _ _ _ _ _ _ _ F) as Hk. rewrite E in Hk. unfold keys_ok in Hk. rewrite Forall_forall in Hk.
      assert (H1 : In kv (kv :: r)) by (left; reflexivity).
      assert (H2 : In (last r kv) (kv :: r)) by apply in_last.
      destruct (key_okb_dec p _ (Hk _ H1)) as (amin & Dmin & _).
      destruct (key_okb_dec p _ (Hk _ H2)) as (amax & Dmax & _).
      exists kv, r, amin, amax.
      rewrite (tff_pairs _ _ _ _ _ _ _ _ _ _ _ _ _ F), E. rewrite Emin, Emax.
      repeat split; try assumption.
      - apply e_ikey_entry_of. exact Dmin.
      - apply e_ikey_entry_of. exact Dmax.
      - unfold t_first, abs_table. cbn [t_entries]. rewrite (tff_pairs _ _ _ _ _ _ _ _ _ _ _ _ _ F), E. reflexivity.
      - unfold t_last, abs_table. cbn [t_entries]. rewrite (tff_pairs _ _ _ _ _ _ _ _ _ _ _ _ _ F), E. apply last_map_some.
    Qed.

    Lemma e_uk_ikey e : uk (e_ikey e) = e_uk e.
    Proof. reflexivity. Qed.

    (* tFile.overlaps(ukey, ukey) = t_covers of the L1 model *)
    Lemma overlaps_covers f : okb f = true ->
      tf_overlaps c f k = Some (t_covers c (atab f) k).
    Proof.
      intros Hf. destruct (file_bounds f Hf) as (kv & r & amin & amax & _ & Dmin & Dmax & Emin & Emax & Ef & El).
      unfold tf_overlaps, tf_after, tf_before, t_covers. rewrite Ef, El.
      rewrite (ik_dec_ukey _ _ Dmin), (ik_dec_ukey _ _ Dmax).
      rewrite <- Emin, <- Emax, !e_uk_ikey. unfold Order.leb.
      rewrite (cmp_opp c ok k (e_uk (entry_of kv))).
      destruct (cmp c k (e_uk (entry_of (last r kv)))); destruct (cmp c k (e_uk (entry_of kv))); reflexivity.
    Qed.

    (* ---- level 0 ---- *)
    Local Notation wl0 := (walk_l0 c p tp crc decompress fname ufc verify).

    Lemma walk_l0_group ts : Forall (fun f => okb f = true) ts -> forall ze,
      wl0 ts key k (option_map zproj ze) = FCont (option_map zproj (group_get c p (map atab ts) k s ze)).
    Proof.
      induction ts as [|t ts IH]; intros Hok ze; [reflexivity|].
      inversion Hok as [|? ? Ht Hok']; subst. cbn [walk_l0 map group_get].
      rewrite (overlaps_covers t Ht).
      destruct (t_covers c (atab t) k); [|apply IH; exact Hok'].
      destruct (okb_facts c p tp crc decompress fname ufc verify ri t Ht) as (bl & se & hs & F).
      rewrite (get_in_table_l0 c ok p pok seek_val tp crc decompress fname ufc verify ri t bl se hs F k s Wk Hs ze).
      apply IH. exact Hok'.
    Qed.

    (* ---- deeper levels ---- *)
    Local Notation gpred := (fun f : tfile => match cmp icc (tf_imax f) key with Lt => false | _ => true end).

    Lemma search_max_find ts : Forall (fun f => okb f = true) ts ->
      search_max c (map atab ts) q = option_map atab (find gpred ts).
    Proof.
      induction ts as [|t ts IH]; intros Hok; [reflexivity|].
      inversion Hok as [|? ? Ht Hok']; subst. cbn [map search_max find].
      destruct (file_bounds t Ht) as (kv & r & amin & amax & _ & Dmin & Dmax & Emin & Emax & Ef & El).
      rewrite El, Emax, (ibc_dec c _ _ _ _ Dmax key_dec).
      destruct (icmp c amax q); try reflexivity. apply IH. exact Hok'.
    Qed.

    Lemma level_sorted_nth (l : list table) : level_sorted c l -> forall a b x y, (a < b)%nat -> (b < length l)%nat ->
      In x (t_entries (nth a l no_table)) -> In y (t_entries (nth b l no_table)) -> cmp c (e_uk x) (e_uk y) = Lt.
    Proof.
      induction l as [|t l IH]; intros Hls a b x y Hab Hb Hx Hy; [cbn in Hb; lia|].
      destruct Hls as [Hsep Hls]. destruct b as [|b]; [lia|]. cbn [nth] in Hy. cbn [length] in Hb.
      destruct a as [|a].
      - cbn [nth] in Hx. rewrite Forall_forall in Hsep. apply (Hsep (nth b l no_table)); [apply nth_In; lia|exact Hx|exact Hy].
      - cbn [nth] in Hx. apply (IH Hls a b x y); try assumption; lia.
    Qed.

    Lemma gpred_monotone ts : Forall (fun f => okb f = true) ts -> level_sorted c (map atab ts) ->
      monotone (fun i => gpred (nth i ts no_tfile)) 0 (length ts).
    Proof.
      intros Hok Hls a b _ Hab Hb Ha.
      destruct (Nat.eq_dec a b) as [->|Hne]; [exact Ha|].
      rewrite Forall_forall in Hok.
      assert (Hta : okb (nth a ts no_tfile) = true) by (apply Hok; apply nth_In; lia).
      assert (Htb : okb (nth b ts no_tfile) = true) by (apply Hok; apply nth_In; lia).
      destruct (file_bounds _ Hta) as (kva & ra & amina & amaxa & Epa & _ & Dmaxa & _ & Emaxa & _ & _).
      destruct (file_bounds _ Htb) as (kvb & rb & aminb & amaxb & Epb & _ & Dmaxb & _ & Emaxb & _ & _).
      rewrite (ibc_dec c _ _ _ _ Dmaxa key_dec) in Ha. rewrite (ibc_dec c _ _ _ _ Dmaxb key_dec).
      assert (L : icmp c amaxa amaxb = Lt).
      { apply (icmp_ukey_lt c). rewrite <- Emaxa, <- Emaxb, !e_uk_ikey.
        apply (level_sorted_nth (map atab ts) Hls a b); [lia | rewrite map_length; exact Hb | |].
        - rewrite (nth_indep _ no_table (atab no_tfile)) by (rewrite map_length; lia). rewrite map_nth.
          unfold abs_table. cbn [t_entries]. rewrite Epa. apply in_map. apply in_last.
        - rewrite (nth_indep _ no_table (atab no_tfile)) by (rewrite map_length; lia). rewrite map_nth.
          unfold abs_table. cbn [t_entries]. rewrite Epb. apply in_map. apply in_last. }
      destruct (icmp c amaxb q) eqn:E; try reflexivity. exfalso.
      (* amaxa < amaxb < q contradicts amaxa >= q *)
      pose proof (icmp_trans c ok _ _ _ L E) as T. rewrite T in Ha. discriminate.
    Qed.

    Local Notation wdeep := (walk_deep c p tp crc decompress fname ufc verify).

    Lemma walk_deep_level ts z : Forall (fun f => okb f = true) ts -> level_sorted c (map atab ts) ->
      wdeep ts key k z =
      match level_get c p (map atab ts) k s with
      | GMiss => FCont z
      | r => FStop (BRes r)
      end.
    Proof.
      intros Hok Hls. unfold walk_deep, tf_search_max, level_get, ReadPath.ic.
      rewrite (search_max_find ts Hok).
      rewrite (sort_search_find gpred no_tfile ts (gpred_monotone ts Hok Hls)).
      set (i := sort_search (length ts) (fun i => gpred (nth i ts no_tfile))).
      destruct (Nat.ltb i (length ts)) eqn:Ei; cbn [option_map]; [|reflexivity].
      apply Nat.ltb_lt in Ei. rewrite Forall_forall in Hok.
      assert (Ht : okb (nth i ts no_tfile) = true) by (apply Hok; apply nth_In; exact Ei).
      destruct (file_bounds _ Ht) as (kv & r & amin & amax & _ & Dmin & _ & Emin & _ & Ef & _).
      rewrite Ef, (ik_dec_ukey _ _ Dmin), <- Emin, e_uk_ikey. unfold Order.leb.
      rewrite (cmp_opp c ok k (e_uk (entry_of kv))).
      destruct (okb_facts c p tp crc decompress fname ufc verify ri _ Ht) as (bl & se & hs & F).
      pose proof (get_in_table_deep c ok p pok seek_val tp crc decompress fname ufc verify ri _ bl se hs F k s Wk Hs z) as G.
      destruct (cmp c k (e_uk (entry_of kv))); cbn [CompOpp]; try exact G. reflexivity.
    Qed.

    (* entries that group_get can return *)
    Lemma find_ge_in qq l e : find_ge c qq l = Some e -> In e l.
    Proof.
      induction l as [|y l IH]; cbn [find_ge]; [discriminate|].
      destruct (icmp c (e_ikey y) qq); intros H; try (injection H as <-; left; reflexivity). right. apply IH. exact H.
    Qed.

    Lemma group_get_in ts : forall z e, group_get c p ts k s z = Some e ->
      z = Some e \/ exists t, In t ts /\ In e (t_entries t).
    Proof.
      induction ts as [|t ts IH]; intros z e; cbn [group_get]; [auto|].
      intros H. apply IH in H as [H|(t' & Ht' & He)]; [|right; exists t'; split; [right|]; assumption].
      destruct (t_covers c t k); [|left; exact H].
      destruct (find_ge c q (t_entries t)) as [e'|] eqn:Eg; [|left; exact H].
      destruct (cmp c (e_uk e') k); try (left; exact H).
      assert (Hin : exists t0, In t0 (t :: ts) /\ In e' (t_entries t0))
        by (exists t; split; [left; reflexivity|eapply find_ge_in; eauto]).
      destruct z as [ze|].
      - destruct (e_seq ze <=? e_seq e'); [|left; exact H]. injection H as <-. right. exact Hin.
      - injection H as <-. right. exact Hin.
    Qed.

    Lemma kt_result_entry f e : okb f = true -> In e (t_entries (atab f)) ->
      kt_result p (e_kind e) (e_val e) = BRes (res_of p e).
    Proof.
      intros Hf He. destruct (okb_facts c p tp crc decompress fname ufc verify ri f Hf) as (bl & se & hs & F).
      apply (kt_result_res c p pok tp crc decompress fname ufc verify ri f bl se hs F). exact He.
    Qed.

    (* ---- version.get ---- *)
    Local Notation wlev := (walk_levels c p tp crc decompress fname ufc verify).

    Lemma walk_levels_deep rest : Forall (Forall (fun f => okb f = true)) rest ->
      Forall (level_ok c p) (map (map atab) rest) -> forall n,
      wlev (S n) rest key k None = BRes (deep_get c p (map (map atab) rest) k s).
    Proof.
      induction rest as [|ts rest IH]; intros Hok Hlv n; [reflexivity|].
      inversion Hok as [|? ? Hts Hok']; subst. cbn [map] in Hlv. inversion Hlv as [|? ? [_ Hls] Hlv']; subst.
      cbn [walk_levels map deep_get].
      destruct ts as [|t ts'].
      - cbn [map]. unfold level_get. cbn [search_max]. apply IH; assumption.
      - rewrite (walk_deep_level (t :: ts') None Hts Hls).
        destruct (level_get c p (map atab (t :: ts')) k s); try reflexivity.
        cbn [lf_check]. apply IH; assumption.
    Qed.

    Lemma version_get_refines lvls : Forall (Forall (fun f => okb f = true)) lvls ->
      Forall (level_ok c p) (tl (map (map atab) lvls)) ->
      version_get_bytes c p tp crc decompress fname ufc verify lvls key k =
      BRes (version_get c p [] (map (map atab) lvls) k s).
    Proof.
      intros Hok Hlv. unfold version_get_bytes, version_get. cbn [group_get group_res].
      destruct lvls as [|l0 rest]; [reflexivity|].
      inversion Hok as [|? ? H0 Hok']; subst. cbn [map tl] in Hlv. cbn [walk_levels map].
      destruct l0 as [|t l0'].
      - cbn [map group_get group_res]. apply walk_levels_deep; assumption.
      - pose proof (walk_l0_group (t :: l0') H0 None) as W. cbn [option_map] in W. rewrite W.
        destruct (group_get c p (map atab (t :: l0')) k s None) as [e|] eqn:Eg; cbn [option_map lf_check group_res].
        + apply group_get_in in Eg as [Eg|(t0 & Ht0 & He)]; [discriminate|].
          apply in_map_iff in Ht0 as (f0 & <- & Hf0). rewrite Forall_forall in H0.
          unfold zproj. cbn [fst snd]. rewrite (kt_result_entry f0 e (H0 _ Hf0) He).
          pose proof (res_nonmiss p e). destruct (res_of p e); congruence.
        + apply walk_levels_deep; assumption.
    Qed.

    (* ---- DB.get ---- *)
    Lemma mem_get_opt_comp d : (forall m, d = Some m -> mem_ok c p mp m) ->
      mem_get_opt c p mp d key k =
      match comp_get c p (mem_entries mp d) k s with
      | GMiss => None
      | r => Some (BRes r)
      end.
    Proof.
      intros H. destruct d as [m|]; cbn [mem_get_opt mem_entries]; [|reflexivity].
      apply (mem_get_comp c ok p pok seek_val mp mpok m k s (H m eq_refl) Wk Hs).
    Qed.

    Theorem read_path_refines st : wf_bstate st ->
      db_get_bytes c p mp tp crc decompress fname ufc verify st k s = BRes (lsm_get c p (absS st) k s).
    Proof.
      intros [Hm Hf Ht Ha]. unfold db_get_bytes.
      assert (MK : make_ikey p k s (keyTypeSeek p) = MkOk q).
      { unfold make_ikey. replace (keyMaxSeq p <? s) with false by (symmetry; apply N.ltb_ge; exact Hs).
        replace (keyTypeVal p <? keyTypeSeek p) with false by (symmetry; apply N.ltb_ge; exact seek_val). reflexivity. }
      rewrite MK, (ik_dec_ukey _ _ key_dec). cbn [uk probe].
      unfold lsm_get, abs. cbn [st_mem st_frozen st_aux st_levels].
      rewrite (mem_get_opt_comp _ Hm).
      destruct (comp_get c p (mem_entries mp (bs_mem st)) k s); try reflexivity.
      rewrite (mem_get_opt_comp _ Hf).
      destruct (comp_get c p (mem_entries mp (bs_frozen st)) k s); try reflexivity.
      apply version_get_refines; [exact Ht|].
      pose proof (wf_deep c p _ Ha) as Hd. unfold abs in Hd. cbn [st_levels] in Hd. exact Hd.
    Qed.

    (* ... hence the byte-level read returns the newest visible write, wherever it is stored; the filter
       (ufc, fname) does not occur on the right-hand side *)
    Theorem get_correct_bytes st : wf_bstate st ->
      db_get_bytes c p mp tp crc decompress fname ufc verify st k s =
      BRes (group_res p (newest c k s (all_entries (absS st)) None)).
    Proof.
      intros H. rewrite (read_path_refines st H). f_equal. apply (get_correct c ok p pok). apply (wb_abs st H).
    Qed.
  End Probe.

  (* ... and against the plain map: if the buffers and table files hold exactly the stored collection of an
     admissible history (writes, snapshots, admissible reorganisations), a read at the history's current
     sequence number, computed on the bytes, is the plain map's answer; at any protected sequence number it
     is the answer judged on everything ever written *)
  Theorem get_is_map_bytes st ops k : wf_bstate st -> wf_bytes k ->
    hops_ok c p h_init ops -> h_store (hrun ops) = all_entries (absS st) -> h_seq (hrun ops) <= keyMaxSeq p ->
    bapi (db_get_bytes c p mp tp crc decompress fname ufc verify st k (h_seq (hrun ops))) =
    Some (a_get c k (map_of c p ops)).
  Proof.
    intros W Wk Hok Hst Hs. rewrite (get_correct_bytes k _ Wk Hs st W). cbn [bapi]. f_equal.
    rewrite <- (get_is_map c ok p ops k Hok). unfold store_get, History.res. rewrite Hst. reflexivity.
  Qed.

  Theorem history_correct_bytes st ops k s : wf_bstate st -> wf_bytes k ->
    hops_ok c p h_init ops -> h_store (hrun ops) = all_entries (absS st) -> protected (hrun ops) s -> s <= keyMaxSeq p ->
    bapi (db_get_bytes c p mp tp crc decompress fname ufc verify st k s) = Some (hist_get c p (hrun ops) k s).
  Proof.
    intros W Wk Hok Hst Hp Hs. rewrite (get_correct_bytes k s Wk Hs st W). cbn [bapi]. f_equal.
    rewrite <- (history_correct c p ops Hok k s Hp). unfold store_get, History.res. rewrite Hst. reflexivity.
  Qed.
End Compose.

(* ------------------------------------------------------------------ the filter setting is invisible *)
Section FilterIndep.
  Variable c : comparer.
  Hypothesis ok : comparer_ok c.
  Variable p : kparams.
  Hypothesis pok : kparams_ok p.
  Hypothesis seek_val : keyTypeSeek p <= keyTypeVal p.
  Variable mp : MemDB.mparams.
  Hypothesis mpok : MemDB.mparams_ok mp.
  Variable tp : tparams.
  Variable crc : bytes -> N.
  Variable decompress : bytes -> option bytes.
  Variable verify : bool.
  Variable ri : N.
  Variables (fname fname' : option bytes) (ufc ufc' : bytes -> N -> bytes -> bool).

  Lemma fetch_all_ext rd rd' hs : (forall h, tr_fetch rd h = tr_fetch rd' h) -> fetch_all rd hs = fetch_all rd' hs.
  Proof.
    intros E. induction hs as [|h hs IH]; [reflexivity|]. cbn [fetch_all]. rewrite (E h), IH. reflexivity.
  Qed.

  (* the index block and the data blocks of a reader do not depend on the reader's filter *)
  Lemma reader_filter_indep f :
    tr_index (tf_reader c tp crc decompress fname ufc verify f) = tr_index (tf_reader c tp crc decompress fname' ufc' verify f) /\
    forall h, tr_fetch (tf_reader c tp crc decompress fname ufc verify f) h = tr_fetch (tf_reader c tp crc decompress fname' ufc' verify f) h.
  Proof.
    unfold tf_reader, open_table, tr_broken.
    repeat match goal with
           | |- context [if ?b then _ else _] => destruct b; cbn [tr_index tr_fetch]; try (split; reflexivity)
           | |- context [match decode_bh ?x with _ => _ end] => destruct (decode_bh x); cbn [tr_index tr_fetch]; try (split; reflexivity)
           | |- context [match read_block_at ?a ?b ?cc ?d ?e ?g with _ => _ end] =>
               destruct (read_block_at a b cc d e g); cbn [tr_index tr_fetch]; try (split; reflexivity)
           end.
  Qed.

  Lemma table_parse_ext rd rd' : tr_index rd = tr_index rd' -> (forall h, tr_fetch rd h = tr_fetch rd' h) ->
    table_parse rd = table_parse rd'.
  Proof.
    intros Ei Ef. unfold table_parse. rewrite Ei.
    destruct (tr_index rd') as [ib| |]; try reflexivity.
    destruct (block_entries ib) as [ients| |]; try reflexivity.
    destruct (decode_handles ients) as [hs|]; try reflexivity.
    rewrite (fetch_all_ext rd rd' hs Ef). reflexivity.
  Qed.

  Lemma table_parse_filter_indep f :
    table_parse (tf_reader c tp crc decompress fname ufc verify f) = table_parse (tf_reader c tp crc decompress fname' ufc' verify f).
  Proof. destruct (reader_filter_indep f) as [Ei Ef]. apply table_parse_ext; assumption. Qed.

  Lemma tf_pairs_filter_indep f :
    tfile_okb c p tp crc decompress fname ufc verify ri f = true ->
    tfile_okb c p tp crc decompress fname' ufc' verify ri f = true ->
    tf_pairs c tp crc decompress fname ufc verify ri f = tf_pairs c tp crc decompress fname' ufc' verify ri f.
  Proof.
    unfold tfile_okb, tf_pairs, table_check. rewrite (table_parse_filter_indep f).
    destruct (table_parse _) as [[[bl se] hs]|]; [|discriminate].
    intros H1 H2.
    apply andb_prop in H1 as [H1 _]. apply andb_prop in H1 as [H1 _]. apply andb_prop in H1 as [H1 _]. apply andb_prop in H1 as [H1 _].
    apply andb_prop in H2 as [H2 _]. apply andb_prop in H2 as [H2 _]. apply andb_prop in H2 as [H2 _]. apply andb_prop in H2 as [H2 _].
    rewrite H1, H2. reflexivity.
  Qed.

  Lemma abs_filter_indep st :
    Forall (Forall (fun f => tfile_okb c p tp crc decompress fname ufc verify ri f = true)) (bs_levels st) ->
    Forall (Forall (fun f => tfile_okb c p tp crc decompress fname' ufc' verify ri f = true)) (bs_levels st) ->
    abs c mp tp crc decompress fname ufc verify ri st = abs c mp tp crc decompress fname' ufc' verify ri st.
  Proof.
    intros H1 H2. unfold abs. f_equal.
    induction (bs_levels st) as [|l ls IH]; [reflexivity|].
    inversion H1 as [|? ? Hl1 Hls1]; subst. inversion H2 as [|? ? Hl2 Hls2]; subst.
    cbn [map]. f_equal; [|apply IH; assumption].
    clear IH Hls1 Hls2 H1 H2. induction l as [|f l IH]; [reflexivity|].
    inversion Hl1 as [|? ? Hf1 Hl1']; subst. inversion Hl2 as [|? ? Hf2 Hl2']; subst.
    cbn [map]. f_equal; [|apply IH; assumption].
    unfold abs_table. rewrite (tf_pairs_filter_indep f Hf1 Hf2). reflexivity.
  Qed.

  (* two filter settings (none, another policy, another filter block reading) under which the state is
     well-formed give the same answer to every read *)
  Theorem filter_setting_irrelevant st k s : wf_bytes k -> s <= keyMaxSeq p ->
    wf_bstate c p mp tp crc decompress fname ufc verify ri st ->
    wf_bstate c p mp tp crc decompress fname' ufc' verify ri st ->
    db_get_bytes c p mp tp crc decompress fname ufc verify st k s =
    db_get_bytes c p mp tp crc decompress fname' ufc' verify st k s.
  Proof.
    intros Wk Hs W1 W2.
    rewrite (read_path_refines c ok p pok seek_val mp mpok tp crc decompress fname ufc verify ri k s Wk Hs st W1).
    rewrite (read_path_refines c ok p pok seek_val mp mpok tp crc decompress fname' ufc' verify ri k s Wk Hs st W2).
    rewrite (abs_filter_indep st (wb_tables _ _ _ _ _ _ _ _ _ _ _ W1) (wb_tables _ _ _ _ _ _ _ _ _ _ _ W2)). reflexivity.
  Qed.
End FilterIndep.
