(* Lsm/RangeCompact.v — L1: the two LOOPS that drive table compactions.
   Mirrors, branch by branch,
     leveldb/db_compaction.go       tableCompaction (compaction pointer, trivial move unless noTrivial, build + commit),
                                    tableRangeCompaction (both branches; level = -1: "Retry until nothing to compact":
                                    scan for the deepest level >= 1 overlapping the range, one compaction per level below
                                    it, repeat while anything was compacted), tableAutoCompaction, tableNeedCompaction,
                                    resumeWrite, and the part of tCompaction that repeats tableAutoCompaction while
                                    needCompaction holds (no command arriving)
     leveldb/session_compaction.go  getCompactionRange (= Pick.compaction_range: getOverlaps of the range, for levels > 0
                                    cut by the source limit to the shortest prefix whose total size reaches the limit —
                                    never empty), pickCompaction (size-triggered: cLevel, the first table behind the
                                    level's compaction pointer or, with no such table / no pointer / level 0, tables[0];
                                    seek-triggered: the table of cSeek)
     leveldb/version.go             computeCompaction (cScore, cLevel: level 0 by file count / CompactionL0Trigger, every
                                    deeper level — the deepest included — by total size / GetCompactionTotalSize(level);
                                    the first level with the strictly greatest score), needCompaction
     leveldb/session_util.go        setCompPtr / getCompPtr
   One compaction = the existing model step: Pick.new_compaction, then either the trivial move (Pick.move_edit) or the
   tables an OUTPUT ORACLE [bld] supplies for the k-th compaction (the theorems assume of it what Builder.v's run
   delivers — chunks of the kept merged entries cut between different user keys under unused numbers —, the
   correspondence check feeds the tables the real builder wrote), installed by Pick.finish.  Table sizes are the
   function [sz] of Pick.v.
   float64 scores are modelled exactly as quotients of integers (IEEE division of two exactly represented integers is
   compared through cross-multiplication; x/0 = +Inf for x > 0, 0/0 = NaN compares false with everything): the limits
   are integers converted from float64 products and may be 0 (multiplier < 1) or negative (conversion overflow).
   Loops carry explicit fuel; exhausted fuel is the result POutOfFuel.
   Model file: definitions only. *)
From GL Require Export Lsm.Pick.
From Coq Require Import Arith ZArith.

(* the option getters the loops consult *)
Record copts := {
  o_src_limit : nat -> N;      (* GetCompactionSourceLimit(level) *)
  o_exp_limit : nat -> N;      (* GetCompactionExpandLimit(level) *)
  o_gp_limit : nat -> N;       (* GetCompactionGPOverlaps(level): compaction.maxGPOverlaps *)
  o_tot_limit : nat -> Z;      (* GetCompactionTotalSize(level) *)
  o_l0_trigger : Z;            (* GetCompactionL0Trigger(): any int but 0 *)
  o_l0_pause : Z               (* GetWriteL0PauseTrigger() *)
}.

(* what the loops read and write: the current version, s.stCompPtrs (None = nil), v.cSeek (level, table) and the number
   of table compactions built so far (the index into the output oracle) *)
Record cpstate := {
  cp_v : list (list table);
  cp_ptrs : list (option ikey);
  cp_seek : option (nat * table);
  cp_n : nat
}.

(* float64(n) / float64(d) *)
Record score := { sc_n : Z; sc_d : Z }.

Inductive ctyp := TLevel0 | TNonLevel0 | TSeek.

Section WithComparer.
  Variable c : comparer.
  Variable p : kparams.
  Variable sz : table -> N.
  Variable o : copts.
  (* the tables tableCompactionBuilder writes for the k-th compaction, built on version v for the compaction cm *)
  Variable bld : nat -> list (list table) -> compaction -> list table.

  (* ---- session.setCompPtr / getCompPtr ---- *)
  Fixpoint set_ptr (ptrs : list (option ikey)) (level : nat) (k : ikey) : list (option ikey) :=
    match level, ptrs with
    | O, [] => [Some k]
    | O, _ :: r => Some k :: r
    | S l, [] => None :: set_ptr [] l k
    | S l, x :: r => x :: set_ptr r l k
    end.
  Definition get_ptr (ptrs : list (option ikey)) (level : nat) : option ikey := nth level ptrs None.

  (* ---- DB.tableCompaction(c, noTrivial): rec.addCompPtr(sourceLevel, c.imax); the move or the built tables;
     compactionCommit installs the record (session.commit with trivial = true); the new version has no cSeek ---- *)
  Definition table_compaction (st : cpstate) (cm : compaction) (noTrivial : bool) : pres cpstate :=
    let ed := if negb noTrivial && trivial sz cm (o_gp_limit o (c_level cm))
              then move_edit cm
              else compaction_edit cm (bld (cp_n st) (cp_v st) cm) in
    pdo nv <- finish c true (cp_v st) ed;
    POk {| cp_v := nv; cp_ptrs := set_ptr (cp_ptrs st) (c_level cm) (c_imax cm); cp_seek := None; cp_n := S (cp_n st) |}.

  (* ---- session.getCompactionRange with the limits of the options ---- *)
  Definition get_compaction_range (st : cpstate) (level : nat) (umin umax : option bytes) (noLimit : bool)
    : pres (option compaction) :=
    compaction_range c sz (cp_v st) level umin umax noLimit (o_src_limit o level) (o_exp_limit o level).

  (* ---- tableRangeCompaction, level >= 0: one compaction of that level, no source limit, never a move ---- *)
  Definition range_compaction_level (st : cpstate) (level : nat) (umin umax : option bytes) : pres cpstate :=
    pdo r <- get_compaction_range st level umin umax true;
    match r with
    | Some cm => table_compaction st cm true
    | None => POk st
    end.

  (* ---- tableRangeCompaction, level = -1 ---- *)
  (* "Scan for maximum level with overlapped tables": m := 1; for i := m; i < len(v.levels); i++ { if overlaps { m = i } } *)
  Fixpoint scan_max (umin umax : option bytes) (i : nat) (rest : list (list table)) (m : nat) : nat :=
    match rest with
    | [] => m
    | tf :: r => scan_max umin umax (S i) r (if files_overlaps c p tf umin umax false then i else m)
    end.
  Definition range_max_level (v : list (list table)) (umin umax : option bytes) : nat :=
    scan_max umin umax 1 (skipn 1 v) 1.

  (* for level := level; level < level + n; level++ { if c := getCompactionRange(level, umin, umax, false); c != nil
     { tableCompaction(c, true); compacted = true } }  — the compactions done are returned in order *)
  Fixpoint range_levels (n level : nat) (st : cpstate) (umin umax : option bytes) (log : list compaction)
    : pres (cpstate * list compaction) :=
    match n with
    | O => POk (st, log)
    | S n' =>
        pdo r <- get_compaction_range st level umin umax false;
        match r with
        | Some cm => pdo st' <- table_compaction st cm true;
                     range_levels n' (S level) st' umin umax (log ++ [cm])
        | None => range_levels n' (S level) st umin umax log
        end
    end.

  (* one pass of the retry loop: (m, state afterwards, compactions done); compacted = the list is not empty *)
  Definition range_pass (st : cpstate) (umin umax : option bytes) : pres (nat * cpstate * list compaction) :=
    let m := range_max_level (cp_v st) umin umax in
    pdo r <- range_levels m 0 st umin umax [];
    POk (m, fst r, snd r).

  (* "Retry until nothing to compact."  Returns the final state and the passes (m, compactions) in order; the last
     pass is the one that compacted nothing. *)
  Fixpoint compact_range (fuel : nat) (st : cpstate) (umin umax : option bytes) (passes : list (nat * list compaction))
    : pres (cpstate * list (nat * list compaction)) :=
    match fuel with
    | O => POutOfFuel
    | S fu =>
        pdo r <- range_pass st umin umax;
        let '(m, st', log) := r in
        match log with
        | [] => POk (st', passes ++ [(m, [])])
        | _ => compact_range fu st' umin umax (passes ++ [(m, log)])
        end
    end.

  (* ---- float64 scores ---- *)
  Definition sc_norm (s : score) : score :=
    if (sc_d s <? 0)%Z then {| sc_n := - sc_n s; sc_d := - sc_d s |} else s.
  Definition sc_nan (s : score) : bool := (sc_d s =? 0)%Z && (sc_n s =? 0)%Z.
  (* a > b *)
  Definition sc_gt (a b : score) : bool :=
    let a := sc_norm a in
    let b := sc_norm b in
    if sc_nan a || sc_nan b then false
    else if (sc_d a =? 0)%Z then
           (0 <? sc_n a)%Z && negb ((sc_d b =? 0)%Z && (0 <? sc_n b)%Z)          (* +Inf > everything but +Inf *)
         else if (sc_d b =? 0)%Z then (sc_n b <? 0)%Z                            (* finite > -Inf only *)
              else (sc_n b * sc_d a <? sc_n a * sc_d b)%Z.
  (* a >= 1 *)
  Definition sc_ge1 (a : score) : bool :=
    let a := sc_norm a in
    if sc_nan a then false
    else if (sc_d a =? 0)%Z then (0 <? sc_n a)%Z
         else (sc_d a <=? sc_n a)%Z.

  (* ---- version.computeCompaction ---- *)
  Definition level_score (level : nat) (tf : list table) : score :=
    if Nat.eqb level 0 then {| sc_n := Z.of_nat (length tf); sc_d := o_l0_trigger o |}
    else {| sc_n := Z.of_N (total_size sz tf); sc_d := o_tot_limit o level |}.

  Fixpoint compute_from (level : nat) (ls : list (list table)) (best : option nat * score) : option nat * score :=
    match ls with
    | [] => best
    | tf :: r =>
        let s := level_score level tf in
        compute_from (S level) r (if sc_gt s (snd best) then (Some level, s) else best)
    end.
  (* (cLevel, cScore); bestLevel := -1 is None *)
  Definition compute_compaction (v : list (list table)) : option nat * score :=
    compute_from 0 v (None, {| sc_n := -1; sc_d := 1 |}).

  (* version.needCompaction *)
  Definition need_compaction (st : cpstate) : bool :=
    sc_ge1 (snd (compute_compaction (cp_v st))) || match cp_seek st with Some _ => true | None => false end.

  (* DB.resumeWrite: v.tLen(0) < GetWriteL0PauseTrigger() *)
  Definition resume_write (st : cpstate) : bool :=
    (Z.of_nat (length (nth 0 (cp_v st) [])) <? o_l0_pause o)%Z.

  (* ---- session.pickCompaction: (source level, seed, type); None = nothing to do ---- *)
  Definition pick_seed (st : cpstate) : pres (option (nat * list table * ctyp)) :=
    let v := cp_v st in
    let cc := compute_compaction v in
    if sc_ge1 (snd cc) then
      match fst cc with
      | None => PPanic                                        (* v.levels[-1] *)
      | Some lvl =>
          let tables := nth lvl v [] in
          let t0 := match get_ptr (cp_ptrs st) lvl with
                    | Some cptr =>
                        if Nat.ltb 0 lvl then
                          let n := length tables in
                          let i := sort_search n (fun i => match icmp c (imax_of (tnth tables i)) cptr with
                                                           | Gt => true | _ => false end) in
                          if Nat.ltb i n then [tnth tables i] else []
                        else []
                    | None => []
                    end in
          match t0, tables with
          | _ :: _, _ => POk (Some (lvl, t0, if Nat.eqb lvl 0 then TLevel0 else TNonLevel0))
          | [], t :: _ => POk (Some (lvl, [t], if Nat.eqb lvl 0 then TLevel0 else TNonLevel0))
          | [], [] => PPanic                                  (* tables[0] of an empty level *)
          end
      end
    else
      match cp_seek st with
      | Some (lvl, t) => POk (Some (lvl, [t], TSeek))
      | None => POk None
      end.

  Definition pick_compaction (st : cpstate) : pres (option compaction) :=
    pdo r <- pick_seed st;
    match r with
    | Some (lvl, seed, _) => pdo cm <- new_compaction c sz (cp_v st) lvl (o_exp_limit o lvl) seed; POk (Some cm)
    | None => POk None
    end.

  (* DB.tableAutoCompaction *)
  Definition auto_step (st : cpstate) : pres cpstate :=
    pdo r <- pick_compaction st;
    match r with
    | Some cm => table_compaction st cm false
    | None => POk st
    end.

  (* tCompaction with no command arriving: for { if needCompaction { tableAutoCompaction() } else { wait } } *)
  Fixpoint auto_loop (fuel : nat) (st : cpstate) : pres cpstate :=
    if need_compaction st then
      match fuel with
      | O => POutOfFuel
      | S fu => pdo st' <- auto_step st; auto_loop fu st'
      end
    else POk st.

  (* The code before the repair "a commit that rotates the manifest must not drop the record's compaction pointers":
     when session.commit started a fresh manifest (size bound reached, or after a failed write) the record it wrote
     carried the commit's journal and sequence numbers only; rec.compPtrs reached neither the manifest nor
     s.stCompPtrs.  [rotates] says whether the commit of this compaction rotated. *)
  Definition table_compaction_unrepaired (rotates : bool) (st : cpstate) (cm : compaction) (noTrivial : bool) : pres cpstate :=
    pdo st' <- table_compaction st cm noTrivial;
    POk (if rotates then {| cp_v := cp_v st'; cp_ptrs := cp_ptrs st; cp_seek := cp_seek st'; cp_n := cp_n st' |} else st').
End WithComparer.

(* A concrete output oracle for examples and for instantiating the theorems: one output table holding everything the
   drop rule keeps (no table when nothing is kept), numbered one above the largest live number. *)
Section SimpleBuilder.
  Variable c : comparer.
  Variable p : kparams.
  Variable ms : nat -> N.

  Definition max_num (v : list (list table)) : N := fold_right N.max 0%N (nums_of (concat v)).
  Definition simple_bld (k : nat) (v : list (list table)) (cm : compaction) : list table :=
    match compact_entries c p (ms k) (skipn (c_level cm + 2) v) (c_t0 cm ++ c_t1 cm) with
    | [] => []
    | kept => [{| t_num := max_num v + 1; t_entries := kept |}]
    end.
End SimpleBuilder.
