(* Lsm/ReadPathTable.v — tOps.find on the BYTES of a table file, as version.get uses it (proof file).
   Uses the table theory of property C13 as it stands (Codec/TableProofs.v: table_wf, tfind_spec,
   tfind_first_ge, routes_to, the separator lemmas; Codec/TableCheckProofs.v: table_wfb_sound) with the
   encoded internal-key order as the comparer.  Added here, because C13's filter_independent is about exact
   matches of the WHOLE key while the DB asks the filter about the USER key of a probe that is never stored:
   [tfind_filtered_route] (a rejected lookup names the block it was routed to) and the argument that a
   rejected block cannot hide the answer (ReadPath.filter_okb). *)
From GL Require Import Base.Bytes Base.BytesProofs Base.Order Base.OrderProofs Base.Cursor Base.CursorProofs
  Codec.BytesCmp Codec.IKey Codec.IKeyProofs Codec.Block Codec.BlockEnc Codec.BlockProofs Codec.Table Codec.TableProofs
  Codec.TableCheck Codec.TableCheckProofs Lsm.Lsm Lsm.LsmProofs Lsm.ReadPath Lsm.ReadPathKey.
From Coq Require Import Arith Lia.
Open Scope N_scope.

(* ------------------------------------------------------------------ generic: where a filtered find is rejected *)
Section Route.
  Variable c : comparer.
  Hypothesis c_ok : comparer_ok c.
  Variable rd : treader.
  Variable blocks : list (list (bytes * bytes)).
  Variable seps : list bytes.
  Variable hs : list bhandle.
  Hypothesis wf : table_wf c rd blocks seps hs.

  Lemma tfind_filtered_route key :
    tfind c rd key true = tfind c rd key false \/
    (tfind c rd key true = FNotFound /\
     exists j contains, routes_to c blocks seps key j /\ tr_filter rd = Some contains /\
                        contains (bh_off (nth j hs bh0)) key = false).
  Proof.
    unfold tfind. destruct (twf_index _ _ _ _ _ wf) as (ib & Eib & (ioff & iris & ilay)). rewrite Eib.
    cbn [new_block_iter].
    destruct (seek_step c c_ok (ientries seps hs) ib ioff iris ilay (ient_sorted c c_ok rd blocks seps hs wf)
                (bi_unsliced ib) CSOI key (rep_unsliced _ _ _ _))
      as (ok & index1 & E1 & R1 & Eok1). rewrite E1.
    destruct (c_seek_cases c key (ientries seps hs)) as [(j & Ej)|Ee].
    - rewrite Ej in R1, Eok1. subst ok. cbn [negb].
      pose proof (index_seek_at c rd blocks seps hs wf key j Ej) as Hroute. pose proof Hroute as (Hj & _).
      pose proof R1 as (_ & _ & _ & _ & Ev & _). rewrite Ev, (ient_val c rd blocks seps hs wf j Hj).
      destruct (twf_handles _ _ _ _ _ wf j Hj) as [Ho Hl]. rewrite (decode_encode_bh _ Ho Hl).
      destruct (tr_filter rd) as [contains|] eqn:Et; [|left; reflexivity].
      cbn [andb]. destruct (contains (bh_off (nth j hs bh0)) key) eqn:Ec; cbn [negb]; [left; reflexivity|].
      right. split; [reflexivity|]. exists j, contains. repeat split; try assumption; apply Hroute.
    - rewrite Ee in Eok1. subst ok. left. reflexivity.
  Qed.

  (* the unfiltered find as a plain scan *)
  Lemma first_ge_scan key (l : list (bytes * bytes)) : forall i,
    match first_ge c key l i with
    | Some j => exists n, j = (i + n)%nat /\ nth_error l n = find (fun kv => match cmp c (fst kv) key with Lt => false | _ => true end) l
                          /\ nth_error l n <> None
    | None => find (fun kv => match cmp c (fst kv) key with Lt => false | _ => true end) l = None
    end.
  Proof.
    induction l as [|[k v] l IH]; intros i; cbn [first_ge find fst]; [reflexivity|].
    destruct (cmp c k key) eqn:E.
    - exists 0%nat. split; [lia|]. split; [reflexivity|discriminate].
    - specialize (IH (S i)). destruct (first_ge c key l (S i)) as [j|].
      + destruct IH as (n & -> & Hn & Hne). exists (S n). split; [lia|]. split; assumption.
      + exact IH.
    - exists 0%nat. split; [lia|]. split; [reflexivity|discriminate].
  Qed.

  Lemma tfind_scan key :
    tfind c rd key false =
    match find (fun kv => match cmp c (fst kv) key with Lt => false | _ => true end) (tkvs blocks) with
    | Some (k, v) => FFound k v
    | None => FNotFound
    end.
  Proof.
    rewrite (tfind_first_ge c c_ok rd blocks seps hs wf key).
    pose proof (first_ge_scan key (tkvs blocks) 0) as H.
    destruct (first_ge c key (tkvs blocks) 0) as [j|].
    - destruct H as (n & -> & Hn & Hne). cbn [Nat.add]. rewrite Hn in *.
      destruct (find _ (tkvs blocks)) as [[k v]|]; [reflexivity|congruence].
    - rewrite H. reflexivity.
  Qed.
End Route.

(* ------------------------------------------------------------------ the DB's tables *)
Section TableRead.
  Variable c : comparer.
  Hypothesis ok : comparer_ok c.
  Variable p : kparams.
  Hypothesis pok : kparams_ok p.
  Hypothesis seek_val : keyTypeSeek p <= keyTypeVal p.
  Variable tp : tparams.
  Variable crc : bytes -> N.
  Variable decompress : bytes -> option bytes.
  Variable fname : option bytes.
  Variable ufc : bytes -> N -> bytes -> bool.
  Variable verify : bool.
  Variable ri : N.

  Local Notation ic := (ibc c).
  Local Notation icok := (ibc_ok c ok).
  Local Notation reader := (tf_reader c tp crc decompress fname ufc verify).
  Local Notation okb := (tfile_okb c p tp crc decompress fname ufc verify ri).
  Local Notation pairs := (tf_pairs c tp crc decompress fname ufc verify ri).
  Local Notation nb := (not_below c).

  (* order of the user keys under the encoded order *)
  Lemma ic_ge_uk A B a b : ik_dec A = Some a -> ik_dec B = Some b -> cmp ic A B <> Lt -> cmp c (uk a) (uk b) <> Lt.
  Proof.
    intros Ha Hb. rewrite (ibc_dec c A B a b Ha Hb). unfold icmp. destruct (cmp c (uk a) (uk b)); congruence.
  Qed.
  Lemma ic_lt_uk A B a b : ik_dec A = Some a -> ik_dec B = Some b -> cmp ic A B = Lt -> cmp c (uk a) (uk b) <> Gt.
  Proof.
    intros Ha Hb. rewrite (ibc_dec c A B a b Ha Hb). unfold icmp. destruct (cmp c (uk a) (uk b)); congruence.
  Qed.

  (* the reader's filter, when it has one, is the user-key test on some filter block *)
  Lemma reader_filter_shape f contains : tr_filter (reader f) = Some contains -> exists data, contains = ifc ufc data.
  Proof.
    unfold tf_reader, open_table, tr_broken.
    repeat match goal with
           | |- context [if ?b then _ else _] => destruct b; cbn [tr_filter]; try discriminate
           | |- context [match decode_bh ?x with _ => _ end] => destruct (decode_bh x); cbn [tr_filter]; try discriminate
           | |- context [match read_block_at ?a ?b ?cc ?d ?e ?g with _ => _ end] =>
               destruct (read_block_at a b cc d e g); cbn [tr_filter]; try discriminate
           end.
    destruct (match fname with Some name => _ | None => None end) as [fh|]; [|discriminate].
    unfold read_filter_block. destruct (read_raw_block tp crc decompress (tf_data f) fh true) as [data| |]; try discriminate.
    destruct (lenN data <? 5); [discriminate|].
    destruct (lenN data - 5 <? _); [discriminate|].
    intros H. injection H as <-. exists data. reflexivity.
  Qed.

  Lemma ifc_same_uk data off A B a b : ik_dec A = Some a -> ik_dec B = Some b -> uk a = uk b ->
    ifc ufc data off A = ifc ufc data off B.
  Proof.
    intros Ha Hb E. unfold ifc. rewrite (ik_dec_ukey A a Ha), (ik_dec_ukey B b Hb), E. reflexivity.
  Qed.

  (* what an accepted file gives *)
  Record tf_facts (f : tfile) (bl : list (list (bytes * bytes))) (se : list bytes) (hs : list bhandle) : Prop := {
    tff_wf : table_wf ic (reader f) bl se hs;
    tff_pairs : pairs f = tkvs bl;
    tff_keys : keys_ok p (tkvs bl);
    tff_seps : forall j, (j < length bl)%nat -> exists s, ik_dec (nth j se []) = Some s;
    tff_filter : filter_okb c (reader f) bl se hs = true;
    tff_bounds : exists kv r, tkvs bl = kv :: r /\ tf_imin f = fst kv /\ tf_imax f = fst (last r kv)
  }.

  Lemma okb_facts f : okb f = true -> exists bl se hs, tf_facts f bl se hs.
  Proof.
    unfold tfile_okb. destruct (table_parse (reader f)) as [[[bl se] hs]|] eqn:P; [|discriminate].
    intros H. apply andb_prop in H as [H Hb]. apply andb_prop in H as [H Hfil].
    apply andb_prop in H as [H Hseps]. apply andb_prop in H as [Hwf Hkeys].
    pose proof (table_wfb_sound ic (reader f) ri bl se hs Hwf) as W.
    exists bl, se, hs. constructor.
    - exact W.
    - unfold tf_pairs, table_check. rewrite P, Hwf. reflexivity.
    - unfold keys_ok. apply Forall_forall. rewrite forallb_forall in Hkeys. exact Hkeys.
    - intros j Hj. rewrite forallb_forall in Hseps.
      assert (Hin : In (nth j se []) se) by (apply nth_In; rewrite (twf_len_s _ _ _ _ _ W); exact Hj).
      specialize (Hseps _ Hin). unfold ik_validb in Hseps. destruct (ik_dec (nth j se [])) as [s|]; [eauto|discriminate].
    - exact Hfil.
    - unfold tkvs. destruct (concat bl) as [|kv r]; [discriminate|]. exists kv, r.
      apply andb_prop in Hb as [H1 H2]. apply beq_eq in H1, H2. auto.
  Qed.

  Section OneTable.
    Variables (f : tfile) (bl : list (list (bytes * bytes))) (se : list bytes) (hs : list bhandle).
    Hypothesis F : tf_facts f bl se hs.
    Variables (k : bytes) (s : N).
    Hypothesis Wk : wf_bytes k.
    Hypothesis Hs : s <= keyMaxSeq p.

    Local Notation q := (probe p k s).
    Local Notation key := (encode_ikey (probe p k s)).
    Local Notation es := (map entry_of (pairs f)).
    Local Notation W := (tff_wf f bl se hs F).

    Lemma probe_dec : ik_dec key = Some q.
    Proof.
      apply ik_dec_encode; [exact Wk|]. unfold probe, pack. cbn [num].
      destruct pok as (_ & _ & _ & H256 & Hmax & _). rewrite Hmax in Hs.
      change (2 ^ 64) with (2 ^ 56 * 256). change (2 ^ 56) with 72057594037927936 in *. nia.
    Qed.

    Lemma pair_dec x : In x (tkvs bl) -> exists a, ik_dec (fst x) = Some a /\ (ik_kind a = keyTypeDel p \/ ik_kind a = keyTypeVal p).
    Proof.
      intros Hin. pose proof (tff_keys f bl se hs F) as Hk. unfold keys_ok in Hk. rewrite Forall_forall in Hk.
      apply key_okb_dec. apply Hk. exact Hin.
    Qed.

    (* a block rejected by the filter does not hold, and does not precede, the answer for k *)
    Lemma rejected_no_hit j contains fk fv a :
      routes_to ic bl se key j -> tr_filter (reader f) = Some contains ->
      contains (bh_off (nth j hs bh0)) key = false ->
      first_ge_at ic key (tkvs bl) (fk, fv) -> ik_dec fk = Some a -> uk a = k -> False.
    Proof.
      intros Hroute Et Ec Hfg Da Ua.
      destruct (reader_filter_shape f contains Et) as (data & ->).
      pose proof Hroute as (Hj & Hge & Hlt).
      destruct Hfg as (pre & post & Ekv & Hpre & Hkv). cbn [fst] in Hkv.
      assert (Hin : In (fk, fv) (tkvs bl)) by (rewrite Ekv; apply in_or_app; right; left; reflexivity).
      apply in_concat_nth in Hin as (j' & Hj' & Hinb).
      pose proof (tff_filter f bl se hs F) as Hfil. unfold filter_okb in Hfil. rewrite Et in Hfil.
      rewrite forallb_forall in Hfil.
      assert (Hfj : forall i, (i < length bl)%nat -> In i (seq 0 (length bl))) by (intros i Hi; apply in_seq; lia).
      destruct (Nat.lt_trichotomy j' j) as [L|[L|L]].
      - (* an earlier block: its keys are below the probe *)
        pose proof (before_block_lt ic icok (reader f) bl se hs W j key (fk, fv) j' L Hj Hinb (Hlt ltac:(lia))) as H.
        cbn [fst] in H. congruence.
      - (* the rejected block itself: the filter holds its user keys *)
        subst j'. specialize (Hfil j (Hfj j Hj)). apply andb_prop in Hfil as [Hall _].
        rewrite forallb_forall in Hall. specialize (Hall (fk, fv) Hinb). cbn [fst] in Hall.
        unfold bh_zero in Hall. unfold bh0 in Ec.
        rewrite (ifc_same_uk data _ fk key a q Da probe_dec Ua) in Hall. congruence.
      - (* a later block: then the separator of block j has the user key k and was tested *)
        assert (HSj : (S j < length bl)%nat) by lia.
        pose proof (blk_ne ic (reader f) bl se hs W (S j) ltac:(lia) HSj) as Hne.
        destruct (nth (S j) bl []) as [|x r] eqn:Eb; [congruence|].
        assert (Hx : In x (nth (S j) bl [])) by (rewrite Eb; left; reflexivity).
        assert (HxT : In x (tkvs bl)) by (eapply in_nth_concat; eauto).
        destruct (pair_dec x HxT) as (xa & Dx & _).
        destruct (tff_seps f bl se hs F j Hj) as (sa & Ds).
        (* sep j < x *)
        pose proof (twf_sep_lt _ _ _ _ _ W j x HSj Hx) as Hsx.
        (* x <= fk *)
        assert (Hxf : x = (fk, fv) \/ cmp ic (fst x) fk = Lt).
        { destruct (Nat.eq_dec j' (S j)) as [->|Hne'].
          - rewrite Eb in Hinb. destruct Hinb as [<-|Hr]; [left; reflexivity|]. right.
            pose proof (sorted_block ic icok (reader f) bl se hs W (S j) HSj) as SB. rewrite Eb in SB.
            destruct x as [kx vx]. cbn [sorted] in SB. apply In_nth_error in Hr as (n & Hn).
            cbn [fst]. eapply (sorted_from_nth ic icok); eauto.
          - right.
            pose proof (twf_sep_lt _ _ _ _ _ W (j' - 1)%nat (fk, fv) ltac:(lia)) as H1.
            replace (S (j' - 1)) with j' in H1 by lia. specialize (H1 Hinb). cbn [fst] in H1.
            apply (before_block_lt ic icok (reader f) bl se hs W j' fk x (S j) ltac:(lia) Hj' Hx H1). }
        (* user keys: k <= uk sep <= uk x <= uk fk = k *)
        pose proof (ic_ge_uk _ _ sa q Ds probe_dec Hge) as U1. cbn [uk probe] in U1.
        pose proof (ic_lt_uk _ _ sa xa Ds Dx Hsx) as U2.
        assert (U3 : cmp c (uk xa) k <> Gt).
        { destruct Hxf as [->|Hlt'].
          - cbn [fst] in Dx. rewrite Da in Dx. injection Dx as <-. rewrite Ua, (cmp_refl c ok). discriminate.
          - pose proof (ic_lt_uk _ _ xa a Dx Da Hlt') as H. rewrite Ua in H. exact H. }
        assert (Esk : uk sa = k).
        { apply (OrderProofs.le_antisym c ok).
          - apply (OrderProofs.le_trans c ok _ (uk xa)); assumption.
          - apply (OrderProofs.not_lt_le c ok). exact U1. }
        assert (Exk : uk xa = k).
        { apply (OrderProofs.le_antisym c ok); [exact U3|]. rewrite <- Esk. exact U2. }
        specialize (Hfil j (Hfj j Hj)). apply andb_prop in Hfil as [_ Hsep]. rewrite Eb in Hsep.
        unfold same_ukeyb in Hsep. rewrite Ds, Dx, Esk, Exk, (cmp_refl c ok) in Hsep.
        unfold bh_zero in Hsep. unfold bh0 in Ec.
        rewrite (ifc_same_uk data _ (nth j se []) key sa q Ds probe_dec Esk) in Hsep. congruence.
    Qed.

    (* Reader.Find(probe, filtered = true) against the L1 model's find_ge on the table's entries *)
    Lemma tfind_bytes :
      match find_ge c q es with
      | Some e =>
          match cmp c (e_uk e) k with
          | Eq => exists fk fv, tfind ic (reader f) key true = FFound fk fv /\ In (fk, fv) (tkvs bl) /\ entry_of (fk, fv) = e
          | _ => tfind ic (reader f) key true = FNotFound \/
                 exists fk fv, tfind ic (reader f) key true = FFound fk fv /\ In (fk, fv) (tkvs bl) /\ entry_of (fk, fv) = e
          end
      | None => tfind ic (reader f) key true = FNotFound
      end.
    Proof.
      pose proof (find_not_below c p key q (tkvs bl) (tff_keys f bl se hs F) probe_dec) as FN.
      rewrite (tff_pairs f bl se hs F). rewrite <- FN.
      pose proof (tfind_scan ic icok (reader f) bl se hs W key) as U. fold (nb key) in U.
      pose proof (tfind_spec ic icok (reader f) bl se hs W key) as SP.
      destruct (tfind_filtered_route ic icok (reader f) bl se hs W key) as [E|(E & j & contains & Hroute & Et & Ec)].
      - rewrite E, U. destruct (find (nb key) (tkvs bl)) as [[fk fv]|] eqn:Ef; cbn [option_map]; [|reflexivity].
        apply find_some in Ef as [Hin _].
        destruct (cmp c (e_uk (entry_of (fk, fv))) k); [|right|right]; exists fk, fv; auto.
      - rewrite E. rewrite U in SP.
        destruct (find (nb key) (tkvs bl)) as [[fk fv]|] eqn:Ef; cbn [option_map]; [|reflexivity].
        cbn [find_spec] in SP. apply find_some in Ef as [Hin _].
        destruct (pair_dec (fk, fv) Hin) as (a & Da & _). cbn [fst] in Da.
        rewrite (entry_of_dec (fk, fv) a Da). cbn [e_uk].
        destruct (cmp c (uk a) k) eqn:Eu; [|left; reflexivity|left; reflexivity].
        exfalso. apply (cmp_eq c ok) in Eu.
        exact (rejected_no_hit j contains fk fv a Hroute Et Ec SP Da Eu).
    Qed.

    (* ---- the closure f of version.get on this table ---- *)
    Definition zproj (e : entry) : N * N * bytes := (e_seq e, e_kind e, e_val e).

    Local Notation git := (get_in_table c p tp crc decompress fname ufc verify).

    Lemma found_step fk fv lvl0 z : In (fk, fv) (tkvs bl) ->
      tfind ic (reader f) key true = FFound fk fv ->
      git lvl0 f key k z =
      let e := entry_of (fk, fv) in
      match cmp c (e_uk e) k with
      | Eq => if lvl0 then (if zseq_of z <=? e_seq e then FCont (Some (zproj e)) else FCont z)
              else FStop (kt_result p (e_kind e) (e_val e))
      | _ => FCont z
      end.
    Proof.
      intros Hin E. unfold get_in_table, ReadPath.ic. rewrite E.
      destruct (pair_dec (fk, fv) Hin) as (a & Da & Ka). cbn [fst] in Da.
      rewrite (parse_ok p fk a Da (kind_le_val p pok a Ka seek_val)).
      rewrite (entry_of_dec (fk, fv) a Da). cbn zeta. cbn [e_uk e_seq e_kind e_val snd].
      rewrite (cmp_opp c ok (uk a) k). destruct (cmp c (uk a) k); reflexivity.
    Qed.

    Lemma kt_result_res e : In e es -> kt_result p (e_kind e) (e_val e) = BRes (res_of p e).
    Proof.
      intros Hin. rewrite (tff_pairs f bl se hs F) in Hin. apply in_map_iff in Hin as (x & <- & Hx).
      destruct (pair_dec x Hx) as (a & Da & Ka). rewrite (entry_of_dec x a Da). unfold kt_result, res_of. cbn [e_kind e_val].
      destruct pok as (_ & _ & Hdv & _).
      destruct Ka as [-> | ->].
      - rewrite N.eqb_refl. replace (keyTypeDel p =? keyTypeVal p) with false by (symmetry; apply N.eqb_neq; exact Hdv). reflexivity.
      - rewrite N.eqb_refl. replace (keyTypeVal p =? keyTypeDel p) with false by (symmetry; apply N.eqb_neq; congruence). reflexivity.
    Qed.

    (* a deeper level: the table decides, or the walk continues *)
    Theorem get_in_table_deep z :
      git false f key k z =
      match comp_get c p es k s with
      | GMiss => FCont z
      | r => FStop (BRes r)
      end.
    Proof.
      pose proof tfind_bytes as T. unfold comp_get.
      destruct (find_ge c q es) as [e|] eqn:Eg.
      - assert (He : In e es).
        { clear T. revert Eg. generalize es. intros l. induction l as [|y l IH]; cbn [find_ge]; [discriminate|].
          destruct (icmp c (e_ikey y) q); intros H; try (injection H as <-; left; reflexivity). right. apply IH. exact H. }
        destruct (cmp c (e_uk e) k) eqn:Eu.
        + destruct T as (fk & fv & E & Hin & <-). rewrite (found_step fk fv false z Hin E). cbn zeta. rewrite Eu.
          rewrite (kt_result_res _ He). pose proof (res_nonmiss p (entry_of (fk, fv))).
          destruct (res_of p (entry_of (fk, fv))); congruence.
        + destruct T as [E|(fk & fv & E & Hin & <-)].
          * unfold get_in_table, ReadPath.ic. rewrite E. reflexivity.
          * rewrite (found_step fk fv false z Hin E). cbn zeta. rewrite Eu. reflexivity.
        + destruct T as [E|(fk & fv & E & Hin & <-)].
          * unfold get_in_table, ReadPath.ic. rewrite E. reflexivity.
          * rewrite (found_step fk fv false z Hin E). cbn zeta. rewrite Eu. reflexivity.
      - unfold get_in_table, ReadPath.ic. rewrite T. reflexivity.
    Qed.

    (* level 0: the hit with the largest sequence number so far *)
    Theorem get_in_table_l0 ze :
      git true f key k (option_map zproj ze) =
      FCont (option_map zproj
        (match find_ge c q es with
         | Some e => match cmp c (e_uk e) k with
                     | Eq => match ze with
                             | Some x => if e_seq x <=? e_seq e then Some e else ze
                             | None => Some e
                             end
                     | _ => ze
                     end
         | None => ze
         end)).
    Proof.
      pose proof tfind_bytes as T.
      destruct (find_ge c q es) as [e|] eqn:Eg.
      - destruct (cmp c (e_uk e) k) eqn:Eu.
        + destruct T as (fk & fv & E & Hin & <-). rewrite (found_step fk fv true _ Hin E). cbn zeta. rewrite Eu.
          destruct ze as [x|]; cbn [option_map zseq_of zproj].
          * destruct (e_seq x <=? e_seq (entry_of (fk, fv))); reflexivity.
          * replace (0 <=? e_seq (entry_of (fk, fv))) with true by (symmetry; apply N.leb_le; apply N.le_0_l). reflexivity.
        + destruct T as [E|(fk & fv & E & Hin & <-)].
          * unfold get_in_table, ReadPath.ic. rewrite E. reflexivity.
          * rewrite (found_step fk fv true _ Hin E). cbn zeta. rewrite Eu. reflexivity.
        + destruct T as [E|(fk & fv & E & Hin & <-)].
          * unfold get_in_table, ReadPath.ic. rewrite E. reflexivity.
          * rewrite (found_step fk fv true _ Hin E). cbn zeta. rewrite Eu. reflexivity.
      - unfold get_in_table, ReadPath.ic. rewrite T. reflexivity.
    Qed.
  End OneTable.
End TableRead.
