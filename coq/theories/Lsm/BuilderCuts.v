(* Lsm/BuilderCuts.v — the failure-free run of tableCompactionBuilder (model Lsm/Builder.v) on entries whose keys all
   parse, ordered by user key, with ordered disjoint levels below the output level:
     - the tables it writes, concatenated, are exactly Compact.drop_run with the stateless base-level test (the model that
       drop_rule_sound / compaction_preserves speak about); dropCnt counts the dropped entries, kerrCnt stays 0;
     - the concrete cut rule (shouldStopBefore / needFlush looked at only at the first occurrence of a user key) yields
       Compact.cuts_ok: no table is empty and no user key spans two tables.
   With BuilderProofs.retry_invariant this holds for what is installed after any history of transient failures. *)
From GL Require Import Base.Order Base.OrderProofs Codec.IKey Codec.IKeyProofs Lsm.Lsm Lsm.Compact Lsm.LsmProofs Lsm.Pick
  Lsm.PickBase Lsm.Builder Lsm.BuilderBase Lsm.BuilderProofs.
From Coq Require Import Arith Lia.

Local Open Scope nat_scope.

Section Cuts.
  Variable c : comparer.
  Hypothesis ok : comparer_ok c.
  Variable p : kparams.
  Variable sz : table -> N.
  Variable gp : list table.
  Variable maxgp : N.
  Variable deeper : list (list table).
  Hypothesis Dok : Forall (lvl_ok c p) deeper.
  Variable minSeq : N.
  Variable strict : bool.
  Variable tableSize : N.
  Variable tsize : list item -> N.

  Notation lt := (Order.lt c).
  Notation le := (Order.le c).
  Notation run_loop := (run_loop c p sz gp maxgp deeper minSeq strict tableSize tsize).
  Notation step_good := (step_good c p sz gp maxgp deeper minSeq tableSize tsize).
  Notation run_attempt := (run_attempt c p sz gp maxgp deeper minSeq strict tableSize tsize).
  Notation transact := (transact c p sz gp maxgp deeper minSeq strict tableSize tsize).
  Notation phaseA := (phaseA c p sz gp maxgp tableSize tsize).
  Notation phaseB := (phaseB c p deeper minSeq).
  Notation K := (drop_run c p minSeq (is_base c deeper)).
  Notation bst0 := (bst0 deeper).

  Definition fin (s : bst) : list (list entry) := map good_entries (out_items s).
  Definition cur (s : bst) : list entry := match tw s with Some w => good_entries (w_items w) | None => [] end.
  Definition total (s : bst) : list entry := concat (fin s) ++ cur s.
  Definition lastof (s : bst) : option (bytes * N) := if has s then Some (ukey s, lseq s) else None.
  Definition goods (l : list item) : Prop := Forall (fun it => is_good it = true) l.
  Definition all_good (s : bst) : Prop :=
    Forall (fun o => goods (o_items o)) (recs s) /\ forall w, tw s = Some w -> goods (w_items w).

  Fixpoint uk_sorted (l : list entry) : Prop :=
    match l with
    | [] => True
    | a :: l' => (forall b, In b l' -> le (e_uk a) (e_uk b)) /\ uk_sorted l'
    end.

  Lemma ssorted_uk_sorted l : ssorted c l -> uk_sorted l.
  Proof.
    induction l as [|a l IH]; [intros _; exact I|]. intros [Hall Hs]. split; [|apply IH; exact Hs].
    intros b Hb. rewrite Forall_forall in Hall. specialize (Hall b Hb). unfold ecmp, icmp in Hall. cbn [uk e_ikey] in Hall.
    unfold Order.le. destruct (cmp c (e_uk a) (e_uk b)); congruence.
  Qed.

  Lemma good_entries_app a b : good_entries (a ++ b) = good_entries a ++ good_entries b.
  Proof. unfold good_entries. rewrite map_app, concat_app. reflexivity. Qed.

  Lemma good_entries_map l : good_entries (map IGood l) = l.
  Proof. induction l as [|x l IH]; [reflexivity|]. unfold good_entries in *. cbn [map concat app]. rewrite IH. reflexivity. Qed.

  Lemma goods_map l : goods l -> map IGood (good_entries l) = l.
  Proof.
    induction 1 as [|x l Hx _ IH]; [reflexivity|]. destruct x as [e|k v]; [|discriminate].
    unfold good_entries in *. cbn [map concat app]. rewrite IH. reflexivity.
  Qed.

  (* ---- cuts_ok grows at the end ---- *)
  Lemma cuts_ok_snoc outs o : cuts_ok c outs = true -> o <> [] ->
    (forall x y, In x (concat outs) -> In y o -> lt (e_uk x) (e_uk y)) -> cuts_ok c (outs ++ [o]) = true.
  Proof.
    induction outs as [|a rest IH]; intros H Ho Hsep.
    - destruct o; [congruence|reflexivity].
    - cbn [app]. cbn [cuts_ok] in H. apply andb_prop in H as [H H3]. apply andb_prop in H as [H1 H2].
      assert (IHr : cuts_ok c (rest ++ [o]) = true).
      { apply IH; [exact H3|exact Ho|]. intros x y Hx Hy. apply Hsep; [cbn [concat]; apply in_or_app; right; exact Hx|exact Hy]. }
      destruct rest as [|o2 r].
      + cbn [app]. cbn [cuts_ok]. rewrite H1. cbn [andb].
        destruct a as [|a0 a']; [discriminate|]. destruct o as [|y o']; [congruence|].
        rewrite (last_map_some (a0 :: a') no_entry) by discriminate. cbn [hd_error].
        assert (L : lt (e_uk (last (a0 :: a') no_entry)) (e_uk y)).
        { apply Hsep; [cbn [concat]; rewrite app_nil_r|left; reflexivity].
          apply (last_some_in (a0 :: a')). apply last_map_some. discriminate. }
        unfold Order.lt in L. rewrite L. reflexivity.
      + cbn [app] in *. cbn [cuts_ok]. cbn [cuts_ok] in IHr. rewrite H1, H2. cbn [andb]. exact IHr.
  Qed.

  (* ---- the invariant of the failure-free loop on good, ordered entries; l = the entries still to come ---- *)
  Record inv2 (s : bst) (l : list entry) : Prop := {
    i_cuts : cuts_ok c (fin s) = true;
    i_le : has s = true -> forall x, In x (total s) -> le (e_uk x) (ukey s);
    i_has : total s <> [] -> has s = true;
    i_none : tw s = None -> forall x, In x (concat (fin s)) -> lt (e_uk x) (ukey s);
    i_some : forall w, tw s = Some w ->
             cur s <> [] /\ tw_empty w = false /\
             forall x y, In x (concat (fin s)) -> In y (cur s) -> lt (e_uk x) (e_uk y);
    i_next : has s = true -> forall e, In e l -> le (ukey s) (e_uk e);
    i_ptrs : forall e, In e l -> ptrs_ok c (e_uk e) deeper (cs_ptrs (cs s));
    i_good : all_good s
  }.

  Lemma should_stop_ptrs x ik : cs_ptrs (snd (should_stop c sz gp maxgp x ik)) = cs_ptrs x.
  Proof.
    unfold should_stop. destruct (ssb_loop c sz (skipn (cs_gpi x) gp) (cs_gpi x) (cs_seen x) (cs_bytes x) ik) as [g b].
    destruct (maxgp <? b)%N; reflexivity.
  Qed.

  (* a change of the compaction's gp fields only *)
  Lemma inv2_set_cs s l x : cs_ptrs x = cs_ptrs (cs s) -> inv2 s l -> inv2 (set_cs s x) l.
  Proof.
    intros E [H1 H2 H3 H4 H5 H6 H7 H8]. constructor; try assumption.
    intros e He. cbn [cs set_cs]. rewrite E. apply H7. exact He.
  Qed.

  Lemma concat_snoc {A} (l : list (list A)) x : concat (l ++ [x]) = concat l ++ x.
  Proof. rewrite concat_app. cbn [concat]. rewrite app_nil_r. reflexivity. Qed.

  (* phase A: shouldStopBefore, the first-occurrence block *)
  Lemma phaseA_inv i e l' s : inv2 s (e :: l') -> uk_sorted (e :: l') ->
    exists s3, phaseA o_ok false i e s = SCont s3 /\ inv2 s3 (e :: l') /\
      has s3 = true /\ ukey s3 = e_uk e /\ lseq s3 = last_seq c p (lastof s) e /\
      total s3 = total s /\ kerr s3 = kerr s /\ drop s3 = drop s.
  Proof.
    intros I [Hsort _]. unfold BuilderProofs.phaseA.
    destruct (should_stop c sz gp maxgp (cs s) (e_ikey e)) as [stop cs1] eqn:ES.
    assert (Ep : cs_ptrs cs1 = cs_ptrs (cs s)).
    { pose proof (should_stop_ptrs (cs s) (e_ikey e)) as Q. rewrite ES in Q. exact Q. }
    pose proof (inv2_set_cs s (e :: l') cs1 Ep I) as I1.
    set (s1 := set_cs s cs1) in *.
    assert (Le : has s = true -> le (ukey s) (e_uk e)) by (intros Hh; apply (i_next s _ I Hh); left; reflexivity).
    destruct (first_occ c s1 (e_uk e)) eqn:F.
    - (* first occurrence of this user key *)
      assert (Lt1 : has s = true -> lt (ukey s) (e_uk e)).
      { intros Hh. specialize (Le Hh). unfold first_occ in F. cbn [has ukey set_cs s1] in F. rewrite Hh in F. cbn [negb orb] in F.
        unfold Order.lt, Order.le in *. destruct (cmp c (ukey s) (e_uk e)); congruence. }
      assert (Els : last_seq c p (lastof s) e = keyMaxSeq p).
      { unfold last_seq, lastof. destruct (has s) eqn:Hh; [|reflexivity]. rewrite (Lt1 eq_refl). reflexivity. }
      assert (Hnext : forall b, In b (e :: l') -> le (e_uk e) (e_uk b)).
      { intros b [<-|Hb]; [apply (OrderProofs.le_refl c ok)|apply Hsort; exact Hb]. }
      destruct (tw s1) as [w|] eqn:T.
      + destruct (i_some s1 _ I1 w T) as [C1 [C2 C3]].
        assert (Hh : has s = true).
        { apply (i_has s1 _ I1). unfold total. intros Q. apply app_eq_nil in Q as [_ Q]. exact (C1 Q). }
        destruct (stop || need_flush tableSize tsize w).
        * (* flush + snapshot *)
          cbn [o_flush o_ok].
          set (m := flush_and_snapshot i w s1).
          assert (Fm : fin m = fin s1 ++ [cur s1]).
          { unfold fin, out_items, m. cbn [recs flush_and_snapshot]. rewrite !map_app. cbn [map o_items to_otable].
            unfold cur. rewrite T. reflexivity. }
          assert (Tm : total m = total s1).
          { unfold total at 1. rewrite Fm, concat_snoc. unfold cur at 1. cbn [tw m flush_and_snapshot]. rewrite app_nil_r. reflexivity. }
          eexists. split; [reflexivity|].
          assert (Lall : forall x, In x (total s1) -> lt (e_uk x) (e_uk e)).
          { intros x Hx. apply (OrderProofs.le_lt_trans c ok _ (ukey s)); [apply (i_le s1 _ I1 Hh x Hx)|apply Lt1; exact Hh]. }
          split; [|repeat split; try reflexivity; [symmetry; exact Els|exact Tm]].
          constructor.
          -- change (cuts_ok c (fin m) = true). rewrite Fm. apply cuts_ok_snoc; [apply (i_cuts s1 _ I1)|exact C1|exact C3].
          -- intros _ x Hx. change (In x (total m)) in Hx. rewrite Tm in Hx. apply (OrderProofs.lt_le c). apply Lall. exact Hx.
          -- intros _. reflexivity.
          -- intros _ x Hx. change (In x (concat (fin m))) in Hx. apply Lall. unfold total.
             rewrite Fm, concat_snoc in Hx. exact Hx.
          -- intros w' Hw'. discriminate.
          -- intros _ b Hb. apply Hnext. exact Hb.
          -- intros b Hb. apply (i_ptrs s1 _ I1 b Hb).
          -- destruct (i_good s1 _ I1) as [G1 G2]. split.
             ++ change (Forall (fun o => goods (o_items o)) (recs s1 ++ [to_otable w])). apply Forall_app. split; [exact G1|].
                constructor; [apply (G2 w T)|constructor].
             ++ intros w' Hw'. discriminate.
        * eexists. split; [reflexivity|].
          split; [|repeat split; try reflexivity; symmetry; exact Els].
          constructor.
          -- apply (i_cuts s1 _ I1).
          -- intros _ x Hx. apply (OrderProofs.lt_le c). apply (OrderProofs.le_lt_trans c ok _ (ukey s)); [apply (i_le s1 _ I1 Hh x Hx)|apply Lt1; exact Hh].
          -- intros _. reflexivity.
          -- intros Tn. change (tw s1 = None) in Tn. rewrite T in Tn. discriminate.
          -- intros w' Hw'. apply (i_some s1 _ I1 w' Hw').
          -- intros _ b Hb. apply Hnext. exact Hb.
          -- intros b Hb. apply (i_ptrs s1 _ I1 b Hb).
          -- apply (i_good s1 _ I1).
      + eexists. split; [reflexivity|].
        split; [|repeat split; try reflexivity; symmetry; exact Els].
        constructor.
        * apply (i_cuts s1 _ I1).
        * intros _ x Hx. change (In x (total s1)) in Hx.
          assert (Hh : has s = true) by (apply (i_has s1 _ I1); intros Q; rewrite Q in Hx; destruct Hx).
          apply (OrderProofs.lt_le c). apply (OrderProofs.le_lt_trans c ok _ (ukey s)); [apply (i_le s1 _ I1 Hh x Hx)|apply Lt1; exact Hh].
        * intros _. reflexivity.
        * intros _ x Hx. change (In x (concat (fin s1))) in Hx.
          assert (Hh : has s = true).
          { apply (i_has s1 _ I1). unfold total. intros Q. apply app_eq_nil in Q as [Q _]. rewrite Q in Hx. destruct Hx. }
          apply (OrderProofs.lt_trans c ok _ (ukey s)); [apply (i_none s1 _ I1 T x Hx)|apply Lt1; exact Hh].
        * intros w' Hw'. change (tw s1 = Some w') in Hw'. rewrite T in Hw'. discriminate.
        * intros _ b Hb. apply Hnext. exact Hb.
        * intros b Hb. apply (i_ptrs s1 _ I1 b Hb).
        * apply (i_good s1 _ I1).
    - (* same user key as the previous entry *)
      unfold first_occ in F. cbn [has ukey set_cs s1] in F. apply Bool.orb_false_iff in F as [F1 F2].
      apply Bool.negb_false_iff in F1.
      assert (Eu : ukey s = e_uk e).
      { apply (cmp_eq c ok). destruct (cmp c (ukey s) (e_uk e)); [reflexivity|discriminate|discriminate]. }
      exists s1. split; [reflexivity|]. split; [exact I1|]. repeat split; try reflexivity; try assumption.
      unfold last_seq, lastof. rewrite F1, Eu, (OrderProofs.cmp_refl c ok). reflexivity.
  Qed.

  Lemma total_append s e : total (set_tw s (Some (tw_append (tw s) (IGood e)))) = total s ++ [e].
  Proof.
    unfold total, cur, fin. cbn [tw set_tw out_items recs]. destruct (tw s) as [w|]; cbn [tw_append w_items].
    - rewrite good_entries_app. rewrite app_assoc. reflexivity.
    - rewrite app_nil_r. reflexivity.
  Qed.

  (* the drop decision of Compact.drop_run, as a boolean *)
  Definition dropped (ls : N) (e : entry) : bool :=
    ((ls <=? minSeq) || ((e_kind e =? keyTypeDel p) && (e_seq e <=? minSeq) && is_base c deeper (e_uk e)))%N.

  Lemma drop_run_cons last e l :
    K last (e :: l) = if dropped (last_seq c p last e) e then K (Some (e_uk e, e_seq e)) l
                      else e :: K (Some (e_uk e, e_seq e)) l.
  Proof.
    cbn [drop_run]. unfold dropped. destruct (last_seq c p last e <=? minSeq)%N; [reflexivity|]. cbn [orb].
    destruct ((e_kind e =? keyTypeDel p) && (e_seq e <=? minSeq) && is_base c deeper (e_uk e))%N; reflexivity.
  Qed.

  (* phase B: the drop rule and appendKV *)
  Lemma phaseB_inv i e l' s3 : inv2 s3 (e :: l') -> uk_sorted (e :: l') -> has s3 = true -> ukey s3 = e_uk e ->
    exists s', phaseB o_ok i e s3 = SCont s' /\ inv2 s' l' /\ lastof s' = Some (e_uk e, e_seq e) /\ kerr s' = kerr s3 /\
      if dropped (lseq s3) e then total s' = total s3 /\ drop s' = (drop s3 + 1)%N
      else total s' = total s3 ++ [e] /\ drop s' = drop s3.
  Proof.
    intros I [Hsort _] Hh Eu.
    assert (Ptr' : forall ptrs, cs_ptrs (cs s3) = ptrs \/ ptrs_ok c (e_uk e) deeper ptrs ->
                   forall b, In b l' -> ptrs_ok c (e_uk b) deeper ptrs).
    { intros ptrs [<-|P] b Hb; [apply (i_ptrs s3 _ I); right; exact Hb|].
      apply (ptrs_ok_mono c ok (e_uk e)); [apply Hsort; exact Hb|exact P]. }
    (* an entry that is dropped *)
    assert (Dropped : forall ptrs, cs_ptrs (cs s3) = ptrs \/ ptrs_ok c (e_uk e) deeper ptrs ->
              inv2 (drop_entry (set_ptrs s3 ptrs) (e_seq e)) l').
    { intros ptrs HP. constructor.
      - apply (i_cuts s3 _ I).
      - intros _ x Hx. apply (i_le s3 _ I Hh x Hx).
      - intros _. exact Hh.
      - intros T x Hx. apply (i_none s3 _ I T x Hx).
      - intros w Hw. apply (i_some s3 _ I w Hw).
      - intros _ b Hb. change (le (ukey s3) (e_uk b)). rewrite Eu. apply Hsort. exact Hb.
      - intros b Hb. apply (Ptr' ptrs HP b Hb).
      - apply (i_good s3 _ I). }
    (* an entry that is kept *)
    assert (Kept : forall ptrs, cs_ptrs (cs s3) = ptrs \/ ptrs_ok c (e_uk e) deeper ptrs ->
              forall s4, s4 = set_seq (set_ptrs s3 ptrs) (e_seq e) ->
              inv2 (set_tw s4 (Some (tw_append (tw s4) (IGood e)))) l').
    { intros ptrs HP s4 ->. set (s4 := set_seq (set_ptrs s3 ptrs) (e_seq e)).
      assert (Tot : total (set_tw s4 (Some (tw_append (tw s4) (IGood e)))) = total s3 ++ [e]) by (rewrite total_append; reflexivity).
      constructor.
      - apply (i_cuts s3 _ I).
      - intros _ x Hx. rewrite Tot in Hx. change (le (e_uk x) (ukey s3)). apply in_app_or in Hx as [Hx|[<-|[]]].
        + apply (i_le s3 _ I Hh x Hx).
        + rewrite Eu. apply (OrderProofs.le_refl c ok).
      - intros _. exact Hh.
      - intros T. discriminate.
      - intros w Hw. cbn [tw set_tw] in Hw. injection Hw as <-.
        assert (Cur : cur (set_tw s4 (Some (tw_append (tw s4) (IGood e)))) = cur s3 ++ [e]).
        { unfold cur. cbn [tw set_tw]. change (tw s4) with (tw s3). destruct (tw s3) as [w0|]; cbn [tw_append w_items].
          - apply good_entries_app.
          - reflexivity. }
        rewrite Cur. split; [destruct (cur s3); discriminate|]. split.
        + change (tw s4) with (tw s3). destruct (tw s3) as [w0|] eqn:T3; unfold tw_empty; cbn [tw_append w_first].
          * destruct (i_some s3 _ I w0 T3) as [_ [Q _]]. unfold tw_empty in Q. destruct (w_first w0); [reflexivity|discriminate].
          * reflexivity.
        + intros x y Hx Hy. change (In x (concat (fin s3))) in Hx. apply in_app_or in Hy as [Hy|[<-|[]]].
          * destruct (tw s3) as [w0|] eqn:T3; [|unfold cur in Hy; rewrite T3 in Hy; destruct Hy].
            destruct (i_some s3 _ I w0 T3) as [_ [_ Q]]. apply Q; assumption.
          * destruct (tw s3) as [w0|] eqn:T3.
            -- destruct (i_some s3 _ I w0 T3) as [Q1 [_ Q3]]. destruct (cur s3) as [|y0 cr] eqn:Ec; [congruence|].
               apply (OrderProofs.lt_le_trans c ok _ (e_uk y0)); [apply Q3; [exact Hx|left; reflexivity]|].
               rewrite <- Eu. apply (i_le s3 _ I Hh). unfold total. apply in_or_app. right. rewrite Ec. left. reflexivity.
            -- rewrite <- Eu. apply (i_none s3 _ I T3 x Hx).
      - intros _ b Hb. change (le (ukey s3) (e_uk b)). rewrite Eu. apply Hsort. exact Hb.
      - intros b Hb. apply (Ptr' ptrs HP b Hb).
      - destruct (i_good s3 _ I) as [G1 G2]. split; [exact G1|]. intros w Hw. cbn [tw set_tw] in Hw. injection Hw as <-.
        change (tw s4) with (tw s3). destruct (tw s3) as [w0|] eqn:T3; cbn [tw_append w_items].
        + apply Forall_app. split; [apply (G2 w0 eq_refl)|constructor; [reflexivity|constructor]].
        + constructor; [reflexivity|constructor]. }
    assert (Same : set_ptrs s3 (cs_ptrs (cs s3)) = s3) by (destruct s3 as [? ? ? ? ? [? ? ? ?] ? ? ?]; reflexivity).
    unfold BuilderProofs.phaseB, dropped.
    destruct (lseq s3 <=? minSeq)%N eqn:E1.
    { cbn [orb]. eexists. split; [reflexivity|]. split.
      - rewrite <- Same. apply Dropped. left. reflexivity.
      - unfold lastof. cbn. rewrite Hh, Eu. repeat split; reflexivity. }
    cbn [orb]. destruct ((e_kind e =? keyTypeDel p) && (e_seq e <=? minSeq))%N eqn:E2.
    - assert (P0 : ptrs_ok c (e_uk e) deeper (cs_ptrs (cs s3))) by (apply (i_ptrs s3 _ I); left; reflexivity).
      destruct (base_levels_spec c ok p (e_uk e) deeper (cs_ptrs (cs s3)) Dok P0) as [B1 B2].
      rewrite Eu. destruct (base_levels c deeper (cs_ptrs (cs s3)) (e_uk e)) as [b ptrs'] eqn:EB. cbn [fst snd] in B1, B2.
      rewrite <- B1. cbn [andb]. destruct b.
      + eexists. split; [reflexivity|]. split; [apply Dropped; right; exact B2|].
        unfold lastof. cbn. rewrite Hh, Eu. repeat split; reflexivity.
      + cbn [append_kv]. unfold append_kv. cbn [o_append o_ok].
        assert (R : forall s4, (match tw s4 with None => SCont (set_tw s4 (Some (tw_append (tw s4) (IGood e))))
                                | Some _ => SCont (set_tw s4 (Some (tw_append (tw s4) (IGood e)))) end)
                               = SCont (set_tw s4 (Some (tw_append (tw s4) (IGood e))))) by (intros s4; destruct (tw s4); reflexivity).
        rewrite R. eexists. split; [reflexivity|]. split; [apply (Kept ptrs'); [right; exact B2|reflexivity]|].
        split; [unfold lastof; cbn; rewrite Hh, Eu; reflexivity|]. split; [reflexivity|].
        split; [|reflexivity]. rewrite total_append. reflexivity.
    - cbn [andb]. unfold append_kv. cbn [o_append o_ok].
      assert (R : forall s4, (match tw s4 with None => SCont (set_tw s4 (Some (tw_append (tw s4) (IGood e))))
                              | Some _ => SCont (set_tw s4 (Some (tw_append (tw s4) (IGood e)))) end)
                             = SCont (set_tw s4 (Some (tw_append (tw s4) (IGood e))))) by (intros s4; destruct (tw s4); reflexivity).
      rewrite R. eexists. split; [reflexivity|]. split.
      + apply (Kept (cs_ptrs (cs s3))); [left; reflexivity|]. rewrite Same. reflexivity.
      + split; [unfold lastof; cbn; rewrite Hh, Eu; reflexivity|]. split; [reflexivity|].
        split; [|reflexivity]. rewrite total_append. reflexivity.
  Qed.

  (* ---- the whole loop ---- *)
  Lemma loop_good : forall l i s, uk_sorted l -> inv2 s l ->
    exists sf, run_loop o_ok 0 i false (map IGood l) s = (sf, ROk) /\
      tw sf = None /\ cuts_ok c (fin sf) = true /\ all_good sf /\
      concat (fin sf) = total s ++ K (lastof s) l /\ kerr sf = kerr s /\
      (drop sf + N.of_nat (length (K (lastof s) l)) = drop s + N.of_nat (length l))%N.
  Proof.
    induction l as [|e l IH]; intros i s Hs I.
    - cbn [map Builder.run_loop o_next o_ok o_flush drop_run length]. destruct (tw s) as [w|] eqn:T.
      + destruct (i_some s _ I w T) as [C1 [C2 C3]]. rewrite C2.
        eexists. split; [reflexivity|]. split; [reflexivity|].
        assert (Ff : fin {| has := has s; ukey := ukey s; lseq := lseq s; kerr := kerr s; drop := drop s; cs := cs s;
                            tw := None; recs := recs s ++ [to_otable w]; snap := snap s |} = fin s ++ [cur s]).
        { unfold fin, out_items. cbn [recs]. rewrite !map_app. cbn [map o_items to_otable]. unfold cur. rewrite T. reflexivity. }
        rewrite Ff. split; [apply cuts_ok_snoc; [apply (i_cuts s _ I)|exact C1|exact C3]|]. split.
        * destruct (i_good s _ I) as [G1 G2]. split; [|intros w' Hw'; discriminate].
          cbn [recs]. apply Forall_app. split; [exact G1|constructor; [apply (G2 w T)|constructor]].
        * rewrite concat_snoc, app_nil_r. unfold total. split; [reflexivity|]. split; [reflexivity|cbn [kerr drop]; lia].
      + exists s. split; [reflexivity|]. split; [exact T|]. split; [apply (i_cuts s _ I)|]. split; [apply (i_good s _ I)|].
        unfold total, cur. rewrite T, !app_nil_r. split; [reflexivity|]. split; [reflexivity|lia].
    - cbn [map Builder.run_loop o_next o_ok]. cbn [Nat.ltb Nat.leb]. cbn [Builder.step].
      rewrite (step_good_split c p sz gp maxgp deeper minSeq tableSize tsize).
      destruct (phaseA_inv i e l s I Hs) as [s3 [EA [I3 [Hh [Eu [Els [Et [Ek Ed]]]]]]]].
      rewrite EA. destruct (phaseB_inv i e l s3 I3 Hs Hh Eu) as [s' [EB [I' [El' [Ek' Hd]]]]].
      rewrite EB. destruct Hs as [_ Hs'].
      destruct (IH (S i) s' Hs' I') as [sf [R [T [Cu [G [Cc [Kk Dd]]]]]]].
      exists sf. split; [exact R|]. split; [exact T|]. split; [exact Cu|]. split; [exact G|].
      rewrite (drop_run_cons (lastof s) e l). rewrite <- Els. rewrite El' in Cc, Dd.
      destruct (dropped (lseq s3) e).
      + destruct Hd as [Ht Hdr]. rewrite Ht, Et in Cc. split; [exact Cc|]. split; [congruence|].
        rewrite Hdr, Ed in Dd. cbn [length]. lia.
      + destruct Hd as [Ht Hdr]. rewrite Ht, Et in Cc. rewrite <- app_assoc in Cc. split; [exact Cc|]. split; [congruence|].
        rewrite Hdr, Ed in Dd. cbn [length]. lia.
  Qed.

  Lemma inv2_init l : inv2 bst0 l.
  Proof.
    constructor.
    - reflexivity.
    - intros H. discriminate.
    - intros H. exfalso. apply H. reflexivity.
    - intros _ x [].
    - intros w H. discriminate.
    - intros H. discriminate.
    - intros e _. apply ptrs_ok_init.
    - split; [constructor|intros w H; discriminate].
  Qed.

  (* the failure-free run on good ordered entries *)
  Theorem builder_good es : uk_sorted es ->
    exists sf, run_attempt o_ok (map IGood es) bst0 = (sf, ROk) /\
      out_items sf = map (map IGood) (fin sf) /\
      cuts_ok c (fin sf) = true /\
      concat (fin sf) = K None es /\
      kerr sf = 0%N /\ (drop sf + N.of_nat (length (K None es)) = N.of_nat (length es))%N.
  Proof.
    intros Hs. destruct (loop_good es 0 bst0 Hs (inv2_init es)) as [sf [R [T [Cu [G [Cc [Kk Dd]]]]]]].
    exists sf. unfold Builder.run_attempt.
    change (restore bst0) with bst0. change (sn_iter (snap bst0)) with 0. change (Nat.ltb 0 0) with false.
    rewrite R. unfold cleanup. cbn [fst snd]. rewrite T. split; [reflexivity|]. split.
    - destruct G as [G1 _]. unfold fin, out_items. clear -G1.
      induction G1 as [|o r Ho _ IH]; [reflexivity|]. cbn [map]. f_equal; [symmetry; apply goods_map; exact Ho|exact IH].
    - split; [exact Cu|]. split; [exact Cc|]. split; [exact Kk|exact Dd].
  Qed.

  (* ... hence what compactionTransact ends with after any history of transient failures *)
  Theorem transact_good es os s' : uk_sorted es -> transact os (map IGood es) bst0 = (s', TDone) ->
      out_items s' = map (map IGood) (fin s') /\
      cuts_ok c (fin s') = true /\
      concat (fin s') = K None es /\
      kerr s' = 0%N /\ (drop s' + N.of_nat (length (K None es)) = N.of_nat (length es))%N.
  Proof.
    intros Hs H. destruct (builder_good es Hs) as [sf [R Q]].
    pose proof (retry_invariant c p sz gp maxgp deeper minSeq strict tableSize tsize (map IGood es) os s' H) as E.
    rewrite R in E. injection E as ->. exact Q.
  Qed.
End Cuts.
