(* Lsm/WritePathTable.v — C01_writer_output_ok: the file the model table writer (Codec/Table.v, with the DB's iComparer
   Lsm/WritePath.v iwc and the session's options) produces for a strictly increasing non-empty list of stored internal
   keys passes the byte-level format check of the read path (Lsm/ReadPath.v tfile_okb) with recorded bounds = first and
   last key, and decodes (Codec/TableCheck.v table_check) to exactly the pairs written.  This discharges "the table
   writer produces files passing tfile_okb" for the MODEL writer; that the Go writer's bytes are the model writer's bytes
   is the correspondence (C13 KWrite, C01 KFlushBytes/KCompactBytes).
   Layers used: C13 (TableWriteProofs / TableWriteSnappyProofs through Lsm/WriterExact.v), C15 (IKeyProofs isep_law,
   isucc_law), ReadPathKey. *)
From GL Require Import Base.Bytes Base.BytesProofs Base.Varint Base.Order Base.OrderProofs Base.Cursor Codec.BytesCmp Codec.IKey
  Codec.IKeyProofs Codec.Block Codec.BlockEnc Codec.Table Codec.TableProofs Codec.TableCheck Codec.TableCheckProofs
  Codec.TableSizes Codec.TableWriteProofs Lsm.Lsm Lsm.ReadPath Lsm.ReadPathKey Lsm.WritePath Lsm.WriterExact.
From Coq Require Import Arith ZArith Lia.
Open Scope N_scope.

(* NewReader never uses the comparer for anything but the (unsliced) metaindex iterator *)
Lemma open_table_cmp_indep tp crc decompress fcontains c1 c2 file fname verify :
  open_table tp crc decompress fcontains c1 file fname verify = open_table tp crc decompress fcontains c2 file fname verify.
Proof. reflexivity. Qed.

Section Iwc.
  Variable c : comparer.
  Hypothesis ok : comparer_ok c.
  Variable p : kparams.
  Hypothesis pok : kparams_ok p.

  Lemma maxnum_bound : keyMaxNum p < 2 ^ 64.
  Proof.
    destruct pok as (_ & _ & _ & H256 & Hmax & Hnum). rewrite Hnum, Hmax.
    change (2 ^ 64) with (2 ^ 56 * 256). change (2 ^ 56) with 72057594037927936. nia.
  Qed.

  Lemma enc_short_dec k s : enc_short k = Some s -> exists z, k = Some z /\ s = encode_ikey z /\ wf_bytes (uk z).
  Proof.
    unfold enc_short. destruct k as [z|]; [|discriminate]. destruct (wf_bytesb (uk z)) eqn:W; [|discriminate].
    intros H. injection H as <-. exists z. split; [reflexivity|]. split; [reflexivity|]. apply wf_bytesb_ok. exact W.
  Qed.

  Lemma isep_num a b z : isep c p a b = Some z -> num z = keyMaxNum p.
  Proof.
    unfold isep. destruct (sep c (uk a) (uk b)); [|discriminate].
    destruct (_ && _); [|discriminate]. intros H. injection H as <-. reflexivity.
  Qed.
  Lemma isucc_num b z : isucc c p b = Some z -> num z = keyMaxNum p.
  Proof.
    unfold isucc. destruct (succ c (uk b)); [|discriminate].
    destruct (_ && _); [|discriminate]. intros H. injection H as <-. reflexivity.
  Qed.

  Theorem iwc_ok : comparer_ok (iwc c p).
  Proof.
    pose proof (ibc_ok c ok) as [E O T _ _].
    constructor; [exact E | exact O | exact T | |]; cbn [cmp sep succ iwc].
    - intros a b s. destruct (ik_dec a) as [x|] eqn:A; [|discriminate]. destruct (ik_dec b) as [y|] eqn:B; [|discriminate].
      intros H. apply enc_short_dec in H as (z & Ez & -> & Wz).
      pose proof (isep_law c ok p x y z Ez) as [L1 L2].
      assert (D : ik_dec (encode_ikey z) = Some z).
      { apply ik_dec_encode; [exact Wz|]. rewrite (isep_num _ _ _ Ez). exact maxnum_bound. }
      unfold ibc_cmp. rewrite A, B, D, L1, L2. split; [discriminate|reflexivity].
    - intros b s. destruct (ik_dec b) as [y|] eqn:B; [|discriminate].
      intros H. apply enc_short_dec in H as (z & Ez & -> & Wz).
      pose proof (isucc_law c p y z Ez) as L1.
      assert (D : ik_dec (encode_ikey z) = Some z).
      { apply ik_dec_encode; [exact Wz|]. rewrite (isucc_num _ _ Ez). exact maxnum_bound. }
      unfold ibc_cmp. rewrite B, D, L1. discriminate.
  Qed.

  (* the empty key is least (Writer.flushPendingBH tests len(key) == 0 for "no next key") *)
  Lemma iwc_empty_least k : cmp (iwc c p) [] k <> Gt.
  Proof.
    cbn [cmp iwc]. unfold ibc_cmp. change (ik_dec []) with (@None ikey).
    destruct (ik_dec k); [discriminate|]. destruct k; cbn; discriminate.
  Qed.

  (* a key not below a decodable key is decodable *)
  Lemma ge_decodable a b x : ik_dec a = Some x -> cmp (ibc c) a b <> Gt -> ik_validb b = true.
  Proof.
    intros A H. unfold ik_validb. destruct (ik_dec b) eqn:B; [reflexivity|].
    exfalso. apply H. cbn [cmp ibc]. unfold ibc_cmp. rewrite A, B. reflexivity.
  Qed.
End Iwc.

Lemma sorted_from_cmp_ext {V} (c1 c2 : comparer) : (forall a b, cmp c1 a b = cmp c2 a b) ->
  forall (l : list (bytes * V)) k, Cursor.sorted_from c1 k l -> Cursor.sorted_from c2 k l.
Proof.
  intros E. induction l as [|[k' v'] r IH]; intros k H; cbn [Cursor.sorted_from] in *; [exact I|].
  destruct H as [H1 H2]. split; [rewrite <- E; exact H1 | apply IH; exact H2].
Qed.
Lemma sorted_cmp_ext {V} (c1 c2 : comparer) : (forall a b, cmp c1 a b = cmp c2 a b) ->
  forall (l : list (bytes * V)), Cursor.sorted c1 l -> Cursor.sorted c2 l.
Proof. intros E [|[k v] r]; cbn [Cursor.sorted]; [trivial | apply sorted_from_cmp_ext; exact E]. Qed.

Lemma forallb_ext_all {A} (f g : A -> bool) l : (forall x, f x = g x) -> forallb f l = forallb g l.
Proof. intros E. induction l as [|x l IH]; [reflexivity|]. cbn [forallb]. rewrite E, IH. reflexivity. Qed.

Lemma sortedb_from_cmp_ext (c1 c2 : comparer) : (forall a b, cmp c1 a b = cmp c2 a b) ->
  forall l k, TableCheck.sortedb_from c1 k l = TableCheck.sortedb_from c2 k l.
Proof.
  intros E. induction l as [|[k' v'] r IH]; intros k; cbn [TableCheck.sortedb_from]; [reflexivity|].
  unfold Order.ltb. rewrite E, IH. reflexivity.
Qed.

Lemma table_wfb_cmp_ext (c1 c2 : comparer) rd ri bl se hs : (forall a b, cmp c1 a b = cmp c2 a b) ->
  table_wfb c1 rd ri bl se hs = table_wfb c2 rd ri bl se hs.
Proof.
  intros E. unfold table_wfb.
  assert (S : TableCheck.sortedb c1 (concat bl) = TableCheck.sortedb c2 (concat bl)).
  { destruct (concat bl) as [|[k v] r]; [reflexivity|]. cbn [TableCheck.sortedb]. apply sortedb_from_cmp_ext. exact E. }
  rewrite S. f_equal. f_equal. f_equal.
  apply forallb_ext_all. intros j.
  rewrite (forallb_ext_all (fun x => Order.leb c1 (fst x) (nth j se [])) (fun x => Order.leb c2 (fst x) (nth j se [])))
    by (intros x; unfold Order.leb; rewrite E; reflexivity).
  rewrite (forallb_ext_all (fun x => Order.ltb c1 (nth j se []) (fst x)) (fun x => Order.ltb c2 (nth j se []) (fst x)))
    by (intros x; unfold Order.ltb; rewrite E; reflexivity).
  reflexivity.
Qed.

Section WriterOutput.
  Variable c : comparer.
  Hypothesis ok : comparer_ok c.
  Variable p : kparams.
  Hypothesis pok : kparams_ok p.
  Variable tp : tparams.
  Hypothesis tp_ok : tparams_ok tp.
  Variable crc : bytes -> N.
  Hypothesis crc_bound : forall b, crc b < 2 ^ 32.
  Variable compress : bytes -> bytes.
  Variable decompress : bytes -> option bytes.
  Hypothesis codec_ok : forall x, decompress (compress x) = Some x.
  Hypothesis compress_ne : forall x, compress x <> [].
  Variable fname : option bytes.
  Variable ufc : bytes -> N -> bytes -> bool.
  Variable verify : bool.
  Variable o : wopts.
  Hypothesis ri_pos : 1 <= wo_ri o.

  Local Notation icr := (ibc c).
  Local Notation icw := (iwc c p).
  Local Notation ri := (wo_ri o).
  Local Notation okb := (tfile_okb c p tp crc decompress fname ufc verify ri).
  Local Notation pairs := (tf_pairs c tp crc decompress fname ufc verify ri).
  Local Notation tbytes := (table_bytes c p tp crc compress o).
  Local Notation sizes_ok := (write_sizes_ok c p tp crc compress o).

  (* table_bytes is Codec/Table.v twrite with a filter generator that has the same name *)
  Lemma table_bytes_twrite kvs data : tbytes kvs = Some data ->
    exists fg, twrite tp crc compress icw (wo_blockSize o) ri (wo_snappy o) fg kvs = Some data /\
      (wo_filter o = None -> fg = None) /\
      match wo_filter o, fg with
      | Some (n, _), Some (n', _) => n = n'
      | None, None => True
      | _, _ => False
      end.
  Proof.
    unfold table_bytes, twrite.
    destruct (tw_append_all tp crc compress icw (wo_blockSize o) ri (wo_snappy o) Table.tw_empty kvs) as [w|]; [|discriminate].
    destruct (wo_filter o) as [[name gen]|].
    - destruct (gen _ _) as [content|]; [|discriminate]. intros H. injection H as <-.
      exists (Some (name, fun _ => content)). split; [reflexivity|]. split; [discriminate|reflexivity].
    - intros H. injection H as <-. exists None. split; [reflexivity|]. split; [reflexivity|exact I].
  Qed.

  Lemma sizes_ok_fg kvs fg :
    match wo_filter o, fg with
    | Some (n, _), Some (n', _) => n = n'
    | None, None => True
    | _, _ => False
    end ->
    table_sizes_ok tp crc compress icw (wo_blockSize o) ri (wo_snappy o)
      (match wo_filter o with Some (name, _) => Some (name, fun _ => []) | None => None end) kvs =
    table_sizes_ok tp crc compress icw (wo_blockSize o) ri (wo_snappy o) fg kvs.
  Proof.
    unfold table_sizes_ok. destruct (wo_filter o) as [[n g]|]; destruct fg as [[n' g']|]; intros H; try contradiction; subst; reflexivity.
  Qed.

  (* the part of tfile_okb about the filter: with no filter policy configured for the writer it holds because the
     reader finds no filter block; with a policy it is the no-false-negative condition of property C16, which the
     correspondence run checks per written table (hypothesis [filter_part] below) *)
  Definition filter_part (f : tfile) : bool :=
    let rd := tf_reader c tp crc decompress fname ufc verify f in
    match table_parse rd with
    | Some (bl, se, hs) => filter_okb c rd bl se hs
    | None => false
    end.

  Theorem writer_output_ok num kvs data :
    Cursor.sorted icr kvs -> kvs <> [] -> Forall (fun kv => key_okb p (fst kv) = true) kvs ->
    tbytes kvs = Some data -> sizes_ok kvs = true ->
    (wo_filter o = None \/ filter_part (mkTF num (key_first kvs) (key_last kvs) data) = true) ->
    okb (mkTF num (key_first kvs) (key_last kvs) data) = true /\
    pairs (mkTF num (key_first kvs) (key_last kvs) data) = kvs /\
    table_check icr (tf_reader c tp crc decompress fname ufc verify (mkTF num (key_first kvs) (key_last kvs) data)) ri = Some kvs.
  Proof.
    intros Hs Hne Hk Hb Hsz Hfl.
    destruct (table_bytes_twrite kvs data Hb) as (fg & Hw & Hfg0 & Hfgn).
    unfold write_sizes_ok in Hsz. apply andb_prop in Hsz as [Hsz1 Hsz2]. rewrite Hb in Hsz2.
    rewrite (sizes_ok_fg kvs fg Hfgn) in Hsz1.
    assert (Hlen : lenN data < 2 ^ 32) by lia.
    assert (Hs' : Cursor.sorted icw kvs) by (apply (sorted_cmp_ext icr icw); [reflexivity|exact Hs]).
    destruct (table_written_exact tp tp_ok crc crc_bound compress decompress codec_ok compress_ne (ifc ufc) icw
                (iwc_ok c ok p pok) (iwc_empty_least c p) (wo_blockSize o) ri ri_pos fg (wo_snappy o) kvs data fname verify
                Hs' Hw Hlen Hsz1) as (bl & seps & hs & W & Ek & Hidx & Hisz & Hf & Hfilt).
    cbv zeta in W, Hidx, Hf, Hfilt.
    set (f := mkTF num (key_first kvs) (key_last kvs) data).
    assert (Erd : tf_reader c tp crc decompress fname ufc verify f =
                  open_table tp crc decompress (ifc ufc) icw data fname verify) by reflexivity.
    destruct (exact_check icw _ ri bl seps hs (iwc_ok c ok p pok) ri_pos W Hidx Hisz Hf) as [Hp Hwfb].
    assert (Hchk : table_check icr (tf_reader c tp crc decompress fname ufc verify f) ri = Some kvs).
    { unfold table_check. rewrite Erd, Hp. rewrite (table_wfb_cmp_ext icr icw) by reflexivity. rewrite Hwfb. unfold tkvs in Ek. rewrite Ek. reflexivity. }
    split; [|split; [unfold tf_pairs, ReadPath.ic; fold f; rewrite Hchk; reflexivity|exact Hchk]].
    unfold tfile_okb, ReadPath.ic. fold f. rewrite Erd, Hp. rewrite (table_wfb_cmp_ext icr icw) by reflexivity. rewrite Hwfb. cbn [andb].
    unfold tkvs in Ek. rewrite Ek.
    assert (K1 : forallb (fun kv => key_okb p (fst kv)) kvs = true) by (apply forallb_forall; rewrite Forall_forall in Hk; exact Hk).
    rewrite K1. cbn [andb].
    (* the separators are decodable: each is not below the last key of its (non-empty) block *)
    assert (K2 : forallb ik_validb seps = true).
    { apply forallb_forall. intros s Hin. destruct (In_nth _ _ [] Hin) as (j & Hj & <-).
      pose proof (twf_len_s _ _ _ _ _ W) as Q. pose proof (eq_ind _ (fun n => (j < n)%nat) Hj _ Q) as Hj'. clear Hj. rename Hj' into Hj. cbv beta in Hj.
      destruct (twf_blocks_ne _ _ _ _ _ W) as [Hbn|Hbn].
      - specialize (Hbn j Hj). destruct (nth j bl []) as [|x r] eqn:Eb; [congruence|].
        assert (Hx : In x kvs).
        { rewrite <- Ek. apply in_concat. exists (nth j bl []). split; [apply nth_In; exact Hj|rewrite Eb; left; reflexivity]. }
        rewrite Forall_forall in Hk. destruct (key_okb_dec p _ (Hk x Hx)) as (kx & Dx & _).
        apply (ge_decodable c (fst x) _ kx Dx).
        apply (twf_sep_ge _ _ _ _ _ W j x Hj). rewrite Eb. left. reflexivity.
      - exfalso. rewrite Hbn in Ek. cbn in Ek. congruence. }
    rewrite K2. cbn [andb].
    assert (K3 : filter_okb c (open_table tp crc decompress (ifc ufc) icw data fname verify) bl seps hs = true).
    { destruct Hfl as [Hnone|Hfp].
      - unfold filter_okb. rewrite (Hfilt (Hfg0 Hnone)). reflexivity.
      - unfold filter_part in Hfp. fold f in Hfp. rewrite Erd, Hp in Hfp. exact Hfp. }
    rewrite K3. cbn [andb].
    destruct kvs as [|kv r]; [congruence|]. cbn [key_first key_last f tf_imin tf_imax].
    apply andb_true_intro. split; apply beq_eq; reflexivity.
  Qed.
End WriterOutput.
