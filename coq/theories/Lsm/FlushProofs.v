(* Lsm/FlushProofs.v — the step lemma of property C06 for a flush: version.pickMemdbLevel (model Lsm/Pick.v) returns a
   level such that no table of a shallower level and, unless it is level 0, no table of that level overlaps the new
   table's user-key range; installing the new table there (finish, batch insert) keeps the invariant WfLsm.wf_lsm —
   including the cross-level clause: what lies above the new table shares no user key with it, what lies below is older. *)
From GL Require Import Base.Order Base.OrderProofs Codec.IKey Codec.IKeyProofs Lsm.Lsm Lsm.Compact Lsm.LsmProofs
  Lsm.WfProofs Lsm.CertProofs Lsm.Pick Lsm.PickBase Lsm.OverlapProofs Lsm.ExpandProofs Lsm.WfLsm Lsm.FinishProofs
  Lsm.InsertProofs Lsm.StepProofs.
From Coq Require Import Arith Lia Permutation.

Local Open Scope nat_scope.

Section Flush.
  Variable c : comparer.
  Hypothesis ok : comparer_ok c.
  Variable p : kparams.
  Hypothesis pok : kparams_ok p.
  Variable sz : table -> N.

  Notation wf_lsm := (wf_lsm c p).
  Notation tbl_ok := (tbl_ok c p).
  Notation umin_of := Pick.umin_of.
  Notation umax_of := Pick.umax_of.
  Notation lt := (Order.lt c).
  Notation le := (Order.le c).

  (* ---- tFiles.overlaps ---- *)
  Lemma files_overlaps_unsorted tf a b : files_overlaps c p tf a b true = false ->
    forall s, In s tf -> t_overlaps c s a b = false.
  Proof.
    unfold files_overlaps. intros H s Hs. destruct (t_overlaps c s a b) eqn:E; [|reflexivity].
    assert (existsb (fun t => t_overlaps c t a b) tf = true) by (apply existsb_exists; exists s; split; assumption).
    congruence.
  Qed.

  Section SortedLevel.
    Variable tf : list table.
    Hypothesis Hok : forall t, In t tf -> tbl_ok t.
    Hypothesis Hs : level_sorted c tf.
    Hypothesis Hseq : forall t, In t tf -> (e_seq (t_hi t) <= keyMaxSeq p)%N.

    Let Hb : bsorted c tf := level_sorted_bsorted c p tf Hok Hs.

    Lemma search_max_idx_below k j : j < search_max_idx c tf k -> icmp c (imax_of (tnth tf j)) k = Lt.
    Proof.
      unfold search_max_idx.
      set (f := fun i => match icmp c (imax_of (tnth tf i)) k with Lt => false | _ => true end).
      assert (Hm : monotone f 0 (length tf)).
      { intros a b _ Hab Hbn Fa. destruct (Nat.eq_dec a b) as [->|Hne]; [exact Fa|]. unfold f in *.
        destruct (icmp c (imax_of (tnth tf b)) k) eqn:E; try reflexivity.
        assert (L : icmp c (imax_of (tnth tf a)) (imax_of (tnth tf b)) = Lt).
        { apply icmp_ukey_lt. unfold imax_of. cbn [e_ikey uk].
          eapply (OrderProofs.lt_le_trans c ok); [apply (Hb a b); lia|].
          apply (tbl_valid c ok p). apply Hok. apply nth_In. exact Hbn. }
        rewrite (icmp_trans c ok _ _ _ L E) in Fa. discriminate. }
      destruct (sort_search_spec (length tf) f Hm) as [_ [K2 _]]. intros Hj. specialize (K2 j Hj). unfold f in K2.
      destruct (icmp c (imax_of (tnth tf j)) k); congruence.
    Qed.

    Lemma files_overlaps_sorted m umax : files_overlaps c p tf (Some m) umax false = false ->
      forall s, In s tf -> t_overlaps c s (Some m) umax = false.
    Proof.
      unfold files_overlaps.
      set (i := match m with b :: m' => search_max_idx c tf (probe p (b :: m') (keyMaxSeq p)) | [] => 0 end).
      assert (Below : forall j, j < i -> j < length tf -> t_after c (tnth tf j) (Some m) = true).
      { intros j Hj Hn. destruct m as [|b m']; [unfold i in Hj; lia|]. unfold i in Hj.
        pose proof (search_max_idx_below _ j Hj) as L. unfold imax_of in L.
        assert (Tj : tbl_ok (tnth tf j)) by (apply Hok; apply nth_In; exact Hn).
        destruct Tj as [[_ Kj] Nj].
        assert (Kh : (e_kind (t_hi (tnth tf j)) <= keyTypeSeek p)%N).
        { apply (kinds_ok_in p _ _ Kj). apply t_hi_in. exact Nj. }
        apply (below_probe c ok p pok _ _ _ Kh) in L. apply (t_after_some c ok).
        destruct L as [L|[_ L]]; [exact L|]. pose proof (Hseq (tnth tf j) ltac:(apply nth_In; exact Hn)). lia. }
      fold i. intros H s Hin. apply (in_nth_ex no_table) in Hin as [j [Hj Ej]]. fold (tnth tf j) in Ej.
      unfold t_overlaps. destruct (Nat.lt_ge_cases j i) as [Q|Q].
      - rewrite <- Ej, (Below j Q Hj). reflexivity.
      - destruct (Nat.leb (length tf) i) eqn:L; [apply Nat.leb_le in L; lia|]. apply Nat.leb_gt in L.
        apply Bool.negb_false_iff in H. destruct umax as [M|]; [|discriminate].
        apply (t_before_some c) in H.
        assert (B : t_before c s (Some M) = true).
        { apply (t_before_some c). rewrite <- Ej. eapply (OrderProofs.lt_le_trans c ok); [exact H|].
          apply (bsorted_umin_mono c ok p tf i j Hok Hb Q Hj). }
        rewrite B. apply Bool.andb_false_r.
    Qed.
  End SortedLevel.

  (* ---- version.pickMemdbLevel ---- *)
  Variable v : list (list table).
  Hypothesis W : wf_lsm v.
  Hypothesis Vseq : forall i t, In t (lv v i) -> (e_seq (t_hi t) <= keyMaxSeq p)%N.

  Variable m M : bytes.
  Variable gp_limit : nat -> N.
  Variable maxLevel : nat.

  Definition no_ov (i : nat) : Prop := forall s, In s (lv v i) -> t_overlaps c s (Some m) (Some M) = false.

  Lemma no_ov_beyond i : length v <= i -> no_ov i.
  Proof. intros H s Hs. unfold lv in Hs. rewrite (nth_overflow v [] H) in Hs. destruct Hs. Qed.

  Lemma pick_loop_spec fuel : forall level, (forall i, i <= level -> no_ov i) ->
    forall i, i <= pick_loop c p sz v (Some m) (Some M) gp_limit maxLevel fuel level -> no_ov i.
  Proof.
    induction fuel as [|fu IH]; intros level Inv i Hi; cbn [pick_loop] in Hi; [apply Inv; exact Hi|].
    destruct (Nat.leb maxLevel level); [apply Inv; exact Hi|].
    destruct (Nat.leb (length v) (S level)) eqn:E1.
    - apply Nat.leb_le in E1. destruct (Nat.le_gt_cases i level) as [Q|Q]; [apply Inv; exact Q|]. apply no_ov_beyond. lia.
    - destruct (files_overlaps c p (nth (S level) v []) (Some m) (Some M) false) eqn:E2; [apply Inv; exact Hi|].
      match type of Hi with context [if ?b then level else _] => destruct b end; [apply Inv; exact Hi|].
      apply (IH (S level)); [|exact Hi]. intros j Hj.
      destruct (Nat.eq_dec j (S level)) as [->|Hne]; [|apply Inv; lia].
      intros s Hs. apply (files_overlaps_sorted (lv v (S level))); try assumption.
      + apply (wl_tbl c p v W).
      + apply (wl_deep c p v W). lia.
      + apply Vseq.
  Qed.

  (* the level chosen for a flushed table with user-key range [m, M] *)
  Definition pick_ok_level (k : nat) : Prop := (forall i, i < k -> no_ov i) /\ (0 < k -> no_ov k).

  Theorem pick_memdb_level_spec : pick_ok_level (pick_memdb_level c p sz v (Some m) (Some M) gp_limit maxLevel).
  Proof.
    unfold pick_memdb_level. destruct (Nat.ltb 0 maxLevel); [|split; intros; lia].
    destruct v as [|l0 rest] eqn:Ev.
    - split; intros; apply no_ov_beyond; rewrite Ev; cbn; lia.
    - rewrite <- Ev in *. destruct (files_overlaps c p l0 (Some m) (Some M) true) eqn:E0; [split; intros; lia|].
      assert (Inv : forall i, i <= 0 -> no_ov i).
      { intros i Hi. assert (i = 0) by lia. subst i. intros s Hs. apply (files_overlaps_unsorted l0 _ _ E0).
        unfold lv in Hs. rewrite Ev in Hs. exact Hs. }
      pose proof (pick_loop_spec maxLevel 0 Inv) as P. split; [intros i Hi; apply P; lia|intros _; apply P; lia].
  Qed.

  (* ---- installing the flushed table ---- *)
  Section Install.
    Variable t : table.
    Variable k : nat.
    Hypothesis Tt : tbl_ok t.
    Hypothesis Ut : uniq (t_entries t).
    (* the flushed entries are newer than every stored entry of the same user key *)
    Hypothesis Nt : forall i x y, In x (t_entries t) -> In y (LE (lv v i)) -> e_uk x = e_uk y -> (e_seq y < e_seq x)%N.
    Hypothesis Fresh : forall i s, In s (lv v i) -> t_num s <> t_num t.
    Hypothesis Range : m = umin_of t /\ M = umax_of t.
    Hypothesis Kok : pick_ok_level k.

    Let ed := {| ed_del := []; ed_add := [(k, t)] |}.
    Let base := lv v k.
    Let idx := match k with
               | O => search_num_less base (t_num t)
               | S _ => search_min_idx c base (imax_of t)
               end.
    Definition flush_level (l : nat) : list table :=
      if Nat.eqb l k then firstn idx base ++ [t] ++ skipn idx base else lv v l.

    Lemma flush_level_fn l : level_fn c true v ed l = POk (flush_level l).
    Proof.
      unfold level_fn, flush_level, ed, adds_at, dels_at. cbn [ed_add ed_del filter fst map snd].
      rewrite Nat.eqb_sym. destruct (Nat.eqb l k) eqn:Q.
      - apply Nat.eqb_eq in Q. subst l. cbn [map snd]. fold (lv v k). fold base.
        assert (D : forall b : list table, match b with [] => @nil N | _ :: _ => [] end = []) by (intros b; destruct b; reflexivity).
        rewrite D.
        assert (F : filter (fun s => negb (memN (t_num s) []) && negb (memN (t_num s) (nums_of [t]))) base = base).
        { apply filter_all. intros s Hs. cbn [memN existsb negb andb nums_of map].
          rewrite Bool.orb_false_r. apply Bool.negb_true_iff. apply N.eqb_neq. apply (Fresh k s Hs). }
        destruct k as [|k'] eqn:Ek.
        + rewrite finish_level_adds_l0 by discriminate. cbv zeta. rewrite F. reflexivity.
        + rewrite finish_level_adds_deep by discriminate. cbv zeta. rewrite F. reflexivity.
      - cbn [map]. rewrite finish_level_no_adds. f_equal. apply filter_all. intros s Hs.
        destruct (nth l v []); reflexivity.
    Qed.

    Lemma flush_in l s : In s (flush_level l) -> In s (lv v l) \/ (l = k /\ s = t).
    Proof.
      unfold flush_level. destruct (Nat.eqb l k) eqn:Q; [|left; assumption]. apply Nat.eqb_eq in Q. subst l.
      intros H. apply in_app_or in H as [H1|H1]; [left; apply (firstn_incl _ _ _ H1)|].
      apply in_app_or in H1 as [[E|[]]|H2]; [right; split; [reflexivity|symmetry; exact E]|left; apply (skipn_incl _ _ _ H2)].
    Qed.

    Lemma flush_entry l x : In x (LE (flush_level l)) -> In x (LE (lv v l)) \/ (l = k /\ In x (t_entries t)).
    Proof.
      intros H. apply LE_in in H as [s [Hs Hx]]. apply flush_in in Hs as [Hs|[-> ->]].
      - left. apply LE_in. exists s. split; assumption.
      - right. split; [reflexivity|exact Hx].
    Qed.

    Lemma t_range x : In x (t_entries t) -> key_in c (e_uk x) (Some m) (Some M).
    Proof. destruct Range as [Em EM]. rewrite Em, EM. intros Hx. apply (tbl_bounds c ok p t x Tt Hx). Qed.

    (* a table that does not overlap the new table's range lies entirely on one side of it *)
    Lemma no_ov_sep i s : no_ov i -> In s (lv v i) -> sep c s (LE [t]).
    Proof.
      intros No Hs. specialize (No s Hs). pose proof (wl_tbl c p v W i s Hs) as Ts.
      assert (E : LE [t] = t_entries t) by (unfold LE; cbn; apply app_nil_r). rewrite E.
      destruct Range as [Em EM]. unfold t_overlaps in No.
      apply Bool.andb_false_iff in No as [No|No]; apply Bool.negb_false_iff in No.
      - left. apply (t_after_some c ok) in No. intros x y Hx Hy.
        destruct (tbl_bounds c ok p s x Ts Hx) as [_ Bx]. destruct (tbl_bounds c ok p t y Tt Hy) as [By _].
        eapply (OrderProofs.le_lt_trans c ok); [exact Bx|]. eapply (OrderProofs.lt_le_trans c ok); [exact No|].
        rewrite Em. exact By.
      - right. apply (t_before_some c) in No. intros y x Hy Hx.
        destruct (tbl_bounds c ok p s x Ts Hx) as [Bx _]. destruct (tbl_bounds c ok p t y Tt Hy) as [_ By].
        eapply (OrderProofs.le_lt_trans c ok); [exact By|]. rewrite <- EM.
        eapply (OrderProofs.lt_le_trans c ok); [exact No|exact Bx].
    Qed.

    Section NewVersion.
      Variable nv : list (list table).
      Hypothesis Hnv : forall l, lv nv l = flush_level l.

      Lemma fl_tbl l s : In s (lv nv l) -> tbl_ok s.
      Proof. rewrite Hnv. intros H. apply flush_in in H as [H|[_ ->]]; [apply (wl_tbl c p v W l s H)|exact Tt]. Qed.

      Lemma fl_uniq l : uniq (LE (lv nv l)).
      Proof.
        rewrite Hnv. unfold flush_level. destruct (Nat.eqb l k) eqn:Q; [|apply (wl_uniq c p v W)].
        assert (P : Permutation (LE [t] ++ LE base) (LE (firstn idx base ++ [t] ++ skipn idx base))).
        { rewrite !LE_app. rewrite <- (firstn_skipn idx base) at 1. rewrite LE_app. apply Permutation_app_swap_app. }
        unfold uniq. eapply Permutation_NoDup; [apply Permutation_map; exact P|]. apply uniq_app.
        assert (E : LE [t] = t_entries t) by (unfold LE; cbn; apply app_nil_r). rewrite E.
        split; [exact Ut|]. split; [apply (wl_uniq c p v W)|].
        intros x y Hx Hy Ek. unfold keyseq in Ek. injection Ek as Eu Es. pose proof (Nt k x y Hx Hy Eu). lia.
      Qed.

      Lemma fl_l0n : nums_sorted (lv nv 0).
      Proof.
        rewrite Hnv. unfold flush_level. destruct (Nat.eqb 0 k) eqn:Q; [|apply (wl_l0n c p v W)].
        apply Nat.eqb_eq in Q.
        assert (E : idx = search_num_less base (t_num t)) by (unfold idx; rewrite <- Q; reflexivity).
        rewrite E. apply insert_by_num; [unfold base; rewrite <- Q; apply (wl_l0n c p v W)|apply (Fresh k)].
      Qed.

      Lemma fl_deep l : 0 < l -> level_sorted c (lv nv l).
      Proof.
        intros Hl. rewrite Hnv. unfold flush_level. destruct (Nat.eqb l k) eqn:Q; [|apply (wl_deep c p v W); exact Hl].
        apply Nat.eqb_eq in Q. subst l.
        assert (E : idx = search_min_idx c base (imax_of t)).
        { destruct (Nat.lt_exists_pred 0 k Hl) as [k' [Ek _]]. unfold idx. rewrite Ek. reflexivity. }
        rewrite E.
        apply (insert_sorted c ok p base [t]).
        - apply (wl_tbl c p v W).
        - apply (wl_deep c p v W). exact Hl.
        - intros o [<-|[]]. exact Tt.
        - split; [apply Forall_nil|exact I].
        - exists t. split; [left; reflexivity|reflexivity].
        - intros s Hs. apply (no_ov_sep k s); [apply Kok; exact Hl|exact Hs].
      Qed.

      Lemma fl_chain i j : i < j -> newer_thanP (LE (lv nv i)) (LE (lv nv j)).
      Proof.
        intros Hij a b Ha Hb Eu. rewrite Hnv in Ha, Hb.
        apply flush_entry in Ha as [Ha|[Ei Ha]]; apply flush_entry in Hb as [Hb|[Ej Hb]].
        - apply (wl_chain c p v W i j Hij a b Ha Hb Eu).
        - (* a lies above the new table and shares a user key with it: impossible *)
          exfalso. subst j. apply LE_in in Ha as [s [Hs Ha]].
          assert (No : t_overlaps c s (Some m) (Some M) = false) by (apply (proj1 Kok i Hij); exact Hs).
          rewrite (overlaps_of_key c ok p s a _ _ (wl_tbl c p v W i s Hs) Ha) in No; [discriminate|].
          rewrite Eu. apply t_range. exact Hb.
        - apply (Nt j a b Ha Hb Eu).
        - lia.
      Qed.

      Lemma fl_nums i j s s' : In s (lv nv i) -> In s' (lv nv j) -> t_num s = t_num s' -> i = j /\ s = s'.
      Proof.
        rewrite !Hnv. intros Hs Hs' E. apply flush_in in Hs as [Hs|[-> ->]]; apply flush_in in Hs' as [Hs'|[-> ->]].
        - apply (wl_nums c p v W i j s s' Hs Hs' E).
        - exfalso. apply (Fresh i s Hs E).
        - exfalso. apply (Fresh j s' Hs' (eq_sym E)).
        - split; reflexivity.
      Qed.

      Lemma fl_wf : wf_lsm nv.
      Proof. constructor; [exact fl_tbl|exact fl_uniq|exact fl_l0n|exact fl_deep|exact fl_chain|exact fl_nums]. Qed.
    End NewVersion.

    Theorem install_step : exists nv, finish c true v ed = POk nv /\ wf_lsm nv.
    Proof.
      destruct (finish_levels c true v ed flush_level flush_level_fn) as [nv [E H]].
      exists nv. split; [exact E|apply (fl_wf nv H)].
    Qed.
  End Install.
End Flush.
