(* Lsm/IterPathAbs.v — the byte-level DB iterator against the L1 abstraction (proof file):
   (1) in a well-formed L1 state no internal key is stored twice (sorted components, the level-0 group's
       uniqueness, disjoint tables of a sorted level, and the newer-than chain between components);
   (2) hence a well-formed byte state (ReadPathProofs.wf_bstate) with a write buffer meets the hypotheses of
       the composition theorem (IterPathProofs.iter_wf) for DB / snapshot iterators;
   (3) the list the composition theorem speaks of - all stored pairs merged in the encoded order, parsed -
       is the list of entries of [abs st] in internal-key order (IterPath.lsm_entries);
   (4) db_iterator_correct_bytes. *)
From GL Require Import Base.Bytes Base.BytesProofs Base.Order Base.OrderProofs Codec.IKey Codec.IKeyProofs
  Codec.Block Codec.Table Lsm.Lsm Lsm.LsmProofs Lsm.ReadPath Lsm.ReadPathKey Lsm.ReadPathMem Lsm.ReadPathTable
  Lsm.ReadPathProofs Lsm.IterPath Lsm.IterPathChild Lsm.IterPathLevel Lsm.IterPathProofs.
From GL Require Mem.MemDB.
From GL Require Import Iter.Cursor Iter.CursorProofs Iter.Merged Iter.MergedProofs Iter.DBIter Iter.LiveProofs.
From Coq Require Import Lia Arith.

(* ------------------------------------------------------------------ lists *)
Lemma NoDup_app_intro' {A} (l1 l2 : list A) : NoDup l1 -> NoDup l2 ->
  (forall x, In x l1 -> In x l2 -> False) -> NoDup (l1 ++ l2).
Proof.
  induction l1 as [|a l1 IH]; intros H1 H2 Hd; [exact H2|]. cbn [app].
  apply NoDup_cons_iff in H1 as [Hn H1]. constructor.
  - intros Hin. apply in_app_or in Hin as [Hin|Hin]; [exact (Hn Hin)|exact (Hd a (or_introl eq_refl) Hin)].
  - apply IH; [exact H1|exact H2|]. intros x Hx. apply Hd. right. exact Hx.
Qed.

Lemma nodup_concat {A} (ls : list (list A)) :
  Forall (@NoDup A) ls ->
  (forall l1 l2 pre mid post, ls = pre ++ l1 :: mid ++ l2 :: post -> forall x, In x l1 -> In x l2 -> False) ->
  NoDup (concat ls).
Proof.
  induction ls as [|l ls IH]; intros Hn Hd; [constructor|]. inversion Hn as [|? ? Hl Hn']; subst.
  cbn [concat]. apply NoDup_app_intro'.
  - exact Hl.
  - apply IH; [exact Hn'|]. intros l1 l2 pre mid post E x H1 H2. apply (Hd l1 l2 (l :: pre) mid post ltac:(rewrite E; reflexivity) x H1 H2).
  - intros x Hx Hc. apply in_concat in Hc as (l2 & Hl2 & Hx2). destruct (in_split _ _ Hl2) as (mid & post & E).
    apply (Hd l l2 [] mid post ltac:(rewrite E; reflexivity) x Hx Hx2).
Qed.

Section Uniq.
  Variable c : comparer.
  Hypothesis ok : comparer_ok c.
  Variable p : kparams.
  Hypothesis pok : kparams_ok p.

  Local Notation ssorted := (ssorted c).
  Local Notation kinds_ok := (kinds_ok p).

  Lemma kind_lt_256 e : (e_kind e <= keyTypeSeek p)%N -> (e_kind e < 256)%N.
  Proof. destruct pok as (_ & _ & _ & H & _). lia. Qed.

  (* equal internal keys: equal user key and sequence number *)
  Lemma ikey_eq_keyseq a b : (e_kind a <= keyTypeSeek p)%N -> (e_kind b <= keyTypeSeek p)%N ->
    e_ikey a = e_ikey b -> e_uk a = e_uk b /\ e_seq a = e_seq b.
  Proof.
    intros Ha Hb E. apply kind_lt_256 in Ha, Hb. unfold e_ikey, pack in E. injection E as E1 E2. split; [exact E1|]. nia.
  Qed.

  Lemma ssorted_nodup l : ssorted l -> NoDup (map e_ikey l).
  Proof.
    induction l as [|a l IH]; intros H; [constructor|]. destruct H as [Hall Hs]. cbn [map]. constructor; [|apply IH; exact Hs].
    intros Hin. apply in_map_iff in Hin as (b & E & Hb). rewrite Forall_forall in Hall. specialize (Hall b Hb).
    unfold ecmp in Hall. rewrite E in Hall. exact (icmp_irrefl c ok _ Hall).
  Qed.

  Lemma uniq_nodup l : kinds_ok l -> uniq l -> NoDup (map e_ikey l).
  Proof.
    unfold uniq. induction l as [|a l IH]; intros Hk H; [constructor|]. cbn [map] in *.
    inversion Hk as [|? ? Ka Hk']; subst. apply NoDup_cons_iff in H as [Hn H]. constructor; [|apply IH; assumption].
    intros Hin. apply Hn. apply in_map_iff in Hin as (b & E & Hb). apply in_map_iff. exists b. split; [|exact Hb].
    unfold kinds_ok in Hk'. rewrite Forall_forall in Hk'.
    destruct (ikey_eq_keyseq b a (Hk' b Hb) Ka E) as [E1 E2]. unfold keyseq. rewrite E1, E2. reflexivity.
  Qed.

  Lemma tables_kinds ts : tables_ok c p ts -> kinds_ok (level_entries ts).
  Proof.
    intros H. unfold kinds_ok, LsmProofs.kinds_ok, level_entries. apply Forall_forall. intros e He.
    apply in_concat in He as (l & Hl & He). apply in_map_iff in Hl as (t & <- & Ht).
    unfold tables_ok in H. rewrite Forall_forall in H. destruct (H t Ht) as [_ Hk].
    unfold LsmProofs.kinds_ok in Hk. rewrite Forall_forall in Hk. apply Hk. exact He.
  Qed.

  Lemma level_nodup ts : LsmProofs.level_ok c p ts -> NoDup (map e_ikey (level_entries ts)).
  Proof.
    intros [Ht Hls]. unfold level_entries. induction ts as [|t ts IH]; [constructor|].
    inversion Ht as [|? ? [Hs Hk] Ht']; subst. destruct Hls as [Hsep Hls]. cbn [map concat]. rewrite map_app.
    apply NoDup_app_intro'; [apply ssorted_nodup; exact Hs|apply IH; assumption|].
    intros k Hx Hy. apply in_map_iff in Hx as (x & <- & Hx). apply in_map_iff in Hy as (y & E & Hy).
    apply in_concat in Hy as (l & Hl & Hy). apply in_map_iff in Hl as (t' & <- & Ht'').
    rewrite Forall_forall in Hsep. pose proof (Hsep t' Ht'' x y Hx Hy) as L.
    assert (Eu : e_uk y = e_uk x) by (unfold e_ikey in E; injection E as E1 _; exact E1).
    rewrite Eu, (cmp_refl c ok) in L. discriminate.
  Qed.

  Lemma comp_kinds st l : wf_state c p st -> In l (comps st) -> kinds_ok l.
  Proof.
    intros [[_ Hm] [_ Hf] [Ha _] [H0 _] Hd _] Hl. unfold comps in Hl.
    destruct Hl as [<-|[<-|[<-|Hl]]]; [exact Hm|exact Hf|apply tables_kinds; exact Ha|].
    apply in_map_iff in Hl as (ts & <- & Hts). apply tables_kinds.
    destruct (st_levels st) as [|l0 rest]; [destruct Hts|]. cbn [hd tl] in *.
    destruct Hts as [<-|Hts]; [exact H0|]. rewrite Forall_forall in Hd. apply (Hd ts Hts).
  Qed.

  Lemma chain_disjoint cs : chain_newer cs -> (forall l, In l cs -> kinds_ok l) ->
    forall l1 l2 pre mid post, cs = pre ++ l1 :: mid ++ l2 :: post ->
    forall k, In k (map e_ikey l1) -> In k (map e_ikey l2) -> False.
  Proof.
    intros Hch Hk l1 l2 pre mid post E k H1 H2.
    assert (Hn : newer_thanP l1 l2).
    { rewrite E in Hch. clear E Hk. induction pre as [|x pre IH]; cbn [app chain_newer] in Hch.
      - destruct Hch as [Hall _]. rewrite Forall_forall in Hall. apply Hall. apply in_or_app. right. left. reflexivity.
      - apply IH. apply Hch. }
    apply in_map_iff in H1 as (a & <- & Ha). apply in_map_iff in H2 as (b & Eb & Hb).
    assert (K1 : kinds_ok l1) by (apply Hk; rewrite E; apply in_or_app; right; left; reflexivity).
    assert (K2 : kinds_ok l2) by (apply Hk; rewrite E; apply in_or_app; right; right; apply in_or_app; right; left; reflexivity).
    unfold kinds_ok, LsmProofs.kinds_ok in K1, K2. rewrite Forall_forall in K1, K2.
    destruct (ikey_eq_keyseq b a (K2 b Hb) (K1 a Ha) Eb) as [E1 E2].
    pose proof (Hn a b Ha Hb (eq_sym E1)) as L. lia.
  Qed.

  (* (1) in a well-formed L1 state no internal key is stored twice *)
  Theorem wf_state_ikeys_nodup st : wf_state c p st -> NoDup (map e_ikey (all_entries st)).
  Proof.
    intros W. rewrite (all_entries_comps st), concat_map.
    apply nodup_concat.
    - apply Forall_map. apply Forall_forall. intros l Hl.
      pose proof W as [[Hm _] [Hf _] [Ha Ha2] [H0 H02] Hd _]. unfold comps in Hl.
      destruct Hl as [<-|[<-|[<-|Hl]]]; [apply ssorted_nodup; exact Hm|apply ssorted_nodup; exact Hf| |].
      + apply uniq_nodup; [apply tables_kinds; exact Ha|exact Ha2].
      + apply in_map_iff in Hl as (ts & <- & Hts).
        destruct (st_levels st) as [|l0 rest]; [destruct Hts|]. cbn [hd tl] in *.
        destruct Hts as [<-|Hts]; [apply uniq_nodup; [apply tables_kinds; exact H0|exact H02]|].
        rewrite Forall_forall in Hd. apply level_nodup. apply (Hd ts Hts).
    - intros l1 l2 pre mid post E k H1 H2.
      (* pull the decomposition back through map *)
      assert (Hsplit : exists pre' m1 mid' m2 post', comps st = pre' ++ m1 :: mid' ++ m2 :: post' /\
                         l1 = map e_ikey m1 /\ l2 = map e_ikey m2).
      { clear H1 H2. revert pre E. generalize (comps st). intros cs pre. revert cs.
        induction pre as [|x pre IH]; intros cs E.
        - destruct cs as [|m1 cs]; [discriminate|]. cbn [map app] in E. injection E as E1 E.
          assert (G : forall mid cs, map (map e_ikey) cs = mid ++ l2 :: post ->
                        exists mid' m2 post', cs = mid' ++ m2 :: post' /\ l2 = map e_ikey m2).
          { clear. induction mid as [|y mid IH]; intros cs E.
            - destruct cs as [|m2 cs]; [discriminate|]. cbn [map app] in E. injection E as E2 _.
              exists [], m2, cs. split; [reflexivity|auto].
            - destruct cs as [|y' cs]; [discriminate|]. cbn [map app] in E. injection E as _ E.
              destruct (IH cs E) as (mid' & m2 & post' & -> & E2). exists (y' :: mid'), m2, post'. split; [reflexivity|exact E2]. }
          destruct (G mid cs E) as (mid' & m2 & post' & -> & E2).
          exists [], m1, mid', m2, post'. split; [reflexivity|]. split; [auto|exact E2].
        - destruct cs as [|y cs]; [discriminate|]. cbn [map app] in E. injection E as _ E.
          destruct (IH cs E) as (pre' & m1 & mid' & m2 & post' & -> & E1 & E2).
          exists (y :: pre'), m1, mid', m2, post'. split; [reflexivity|]. split; assumption. }
      destruct Hsplit as (pre' & m1 & mid' & m2 & post' & Ec & -> & ->).
      apply (chain_disjoint (comps st) (wf_chain c p st W) (fun l Hl => comp_kinds st l W Hl) m1 m2 pre' mid' post' Ec k H1 H2).
  Qed.
End Uniq.

Section Abs.
  Variable c : comparer.
  Hypothesis ok : comparer_ok c.
  Variable p : kparams.
  Hypothesis dpok : dbparams_ok p.
  Variable mp : MemDB.mparams.
  Hypothesis mpok : MemDB.mparams_ok mp.
  Variable tp : tparams.
  Variable crc : bytes -> N.
  Variable decompress : bytes -> option bytes.
  Variable fname : option bytes.
  Variable ufc : bytes -> N -> bytes -> bool.
  Variable verify : bool.
  Variable ri : N.
  Variable strict : bool.

  Local Notation ic := (ibc c).
  Local Notation pok := (proj1 dpok).
  Local Notation okb := (tfile_okb c p tp crc decompress fname ufc verify ri).
  Local Notation pairs := (tf_pairs c tp crc decompress fname ufc verify ri).
  Local Notation atab := (abs_table c tp crc decompress fname ufc verify ri).
  Local Notation absS := (abs c mp tp crc decompress fname ufc verify ri).
  Local Notation wfb := (wf_bstate c p mp tp crc decompress fname ufc verify ri).
  Local Notation clists := (child_lists c mp tp crc decompress fname ufc verify ri None []).
  Local Notation iwf := (iter_wf c p mp tp crc decompress fname ufc verify ri None []).

  (* ---- the pairs of the children are the entries of the abstraction ---- *)
  Lemma level_list_concat (rest : list (list tfile)) :
    concat (flat_map (level_list c tp crc decompress fname ufc verify ri) rest) =
    concat (map (fun ts => concat (map pairs ts)) rest).
  Proof.
    induction rest as [|ts rest IH]; [reflexivity|]. cbn [flat_map map concat]. rewrite concat_app, IH. f_equal.
    destruct ts as [|f ts]; [reflexivity|]. unfold level_list, lv_pairs. cbn [concat]. apply app_nil_r.
  Qed.

  Lemma table_lists_concat lvls :
    concat (table_lists c tp crc decompress fname ufc verify ri lvls) = concat (map (fun ts => concat (map pairs ts)) lvls).
  Proof.
    destruct lvls as [|l0 rest]; [reflexivity|]. unfold table_lists. rewrite concat_app, level_list_concat. reflexivity.
  Qed.

  Lemma table_entries_concat (lvls : list (list tfile)) :
    concat (map t_entries (concat (map (map atab) lvls))) =
    map entry_of (concat (map (fun ts => concat (map pairs ts)) lvls)).
  Proof.
    induction lvls as [|ts lvls IH]; [reflexivity|]. cbn [map concat]. rewrite map_app, concat_app, map_app, IH. f_equal.
    clear IH. induction ts as [|f ts IH]; [reflexivity|]. cbn [map concat]. rewrite map_app, IH. reflexivity.
  Qed.

  Lemma opt_mem_entries o : map entry_of (concat (map (mem_pairs mp) (opt_list o))) = mem_entries mp o.
  Proof. destruct o as [d|]; cbn; [rewrite app_nil_r|]; reflexivity. Qed.

  Lemma entries_of_children st : map entry_of (concat (clists st)) = all_entries (absS st).
  Proof.
    unfold child_lists, all_entries, all_tables, abs. cbn [st_mem st_frozen st_aux st_levels map app opt_list concat].
    rewrite !concat_app, !map_app, !opt_mem_entries, table_lists_concat, <- table_entries_concat. reflexivity.
  Qed.

  (* the decoded key of a pair, as a function of the encoded key alone *)
  Definition hkey (b : bytes) : ikey :=
    match ik_dec b with
    | Some k => {| uk := uk k; num := pack (ik_seq k) (ik_kind k) |}
    | None => {| uk := b; num := pack 0 0 |}
    end.

  Lemma e_ikey_hkey x : e_ikey (entry_of x) = hkey (fst x).
  Proof. unfold entry_of, hkey, e_ikey. destruct (ik_dec (fst x)); reflexivity. Qed.

  (* (2) a well-formed byte state with a write buffer meets the hypotheses of the composition theorem *)
  Theorem wf_bstate_iter_wf st : wfb st -> bs_mem st <> None -> iwf st.
  Proof.
    intros [Hm Hf Ht Ha] Ho. constructor.
    - discriminate.
    - exact Hm.
    - exact Ho.
    - exact Hf.
    - constructor.
    - exact Ht.
    - pose proof (wf_deep c p _ Ha) as Hd. unfold abs in Hd. cbn [st_levels] in Hd.
      destruct (bs_levels st) as [|l0 rest]; [constructor|]. cbn [map tl] in *.
      clear Ht. induction rest as [|ts rest IH]; [constructor|]. cbn [map] in Hd. inversion Hd as [|? ? [_ Hls] Hd']; subst.
      constructor; [exact Hls|apply IH; exact Hd'].
    - apply (nodup_map_comp fst hkey).
      pose proof (wf_state_ikeys_nodup c ok p pok (absS st) Ha) as Hn.
      rewrite <- entries_of_children, map_map in Hn.
      erewrite map_ext; [exact Hn|]. intros x. symmetry. apply e_ikey_hkey.
  Qed.

  (* (3) the list of the composition theorem is the list of entries of the abstraction *)
  Lemma dec_entry_kv x : key_okb p (fst x) = true -> dec_entry x = entry_kv (entry_of x).
  Proof.
    intros H. destruct (key_okb_dec p _ H) as (k & D & _). unfold dec_entry, entry_kv.
    rewrite (e_ikey_entry_of x k D), D, (entry_of_dec x k D). reflexivity.
  Qed.

  Theorem db_entries_abs st : wfb st -> bs_mem st <> None ->
    db_entries c mp tp crc decompress fname ufc verify ri None [] st = lsm_entries c (absS st).
  Proof.
    intros W Ho. pose proof (wf_bstate_iter_wf st W Ho) as IW.
    pose proof (all_pairs_keys c ok p dpok mp mpok tp crc decompress fname ufc verify ri strict None [] st IW) as Hk.
    pose proof (all_pairs_sorted c ok p mp tp crc decompress fname ufc verify ri None [] st IW) as Hs.
    apply (sorted_kv_ext (icmp c) (icmp_ord_ok c ok)).
    - unfold db_entries. apply (dec_sorted c p); assumption.
    - unfold lsm_entries. apply (merge_sorted ikey bytes (icmp c) (icmp_ord_ok c ok)).
      cbn [concat]. rewrite app_nil_r, map_map. cbn [entry_kv fst].
      exact (wf_state_ikeys_nodup c ok p pok (absS st) (wb_abs _ _ _ _ _ _ _ _ _ _ _ W)).
    - intros x. unfold db_entries, lsm_entries, merge_lists. rewrite (fold_insert_in ikey bytes (icmp c)).
      cbn [concat]. rewrite app_nil_r, <- entries_of_children, map_map. rewrite !in_map_iff.
      split; intros (y & E & Hy).
      + apply (all_pairs_in c mp tp crc decompress fname ufc verify ri) in Hy.
        exists y. split; [|exact Hy]. rewrite <- E. symmetry. apply dec_entry_kv.
        unfold keys_okl in Hk. rewrite Forall_forall in Hk. apply Hk.
        apply (all_pairs_in c mp tp crc decompress fname ufc verify ri). exact Hy.
      + exists y. assert (Hy' : In y (all_pairs c mp tp crc decompress fname ufc verify ri None [] st))
          by (apply (all_pairs_in c mp tp crc decompress fname ufc verify ri); exact Hy).
        split; [|exact Hy']. rewrite <- E. apply dec_entry_kv.
        unfold keys_okl in Hk. rewrite Forall_forall in Hk. apply Hk. exact Hy'.
  Qed.

  (* (4) DB.NewIterator / Snapshot.NewIterator on bytes = the cursor over the live pairs of the abstraction *)
  Theorem db_iterator_correct_bytes st seq slice fuel ms :
    wfb st -> bs_mem st <> None -> (seq <= keyMaxSeq p)%N -> range_wf slice -> Forall umove_wf ms ->
    length (all_entries (absS st)) < fuel ->
    dbi_run c p mp tp crc decompress fname ufc verify strict fuel None [] st seq slice ms =
    Some (run_cursor (cmp c) (lsm_view c p seq slice (absS st)) ms).
  Proof.
    intros W Ho Hseq Hr Hms Hfuel. unfold lsm_view. rewrite <- (db_entries_abs st W Ho).
    apply (db_iterator_bytes_gen c ok p dpok mp mpok tp crc decompress fname ufc verify ri strict None [] st seq slice fuel ms
             (wf_bstate_iter_wf st W Ho) Hseq Hr Hms).
    rewrite <- (map_length entry_of), entries_of_children. exact Hfuel.
  Qed.
End Abs.

(* ------------------------------------------------------------------ the view and DB.Get agree *)
(* A pure L1 statement: the pairs an iterator at sequence number s must walk (live_pairs of the entries of
   the state in internal-key order) are exactly the (key, value) for which the read path lsm_get - what
   DB.Get / Snapshot.Get compute (property C01) - finds that value.  Needs, beyond wf_state: no two stored
   entries share user key AND sequence number (each sequence number is given to one write), kinds are
   deletion or value. *)
Section ViewGet.
  Variable c : comparer.
  Hypothesis ok : comparer_ok c.
  Variable p : kparams.
  Hypothesis pok : kparams_ok p.

  Lemma find_sorted_min {K V} (f : K -> K -> comparison) (g : K * V -> bool) : forall (l : list (K * V)) e,
    sorted_kv f l -> find g l = Some e -> In e l /\ g e = true /\ forall e', In e' l -> g e' = true -> e' = e \/ f (fst e) (fst e') = Lt.
  Proof.
    induction l as [|x l IH]; intros e Hs Hf; [discriminate|]. cbn [find] in Hf.
    apply StronglySorted_inv in Hs as [Hs Hall]. destruct (g x) eqn:Eg.
    - injection Hf as <-. split; [left; reflexivity|]. split; [exact Eg|].
      intros e' [<-|He'] _; [left; reflexivity|right]. rewrite Forall_forall in Hall. apply (Hall e' He').
    - destruct (IH e Hs Hf) as (H1 & H2 & H3). split; [right; exact H1|]. split; [exact H2|].
      intros e' [<-|He'] Hg; [congruence|apply H3; assumption].
  Qed.

  Lemma find_none_all {A} (g : A -> bool) (l : list A) : find g l = None -> forall x, In x l -> g x = false.
  Proof.
    induction l as [|y l IH]; intros Hf x Hx; [destruct Hx|]. cbn [find] in Hf. destruct (g y) eqn:E; [discriminate|].
    destruct Hx as [<-|Hx]; [exact E|apply IH; assumption].
  Qed.

  Lemma newest_max k s : forall l acc a, newest c k s l acc = Some a ->
    (forall x, In x l -> Lsm.vis c k s x = true -> (e_seq x <= e_seq a)%N) /\
    (forall y, acc = Some y -> (e_seq y <= e_seq a)%N).
  Proof.
    induction l as [|e l IH]; intros acc a H; cbn [newest] in H.
    - subst acc. split; [intros x []|]. intros y Hy. injection Hy as ->. apply N.le_refl.
    - destruct (IH _ _ H) as [H1 H2]. split.
      + intros x [<-|Hx] Hv; [|apply H1; assumption]. rewrite Hv in H2.
        unfold newer in H2. destruct acc as [y|].
        * destruct (e_seq y <? e_seq e)%N eqn:E; [apply H2; reflexivity|].
          apply N.ltb_ge in E. specialize (H2 y eq_refl). lia.
        * apply H2. reflexivity.
      + intros y ->. destruct (Lsm.vis c k s e); [|apply H2; reflexivity].
        unfold newer in H2. destruct (e_seq y <? e_seq e)%N eqn:E; [|apply H2; reflexivity].
        apply N.ltb_lt in E. specialize (H2 e eq_refl). lia.
  Qed.

  Lemma newest_some_if_visible k s l x : In x l -> Lsm.vis c k s x = true -> newest c k s l None <> None.
  Proof.
    intros Hx Hv Hn. assert (G : forall l acc, newest c k s l acc = None -> acc = None /\ forall y, In y l -> Lsm.vis c k s y = false).
    { clear. induction l as [|e l IH]; intros acc H; cbn [newest] in H; [split; [exact H|intros y []]|].
      destruct (IH _ H) as [H1 H2]. destruct (Lsm.vis c k s e) eqn:E.
      - unfold newer in H1. destruct acc as [y|]; [destruct (e_seq y <? e_seq e)%N; discriminate|discriminate].
      - split; [exact H1|]. intros y [<-|Hy]; [exact E|apply H2; exact Hy]. }
    destruct (G l None Hn) as [_ H]. rewrite (H x Hx) in Hv. discriminate.
  Qed.

  Variable st : lstate.
  Hypothesis W : wf_state c p st.
  Hypothesis Huniq : uniq (all_entries st).
  Hypothesis Hkinds : Forall (fun e => e_kind e = keyTypeDel p \/ e_kind e = keyTypeVal p) (all_entries st).

  Local Notation AE := (all_entries st).
  Local Notation L := (lsm_entries c st).

  Lemma kind_small e : In e AE -> (e_kind e < 256)%N.
  Proof.
    intros He. rewrite Forall_forall in Hkinds. destruct pok as (H1 & H2 & _ & H4 & _).
    destruct (Hkinds e He) as [-> | ->]; lia.
  Qed.

  Lemma L_sorted : sorted_kv (icmp c) L.
  Proof.
    unfold lsm_entries. apply (merge_sorted ikey bytes (icmp c) (icmp_ord_ok c ok)).
    cbn [concat]. rewrite app_nil_r, map_map. cbn [entry_kv fst]. exact (wf_state_ikeys_nodup c ok p pok st W).
  Qed.

  Lemma L_in x : In x L <-> exists a, In a AE /\ x = entry_kv a.
  Proof.
    unfold lsm_entries, merge_lists. rewrite (fold_insert_in ikey bytes (icmp c)). cbn [concat]. rewrite app_nil_r, in_map_iff.
    split; intros (a & H1 & H2); exists a; auto.
  Qed.

  Lemma kv_seq a : In a AE -> ik_seq (fst (entry_kv a)) = e_seq a /\ ik_kind (fst (entry_kv a)) = e_kind a.
  Proof.
    intros Ha. pose proof (kind_small a Ha) as Hk. unfold entry_kv, e_ikey, ik_seq, ik_kind, pack. cbn [fst num].
    split.
    - rewrite N.div_add_l by discriminate. rewrite (N.div_small _ _ Hk). lia.
    - rewrite N.add_comm, N.mod_add by discriminate. apply N.mod_small. exact Hk.
  Qed.

  (* the predicate of newest_visible on the image of a stored entry is Lsm.vis *)
  Lemma nv_pred a u s : In a AE ->
    (visible s (entry_kv a) && match cmp c (uk (fst (entry_kv a))) u with Eq => true | _ => false end) = Lsm.vis c u s a.
  Proof.
    intros Ha. unfold visible, Lsm.vis. rewrite (proj1 (kv_seq a Ha)). cbn [entry_kv fst e_ikey uk].
    destruct (cmp c (e_uk a) u); [apply Bool.andb_true_r|apply Bool.andb_false_r|apply Bool.andb_false_r].
  Qed.

  (* the first visible entry of u in internal-key order is the visible entry with the largest sequence number *)
  Lemma first_is_newest u s e a : newest_visible c s L u = Some e -> newest c u s AE None = Some a -> e = entry_kv a.
  Proof.
    intros Hf Hn.
    destruct (find_sorted_min (icmp c) _ L e L_sorted Hf) as (He & Hg & Hmin).
    apply L_in in He as (a0 & Ha0 & ->).
    rewrite (nv_pred a0 u s Ha0) in Hg.
    destruct (newest_in c u s AE None a Hn) as [Hx|[Ha Hva]]; [discriminate|].
    destruct (newest_max u s AE None a Hn) as [Hmax _].
    pose proof (Hmax a0 Ha0 Hg) as Hle.
    assert (Hin : In (entry_kv a) L) by (apply L_in; exists a; auto).
    assert (Hga : (visible s (entry_kv a) && match cmp c (uk (fst (entry_kv a))) u with Eq => true | _ => false end) = true)
      by (rewrite (nv_pred a u s Ha); exact Hva).
    apply (vis_true c ok) in Hg as [Hu0 Hs0]. apply (vis_true c ok) in Hva as [Hu Hs].
    assert (Eseq : e_seq a0 = e_seq a).
    { destruct (Hmin (entry_kv a) Hin Hga) as [E|Hlt].
      - unfold entry_kv, e_ikey in E. injection E as _ E1 _.
        unfold pack in E1. pose proof (kind_small a Ha). pose proof (kind_small a0 Ha0). nia.
      - unfold entry_kv, e_ikey in Hlt. cbn [fst] in Hlt. rewrite Hu0, Hu in Hlt.
        apply (icmp_same_ukey c ok) in Hlt. unfold pack in Hlt.
        pose proof (kind_small a Ha). pose proof (kind_small a0 Ha0). nia. }
    assert (Ea : a0 = a).
    { unfold uniq in Huniq.
      assert (Hk : keyseq a0 = keyseq a) by (unfold keyseq; rewrite Hu0, Hu, Eseq; reflexivity).
      clear -Huniq Ha0 Ha Hk. induction (all_entries st) as [|x l IH]; [destruct Ha|].
      cbn [map] in Huniq. apply NoDup_cons_iff in Huniq as [Hn Hnd].
      destruct Ha0 as [->|Ha0]; destruct Ha as [->|Ha]; try reflexivity.
      - exfalso. apply Hn. rewrite Hk. apply in_map. exact Ha.
      - exfalso. apply Hn. rewrite <- Hk. apply in_map. exact Ha0.
      - apply IH; assumption. }
    rewrite Ea. reflexivity.
  Qed.

  Theorem view_agrees_with_get s u v :
    In (u, v) (live_pairs c p s L) <-> lsm_get c p st u s = GFound v.
  Proof.
    rewrite (live_pairs_spec c ok p s L L_sorted u v), (get_correct c ok p pok st u s W).
    split.
    - intros (e & Hf & Hv & ->).
      destruct (find_sorted_min (icmp c) _ L e L_sorted Hf) as (He & Hg & _).
      apply L_in in He as (a0 & Ha0 & E0). subst e. rewrite (nv_pred a0 u s Ha0) in Hg.
      destruct (newest c u s AE None) as [a|] eqn:En; [|exfalso; exact (newest_some_if_visible u s AE a0 Ha0 Hg En)].
      pose proof (first_is_newest u s _ a Hf En) as E.
      destruct (newest_in c u s AE None a En) as [Hx|[Ha _]]; [discriminate|].
      cbn [group_res]. unfold res_of. unfold is_val in Hv. rewrite E in Hv. rewrite (proj2 (kv_seq a Ha)) in Hv.
      apply N.eqb_eq in Hv. rewrite Hv.
      destruct pok as (_ & _ & Hne & _). replace (keyTypeVal p =? keyTypeDel p)%N with false by (symmetry; apply N.eqb_neq; congruence).
      rewrite E. reflexivity.
    - intros Hg. destruct (newest c u s AE None) as [a|] eqn:En; [|discriminate].
      cbn [group_res] in Hg. unfold res_of in Hg. destruct (e_kind a =? keyTypeDel p)%N eqn:Ek; [discriminate|].
      injection Hg as <-.
      destruct (newest_in c u s AE None a En) as [Hx|[Ha Hva]]; [discriminate|].
      assert (Hval : e_kind a = keyTypeVal p).
      { rewrite Forall_forall in Hkinds. destruct (Hkinds a Ha) as [E|E]; [|exact E]. apply N.eqb_neq in Ek. congruence. }
      destruct (newest_visible c s L u) as [e|] eqn:Ef.
      + pose proof (first_is_newest u s e a Ef En) as ->. exists (entry_kv a). split; [reflexivity|]. split; [|reflexivity].
        unfold is_val. rewrite (proj2 (kv_seq a Ha)), Hval. apply N.eqb_refl.
      + exfalso. unfold newest_visible in Ef.
        assert (Hin : In (entry_kv a) L) by (apply L_in; exists a; auto).
        pose proof (find_none_all _ _ Ef _ Hin) as Hf. cbv beta in Hf. rewrite (nv_pred a u s Ha) in Hf. congruence.
  Qed.
End ViewGet.
