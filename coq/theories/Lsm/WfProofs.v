(* Lsm/WfProofs.v — the boolean well-formedness check evaluated on dumped versions (Compact.wf_versionb)
   implies the propositional invariant under which the read path is correct (LsmProofs.wf_state). *)
From GL Require Import Base.Order Base.BytesProofs Base.OrderProofs Codec.IKey Codec.IKeyProofs Lsm.Lsm Lsm.Compact Lsm.LsmProofs.
From Coq Require Import ZArith Lia ZifyN ZifyNat ZifyBool.

Section Proofs.
  Variable c : comparer.
  Hypothesis ok : comparer_ok c.
  Variable p : kparams.
  Hypothesis pok : kparams_ok p.

  Notation ssorted := (ssorted c).
  Notation kinds_ok := (kinds_ok p).

  Lemma sortedb_ssorted l : sortedb c l = true -> ssorted l.
  Proof.
    induction l as [|a l IH]; intros H; [exact I|].
    destruct l as [|b l']; [split; [constructor|exact I]|].
    cbn [sortedb] in H. destruct (ecmp c a b) eqn:E; try discriminate.
    specialize (IH H). split; [|exact IH]. destruct IH as [Hall _].
    constructor; [exact E|]. rewrite Forall_forall in *. intros x Hx.
    eapply (icmp_trans c ok); [exact E|apply Hall; exact Hx].
  Qed.

  Lemma kindsb_ok l : kindsb p l = true -> kinds_ok l.
  Proof.
    unfold kindsb, LsmProofs.kinds_ok. rewrite forallb_forall, Forall_forall.
    intros H x Hx. apply N.leb_le. apply H. exact Hx.
  Qed.

  Lemma table_okb_ok t : table_okb c p t = true -> table_ok c p t /\ t_entries t <> [].
  Proof.
    unfold table_okb, table_ok. intros H. apply andb_prop in H as [H H3]. apply andb_prop in H as [H1 H2].
    split; [split; [apply sortedb_ssorted; exact H2|apply kindsb_ok; exact H3]|].
    destruct (t_entries t); [discriminate|discriminate].
  Qed.

  Lemma tables_okb_ok ts : forallb (table_okb c p) ts = true -> tables_ok c p ts.
  Proof.
    unfold tables_ok. rewrite forallb_forall, Forall_forall. intros H t Ht. apply table_okb_ok. apply H. exact Ht.
  Qed.

  (* user keys inside a sorted table lie between those of its first and last entries *)
  Lemma in_table_bounds t x : ssorted (t_entries t) -> In x (t_entries t) ->
    exists f l, t_first t = Some f /\ t_last t = Some l /\
      cmp c (e_uk f) (e_uk x) <> Gt /\ cmp c (e_uk x) (e_uk l) <> Gt.
  Proof.
    intros Hs Hx. unfold t_first, t_last.
    destruct (hd_error (t_entries t)) as [f|] eqn:F.
    2:{ destruct (t_entries t); [destruct Hx|discriminate]. }
    destruct (last (map Some (t_entries t)) None) as [l|] eqn:L.
    2:{ apply last_none_nil in L. rewrite L in Hx. destruct Hx. }
    exists f, l. split; [reflexivity|]. split; [reflexivity|]. split.
    - apply (ssorted_hd_le c ok _ f x Hs F Hx).
    - destruct (ssorted_last_ge c _ x l Hs L Hx) as [->|H].
      + rewrite (cmp_refl c ok). discriminate.
      + apply (after_uk_le c). exact H.
  Qed.

  Lemma level_disjoint_sorted ts : tables_ok c p ts -> (forall t, In t ts -> t_entries t <> []) ->
    level_disjoint c ts = true -> level_sorted c ts.
  Proof.
    induction ts as [|a ts IH]; intros Hok Hne H; [exact I|].
    destruct ts as [|b ts']; [split; [constructor|exact I]|].
    cbn [level_disjoint] in H. apply andb_prop in H as [H1 H2].
    assert (Hok' : tables_ok c p (b :: ts')) by (inversion Hok; assumption).
    assert (IH' := IH Hok' (fun t Ht => Hne t (or_intror Ht)) H2).
    split; [|exact IH'].
    destruct (t_last a) as [la|] eqn:LA; [|discriminate].
    destruct (t_first b) as [fb|] eqn:FB; [|discriminate].
    apply (ltb_lt c) in H1.
    assert (Ha : table_ok c p a) by (inversion Hok; assumption).
    assert (Hb : table_ok c p b) by (inversion Hok'; assumption).
    assert (AB : forall x y, In x (t_entries a) -> In y (t_entries b) -> cmp c (e_uk x) (e_uk y) = Lt).
    { intros x y Hx Hy.
      destruct (in_table_bounds a x (proj1 Ha) Hx) as [f [l [_ [L [_ Hxl]]]]].
      destruct (in_table_bounds b y (proj1 Hb) Hy) as [f' [l' [F' [_ [Hfy _]]]]].
      rewrite LA in L. injection L as <-. rewrite FB in F'. injection F' as <-.
      eapply (OrderProofs.lt_le_trans c ok); [|exact Hfy]. eapply (OrderProofs.le_lt_trans c ok); [exact Hxl|exact H1]. }
    constructor; [exact AB|].
    destruct IH' as [Hall _]. rewrite Forall_forall in *. intros t' Ht' x y Hx Hy.
    (* go through any entry of b *)
    destruct (t_entries b) as [|y2 yb] eqn:EB; [exfalso; apply (Hne b); [right; left; reflexivity|exact EB]|].
    eapply (cmp_trans c ok); [apply (AB x y2 Hx); left; reflexivity|].
    apply (Hall t' Ht' y2 y); [left; reflexivity|exact Hy].
  Qed.

  Lemma newer_than_P hi lo : newer_than c hi lo = true -> newer_thanP hi lo.
  Proof.
    unfold newer_than, newer_thanP. rewrite forallb_forall. intros H a b Ha Hb Hu.
    specialize (H a Ha). rewrite forallb_forall in H. specialize (H b Hb).
    rewrite Hu, (cmp_refl c ok) in H. apply N.ltb_lt in H. exact H.
  Qed.

  Lemma levels_newer_chain lvls : levels_newer c lvls = true ->
    chain_newer (map LsmProofs.level_entries lvls).
  Proof.
    induction lvls as [|l rest IH]; intros H; [exact I|].
    cbn [levels_newer] in H. apply andb_prop in H as [H1 H2]. cbn [map chain_newer]. split; [|apply IH; exact H2].
    rewrite forallb_forall in H1. rewrite Forall_forall. intros y Hy.
    apply in_map_iff in Hy as [d [<- Hd]]. apply newer_than_P. apply H1. exact Hd.
  Qed.

  Lemma uniqb_nodup l : uniqb l = true -> NoDup (map keyseq l).
  Proof.
    induction l as [|a l IH]; intros H; [constructor|].
    cbn [uniqb] in H. apply andb_prop in H as [H1 H2]. cbn [map]. constructor; [|apply IH; exact H2].
    intros Hin. apply in_map_iff in Hin as [b [Hk Hb]]. rewrite forallb_forall in H1. specialize (H1 b Hb).
    unfold keyseq in Hk. injection Hk as Hu Hs.
    assert (beq (e_uk a) (e_uk b) = true) by (apply beq_eq; congruence).
    assert ((e_seq a =? e_seq b) = true) by (apply N.eqb_eq; congruence).
    rewrite H, H0 in H1. discriminate.
  Qed.

  Lemma forall_concat {A} (P : A -> bool) (ls : list (list A)) :
    forallb P (concat ls) = true -> forall l, In l ls -> forallb P l = true.
  Proof.
    intros H l Hl. rewrite forallb_forall in *. intros x Hx. apply H. apply in_concat. exists l. split; assumption.
  Qed.

  (* The boolean certificate evaluated on every dumped version implies the read-path invariant. *)
  Theorem wf_versionb_sound lvls : wf_versionb c p lvls = true ->
    wf_state c p {| st_mem := []; st_frozen := []; st_aux := []; st_levels := lvls |}.
  Proof.
    unfold wf_versionb. intros H. apply andb_prop in H as [H H3]. apply andb_prop in H as [H1 H2].
    assert (T : forall l, In l lvls -> tables_ok c p l /\ (forall t, In t l -> t_entries t <> [])).
    { intros l Hl. pose proof (forall_concat _ _ H1 l Hl) as Hf. split; [apply tables_okb_ok; exact Hf|].
      intros t Ht. rewrite forallb_forall in Hf. apply table_okb_ok. apply Hf. exact Ht. }
    constructor; cbn [st_mem st_frozen st_aux st_levels].
    - split; [exact I|constructor].
    - split; [exact I|constructor].
    - split; [constructor|constructor].
    - destruct lvls as [|l0 rest]; cbn [hd]; [split; constructor|].
      apply andb_prop in H2 as [H2 _]. apply andb_prop in H2 as [_ H2].
      split; [apply T; left; reflexivity|apply uniqb_nodup; exact H2].
    - destruct lvls as [|l0 rest]; cbn [tl]; [constructor|].
      apply andb_prop in H2 as [_ H2]. rewrite forallb_forall in H2. rewrite Forall_forall. intros l Hl.
      destruct (T l (or_intror Hl)) as [T1 T2]. split; [exact T1|].
      apply level_disjoint_sorted; [exact T1|exact T2|apply H2; exact Hl].
    - unfold comps; cbn [st_mem st_frozen st_aux st_levels chain_newer].
      assert (E : forall l : list (list entry), Forall (fun y => newer_thanP [] y) l).
      { intros l. rewrite Forall_forall. intros y _ a b []. }
      split; [apply E|]. split; [apply E|]. split; [apply E|]. apply levels_newer_chain. exact H3.
  Qed.
End Proofs.
