(* Lsm/CertProofs.v — the boolean certificate evaluated on an observed compaction implies the
   hypotheses of ReorgProofs.compaction_preserves, hence reads at every sequence number >= minSeq are
   preserved by that compaction. *)
From GL Require Import Base.Order Base.BytesProofs Base.OrderProofs Codec.IKey Codec.IKeyProofs Lsm.Lsm Lsm.Compact
  Lsm.LsmProofs Lsm.CompactProofs Lsm.History Lsm.HistoryProofs Lsm.ReorgProofs Lsm.WfProofs.
From Coq Require Import ZArith Lia ZifyN ZifyNat ZifyBool.

Section Proofs.
  Variable c : comparer.
  Hypothesis ok : comparer_ok c.
  Variable p : kparams.
  Hypothesis pok : kparams_ok p.

  Lemma NoDup_map_inj {A B} (f : A -> B) l a b : NoDup (map f l) -> In a l -> In b l -> f a = f b -> a = b.
  Proof.
    induction l as [|x l IH]; intros Hnd Ha Hb Hf; [destruct Ha|].
    cbn [map] in Hnd. apply NoDup_cons_iff in Hnd as [Hn Hnd].
    destruct Ha as [->|Ha]; destruct Hb as [->|Hb]; [reflexivity| | |apply IH; assumption].
    - exfalso. apply Hn. rewrite Hf. apply in_map. exact Hb.
    - exfalso. apply Hn. rewrite <- Hf. apply in_map. exact Ha.
  Qed.

  Lemma NoDup_app_left {A} (l1 l2 : list A) : NoDup (l1 ++ l2) -> NoDup l1.
  Proof.
    induction l1 as [|x l1 IH]; cbn; [constructor|]. intros H. apply NoDup_cons_iff in H as [Hn H].
    constructor; [|apply IH; exact H]. intros Hx. apply Hn. apply in_or_app. left; exact Hx.
  Qed.

  Lemma uniqb_uniq_in l : uniqb l = true -> uniq_in l.
  Proof.
    intros H a b Ha Hb Hu Hs. apply (NoDup_map_inj keyseq l a b (uniqb_nodup l H) Ha Hb).
    unfold keyseq. congruence.
  Qed.

  Lemma othersb_sound base I O : othersb c base I O = true ->
    forall o i, In o O -> In i I -> e_uk o = e_uk i ->
      e_seq i < e_seq o \/ (e_seq o < e_seq i /\ base (e_uk i) = false).
  Proof.
    unfold othersb. rewrite forallb_forall. intros H o i Ho Hi Hu.
    specialize (H o Ho). rewrite forallb_forall in H. specialize (H i Hi).
    rewrite Hu, (cmp_refl c ok) in H. apply orb_prop in H as [H|H].
    - left. apply N.ltb_lt. exact H.
    - right. apply andb_prop in H as [H1 H2]. split; [apply N.ltb_lt; exact H1|].
      destruct (base (e_uk i)); [discriminate|reflexivity].
  Qed.

  (* An observed compaction whose certificate evaluates to true preserves every read at a sequence number
     >= minSeq: outs are the tables it wrote, I the entries of the tables it consumed, O everything else. *)
  Theorem certificate_sound minSeq deeper I O outs :
    compaction_cert c p minSeq deeper I O outs = true ->
    concat outs = drop_run c p minSeq (is_base c deeper) None (isort c I) ->
    forall k s, minSeq <= s ->
      History.res p (newest c k s (concat outs ++ O) None) = History.res p (newest c k s (I ++ O) None).
  Proof.
    unfold compaction_cert. intros H Houts k s Hs.
    apply andb_prop in H as [H H4]. apply andb_prop in H as [H H3]. apply andb_prop in H as [H1 H2].
    rewrite Houts.
    apply (compaction_preserves c ok p pok minSeq (is_base c deeper)).
    - apply N.ltb_lt. exact H4.
    - apply kindsb_ok. exact H1.
    - pose proof (uniqb_nodup (I ++ O) H2) as Hn. rewrite map_app in Hn.
      eapply NoDup_app_left. exact Hn.
    - apply uniqb_uniq_in. exact H2.
    - apply othersb_sound. exact H3.
    - exact Hs.
  Qed.
End Proofs.
