(* Lsm/LsmPreProofs.v — the read path of the L1 model returns the newest visible entry, for every comparer that
   satisfies the PREORDER contract (Base/OrderPre.v comparer_pre_ok): byte-different keys may compare equal and are
   then ONE user key.  "The entry has user key k" reads cmp c (e_uk e) k = Eq throughout (Lsm.vis already does);
   the well-formedness conditions speak about equivalence classes (newer_thanE, uniqE).  LsmProofs.get_correct (for
   injective comparers) is the corollary get_correct_from_pre. *)
From GL Require Import Base.Order Base.OrderProofs Base.OrderPre Codec.IKey Codec.IKeyProofs Codec.IKeyPreProofs
  Lsm.Lsm Lsm.LsmProofs.
From Coq Require Import ZArith Lia ZifyN ZifyNat ZifyBool.

Section Proofs.
  Variable c : comparer.
  Hypothesis ok : comparer_pre_ok c.
  Variable p : kparams.
  Hypothesis pok : kparams_ok p.

  Notation ecmp := (ecmp c).
  Notation find_ge := (find_ge c).
  Notation vis := (vis c).
  Notation newest := (newest c).
  Notation ssorted := (ssorted c).
  Notation kinds_ok := (kinds_ok p).
  Notation first_vis := (first_vis c).
  Notation tables_ok := (tables_ok c p).
  Notation level_sorted := (level_sorted c).
  Notation level_ok := (level_ok c p).

  Lemma pbelow_probe e k s : e_kind e <= keyTypeSeek p ->
    icmp c (e_ikey e) (probe p k s) = Lt <->
    (cmp c (e_uk e) k = Lt \/ (cmp c (e_uk e) k = Eq /\ s < e_seq e)).
  Proof.
    intros Hk. unfold icmp, probe, e_ikey; cbn [uk num].
    destruct (cmp c (e_uk e) k) eqn:E.
    - rewrite N.compare_lt_iff. unfold pack.
      pose proof (seek_lt_256 p pok). split.
      + intros H1. right. split; [reflexivity|]. nia.
      + intros [H1|[_ H1]]; [discriminate|]. nia.
    - split; auto.
    - split; [discriminate|]. intros [H1|[H1 _]]; discriminate.
  Qed.

  Lemma pvis_true e k s : vis k s e = true <-> (cmp c (e_uk e) k = Eq /\ e_seq e <= s).
  Proof.
    unfold Lsm.vis. destruct (cmp c (e_uk e) k) eqn:E.
    - rewrite N.leb_le. tauto.
    - split; [discriminate|]. intros [H _]. discriminate.
    - split; [discriminate|]. intros [H _]. discriminate.
  Qed.

  (* visibility depends on the class of the key only *)
  Lemma pvis_key_compat k k' s e : cmp c k k' = Eq -> vis k s e = vis k' s e.
  Proof. intros H. unfold Lsm.vis. rewrite (pcmp_eq_r c ok k k' (e_uk e) H). reflexivity. Qed.

  Lemma pvis_not_below e k s : e_kind e <= keyTypeSeek p -> vis k s e = true ->
    icmp c (e_ikey e) (probe p k s) <> Lt.
  Proof.
    intros Hk Hv H. apply pvis_true in Hv as [Hu Hs]. apply (pbelow_probe e k s Hk) in H.
    destruct H as [H|[_ H]]; [congruence|lia].
  Qed.

  Lemma pecmp_lt_trans a b d : ecmp a b = Lt -> ecmp b d = Lt -> ecmp a d = Lt.
  Proof. apply (picmp_trans c ok). Qed.

  Lemma pafter_same_key a b : kinds_ok [a; b] -> ecmp a b = Lt -> cmp c (e_uk a) (e_uk b) = Eq ->
    e_seq b <= e_seq a.
  Proof.
    intros Hk H Hu. unfold Lsm.ecmp, icmp, e_ikey in H; cbn [uk num] in H.
    rewrite Hu in H. rewrite N.compare_lt_iff in H. unfold pack in H.
    inversion Hk as [|? ? Ha Hk']; subst. inversion Hk' as [|? ? Hb _]; subst.
    pose proof (seek_lt_256 p pok). nia.
  Qed.

  Lemma same_class_of_vis k s a b : vis k s a = true -> vis k s b = true -> cmp c (e_uk a) (e_uk b) = Eq.
  Proof.
    intros Va Vb. apply pvis_true in Va as [Ua _]. apply pvis_true in Vb as [Ub _].
    eapply (pcmp_eq_trans c ok); [exact Ua|]. apply (pcmp_eq_sym c ok). exact Ub.
  Qed.

  Lemma psorted_first_dominates k s e l : kinds_ok (e :: l) -> ssorted (e :: l) -> vis k s e = true ->
    forall x, In x l -> vis k s x = true -> e_seq x <= e_seq e.
  Proof.
    intros Hk [Hall _] Ve x Hx Vx.
    rewrite Forall_forall in Hall. specialize (Hall x Hx).
    apply pafter_same_key; [|exact Hall|eapply same_class_of_vis; eauto].
    unfold LsmProofs.kinds_ok in *. rewrite Forall_forall in Hk.
    repeat constructor; apply Hk; [left; reflexivity|right; exact Hx].
  Qed.

  Lemma pnewest_sorted k s l acc : kinds_ok l -> ssorted l ->
    newest k s l acc = match first_vis k s l with Some e => newer acc e | None => acc end.
  Proof.
    revert acc; induction l as [|e l IH]; intros acc Hk Hs; cbn [Lsm.newest LsmProofs.first_vis]; [reflexivity|].
    destruct (vis k s e) eqn:V.
    - pose proof (psorted_first_dominates k s e l Hk Hs V) as D.
      destruct acc as [a|]; cbn [newer].
      + destruct (e_seq a <? e_seq e) eqn:L.
        * apply newest_dominated. exact D.
        * apply newest_dominated. intros x Hx Vx. apply N.ltb_ge in L. specialize (D x Hx Vx). lia.
      + apply newest_dominated. exact D.
    - apply IH; [eapply kinds_ok_tl; eauto|apply Hs].
  Qed.

  Lemma pfind_ge_sorted k s l : kinds_ok l -> ssorted l ->
    match find_ge (probe p k s) l with
    | Some e => match cmp c (e_uk e) k with
                | Eq => first_vis k s l = Some e
                | _ => first_vis k s l = None
                end
    | None => first_vis k s l = None
    end.
  Proof.
    induction l as [|e l IH]; intros Hk Hs; cbn [Lsm.find_ge LsmProofs.first_vis]; [reflexivity|].
    assert (Hke : e_kind e <= keyTypeSeek p) by (inversion Hk; assumption).
    destruct (icmp c (e_ikey e) (probe p k s)) eqn:E.
    - apply (picmp_eq c) in E. unfold probe, e_ikey in E. cbn [uk num] in E. destruct E as [Eu En].
      rewrite Eu.
      assert (V : vis k s e = true).
      { apply pvis_true. split; [exact Eu|]. unfold pack in En. pose proof (seek_lt_256 p pok). nia. }
      rewrite V. reflexivity.
    - assert (V : vis k s e = false).
      { destruct (vis k s e) eqn:V; [|reflexivity]. exfalso. eapply pvis_not_below; eauto. }
      rewrite V. apply IH; [eapply kinds_ok_tl; eauto|apply Hs].
    - assert (NB : ~ (cmp c (e_uk e) k = Lt \/ (cmp c (e_uk e) k = Eq /\ s < e_seq e))).
      { intros H. apply (pbelow_probe e k s Hke) in H. congruence. }
      destruct (cmp c (e_uk e) k) eqn:U.
      + assert (V : vis k s e = true).
        { apply pvis_true; split; [exact U|].
          destruct (N.le_gt_cases (e_seq e) s) as [Hle|Hgt]; [exact Hle|].
          exfalso. apply NB. right. split; [reflexivity|lia]. }
        rewrite V. reflexivity.
      + exfalso. apply NB. left. reflexivity.
      + assert (V : vis k s e = false) by (unfold Lsm.vis; rewrite U; reflexivity).
        rewrite V.
        destruct (first_vis k s l) as [x|] eqn:F; [|reflexivity]. exfalso.
        apply first_vis_in in F as [Hx Vx]. apply pvis_true in Vx as [Vx _].
        destruct Hs as [Hall _]. rewrite Forall_forall in Hall. specialize (Hall x Hx).
        apply after_uk_le in Hall. rewrite (pcmp_eq_r c ok (e_uk x) k (e_uk e) Vx) in Hall.
        apply Hall. exact U.
  Qed.

  Lemma pcomp_get_sorted k s l : kinds_ok l -> ssorted l ->
    comp_get c p l k s = group_res p (first_vis k s l).
  Proof.
    intros Hk Hs. pose proof (pfind_ge_sorted k s l Hk Hs) as H. unfold comp_get.
    destruct (find_ge (probe p k s) l) as [e|]; [|rewrite H; reflexivity].
    destruct (cmp c (e_uk e) k); rewrite H; reflexivity.
  Qed.

  Lemma pcomp_get_newest k s l : kinds_ok l -> ssorted l ->
    comp_get c p l k s = group_res p (newest k s l None).
  Proof.
    intros Hk Hs. rewrite pcomp_get_sorted, pnewest_sorted by assumption.
    destruct (first_vis k s l); reflexivity.
  Qed.

  (* every entry of [lo] of the user key (class) of an entry of [hi] is older *)
  Definition newer_thanE (hi lo : list entry) : Prop :=
    forall a b, In a hi -> In b lo -> cmp c (e_uk a) (e_uk b) = Eq -> e_seq b < e_seq a.

  Lemma pchain_step k s A R : newer_thanE A R ->
    newest k s (A ++ R) None =
    match newest k s A None with Some a => Some a | None => newest k s R None end.
  Proof.
    intros HN. rewrite newest_app. destruct (newest k s A None) as [a|] eqn:E; [|reflexivity].
    apply newest_dominated. intros x Hx Vx.
    apply newest_in in E as [E|[Ha Va]]; [discriminate|].
    assert (e_seq x < e_seq a) by (apply (HN a x Ha Hx); eapply same_class_of_vis; eauto). lia.
  Qed.

  (* no two entries share user key (class) and sequence number *)
  Definition same_ks (a b : entry) : Prop := cmp c (e_uk a) (e_uk b) = Eq /\ e_seq a = e_seq b.
  Fixpoint uniqE (l : list entry) : Prop :=
    match l with
    | [] => True
    | a :: l' => (forall b, In b l' -> ~ same_ks a b) /\ uniqE l'
    end.

  Lemma uniqE_app_l l1 l2 : uniqE (l1 ++ l2) -> uniqE l2.
  Proof. induction l1 as [|x l1 IH]; cbn; [auto|]. intros [_ H]. auto. Qed.

  Lemma uniqE_app_sep l1 l2 a b : uniqE (l1 ++ l2) -> In a l1 -> In b l2 -> ~ same_ks a b.
  Proof.
    induction l1 as [|y l1 IH]; cbn; [tauto|]. intros [H1 H2] [->|Ha] Hb.
    - apply H1. apply in_or_app. right; exact Hb.
    - apply IH; assumption.
  Qed.

  Lemma pssorted_hd_le l f x : ssorted l -> hd_error l = Some f -> In x l -> cmp c (e_uk f) (e_uk x) <> Gt.
  Proof.
    destruct l as [|y l]; cbn; [discriminate|]. intros [Hall _] H Hx. injection H as <-.
    destruct Hx as [<-|Hx]; [rewrite (pcmp_refl c ok); discriminate|].
    rewrite Forall_forall in Hall. apply after_uk_le. apply Hall. exact Hx.
  Qed.

  Lemma pcovers_of_member t x k : ssorted (t_entries t) -> In x (t_entries t) -> cmp c (e_uk x) k = Eq ->
    t_covers c t k = true.
  Proof.
    intros Hs Hx Hxk. unfold t_covers, t_first, t_last.
    destruct (hd_error (t_entries t)) as [f|] eqn:F.
    2:{ destruct (t_entries t); [destruct Hx|discriminate]. }
    destruct (last (map Some (t_entries t)) None) as [l|] eqn:L.
    2:{ apply last_none_nil in L. rewrite L in Hx. destruct Hx. }
    apply andb_true_intro. split; apply (leb_le c).
    - unfold le. rewrite <- (pcmp_eq_r c ok (e_uk x) k (e_uk f) Hxk). apply (pssorted_hd_le _ f x Hs F Hx).
    - unfold le. rewrite <- (pcmp_eq_l c ok (e_uk x) k (e_uk l) Hxk).
      destruct (ssorted_last_ge c _ x l Hs L Hx) as [->|H].
      + rewrite (pcmp_refl c ok). discriminate.
      + apply after_uk_le. exact H.
  Qed.

  (* level 0 / aux group = newest over the group's entries *)
  Lemma pgroup_get_newest k s ts z :
    tables_ok ts ->
    (forall ze, z = Some ze -> cmp c (e_uk ze) k = Eq) ->
    uniqE (match z with Some ze => [ze] | None => [] end ++ level_entries ts) ->
    group_get c p ts k s z = newest k s (level_entries ts) z.
  Proof.
    revert z; induction ts as [|t ts IH]; intros z Hok Hz Hnd; cbn [group_get]; [reflexivity|].
    unfold level_entries in *. cbn [map concat]. rewrite newest_app.
    inversion Hok as [|? ? [Hs Hk] Hok']; subst.
    assert (Z' : (if t_covers c t k then
                    match find_ge (probe p k s) (t_entries t) with
                    | Some e => match cmp c (e_uk e) k with
                                | Eq => match z with
                                        | Some ze => if e_seq ze <=? e_seq e then Some e else z
                                        | None => Some e end
                                | _ => z end
                    | None => z end
                  else z) = newest k s (t_entries t) z).
    { rewrite (pnewest_sorted k s _ z Hk Hs).
      pose proof (pfind_ge_sorted k s _ Hk Hs) as FG.
      destruct (first_vis k s (t_entries t)) as [e|] eqn:FV.
      - apply first_vis_in in FV as FV'. destruct FV' as [He Ve]. apply pvis_true in Ve as [Ue _].
        rewrite (pcovers_of_member t e k Hs He Ue).
        destruct (find_ge (probe p k s) (t_entries t)) as [e'|]; [|discriminate].
        destruct (cmp c (e_uk e') k); try discriminate. injection FG as FGe; subst e'.
        destruct z as [ze|]; cbn [newer]; [|reflexivity].
        destruct (N.eq_dec (e_seq ze) (e_seq e)) as [Heq|Hne].
        + exfalso. cbn [app] in Hnd. cbn [concat] in Hnd. destruct Hnd as [Hn _].
          apply (Hn e); [apply in_or_app; left; exact He|]. split; [|exact Heq].
          eapply (pcmp_eq_trans c ok); [apply (Hz ze eq_refl)|]. apply (pcmp_eq_sym c ok). exact Ue.
        + destruct (e_seq ze <=? e_seq e) eqn:A; destruct (e_seq ze <? e_seq e) eqn:B; try reflexivity; lia.
      - destruct (t_covers c t k); [|reflexivity].
        destruct (find_ge (probe p k s) (t_entries t)) as [e'|]; [|reflexivity].
        destruct (cmp c (e_uk e') k); try reflexivity. discriminate. }
    rewrite Z'. apply IH.
    - exact Hok'.
    - intros ze Hze. apply newest_in in Hze as [Hze|[_ V]]; [apply Hz; exact Hze|].
      apply pvis_true in V. tauto.
    - cbn [map concat] in Hnd.
      destruct (newest k s (t_entries t) z) as [a|] eqn:EA.
      2:{ cbn [app]. destruct z; cbn [app] in Hnd.
          - destruct Hnd as [_ Hnd]. eapply uniqE_app_l; eauto.
          - eapply uniqE_app_l; eauto. }
      cbn [app].
      apply newest_in in EA as [EA|[Ha _]].
      + subst z. cbn [app] in Hnd. destruct Hnd as [Hn Hnd']. split.
        * intros b Hb. apply Hn. apply in_or_app. right. exact Hb.
        * eapply uniqE_app_l; eauto.
      + assert (Hnd2 : uniqE (t_entries t ++ concat (map t_entries ts))).
        { destruct z; cbn [app] in Hnd; [apply Hnd|exact Hnd]. }
        split.
        * intros b Hb. eapply uniqE_app_sep; eauto.
        * eapply uniqE_app_l; eauto.
  Qed.

  (* ---- one sorted level ---- *)
  Lemma plevel_get_newest k s ts : tables_ok ts -> level_sorted ts ->
    level_get c p ts k s = group_res p (newest k s (level_entries ts) None).
  Proof.
    induction ts as [|t ts IH]; intros Hok Hls; [reflexivity|].
    inversion Hok as [|? ? [Hs Hk] Hok']; subst. destruct Hls as [Hsep Hls].
    unfold level_entries. cbn [map concat]. fold (level_entries ts).
    destruct (t_last t) as [l|] eqn:L.
    2:{ rewrite level_get_cons_skip by (left; exact L).
        unfold t_last in L. apply last_none_nil in L. rewrite L. cbn [app]. apply IH; assumption. }
    assert (Cases : icmp c (e_ikey l) (probe p k s) = Lt \/ icmp c (e_ikey l) (probe p k s) <> Lt)
      by (destruct (icmp c (e_ikey l) (probe p k s)); [right|left|right]; congruence).
    destruct Cases as [E|NBl].
    { rewrite level_get_cons_skip by (right; exists l; split; [exact L|exact E]).
      assert (Hl : In l (t_entries t)) by (apply last_some_in; exact L).
      rewrite newest_app, (newest_none c k s (t_entries t)); [apply IH; assumption|].
      intros x Hx. destruct (vis k s x) eqn:V; [|reflexivity]. exfalso.
      assert (Hkx : e_kind x <= keyTypeSeek p) by (apply (kinds_ok_in _ _ _ Hk Hx)).
      apply (pvis_not_below x k s Hkx V).
      destruct (ssorted_last_ge c _ x l Hs L Hx) as [->|Hxl]; [exact E|].
      eapply (picmp_trans c ok); eauto. }
    assert (Hl : In l (t_entries t)) by (apply last_some_in; exact L).
    assert (Hkl : e_kind l <= keyTypeSeek p) by (apply (kinds_ok_in _ _ _ Hk Hl)).
    assert (Ul : cmp c (e_uk l) k <> Lt).
    { intros U. apply NBl. apply (pbelow_probe l k s Hkl). left. exact U. }
    assert (Rest : forall y, In y (level_entries ts) -> vis k s y = false).
    { intros y Hy. destruct (vis k s y) eqn:V; [|reflexivity]. exfalso.
      apply pvis_true in V as [Uy _]. unfold level_entries in Hy.
      apply in_concat in Hy as [es [Hes Hy]]. apply in_map_iff in Hes as [t' [<- Ht']].
      rewrite Forall_forall in Hsep. specialize (Hsep t' Ht' l y Hl Hy).
      rewrite (pcmp_eq_r c ok (e_uk y) k (e_uk l) Uy) in Hsep.
      apply Ul. exact Hsep. }
    rewrite newest_app, (newest_none c k s _ Rest).
    assert (SM : search_max c (t :: ts) (probe p k s) = Some t).
    { cbn [search_max]. rewrite L. destruct (icmp c (e_ikey l) (probe p k s)); congruence. }
    unfold level_get. rewrite SM.
    destruct (t_first t) as [f|] eqn:F;
      [|unfold t_first in F; destruct (t_entries t); [destruct Hl|discriminate]].
    destruct (Order.leb c (e_uk f) k) eqn:LB; [apply pcomp_get_newest; assumption|].
    rewrite (newest_none c k s (t_entries t)); [reflexivity|].
    intros x Hx; destruct (vis k s x) eqn:V; [|reflexivity]; exfalso.
    apply pvis_true in V as [Ux _].
    pose proof (pssorted_hd_le _ f x Hs F Hx) as HH.
    rewrite (pcmp_eq_r c ok (e_uk x) k (e_uk f) Ux) in HH.
    apply (leb_le c) in HH; congruence.
  Qed.

  (* ---- levels below level 0 ---- *)
  Fixpoint chain_newerE (cs : list (list entry)) : Prop :=
    match cs with
    | [] => True
    | x :: rest => Forall (fun y => newer_thanE x y) rest /\ chain_newerE rest
    end.

  Lemma newer_thanE_concat x rest : Forall (fun y => newer_thanE x y) rest -> newer_thanE x (concat rest).
  Proof.
    intros H a b Ha Hb. apply in_concat in Hb as [y [Hy Hb]].
    rewrite Forall_forall in H. exact (H y Hy a b Ha Hb).
  Qed.

  Lemma pdeep_get_newest k s lvls : Forall level_ok lvls -> chain_newerE (map level_entries lvls) ->
    deep_get c p lvls k s = group_res p (newest k s (concat (map level_entries lvls)) None).
  Proof.
    induction lvls as [|ts rest IH]; intros Hok Hch; [reflexivity|].
    inversion Hok as [|? ? [H1 H2] Hok']; subst. cbn [map] in Hch. destruct Hch as [Hn Hch].
    cbn [deep_get map concat]. rewrite (plevel_get_newest k s ts H1 H2).
    rewrite (pchain_step k s _ _ (newer_thanE_concat _ _ Hn)).
    destruct (newest k s (level_entries ts) None) as [a|] eqn:E.
    - cbn [group_res]. unfold res_of. destruct (e_kind a =? keyTypeDel p); reflexivity.
    - cbn [group_res]. apply IH; assumption.
  Qed.

  (* ---- the whole state ---- *)
  Record wf_state_pre (st : lstate) : Prop := {
    pwf_mem : ssorted (st_mem st) /\ kinds_ok (st_mem st);
    pwf_frozen : ssorted (st_frozen st) /\ kinds_ok (st_frozen st);
    pwf_aux : tables_ok (st_aux st) /\ uniqE (level_entries (st_aux st));
    pwf_l0 : tables_ok (hd [] (st_levels st)) /\ uniqE (level_entries (hd [] (st_levels st)));
    pwf_deep : Forall level_ok (tl (st_levels st));
    pwf_chain : chain_newerE (comps st)
  }.

  (* DB.get / version.get on a well-formed layout returns the newest entry of k's CLASS with seq <= s among all
     stored entries, for every preorder comparer *)
  Theorem get_correct_pre st k s : wf_state_pre st ->
    lsm_get c p st k s = group_res p (newest k s (all_entries st) None).
  Proof.
    intros [[Hm1 Hm2] [Hf1 Hf2] [Ha1 Ha2] [H01 H02] Hd Hch].
    rewrite all_entries_comps. unfold comps in *. cbn [chain_newerE] in Hch.
    destruct Hch as [Nm [Nf [Na Hch]]].
    unfold lsm_get.
    rewrite (pcomp_get_newest k s _ Hm2 Hm1).
    rewrite concat_cons, (pchain_step k s (st_mem st) _ (newer_thanE_concat _ _ Nm)).
    destruct (newest k s (st_mem st) None) as [a|]; cbn [group_res].
    { pose proof (res_nonmiss p a). destruct (res_of p a); congruence. }
    rewrite (pcomp_get_newest k s _ Hf2 Hf1).
    rewrite concat_cons, (pchain_step k s (st_frozen st) _ (newer_thanE_concat _ _ Nf)).
    destruct (newest k s (st_frozen st) None) as [a|]; cbn [group_res].
    { pose proof (res_nonmiss p a). destruct (res_of p a); congruence. }
    unfold version_get.
    rewrite (pgroup_get_newest k s (st_aux st) None Ha1) by (try discriminate; exact Ha2).
    rewrite concat_cons, (pchain_step k s (level_entries (st_aux st)) _ (newer_thanE_concat _ _ Na)).
    destruct (newest k s (level_entries (st_aux st)) None) as [a|]; cbn [group_res].
    { pose proof (res_nonmiss p a). destruct (res_of p a); congruence. }
    destruct (st_levels st) as [|l0 rest]; [reflexivity|].
    cbn [hd tl map] in *. destruct Hch as [N0 Hch].
    rewrite (pgroup_get_newest k s l0 None H01) by (try discriminate; exact H02).
    rewrite concat_cons, (pchain_step k s (level_entries l0) _ (newer_thanE_concat _ _ N0)).
    destruct (newest k s (level_entries l0) None) as [a|]; cbn [group_res].
    { pose proof (res_nonmiss p a). destruct (res_of p a); congruence. }
    apply pdeep_get_newest; assumption.
  Qed.

  Corollary get_refines_spec_pre st k s : wf_state_pre st ->
    api_of (lsm_get c p st k s) = spec_get c p st k s.
  Proof. intros H. unfold spec_get. rewrite (get_correct_pre st k s H). reflexivity. Qed.

  (* the answer depends on the class of the key only: every spelling of a user key reads the same *)
  Lemma newest_key_compat k k' s l acc : cmp c k k' = Eq -> newest k s l acc = newest k' s l acc.
  Proof.
    intros H. revert acc; induction l as [|e l IH]; intros acc; cbn [Lsm.newest]; [reflexivity|].
    rewrite (pvis_key_compat k k' s e H). apply IH.
  Qed.

  Theorem get_spelling_irrelevant st k k' s : wf_state_pre st -> cmp c k k' = Eq ->
    lsm_get c p st k s = lsm_get c p st k' s.
  Proof.
    intros Hwf H. rewrite !get_correct_pre by exact Hwf. rewrite (newest_key_compat k k' s _ None H). reflexivity.
  Qed.
End Proofs.

(* ---- the injective case is the special case ---- *)
Section Injective.
  Variable c : comparer.
  Hypothesis ok : comparer_ok c.
  Variable p : kparams.
  Hypothesis pok : kparams_ok p.

  Lemma newer_thanP_E hi lo : newer_thanP hi lo -> newer_thanE c hi lo.
  Proof. intros H a b Ha Hb E. apply (cmp_eq c ok) in E. apply (H a b Ha Hb E). Qed.

  Lemma uniq_E l : uniq l -> uniqE c l.
  Proof.
    unfold uniq. induction l as [|a l IH]; cbn [map uniqE]; [auto|]. intros H.
    apply NoDup_cons_iff in H as [Hn Hnd]. split; [|apply IH; exact Hnd].
    intros b Hb [E1 E2]. apply (cmp_eq c ok) in E1. apply Hn. apply in_map_iff. exists b.
    split; [unfold keyseq; congruence|exact Hb].
  Qed.

  Lemma chain_newer_E cs : chain_newer cs -> chain_newerE c cs.
  Proof.
    induction cs as [|x rest IH]; cbn; [auto|]. intros [H1 H2]. split; [|apply IH; exact H2].
    rewrite Forall_forall in *. intros y Hy. apply newer_thanP_E. apply H1. exact Hy.
  Qed.

  Lemma wf_state_to_pre st : wf_state c p st -> wf_state_pre c p st.
  Proof.
    intros [H1 H2 [H3 H3'] [H4 H4'] H5 H6]. constructor; auto.
    - split; [exact H3|apply uniq_E; exact H3'].
    - split; [exact H4|apply uniq_E; exact H4'].
    - apply chain_newer_E. exact H6.
  Qed.

  (* LsmProofs.get_correct re-derived from the preorder theorem *)
  Corollary get_correct_from_pre st k s : wf_state c p st ->
    lsm_get c p st k s = group_res p (newest c k s (all_entries st) None).
  Proof. intros H. apply (get_correct_pre c (comparer_ok_pre c ok) p pok). apply wf_state_to_pre. exact H. Qed.
End Injective.
