(* Lsm/FinishProofs.v — mechanics of versionStaging.finish (model Lsm/Pick.v): the new version level by level for the
   records of a table compaction / trivial move and of a flush. *)
From GL Require Import Base.Order Base.OrderProofs Codec.IKey Codec.IKeyProofs Lsm.Lsm Lsm.Compact Lsm.LsmProofs
  Lsm.WfProofs Lsm.Pick Lsm.PickBase Lsm.OverlapProofs Lsm.ExpandProofs Lsm.WfLsm.
From Coq Require Import Arith Lia.

Local Open Scope nat_scope.

Lemma trim_nth x : forall i, nth i (trim x) [] = nth i x [].
Proof.
  induction x as [|l x IH]; intros i; [reflexivity|]. cbn [trim].
  destruct (trim x) as [|y r] eqn:E.
  - destruct l as [|t l'].
    + destruct i as [|i]; cbn [nth]; [reflexivity|]. rewrite <- IH. destruct i; reflexivity.
    + destruct i as [|i]; cbn [nth]; [reflexivity|]. rewrite <- IH. reflexivity.
  - destruct i as [|i]; cbn [nth]; [reflexivity|]. apply IH.
Qed.

Lemma pres_all_map {A B} (f : A -> pres B) (g : A -> B) l :
  (forall x, In x l -> f x = POk (g x)) -> pres_all (map f l) = POk (map g l).
Proof.
  induction l as [|x l IH]; intros H; [reflexivity|]. cbn [map pres_all].
  rewrite (H x (or_introl eq_refl)). cbn [pbind]. rewrite IH by (intros y Hy; apply H; right; exact Hy). reflexivity.
Qed.

Lemma nth_map_seq {B} (g : nat -> B) (d : B) n l : l < n -> nth l (map g (seq 0 n)) d = g l.
Proof.
  intros H. rewrite (nth_indep _ d (g 0)) by (rewrite map_length, seq_length; exact H).
  rewrite map_nth, seq_nth by exact H. reflexivity.
Qed.

Lemma fold_max_le (l : list nat) x : In x l -> x <= fold_right Nat.max 0 l.
Proof.
  induction l as [|y l IH]; intros H; [destruct H|]. cbn [fold_right]. destruct H as [->|H]; [lia|].
  specialize (IH H). lia.
Qed.

Section Finish.
  Variable c : comparer.

  Lemma adds_at_high ed l : edit_levels ed <= l -> adds_at ed l = [].
  Proof.
    intros H. unfold adds_at.
    assert (E : forall r, (forall x, In x r -> In x (ed_add ed)) ->
                filter (fun x : nat * table => Nat.eqb (fst x) l) r = []).
    { induction r as [|x r IH]; intros Hr; [reflexivity|]. cbn [filter].
      assert (Hx : S (fst x) <= edit_levels ed).
      { unfold edit_levels. apply fold_max_le. apply in_or_app. right. apply in_map_iff. exists x.
        split; [reflexivity|apply Hr; left; reflexivity]. }
      destruct (Nat.eqb (fst x) l) eqn:Q; [apply Nat.eqb_eq in Q; lia|].
      apply IH. intros y Hy. apply Hr. right; exact Hy. }
    rewrite (E (ed_add ed)) by auto. reflexivity.
  Qed.

  Definition level_fn (trivial : bool) (base : list (list table)) (ed : edit) (l : nat) : pres (list table) :=
    finish_level c trivial l (nth l base []) (dels_at ed l (nth l base [])) (adds_at ed l).

  (* if every level finishes with G l, the new version has exactly these levels *)
  Lemma finish_levels trivial base ed (G : nat -> list table) :
    (forall l, level_fn trivial base ed l = POk (G l)) ->
    exists nv, finish c trivial base ed = POk nv /\ forall l, lv nv l = G l.
  Proof.
    intros H. unfold finish. fold (level_fn trivial base ed).
    set (n := Nat.max (length base) (edit_levels ed)).
    rewrite (pres_all_map (level_fn trivial base ed) G) by (intros; apply H). cbn [pbind].
    eexists. split; [reflexivity|]. intros l. unfold lv. rewrite trim_nth.
    destruct (Nat.lt_ge_cases l n) as [Q|Q]; [apply nth_map_seq; exact Q|].
    rewrite nth_overflow by (rewrite map_length, seq_length; exact Q).
    specialize (H l). unfold level_fn in H.
    rewrite (nth_overflow base) in H by lia. rewrite adds_at_high in H by lia.
    cbn in H. injection H as <-. reflexivity.
  Qed.

  (* a level to which nothing is added *)
  Lemma finish_level_no_adds trivial l base dels :
    finish_level c trivial l base dels [] = POk (filter (fun t => negb (memN (t_num t) dels)) base).
  Proof.
    unfold finish_level. destruct dels as [|d dels].
    - f_equal. induction base as [|t base IH]; [reflexivity|]. cbn [filter memN existsb negb]. f_equal. exact IH.
    - f_equal. apply filter_ext. intros t. cbn [nums_of map memN existsb]. rewrite Bool.andb_true_r. reflexivity.
  Qed.

  (* a level >= 1 to which tables are added through the batch insert *)
  Lemma finish_level_adds_deep k base dels adds : adds <> [] ->
    finish_level c true (S k) base dels adds =
    (let nt := filter (fun t => negb (memN (t_num t) dels) && negb (memN (t_num t) (nums_of adds))) base in
     pdo r <- get_range c (sort_by_key c adds);
     POk (firstn (search_min_idx c nt (snd r)) nt ++ sort_by_key c adds ++ skipn (search_min_idx c nt (snd r)) nt)).
  Proof.
    intros H. unfold finish_level. destruct adds as [|a adds']; [congruence|]. destruct dels; reflexivity.
  Qed.

  Lemma finish_level_adds_l0 base dels adds : adds <> [] ->
    finish_level c true 0 base dels adds =
    (let nt := filter (fun t => negb (memN (t_num t) dels) && negb (memN (t_num t) (nums_of adds))) base in
     let idx := search_num_less nt (t_num (last (sort_by_num adds) no_table)) in
     POk (firstn idx nt ++ sort_by_num adds ++ skipn idx nt)).
  Proof.
    intros H. unfold finish_level. destruct adds as [|a adds']; [congruence|]. destruct dels; reflexivity.
  Qed.

  (* ---- the record of a table compaction ---- *)
  Lemma filter_fst_map {A} (k l : nat) (xs : list A) :
    filter (fun x : nat * A => Nat.eqb (fst x) l) (map (fun t => (k, t)) xs) =
    if Nat.eqb k l then map (fun t => (k, t)) xs else [].
  Proof.
    induction xs as [|x xs IH]; [destruct (Nat.eqb k l); reflexivity|]. cbn [map filter fst]. rewrite IH.
    destruct (Nat.eqb k l); reflexivity.
  Qed.

  Lemma map_snd_pair {A} (k : nat) (xs : list A) : map snd (map (fun t => (k, t)) xs) = xs.
  Proof. induction xs as [|x xs IH]; [reflexivity|]. cbn [map snd]. rewrite IH. reflexivity. Qed.

  Lemma adds_at_ce cm outs l :
    adds_at (compaction_edit cm outs) l = if Nat.eqb (S (c_level cm)) l then outs else [].
  Proof.
    unfold adds_at, compaction_edit. cbn [ed_add]. rewrite filter_fst_map.
    destruct (Nat.eqb (S (c_level cm)) l); [apply map_snd_pair|reflexivity].
  Qed.

  Lemma dels_raw_ce cm outs l :
    map snd (filter (fun x : nat * N => Nat.eqb (fst x) l) (ed_del (compaction_edit cm outs))) =
    (if Nat.eqb (c_level cm) l then nums_of (c_t0 cm) else []) ++
    (if Nat.eqb (S (c_level cm)) l then nums_of (c_t1 cm) else []).
  Proof.
    unfold compaction_edit. cbn [ed_del]. rewrite filter_app, map_app.
    assert (E : forall k (ts : list table),
      map snd (filter (fun x : nat * N => Nat.eqb (fst x) l) (map (fun t => (k, t_num t)) ts)) =
      if Nat.eqb k l then nums_of ts else []).
    { intros k ts. destruct (Nat.eqb k l) eqn:Q; induction ts as [|t ts IH]; cbn [map filter fst]; try reflexivity; rewrite Q.
      - cbn [map snd nums_of]. f_equal. exact IH.
      - exact IH. }
    rewrite !E. reflexivity.
  Qed.
End Finish.
