(* Lsm/TxnBytes.v — transactions at BYTE level: leveldb/db_transaction.go as the code computes it, over the
   byte-level DB state of Lsm/ReadPath.v (memdb arrays, table files as bytes).

     leveldb/db_transaction.go  Transaction.put (makeInternalKey at tr.seq+1, the flush-when-full rule
                                tr.mem.Free() < len(ikey)+len(value), mem.Put, tr.seq++), Put / Delete / Write
                                (Batch.replayInternal: records applied one by one, the first error ends the call
                                and everything applied before it STAYS), flush (tOps.createFrom of the private
                                memdb; Reset when the transaction is the only holder of the memdb, else a memdb
                                from the pool; tr.tables, tr.rec.addTableFile), Get (DB.get with auxm = tr.mem,
                                auxt = tr.tables), NewIterator (DB.newIterator with the same), Commit (flush,
                                setSeqNum, up to three session.commit attempts, commitFailed, setSeq, setDone),
                                discard / Discard (the fresh manifest before the tables of a failed commit are
                                removed; tables kept when that fails too; the sequence numbers of a failed commit
                                consumed), OpenTransaction (tr.seq = db.seq, a memdb from the pool)
     leveldb/db.go              DB.get with auxm / auxt (the transaction's memdb first, then the DB's memdbs,
                                then version.get with the aux tables walked as "level -1" in front of level 0)
     leveldb/version.go         walkOverlapping's aux block; versionStaging.finish for level 0 (sortByNum)
     leveldb/session.go         session.commit: flushManifest, or newManifest when manifestFailed / the manifest
                                is too big (the record is then the snapshot of the NEW version)
     leveldb/session_util.go    fillRecord (next-file-num; snapshot: journal-num, seq-num, compaction pointers,
                                comparer), version.fillRecord, recordCommited
     leveldb/session_record.go  the record under construction and its encoding (Codec/SessionRecord.v, C04)
     leveldb/batch.go           the records of a Batch (Codec/Batch.v, C01)
     leveldb/memdb              Put / Reset / Free / Len on the array-encoded skip list (Mem/MemDB.v, C14)

   What comes from OUTSIDE the model (an oracle argument of the operation, as for the heights of memdb.Put in
   Codec/Batch.v): the height randHeight draws; the table FILE a successful createFrom wrote (number, recorded
   bounds, bytes) or its failure; the capacity of a memdb that had to grow or was taken from the pool
   (cap(kvData) after append / mpoolGet); the outcome of each manifest attempt (ok / failed, and whether the
   record reached the file), whether the manifest had grown past MaxManifestFileSize, and the next file number
   the session holds at that moment.  The theorems quantify over all of them (the table file under the
   writer's contract of property C13: it holds exactly the pairs of the memdb it was built from).

   Not modelled: reference counting beyond the memdb's (getref() == 1), statistics, logging, the compaction
   triggers after Commit, db.ok()/closeC (a DB that is being closed), OpenTransaction's own flushing of the
   DB's memdb (the operation is defined on a DB whose live memdb is empty and which has no frozen one — the
   state OpenTransaction establishes before it creates the transaction), the table cache.  Go panics and
   exhausted fuel are explicit results.  Model file: definitions only. *)
From GL Require Import Base.Bytes Base.Order Codec.IKey Codec.Table Lsm.Lsm Lsm.ReadPath Lsm.IterPath Lsm.History Lsm.Txn.
From GL Require Codec.Batch Codec.SessionRecord Mem.MemDB Iter.Cursor.
From Coq Require Import ZArith.
Open Scope N_scope.

Module SR := SessionRecord.

(* ------------------------------------------------------------------ state *)
(* Transaction *)
Record ttxn := mkTT {
  tt_seq : N;                 (* tr.seq *)
  tt_mem : MemDB.db;          (* tr.mem.DB *)
  tt_cap : N;                 (* cap(tr.mem.kvData): Capacity() *)
  tt_refs : N;                (* tr.mem.getref(): 1 + the iterators created by tr.NewIterator and not yet released *)
  tt_tables : list tfile;     (* tr.tables, oldest first *)
  tt_rec : SR.srec;           (* tr.rec *)
  tt_closed : bool;
  tt_cfailed : bool           (* tr.commitFailed *)
}.

(* the DB around it: memdbs and version (bstate), db.seq, the session's committed scalars, the records the
   current manifest FILE holds (whole records, in order), manifestFailed, db.tr, and the ghost list of the
   table files a discard removed *)
Record tworld := mkTW {
  tw_db : bstate;
  tw_seq : N;                 (* db.seq *)
  tw_man : list bytes;
  tw_mfail : bool;            (* s.manifestFailed *)
  tw_journal : Z;             (* s.stJournalNum *)
  tw_stseq : N;               (* s.stSeqNum *)
  tw_cmp : bytes;             (* s.icmp.uName() *)
  tw_cptrs : list SR.cprec;   (* the non-nil s.stCompPtrs, by level *)
  tw_tr : option ttxn;
  tw_gone : list N
}.

Inductive terr := EDone | ETable | EManifest | EBusy.
Inductive tres := TOk | TErr (e : terr) | TPanic | TFuel.

(* what tOps.createFrom gave back: the table file and (when the memdb is replaced from the pool) the capacity of
   the replacement; or an error (the partial file is dropped) *)
Inductive flush_out := FlOk (f : tfile) (poolcap : N) | FlErr.

(* per Put: the height drawn, the outcome of the flush should one happen, the capacity after a growing append *)
Record put_in := mkPI { pi_h : N; pi_flush : flush_out; pi_gcap : N }.

(* per session.commit attempt: outcome (failed: did the whole record reach the manifest file), "the manifest is
   too big", and session.nextFileNum() when fillRecord runs *)
Record att_in := mkAI { ai_ok : bool; ai_reached : bool; ai_rot : bool; ai_nf : Z }.

Section TxnBytes.
  Variable c : comparer.               (* the user comparer *)
  Variable p : kparams.
  Variable mp : MemDB.mparams.
  Variable tp : tparams.
  Variable crc : bytes -> N.
  Variable decompress : bytes -> option bytes.
  Variable fname : option bytes.
  Variable ufc : bytes -> N -> bytes -> bool.
  Variable verify : bool.
  Variable strict : bool.
  Variable rp : SR.rparams.
  Variable setseq_on_failure : bool.   (* false: the code as repaired (the sequence numbers of a failed commit are
                                          consumed by discard); true: the code before that repair (db.setSeq(tr.seq)
                                          right after a failed attempt) — kept for the refutation witness only *)

  Local Notation icc := (ibc c).

  (* ---------------- small setters ---------------- *)
  Definition tt_with_mem (t : ttxn) (d : MemDB.db) (cap : N) : ttxn :=
    mkTT (tt_seq t) d cap (tt_refs t) (tt_tables t) (tt_rec t) (tt_closed t) (tt_cfailed t).
  Definition tt_with_refs (t : ttxn) (n : N) : ttxn :=
    mkTT (tt_seq t) (tt_mem t) (tt_cap t) n (tt_tables t) (tt_rec t) (tt_closed t) (tt_cfailed t).
  Definition tt_with_rec (t : ttxn) (r : SR.srec) : ttxn :=
    mkTT (tt_seq t) (tt_mem t) (tt_cap t) (tt_refs t) (tt_tables t) r (tt_closed t) (tt_cfailed t).
  Definition tt_failed (t : ttxn) : ttxn :=
    mkTT (tt_seq t) (tt_mem t) (tt_cap t) (tt_refs t) (tt_tables t) (tt_rec t) (tt_closed t) true.

  Definition tw_with_tr (w : tworld) (t : option ttxn) : tworld :=
    mkTW (tw_db w) (tw_seq w) (tw_man w) (tw_mfail w) (tw_journal w) (tw_stseq w) (tw_cmp w) (tw_cptrs w) t (tw_gone w).
  Definition tw_with_db (w : tworld) (st : bstate) : tworld :=
    mkTW st (tw_seq w) (tw_man w) (tw_mfail w) (tw_journal w) (tw_stseq w) (tw_cmp w) (tw_cptrs w) (tw_tr w) (tw_gone w).
  Definition tw_with_seq (w : tworld) (s : N) : tworld :=
    mkTW (tw_db w) s (tw_man w) (tw_mfail w) (tw_journal w) (tw_stseq w) (tw_cmp w) (tw_cptrs w) (tw_tr w) (tw_gone w).
  Definition tw_with_man (w : tworld) (man : list bytes) (mfail : bool) : tworld :=
    mkTW (tw_db w) (tw_seq w) man mfail (tw_journal w) (tw_stseq w) (tw_cmp w) (tw_cptrs w) (tw_tr w) (tw_gone w).
  Definition tw_with_gone (w : tworld) (g : list N) : tworld :=
    mkTW (tw_db w) (tw_seq w) (tw_man w) (tw_mfail w) (tw_journal w) (tw_stseq w) (tw_cmp w) (tw_cptrs w) (tw_tr w) g.

  (* ---------------- the record entries of a table file ---------------- *)
  (* addTableFile(level, t): {level, t.fd.Num, t.size, t.imin, t.imax}; t.size is the length of the file *)
  Definition at_of (level : Z) (f : tfile) : SR.atrec :=
    SR.mkat level (Z.of_N (tf_num f)) (Z.of_N (lenN (tf_data f))) (tf_imin f) (tf_imax f).

  (* ---------------- Transaction.flush ---------------- *)
  Definition t_flush (t : ttxn) (fo : flush_out) : ttxn * tres :=
    if (MemDB.mdb_len (tt_mem t) =? 0)%Z then (t, TOk) else
    match fo with
    | FlErr => (t, TErr ETable)                                     (* return err: nothing is changed *)
    | FlOk f poolcap =>
        let done := fun d cap refs =>
          mkTT (tt_seq t) d cap refs (tt_tables t ++ [f]) (SR.add_table rp (tt_rec t) (at_of 0 f))
               (tt_closed t) (tt_cfailed t) in
        if tt_refs t =? 1 then
          match MemDB.mdb_reset mp (tt_mem t) with                   (* tr.mem.Reset() *)
          | MemDB.Ok d => (done d (tt_cap t) (tt_refs t), TOk)
          | MemDB.Panic => (t, TPanic)
          | MemDB.OutOfFuel => (t, TFuel)
          end
        else
          match MemDB.mdb_new mp with                                (* tr.mem.decref(); tr.mem = mpoolGet(0); incref *)
          | MemDB.Ok d => (done d poolcap 1, TOk)
          | MemDB.Panic => (t, TPanic)
          | MemDB.OutOfFuel => (t, TFuel)
          end
    end.

  (* ---------------- Transaction.put ---------------- *)
  Definition t_put (t : ttxn) (kt : N) (key value : bytes) (o : put_in) : ttxn * tres :=
    let seq1 := Batch.u64 (tt_seq t + 1) in
    match make_ikey p key seq1 kt with                               (* tr.ikScratch = makeInternalKey(...) *)
    | MkPanic => (t, TPanic)
    | MkOk q =>
        let need := lenN (encode_ikey q) + lenN value in
        let '(t1, r) :=
          if (tt_cap t - MemDB.mdb_used (tt_mem t)) <? need           (* tr.mem.Free() < len(ikScratch)+len(value) *)
          then t_flush t (pi_flush o) else (t, TOk) in
        match r with
        | TOk =>
            match Batch.put_one p icc mp (tt_mem t1) [pi_h o] key seq1 kt value with
            | Batch.PmOk d _ =>
                let cap := if tt_cap t1 <? MemDB.mdb_used d then pi_gcap o else tt_cap t1 in
                (mkTT seq1 d cap (tt_refs t1) (tt_tables t1) (tt_rec t1) (tt_closed t1) (tt_cfailed t1), TOk)
            | Batch.PmPanic => (t1, TPanic)
            | Batch.PmFuel => (t1, TFuel)
            end
        | _ => (t1, r)                                               (* the flush failed: the record is not applied *)
        end
    end.

  (* Batch.replayInternal(fn = tr.put): record by record; the first error ends the loop *)
  Fixpoint t_puts (t : ttxn) (recs : list Batch.brec) (os : list put_in) : ttxn * tres :=
    match recs with
    | [] => (t, TOk)
    | (kt, k, v) :: rest =>
        let o := hd (mkPI 1 FlErr 0) os in
        match t_put t kt k v o with
        | (t1, TOk) => t_puts t1 rest (tl os)
        | r => r
        end
    end.

  Definition keyTypeOf (del : bool) : N := if del then keyTypeDel p else keyTypeVal p.

  (* ---------------- operations on the world ---------------- *)
  Definition open_ready (st : bstate) : bool :=
    match bs_mem st, bs_frozen st with
    | Some m, None => (MemDB.mdb_len m =? 0)%Z
    | _, _ => false
    end.

  (* OpenTransaction, on a DB whose memdb is empty and not being flushed *)
  Definition w_open (w : tworld) (poolcap : N) : tworld * tres :=
    match tw_tr w with
    | Some _ => (w, TErr EBusy)                                      (* waits for the write lock *)
    | None =>
        if open_ready (tw_db w) then
          match MemDB.mdb_new mp with
          | MemDB.Ok d => (tw_with_tr w (Some (mkTT (tw_seq w) d poolcap 1 [] SR.sr_empty false false)), TOk)
          | MemDB.Panic => (w, TPanic)
          | MemDB.OutOfFuel => (w, TFuel)
          end
        else (w, TErr EBusy)
    end.

  Definition on_open (w : tworld) (f : ttxn -> ttxn * tres) : tworld * tres :=
    match tw_tr w with
    | Some t => if tt_closed t then (w, TErr EDone) else let '(t', r) := f t in (tw_with_tr w (Some t'), r)
    | None => (w, TErr EDone)
    end.

  (* Put / Delete *)
  Definition w_put (w : tworld) (kt : N) (key value : bytes) (o : put_in) : tworld * tres :=
    on_open w (fun t => t_put t kt key value o).

  (* Write(batch): "if b == nil || b.Len() == 0 { return nil }" comes before the closed test *)
  Definition w_write (w : tworld) (b : Batch.batch) (os : list put_in) : tworld * tres :=
    if Batch.batch_len b =? 0 then (w, TOk) else
    on_open w (fun t => match Batch.batch_records b with
                        | Some recs => t_puts t recs os
                        | None => (t, TPanic)
                        end).

  (* NewIterator / Release of such an iterator: the memdb's reference count *)
  Definition w_iter_open (w : tworld) : tworld * tres := on_open w (fun t => (tt_with_refs t (tt_refs t + 1), TOk)).
  Definition w_iter_release (w : tworld) : tworld :=
    match tw_tr w with
    | Some t => tw_with_tr w (Some (tt_with_refs t (tt_refs t - 1)))
    | None => w
    end.

  (* ---------------- reads ---------------- *)
  (* version.get(aux, ...): the aux tables are walked like level 0 ("level -1"), then lf(-1) decides *)
  Definition version_get_aux (auxt : list tfile) (lvls : list (list tfile)) (ikey ukey : bytes) : bres :=
    match auxt with
    | [] => version_get_bytes c p tp crc decompress fname ufc verify lvls ikey ukey
    | _ =>
        match walk_l0 c p tp crc decompress fname ufc verify auxt ikey ukey None with
        | FStop r => r
        | FCont z =>
            match lf_check p z with
            | Some r => r
            | None => walk_levels c p tp crc decompress fname ufc verify 0 lvls ikey ukey z
            end
        end
    end.

  (* DB.get(auxm, auxt, key, seq, ro) *)
  Definition db_get_aux (auxm : option MemDB.db) (auxt : list tfile) (st : bstate) (key : bytes) (seq : N) : bres :=
    match make_ikey p key seq (keyTypeSeek p) with
    | MkPanic => BPanic
    | MkOk q =>
        let ikey := encode_ikey q in
        match ukey_b ikey with
        | None => BPanic
        | Some ukey =>
            match mem_get_opt c p mp auxm ikey ukey with
            | Some r => r
            | None =>
                match mem_get_opt c p mp (bs_mem st) ikey ukey with
                | Some r => r
                | None =>
                    match mem_get_opt c p mp (bs_frozen st) ikey ukey with
                    | Some r => r
                    | None => version_get_aux auxt (bs_levels st) ikey ukey
                    end
                end
            end
        end
    end.

  (* Transaction.Get: None = errTransactionDone *)
  Definition t_get (w : tworld) (key : bytes) : option bres :=
    match tw_tr w with
    | Some t => if tt_closed t then None else Some (db_get_aux (Some (tt_mem t)) (tt_tables t) (tw_db w) key (tt_seq t))
    | None => None
    end.

  (* a call sequence on Transaction.NewIterator(slice, ro) *)
  Definition t_iter (fuel : nat) (w : tworld) (slice : option krange) (ms : list (Cursor.move bytes))
    : option (option (list (Cursor.output bytes bytes))) :=
    match tw_tr w with
    | Some t =>
        if tt_closed t then None
        else Some (dbi_run c p mp tp crc decompress fname ufc verify strict fuel (Some (tt_mem t)) (tt_tables t)
                           (tw_db w) (tt_seq t) slice ms)
    | None => None
    end.

  (* what everyone else runs: DB.Get / Snapshot.Get at a sequence number — the transaction is not an argument *)
  Definition o_get (w : tworld) (key : bytes) (seq : N) : bres :=
    db_get_bytes c p mp tp crc decompress fname ufc verify (tw_db w) key seq.

  (* ---------------- the version a commit installs ---------------- *)
  (* tFiles.sortByNum: newest (largest number) first *)
  Fixpoint ins_num (f : tfile) (l : list tfile) : list tfile :=
    match l with
    | [] => [f]
    | x :: r => if tf_num x <? tf_num f then f :: l else x :: ins_num f r
    end.
  Definition sort_by_num (l : list tfile) : list tfile := fold_right ins_num [] l.

  (* v.spawn(&tr.rec): only level 0 gets tables; versionStaging.finish sorts level 0 by number *)
  Definition install_tables (lvls : list (list tfile)) (ts : list tfile) : list (list tfile) :=
    match ts with
    | [] => lvls
    | _ => match lvls with
           | [] => [sort_by_num ts]
           | l0 :: rest => sort_by_num (l0 ++ ts) :: rest
           end
    end.

  Definition db_with_levels (st : bstate) (lvls : list (list tfile)) : bstate :=
    mkBS (bs_mem st) (bs_frozen st) lvls.

  (* ---------------- the records a commit writes ---------------- *)
  (* flushManifest: fillRecord(rec, false) = setNextFileNum; the record is tr.rec itself *)
  Definition edit_rec (r : SR.srec) (nf : Z) : SR.srec := SR.set_nextfile rp r nf.

  Fixpoint level_adds (level : Z) (lvls : list (list tfile)) : list SR.atrec :=
    match lvls with
    | [] => []
    | ts :: rest => map (at_of level) ts ++ level_adds (level + 1)%Z rest
    end.

  (* newManifest(nr, nv) where nr carries the sequence number of the committing record (if it has one):
     s.fillRecord(nr, true) — next-file-num, journal-num, seq-num unless set, the compaction pointers, the
     comparer — then nv.fillRecord(nr): every table of the NEW version, level by level *)
  Definition snapshot_rec (w : tworld) (seq : option N) (nf : Z) (lvls : list (list tfile)) : SR.srec :=
    let r0 := match seq with Some q => SR.set_seq rp SR.sr_empty q | None => SR.sr_empty end in
    let r1 := SR.set_nextfile rp r0 nf in
    let r2 := SR.set_journal rp r1 (tw_journal w) in
    let r3 := match seq with Some _ => r2 | None => SR.set_seq rp r2 (tw_stseq w) end in
    let r4 := fold_left (SR.add_comp_ptr rp) (tw_cptrs w) r3 in
    let r5 := SR.set_comparer rp r4 (tw_cmp w) in
    fold_left (SR.add_table rp) (level_adds 0 lvls) r5.

  (* one session.commit(r, false) whose new version has the levels [lvls]; [seq]: r.has(recSeqNum).
     Result: the world (manifest, manifestFailed, and on success the version and stSeqNum), the record r as
     fillRecord left it, and whether the attempt succeeded; None = encode panics (a negative number) *)
  Definition session_commit (w : tworld) (r : SR.srec) (seq : option N) (lvls : list (list tfile)) (a : att_in)
    : option (tworld * SR.srec * bool) :=
    let committed := fun (w' : tworld) =>
      mkTW (db_with_levels (tw_db w') lvls) (tw_seq w') (tw_man w') (tw_mfail w') (tw_journal w')
           (match seq with Some q => q | None => tw_stseq w' end) (tw_cmp w') (tw_cptrs w') (tw_tr w') (tw_gone w') in
    if tw_mfail w || ai_rot a then
      (* newManifest: a fresh file holding ONE record, installed by the switch of CURRENT; a failure leaves
         the old manifest (and manifestFailed) as they were *)
      match SR.encode rp (snapshot_rec w seq (ai_nf a) lvls) with
      | None => None
      | Some b => if ai_ok a then Some (committed (tw_with_man w [b] false), r, true) else Some (w, r, false)
      end
    else
      (* flushManifest: the record is appended to the current manifest *)
      let r' := edit_rec r (ai_nf a) in
      match SR.encode rp r' with
      | None => None
      | Some b =>
          if ai_ok a then Some (committed (tw_with_man w (tw_man w ++ [b]) false), r', true)
          else Some (tw_with_man w (if ai_reached a then tw_man w ++ [b] else tw_man w) true, r', false)
      end.

  Definition no_att : att_in := mkAI false false false 0%Z.

  (* the retry loop of Commit: "for retry := 0; retry < 3; retry++" *)
  Fixpoint commit_loop (n : nat) (w : tworld) (t : ttxn) (atts : list att_in) : option (tworld * ttxn * bool) :=
    match n with
    | O => Some (w, t, false)
    | S n' =>
        let a := hd no_att atts in
        match session_commit w (tt_rec t) (Some (tt_seq t)) (install_tables (bs_levels (tw_db w)) (tt_tables t)) a with
        | None => None
        | Some (w', r', true) => Some (w', tt_with_rec t r', true)
        | Some (w', r', false) =>
            let w'' := if setseq_on_failure then tw_with_seq w' (tt_seq t) else w' in
            commit_loop n' w'' (tt_failed (tt_with_rec t r')) (tl atts)
        end
    end.

  (* Transaction.Commit *)
  Definition w_commit (w : tworld) (fo : flush_out) (atts : list att_in) : tworld * tres :=
    match tw_tr w with
    | None => (w, TErr EDone)
    | Some t0 =>
        if tt_closed t0 then (w, TErr EDone) else
        match t_flush t0 fo with
        | (t, TOk) =>
            match tt_tables t with
            | [] => (tw_with_tr w None, TOk)                          (* nothing to commit: setDone *)
            | _ =>
                let t1 := tt_with_rec t (SR.set_seq rp (tt_rec t) (tt_seq t)) in      (* tr.rec.setSeqNum(tr.seq) *)
                match commit_loop 3 w t1 atts with
                | None => (w, TPanic)
                | Some (w', t', true) => (tw_with_tr (tw_with_seq w' (tt_seq t')) None, TOk)   (* setSeq; setDone *)
                | Some (w', t', false) => (tw_with_tr w' (Some t'), TErr EManifest)
                end
            end
        | (t, r) => (tw_with_tr w (Some t), r)                       (* "lets user decide either to retry or discard" *)
        end
    end.

  (* Transaction.Discard (also what Close does with an open transaction) *)
  Definition w_discard (w : tworld) (fresh : att_in) : tworld :=
    match tw_tr w with
    | None => w
    | Some t =>
        if tt_closed t then w else
        let remove := fun (w' : tworld) =>
          tw_with_tr (tw_with_gone w' (tw_gone w' ++ map tf_num (tt_tables t))) None in
        if tt_cfailed t then
          (* the sequence numbers of the failed commit are consumed *)
          let w1 := if setseq_on_failure then w else tw_with_seq w (tt_seq t) in
          if tw_mfail w1 then
            (* keep := s.commit(&sessionRecord{}, false) != nil  — a fresh manifest of the CURRENT version *)
            match session_commit w1 SR.sr_empty None (bs_levels (tw_db w1)) fresh with
            | Some (w2, _, true) => remove w2
            | Some (w2, _, false) => tw_with_tr w2 None               (* the tables stay *)
            | None => tw_with_tr w1 None
            end
          else remove w1
        else remove w
    end.

  (* a background reorganisation committed while the transaction is open (flush of nothing / table compaction):
     another version; the transaction's own state is untouched *)
  Definition w_env (w : tworld) (st' : bstate) : tworld := tw_with_db w st'.

  (* ---------------- the machine ---------------- *)
  Inductive bop :=
  | BOpen (poolcap : N)
  | BPut (kt : N) (key value : bytes) (o : put_in)
  | BWrite (b : Batch.batch) (os : list put_in)
  | BIterOpen
  | BIterRelease
  | BCommit (fo : flush_out) (atts : list att_in)
  | BDiscard (fresh : att_in)
  | BEnv (st' : bstate).

  Definition bstep (w : tworld) (o : bop) : tworld * tres :=
    match o with
    | BOpen cap => w_open w cap
    | BPut kt k v i => w_put w kt k v i
    | BWrite b os => w_write w b os
    | BIterOpen => w_iter_open w
    | BIterRelease => (w_iter_release w, TOk)
    | BCommit fo atts => w_commit w fo atts
    | BDiscard fresh => (w_discard w fresh, TOk)
    | BEnv st' => (w_env w st', TOk)
    end.

  Definition brun_from (w : tworld) (ops : list bop) : tworld := fold_left (fun w o => fst (bstep w o)) ops w.

  (* the records a sequence of successful puts applies, and what a call that returned an error applied: the
     longest prefix whose puts all succeed *)
  Fixpoint applied (t : ttxn) (recs : list Batch.brec) (os : list put_in) : list Batch.brec :=
    match recs with
    | [] => []
    | (kt, k, v) :: rest =>
        match t_put t kt k v (hd (mkPI 1 FlErr 0) os) with
        | (t1, TOk) => (kt, k, v) :: applied t1 rest (tl os)
        | _ => []
        end
    end.
End TxnBytes.

(* ------------------------------------------------------------------ the abstraction to the history level *)
(* The history-level machine of Lsm/Txn.v, extended by the one step it lacks: the sequence numbers of a transaction
   whose Commit failed are consumed when it is discarded — db.seq jumps to tr.seq although nothing was written
   (no stored entry carries the skipped numbers; Lsm/TxnBytesProofs.v: every read is unchanged by the jump). *)
Inductive xop := XT (o : top) | XSkip (d : N).

Definition x_skip (s : tstate) (d : N) : tstate :=
  {| ts_h := {| h_seq := d; h_store := h_store (ts_h s); h_snaps := h_snaps (ts_h s); h_hist := h_hist (ts_h s) |};
     ts_txn := ts_txn s |}.

Definition xstep (s : tstate) (x : xop) : tstate :=
  match x with XT o => tstep s o | XSkip d => x_skip s d end.
Definition xrun (s : tstate) (xs : list xop) : tstate := fold_left xstep xs s.

Section Abstraction.
  Variable c : comparer.
  Variable p : kparams.
  Variable mp : MemDB.mparams.
  Variable tp : tparams.
  Variable crc : bytes -> N.
  Variable decompress : bytes -> option bytes.
  Variable fname : option bytes.
  Variable ufc : bytes -> N -> bytes -> bool.
  Variable verify : bool.
  Variable ri : N.
  Variable rp : SR.rparams.

  (* what one step of the byte machine is at the history level: the records a Put / Delete / Write APPLIED (a failed
     Write: the prefix before the record whose flush failed), one commit step for a Commit that succeeded,
     nothing for one that failed, Discard (followed by the skip when a Commit had failed), the reorganisation
     a background compaction committed *)
  Definition abs_ops (w : tworld) (o : bop) : list xop :=
    match o with
    | BOpen cap => match w_open mp w cap with (_, TOk) => [XT TOpen] | _ => [] end
    | BPut kt k v i => match w_put c p mp rp w kt k v i with (_, TOk) => [XT (TWrite [(kt, k, v)])] | _ => [] end
    | BWrite b os =>
        if Batch.batch_len b =? 0 then [] else
        match tw_tr w with
        | Some t =>
            if tt_closed t then [] else
            match Batch.batch_records b with
            | Some recs => [XT (TWrite (applied c p mp rp t recs os))]
            | None => []
            end
        | None => []
        end
    | BIterOpen | BIterRelease => []
    | BCommit fo atts => match w_commit mp rp false w fo atts with (_, TOk) => [XT (TCommit true)] | _ => [] end
    | BDiscard _ =>
        match tw_tr w with
        | Some t => if tt_closed t then [] else if tt_cfailed t then [XT TDiscard; XSkip (tt_seq t)] else [XT TDiscard]
        | None => []
        end
    | BEnv st' => [XT (TOut (HReorg (all_entries (abs c mp tp crc decompress fname ufc verify ri st'))))]
    end.
End Abstraction.
