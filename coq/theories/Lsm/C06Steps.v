(* Lsm/C06Steps.v — the step theorems of property C06 in closed form: for every comparer, every well-formed version,
   every level and every seed, what the model of goleveldb's picker / flush placement / installer does keeps the
   invariant WfLsm.wf_lsm. *)
From GL Require Import Base.Order Base.OrderProofs Codec.IKey Codec.IKeyProofs Lsm.Lsm Lsm.Compact Lsm.LsmProofs
  Lsm.CompactProofs Lsm.History Lsm.HistoryProofs Lsm.ReorgProofs Lsm.WfProofs Lsm.CertProofs Lsm.OutputProofs
  Lsm.Pick Lsm.PickBase Lsm.OverlapProofs Lsm.ExpandProofs Lsm.WfLsm Lsm.FinishProofs Lsm.InsertProofs Lsm.StepProofs
  Lsm.ModelStep Lsm.FlushProofs.
From Coq Require Import Arith Lia.

Local Open Scope nat_scope.

Section Closed.
  Variable c : comparer.
  Hypothesis ok : comparer_ok c.
  Variable p : kparams.
  Hypothesis pok : kparams_ok p.
  Variable sz : table -> N.

  Notation wf_lsm := (wf_lsm c p).
  Notation umin_of := Pick.umin_of.
  Notation umax_of := Pick.umax_of.

  (* a seed: non-empty, distinct tables of the source level *)
  Definition seed_ok (v : list (list table)) (lvl : nat) (seed : list table) : Prop :=
    seed <> [] /\ incl seed (lv v lvl) /\ NoDup seed.

  (* new numbers: pairwise different and used by no live table *)
  Definition fresh_nums (v : list (list table)) (nums : list N) : Prop :=
    NoDup nums /\ forall n i s, In n nums -> In s (lv v i) -> t_num s <> n.

  (* the output tables of a compaction: chunks of the kept merged entries, cut only between different user keys *)
  Definition outputs_of (cm : compaction) (minSeq : N) (deeper : list (list table)) (chunks : list (list entry)) : Prop :=
    cuts_ok c chunks = true /\ concat chunks = compact_entries c p minSeq deeper (c_t0 cm ++ c_t1 cm).

  Theorem inputs_closed v lvl limit seed : wf_lsm v -> seed_ok v lvl seed ->
    exists cm, new_compaction c sz v lvl limit seed = POk cm /\
      c_level cm = lvl /\ incl seed (c_t0 cm) /\ incl (c_t0 cm) (lv v lvl) /\ incl (c_t1 cm) (lv v (S lvl)) /\
      (forall s ta tb, In s (lv v (S lvl)) -> In ta (c_t0 cm) -> In tb (c_t0 cm) ->
         t_overlaps c s (Some (umin_of ta)) (Some (umax_of tb)) = true -> In s (c_t1 cm)) /\
      (lvl = 0 -> forall s ta tb, In s (lv v 0) -> In ta (c_t0 cm) -> In tb (c_t0 cm) ->
         t_overlaps c s (Some (umin_of ta)) (Some (umax_of tb)) = true -> In s (c_t0 cm)).
  Proof.
    intros W [S1 [S2 S3]]. destruct (model_pick c ok p sz v W lvl limit seed S1 S2 S3) as [cm [E Pk]].
    exists cm. split; [exact E|]. split; [apply (pk_level c v lvl seed cm Pk)|].
    split; [apply (pk_seed c v lvl seed cm Pk)|]. split; [apply (pk_t0 c v lvl seed cm Pk)|].
    split; [apply (pk_t1 c v lvl seed cm Pk)|]. split.
    - apply (inputs_closed_next c ok v lvl seed cm Pk).
    - intros E0 s ta tb. apply (inputs_closed_l0 c v lvl seed S2 cm Pk s ta tb E0).
  Qed.

  Theorem compaction_step v lvl limit seed : wf_lsm v -> seed_ok v lvl seed ->
    exists cm, new_compaction c sz v lvl limit seed = POk cm /\
      forall minSeq deeper chunks nums, outputs_of cm minSeq deeper chunks ->
        length nums = length chunks -> fresh_nums v nums ->
        exists nv, finish c true v (compaction_edit cm (mk_outputs nums chunks)) = POk nv /\ wf_lsm nv.
  Proof.
    intros W [S1 [S2 S3]]. destruct (model_pick c ok p sz v W lvl limit seed S1 S2 S3) as [cm [E Pk]].
    exists cm. split; [exact E|]. intros minSeq deeper chunks nums [C1 C2] Hl [F1 F2].
    apply (model_compaction_step c ok p pok sz v W lvl seed S2 cm Pk minSeq deeper chunks nums C1 C2 Hl F1 F2).
  Qed.

  (* v2 = the version at commit time: v plus level-0 tables that are newer than everything in v *)
  Definition later_version (v v2 : list (list table)) : Prop :=
    wf_lsm v2 /\ (forall l, 0 < l -> lv v2 l = lv v l) /\ (forall s, In s (lv v 0) -> In s (lv v2 0)) /\
    (forall s, In s (lv v2 0) -> In s (lv v 0) \/
       forall x i y, In x (t_entries s) -> In y (LE (lv v i)) -> e_uk x = e_uk y -> (e_seq y < e_seq x)%N).

  Theorem compaction_step_interleaved v lvl limit seed : wf_lsm v -> seed_ok v lvl seed ->
    exists cm, new_compaction c sz v lvl limit seed = POk cm /\
      forall v2 minSeq deeper chunks nums, later_version v v2 -> outputs_of cm minSeq deeper chunks ->
        length nums = length chunks -> fresh_nums v2 nums ->
        exists nv, finish c true v2 (compaction_edit cm (mk_outputs nums chunks)) = POk nv /\ wf_lsm nv.
  Proof.
    intros W [S1 [S2 S3]]. destruct (model_pick c ok p sz v W lvl limit seed S1 S2 S3) as [cm [E Pk]].
    exists cm. split; [exact E|]. intros v2 minSeq deeper chunks nums [L1 [L2 [L3 L4]]] [C1 C2] Hl [F1 F2].
    apply (model_compaction_step_interleaved c ok p pok sz v W lvl seed S2 cm Pk minSeq deeper chunks nums C1 C2 Hl F1
             v2 L1 L2 L3 L4 F2).
  Qed.

  Theorem trivial_move_step v lvl limit seed : wf_lsm v -> seed_ok v lvl seed ->
    exists cm, new_compaction c sz v lvl limit seed = POk cm /\
      forall max_gp, trivial sz cm max_gp = true ->
        exists nv, finish c true v (move_edit cm) = POk nv /\ wf_lsm nv.
  Proof.
    intros W [S1 [S2 S3]]. destruct (model_pick c ok p sz v W lvl limit seed S1 S2 S3) as [cm [E Pk]].
    exists cm. split; [exact E|]. intros max_gp T. destruct (trivial_shape sz cm max_gp T) as [t [E0 E1]].
    apply (model_move_step c ok p sz v W lvl seed S2 cm Pk t E0 E1).
  Qed.

  (* stored sequence numbers fit the 56 bits of an internal key (makeInternalKey panics otherwise) *)
  Definition seqs_fit (v : list (list table)) : Prop :=
    forall i t, In t (lv v i) -> (e_seq (t_hi t) <= keyMaxSeq p)%N.

  (* the table a flush writes: well-formed, no two entries with the same (key, seq), newer than every stored entry of
     the same user key, under an unused file number *)
  Definition flushed_ok (v : list (list table)) (t : table) : Prop :=
    tbl_ok c p t /\ uniq (t_entries t) /\
    (forall i x y, In x (t_entries t) -> In y (LE (lv v i)) -> e_uk x = e_uk y -> (e_seq y < e_seq x)%N) /\
    (forall i s, In s (lv v i) -> t_num s <> t_num t).

  Theorem flush_step v gp_limit maxLevel t : wf_lsm v -> seqs_fit v -> flushed_ok v t ->
    exists nv, finish c true v (flush_edit c p sz v gp_limit maxLevel t) = POk nv /\ wf_lsm nv.
  Proof.
    intros W Sq [T1 [T2 [T3 T4]]]. unfold flush_edit.
    apply (install_step c ok p sz v W Sq (umin_of t) (umax_of t) gp_limit t _ T1 T2 T3 T4 (conj eq_refl eq_refl)).
    apply (pick_memdb_level_spec c ok p pok sz v W Sq).
  Qed.

  (* the entry-level hypotheses of ReorgProofs.compaction_preserves are discharged for model-built compactions: reads at
     every sequence number >= minSeq are preserved.  M = entries of the write buffers. *)
  Theorem model_compaction_admissible v lvl limit seed : wf_lsm v -> seed_ok v lvl seed ->
    exists cm, new_compaction c sz v lvl limit seed = POk cm /\
      forall M minSeq, (minSeq < keyMaxSeq p)%N -> uniq_in M ->
        (forall m i x, In m M -> In x (LE (lv v i)) -> e_uk x = e_uk m -> (e_seq x < e_seq m)%N) ->
        let inputs := c_t0 cm ++ c_t1 cm in
        let others := M ++ LE (filter (fun t => negb (is_input (nums_of inputs) t)) (concat v)) in
        forall k s, (minSeq <= s)%N ->
          History.res p (newest c k s (compact_entries c p minSeq (skipn (lvl + 2) v) inputs ++ others) None) =
          History.res p (newest c k s (LE inputs ++ others) None).
  Proof.
    intros W [S1 [S2 S3]]. destruct (model_pick c ok p sz v W lvl limit seed S1 S2 S3) as [cm [E Pk]].
    exists cm. split; [exact E|]. intros M minSeq H1 H2 H3 inputs others k s Hs.
    apply (ModelStep.model_compaction_admissible c ok p pok sz v W lvl seed S2 cm Pk M minSeq H1 H2 H3 k s Hs).
  Qed.

  (* ---- range compactions (CompactRange -> tableRangeCompaction -> getCompactionRange): the seed is what getOverlaps
     returns for the range, cut by the source limit; it satisfies seed_ok, so the theorems above apply ---- *)
  Lemma limit_prefix_ok total limit tf : tf <> [] ->
    limit_prefix sz total limit tf <> [] /\ incl (limit_prefix sz total limit tf) tf /\
    (NoDup tf -> NoDup (limit_prefix sz total limit tf)).
  Proof.
    revert total; induction tf as [|t tf IH]; intros total H; [congruence|]. cbn [limit_prefix]. cbv zeta.
    destruct (limit <=? total + sz t)%N.
    - split; [discriminate|]. split; [intros x [<-|[]]; left; reflexivity|]. intros _. constructor; [intros []|constructor].
    - split; [discriminate|]. destruct tf as [|u tf'].
      + cbn [limit_prefix]. split; [apply incl_refl|auto].
      + destruct (IH (total + sz t)%N ltac:(discriminate)) as [_ [I2 I3]]. split.
        * intros x [<-|Hx]; [left; reflexivity|right; apply I2; exact Hx].
        * intros N. apply NoDup_cons_iff in N as [N1 N2]. constructor; [|apply I3; exact N2].
          intros Hin. apply N1. apply I2. exact Hin.
  Qed.

  Theorem range_compaction_seed v lvl umin umax noLimit src_limit exp_limit : wf_lsm v ->
    exists r, compaction_range c sz v lvl umin umax noLimit src_limit exp_limit = POk r /\
      forall cm, r = Some cm ->
        exists seed, seed_ok v lvl seed /\ new_compaction c sz v lvl exp_limit seed = POk cm.
  Proof.
    intros W. unfold compaction_range. destruct (Nat.leb (length v) lvl); [exists None; split; [reflexivity|discriminate]|].
    assert (Hb : Nat.eqb lvl 0 = false -> bsorted c (nth lvl v [])).
    { intros H. apply Nat.eqb_neq in H. apply (level_sorted_bsorted c p); [apply (wl_tbl c p v W)|apply (wl_deep c p v W); lia]. }
    destruct (gov_spec c ok p (nth lvl v []) umin umax (Nat.eqb lvl 0) (wl_tbl c p v W lvl) Hb)
      as [t0 [E [I1 [_ [_ [_ I5]]]]]].
    rewrite E. cbn [pbind]. specialize (I5 (lv_nodup c p v W lvl)).
    destruct t0 as [|u t0'] eqn:Et; [exists None; split; [reflexivity|discriminate]|]. rewrite <- Et in *.
    assert (Hne : t0 <> []) by (rewrite Et; discriminate).
    set (sd := if negb noLimit && Nat.ltb 0 lvl then limit_prefix sz 0 src_limit t0 else t0).
    assert (Sok : seed_ok v lvl sd).
    { unfold sd. destruct (negb noLimit && Nat.ltb 0 lvl)%bool.
      - destruct (limit_prefix_ok 0%N src_limit t0 Hne) as [L1 [L2 L3]].
        split; [exact L1|]. split; [intros x Hx; apply I1; apply L2; exact Hx|apply L3; exact I5].
      - split; [exact Hne|]. split; [exact I1|exact I5]. }
    destruct Sok as [S1 [S2 S3]].
    destruct (model_pick c ok p sz v W lvl exp_limit sd S1 S2 S3) as [cm [Ec _]].
    rewrite Ec. cbn [pbind]. exists (Some cm). split; [reflexivity|]. intros cm' H. injection H as <-.
    exists sd. split; [split; [exact S1|split; [exact S2|exact S3]]|exact Ec].
  Qed.
End Closed.
