(* Lsm/IterPath.v — the DB iterator at BYTE level: DB.NewIterator / Snapshot.NewIterator /
   Transaction.NewIterator as the code builds it, composed from the models of the layers below:

     leveldb/db_iter.go     DB.newIterator (range conversion), DB.newRawIterator (choice and ORDER of the
                            children), dbIter                      (this file; dbIter = Iter/DBIter.v)
     leveldb/version.go     version.getIterators: one table iterator per level-0 table, one indexed
                            iterator per non-empty deeper level                    (this file)
     leveldb/table.go       tFiles.newIndexIterator (slicing of the level by searchMax(Start) /
                            searchMin(Limit), the inverted-range clamp), tFilesArrayIndexer.Search/Get
                            (first/last slice rule), tOps.newIterator              (this file)
     leveldb/iterator       array_iter.go basicArrayIterator/arrayIteratorIndexer (this file: aidx),
                            indexed_iter.go (Iter/Indexed.v), merged_iter.go (Iter/Merged.v)
     leveldb/memdb          DB.NewIterator(slice): dbIter on the array-encoded skip list (Mem/MemDB.v, C14)
     leveldb/table          Reader.NewIterator(slice, ro) on the BYTES of a table file (Codec/Table.v, C13)

   State: Lsm/ReadPath.v bstate (memdb arrays, levels of table files) plus the transaction's private
   memdb and tables (auxm, auxt) as arguments, exactly the arguments of newRawIterator.
   Keys travel ENCODED below dbIter (children, merged iterator: the comparer is ReadPath.ibc) and PARSED
   inside dbIter (Iter/DBIter.v): [raw_step]/[raw_obs] is that boundary (makeInternalKey / parseInternalKey).

   Not modelled here: reference counting and releasers (memdbReleaser, versionReleaser, the table cache
   handle: Iter/Release.v models Release itself), iterator errors (Iter/IterErr.v), the ErrClosed branch of
   newRawIterator (em == nil on a closed DB), iterator sampling, the table cache (tOps.open = open_table on
   the file's bytes).  Go panics and exhausted fuel are explicit.  Model file: definitions only. *)
From GL Require Import Base.Bytes Base.Order Codec.IKey Codec.Block Codec.Table Lsm.Lsm Lsm.Pick Lsm.ReadPath.
From GL Require Base.Cursor Mem.MemDB.
From GL Require Import Iter.Cursor Iter.Merged Iter.Indexed Iter.DBIter.
From Coq Require Import ZArith.
Open Scope N_scope.

(* the five calls in the vocabulary of the block/table layer *)
Definition cop_of (m : move bytes) : Base.Cursor.cop :=
  match m with
  | MFirst => Base.Cursor.OpFirst
  | MLast => Base.Cursor.OpLast
  | MSeek k => Base.Cursor.OpSeek k
  | MNext => Base.Cursor.OpNext
  | MPrev => Base.Cursor.OpPrev
  end.

(* the pairs a child sliced by *util.Range{Start, Limit} (each bound optional; nil slice = None) ranges over *)
Definition sl_pairs (c : comparer) (sl : option krange) (l : list (bytes * bytes)) : list (bytes * bytes) :=
  match sl with
  | None => l
  | Some (a, b) => Base.Cursor.restrict c a b l
  end.

Section IterPath.
  Variable c : comparer.               (* the user comparer *)
  Variable p : kparams.
  Variable mp : MemDB.mparams.
  Variable tp : tparams.
  Variable crc : bytes -> N.
  Variable decompress : bytes -> option bytes.
  Variable fname : option bytes.
  Variable ufc : bytes -> N -> bytes -> bool.
  Variable verify : bool.
  Variable strict : bool.              (* opt.GetStrict(o, ro, opt.StrictReader) *)

  Local Notation ic := (ibc c).

  (* ---------------- memdb.DB.NewIterator(slice) ---------------- *)
  (* [mc_bad]: a call of the array model panicked (index outside an array) or ran out of fuel; such a call
     leaves the iterator where it was (proved impossible under C14's invariant: mem_child_total) *)
  Record mchild := mkMC { mc_db : MemDB.db; mc_it : MemDB.iter; mc_bad : bool }.

  Definition mc_new (d : MemDB.db) (sl : option krange) : mchild := mkMC d (MemDB.new_iter sl) false.

  Definition mc_step (x : mchild) (m : move bytes) : mchild :=
    let d := mc_db x in
    let r := match m with
             | MFirst => MemDB.it_first ic mp (MemDB.op_fuel d) d (mc_it x)
             | MLast => MemDB.it_last ic mp (MemDB.op_fuel d) d (mc_it x)
             | MSeek k => MemDB.it_seek ic mp (MemDB.op_fuel d) d (mc_it x) k
             | MNext => MemDB.it_next ic mp (MemDB.op_fuel d) d (mc_it x)
             | MPrev => MemDB.it_prev ic mp (MemDB.op_fuel d) d (mc_it x)
             end in
    match r with
    | MemDB.Ok (it', _) => mkMC d it' (mc_bad x)
    | _ => mkMC d (mc_it x) true
    end.

  (* Valid() = node != 0; Key()/Value() = i.key / i.value *)
  Definition mc_obs (x : mchild) : option (bytes * bytes) :=
    if MemDB.it_valid (mc_it x) then
      match MemDB.it_key (mc_it x), MemDB.it_val (mc_it x) with
      | Some k, Some v => Some (k, v)
      | _, _ => None
      end
    else None.

  (* ---------------- tOps.newIterator(f, slice, ro) = table.Reader.NewIterator(slice, ro) ---------------- *)
  (* [tc_ok] = what the last movement call returned; inl = iterator.NewEmptyIterator(err) *)
  Record tchild := mkTC { tc_rd : treader; tc_it : berr + titer; tc_ok : bool }.

  Definition tc_new (f : tfile) (sl : option krange) : tchild :=
    let rd := tf_reader c tp crc decompress fname ufc verify f in
    mkTC rd (new_titer ic rd sl strict) false.

  Definition tc_step (x : tchild) (m : move bytes) : tchild :=
    match tc_it x with
    | inl e => mkTC (tc_rd x) (inl e) false
    | inr t => let '(ok, t') := ti_step ic (tc_rd x) t (cop_of m) in mkTC (tc_rd x) (inr t') ok
    end.

  Definition tc_obs (x : tchild) : option (bytes * bytes) :=
    if tc_ok x then match tc_it x with inr t => ti_get t | inl _ => None end else None.

  (* ---------------- tFiles.newIndexIterator + iterator.NewArrayIndexer ---------------- *)
  (* tFiles.searchMin: sort.Search(len(tf), icmp.Compare(tf[i].imin, ikey) >= 0) *)
  Definition tf_search_min (ts : list tfile) (ikey : bytes) : nat :=
    sort_search (length ts)
      (fun i => match cmp ic (tf_imin (nth i ts no_tfile)) ikey with Lt => false | _ => true end).

  (* basicArrayIterator over tFilesArrayIndexer: the (already cut) table list, the slice handed to Get, pos *)
  Record aidx := mkAI { ai_files : list tfile; ai_slice : option krange; ai_pos : Z }.

  (* tf = tf[start:limit] with start = searchMax(Start), limit = searchMin(Limit), limit raised to start
     for an inverted range (the repaired code; the unrepaired one panicked on limit < start) *)
  Definition cut_files (tf : list tfile) (sl : option krange) : list tfile :=
    match sl with
    | None => tf
    | Some (st, li) =>
        let start := match st with Some k => tf_search_max c tf k | None => O end in
        let limit := match li with Some k => tf_search_min tf k | None => length tf end in
        let limit := if Nat.ltb limit start then start else limit in
        firstn (limit - start) (skipn start tf)
    end.

  Definition new_index_iterator (tf : list tfile) (sl : option krange) : aidx :=
    mkAI (cut_files tf sl) sl (-1)%Z.

  Definition ai_len (a : aidx) : Z := Z.of_nat (length (ai_files a)).
  Definition ai_set (a : aidx) (z : Z) : aidx := mkAI (ai_files a) (ai_slice a) z.

  Definition ai_step (a : aidx) (m : move bytes) : aidx :=
    let n := ai_len a in
    match m with
    | MFirst => if (n =? 0)%Z then ai_set a (-1)%Z else ai_set a 0%Z
    | MLast => if (n =? 0)%Z then ai_set a 0%Z else ai_set a (n - 1)%Z
    | MSeek k => if (n =? 0)%Z then ai_set a 0%Z
                 else ai_set a (Z.of_nat (tf_search_max c (ai_files a) k))     (* Search = searchMax *)
    | MNext => let z := (ai_pos a + 1)%Z in if (n <=? z)%Z then ai_set a n else ai_set a z
    | MPrev => let z := (ai_pos a - 1)%Z in if (z <? 0)%Z then ai_set a (-1)%Z else ai_set a z
    end.

  Definition ai_valid (a : aidx) : bool := ((0 <=? ai_pos a) && (ai_pos a <? ai_len a))%Z.

  (* what the index iterator is on: the table (the implicit index key is its imax: Search compares imax)
     and Get(i): the slice is handed on only for i == 0 and i == Len()-1 *)
  Definition ai_obs (a : aidx) : option (bytes * (tfile * option krange)) :=
    if ai_valid a then
      let i := Z.to_nat (ai_pos a) in
      let f := nth i (ai_files a) no_tfile in
      Some (tf_imax f,
            (f, if Nat.eqb i 0 || Nat.eqb i (length (ai_files a) - 1) then ai_slice a else None))
    else None.

  Definition lv_mk (d : tfile * option krange) : tchild := tc_new (fst d) (snd d).

  Definition lvstate := xstate aidx tchild.
  Definition lv_step (fuel : nat) (x : lvstate) (m : move bytes) : lvstate :=
    indexed_step bytes bytes (tfile * option krange) aidx tchild ai_step ai_obs lv_mk tc_step tc_obs fuel x m.
  Definition lv_obs (x : lvstate) : option (bytes * bytes) := x_kv bytes bytes aidx tchild tc_obs x.

  (* ---------------- the children of the merged iterator ---------------- *)
  Inductive bchild :=
  | BMem (x : mchild)
  | BTab (x : tchild)
  | BLevel (fuel : nat) (x : lvstate).

  Definition bc_step (b : bchild) (m : move bytes) : bchild :=
    match b with
    | BMem x => BMem (mc_step x m)
    | BTab x => BTab (tc_step x m)
    | BLevel fuel x => BLevel fuel (lv_step fuel x m)
    end.

  Definition bc_obs (b : bchild) : option (bytes * bytes) :=
    match b with
    | BMem x => mc_obs x
    | BTab x => tc_obs x
    | BLevel _ x => lv_obs x
    end.

  (* version.getIterators(slice, ro) *)
  Definition level_child (ts : list tfile) (sl : option krange) : list bchild :=
    match ts with
    | [] => []
    | _ => [BLevel (S (S (length ts))) (x_init (new_index_iterator ts sl))]
    end.

  Definition table_iterators (lvls : list (list tfile)) (sl : option krange) : list bchild :=
    match lvls with
    | [] => []
    | l0 :: rest => map (fun t => BTab (tc_new t sl)) l0 ++ flat_map (fun ts => level_child ts sl) rest
    end.

  (* DB.newRawIterator(auxm, auxt, slice, ro): None = panic("nil effective mem") of getMems on an open DB *)
  Definition raw_children (auxm : option MemDB.db) (auxt : list tfile) (st : bstate) (sl : option krange)
    : option (list bchild) :=
    match bs_mem st with
    | None => None
    | Some em =>
        Some ((match auxm with Some a => [BMem (mc_new a sl)] | None => [] end) ++
              map (fun t => BTab (tc_new t sl)) auxt ++
              [BMem (mc_new em sl)] ++
              (match bs_frozen st with Some fm => [BMem (mc_new fm sl)] | None => [] end) ++
              table_iterators (bs_levels st) sl)
    end.

  (* iterator.NewMergedIterator(its, icmp, strict) *)
  Definition raw_state := mstate bytes bchild.
  Definition raw_pop := pop_scan bytes (cmp ic).
  Definition rawb_step (s : raw_state) (m : move bytes) : raw_state :=
    merged_step bytes bytes bchild bc_step bc_obs raw_pop s m.
  Definition rawb_obs (s : raw_state) : option (bytes * bytes) := m_kv bytes bytes bchild bc_obs s.

  (* ---------------- the boundary to dbIter: makeInternalKey / parseInternalKey ---------------- *)
  Definition enc_move (m : move ikey) : move bytes :=
    match m with
    | MFirst => MFirst | MLast => MLast | MNext => MNext | MPrev => MPrev
    | MSeek k => MSeek (encode_ikey k)
    end.

  (* a key parseInternalKey rejects ("invalid length"): represented by a parsed key whose kind (255) is not
     a key type ((approx): both are kerr != nil; no stored key of a well-formed state is of that sort) *)
  Definition bad_ikey : ikey := {| uk := []; num := 255 |}.
  Definition dec_entry (kv : bytes * bytes) : DBIter.entry :=
    (match ik_dec (fst kv) with Some k => k | None => bad_ikey end, snd kv).

  Definition raw_step (s : raw_state) (m : move ikey) : raw_state := rawb_step s (enc_move m).
  Definition raw_obs (s : raw_state) : option DBIter.entry := option_map dec_entry (rawb_obs s).

  (* DB.newIterator: islice = {makeInternalKey(nil, Start, keyMaxSeq, keyTypeSeek), ... Limit ...};
     None = makeInternalKey panics *)
  Definition islice_of (slice : option krange) : option (option krange) :=
    match slice with
    | None => Some None
    | Some (a, b) =>
        match opt_probe p a, opt_probe p b with
        | Some ia, Some ib => Some (Some (option_map encode_ikey ia, option_map encode_ikey ib))
        | _, _ => None
        end
    end.

  Definition new_iterator (auxm : option MemDB.db) (auxt : list tfile) (st : bstate) (slice : option krange)
    : option (dbstate raw_state) :=
    match islice_of slice with
    | None => None
    | Some isl =>
        match raw_children auxm auxt st isl with
        | None => None
        | Some its => Some (db_init (m_init its))
        end
    end.

  (* outputs of a call sequence on DB.NewIterator(slice, ro) at sequence number seq (auxm = None, auxt = []),
     Snapshot.NewIterator (seq = the snapshot's), Transaction.NewIterator (auxm, auxt = tr.mem, tr.tables);
     None = a panic or exhausted fuel somewhere *)
  Definition dbi_run (fuel : nat) (auxm : option MemDB.db) (auxt : list tfile) (st : bstate) (seq : N)
             (slice : option krange) (ms : list (move bytes)) : option (list (output bytes bytes)) :=
    match new_iterator auxm auxt st slice with
    | None => None
    | Some s0 => db_run c p raw_state raw_step raw_obs seq strict fuel s0 ms
    end.
End IterPath.

(* ------------------------------------------------------------------ the SPEC, from the L1 abstraction *)
(* the stored entries of an L1 state (Lsm/Lsm.v: buffers and tables as entry lists) in internal-key order,
   in the vocabulary of Iter/DBIter.v; live_pairs of this list at a sequence number = the pairs a reader
   at that sequence number must see *)
Definition entry_kv (e : Lsm.entry) : DBIter.entry := (e_ikey e, e_val e).
Definition lsm_entries (c : comparer) (st : lstate) : list DBIter.entry :=
  merge_lists (icmp c) [map entry_kv (all_entries st)].

(* the pairs with Start <= key < Limit in the user order (nil slice = None, nil bound = None) *)
Definition range_view (c : comparer) (slice : option krange) (l : list (bytes * bytes)) : list (bytes * bytes) :=
  match slice with
  | None => l
  | Some (a, b) => filter (fun kv => DBIter.in_range c a b (fst kv)) l
  end.

(* THE LIST a DB iterator at sequence number s over [slice] must walk *)
Definition lsm_view (c : comparer) (p : kparams) (s : N) (slice : option krange) (st : lstate) : list (bytes * bytes) :=
  range_view c slice (live_pairs c p s (lsm_entries c st)).

(* what the caller must respect: keys are byte strings *)
Definition umove_wf (m : move bytes) : Prop := match m with MSeek k => wf_bytes k | _ => True end.
Definition range_wf (slice : option krange) : Prop :=
  match slice with
  | None => True
  | Some (a, b) => (forall k, a = Some k -> wf_bytes k) /\ (forall k, b = Some k -> wf_bytes k)
  end.
