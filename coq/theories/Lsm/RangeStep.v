(* Lsm/RangeStep.v — one table compaction, as the termination arguments need it: installing the record of an admissible
   compaction (StepProofs) yields a well-formed version whose levels are known (source level = the survivors, next
   level = survivors with the outputs inserted, every other level untouched), and entry counts: the source level loses
   a >= 1 entries, the next level gains at most a.  Hence the weighted sum wsum (weight K - level) strictly decreases
   whenever the source level is below K. *)
From GL Require Import Base.Order Base.OrderProofs Codec.IKey Codec.IKeyProofs Lsm.Lsm Lsm.Compact Lsm.LsmProofs
  Lsm.CompactProofs Lsm.WfProofs Lsm.OutputProofs Lsm.Pick Lsm.PickBase Lsm.OverlapProofs Lsm.ExpandProofs Lsm.WfLsm
  Lsm.FinishProofs Lsm.InsertProofs Lsm.StepProofs Lsm.ModelStep.
From Coq Require Import Arith Lia Permutation.

Local Open Scope nat_scope.

(* ---- entry counts ---- *)
Definition elen (ts : list table) : nat := length (LE ts).
Definition tl (v : list (list table)) (l : nat) : nat := elen (lv v l).

Lemma elen_cons t ts : elen (t :: ts) = length (t_entries t) + elen ts.
Proof. unfold elen, LE. cbn [map concat]. apply app_length. Qed.

Lemma elen_app a b : elen (a ++ b) = elen a + elen b.
Proof. unfold elen. rewrite LE_app. apply app_length. Qed.

Lemma elen_perm a b : Permutation a b -> elen a = elen b.
Proof.
  induction 1 as [|x l l' _ IH|x y l|l l' l'' _ IH1 _ IH2]; [reflexivity| | |congruence].
  - rewrite !elen_cons, IH. reflexivity.
  - rewrite !elen_cons. lia.
Qed.

Lemma elen_split (f : table -> bool) l : elen (filter f l) + elen (filter (fun t => negb (f t)) l) = elen l.
Proof.
  induction l as [|t l IH]; [reflexivity|]. cbn [filter]. destruct (f t); cbn [negb]; rewrite !elen_cons; lia.
Qed.

(* a duplicate-free sublist (as a set) selected by a boolean that decides membership *)
Lemma elen_selected (f : table -> bool) base sub :
  NoDup base -> NoDup sub -> incl sub base -> (forall t, In t base -> (f t = true <-> In t sub)) ->
  elen (filter f base) = elen sub.
Proof.
  intros Nb Ns I F. apply elen_perm. apply NoDup_Permutation; [apply NoDup_filter; exact Nb|exact Ns|].
  intros t. rewrite filter_In. split.
  - intros [H1 H2]. apply (F t H1). exact H2.
  - intros H. split; [apply I; exact H|apply (F t (I t H)); exact H].
Qed.

(* ---- weighted sums over levels: wsum K f = sum over l < K of f l * (K - l) ---- *)
Fixpoint wsum (K : nat) (f : nat -> nat) : nat :=
  match K with
  | O => 0
  | S k => f 0 * S k + wsum k (fun l => f (S l))
  end.
Fixpoint tsum (K : nat) (f : nat -> nat) : nat :=
  match K with
  | O => 0
  | S k => f 0 + tsum k (fun l => f (S l))
  end.

Lemma wsum_ext K : forall f g, (forall l, l < K -> f l = g l) -> wsum K f = wsum K g.
Proof.
  induction K as [|k IH]; intros f g H; [reflexivity|]. cbn [wsum]. rewrite (H 0) by lia.
  rewrite (IH (fun l => f (S l)) (fun l => g (S l))); [reflexivity|]. intros l Hl. apply H. lia.
Qed.

Lemma tsum_ext K : forall f g, (forall l, l < K -> f l = g l) -> tsum K f = tsum K g.
Proof.
  induction K as [|k IH]; intros f g H; [reflexivity|]. cbn [tsum]. rewrite (H 0) by lia.
  rewrite (IH (fun l => f (S l)) (fun l => g (S l))); [reflexivity|]. intros l Hl. apply H. lia.
Qed.

Lemma wsum_le_tsum K : forall f, wsum K f <= K * tsum K f.
Proof.
  induction K as [|k IH]; intros f; [reflexivity|]. cbn [wsum tsum]. specialize (IH (fun l => f (S l))). nia.
Qed.

Lemma tsum_member K : forall f l, l < K -> f l <= tsum K f.
Proof.
  induction K as [|k IH]; intros f l Hl; [lia|]. cbn [tsum]. destruct l as [|l]; [lia|].
  specialize (IH (fun l => f (S l)) l ltac:(lia)). cbn beta in IH. lia.
Qed.

(* level 0 may gain a entries, nothing else changes: the sum grows by at most a * K *)
Lemma wsum_bump0 K f g a : g 0 <= f 0 + a -> (forall l, 0 < l -> g l = f l) -> wsum K g <= wsum K f + a * K.
Proof.
  intros H0 H. destruct K as [|k]; [cbn; lia|]. cbn [wsum].
  rewrite (wsum_ext k (fun l => g (S l)) (fun l => f (S l))) by (intros l _; apply H; lia). nia.
Qed.

Lemma tsum_bump0 K f g a : g 0 <= f 0 + a -> (forall l, 0 < l -> g l = f l) -> tsum K g <= tsum K f + a.
Proof.
  intros H0 H. destruct K as [|k]; [cbn; lia|]. cbn [tsum].
  rewrite (tsum_ext k (fun l => g (S l)) (fun l => f (S l))) by (intros l _; apply H; lia). lia.
Qed.

(* the step: level L loses a, level L+1 gains at most a, the others keep their counts *)
Lemma wsum_step K : forall L f g a, L < K -> g L + a = f L -> g (S L) <= f (S L) + a ->
  (forall l, l <> L -> l <> S L -> g l = f l) -> wsum K g + a <= wsum K f.
Proof.
  induction K as [|k IH]; intros L f g a HL H1 H2 H3; [lia|]. cbn [wsum]. destruct L as [|L].
  - pose proof (wsum_bump0 k (fun l => f (S l)) (fun l => g (S l)) a H2) as B.
    specialize (B ltac:(intros l Hl; apply H3; lia)). cbn beta in H1. rewrite <- H1.
    set (x := wsum k (fun l => g (S l))) in *. set (y := wsum k (fun l => f (S l))) in *. nia.
  - rewrite (H3 0) by lia.
    specialize (IH L (fun l => f (S l)) (fun l => g (S l)) a ltac:(lia) H1 H2 ltac:(intros l Q1 Q2; apply H3; lia)).
    lia.
Qed.

Lemma tsum_step K : forall L f g a, g L + a = f L -> g (S L) <= f (S L) + a ->
  (forall l, l <> L -> l <> S L -> g l = f l) -> tsum K g <= tsum K f.
Proof.
  induction K as [|k IH]; intros L f g a H1 H2 H3; [cbn; lia|]. cbn [tsum]. destruct L as [|L].
  - pose proof (tsum_bump0 k (fun l => f (S l)) (fun l => g (S l)) a H2) as B.
    specialize (B ltac:(intros l Hl; apply H3; lia)). lia.
  - rewrite (H3 0) by lia.
    specialize (IH L (fun l => f (S l)) (fun l => g (S l)) a H1 H2 ltac:(intros l Q1 Q2; apply H3; lia)). lia.
Qed.

(* the first K levels hold at most all entries *)
Lemma tsum_tl_le K : forall v, tsum K (tl v) <= elen (concat v).
Proof.
  induction K as [|k IH]; intros v; [cbn; lia|]. cbn [tsum]. destruct v as [|x r].
  - unfold tl, lv. cbn [nth]. rewrite (tsum_ext k _ (fun _ => 0)); [|intros l _; destruct l; reflexivity].
    assert (E : forall j, tsum j (fun _ => 0) = 0) by (intros j; induction j as [|j IHj]; [reflexivity|cbn [tsum]; exact IHj]).
    rewrite E. cbn. lia.
  - cbn [concat]. rewrite elen_app. specialize (IH r).
    rewrite (tsum_ext k (fun l => tl (x :: r) (S l)) (tl r)) by (intros; reflexivity).
    unfold tl at 1. unfold lv. cbn [nth]. lia.
Qed.

(* ---- the version after an admissible compaction ---- *)
Section StepLevels.
  Variable c : comparer.
  Hypothesis ok : comparer_ok c.
  Variable p : kparams.

  Notation wf_lsm := (wf_lsm c p).
  Notation tbl_ok := (tbl_ok c p).

  Variable v : list (list table).
  Hypothesis W : wf_lsm v.
  Variable cm : compaction.
  Variable outs : list table.

  Let L := c_level cm.
  Let t0 := c_t0 cm.
  Let t1 := c_t1 cm.
  Let I := LE (t0 ++ t1).

  Hypothesis A0a : incl t0 (lv v L).
  Hypothesis A0b : incl t1 (lv v (S L)).
  Hypothesis A1 : forall s t x y, In s (lv v L) -> In t t0 -> In x (t_entries s) -> In y (t_entries t) ->
                  e_uk x = e_uk y -> In s t0 \/ (e_seq y < e_seq x)%N.
  Hypothesis A2 : forall s, In s (lv v (S L)) -> ~ In s t1 -> sep c s I.
  Hypothesis O1 : forall o, In o outs -> tbl_ok o.
  Hypothesis O2 : level_sorted c outs.
  Hypothesis O3 : forall o x, In o outs -> In x (t_entries o) -> In x I.
  Hypothesis O4 : uniq (LE outs).
  Hypothesis O5 : forall o o', In o outs -> In o' outs -> t_num o = t_num o' -> o = o'.
  Hypothesis O6 : forall o i s, In o outs -> In s (lv v i) -> t_num s = t_num o ->
                  (i = L /\ In s t0) \/ (i = S L /\ In s t1).
  Hypothesis N0 : NoDup t0.
  Hypothesis N1 : NoDup t1.
  Hypothesis T0ne : t0 <> [].

  (* what the step does to the entry counts and to the membership of the levels *)
  Definition step_effect (nv : list (list table)) : Prop :=
    exists a, 1 <= a /\ tl nv L + a = tl v L /\ tl nv (S L) <= tl v (S L) + a /\
      (forall l, l <> L -> l <> S L -> lv nv l = lv v l) /\
      (forall t, In t (lv nv L) -> In t (lv v L) /\ ~ In t t0) /\
      (forall t, In t (lv nv (S L)) -> (In t (lv v (S L)) /\ ~ In t t1) \/ In t outs) /\
      (forall t, In t (lv v (S L)) -> ~ In t t1 -> In t (lv nv (S L))) /\
      (forall t, In t outs -> In t (lv nv (S L))) /\
      (forall t, In t (lv v L) -> ~ In t t0 -> In t (lv nv L)).

  Lemma base_nodup l : NoDup (lv v l).
  Proof.
    apply uniq_nodup_tables; [|apply (wl_uniq c p v W)]. intros t Ht. apply (wl_tbl c p v W l t Ht).
  Qed.

  Theorem step_levels : exists nv, finish c true v (compaction_edit cm outs) = POk nv /\ wf_lsm nv /\ step_effect nv.
  Proof.
    destruct (level_dst c ok p v cm outs O1 O2) as [idx [Ed Hidx]].
    destruct (finish_levels c true v (compaction_edit cm outs) (new_level v cm outs idx)) as [nv [E H]].
    { intros l. unfold new_level. fold L. destruct (Nat.eqb l L) eqn:Q1.
      - apply Nat.eqb_eq in Q1. subst l. eapply level_src; eassumption.
      - destruct (Nat.eqb l (S L)) eqn:Q2.
        + apply Nat.eqb_eq in Q2. subst l. exact Ed.
        + apply Nat.eqb_neq in Q1, Q2. eapply level_other; eassumption. }
    exists nv. split; [exact E|]. split.
    { apply (new_wf c ok p v W cm outs A0a A0b A1 A2 O1 O2 O3 O4 O5 O6 idx Hidx nv H). }
    (* the two changed levels *)
    set (keep0 := fun t : table => negb (memN (t_num t) (nums_of t0))).
    set (D1 := dels_at (compaction_edit cm outs) (S L) (lv v (S L))).
    set (nt := filter (fun t => negb (memN (t_num t) D1) && negb (memN (t_num t) (nums_of outs))) (lv v (S L))).
    assert (EL : lv nv L = filter keep0 (lv v L)).
    { rewrite H. unfold new_level. fold L. rewrite Nat.eqb_refl. reflexivity. }
    assert (ES : lv nv (S L) = firstn idx nt ++ outs ++ skipn idx nt).
    { rewrite H. unfold new_level. fold L. replace (Nat.eqb (S L) L) with false by (symmetry; apply Nat.eqb_neq; lia).
      rewrite Nat.eqb_refl. reflexivity. }
    assert (Hnt : forall s, In s nt <-> In s (lv v (S L)) /\ ~ In s t1).
    { intros s. eapply nt_in; eassumption. }
    assert (F0 : forall t, In t (lv v L) -> (memN (t_num t) (nums_of t0) = true <-> In t t0)).
    { intros t Ht. eapply in_t0_iff; eassumption. }
    assert (F1 : forall t, In t (lv v (S L)) -> (memN (t_num t) (nums_of t1) = true <-> In t t1)).
    { intros t Ht. eapply in_t1_iff; eassumption. }
    exists (elen t0). split; [|split; [|split; [|split; [|split; [|split; [|split; [|split]]]]]]].
    - destruct t0 as [|t r] eqn:Et; [congruence|]. rewrite elen_cons.
      assert (Ht : tbl_ok t) by (apply (wl_tbl c p v W L t); apply A0a; left; reflexivity).
      destruct Ht as [_ Hne]. destruct (t_entries t); [congruence|cbn [length]; lia].
    - unfold tl. rewrite EL.
      assert (Sp : elen (filter (fun t => memN (t_num t) (nums_of t0)) (lv v L)) + elen (filter keep0 (lv v L)) = elen (lv v L))
        by (apply (elen_split (fun t => memN (t_num t) (nums_of t0)))).
      rewrite (elen_selected _ (lv v L) t0 (base_nodup L) N0 A0a F0) in Sp. lia.
    - unfold tl. rewrite ES, !elen_app.
      assert (Ent : elen (firstn idx nt) + elen (skipn idx nt) = elen nt).
      { rewrite <- elen_app, firstn_skipn. reflexivity. }
      assert (Eq1 : elen nt + elen t1 = elen (lv v (S L))).
      { assert (Sp : elen (filter (fun t => memN (t_num t) (nums_of t1)) (lv v (S L))) +
                     elen (filter (fun t => negb (memN (t_num t) (nums_of t1))) (lv v (S L))) = elen (lv v (S L)))
          by (apply (elen_split (fun t => memN (t_num t) (nums_of t1)))).
        rewrite (elen_selected _ (lv v (S L)) t1 (base_nodup (S L)) N1 A0b F1) in Sp.
        assert (En : nt = filter (fun t => negb (memN (t_num t) (nums_of t1))) (lv v (S L))).
        { unfold nt. apply filter_ext_in. intros t Ht.
          destruct (memN (t_num t) (nums_of t1)) eqn:M.
          - apply (F1 t Ht) in M. cbn [negb].
            destruct (negb (memN (t_num t) D1) && negb (memN (t_num t) (nums_of outs)))%bool eqn:Q; [|reflexivity].
            exfalso. assert (Hin : In t nt) by (unfold nt; apply filter_In; split; assumption).
            apply Hnt in Hin. apply (proj2 Hin). exact M.
          - cbn [negb]. assert (Hin : In t nt).
            { apply Hnt. split; [exact Ht|]. intros Q. apply (F1 t Ht) in Q. congruence. }
            unfold nt in Hin. apply filter_In in Hin. apply Hin. }
        rewrite <- En in Sp. lia. }
      assert (Eo : elen outs <= elen t0 + elen t1).
      { rewrite <- elen_app. unfold elen. fold I.
        rewrite <- (map_length keyseq (LE outs)), <- (map_length keyseq I).
        apply NoDup_incl_length; [exact O4|]. intros k Hk. apply in_map_iff in Hk as [x [<- Hx]].
        apply in_map. apply LE_in in Hx as [o' [Ho Hx]]. apply (O3 o' x Ho Hx). }
      lia.
    - intros l Q1 Q2. rewrite H. unfold new_level. fold L.
      replace (Nat.eqb l L) with false by (symmetry; apply Nat.eqb_neq; exact Q1).
      replace (Nat.eqb l (S L)) with false by (symmetry; apply Nat.eqb_neq; exact Q2). reflexivity.
    - intros t Ht. rewrite EL in Ht. apply filter_In in Ht as [H1 H2]. split; [exact H1|].
      intros Q. apply (F0 t H1) in Q. unfold keep0 in H2. rewrite Q in H2. discriminate.
    - intros t Ht. rewrite ES in Ht. apply in_app_or in Ht as [Ht|Ht]; [|apply in_app_or in Ht as [Ht|Ht]].
      + left. apply Hnt. apply (firstn_incl idx nt t Ht).
      + right. exact Ht.
      + left. apply Hnt. apply (skipn_incl idx nt t Ht).
    - intros t Ht Hn. rewrite ES. assert (Hin : In t nt) by (apply Hnt; split; assumption).
      rewrite <- (firstn_skipn idx nt) in Hin. apply in_app_or in Hin as [Q|Q].
      + apply in_or_app. left; exact Q.
      + apply in_or_app. right. apply in_or_app. right; exact Q.
    - intros t Ht. rewrite ES. apply in_or_app. right. apply in_or_app. left; exact Ht.
    - intros t Ht Hn. rewrite EL. apply filter_In. split; [exact Ht|]. unfold keep0.
      destruct (memN (t_num t) (nums_of t0)) eqn:M; [|reflexivity]. apply (F0 t Ht) in M. contradiction.
  Qed.
End StepLevels.

(* ---- for the compaction the model picker builds ---- *)
Section ModelLevels.
  Variable c : comparer.
  Hypothesis ok : comparer_ok c.
  Variable p : kparams.
  Hypothesis pok : kparams_ok p.
  Variable sz : table -> N.

  Notation wf_lsm := (wf_lsm c p).

  Variable v : list (list table).
  Hypothesis W : wf_lsm v.
  Variable lvl : nat.
  Variable limit : N.
  Variable seed : list table.
  Hypothesis seed_ne : seed <> [].
  Hypothesis seed_in : incl seed (lv v lvl).
  Hypothesis seed_nd : NoDup seed.
  Variable cm : compaction.
  Hypothesis Pk : pick_ok c v lvl seed cm.

  Lemma pk_lvl : c_level cm = lvl.
  Proof. apply (pk_level c v lvl seed cm Pk). Qed.

  (* the built tables: chunks of the kept merged entries under unused numbers *)
  Theorem model_build_levels minSeq deeper chunks nums :
    cuts_ok c chunks = true -> concat chunks = compact_entries c p minSeq deeper (c_t0 cm ++ c_t1 cm) ->
    length nums = length chunks -> NoDup nums -> (forall n i s, In n nums -> In s (lv v i) -> t_num s <> n) ->
    exists nv, finish c true v (compaction_edit cm (mk_outputs nums chunks)) = POk nv /\ wf_lsm nv /\
               step_effect v cm (mk_outputs nums chunks) nv.
  Proof.
    intros C1 C2 Hl F1 F2.
    destruct (outs_ok c ok p pok sz v W lvl seed cm Pk minSeq deeper chunks nums C1 C2 Hl F1)
      as [O1 [O2 [O3 [O4 [O5 On]]]]].
    apply (step_levels c ok p v W cm (mk_outputs nums chunks)); rewrite ?pk_lvl; try assumption.
    - apply (pk_t0 c v lvl seed cm Pk).
    - apply (pk_t1 c v lvl seed cm Pk).
    - intros s t x y H1 H2 H3 H4 H5. left. apply (pk_A1 c ok p sz v W lvl seed seed_in cm Pk s t x y); assumption.
    - apply (pk_A2 c ok p sz v W lvl seed cm Pk).
    - intros o i s Ho Hs E. exfalso. apply (F2 (t_num o) i s (On o Ho) Hs E).
    - apply (pk_nd0 c v lvl seed cm Pk).
    - apply (pk_nd1 c v lvl seed cm Pk).
    - apply (pk_t0_ne c v lvl seed seed_ne cm Pk).
  Qed.

  (* the trivial move *)
  Theorem model_move_levels t : c_t0 cm = [t] -> c_t1 cm = [] ->
    exists nv, finish c true v (move_edit cm) = POk nv /\ wf_lsm nv /\ step_effect v cm (c_t0 cm) nv.
  Proof.
    intros E0 E1. unfold move_edit.
    assert (Ht : In t (lv v lvl)) by (apply (pk_t0 c v lvl seed cm Pk); rewrite E0; left; reflexivity).
    apply (step_levels c ok p v W cm (c_t0 cm)); rewrite ?pk_lvl.
    - apply (pk_t0 c v lvl seed cm Pk).
    - apply (pk_t1 c v lvl seed cm Pk).
    - intros s u x y H1 H2 H3 H4 H5. left. apply (pk_A1 c ok p sz v W lvl seed seed_in cm Pk s u x y); assumption.
    - apply (pk_A2 c ok p sz v W lvl seed cm Pk).
    - intros o' Ho. apply (wl_tbl c p v W lvl o' (pk_t0 c v lvl seed cm Pk o' Ho)).
    - rewrite E0. split; [apply Forall_nil|exact Logic.I].
    - intros o' x Ho Hx. rewrite LE_app. apply in_or_app. left. apply LE_in. exists o'. split; assumption.
    - apply (uniq_sub (c_t0 cm) (lv v lvl) (pk_nd0 c v lvl seed cm Pk) (pk_t0 c v lvl seed cm Pk) (wl_uniq c p v W lvl)).
    - rewrite E0. intros o' o'' [<-|[]] [<-|[]] _. reflexivity.
    - intros o' i s Ho Hs E. left.
      destruct (wl_nums c p v W i lvl s o' Hs (pk_t0 c v lvl seed cm Pk o' Ho) E) as [-> ->].
      split; [reflexivity|exact Ho].
    - apply (pk_nd0 c v lvl seed cm Pk).
    - apply (pk_nd1 c v lvl seed cm Pk).
    - apply (pk_t0_ne c v lvl seed seed_ne cm Pk).
  Qed.
End ModelLevels.
