(* Lsm/ReorgProofs.v — the reorganisations the DB performs are admissible (History.reorg_ok):
   - any rearrangement of the same entries (rotation, flush, trivial move);
   - a table compaction: inputs merged, drop rule applied, everything else untouched. *)
From GL Require Import Base.Order Base.OrderProofs Codec.IKey Codec.IKeyProofs Lsm.Lsm Lsm.Compact
  Lsm.LsmProofs Lsm.CompactProofs Lsm.History Lsm.HistoryProofs.
From Coq Require Import ZArith Lia ZifyN ZifyNat ZifyBool.

Section Proofs.
  Variable c : comparer.
  Hypothesis ok : comparer_ok c.
  Variable p : kparams.
  Hypothesis pok : kparams_ok p.

  Notation newest := (newest c).
  Notation vis := (vis c).
  Notation res := (History.res p).
  Notation ssorted := (ssorted c).
  Notation kinds_ok := (kinds_ok p).

  Definition same_elems (l1 l2 : list entry) : Prop := forall x, In x l1 <-> In x l2.
  (* no two distinct stored entries share user key and sequence number *)
  Definition uniq_in (l : list entry) : Prop :=
    forall a b, In a l -> In b l -> e_uk a = e_uk b -> e_seq a = e_seq b -> a = b.

  (* ---- newest is the maximum ---- *)
  Lemma newest_max_acc k s l acc m : newest k s l acc = Some m ->
    (forall x, In x l -> vis k s x = true -> e_seq x <= e_seq m) /\
    (forall a, acc = Some a -> e_seq a <= e_seq m).
  Proof.
    revert acc; induction l as [|e l IH]; intros acc H; cbn [Lsm.newest] in H.
    - subst acc. split; [intros x []|]. intros a Ha. injection Ha as ->. lia.
    - apply IH in H as [H1 H2]. split.
      + intros x [Hex|Hx] Vx; [subst x|apply H1; assumption].
        rewrite Vx in H2. destruct acc as [a|]; cbn [newer] in H2.
        * destruct (e_seq a <? e_seq e) eqn:L; [apply (H2 e eq_refl)|].
          specialize (H2 a eq_refl). apply N.ltb_ge in L. lia.
        * apply (H2 e eq_refl).
      + intros a ->. destruct (vis k s e); [|apply (H2 a eq_refl)].
        cbn [newer] in H2. destruct (e_seq a <? e_seq e) eqn:L; [|apply (H2 a eq_refl)].
        specialize (H2 e eq_refl). apply N.ltb_lt in L. lia.
  Qed.

  Lemma newest_acc_some k s l a : newest k s l (Some a) <> None.
  Proof.
    revert a; induction l as [|e l IH]; intros a; cbn [Lsm.newest]; [discriminate|].
    destruct (vis k s e); [|apply IH]. cbn [newer]. destruct (e_seq a <? e_seq e); apply IH.
  Qed.

  Lemma newest_none_all k s l : newest k s l None = None -> forall x, In x l -> vis k s x = false.
  Proof.
    induction l as [|e l IH]; cbn [Lsm.newest]; intros H x Hx; [destruct Hx|].
    destruct (vis k s e) eqn:V.
    - cbn [newer] in H. exfalso. eapply newest_acc_some; eauto.
    - destruct Hx as [<-|Hx]; [exact V|apply IH; assumption].
  Qed.

  Lemma newest_same_elems k s l1 l2 : uniq_in l1 -> same_elems l1 l2 ->
    newest k s l1 None = newest k s l2 None.
  Proof.
    intros Hu Hse.
    destruct (newest k s l1 None) as [m1|] eqn:E1; destruct (newest k s l2 None) as [m2|] eqn:E2; try reflexivity.
    - pose proof (newest_max_acc k s l1 None m1 E1) as [M1 _].
      pose proof (newest_max_acc k s l2 None m2 E2) as [M2 _].
      apply (newest_in c) in E1 as [E1|[H1 V1]]; [discriminate|].
      apply (newest_in c) in E2 as [E2|[H2 V2]]; [discriminate|].
      f_equal. apply Hu; [exact H1|apply Hse; exact H2| |].
      + apply (vis_true c ok) in V1 as [U1 _]. apply (vis_true c ok) in V2 as [U2 _]. congruence.
      + assert (e_seq m2 <= e_seq m1) by (apply M1; [apply Hse; exact H2|exact V2]).
        assert (e_seq m1 <= e_seq m2) by (apply M2; [apply Hse; exact H1|exact V1]). lia.
    - exfalso. apply (newest_in c) in E1 as [E1|[H1 V1]]; [discriminate|].
      pose proof (newest_none_all k s l2 E2 m1 (proj1 (Hse m1) H1)). congruence.
    - exfalso. apply (newest_in c) in E2 as [E2|[H2 V2]]; [discriminate|].
      pose proof (newest_none_all k s l1 E1 m2 (proj2 (Hse m2) H2)). congruence.
  Qed.

  (* Rotation, flush, trivial move: the stored entries are the same, only their place changes. *)
  Theorem rearrangement_ok h s' : uniq_in (h_store h) -> same_elems (h_store h) s' -> reorg_ok c p h s'.
  Proof.
    intros Hu Hse. split.
    - intros x Hx. apply Hse. exact Hx.
    - intros k s _. rewrite (newest_same_elems k s (h_store h) s' Hu Hse). reflexivity.
  Qed.

  (* ---- insertion sort yields the merged order ---- *)
  Lemma ins_in e l x : In x (ins c e l) <-> x = e \/ In x l.
  Proof.
    induction l as [|y l IH]; cbn [ins]; [cbn; intuition congruence|].
    destruct (ecmp c e y); cbn [In]; try rewrite IH; intuition congruence.
  Qed.

  Lemma isort_in l x : In x (isort c l) <-> In x l.
  Proof.
    induction l as [|e l IH]; cbn [isort fold_right]; [tauto|].
    fold (isort c l). rewrite ins_in, IH. cbn. intuition congruence.
  Qed.

  Lemma ecmp_opp a b : ecmp c b a = CompOpp (ecmp c a b).
  Proof. apply (icmp_opp c ok). Qed.

  Lemma ins_sorted e l : ssorted l -> (forall x, In x l -> ecmp c e x <> Eq) -> ssorted (ins c e l).
  Proof.
    induction l as [|y l IH]; intros Hs Hne; cbn [ins]; [split; [constructor|exact I]|].
    destruct Hs as [Hall Hs]. destruct (ecmp c e y) eqn:E.
    - exfalso. apply (Hne y); [left; reflexivity|exact E].
    - split; [|split; assumption]. constructor; [exact E|].
      rewrite Forall_forall in *. intros x Hx. eapply (icmp_trans c ok); [exact E|apply Hall; exact Hx].
    - split.
      + rewrite Forall_forall in *. intros x Hx. apply ins_in in Hx as [->|Hx]; [|apply Hall; exact Hx].
        rewrite ecmp_opp, E. reflexivity.
      + apply IH; [exact Hs|]. intros x Hx. apply Hne. right; exact Hx.
  Qed.

  Lemma ecmp_eq_keyseq a b : kinds_ok [a; b] -> ecmp c a b = Eq -> e_uk a = e_uk b /\ e_seq a = e_seq b.
  Proof.
    intros Hk H. apply (icmp_eq c ok) in H. unfold e_ikey in H. injection H as Hu Hn.
    split; [exact Hu|]. unfold pack in Hn.
    inversion Hk as [|? ? Ha Hk']; subst. inversion Hk' as [|? ? Hb _]; subst.
    pose proof (seek_lt_256 p pok). lia.
  Qed.

  Lemma isort_sorted l : kinds_ok l -> NoDup (map keyseq l) -> ssorted (isort c l).
  Proof.
    induction l as [|e l IH]; intros Hk Hnd; cbn [isort fold_right]; [exact I|]. fold (isort c l).
    cbn [map] in Hnd. apply NoDup_cons_iff in Hnd as [Hn Hnd].
    apply ins_sorted; [apply IH; [eapply kinds_ok_tl; eauto|exact Hnd]|].
    intros x Hx E. apply (proj1 (isort_in l x)) in Hx. apply Hn.
    apply ecmp_eq_keyseq in E as [E1 E2].
    - apply in_map_iff. exists x. split; [unfold keyseq; congruence|exact Hx].
    - apply (kinds_pair p (e :: l)); [exact Hk|left; reflexivity|right; exact Hx].
  Qed.

  Lemma isort_kinds l : kinds_ok l -> kinds_ok (isort c l).
  Proof.
    unfold LsmProofs.kinds_ok. rewrite !Forall_forall. intros H x Hx. apply H. apply isort_in. exact Hx.
  Qed.

  (* ---- a table compaction is an admissible reorganisation ---- *)
  Section Compaction.
    Variable minSeq : N.
    Variable base : bytes -> bool.
    Hypothesis minSeq_lt : minSeq < keyMaxSeq p.

    Variable I O : list entry.          (* entries of the input tables / everything else stored *)
    Hypothesis I_kinds : kinds_ok I.
    Hypothesis I_nodup : NoDup (map keyseq I).
    Hypothesis S_uniq : uniq_in (I ++ O).
    (* every other stored entry of a user key that occurs in the inputs is either newer than all input
       entries of that key (shallower level or buffer), or older — and then the key is not at base level *)
    Hypothesis others : forall o i, In o O -> In i I -> e_uk o = e_uk i ->
      e_seq i < e_seq o \/ (e_seq o < e_seq i /\ base (e_uk i) = false).

    Let K := drop_run c p minSeq base None (isort c I).

    Lemma K_incl x : In x K -> In x I.
    Proof. intros H. apply (proj1 (isort_in I x)). eapply drop_incl; eauto. Qed.

    Theorem compaction_preserves k s : minSeq <= s ->
      res (newest k s (K ++ O) None) = res (newest k s (I ++ O) None).
    Proof.
      intros Hms.
      assert (SE : same_elems (I ++ O) (isort c I ++ O)).
      { intros x. rewrite !in_app_iff, isort_in. tauto. }
      rewrite (newest_same_elems k s (I ++ O) (isort c I ++ O) S_uniq SE).
      rewrite !(newest_app c).
      pose proof (isort_sorted I I_kinds I_nodup) as Hs.
      pose proof (isort_kinds I I_kinds) as Hk.
      rewrite (newest_sorted c ok p pok k s K None
                 (drop_kinds c p minSeq base None _ Hk) (drop_sorted c p minSeq base None _ Hs)).
      rewrite (newest_sorted c ok p pok k s (isort c I) None Hk Hs).
      assert (D := drop_fresh_strong c ok p pok minSeq base minSeq_lt k s Hms (isort c I) None Hs Hk).
      destruct D as [D|[e [F [Kd [Bk [Se D]]]]]]; [discriminate| |].
      - fold K in D. rewrite D. reflexivity.
      - fold K in D. rewrite D, F. cbn [newer].
        apply (first_vis_in c) in F as [He Ve]. apply (proj1 (isort_in I e)) in He.
        apply (vis_true c ok) in Ve as [Ue _].
        destruct (vis_dec_list c k s O) as [Hex|Hno].
        + f_equal. symmetry. apply (newest_acc_none c); [|exact Hex].
          intros x Hx Vx. apply (vis_true c ok) in Vx as [Ux _].
          destruct (others x e Hx He) as [H|[_ H]]; [congruence|exact H|].
          rewrite Ue, Bk in H. discriminate.
        + rewrite !(newest_none c k s O Hno). unfold History.res. cbn [group_res]. unfold res_of.
          rewrite Kd, N.eqb_refl. reflexivity.
    Qed.

    (* stated as History.reorg_ok for a store consisting of exactly the inputs and the others *)
    Theorem compaction_reorg_ok h s' :
      same_elems (h_store h) (I ++ O) -> same_elems s' (K ++ O) ->
      (forall q, protected h q -> minSeq <= q) ->
      reorg_ok c p h s'.
    Proof.
      intros HS HS' Hprot. split.
      - intros x Hx. apply HS. apply HS' in Hx. apply in_app_or in Hx as [Hx|Hx]; apply in_or_app;
          [left; apply K_incl; exact Hx|right; exact Hx].
      - intros k s Hp.
        assert (US : uniq_in (h_store h)).
        { intros a b Ha Hb. apply S_uniq; apply HS; assumption. }
        assert (UK : uniq_in (K ++ O)).
        { intros a b Ha Hb. apply S_uniq.
          - apply in_app_or in Ha as [Ha|Ha]; apply in_or_app; [left; apply K_incl; exact Ha|right; exact Ha].
          - apply in_app_or in Hb as [Hb|Hb]; apply in_or_app; [left; apply K_incl; exact Hb|right; exact Hb]. }
        assert (SE' : same_elems (K ++ O) s') by (intros x; symmetry; apply HS').
        rewrite <- (newest_same_elems k s (K ++ O) s' UK SE').
        rewrite (newest_same_elems k s (h_store h) (I ++ O) US HS).
        apply compaction_preserves. apply Hprot. exact Hp.
    Qed.
  End Compaction.
End Proofs.
