(* Lsm/WfPreProofs.v — the class-based boolean certificates (Lsm/CompactPre.v) imply the hypotheses of the preorder
   theorems: wf_versioncb => LsmPreProofs.wf_state_pre (read path), compaction_certc => the hypotheses of
   ReorgPreProofs.compaction_preserves_pre. *)
From GL Require Import Base.Order Base.BytesProofs Base.OrderProofs Base.OrderPre Codec.IKey Codec.IKeyProofs
  Codec.IKeyPreProofs Lsm.Lsm Lsm.Compact Lsm.CompactPre Lsm.LsmProofs Lsm.LsmPreProofs Lsm.CompactProofs
  Lsm.CompactPreProofs Lsm.History Lsm.HistoryProofs Lsm.ReorgProofs Lsm.ReorgPreProofs Lsm.WfProofs.
From Coq Require Import ZArith Lia ZifyN ZifyNat ZifyBool.

Section Proofs.
  Variable c : comparer.
  Hypothesis ok : comparer_pre_ok c.
  Variable p : kparams.
  Hypothesis pok : kparams_ok p.

  Notation ssorted := (ssorted c).
  Notation kinds_ok := (kinds_ok p).

  Lemma psortedb_ssorted l : sortedb c l = true -> ssorted l.
  Proof.
    induction l as [|a l IH]; intros H; [exact I|].
    destruct l as [|b l']; [split; [constructor|exact I]|].
    cbn [sortedb] in H. destruct (ecmp c a b) eqn:E; try discriminate.
    specialize (IH H). split; [|exact IH]. destruct IH as [Hall _].
    constructor; [exact E|]. rewrite Forall_forall in *. intros x Hx.
    eapply (picmp_trans c ok); [exact E|apply Hall; exact Hx].
  Qed.

  Lemma ptable_okb_ok t : table_okb c p t = true -> table_ok c p t /\ t_entries t <> [].
  Proof.
    unfold table_okb, table_ok. intros H. apply andb_prop in H as [H H3]. apply andb_prop in H as [H1 H2].
    split; [split; [apply psortedb_ssorted; exact H2|apply (kindsb_ok p); exact H3]|].
    destruct (t_entries t); [discriminate|discriminate].
  Qed.

  Lemma ptables_okb_ok ts : forallb (table_okb c p) ts = true -> tables_ok c p ts.
  Proof.
    unfold tables_ok. rewrite forallb_forall, Forall_forall. intros H t Ht. apply ptable_okb_ok. apply H. exact Ht.
  Qed.

  Lemma pin_table_bounds t x : ssorted (t_entries t) -> In x (t_entries t) ->
    exists f l, t_first t = Some f /\ t_last t = Some l /\
      cmp c (e_uk f) (e_uk x) <> Gt /\ cmp c (e_uk x) (e_uk l) <> Gt.
  Proof.
    intros Hs Hx. unfold t_first, t_last.
    destruct (hd_error (t_entries t)) as [f|] eqn:F.
    2:{ destruct (t_entries t); [destruct Hx|discriminate]. }
    destruct (last (map Some (t_entries t)) None) as [l|] eqn:L.
    2:{ apply last_none_nil in L. rewrite L in Hx. destruct Hx. }
    exists f, l. split; [reflexivity|]. split; [reflexivity|]. split.
    - apply (pssorted_hd_le c ok _ f x Hs F Hx).
    - destruct (ssorted_last_ge c _ x l Hs L Hx) as [->|H].
      + rewrite (pcmp_refl c ok). discriminate.
      + apply (after_uk_le c). exact H.
  Qed.

  Lemma plevel_disjoint_sorted ts : tables_ok c p ts -> (forall t, In t ts -> t_entries t <> []) ->
    level_disjoint c ts = true -> level_sorted c ts.
  Proof.
    induction ts as [|a ts IH]; intros Hok Hne H; [exact I|].
    destruct ts as [|b ts']; [split; [constructor|exact I]|].
    cbn [level_disjoint] in H. apply andb_prop in H as [H1 H2].
    assert (Hok' : tables_ok c p (b :: ts')) by (inversion Hok; assumption).
    assert (IH' := IH Hok' (fun t Ht => Hne t (or_intror Ht)) H2).
    split; [|exact IH'].
    destruct (t_last a) as [la|] eqn:LA; [|discriminate].
    destruct (t_first b) as [fb|] eqn:FB; [|discriminate].
    apply (ltb_lt c) in H1.
    assert (Ha : table_ok c p a) by (inversion Hok; assumption).
    assert (Hb : table_ok c p b) by (inversion Hok'; assumption).
    assert (AB : forall x y, In x (t_entries a) -> In y (t_entries b) -> cmp c (e_uk x) (e_uk y) = Lt).
    { intros x y Hx Hy.
      destruct (pin_table_bounds a x (proj1 Ha) Hx) as [f [l [_ [L [_ Hxl]]]]].
      destruct (pin_table_bounds b y (proj1 Hb) Hy) as [f' [l' [F' [_ [Hfy _]]]]].
      rewrite LA in L. injection L as <-. rewrite FB in F'. injection F' as <-.
      eapply (plt_le_trans c ok); [|exact Hfy]. eapply (ple_lt_trans c ok); [exact Hxl|exact H1]. }
    constructor; [exact AB|].
    destruct IH' as [Hall _]. rewrite Forall_forall in *. intros t' Ht' x y Hx Hy.
    destruct (t_entries b) as [|y2 yb] eqn:EB; [exfalso; apply (Hne b); [right; left; reflexivity|exact EB]|].
    eapply (pre_trans c ok); [apply (AB x y2 Hx); left; reflexivity|].
    apply (Hall t' Ht' y2 y); [left; reflexivity|exact Hy].
  Qed.

  Lemma newer_than_E hi lo : newer_than c hi lo = true -> newer_thanE c hi lo.
  Proof.
    unfold newer_than, newer_thanE. rewrite forallb_forall. intros H a b Ha Hb Hu.
    specialize (H a Ha). rewrite forallb_forall in H. specialize (H b Hb).
    rewrite Hu in H. apply N.ltb_lt in H. exact H.
  Qed.

  Lemma levels_newer_chainE lvls : levels_newer c lvls = true ->
    chain_newerE c (map LsmProofs.level_entries lvls).
  Proof.
    induction lvls as [|l rest IH]; intros H; [exact I|].
    cbn [levels_newer] in H. apply andb_prop in H as [H1 H2]. cbn [map chain_newerE]. split; [|apply IH; exact H2].
    rewrite forallb_forall in H1. rewrite Forall_forall. intros y Hy.
    apply in_map_iff in Hy as [d [<- Hd]]. apply newer_than_E. apply H1. exact Hd.
  Qed.

  Lemma uniqcb_uniqE l : uniqcb c l = true -> uniqE c l.
  Proof.
    induction l as [|a l IH]; intros H; [exact I|].
    cbn [uniqcb] in H. apply andb_prop in H as [H1 H2]. cbn [uniqE]. split; [|apply IH; exact H2].
    intros b Hb [E1 E2]. rewrite forallb_forall in H1. specialize (H1 b Hb).
    unfold keqb in H1. rewrite E1 in H1. apply N.eqb_eq in E2. rewrite E2 in H1. discriminate.
  Qed.

  Lemma uniqE_uniq_inE l : uniqE c l -> uniq_inE c l.
  Proof.
    induction l as [|x l IH]; [intros _ a b []|]. intros [H1 H2] a b Ha Hb Hu Hs.
    destruct Ha as [->|Ha]; destruct Hb as [->|Hb]; [reflexivity| | |apply IH; assumption].
    - exfalso. apply (H1 b Hb). split; assumption.
    - exfalso. apply (H1 a Ha). split; [apply (pcmp_eq_sym c ok); exact Hu|symmetry; exact Hs].
  Qed.

  Lemma uniqE_app_left l1 l2 : uniqE c (l1 ++ l2) -> uniqE c l1.
  Proof.
    induction l1 as [|x l1 IH]; cbn; [auto|]. intros [H1 H2]. split; [|apply IH; exact H2].
    intros b Hb. apply H1. apply in_or_app. left; exact Hb.
  Qed.

  (* The class-based boolean certificate evaluated on a dumped version implies the read-path invariant of
     LsmPreProofs.get_correct_pre. *)
  Theorem wf_versioncb_sound lvls : wf_versioncb c p lvls = true ->
    wf_state_pre c p {| st_mem := []; st_frozen := []; st_aux := []; st_levels := lvls |}.
  Proof.
    unfold wf_versioncb. intros H. apply andb_prop in H as [H H3]. apply andb_prop in H as [H1 H2].
    assert (T : forall l, In l lvls -> tables_ok c p l /\ (forall t, In t l -> t_entries t <> [])).
    { intros l Hl. pose proof (forall_concat _ _ H1 l Hl) as Hf. split; [apply ptables_okb_ok; exact Hf|].
      intros t Ht. rewrite forallb_forall in Hf. apply ptable_okb_ok. apply Hf. exact Ht. }
    constructor; cbn [st_mem st_frozen st_aux st_levels].
    - split; [exact I|constructor].
    - split; [exact I|constructor].
    - split; [constructor|exact I].
    - destruct lvls as [|l0 rest]; cbn [hd]; [split; [constructor|exact I]|].
      apply andb_prop in H2 as [H2 _]. apply andb_prop in H2 as [_ H2].
      split; [apply T; left; reflexivity|apply uniqcb_uniqE; exact H2].
    - destruct lvls as [|l0 rest]; cbn [tl]; [constructor|].
      apply andb_prop in H2 as [_ H2]. rewrite forallb_forall in H2. rewrite Forall_forall. intros l Hl.
      destruct (T l (or_intror Hl)) as [T1 T2]. split; [exact T1|].
      apply plevel_disjoint_sorted; [exact T1|exact T2|apply H2; exact Hl].
    - unfold comps; cbn [st_mem st_frozen st_aux st_levels chain_newerE].
      assert (E : forall l : list (list entry), Forall (fun y => newer_thanE c [] y) l).
      { intros l. rewrite Forall_forall. intros y _ a b []. }
      split; [apply E|]. split; [apply E|]. split; [apply E|]. apply levels_newer_chainE. exact H3.
  Qed.

  Lemma othersb_soundE base I O : othersb c base I O = true ->
    forall o i, In o O -> In i I -> cmp c (e_uk o) (e_uk i) = Eq ->
      e_seq i < e_seq o \/ (e_seq o < e_seq i /\ base (e_uk i) = false).
  Proof.
    unfold othersb. rewrite forallb_forall. intros H o i Ho Hi Hu.
    specialize (H o Ho). rewrite forallb_forall in H. specialize (H i Hi).
    rewrite Hu in H. apply orb_prop in H as [H|H].
    - left. apply N.ltb_lt. exact H.
    - right. apply andb_prop in H as [H1 H2]. split; [apply N.ltb_lt; exact H1|].
      destruct (base (e_uk i)); [discriminate|reflexivity].
  Qed.

  (* An observed compaction whose class-based certificate evaluates to true preserves every read (of any spelling of
     any user key) at a sequence number >= minSeq. *)
  Theorem certificatec_sound minSeq deeper I O outs :
    compaction_certc c p minSeq deeper I O outs = true ->
    concat outs = drop_run c p minSeq (is_base c deeper) None (isort c I) ->
    forall k s, minSeq <= s ->
      History.res p (newest c k s (concat outs ++ O) None) = History.res p (newest c k s (I ++ O) None).
  Proof.
    unfold compaction_certc. intros H Houts k s Hs.
    apply andb_prop in H as [H H4]. apply andb_prop in H as [H H3]. apply andb_prop in H as [H1 H2].
    rewrite Houts.
    apply (compaction_preserves_pre c ok p pok minSeq (is_base c deeper)).
    - apply N.ltb_lt. exact H4.
    - apply (kindsb_ok p). exact H1.
    - eapply uniqE_app_left. apply uniqcb_uniqE. exact H2.
    - apply uniqE_uniq_inE. apply uniqcb_uniqE. exact H2.
    - apply othersb_soundE. exact H3.
    - exact Hs.
  Qed.
End Proofs.
