(* Lsm/WritePathMem.v — the memdb side of the byte-level write path:
   - draining a memdb through its iterator (mdb.NewIterator(nil); for it.Next() {...}: Lsm/WritePath.v mem_iter_all,
     built from Mem/MemDB.v it_next) yields exactly the pairs of its level-0 chain (Lsm/ReadPath.v mem_pairs) — by
     C14's iterator refinement (Mem/MemIter.v it_next_ok) against the cursor of the reference map;
   - memdb.New gives a memdb that satisfies C14's invariant and holds no pair. *)
From GL Require Import Base.Bytes Base.Order Base.OrderProofs Base.Cursor Base.CursorProofs Codec.IKey Lsm.Lsm Lsm.ReadPath
  Lsm.ReadPathKey Lsm.ReadPathMem Lsm.WritePath.
From GL Require Import Mem.MemDB Mem.MemSpec Mem.MemSpecProofs Mem.MemInv Mem.MemOps Mem.MemIter.
From Coq Require Import Arith ZArith Lia.
Open Scope N_scope.

Lemma find_app_none {A} (f : A -> bool) (a b : list A) : (forall x, In x a -> f x = false) -> find f (a ++ b) = find f b.
Proof.
  induction a as [|x a IH]; intros H; [reflexivity|]. cbn [app find]. rewrite (H x (or_introl eq_refl)).
  apply IH. intros y Hy. apply H. right. exact Hy.
Qed.

Section Drain.
  Variable uc : comparer.              (* the user comparer; the memdb is ordered by the iComparer over it *)
  Local Notation c := (ibc uc).
  Hypothesis cok : comparer_ok c.
  Variable mp : mparams.
  Hypothesis mpok : mparams_ok mp.

  Lemma vis_none (m : smap) : vis c None m = m.
  Proof. unfold vis. induction m as [|x m IH]; [reflexivity|]. change (x :: filter (fun kv => in_range c None (fst kv)) m = x :: m). f_equal. exact IH. Qed.

  (* in a strictly increasing map the first entry above the key of an entry is the next entry *)
  Lemma find_gt_next (pre : smap) k v post : Cursor.sorted c (pre ++ (k, v) :: post) ->
    s_find_gt c k (pre ++ (k, v) :: post) = hd_error post.
  Proof.
    intros Hs. unfold s_find_gt. rewrite find_app_none.
    - cbn [find]. unfold key_gt at 1. cbn [fst]. unfold Order.ltb. rewrite (cmp_refl c cok).
      destruct post as [|[k2 v2] r]; [reflexivity|]. cbn [find hd_error]. unfold key_gt. cbn [fst]. unfold Order.ltb.
      rewrite (sorted_nth c cok _ (length pre) (S (length pre)) k v k2 v2 Hs ltac:(lia)); [reflexivity| |].
      + rewrite nth_error_app2 by lia. rewrite Nat.sub_diag. reflexivity.
      + rewrite nth_error_app2 by lia. replace (S (length pre) - length pre)%nat with 1%nat by lia. reflexivity.
    - intros [k1 v1] Hin. unfold key_gt. cbn [fst]. unfold Order.ltb.
      destruct (In_nth_error _ _ Hin) as (i & Hi).
      assert (Hil : (i < length pre)%nat) by (apply nth_error_Some; rewrite Hi; discriminate).
      assert (L : cmp c k1 k = Lt).
      { apply (sorted_nth c cok _ i (length pre) k1 v1 k v Hs Hil).
        - rewrite nth_error_app1 by exact Hil. exact Hi.
        - rewrite nth_error_app2 by lia. rewrite Nat.sub_diag. reflexivity. }
      rewrite (cmp_opp c cok k1 k), L. reflexivity.
  Qed.

  Section WithInv.
    Variables (d : db) (A L : list N).
    Hypothesis I : Inv c (tMaxHeight mp) d A L.
    Hypothesis Hsorted : Cursor.sorted c (abs d L).
    Local Notation m := (abs d L).

    (* the cursor stands on the last pair of [pre] (or before the first pair), [rest] is still to come *)
    Definition at_pos (cu : cursor) (pre rest : smap) : Prop :=
      cu_slice cu = None /\ cu_stale cu = false /\ m = pre ++ rest /\
      match pre with
      | [] => cu_cur cu = None /\ cu_fwd cu = false
      | _ => cu_cur cu = Some (last pre ([], []))
      end.

    Lemma drain_ok : forall rest fuel it cu pre, Rit c d L it cu -> at_pos cu pre rest -> (length rest < fuel)%nat ->
      mem_drain uc mp fuel d it = Ok rest.
    Proof.
      induction rest as [|[k v] rest IH]; intros fuel it cu pre R (Hsl & Hst & Em & Hcur) Hf;
        (destruct fuel as [|fuel]; [cbn in Hf; lia|]); cbn [mem_drain].
      - (* nothing left: Next returns false *)
        assert (Ec : exists cu', c_next c m cu = Some cu' /\ cu_cur cu' = None).
        { unfold c_next. destruct pre as [|x pre'].
          - destruct Hcur as [Hc Hfw]. rewrite Hc, Hfw. cbn [negb]. eexists. split; [reflexivity|].
            unfold c_first, cur_at. cbn [cu_cur]. rewrite Hsl, vis_none, Em. reflexivity.
          - rewrite Hcur. destruct (last (x :: pre') ([], [])) as [k v] eqn:El. rewrite Hst.
            eexists. split; [reflexivity|]. unfold cur_at. cbn [cu_cur]. rewrite Hsl, vis_none.
            destruct (exists_last (l := x :: pre') ltac:(discriminate)) as (pp & y & Epp). rewrite Epp in *.
            rewrite last_last in El. subst y. rewrite app_nil_r in Em. rewrite Em.
            rewrite (find_gt_next pp k v []); [reflexivity|]. rewrite <- Em. exact Hsorted. }
        destruct Ec as (cu' & Ec & Hn).
        destruct (it_next_ok c cok mp mpok d A L I it cu cu' R Ec) as (it' & ret & E & R' & Ho).
        rewrite E. cbn [bind fst snd]. unfold cur_out in Ho. rewrite Hn in Ho. injection Ho as -> _ _ _. reflexivity.
      - (* the next pair is (k, v) *)
        assert (Ec : exists cu', c_next c m cu = Some cu' /\ cu_cur cu' = Some (k, v) /\ at_pos cu' (pre ++ [(k, v)]) rest).
        { unfold c_next. destruct pre as [|x pre'].
          - destruct Hcur as [Hc Hfw]. rewrite Hc, Hfw. cbn [negb]. eexists. split; [reflexivity|].
            unfold c_first, cur_at. cbn [cu_cur]. rewrite Hsl, vis_none, Em. cbn [app hd_error].
            split; [reflexivity|]. split; [reflexivity|]. split; [reflexivity|]. split; [exact Em|reflexivity].
          - rewrite Hcur. destruct (last (x :: pre') ([], [])) as [k0 v0] eqn:El. rewrite Hst.
            eexists. split; [reflexivity|]. unfold cur_at. cbn [cu_cur]. rewrite Hsl, vis_none.
            destruct (exists_last (l := x :: pre') ltac:(discriminate)) as (pp & y & Epp). rewrite Epp in *.
            rewrite last_last in El. subst y.
            assert (Eg : s_find_gt c k0 m = Some (k, v)).
            { rewrite Em, <- app_assoc. cbn [app]. rewrite (find_gt_next pp k0 v0 ((k, v) :: rest)); [reflexivity|].
              rewrite <- app_assoc in Em. cbn [app] in Em. rewrite <- Em. exact Hsorted. }
            rewrite Eg. split; [reflexivity|]. split; [reflexivity|]. split; [reflexivity|].
            split; [rewrite Em, <- !app_assoc; reflexivity|].
            destruct ((pp ++ [(k0, v0)]) ++ [(k, v)]) eqn:Q; [destruct pp; discriminate|]. rewrite <- Q, last_last. reflexivity. }
        destruct Ec as (cu' & Ec & Hn & Hpos).
        destruct (it_next_ok c cok mp mpok d A L I it cu cu' R Ec) as (it' & ret & E & R' & Ho).
        rewrite E. cbn [bind fst snd]. unfold cur_out in Ho. rewrite Hn in Ho. injection Ho as -> _ Hk Hv.
        rewrite (IH fuel it' cu' (pre ++ [(k, v)]) R' Hpos ltac:(cbn [length] in Hf; lia)). cbn [bind].
        rewrite Hk, Hv. reflexivity.
    Qed.

    Lemma mem_iter_all_ok : mem_iter_all uc mp d = Some m.
    Proof.
      unfold mem_iter_all.
      rewrite (drain_ok m (S (Z.to_nat (nEnt d))) (new_iter None) (new_cursor None) []).
      - reflexivity.
      - unfold Rit, new_iter, new_cursor. cbn. auto.
      - unfold at_pos, new_cursor. cbn. auto.
      - rewrite (inv_n _ _ _ _ _ I). unfold abs. rewrite map_length. lia.
    Qed.
  End WithInv.
End Drain.

Section MemFacts.
  Variable c : comparer.
  Hypothesis ok : comparer_ok c.
  Variable p : kparams.
  Hypothesis pok : kparams_ok p.
  Hypothesis seek_val : keyTypeSeek p <= keyTypeVal p.
  Variable mp : mparams.
  Hypothesis mpok : mparams_ok mp.

  (* flushMemdb's source: the iterator yields the pairs the read path's abstraction reads *)
  Theorem mem_iter_pairs d : mem_ok c p mp d -> mem_iter_all c mp d = Some (mem_pairs mp d).
  Proof.
    intros [(A & L & I) _].
    rewrite (mem_pairs_abs c p seek_val mp mpok d A L I).
    apply (mem_iter_all_ok c (ibc_ok c ok) mp mpok d A L I).
    rewrite <- (mem_pairs_abs c p seek_val mp mpok d A L I). apply (mem_pairs_sorted c p seek_val mp mpok d A L I).
  Qed.

  (* memdb.New *)
  Theorem mem_new_ok : exists d0, mdb_new mp = Ok d0 /\ mem_ok c p mp d0 /\ mem_pairs mp d0 = [].
  Proof.
    destruct (new_ok (ibc c) mp mpok) as (d0 & E & I & Ea & _). exists d0. split; [exact E|].
    assert (Ep : mem_pairs mp d0 = []) by (rewrite (mem_pairs_abs c p seek_val mp mpok d0 [] [] I); exact Ea).
    split; [|exact Ep]. split; [exists [], []; exact I|]. unfold mem_keys_okb. rewrite Ep. reflexivity.
  Qed.
End MemFacts.
