(* Lsm/WriterExact.v — the writer theorem of property C13 (Codec/TableWriteSnappyProofs.v table_wf_of_write_z) with the
   conclusion the composition of property C01 needs: not only "the opened file is SOME well-formed table" but the
   decomposition the executable format check Codec/TableCheck.v computes — the index block and every data block the reader
   fetches are exactly the blocks blockWriter builds for the pairs (so table_parse returns this decomposition and
   table_wfb accepts it), all below 2^32 bytes, and without a filter generator the reader has no filter.
   The proof is the proof of table_wf_of_write_z (its lemmas are used as they are), kept to the stronger end. *)
From GL Require Import Base.Bytes Base.BytesProofs Base.Varint Base.VarintProofs Base.Order Base.OrderProofs
  Base.Cursor Base.CursorProofs Codec.Block Codec.BlockEnc Codec.BlockProofs Codec.Table Codec.TableProofs
  Codec.TableWriteProofs Codec.TableSizes Codec.TableWriteSnappyProofs Codec.TableCheck Codec.TableCheckProofs.
From Coq Require Import Arith ZArith Lia ZifyN ZifyNat ZifyBool.

Local Open Scope N_scope.

Section Exact.
  Variable tp : tparams.
  Hypothesis tp_ok : tparams_ok tp.
  Variable crc : bytes -> N.
  Hypothesis crc_bound : forall b, crc b < 2 ^ 32.
  Variable compress : bytes -> bytes.
  Variable decompress : bytes -> option bytes.
  Hypothesis codec_ok : forall x, decompress (compress x) = Some x.
  Hypothesis compress_ne : forall x, compress x <> [].
  Variable fcontains : bytes -> N -> bytes -> bool.
  Variable c : comparer.
  Hypothesis c_ok : comparer_ok c.
  Hypothesis empty_least : forall k, cmp c [] k <> Gt.
  Variable blockSize : N.
  Variable ri : N.
  Hypothesis ri_pos : 1 <= ri.
  Variable fgen : option (bytes * (list (N * list bytes) -> bytes)).
  Variable snappy : bool.

  Local Notation wbytes := (wbytes tp crc compress ri snappy).
  Local Notation plen := (plen tp crc compress ri snappy).
  Local Notation handles_from := (handles_from tp crc compress ri snappy).
  Local Notation out_of := (out_of tp crc compress ri snappy).
  Local Notation zbytes := (zbytes tp crc compress).
  Local Notation zlen := (zlen tp crc compress).

  Ltac wrap L := (unshelve eapply L); try eassumption; try exact fcontains; try exact blockSize.

  Local Lemma plen_pos_x b : plen b <> 0.
  Proof. wrap plen_pos_z. Qed.
  Local Lemma zbytes_len_x sn content : lenN (zbytes sn content) = zlen sn content + 5.
  Proof. wrap zbytes_len. Qed.
  Local Lemma handles_nth_x bl off j : (j < length bl)%nat ->
    nth j (handles_from off bl) bh0 = mkBH (off + lenN (out_of (firstn j bl))) (plen (nth j bl [])).
  Proof. intros H. wrap handles_nth_z. Qed.
  Local Lemma wbytes_len_x b : lenN (wbytes b) = plen b + 5.
  Proof. wrap wbytes_len_z. Qed.
  Local Lemma out_of_firstn_le_x bl i j : (i <= j)%nat -> lenN (out_of (firstn i bl)) <= lenN (out_of (firstn j bl)).
  Proof. intros H. wrap out_of_firstn_le_z. Qed.
  Local Lemma out_of_firstn_le_all_x bl j : lenN (out_of (firstn j bl)) <= lenN (out_of bl).
  Proof. wrap out_of_firstn_le_all_z. Qed.
  Local Lemma out_of_split_x bl j : (j < length bl)%nat ->
    out_of bl = out_of (firstn j bl) ++ wbytes (nth j bl []) ++ out_of (skipn (S j) bl).
  Proof. apply out_of_split_z. Qed.
  Local Lemma wb_x off content sn :
    write_block tp crc compress off content sn = (zbytes sn content, mkBH off (zlen sn content)).
  Proof. apply wb_z. Qed.
  Local Lemma fetch_written_x bl rest j vf : (j < length bl)%nat ->
    lenN (out_of bl ++ rest) < 2 ^ 32 -> lenN (block_build ri (nth j bl [])) < 2 ^ 32 ->
    read_block_at tp crc decompress (out_of bl ++ rest) (nth j (handles_from 0 bl) bh0) vf
    = Ok (built ri (nth j bl [])).
  Proof. intros H1 H2 H3. wrap fetch_written_z. Qed.
  Local Lemma tw_close_shape_x w w2 :
    w2 = tw_final tp crc compress c snappy w ->
    tw_data w2 = mkBW [] 0 [] [] ->
    exists F ml,
      (tw_close tp crc compress c ri snappy fgen w =
      let out3 := tw_out w2 ++ F in
      let M := block_build ri ml in
      let I := bw_finish (tw_index w2) in
      let metaBH := mkBH (lenN out3) (zlen snappy M) in
      let indexBH := mkBH (lenN (out3 ++ zbytes snappy M)) (zlen snappy I) in
      ((out3 ++ zbytes snappy M) ++ zbytes snappy I) ++ foot_of tp metaBH indexBH) /\
      (ml = [] \/ exists wname gen fl, fgen = Some (wname, gen) /\
                    ml = [(filter_prefix ++ wname, encode_bh (mkBH (lenN (tw_out w2)) fl))] /\ lenN F = fl + 5).
  Proof. intros H1 H2. wrap tw_close_shape_z. Qed.

  Theorem table_written_exact kvs file fname verify :
    sorted c kvs ->
    twrite tp crc compress c blockSize ri snappy fgen kvs = Some file ->
    lenN file < 2 ^ 32 ->
    table_sizes_ok tp crc compress c blockSize ri snappy fgen kvs = true ->
    exists blocks seps hs,
      let rd := open_table tp crc decompress fcontains c file fname verify in
      table_wf c rd blocks seps hs /\
      tkvs blocks = kvs /\
      tr_index rd = Ok (built 1 (ientries seps hs)) /\
      lenN (block_build 1 (ientries seps hs)) < 2 ^ 32 /\
      (forall j, (j < length blocks)%nat ->
         tr_fetch rd (nth j hs bh0) = Ok (built ri (nth j blocks [])) /\
         lenN (block_build ri (nth j blocks [])) < 2 ^ 32) /\
      (fgen = None -> tr_filter rd = None).
  Proof.
    intros Hsorted Hw Hsize Hok. unfold twrite in Hw.
    destruct (append_all_inv tp crc compress c c_ok empty_least blockSize ri ri_pos snappy plen_pos_x kvs
                tw_empty (mkG [] [] []) (winv_empty tp crc compress c ri ri_pos snappy) Hsorted)
      as (w & g & Ew & Hinv & Ecat).
    cbn [g_done g_cur concat app] in Ecat.
    rewrite Ew in Hw. cbn [option_map] in Hw. injection Hw as Hfile.
    (* the size condition *)
    unfold table_sizes_ok, index_len in Hok. rewrite Ew in Hok. cbn [option_map] in Hok.
    apply andb_prop in Hok as [Hok Hname]. apply andb_prop in Hok as [Hkv Hidx].
    apply N.ltb_lt in Hkv, Hidx.
    destruct (close_state tp crc compress c c_ok empty_least ri ri_pos snappy plen_pos_x w g Hinv) as (bl & seps & Hcl & Ebl).
    cbv zeta in Hcl.
    set (w2 := tw_final tp crc compress c snappy w) in *.
    change (tw_flush_pending c (if (0 <? bw_n (tw_data w)) || (tw_n w =? 0) then tw_finish_block tp crc compress snappy w else w) [])
      with w2 in Hcl.
    destruct (tw_close_shape_x w w2 eq_refl (cl_data _ _ _ _ _ _ _ _ _ Hcl)) as (F & ml & Eshape & Hml).
    rewrite Eshape in Hfile. cbv zeta in Hfile.
    rewrite (cl_index _ _ _ _ _ _ _ _ _ Hcl) in Hidx.
    rewrite (cl_out _ _ _ _ _ _ _ _ _ Hcl), (cl_index _ _ _ _ _ _ _ _ _ Hcl) in Hfile.
    set (hs := handles_from 0 bl) in *.
    set (out3 := out_of bl ++ F) in *.
    set (M := block_build ri ml) in *.
    set (I := bw_finish (TableWriteProofs.index_of seps hs)) in *.
    set (metaBH := mkBH (lenN out3) (zlen snappy M)) in *.
    set (indexBH := mkBH (lenN (out3 ++ zbytes snappy M)) (zlen snappy I)) in *.
    assert (EI : I = block_build 1 (ientries seps hs)) by reflexivity.
    assert (B64 : 2 ^ 32 < 2 ^ 64) by (apply N.pow_lt_mono_r; lia).
    assert (B62 : 2 ^ 32 < 2 ^ 62) by (apply N.pow_lt_mono_r; lia).
    (* sizes of the parts *)
    assert (Hparts : lenN file = lenN (out_of bl) + lenN F + (zlen snappy M + 5) + (zlen snappy I + 5) + tp_footerLen tp).
    { rewrite <- Hfile. rewrite !lenN_app, (foot_len tp tp_ok fcontains ri ri_pos), !zbytes_len_x. unfold out3. rewrite lenN_app. lia. }
    (* the uncompressed blocks are below 2^32 *)
    assert (HMsz : lenN M < 2 ^ 32).
    { pose proof (block_build_len_le ri ml) as Hle. fold M in Hle.
      destruct Hml as [-> | (wname & gen & fl & Efg & -> & _)]; [cbn [kvsize fold_right] in Hle; lia|].
      rewrite Efg in Hname. apply N.ltb_lt in Hname.
      cbn [kvsize fold_right fst snd] in Hle. rewrite lenN_app in Hle.
      pose proof (encode_bh_len (mkBH (lenN (tw_out w2)) fl)). change (lenN filter_prefix) with 7 in Hle. lia. }
    assert (Hdsz : forall j, (j < length bl)%nat -> lenN (block_build ri (nth j bl [])) < 2 ^ 32).
    { intros j Hj. pose proof (block_build_len_le ri (nth j bl [])). pose proof (kvsize_nth bl j Hj) as Hk.
      rewrite Ebl, Ecat in Hk. lia. }
    (* the metaindex block reads back *)
    assert (HM : read_block_at tp crc decompress file metaBH true = Ok (built ri ml)).
    { rewrite <- Hfile. rewrite <- !app_assoc.
      pose proof (read_wblock tp tp_ok crc crc_bound compress decompress codec_ok out3 M
                    (zbytes snappy I ++ foot_of tp metaBH indexBH) snappy true) as R.
      cbv zeta in R. rewrite (wb_x (lenN out3) M snappy) in R. cbn [fst snd] in R. fold metaBH in R.
      unfold read_block_at. rewrite R by (rewrite zbytes_len_x; lia). cbn [bind_res].
      apply read_block_build; [exact ri_pos | exact HMsz]. }
    (* the index block reads back *)
    assert (HI : read_block_at tp crc decompress file indexBH true = Ok (built 1 (ientries seps hs))).
    { rewrite <- Hfile. rewrite <- (app_assoc (out3 ++ zbytes snappy M)).
      pose proof (read_wblock tp tp_ok crc crc_bound compress decompress codec_ok (out3 ++ zbytes snappy M) I
                    (foot_of tp metaBH indexBH) snappy true) as R.
      cbv zeta in R. rewrite (wb_x (lenN (out3 ++ zbytes snappy M)) I snappy) in R. cbn [fst snd] in R. fold indexBH in R.
      unfold read_block_at. rewrite R by (rewrite zbytes_len_x; lia). cbn [bind_res]. rewrite EI.
      apply read_block_build; [lia | rewrite <- EI; exact Hidx]. }
    (* NewReader *)
    assert (Hopen : exists filt dataEnd,
              open_table tp crc decompress fcontains c file fname verify =
                mkTR (read_block_at tp crc decompress file indexBH true)
                     (fun h => read_block_at tp crc decompress file h verify) filt dataEnd /\
              lenN (out_of bl) <= dataEnd /\ (fgen = None -> filt = None)).
    { pose proof (open_written tp tp_ok crc crc_bound compress decompress codec_ok fcontains c empty_least ri ri_pos ((out3 ++ zbytes snappy M) ++ zbytes snappy I) (built ri ml) metaBH indexBH fname verify) as Eo.
      cbv zeta in Eo. rewrite Hfile in Eo.
      assert (P1 : bh_off metaBH < 2 ^ 64) by (cbn [metaBH bh_off]; unfold out3; rewrite lenN_app; lia).
      assert (P2 : bh_len metaBH < 2 ^ 64) by (cbn [metaBH bh_len]; lia).
      assert (P3 : bh_off indexBH < 2 ^ 64) by (cbn [indexBH bh_off]; rewrite lenN_app, zbytes_len_x; unfold out3; rewrite lenN_app; lia).
      assert (P4 : bh_len indexBH < 2 ^ 64) by (cbn [indexBH bh_len]; lia).
      specialize (Eo P1 P2 P3 P4 HM).
      rewrite Eo.
      destruct fname as [name|].
      - pose proof Hml as Hml0. destruct Hml as [Eml | (wname & gen & fl & _ & Eml & HF)].
        + destruct (meta_scan_built crc crc_bound compress decompress codec_ok fcontains c empty_least ri ri_pos ml name [] (mkBH 0 0) ltac:(fold M; lia) ltac:(cbn; lia) ltac:(cbn; lia) (or_introl Eml)) as [E|E].
          * rewrite E. eexists. eexists. split; [reflexivity|]. split; [cbn [metaBH bh_off]; unfold out3; rewrite lenN_app; lia | reflexivity].
          * exfalso. rewrite Eml in E. cbv in E. discriminate.
        + assert (Hfg : fgen <> None) by (destruct Hml0 as [Eml0 | (wn0 & g0 & f0 & Efg0 & _)]; [rewrite Eml0 in Eml; discriminate | rewrite Efg0; discriminate]).
          rewrite (cl_out _ _ _ _ _ _ _ _ _ Hcl) in Eml.
          destruct (meta_scan_built crc crc_bound compress decompress codec_ok fcontains c empty_least ri ri_pos ml name wname (mkBH (lenN (out_of bl)) fl) ltac:(fold M; lia) ltac:(cbn [bh_off]; lia) ltac:(cbn [bh_len]; lia) (or_intror Eml)) as [E|E].
          * rewrite E. eexists. eexists. split; [reflexivity|]. split; [cbn [metaBH bh_off]; unfold out3; rewrite lenN_app; lia | reflexivity].
          * rewrite E. eexists. eexists. split; [reflexivity|]. split; [cbn [bh_off]; lia | intros Q; contradiction].
      - eexists. eexists. split; [reflexivity|]. split; [cbn [metaBH bh_off]; unfold out3; rewrite lenN_app; lia | reflexivity]. }
    destruct Hopen as (filt & dataEnd & Hopen & HdE & Hfilt).
    pose proof (cl_len _ _ _ _ _ _ _ _ _ Hcl) as Hlen.
    pose proof (cl_ne _ _ _ _ _ _ _ _ _ Hcl) as Hblne.
    assert (Hhl : length hs = length bl) by (unfold hs; apply handles_from_length).
    assert (Hsort : sorted c (concat bl)) by (rewrite Ebl, Ecat; exact Hsorted).
    assert (Hsb : forall j, (j < length bl)%nat -> sorted c (nth j bl [])).
    { intros j Hj. rewrite (concat_split bl j Hj) in Hsort. apply (sorted_infix crc crc_bound compress decompress codec_ok fcontains c c_ok empty_least ri ri_pos _ _ _ Hsort). }
    exists bl, seps, hs. cbv zeta. rewrite Hopen. cbn [tr_index tr_fetch tr_filter tr_dataEnd].
    split; [|split; [unfold tkvs; rewrite Ebl, Ecat; reflexivity|split; [exact HI|split; [rewrite <- EI; exact Hidx|split; [|exact Hfilt]]]]].
    2:{ intros j Hj. split; [|apply Hdsz; exact Hj]. rewrite <- Hfile. unfold out3. rewrite <- !app_assoc.
        apply fetch_written_x; [exact Hj| |apply Hdsz; exact Hj].
        rewrite !app_assoc. fold out3. rewrite Hfile. exact Hsize. }
    constructor; cbn [tr_index tr_fetch tr_filter tr_dataEnd].
    - exact Hlen.
    - exact Hhl.
    - destruct bl; [congruence | cbn; lia].
    - exists (built 1 (ientries seps hs)). split; [exact HI|].
      exists (b_off 1 (ientries seps hs)), (b_ris 1 (ientries seps hs)).
      apply build_layout; [lia | rewrite <- EI; exact Hidx].
    - intros j Hj. exists (built ri (nth j bl [])). split.
      + rewrite <- Hfile. unfold out3. rewrite <- !app_assoc.
        apply fetch_written_x; [exact Hj| |apply Hdsz; exact Hj].
        rewrite !app_assoc. fold out3. rewrite Hfile. exact Hsize.
      + exists (b_off ri (nth j bl [])), (b_ris ri (nth j bl [])).
        apply build_layout; [exact ri_pos|apply Hdsz; exact Hj].
    - intros j Hj. unfold hs. rewrite (handles_nth_x bl 0 j Hj). cbn [bh_off bh_len].
      pose proof (out_of_firstn_le_all_x bl j). pose proof (out_of_split_x bl j Hj) as Es. apply (f_equal (@lenN N)) in Es.
      rewrite !lenN_app, wbytes_len_x in Es. split; lia.
    - exact Hsort.
    - destruct (cl_blocks _ _ _ _ _ _ _ _ _ Hcl) as [H|H]; [left | right; exact H].
      intros j Hj. rewrite Forall_forall in H. apply H. apply nth_In. exact Hj.
    - intros j x Hj Hin. destruct (cl_law _ _ _ _ _ _ _ _ _ Hcl j Hj) as [H1 _].
      apply (OrderProofs.le_trans c c_ok _ (lk (nth j bl []))); [|exact H1].
      apply (sorted_le_lk tp crc compress fcontains c c_ok empty_least ri ri_pos); [apply Hsb; exact Hj | exact Hin].
    - intros j x Hj Hin. destruct (cl_law _ _ _ _ _ _ _ _ _ Hcl j ltac:(lia)) as [_ H2]. specialize (H2 Hj).
      apply (OrderProofs.lt_le_trans c c_ok _ (fk (nth (S j) bl []))); [exact H2|].
      apply (sorted_fk_le crc crc_bound compress decompress codec_ok fcontains c c_ok empty_least ri ri_pos); [apply Hsb; exact Hj | exact Hin].
    - intros i j Hij Hj. unfold hs. rewrite (handles_nth_x bl 0 i ltac:(lia)), (handles_nth_x bl 0 j Hj). cbn [bh_off].
      pose proof (out_of_firstn_le_x bl i j Hij). lia.
    - intros j Hj. unfold hs. rewrite (handles_nth_x bl 0 j Hj). cbn [bh_off].
      pose proof (out_of_firstn_le_all_x bl j). lia.
  Qed.
End Exact.

(* ------------------------------------------------------------------ from the exact facts to the executable check *)
Lemma block_eqb_refl b : block_eqb b b = true.
Proof.
  unfold block_eqb. rewrite !N.eqb_refl, !andb_true_r. apply beq_eq. reflexivity.
Qed.

Lemma is_built_built ri kvs : 1 <= ri -> lenN (block_build ri kvs) < 2 ^ 32 -> is_built ri kvs (built ri kvs) = true.
Proof.
  intros Hri Hsz. unfold is_built. rewrite (read_block_build ri kvs Hri Hsz), block_eqb_refl.
  change two32 with (2 ^ 32). replace (lenN (block_build ri kvs) <? 2 ^ 32) with true by lia. reflexivity.
Qed.

Lemma block_entries_built ri kvs : 1 <= ri -> lenN (block_build ri kvs) < 2 ^ 32 -> block_entries (built ri kvs) = Ok kvs.
Proof. intros Hri Hsz. apply (block_entries_spec kvs _ _ _ (build_layout ri kvs Hri Hsz)). Qed.

Lemma sortedb_from_complete c k l : sorted_from c k l -> TableCheck.sortedb_from c k l = true.
Proof.
  revert k. induction l as [|[k' v'] r IH]; intros k H; cbn [sorted_from TableCheck.sortedb_from] in *; [reflexivity|].
  destruct H as [H1 H2]. unfold Order.ltb. rewrite H1. cbn [andb]. apply IH. exact H2.
Qed.

Lemma sortedb_complete c l : sorted c l -> TableCheck.sortedb c l = true.
Proof. destruct l as [|[k v] r]; cbn [sorted TableCheck.sortedb]; [reflexivity | apply sortedb_from_complete]. Qed.

Lemma decode_handles_combine (seps : list bytes) : forall (hs : list bhandle), length seps = length hs ->
  (forall h, In h hs -> bh_off h < 2 ^ 64 /\ bh_len h < 2 ^ 64) ->
  decode_handles (combine seps (map encode_bh hs)) = Some hs.
Proof.
  induction seps as [|s seps IH]; intros [|h hs] Hl Hb; cbn [length] in Hl; try lia; [reflexivity|].
  cbn [map combine decode_handles].
  destruct (Hb h (or_introl eq_refl)) as [H1 H2]. rewrite (decode_encode_bh h H1 H2).
  assert (E : beq (encode_bh h) (encode_bh h) = true) by (apply beq_eq; reflexivity). rewrite E.
  rewrite IH; [reflexivity | lia | intros h' Hh'; apply Hb; right; exact Hh'].
Qed.

Lemma map_fst_combine {A B} (a : list A) : forall (b : list B), length a = length b -> map fst (combine a b) = a.
Proof.
  induction a as [|x a IH]; intros [|y b] Hl; cbn [length] in Hl; try lia; [reflexivity|].
  cbn [combine map fst]. f_equal. apply IH. lia.
Qed.

Lemma fetch_all_exact rd ri : forall (hs : list bhandle) (bl : list (list (bytes * bytes))), length hs = length bl -> 1 <= ri ->
  (forall j, (j < length bl)%nat -> tr_fetch rd (nth j hs bh0) = Ok (built ri (nth j bl [])) /\
                                   lenN (block_build ri (nth j bl [])) < 2 ^ 32) ->
  fetch_all rd hs = Some bl.
Proof.
  induction hs as [|h hs IH]; intros [|b bl] Hl Hri H; cbn [length] in Hl; try lia; [reflexivity|].
  cbn [fetch_all]. destruct (H 0%nat ltac:(cbn; lia)) as [E0 S0]. cbn [nth] in E0, S0.
  rewrite E0, (block_entries_built ri b Hri S0).
  rewrite (IH bl); [reflexivity | lia | exact Hri |].
  intros j Hj. apply (H (S j)). cbn [length]. lia.
Qed.

Theorem exact_check c rd ri bl seps hs : comparer_ok c -> 1 <= ri ->
  table_wf c rd bl seps hs ->
  tr_index rd = Ok (built 1 (ientries seps hs)) -> lenN (block_build 1 (ientries seps hs)) < 2 ^ 32 ->
  (forall j, (j < length bl)%nat -> tr_fetch rd (nth j hs bh0) = Ok (built ri (nth j bl [])) /\
                                   lenN (block_build ri (nth j bl [])) < 2 ^ 32) ->
  table_parse rd = Some (bl, seps, hs) /\ table_wfb c rd ri bl seps hs = true.
Proof.
  intros Hc Hri W Hidx Hisz Hf.
  pose proof (twf_len_s _ _ _ _ _ W) as Ls. pose proof (twf_len_h _ _ _ _ _ W) as Lh.
  assert (Hb : forall h, In h hs -> bh_off h < 2 ^ 64 /\ bh_len h < 2 ^ 64).
  { intros h Hin. destruct (In_nth _ _ bh0 Hin) as (j & Hj & <-). apply (twf_handles _ _ _ _ _ W). lia. }
  split.
  - unfold table_parse. rewrite Hidx, (block_entries_built 1 _ ltac:(lia) Hisz).
    unfold ientries. rewrite (decode_handles_combine seps hs ltac:(lia) Hb).
    rewrite (fetch_all_exact rd ri hs bl ltac:(lia) Hri Hf). cbn [option_map].
    rewrite map_fst_combine by (rewrite map_length; lia). reflexivity.
  - unfold table_wfb. rewrite Ls, Lh, !Nat.eqb_refl. cbn [andb].
    pose proof (twf_m _ _ _ _ _ W) as Hm. replace (Nat.ltb 0 (length bl)) with true by (symmetry; apply Nat.ltb_lt; exact Hm).
    replace (1 <=? ri) with true by lia. cbn [andb].
    rewrite Hidx. fold (ientries seps hs). rewrite (is_built_built 1 _ ltac:(lia) Hisz). cbn [andb].
    apply andb_true_intro. split; [apply andb_true_intro; split|].
    + apply forallb_forall. intros j Hj. apply in_seq in Hj. assert (Hjm : (j < length bl)%nat) by lia.
      destruct (Hf j Hjm) as [E Sz]. change bh_zero with bh0. rewrite E, (is_built_built ri _ Hri Sz).
      destruct (twf_handles _ _ _ _ _ W j Hjm) as [B1 B2]. change two64 with (2 ^ 64).
      replace (bh_off (nth j hs bh0) <? 2 ^ 64) with true by lia.
      replace (bh_len (nth j hs bh0) <? 2 ^ 64) with true by lia. cbn [andb].
      repeat (apply andb_true_intro; split).
      * apply forallb_forall. intros x Hx. unfold Order.leb.
        pose proof (twf_sep_ge _ _ _ _ _ W j x Hjm Hx) as G. destruct (cmp c (fst x) (nth j seps [])); congruence.
      * apply forallb_forall. intros x Hx. unfold Order.ltb.
        destruct (Nat.lt_ge_cases (S j) (length bl)) as [L|L].
        -- rewrite (twf_sep_lt _ _ _ _ _ W j x L Hx). reflexivity.
        -- rewrite nth_overflow in Hx by lia. destruct Hx.
      * destruct (Nat.ltb (S j) (length bl)) eqn:L; [|reflexivity]. apply Nat.ltb_lt in L.
        pose proof (twf_off_mono _ _ _ _ _ W j (S j) ltac:(lia) L). lia.
      * pose proof (twf_data_end _ _ _ _ _ W j Hjm). lia.
    + apply sortedb_complete. exact (twf_sorted _ _ _ _ _ W).
    + destruct (twf_blocks_ne _ _ _ _ _ W) as [H|H].
      * apply orb_true_intro. left. apply forallb_forall. intros b Hb'.
        destruct (In_nth _ _ [] Hb') as (j & Hj & <-). specialize (H j Hj). destruct (nth j bl []); [congruence|reflexivity].
      * apply orb_true_intro. right. rewrite H. reflexivity.
Qed.
