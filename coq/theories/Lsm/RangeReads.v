(* Lsm/RangeReads.v — the loops of Lsm/RangeCompact.v do not change what a read returns: every table compaction they
   perform (trivial move or rewrite of a model-picked compaction) preserves, for every key, the newest visible entry's
   result at every sequence number >= the compaction's minSeq (ReorgProofs.compaction_preserves through
   C06Steps.model_compaction_admissible); composed over the passes of compact_range and the steps of auto_loop, and
   stated for the read path: api_of (lsm_get ...) on the final version = on the initial one. *)
From GL Require Import Base.Order Base.OrderProofs Codec.IKey Codec.IKeyProofs Lsm.Lsm Lsm.Compact Lsm.LsmProofs
  Lsm.CompactProofs Lsm.History Lsm.HistoryProofs Lsm.ReorgProofs Lsm.WfProofs Lsm.OutputProofs Lsm.Pick Lsm.PickBase
  Lsm.OverlapProofs Lsm.ExpandProofs Lsm.WfLsm Lsm.FinishProofs Lsm.InsertProofs Lsm.StepProofs Lsm.ModelStep
  Lsm.FlushProofs Lsm.C06Steps Lsm.RangeCompact Lsm.RangeStep Lsm.RangeProofs Lsm.AutoProofs.
From Coq Require Import Arith ZArith Lia.

Local Open Scope nat_scope.

Definition lst (v : list (list table)) : lstate := {| st_mem := []; st_frozen := []; st_aux := []; st_levels := v |}.

Section Reads.
  Variable c : comparer.
  Hypothesis ok : comparer_ok c.
  Variable p : kparams.
  Hypothesis pok : kparams_ok p.
  Variable sz : table -> N.

  Notation wf_lsm := (wf_lsm c p).
  Notation res := (History.res p).

  (* the answer of a read of k at s, judged on all stored entries *)
  Definition answer (v : list (list table)) (k : bytes) (s : N) : option bytes :=
    res (newest c k s (LE (concat v)) None).

  Lemma answer_is_get v k s : wf_lsm v -> api_of (lsm_get c p (lst v) k s) = answer v k s.
  Proof.
    intros W. rewrite (get_refines_spec c ok p pok (lst v) k s (wf_lsm_wf_state c p v W)).
    unfold spec_get, answer, History.res, all_entries, all_tables, lst. cbn [st_mem st_frozen st_aux st_levels app].
    reflexivity.
  Qed.

  Lemma in_LE_concat (v : list (list table)) x : In x (LE (concat v)) <-> exists i, In x (LE (lv v i)).
  Proof.
    rewrite LE_in. split.
    - intros [t [Ht Hx]]. destruct (in_concat_lv v t Ht) as [j Hj]. exists j. apply LE_in. exists t. split; assumption.
    - intros [i Hi]. apply LE_in in Hi as [t [Ht Hx]]. exists t. split; [apply (in_level_concat v i t Ht)|exact Hx].
  Qed.

  Lemma uniq_in_version v : wf_lsm v -> uniq_in (LE (concat v)).
  Proof.
    intros W a b Ha Hb Hu Hs. apply in_LE_concat in Ha as [i Ha]. apply in_LE_concat in Hb as [j Hb].
    apply (wf_uniq_global c p v i j a b W Ha Hb Hu Hs).
  Qed.

  (* ---- one table compaction ---- *)
  Variable v : list (list table).
  Hypothesis W : wf_lsm v.
  Variable lvl : nat.
  Variable limit : N.
  Variable seed : list table.
  Hypothesis Sk : seed_ok v lvl seed.
  Variable cm : compaction.
  Hypothesis En : new_compaction c sz v lvl limit seed = POk cm.
  Variable outs : list table.
  Variable nv : list (list table).
  Hypothesis Wn : wf_lsm nv.
  Hypothesis Ef : step_effect v cm outs nv.

  Let t0 := c_t0 cm.
  Let t1 := c_t1 cm.
  Let others := filter (fun t => negb (is_input (nums_of (t0 ++ t1)) t)) (concat v).

  Lemma cm_facts : c_level cm = lvl /\ incl t0 (lv v lvl) /\ incl t1 (lv v (S lvl)).
  Proof.
    destruct Sk as [S1 [S2 S3]]. destruct (model_pick c ok p sz v W lvl limit seed S1 S2 S3) as [cm' [E' Pk]].
    rewrite En in E'. injection E' as <-. split; [apply (pk_level c v lvl seed cm Pk)|].
    split; [apply (pk_t0 c v lvl seed cm Pk)|apply (pk_t1 c v lvl seed cm Pk)].
  Qed.

  (* a live table is an input iff its number is an input number *)
  Lemma is_input_iff t i : In t (lv v i) -> (is_input (nums_of (t0 ++ t1)) t = true <-> In t t0 \/ In t t1).
  Proof.
    intros Ht. destruct cm_facts as [El [I0 I1]]. unfold is_input. rewrite existsb_exists. split.
    - intros [n [Hn E]]. apply N.eqb_eq in E. subst n. unfold nums_of in Hn. apply in_map_iff in Hn as [u [Eu Hu]].
      apply in_app_or in Hu as [Hu|Hu].
      + left. destruct (wl_nums c p v W lvl i u t (I0 u Hu) Ht Eu) as [_ ->]. exact Hu.
      + right. destruct (wl_nums c p v W (S lvl) i u t (I1 u Hu) Ht Eu) as [_ ->]. exact Hu.
    - intros H. exists (t_num t). split; [|apply N.eqb_refl]. unfold nums_of. apply in_map. apply in_or_app. exact H.
  Qed.

  Lemma others_iff t : In t others <-> (exists i, In t (lv v i)) /\ ~ In t t0 /\ ~ In t t1.
  Proof.
    unfold others. rewrite filter_In. split.
    - intros [H1 H2]. destruct (in_concat_lv v t H1) as [i Hi]. split; [exists i; exact Hi|].
      apply Bool.negb_true_iff in H2. split; intros Q; apply Bool.not_true_iff_false in H2; apply H2;
        apply (is_input_iff t i Hi); [left|right]; exact Q.
    - intros [[i Hi] [N0 N1]]. split; [apply (in_level_concat v i t Hi)|]. apply Bool.negb_true_iff.
      apply Bool.not_true_iff_false. intros Q. apply (is_input_iff t i Hi) in Q as [Q|Q]; contradiction.
  Qed.

  (* the tables of the new version: the surviving ones and the outputs *)
  Lemma new_tables t : (exists i, In t (lv nv i)) <-> In t others \/ In t outs.
  Proof.
    destruct cm_facts as [El [I0 I1]].
    destruct Ef as [a [_ [_ [_ [Hoth [HL [HS [HS2 [HO HL2]]]]]]]]]. rewrite El in Hoth, HL, HS, HS2, HO, HL2. split.
    - intros [i Hi]. destruct (Nat.eq_dec i lvl) as [->|Q1]; [|destruct (Nat.eq_dec i (S lvl)) as [->|Q2]].
      + destruct (HL t Hi) as [H1 H2]. left. apply others_iff. split; [exists lvl; exact H1|]. split; [exact H2|].
        intros Q. destruct (wl_nums c p v W lvl (S lvl) t t H1 (I1 t Q) eq_refl) as [Q' _]. lia.
      + destruct (HS t Hi) as [[H1 H2]|H1]; [|right; exact H1]. left. apply others_iff.
        split; [exists (S lvl); exact H1|]. split; [|exact H2].
        intros Q. destruct (wl_nums c p v W lvl (S lvl) t t (I0 t Q) H1 eq_refl) as [Q' _]. lia.
      + rewrite (Hoth i Q1 Q2) in Hi. left. apply others_iff. split; [exists i; exact Hi|]. split; intros Q.
        * destruct (wl_nums c p v W lvl i t t (I0 t Q) Hi eq_refl) as [Q' _]. lia.
        * destruct (wl_nums c p v W (S lvl) i t t (I1 t Q) Hi eq_refl) as [Q' _]. lia.
    - intros [H|H]; [|exists (S lvl); apply HO; exact H]. apply others_iff in H as [[i Hi] [N0 N1]].
      exists i. destruct (Nat.eq_dec i lvl) as [->|Q1]; [|destruct (Nat.eq_dec i (S lvl)) as [->|Q2]].
      + apply HL2; assumption.
      + apply HS2; assumption.
      + rewrite (Hoth i Q1 Q2). exact Hi.
  Qed.

  Lemma new_entries x : In x (LE (concat nv)) <-> In x (LE outs ++ LE others).
  Proof.
    rewrite in_app_iff, !LE_in. split.
    - intros [t [Ht Hx]]. destruct (in_concat_lv nv t Ht) as [i Hi].
      destruct (proj1 (new_tables t) (ex_intro _ i Hi)) as [H|H]; [right|left]; exists t; split; assumption.
    - intros [[t [Ht Hx]]|[t [Ht Hx]]].
      + destruct (proj2 (new_tables t) (or_intror Ht)) as [i Hi]. exists t. split; [apply (in_level_concat nv i t Hi)|exact Hx].
      + destruct (proj2 (new_tables t) (or_introl Ht)) as [i Hi]. exists t. split; [apply (in_level_concat nv i t Hi)|exact Hx].
  Qed.

  Lemma old_entries x : In x (LE (concat v)) <-> In x (LE (t0 ++ t1) ++ LE others).
  Proof.
    destruct cm_facts as [El [I0 I1]]. rewrite in_app_iff, LE_app, in_app_iff, !LE_in. split.
    - intros [t [Ht Hx]]. destruct (in_concat_lv v t Ht) as [i Hi].
      destruct (is_input (nums_of (t0 ++ t1)) t) eqn:Q.
      + apply (is_input_iff t i Hi) in Q as [Q|Q]; left; [left|right]; exists t; split; assumption.
      + right. exists t. split; [|exact Hx]. unfold others. apply filter_In. split; [exact Ht|rewrite Q; reflexivity].
    - intros [[[t [Ht Hx]]|[t [Ht Hx]]]|[t [Ht Hx]]]; exists t; (split; [|exact Hx]).
      + apply (in_level_concat v lvl t (I0 t Ht)).
      + apply (in_level_concat v (S lvl) t (I1 t Ht)).
      + unfold others in Ht. apply filter_In in Ht. apply Ht.
  Qed.

  (* a trivial move: the same entries *)
  Lemma move_preserves k s : outs = t0 -> t1 = [] -> answer nv k s = answer v k s.
  Proof.
    intros Eo E1. unfold answer. f_equal. apply (newest_same_elems c ok k s); [apply (uniq_in_version nv Wn)|].
    intros x. rewrite new_entries, old_entries, Eo, E1, app_nil_r. reflexivity.
  Qed.

  (* a rewrite: outputs = the kept merged entries *)
  Lemma build_preserves minSeq k s : (minSeq < keyMaxSeq p)%N -> (minSeq <= s)%N ->
    LE outs = compact_entries c p minSeq (skipn (lvl + 2) v) (t0 ++ t1) -> answer nv k s = answer v k s.
  Proof.
    intros Hm Hs Eo. unfold answer.
    destruct (model_compaction_admissible c ok p pok sz v lvl limit seed W Sk) as [cm' [E' Adm]].
    rewrite En in E'. injection E' as <-.
    specialize (Adm [] minSeq Hm ltac:(intros a b []) ltac:(intros m i x []) k s Hs). cbv zeta in Adm. cbn [app] in Adm.
    fold t0 t1 in Adm. fold others in Adm.
    rewrite (newest_same_elems c ok k s (LE (concat nv)) (LE outs ++ LE others) (uniq_in_version nv Wn) new_entries).
    rewrite (newest_same_elems c ok k s (LE (concat v)) (LE (t0 ++ t1) ++ LE others) (uniq_in_version v W) old_entries).
    rewrite Eo. exact Adm.
  Qed.
End Reads.

(* ---- composed over the loops ---- *)
Section ReadsLoops.
  Variable c : comparer.
  Hypothesis ok : comparer_ok c.
  Variable p : kparams.
  Hypothesis pok : kparams_ok p.
  Variable sz : table -> N.
  Variable o : copts.
  Variable bld : nat -> list (list table) -> compaction -> list table.
  Variable ms : nat -> N.
  Hypothesis B_ok : bld_ok c p sz o bld ms.
  Hypothesis ms_lt : forall j, (ms j < keyMaxSeq p)%N.

  Notation wf_lsm := (wf_lsm c p).
  Notation answer := (answer c p).

  (* sequence numbers at which no compaction of the run may drop a visible entry: at or above every minSeq *)
  Definition safe_seq (s : N) : Prop := forall j, (ms j <= s)%N.

  Definition same_reads (v v' : list (list table)) : Prop := forall k s, safe_seq s -> answer v' k s = answer v k s.

  Lemma same_reads_refl v : same_reads v v.
  Proof. intros k s _. reflexivity. Qed.

  Lemma same_reads_trans a b d : same_reads a b -> same_reads b d -> same_reads a d.
  Proof. intros H1 H2 k s Hs. rewrite (H2 k s Hs). apply (H1 k s Hs). Qed.

  Lemma table_compaction_reads st lvl seed cm noTrivial st' :
    wf_lsm (cp_v st) -> seed_ok (cp_v st) lvl seed ->
    new_compaction c sz (cp_v st) lvl (o_exp_limit o lvl) seed = POk cm ->
    table_compaction c sz o bld st cm noTrivial = POk st' ->
    wf_lsm (cp_v st') /\ same_reads (cp_v st) (cp_v st').
  Proof.
    intros W Sk En Et.
    destruct (table_compaction_spec c ok p pok sz o bld ms B_ok st lvl seed cm noTrivial W Sk En)
      as [st2 [Et2 [[Wn _] [_ [_ [_ [outs [Ef Ho]]]]]]]].
    rewrite Et in Et2. injection Et2 as <-. split; [exact Wn|]. intros k s Hs.
    destruct Ho as [[_ [T Eo]]|Eo].
    - destruct Sk as [S1 [S2 S3]].
      destruct (trivial_shape sz cm _ T) as [t [E0 E1]].
      apply (move_preserves c ok p sz (cp_v st) W lvl (o_exp_limit o lvl) seed (conj S1 (conj S2 S3)) cm En outs
               (cp_v st') Wn Ef k s Eo E1).
    - destruct (B_ok (cp_n st) (cp_v st) lvl seed cm W Sk En) as [chunks [nums [Eb [[C1 C2] [Hl _]]]]].
      apply (build_preserves c ok p pok sz (cp_v st) W lvl (o_exp_limit o lvl) seed Sk cm En outs (cp_v st') Wn Ef
               (ms (cp_n st)) k s (ms_lt _) (Hs _)).
      rewrite Eo, Eb. unfold LE. rewrite (mk_outputs_entries nums chunks Hl). exact C2.
  Qed.

  Lemma range_levels_reads umin umax : forall n level st log st' log', wf_lsm (cp_v st) ->
    range_levels c sz o bld n level st umin umax log = POk (st', log') ->
    wf_lsm (cp_v st') /\ same_reads (cp_v st) (cp_v st').
  Proof.
    induction n as [|n IH]; intros level st log st' log' W H; cbn [range_levels] in H.
    - injection H as <- _. split; [exact W|apply same_reads_refl].
    - unfold get_compaction_range in H.
      destruct (range_compaction_seed c ok p sz (cp_v st) level umin umax false (o_src_limit o level) (o_exp_limit o level) W)
        as [r [Er Hr]].
      rewrite Er in H. cbn [pbind] in H. destruct r as [cm|]; [|apply (IH _ _ _ _ _ W H)].
      destruct (Hr cm eq_refl) as [seed [Sk En]].
      destruct (table_compaction c sz o bld st cm true) as [st1| |] eqn:Et; cbn [pbind] in H; try discriminate.
      destruct (table_compaction_reads st level seed cm true st1 W Sk En Et) as [W1 R1].
      destruct (IH _ _ _ _ _ W1 H) as [W2 R2]. split; [exact W2|]. apply (same_reads_trans _ _ _ R1 R2).
  Qed.

  Theorem compact_range_reads umin umax : forall fuel st passes st' ps, wf_lsm (cp_v st) ->
    compact_range c p sz o bld fuel st umin umax passes = POk (st', ps) ->
    wf_lsm (cp_v st') /\ same_reads (cp_v st) (cp_v st').
  Proof.
    induction fuel as [|fuel IH]; intros st passes st' ps W H; [discriminate|]. cbn [compact_range] in H.
    unfold range_pass in H.
    destruct (range_levels c sz o bld (range_max_level c p (cp_v st) umin umax) 0 st umin umax []) as [[st1 log]| |] eqn:E1;
      cbn [pbind fst snd] in H; try discriminate.
    destruct (range_levels_reads umin umax _ _ _ _ _ _ W E1) as [W1 R1]. destruct log as [|cm log].
    - injection H as <- _. split; assumption.
    - destruct (IH _ _ _ _ W1 H) as [W2 R2]. split; [exact W2|]. apply (same_reads_trans _ _ _ R1 R2).
  Qed.

  (* the read path itself *)
  Corollary compact_range_get umin umax fuel st st' ps : wf_lsm (cp_v st) ->
    compact_range c p sz o bld fuel st umin umax [] = POk (st', ps) ->
    forall k s, safe_seq s -> api_of (lsm_get c p (lst (cp_v st')) k s) = api_of (lsm_get c p (lst (cp_v st)) k s).
  Proof.
    intros W H k s Hs. destruct (compact_range_reads umin umax fuel st [] st' ps W H) as [W' R].
    rewrite (answer_is_get c ok p pok _ k s W'), (answer_is_get c ok p pok _ k s W). apply (R k s Hs).
  Qed.
  (* the background loop *)
  Lemma auto_step_reads st st' : wf_lsm (cp_v st) -> seek_in st -> need_compaction sz o st = true ->
    auto_step c sz o bld st = POk st' -> wf_lsm (cp_v st') /\ same_reads (cp_v st) (cp_v st') /\ cp_seek st' = None.
  Proof.
    intros W Sk Hn H. unfold auto_step, pick_compaction in H.
    assert (Sk' : seek_ok st (length (cp_v st))).
    { intros l t E. split; [apply (Sk l t E)|]. destruct (Nat.lt_ge_cases l (length (cp_v st))) as [Q|Q]; [exact Q|].
      exfalso. pose proof (Sk l t E) as Hin. unfold lv in Hin. rewrite nth_overflow in Hin by lia. destruct Hin. }
    destruct (pick_seed_spec c sz o st _ Sk' Hn) as [lvl [seed [ty [E [Sok _]]]]]. rewrite E in H. cbn [pbind] in H.
    destruct (new_compaction c sz (cp_v st) lvl (o_exp_limit o lvl) seed) as [cm| |] eqn:En; cbn [pbind] in H; try discriminate.
    destruct (table_compaction_reads st lvl seed cm false st' W Sok En H) as [W' R]. split; [exact W'|]. split; [exact R|].
    destruct (table_compaction_spec c ok p pok sz o bld ms B_ok st lvl seed cm false W Sok En) as [st2 [Et2 [_ [_ [Es _]]]]].
    rewrite H in Et2. injection Et2 as <-. exact Es.
  Qed.

  Theorem auto_loop_reads : forall fuel st st', wf_lsm (cp_v st) -> seek_in st ->
    auto_loop c sz o bld fuel st = POk st' -> wf_lsm (cp_v st') /\ same_reads (cp_v st) (cp_v st').
  Proof.
    induction fuel as [|fuel IH]; intros st st' W Sk H; cbn [auto_loop] in H.
    - destruct (need_compaction sz o st); [discriminate|]. injection H as <-. split; [exact W|apply same_reads_refl].
    - destruct (need_compaction sz o st) eqn:Hn; [|injection H as <-; split; [exact W|apply same_reads_refl]].
      destruct (auto_step c sz o bld st) as [st1| |] eqn:E1; cbn [pbind] in H; try discriminate.
      destruct (auto_step_reads st st1 W Sk Hn E1) as [W1 [R1 S1]].
      destruct (IH st1 st' W1 ltac:(intros l t Q; rewrite S1 in Q; discriminate) H) as [W2 R2].
      split; [exact W2|]. apply (same_reads_trans _ _ _ R1 R2).
  Qed.
End ReadsLoops.

(* ---- what CompactRange leaves behind, in one statement ---- *)
Section Post.
  Variable c : comparer.
  Hypothesis ok : comparer_ok c.
  Variable p : kparams.
  Hypothesis pok : kparams_ok p.
  Variable sz : table -> N.
  Variable o : copts.
  Variable bld : nat -> list (list table) -> compaction -> list table.
  Variable ms : nat -> N.
  Hypothesis B_ok : bld_ok c p sz o bld ms.
  Hypothesis ms_lt : forall j, (ms j < keyMaxSeq p)%N.

  (* tFiles.overlaps (the sorted variant) answering false means no table of an ordered level overlaps *)
  Lemma files_overlaps_clear tf umin umax :
    (forall t, In t tf -> tbl_ok c p t) -> level_sorted c tf ->
    (forall t, In t tf -> (e_seq (t_hi t) <= keyMaxSeq p)%N) ->
    files_overlaps c p tf umin umax false = false -> forall t, In t tf -> t_overlaps c t umin umax = false.
  Proof.
    intros Hok Hs Hseq H t Ht. destruct umin as [m|].
    - apply (files_overlaps_sorted c ok p pok sz tf Hok Hs Hseq m umax H t Ht).
    - unfold files_overlaps in H. destruct (Nat.leb (length tf) 0) eqn:Q.
      { apply Nat.leb_le in Q. destruct tf; [destruct Ht|cbn in Q; lia]. }
      apply Bool.negb_false_iff in H. destruct umax as [M|]; [|discriminate].
      apply (t_before_some c) in H. unfold t_overlaps. cbn [t_after negb andb].
      assert (B : t_before c t (Some M) = true).
      { apply (t_before_some c). apply (in_nth_ex no_table) in Ht as [j [Hj Ej]]. rewrite <- Ej.
        eapply (OrderProofs.lt_le_trans c ok); [exact H|].
        apply (bsorted_umin_mono c ok p tf 0 j Hok (level_sorted_bsorted c p tf Hok Hs) ltac:(lia) Hj). }
      rewrite B. reflexivity.
  Qed.

  Theorem compact_range_post_full st umin umax fuel st' passes : wf_lsm c p (cp_v st) ->
    compact_range c p sz o bld fuel st umin umax [] = POk (st', passes) ->
    wf_lsm c p (cp_v st') /\
    (let m := range_max_level c p (cp_v st') umin umax in
     (forall l t, l < m -> In t (lv (cp_v st') l) -> t_overlaps c t umin umax = false) /\
     (forall l, m < l -> files_overlaps c p (lv (cp_v st') l) umin umax false = false) /\
     (forall l t, m < l -> (forall u, In u (lv (cp_v st') l) -> (e_seq (t_hi u) <= keyMaxSeq p)%N) ->
        In t (lv (cp_v st') l) -> t_overlaps c t umin umax = false) /\
     last passes (0, []) = (m, [])) /\
    levels_below (cp_v st') (S (range_depth (cp_v st))) /\
    (forall k s, safe_seq ms s -> api_of (lsm_get c p (lst (cp_v st')) k s) = api_of (lsm_get c p (lst (cp_v st)) k s)).
  Proof.
    intros W E.
    destruct (compact_range_post c ok p pok sz o bld ms B_ok st umin umax fuel st' passes W E) as [W' [P Hb]].
    split; [exact W'|]. split; [|split; [exact Hb|apply (compact_range_get c ok p pok sz o bld ms B_ok ms_lt umin umax fuel st st' passes W E)]].
    cbv zeta in *. destruct P as [P1 [P2 P3]]. split; [exact P1|]. split; [exact P2|]. split; [|exact P3].
    intros l t Hl Hseq Ht.
    apply (files_overlaps_clear (lv (cp_v st') l) umin umax); try assumption.
    - intros u Hu. apply (wl_tbl c p _ W' l u Hu).
    - apply (wl_deep c p _ W'). lia.
    - apply P2. exact Hl.
  Qed.

  Theorem auto_loop_get fuel st st' : wf_lsm c p (cp_v st) -> seek_in st ->
    auto_loop c sz o bld fuel st = POk st' ->
    forall k s, safe_seq ms s -> api_of (lsm_get c p (lst (cp_v st')) k s) = api_of (lsm_get c p (lst (cp_v st)) k s).
  Proof.
    intros W Sk H k s Hs. destruct (auto_loop_reads c ok p pok sz o bld ms B_ok ms_lt fuel st st' W Sk H) as [W' R].
    rewrite (answer_is_get c ok p pok _ k s W'), (answer_is_get c ok p pok _ k s W). apply (R k s Hs).
  Qed.

  (* the compaction pointer of the source level is the compaction's imax afterwards *)
  Theorem comp_ptr_advances st lvl seed cm noTrivial st' :
    wf_lsm c p (cp_v st) -> seed_ok (cp_v st) lvl seed ->
    new_compaction c sz (cp_v st) lvl (o_exp_limit o lvl) seed = POk cm ->
    table_compaction c sz o bld st cm noTrivial = POk st' ->
    get_ptr (cp_ptrs st') lvl = Some (c_imax cm) /\ forall l, l <> lvl -> get_ptr (cp_ptrs st') l = get_ptr (cp_ptrs st) l.
  Proof.
    intros W Sk En Et.
    destruct (table_compaction_spec c ok p pok sz o bld ms B_ok st lvl seed cm noTrivial W Sk En) as [st2 [Et2 [_ [_ [_ [Ep _]]]]]].
    rewrite Et in Et2. injection Et2 as <-. rewrite Ep. split; [apply get_set_ptr|]. intros l Hl. apply get_set_ptr_other. exact Hl.
  Qed.
End Post.

(* ---- the refutation of unconditional quiescence, for ALL fuel ----
   Flat level limits: every level may hold [lim] bytes; a size function under which no live table is lighter than
   that.  From a well-formed version with an empty level 0, no cSeek and a readable key, the background loop never
   stops: reads are preserved by every step, so some table always exists; level 0 stays empty (nothing moves up), so
   that table lives in a level >= 1, whose score is >= 1. *)
Section NeverIdle.
  Variable c : comparer.
  Hypothesis ok : comparer_ok c.
  Variable p : kparams.
  Hypothesis pok : kparams_ok p.
  Variable sz : table -> N.
  Variable o : copts.
  Variable bld : nat -> list (list table) -> compaction -> list table.
  Variable ms : nat -> N.
  Hypothesis B_ok : bld_ok c p sz o bld ms.
  Hypothesis ms_lt : forall j, (ms j < keyMaxSeq p)%N.

  Variable lim : N.
  Hypothesis lim_pos : (0 < lim)%N.
  Hypothesis flat : forall l, o_tot_limit o l = Z.of_N lim.
  Hypothesis heavy : forall t, t_entries t <> [] -> (lim <= sz t)%N.

  Variable k0 : bytes.
  Variable s0 : N.
  Hypothesis s0_safe : safe_seq ms s0.
  Variable val : bytes.

  Definition restless (st : cpstate) : Prop :=
    wf_lsm c p (cp_v st) /\ cp_seek st = None /\ lv (cp_v st) 0 = [] /\ answer c p (cp_v st) k0 s0 = Some val.

  Lemma restless_needs st : restless st -> need_compaction sz o st = true.
  Proof.
    intros [W [_ [L0 A]]]. unfold need_compaction. apply Bool.orb_true_iff. left.
    destruct (compute_compaction_spec sz o (cp_v st)) as [_ D]. cbv zeta in D.
    unfold answer in A. destruct (LE (concat (cp_v st))) as [|x r] eqn:El; [discriminate|].
    assert (Hx : In x (LE (concat (cp_v st)))) by (rewrite El; left; reflexivity).
    apply in_LE_concat in Hx as [i Hi]. apply LE_in in Hi as [t [Ht Hxt]].
    assert (Hi0 : i <> 0) by (intros ->; rewrite L0 in Ht; destruct Ht).
    apply (D i). unfold RangeCompact.level_score. replace (Nat.eqb i 0) with false by (symmetry; apply Nat.eqb_neq; exact Hi0).
    rewrite flat. apply sc_ge1_big; [lia|].
    assert (Hs : (lim <= total_size sz (lv (cp_v st) i))%N).
    { destruct (wl_tbl c p _ W i t Ht) as [_ Hne]. pose proof (heavy t Hne) as Hh.
      clear -Ht Hh. induction (lv (cp_v st) i) as [|u l IH]; [destruct Ht|]. rewrite total_size_cons.
      destruct Ht as [->|Ht]; [lia|specialize (IH Ht); lia]. }
    lia.
  Qed.

  Lemma restless_step st : restless st -> exists st', auto_step c sz o bld st = POk st' /\ restless st'.
  Proof.
    intros R. pose proof (restless_needs st R) as Hn. destruct R as [W [Sn [L0 A]]].
    assert (Sk : seek_in st) by (intros l t E; rewrite Sn in E; discriminate).
    assert (Sk' : seek_ok st 0) by (intros l t E; rewrite Sn in E; discriminate).
    unfold auto_step, pick_compaction.
    destruct (pick_seed_spec c sz o st 0 Sk' Hn) as [lvl [seed [ty [E [Sok _]]]]].
    pose proof Sok as [S1 [S2 S3]].
    destruct (model_pick c ok p sz (cp_v st) W lvl (o_exp_limit o lvl) seed S1 S2 S3) as [cm [En _]].
    destruct (table_compaction_spec c ok p pok sz o bld ms B_ok st lvl seed cm false W Sok En)
      as [st' [Et [[Wn [a [_ [_ [_ Hoth]]]]] [_ [Es _]]]]].
    assert (Est : auto_step c sz o bld st = POk st').
    { unfold auto_step, pick_compaction. rewrite E. cbn [pbind]. rewrite En. cbn [pbind]. exact Et. }
    exists st'. split; [exact Est|].
    destruct (auto_step_reads c ok p pok sz o bld ms B_ok ms_lt st st' W Sk Hn Est) as [_ [Rd _]].
    split; [exact Wn|]. split; [exact Es|]. split.
    - assert (Hl : lvl <> 0).
      { intros ->. destruct seed as [|u r]; [congruence|]. specialize (S2 u (or_introl eq_refl)). rewrite L0 in S2. destruct S2. }
      rewrite (Hoth 0) by lia. exact L0.
    - rewrite (Rd k0 s0 s0_safe). exact A.
  Qed.

  Theorem flat_limits_never_idle : forall fuel st, restless st -> auto_loop c sz o bld fuel st = POutOfFuel.
  Proof.
    induction fuel as [|fuel IH]; intros st R; cbn [auto_loop]; rewrite (restless_needs st R); [reflexivity|].
    destruct (restless_step st R) as [st' [E R']]. rewrite E. cbn [pbind]. apply (IH st' R').
  Qed.
End NeverIdle.
