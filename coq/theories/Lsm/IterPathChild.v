(* Lsm/IterPathChild.v — the children of the DB's merged iterator behave like cursors (proof file):
   (1) the memdb iterator of Mem/MemDB.v over a memdb state satisfying C14's representation invariant
       refines the cursor over the pairs of the skip list inside the slice, never panics and never runs
       out of fuel (C14's per-call lemmas Mem/MemIter.v it_first_ok ... it_prev_ok, used as they stand);
   (2) the table iterator of Codec/Table.v over a reader satisfying C13's table_wf refines the cursor over
       the table's pairs inside the slice (C13's table_iter_refines / table_iter_range_refines).
   Both in the vocabulary of Iter/Cursor.v ([refines]) so that the merged / indexed machines of C02 apply. *)
From GL Require Import Base.Bytes Base.Order Base.OrderProofs Codec.IKey Codec.Block Codec.Table Codec.TableProofs
  Codec.TableIterProofs Codec.TableEmptyProofs Lsm.ReadPath Lsm.ReadPathKey Lsm.ReadPathMem Lsm.IterPath.
From GL Require Base.Cursor.
From GL Require Import Mem.MemDB Mem.MemSpec Mem.MemInv Mem.MemIter Mem.MemOps Mem.MemSpecProofs.
From GL Require Import Iter.Cursor Iter.CursorProofs Iter.CursorBridge Iter.LiveProofs.
From Coq Require Import Lia Arith.

(* ------------------------------------------------------------------ slices in the three vocabularies *)
Section Slices.
  Variable c : comparer.
  Hypothesis ok : comparer_ok c.

  Lemma in_range_bridge sl (kv : bytes * bytes) :
    MemSpec.in_range c sl (fst kv) =
    match sl with None => true | Some (a, b) => Base.Cursor.in_range c a b kv end.
  Proof.
    destruct sl as [[a b]|]; [|reflexivity]. unfold MemSpec.in_range, Base.Cursor.in_range. f_equal.
    destruct a as [s|]; [|reflexivity]. unfold Order.ltb, Order.leb. rewrite (cmp_opp c ok s (fst kv)).
    destruct (cmp c s (fst kv)); reflexivity.
  Qed.

  Lemma vis_sl_pairs sl (m : list (bytes * bytes)) : vis c sl m = sl_pairs c sl m.
  Proof.
    unfold vis, sl_pairs. destruct sl as [[a b]|].
    - unfold Base.Cursor.restrict. apply filter_ext. intros kv. apply (in_range_bridge (Some (a, b))).
    - induction m as [|x m IH]; [reflexivity|]. cbn [filter MemSpec.in_range]. f_equal. exact IH.
  Qed.

  Lemma sl_pairs_sorted sl (l : list (bytes * bytes)) : sorted_kv (cmp c) l -> sorted_kv (cmp c) (sl_pairs c sl l).
  Proof.
    intros H. destruct sl as [[a b]|]; [|exact H]. cbn [sl_pairs]. unfold Base.Cursor.restrict.
    apply (sorted_kv_filter c). exact H.
  Qed.

  Lemma sl_pairs_incl sl (l : list (bytes * bytes)) x : In x (sl_pairs c sl l) -> In x l.
  Proof.
    destruct sl as [[a b]|]; [|auto]. cbn [sl_pairs]. unfold Base.Cursor.restrict. intros H.
    apply filter_In in H. apply H.
  Qed.
End Slices.

Lemma find_ext' {A} (g h : A -> bool) (l : list A) : (forall x, g x = h x) -> find g l = find h l.
Proof. intros E. induction l as [|x l IH]; [reflexivity|]. cbn [find]. rewrite E, IH. reflexivity. Qed.

Lemma find_last_b_ext {K V} (g h : K * V -> bool) (l : list (K * V)) :
  (forall x, g x = h x) -> find_last_b g l = find_last_b h l.
Proof. intros E. induction l as [|x l IH]; [reflexivity|]. cbn [find_last_b]. rewrite E, IH. reflexivity. Qed.

Lemma find_last_b_eq {K V} (g : K * V -> bool) (l : list (K * V)) : find_last g l = find_last_b g l.
Proof. induction l as [|x l IH]; [reflexivity|]. cbn [find_last find_last_b]. rewrite IH. reflexivity. Qed.

(* ------------------------------------------------------------------ (1) the memdb iterator *)
Section MemChild.
  Variable c : comparer.                 (* the comparer of the memdb: for the DB, ibc of the user comparer *)
  Hypothesis ok : comparer_ok c.
  Variable mp : mparams.
  Hypothesis mpok : mparams_ok mp.
  Variables (d : db) (A L : list N).
  Hypothesis I : Inv c (tMaxHeight mp) d A L.
  Variable sl : option krange.

  Local Notation m := (MemInv.abs d L).
  Local Notation lv := (vis c sl m).
  Local Notation fok := (cmp_ord_ok c ok).

  (* the child as the section sees it: the step/obs of Lsm/IterPath.v with [c] for the encoded comparer *)
  Variable stepf : mchild -> move bytes -> mchild.
  Hypothesis stepf_def : forall x mv, stepf x mv =
    let r := match mv with
             | MFirst => it_first c mp (op_fuel (mc_db x)) (mc_db x) (mc_it x)
             | MLast => it_last c mp (op_fuel (mc_db x)) (mc_db x) (mc_it x)
             | MSeek k => it_seek c mp (op_fuel (mc_db x)) (mc_db x) (mc_it x) k
             | MNext => it_next c mp (op_fuel (mc_db x)) (mc_db x) (mc_it x)
             | MPrev => it_prev c mp (op_fuel (mc_db x)) (mc_db x) (mc_it x)
             end in
    match r with
    | Ok (it', _) => mkMC (mc_db x) it' (mc_bad x)
    | _ => mkMC (mc_db x) (mc_it x) true
    end.

  Lemma lv_sorted : sorted_kv (cmp c) lv.
  Proof.
    apply (sorted_kv_filter c).
    pose proof (inv_sorted _ _ _ _ _ I) as HS. unfold key_sorted in HS. unfold MemInv.abs.
    clear I. induction L as [|x l IH]; [constructor|].
    cbn [ListLemmas.sorted] in HS. destruct HS as [HF HS]. cbn [map].
    constructor; [apply IH; exact HS|].
    apply Forall_map. eapply Forall_impl; [|exact HF]. intros y Hy. exact Hy.
  Qed.

  Definition cu_at (cu : cursor) (q : pos) : Prop :=
    cu_slice cu = sl /\ cu_stale cu = false /\
    match cu_cur cu with
    | Some kv => exists i, q = At i /\ nth_error lv i = Some kv
    | None => q = if cu_fwd cu then EOI else SOI
    end.

  Definition MR (x : mchild) (q : pos) : Prop :=
    mc_db x = d /\ mc_bad x = false /\ exists cu, Rit c d L (mc_it x) cu /\ cu_at cu q.

  Lemma cobs_at_some (l : list (bytes * bytes)) q kv : cobs l q = Some kv -> exists i, q = At i /\ nth_error l i = Some kv.
  Proof. destruct q; cbn [cobs]; try discriminate. intros H. exists i. auto. Qed.

  Lemma cu_at_result cu r (fwd : bool) q :
    cu_slice cu = sl -> cobs lv q = r -> (r = None -> q = if fwd then EOI else SOI) ->
    cu_at (cur_at cu r fwd) q.
  Proof.
    intros Hsl Hr Hn. unfold cu_at, cur_at. cbn [cu_slice cu_stale cu_cur cu_fwd].
    split; [exact Hsl|]. split; [reflexivity|].
    destruct r as [kv|]; [apply cobs_at_some; exact Hr|apply Hn; reflexivity].
  Qed.

  Lemma first_at cu : cu_slice cu = sl -> cu_at (c_first c m cu) (cfirst lv).
  Proof.
    intros Hsl. unfold c_first. rewrite Hsl. apply cu_at_result; [exact Hsl| |].
    - destruct lv; reflexivity.
    - destruct lv; [reflexivity|discriminate].
  Qed.

  Lemma last_at cu : cu_slice cu = sl -> cu_at (c_last c m cu) (clast lv).
  Proof.
    intros Hsl. unfold c_last. rewrite Hsl. apply cu_at_result; [exact Hsl| |].
    - rewrite find_last_b_eq. symmetry. apply scan_last.
    - rewrite find_last_b_eq, scan_last. unfold clast. destruct lv as [|x r] eqn:E; [reflexivity|].
      cbn [length cobs]. intros H. exfalso. apply nth_error_None in H. cbn [length] in H. lia.
  Qed.

  Lemma key_ge_b k : forall x : bytes * bytes, key_ge c k x = ge_b (cmp c) k x.
  Proof. intros x. unfold key_ge, ge_b, ltb. destruct (cmp c (fst x) k); reflexivity. Qed.

  Lemma seek_at cu k : cu_slice cu = sl -> cu_at (c_seek c m cu k) (find_ge (cmp c) k lv 0).
  Proof.
    intros Hsl. unfold c_seek, s_find_ge. rewrite Hsl.
    assert (E : find (key_ge c k) lv = cobs lv (find_ge (cmp c) k lv 0)).
    { rewrite <- (scan_seek (cmp c) k lv). apply find_ext'. apply key_ge_b. }
    apply cu_at_result; [exact Hsl|symmetry; exact E|].
    rewrite E. intros H. destruct (find_ge (cmp c) k lv 0) as [|j|] eqn:Ef; [|exfalso|reflexivity].
    - exfalso. exact (find_ge_not_soi (cmp c) k lv 0 Ef).
    - pose proof (find_ge_ok (cmp c) k lv 0 j Ef) as Hj. cbn [cobs] in H. apply nth_error_None in H. lia.
  Qed.

  Lemma step_MR x q mv : MR x q -> MR (stepf x mv) (cstep (cmp c) lv q mv).
  Proof.
    intros (Hd & Hb & cu & HR & Hsl & Hst & Hcur). rewrite stepf_def. cbv zeta. rewrite Hd.
    assert (fin : forall cu' r, move_ok c d L (mc_it x) cu cu' r -> cu_at cu' (cstep (cmp c) lv q mv) ->
              MR match r with Ok (it', _) => mkMC d it' (mc_bad x) | _ => mkMC d (mc_it x) true end (cstep (cmp c) lv q mv)).
    { intros cu' r (it' & ret & -> & HR' & _) Hat. split; [reflexivity|]. split; [exact Hb|]. exists cu'. split; assumption. }
    destruct mv as [| |k| |]; cbn [cstep].
    - apply (fin _ _ (it_first_ok c ok mp mpok d A L I _ cu HR)). apply first_at. exact Hsl.
    - apply (fin _ _ (it_last_ok c ok mp mpok d A L I _ cu HR)). apply last_at. exact Hsl.
    - apply (fin _ _ (it_seek_ok c ok mp mpok d A L I _ cu k HR)). apply seek_at. exact Hsl.
    - (* Next *)
      destruct (cu_cur cu) as [[k v]|] eqn:Ecur.
      + destruct Hcur as (i & -> & Hi).
        set (cu' := cur_at cu (s_find_gt c k (vis c (cu_slice cu) m)) true).
        assert (En : c_next c m cu = Some cu') by (unfold c_next; rewrite Ecur, Hst; reflexivity).
        apply (fin _ _ (it_next_ok c ok mp mpok d A L I _ cu cu' HR En)).
        subst cu'. rewrite Hsl. unfold s_find_gt.
        assert (E : find (key_gt c k) lv = nth_error lv (S i)).
        { rewrite <- (scan_next (cmp c) fok lv lv_sorted i (k, v) Hi). apply find_ext'. intros y.
          unfold key_gt, gt_b, ltb. cbn [fst]. reflexivity. }
        rewrite E. cbn [cstep]. apply cu_at_result; [exact Hsl| |].
        * destruct (Nat.ltb (S i) (length lv)) eqn:El; cbn [cobs]; [reflexivity|].
          apply Nat.ltb_ge in El. symmetry. apply nth_error_None. exact El.
        * intros Hn. apply nth_error_None in Hn.
          destruct (Nat.ltb (S i) (length lv)) eqn:El; [apply Nat.ltb_lt in El; lia|reflexivity].
      + assert (En : c_next c m cu = Some (if negb (cu_fwd cu) then c_first c m cu else cu))
          by (unfold c_next; rewrite Ecur; reflexivity).
        apply (fin _ _ (it_next_ok c ok mp mpok d A L I _ cu _ HR En)).
        subst q. destruct (cu_fwd cu) eqn:Ef; cbn [negb cstep].
        * unfold cu_at. rewrite Ecur, Ef. auto.
        * apply first_at. exact Hsl.
    - (* Prev *)
      apply (fin _ _ (it_prev_ok c ok mp mpok d A L I _ cu HR)).
      unfold c_prev. destruct (cu_cur cu) as [[k v]|] eqn:Ecur.
      + destruct Hcur as (i & -> & Hi). rewrite Hsl. unfold s_find_lt.
        assert (E : find_last (key_lt c k) lv = match i with O => None | S j => nth_error lv j end).
        { rewrite find_last_b_eq. rewrite <- (scan_prev (cmp c) fok lv lv_sorted i (k, v) Hi).
          apply find_last_b_ext. intros y. unfold key_lt, lt_b, Order.ltb. cbn [fst]. reflexivity. }
        rewrite E. cbn [cstep]. apply cu_at_result; [exact Hsl| |].
        * destruct i; reflexivity.
        * destruct i as [|j]; [reflexivity|]. intros Hn. apply nth_error_None in Hn.
          apply nth_error_Some_lt in Hi. lia.
      + subst q. destruct (cu_fwd cu) eqn:Ef; cbn [cstep].
        * apply last_at. exact Hsl.
        * unfold cu_at. rewrite Ecur, Ef. auto.
  Qed.

  Lemma MR_obs obsf x q :
    (forall y, obsf y = if it_valid (mc_it y) then
                          match it_key (mc_it y), it_val (mc_it y) with Some k, Some v => Some (k, v) | _, _ => None end
                        else None) ->
    MR x q -> obsf x = cobs lv q.
  Proof.
    intros Hobs (_ & _ & cu & (_ & _ & HR) & _ & _ & Hcur). rewrite Hobs. unfold it_valid.
    destruct (cu_cur cu) as [[k v]|].
    - destruct HR as (Hn0 & Hk & Hv & _). destruct Hcur as (i & -> & Hi).
      replace (it_node (mc_it x) =? 0)%N with false by (symmetry; apply N.eqb_neq; exact Hn0).
      cbn [negb]. rewrite Hk, Hv. cbn [cobs]. symmetry. exact Hi.
    - destruct HR as (Hn0 & _). rewrite Hn0. cbn. subst q. destruct (cu_fwd cu); reflexivity.
  Qed.

  Lemma MR_new : MR (mc_new d sl) SOI.
  Proof.
    split; [reflexivity|]. split; [reflexivity|]. exists (new_cursor sl). split.
    - unfold Rit, new_cursor, mc_new, new_iter. cbn. auto.
    - unfold cu_at, new_cursor. cbn. auto.
  Qed.

  Lemma MR_run ms : forall x q, MR x q -> MR (bb_run stepf x ms) (crun (cmp c) lv q ms).
  Proof.
    induction ms as [|mv ms IH]; intros x q H; [exact H|]. cbn [bb_run crun fold_left].
    apply IH. apply step_MR. exact H.
  Qed.
End MemChild.

Section MemChildDB.
  Variable c : comparer.
  Hypothesis ok : comparer_ok c.
  Variable p : kparams.
  Hypothesis seek_val : (keyTypeSeek p <= keyTypeVal p)%N.
  Variable mp : mparams.
  Hypothesis mpok : mparams_ok mp.

  Local Notation ic := (ibc c).

  (* DB.NewIterator(slice) of a memdb satisfying C14's invariant = the cursor over its pairs in the slice *)
  Theorem mem_child_refines d sl : mem_ok c p mp d ->
    refines (cmp ic) (mc_step c mp) mc_obs (mc_new d sl) (sl_pairs ic sl (mem_pairs mp d)).
  Proof.
    intros [(A & L & I) _].
    assert (Ep : mem_pairs mp d = MemInv.abs d L) by exact (mem_pairs_abs c p seek_val mp mpok d A L I).
    rewrite Ep, <- (vis_sl_pairs ic (ibc_ok c ok)).
    apply (refines_by_sim (cmp ic) (mc_step c mp) mc_obs _ (MR ic d L sl)).
    - intros x q H. apply (MR_obs ic d L sl mc_obs x q); [reflexivity|exact H].
    - intros x q mv H. apply (step_MR ic (ibc_ok c ok) mp mpok d A L I sl (mc_step c mp)); [reflexivity|exact H].
    - apply MR_new.
  Qed.

  (* ... and no call of the array model panics or runs out of fuel, whatever the calls are *)
  Theorem mem_child_total d sl ms : mem_ok c p mp d ->
    mc_bad (bb_run (mc_step c mp) (mc_new d sl) ms) = false.
  Proof.
    intros [(A & L & I) _].
    pose proof (MR_run ic (ibc_ok c ok) mp mpok d A L I sl (mc_step c mp) (fun _ _ => eq_refl) ms
                  (mc_new d sl) SOI (MR_new ic d L sl)) as (_ & H & _).
    exact H.
  Qed.
End MemChildDB.

(* ------------------------------------------------------------------ (2) the table iterator *)
Section TabChild.
  Variable c : comparer.                 (* the table comparer *)
  Hypothesis ok : comparer_ok c.
  Variable rd : treader.

  Definition tstep (x : tchild) (mv : move bytes) : tchild :=
    match tc_it x with
    | inl e => mkTC (tc_rd x) (inl e) false
    | inr t => let '(okr, t') := ti_step c (tc_rd x) t (cop_of mv) in mkTC (tc_rd x) (inr t') okr
    end.

  Lemma cop_of_move_of o : cop_of (move_of o) = o.
  Proof. destruct o; reflexivity. Qed.

  Lemma tstep_inr t ok0 o okr t' : ti_step c rd t o = (okr, t') ->
    tstep (mkTC rd (inr t) ok0) (move_of o) = mkTC rd (inr t') okr.
  Proof. intros E. unfold tstep. cbn [tc_it tc_rd]. rewrite cop_of_move_of, E. reflexivity. Qed.

  Lemma ti_run_obs_list ops : forall t ok0,
    obs_list tstep tc_obs (mkTC rd (inr t) ok0) (map move_of ops) = fst (ti_run c rd t ops).
  Proof.
    induction ops as [|o ops IH]; intros t ok0; [reflexivity|].
    cbn [map obs_list ti_run].
    destruct (ti_step c rd t o) as [okr t'] eqn:Es. rewrite (tstep_inr t ok0 o okr t' Es).
    specialize (IH t' okr). destruct (ti_run c rd t' ops) as [lo tf] eqn:Er. cbn [fst] in *.
    rewrite IH. unfold tc_obs. cbn [tc_ok tc_it]. reflexivity.
  Qed.

  Lemma tab_refines_of_runs t (l : list (bytes * bytes)) :
    (forall ops, fst (ti_run c rd t ops) = Base.Cursor.c_run c l Base.Cursor.CSOI ops) ->
    refines (cmp c) tstep tc_obs (mkTC rd (inr t) false) l.
  Proof.
    intros H. apply (refines_of_runs c); [reflexivity|]. intros ops. rewrite ti_run_obs_list. apply H.
  Qed.
End TabChild.

Section TabChildDB.
  Variable c : comparer.
  Hypothesis ok : comparer_ok c.
  Variable tp : tparams.
  Variable crc : bytes -> N.
  Variable decompress : bytes -> option bytes.
  Variable fname : option bytes.
  Variable ufc : bytes -> N -> bytes -> bool.
  Variable verify : bool.
  Variable strict : bool.

  Local Notation ic := (ibc c).
  Local Notation reader := (tf_reader c tp crc decompress fname ufc verify).

  (* tOps.newIterator(f, slice, ro) on a file whose reader is a well-formed table = the cursor over the
     table's pairs in the slice *)
  Theorem tab_child_refines f bl se hs sl : table_wf ic (reader f) bl se hs ->
    refines (cmp ic) (tc_step c) tc_obs (tc_new c tp crc decompress fname ufc verify strict f sl)
            (sl_pairs ic sl (tkvs bl)).
  Proof.
    intros wf. unfold tc_new.
    assert (E : exists t, new_titer ic (reader f) sl strict = inr t /\
                  forall ops, fst (ti_run ic (reader f) t ops) =
                              Base.Cursor.c_run ic (sl_pairs ic sl (tkvs bl)) Base.Cursor.CSOI ops).
    { destruct sl as [[a b]|]; cbn [sl_pairs].
      - apply (table_iter_range_refines ic (reader f) bl se hs a b strict (ibc_ok c ok) wf).
      - apply (table_iter_refines ic (reader f) bl se hs strict (ibc_ok c ok) wf). }
    destruct E as (t & -> & Hr).
    exact (tab_refines_of_runs ic (reader f) t _ Hr).
  Qed.
End TabChildDB.
