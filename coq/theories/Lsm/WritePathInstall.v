(* Lsm/WritePathInstall.v — what versionStaging.finish (model Lsm/Pick.v) installs, as a SET of tables per level, for any
   record and both modes (the step theorems of property C06 say that the result is well-formed; the byte-level
   composition also needs to know which tables it holds), and the translation of the new layout back to table FILES by
   file number (Lsm/WritePath.v levels_for). *)
From GL Require Import Base.Bytes Base.Order Base.OrderProofs Codec.IKey Lsm.Lsm Lsm.Compact Lsm.LsmProofs Lsm.Pick Lsm.PickBase
  Lsm.FinishProofs Lsm.StepProofs Lsm.WfLsm Lsm.ModelStep Lsm.ReadPath Lsm.WritePath.
From Coq Require Import Arith Lia.

Local Open Scope nat_scope.

Lemma pres_all_nth {A} (d : A) : forall (l : list (pres A)) r, pres_all l = POk r ->
  length r = length l /\ forall i, i < length l -> nth i l PPanic = POk (nth i r d).
Proof.
  induction l as [|x l IH]; intros r H; cbn [pres_all] in H.
  - injection H as <-. split; [reflexivity|]. intros i Hi. cbn in Hi. lia.
  - destruct x as [a| |]; cbn [pbind] in H; try discriminate.
    destruct (pres_all l) as [b| |] eqn:E; cbn [pbind] in H; try discriminate. injection H as <-.
    destruct (IH b eq_refl) as [L N]. split; [cbn [length]; lia|].
    intros [|i] Hi; cbn [nth]; [reflexivity|]. apply N. cbn [length] in Hi. lia.
Qed.

Lemma ins_num_in t l x : In x (ins_num t l) <-> x = t \/ In x l.
Proof.
  induction l as [|y l IH]; cbn [ins_num]; [cbn; intuition|].
  destruct (t_num y <? t_num t)%N; cbn [In]; [intuition|]. rewrite IH. intuition.
Qed.
Lemma sort_by_num_in l x : In x (sort_by_num l) <-> In x l.
Proof.
  induction l as [|t l IH]; [reflexivity|]. cbn [sort_by_num fold_right]. fold (sort_by_num l).
  rewrite ins_num_in, IH. cbn [In]. intuition.
Qed.

Section Install.
  Variable c : comparer.

  Lemma ins_key_in t l x : In x (ins_key c t l) <-> x = t \/ In x l.
  Proof.
    induction l as [|y l IH]; cbn [ins_key]; [cbn; intuition|].
    destruct (less_by_key c y t); cbn [In]; [rewrite IH; intuition|intuition].
  Qed.
  Lemma sort_by_key_in l x : In x (sort_by_key c l) <-> In x l.
  Proof.
    induction l as [|t l IH]; [reflexivity|]. cbn [sort_by_key fold_right]. fold (sort_by_key c l).
    rewrite ins_key_in, IH. cbn [In]. intuition.
  Qed.

  Lemma in_firstn_skipn {A} k (l mid : list A) x : In x (firstn k l ++ mid ++ skipn k l) <-> In x l \/ In x mid.
  Proof.
    rewrite !in_app_iff. rewrite <- (firstn_skipn k l) at 3. rewrite in_app_iff. intuition.
  Qed.

  (* one level: the tables of the base level that are neither deleted nor re-added, plus the added ones *)
  Lemma finish_level_in tr l base dels adds r : finish_level c tr l base dels adds = POk r ->
    forall t, In t r <->
      (In t base /\ memN (t_num t) dels = false /\ memN (t_num t) (nums_of adds) = false) \/ In t adds.
  Proof.
    intros H t. unfold finish_level in H. cbv zeta in H.
    assert (SN : forall l x, In x (sort_by_num l) <-> In x l) by exact sort_by_num_in.
    assert (SK : forall l x, In x (sort_by_key c l) <-> In x l) by exact sort_by_key_in.
    set (nt := filter (fun t => negb (memN (t_num t) dels) && negb (memN (t_num t) (nums_of adds))) base) in *.
    assert (Hnt : In t nt <-> In t base /\ memN (t_num t) dels = false /\ memN (t_num t) (nums_of adds) = false).
    { unfold nt. rewrite filter_In. split.
      - intros [H1 H2]. apply andb_prop in H2 as [H2 H3]. apply Bool.negb_true_iff in H2, H3. auto.
      - intros [H1 [H2 H3]]. split; [exact H1|]. rewrite H2, H3. reflexivity. }
    destruct dels as [|d0 dels']; destruct adds as [|a0 adds'].
    - injection H as <-. cbn [memN existsb nums_of map In]. intuition.
    - destruct tr.
      + destruct (Nat.eqb l 0).
        * injection H as <-. rewrite in_firstn_skipn, <- Hnt. rewrite <- (SN (a0 :: adds') t). reflexivity.
        * destruct (get_range c (sort_by_key c (a0 :: adds'))) as [rg| |]; cbn [pbind] in H; try discriminate.
          injection H as <-. rewrite in_firstn_skipn, <- Hnt. rewrite <- (SK (a0 :: adds') t). reflexivity.
      + destruct (Nat.eqb l 0); injection H as <-.
        * rewrite (SN (nt ++ a0 :: adds') t), in_app_iff, Hnt. reflexivity.
        * rewrite (SK (nt ++ a0 :: adds') t), in_app_iff, Hnt. reflexivity.
    - injection H as <-. rewrite Hnt. cbn [In]. intuition.
    - destruct tr.
      + destruct (Nat.eqb l 0).
        * injection H as <-. rewrite in_firstn_skipn, <- Hnt. rewrite <- (SN (a0 :: adds') t). reflexivity.
        * destruct (get_range c (sort_by_key c (a0 :: adds'))) as [rg| |]; cbn [pbind] in H; try discriminate.
          injection H as <-. rewrite in_firstn_skipn, <- Hnt. rewrite <- (SK (a0 :: adds') t). reflexivity.
      + destruct (Nat.eqb l 0); injection H as <-.
        * rewrite (SN (nt ++ a0 :: adds') t), in_app_iff, Hnt. reflexivity.
        * rewrite (SK (nt ++ a0 :: adds') t), in_app_iff, Hnt. reflexivity.
  Qed.

  (* the levels of the new version are what finish_level computes *)
  Lemma finish_lv tr v ed nv : finish c tr v ed = POk nv -> forall l, level_fn c tr v ed l = POk (lv nv l).
  Proof.
    unfold finish. fold (level_fn c tr v ed).
    set (n := Nat.max (length v) (edit_levels ed)).
    destruct (pres_all (map (level_fn c tr v ed) (seq 0 n))) as [lvs| |] eqn:E; cbn [pbind]; try discriminate.
    intros H l. injection H as <-. unfold lv. rewrite trim_nth.
    destruct (pres_all_nth [] _ _ E) as [Ln Nn]. rewrite map_length, seq_length in Ln, Nn.
    destruct (Nat.lt_ge_cases l n) as [Q|Q].
    - specialize (Nn l Q). rewrite nth_map_seq in Nn by exact Q. exact Nn.
    - rewrite (nth_overflow lvs) by lia. unfold level_fn.
      rewrite (nth_overflow v) by lia. rewrite adds_at_high by lia. reflexivity.
  Qed.

  Theorem finish_in tr v ed nv : finish c tr v ed = POk nv -> forall l t,
    In t (lv nv l) <->
      (In t (lv v l) /\ memN (t_num t) (dels_at ed l (lv v l)) = false /\ memN (t_num t) (nums_of (adds_at ed l)) = false)
      \/ In t (adds_at ed l).
  Proof.
    intros H l t. pose proof (finish_lv tr v ed nv H l) as E. unfold level_fn in E.
    apply (finish_level_in _ _ _ _ _ _ E).
  Qed.
End Install.

(* ------------------------------------------------------------------ live tables have pairwise different numbers *)
Lemma nodup_concat_levels (v : list (list table)) :
  (forall i, NoDup (nums_of (lv v i))) ->
  (forall i j n, i <> j -> In n (nums_of (lv v i)) -> In n (nums_of (lv v j)) -> False) ->
  NoDup (concat (map nums_of v)).
Proof.
  induction v as [|l v IH]; intros H1 H2; [constructor|]. cbn [map concat].
  apply nodup_app_iff. split; [exact (H1 0)|]. split.
  - apply IH.
    + intros i. exact (H1 (S i)).
    + intros i j n Hij. apply (H2 (S i) (S j) n). lia.
  - intros n Hn Hc. apply in_concat in Hc as (x & Hx & Hnx). apply in_map_iff in Hx as (l' & <- & Hl').
    destruct (In_nth _ _ [] Hl') as (j & Hj & Ej). apply (H2 0 (S j) n); [lia|exact Hn|].
    unfold lv. cbn [nth]. rewrite Ej. exact Hnx.
Qed.

Lemma nodup_map_in {A B} (f : A -> B) (l : list A) :
  (forall x y, In x l -> In y l -> f x = f y -> x = y) -> NoDup l -> NoDup (map f l).
Proof.
  induction l as [|a l IH]; intros Hi Hn; [constructor|]. cbn [map]. inversion Hn as [|? ? Ha Hl]; subst. constructor.
  - intros Hin. apply in_map_iff in Hin as (y & E & Hy). apply Ha.
    rewrite (Hi a y (or_introl eq_refl) (or_intror Hy) (eq_sym E)). exact Hy.
  - apply IH; [|exact Hl]. intros x y Hx Hy. apply Hi; right; assumption.
Qed.

Lemma wf_lsm_nodup_nums c p v : wf_lsm c p v -> NoDup (concat (map nums_of v)).
Proof.
  intros W. apply nodup_concat_levels.
  - intros i. unfold nums_of. apply nodup_map_in.
    + intros t t' Ht Ht' E. apply (wl_nums c p v W i i t t' Ht Ht' E).
    + apply (lv_nodup c p v W).
  - intros i j n Hij Hi Hj. apply in_map_iff in Hi as (t & <- & Ht). apply in_map_iff in Hj as (t' & E & Ht').
    destruct (wl_nums c p v W j i t' t Ht' Ht E) as [Q _]. congruence.
Qed.

(* ------------------------------------------------------------------ from a layout of abstract tables back to files *)
Section Files.
  Variable c : comparer.
  Variable tp : Table.tparams.
  Variable crc : bytes -> N.
  Variable decompress : bytes -> option bytes.
  Variable fname : option bytes.
  Variable ufc : bytes -> N -> bytes -> bool.
  Variable verify : bool.
  Variable ri : N.

  Local Notation atab := (abs_table c tp crc decompress fname ufc verify ri).

  Lemma find_file_some fs n f : find_file fs n = Some f -> In f fs /\ tf_num f = n.
  Proof. unfold find_file. intros H. apply find_some in H as [H1 H2]. split; [exact H1|]. apply N.eqb_eq. exact H2. Qed.

  Lemma find_file_uniq fs f : NoDup (map tf_num fs) -> In f fs -> find_file fs (tf_num f) = Some f.
  Proof.
    unfold find_file. induction fs as [|g fs IH]; intros Hn Hin; [destruct Hin|].
    cbn [map] in Hn. inversion Hn as [|? ? Hg Hn']; subst. cbn [find].
    destruct Hin as [->|Hin]; [rewrite N.eqb_refl; reflexivity|].
    destruct (tf_num g =? tf_num f)%N eqn:E.
    - exfalso. apply Hg. apply N.eqb_eq in E. rewrite E. apply in_map. exact Hin.
    - apply IH; assumption.
  Qed.

  Lemma files_for_ok fs : NoDup (map tf_num fs) -> forall ts,
    (forall t, In t ts -> exists f, In f fs /\ atab f = t) ->
    exists l, files_for fs ts = Some l /\ map atab l = ts /\ incl l fs.
  Proof.
    intros Hn. induction ts as [|t ts IH]; intros H.
    - exists []. split; [reflexivity|]. split; [reflexivity|]. intros x [].
    - destruct (H t (or_introl eq_refl)) as (f & Hf & Ef).
      destruct (IH (fun t' Ht' => H t' (or_intror Ht'))) as (l & El & Ml & Il).
      exists (f :: l). cbn [files_for]. replace (t_num t) with (tf_num f) by (rewrite <- Ef; reflexivity).
      rewrite (find_file_uniq fs f Hn Hf), El. split; [reflexivity|]. split; [cbn [map]; rewrite Ef, Ml; reflexivity|].
      intros x [<-|Hx]; [exact Hf|apply Il; exact Hx].
  Qed.

  Lemma levels_for_ok fs : NoDup (map tf_num fs) -> forall v,
    (forall t, In t (concat v) -> exists f, In f fs /\ atab f = t) ->
    exists lvs, levels_for fs v = Some lvs /\ map (map atab) lvs = v /\ incl (concat lvs) fs.
  Proof.
    intros Hn. induction v as [|l v IH]; intros H.
    - exists []. split; [reflexivity|]. split; [reflexivity|]. intros x [].
    - destruct (files_for_ok fs Hn l (fun t Ht => H t ltac:(cbn [concat]; apply in_or_app; left; exact Ht))) as (a & Ea & Ma & Ia).
      destruct (IH (fun t Ht => H t ltac:(cbn [concat]; apply in_or_app; right; exact Ht))) as (b & Eb & Mb & Ib).
      exists (a :: b). cbn [levels_for]. rewrite Ea, Eb. split; [reflexivity|]. split; [cbn [map]; rewrite Ma, Mb; reflexivity|].
      cbn [concat]. intros x Hx. apply in_app_or in Hx as [Hx|Hx]; [apply Ia|apply Ib]; exact Hx.
  Qed.

  (* the numbers of the files of a state are the numbers of its abstract tables *)
  Lemma files_nums (lvls : list (list tfile)) :
    map tf_num (concat lvls) = concat (map nums_of (map (map atab) lvls)).
  Proof.
    induction lvls as [|l lvls IH]; [reflexivity|]. cbn [concat map]. rewrite map_app, IH. f_equal.
    unfold nums_of. rewrite map_map. reflexivity.
  Qed.
End Files.
