(* Lsm/WritePath.v — the WRITE side of the DB at BYTE level: the steps that change the byte state of
   Lsm/ReadPath.v (memdbs as C14 model states, table FILES as bytes), composed from the models that exist:

     leveldb/db_write.go       writeLocked -> Batch.putMem                 b_write       (Codec/Batch.v batch_putmem)
     leveldb/db_state.go       newMem: mem -> frozenMem, fresh mem         b_rotate      (Mem/MemDB.v mdb_new)
     leveldb/db_compaction.go  memCompaction -> session.flushMemdb         b_flush       (memdb iterator of Mem/MemDB.v,
                               -> tOps.createFrom -> tWriter/table.Writer                 table writer of Codec/Table.v,
                               -> pickMemdbLevel -> commit (finish)                       Lsm/Pick.v pick_memdb_level, finish)
                               tableCompaction (move)                      b_trivial_move (Lsm/Pick.v new_compaction, trivial)
                               tableCompaction -> tableCompactionBuilder   b_compact     (Lsm/Pick.v, Lsm/Builder.v transact with
                                                                                          tsize = BytesLen of the model writer,
                                                                                          every output table by the model writer)
     leveldb/db_transaction.go Commit: the transaction's tables at level 0 b_txn_commit  (finish with trivial = false)
     leveldb/comparer.go       iComparer.Separator / Successor             iwc           (Codec/IKey.v isep / isucc)
     leveldb/filter.go         iFilter(Generator)                          through wo_filter (generator over internal keys)

   Nothing is re-modelled: the steps call the existing model functions.  What the steps add is the glue of the Go code:
   which iterator feeds which writer, which options reach the writer, what is recorded as imin/imax (tWriter.first/last),
   where the table is installed, what is dropped.

   Choice of the picker (score, seek statistics), file numbers and failure histories are inputs of the steps: the
   theorems hold for every choice.  The picker and pickMemdbLevel read tFile.imin/imax/size; the model runs them on the
   abstraction of the table files (Lsm/ReadPath.v abs_table), whose first/last entries ARE the recorded bounds for every
   file that passes tfile_okb (ReadPathProofs.file_bounds), and on the files' byte lengths.

   Results: None = the Go code would report an error or panic (keys out of order in the table writer, a panicking filter
   generator, a picker panic, exhausted fuel, a step that is not enabled: no frozen memdb to flush, rotation while a frozen
   memdb exists).  The theorems (WritePathProofs*.v, Props/C01.v) prove Some under their hypotheses.
   Model file: definitions only. *)
From GL Require Import Base.Bytes Base.Order Codec.BytesCmp Codec.IKey Codec.Block Codec.Table Codec.TableCheck
  Codec.TableSizes Codec.Batch Lsm.Lsm Lsm.Compact Lsm.History Lsm.Pick Lsm.Builder Lsm.ReadPath.
From GL Require Mem.MemDB.
From Coq Require Import ZArith.
Open Scope N_scope.

(* ------------------------------------------------------------------ the comparer of the table writer *)
(* iComparer: Compare as in ReadPath.ibc; Separator/Successor shorten the USER key with the user comparer and append
   keyMaxNum (Codec/IKey.v isep/isucc).  (approx) on a key shorter than 8 bytes the Go code panics; the model answers
   "no shortening"; such keys are excluded by the well-formedness of every state the theorems talk about. *)
(* a shortened key is accepted as Go accepts it; [wf_bytesb] says that the user comparer returned a real byte string (in Go
   a []byte always is; the model's byte lists need the test) *)
Definition enc_short (k : option ikey) : option bytes :=
  match k with
  | Some z => if wf_bytesb (uk z) then Some (encode_ikey z) else None
  | None => None
  end.

Definition iwc (c : comparer) (p : kparams) : comparer :=
  {| cmp := ibc_cmp c;
     sep := fun a b => match ik_dec a, ik_dec b with
                       | Some x, Some y => enc_short (isep c p x y)
                       | _, _ => None
                       end;
     succ := fun b => match ik_dec b with
                      | Some y => enc_short (isucc c p y)
                      | None => None
                      end |}.

(* ------------------------------------------------------------------ options that reach the writers *)
(* the filter generator sees what table.Writer gives the filterWriter: per finished data block its offset and its keys
   (INTERNAL keys; the iFilterGenerator strips the trailer inside), and the offset at which the last block ended (the
   argument of the last flush).  None = the generator panics. *)
Definition fgen_t := (list (N * list bytes) -> N -> option bytes)%type.

Record wopts := mkWO {
  wo_blockSize : N;                       (* o.GetBlockSize() *)
  wo_ri : N;                              (* o.GetBlockRestartInterval() *)
  wo_snappy : bool;                       (* o.GetCompression() == SnappyCompression *)
  wo_filter : option (bytes * fgen_t);    (* o.GetFilter(): name and generator *)
  wo_tableSize : nat -> N;                (* o.GetCompactionTableSize(level) *)
  wo_gpOverlaps : nat -> N;               (* o.GetCompactionGPOverlaps(level) *)
  wo_expandLimit : nat -> N;              (* o.GetCompactionExpandLimit(level) *)
  wo_memMaxLevel : nat;                   (* db.memdbMaxLevel *)
  wo_strict : bool                        (* o.GetStrict(StrictCompaction) *)
}.

(* ------------------------------------------------------------------ step inputs and the machine state *)
(* db.seq, the live snapshots (oldest first: snapsList), the byte state *)
Record wstate := mkWS { ws_bs : bstate; ws_seq : N; ws_snaps : list N }.

Inductive bop :=
| BWrite (recs : list brec) (hs : list N)                 (* one committed batch; hs = the heights randHeight draws *)
| BRotate                                                  (* rotateMem/newMem *)
| BFlush (num : N)                                         (* memCompaction; num = the allocated file number *)
| BCompact (lvl : nat) (seed : list N) (os : list oracle) (nums : list N)
                                                           (* tableCompaction(c, noTrivial) with c built from [seed] at [lvl];
                                                              os = the failure history of compactionTransact; nums = the file
                                                              numbers of the outputs, in order *)
| BMove (lvl : nat) (seed : list N)                        (* tableCompaction: the trivial move *)
| BTxn (recs : list brec) (hs : list N) (num : N)          (* a committed transaction (also DB.Write of a batch larger than
                                                              the write buffer): one table at level 0 *)
| BSnap                                                    (* GetSnapshot *)
| BRelease (i : nat).                                      (* Snapshot.Release of the i-th live snapshot *)

Section WritePath.
  Variable c : comparer.               (* the user comparer *)
  Variable p : kparams.
  Variable mp : MemDB.mparams.
  Variable tp : tparams.
  Variable crc : bytes -> N.
  Variable compress : bytes -> bytes.
  Variable decompress : bytes -> option bytes.
  Variable fname : option bytes.       (* what the READER is configured with (ReadPath) *)
  Variable ufc : bytes -> N -> bytes -> bool.
  Variable verify : bool.
  Variable o : wopts.

  Local Notation icr := (ibc c).       (* reader side *)
  Local Notation icw := (iwc c p).     (* writer side *)
  Local Notation atab := (abs_table c tp crc decompress fname ufc verify (wo_ri o)).

  (* ---------------- mdb.NewIterator(nil) drained by "for src.Next()" ---------------- *)
  Fixpoint mem_drain (fuel : nat) (d : MemDB.db) (it : MemDB.iter) : MemDB.res (list (bytes * bytes)) :=
    match fuel with
    | O => MemDB.OutOfFuel
    | S f =>
        MemDB.bind (MemDB.it_next icr mp (MemDB.op_fuel d) d it) (fun r =>
          if snd r
          then MemDB.bind (mem_drain f d (fst r)) (fun l =>
                 MemDB.Ok ((MemDB.key_or_nil (MemDB.it_key (fst r)), MemDB.key_or_nil (MemDB.it_val (fst r))) :: l))
          else MemDB.Ok [])
    end.
  Definition mem_iter_all (d : MemDB.db) : option (list (bytes * bytes)) :=
    match mem_drain (S (Z.to_nat (MemDB.nEnt d))) d (MemDB.new_iter None) with
    | MemDB.Ok l => Some l
    | _ => None
    end.

  (* ---------------- tOps.create + tWriter.append* + tWriter.finish ---------------- *)
  (* table.Writer with the session's options; Close's filter block is what the generator returns for the blocks the
     writer recorded and the final offset *)
  Definition table_bytes (kvs : list (bytes * bytes)) : option bytes :=
    match tw_append_all tp crc compress icw (wo_blockSize o) (wo_ri o) (wo_snappy o) Table.tw_empty kvs with
    | None => None                                            (* "keys are not in increasing order" *)
    | Some w =>
        let w2 := tw_final tp crc compress icw (wo_snappy o) w in
        match wo_filter o with
        | None => Some (tw_close tp crc compress icw (wo_ri o) (wo_snappy o) None w)
        | Some (name, gen) =>
            match gen (rev (tw_fblocks w2)) (lenN (tw_out w2)) with
            | None => None                                    (* the filter writer panics *)
            | Some content =>
                Some (tw_close tp crc compress icw (wo_ri o) (wo_snappy o) (Some (name, fun _ => content)) w)
            end
        end
    end.

  (* the computable size side condition of the writer theorem (property C13: Codec/TableSizes.v table_sizes_ok, and the
     file below 2^32 bytes); it is a hypothesis of the theorems, never a branch of a step *)
  Definition write_sizes_ok (kvs : list (bytes * bytes)) : bool :=
    table_sizes_ok tp crc compress icw (wo_blockSize o) (wo_ri o) (wo_snappy o)
      (match wo_filter o with Some (name, _) => Some (name, fun _ => []) | None => None end) kvs &&
    match table_bytes kvs with Some data => lenN data <? 2 ^ 32 | None => false end.

  (* the tFile recorded for a non-empty table: imin = tWriter.first, imax = tWriter.last, size = the file length *)
  Definition key_first (kvs : list (bytes * bytes)) : bytes := match kvs with [] => [] | kv :: _ => fst kv end.
  Definition key_last (kvs : list (bytes * bytes)) : bytes := match kvs with [] => [] | kv :: r => fst (last r kv) end.

  Definition write_table (num : N) (kvs : list (bytes * bytes)) : option tfile :=
    match kvs with
    | [] => None                                               (* never called with an empty source *)
    | _ => option_map (fun data => mkTF num (key_first kvs) (key_last kvs) data) (table_bytes kvs)
    end.

  (* table.Writer.BytesLen() while building: the bytes of the finished blocks (w.offset) *)
  Definition item_kv (it : item) : bytes * bytes :=
    match it with
    | IGood e => (encode_ikey (e_ikey e), e_val e)
    | IBad k v => (k, v)
    end.
  Definition bytes_len (items : list item) : N :=
    match tw_append_all tp crc compress icw (wo_blockSize o) (wo_ri o) (wo_snappy o) Table.tw_empty (map item_kv items) with
    | Some w => lenN (tw_out w)
    | None => 0
    end.

  (* ---------------- the version as the picker sees it ---------------- *)
  Definition files_of (st : bstate) : list tfile := concat (bs_levels st).
  Definition find_file (fs : list tfile) (n : N) : option tfile := find (fun f => tf_num f =? n) fs.
  (* tFile.size *)
  Definition file_size (fs : list tfile) (t : table) : N :=
    match find_file fs (t_num t) with Some f => lenN (tf_data f) | None => 0 end.
  Definition aversion (st : bstate) : list (list table) := map (map atab) (bs_levels st).

  (* the levels of table files for a layout of abstract tables: every table by its number *)
  Fixpoint files_for (fs : list tfile) (ts : list table) : option (list tfile) :=
    match ts with
    | [] => Some []
    | t :: r => match find_file fs (t_num t), files_for fs r with
                | Some f, Some l => Some (f :: l)
                | _, _ => None
                end
    end.
  Fixpoint levels_for (fs : list tfile) (v : list (list table)) : option (list (list tfile)) :=
    match v with
    | [] => Some []
    | l :: r => match files_for fs l, levels_for fs r with
                | Some a, Some b => Some (a :: b)
                | _, _ => None
                end
    end.

  (* session.commit of a record: versionStaging.finish on the current version, new files looked up by number *)
  Definition install (trivial : bool) (st : bstate) (newf : list tfile) (ed : edit)
             (mem frozen : option MemDB.db) : option bstate :=
    match finish c trivial (aversion st) ed with
    | POk nv => option_map (fun lv => mkBS mem frozen lv) (levels_for (newf ++ files_of st) nv)
    | _ => None
    end.

  (* ---------------- rotateMem / newMem ---------------- *)
  Definition b_rotate (st : bstate) : option bstate :=
    match bs_mem st, bs_frozen st with
    | Some d, None =>
        match MemDB.mdb_new mp with
        | MemDB.Ok d0 => Some (mkBS (Some d0) (Some d) (bs_levels st))
        | _ => None
        end
    | _, _ => None                                            (* errHasFrozenMem *)
    end.

  (* ---------------- memCompaction ---------------- *)
  Definition b_flush (num : N) (st : bstate) : option bstate :=
    match bs_frozen st with
    | None => None
    | Some d =>
        match mem_iter_all d with
        | None => None
        | Some [] => Some (mkBS (bs_mem st) None (bs_levels st))       (* "Don't compact empty memdb." *)
        | Some kvs =>
            match write_table num kvs with
            | None => None
            | Some f =>
                let v := aversion st in
                let ed := flush_edit c p (file_size (files_of st)) v (wo_gpOverlaps o) (wo_memMaxLevel o) (atab f) in
                install true st [f] ed (bs_mem st) None                (* commit, then dropFrozenMem *)
            end
        end
    end.

  (* ---------------- tableCompaction ---------------- *)
  Definition seed_tables (v : list (list table)) (lvl : nat) (seed : list N) : list table :=
    filter (fun t => memN (t_num t) seed) (nth lvl v []).

  Definition b_pick (st : bstate) (lvl : nat) (seed : list N) : pres compaction :=
    let v := aversion st in
    new_compaction c (file_size (files_of st)) v lvl (wo_expandLimit o lvl) (seed_tables v lvl seed).

  Definition b_trivial_move (lvl : nat) (seed : list N) (st : bstate) : option bstate :=
    match b_pick st lvl seed with
    | POk cm =>
        if trivial (file_size (files_of st)) cm (wo_gpOverlaps o lvl)
        then install true st [] (move_edit cm) (bs_mem st) (bs_frozen st)
        else None
    | _ => None
    end.

  (* the key/value pairs the builder appends to one output table *)
  Definition chunk_kvs (es : list entry) : list (bytes * bytes) := map (fun e => item_kv (IGood e)) es.

  Fixpoint write_outputs (nums : list N) (chunks : list (list entry)) : option (list tfile) :=
    match nums, chunks with
    | n :: nums', ch :: chunks' =>
        match write_table n (chunk_kvs ch), write_outputs nums' chunks' with
        | Some f, Some l => Some (f :: l)
        | _, _ => None
        end
    | [], [] => Some []
    | _, _ => None
    end.

  (* the entries of the tables the builder recorded (Lsm/BuilderBase.v fin) *)
  Definition fin_of (s : bst) : list (list entry) := map good_entries (out_items s).

  Definition b_compact (lvl : nat) (seed : list N) (os : list oracle) (nums : list N) (minSeq : N)
             (st : bstate) : option bstate :=
    match b_pick st lvl seed with
    | POk cm =>
        let v := aversion st in
        let sz := file_size (files_of st) in
        let deeper := skipn (lvl + 2) v in
        (* the merged iterator over the input tables: their decoded entries in internal-key order *)
        let items := map IGood (merge_inputs c (c_t0 cm ++ c_t1 cm)) in
        match transact c p sz (c_gp cm) (wo_gpOverlaps o lvl) deeper minSeq (wo_strict o)
                       (wo_tableSize o (S lvl)) bytes_len os items (bst0 deeper) with
        | (s', TDone) =>
            let chunks := fin_of s' in
            match write_outputs nums chunks with
            | Some outs =>
                install true st outs (compaction_edit cm (mk_outputs nums chunks)) (bs_mem st) (bs_frozen st)
            | None => None
            end
        | _ => None
        end
    | _ => None
    end.

  (* ---------------- a write ---------------- *)
  Definition b_write (recs : list brec) (hs : list N) (seq : N) (st : bstate) : option bstate :=
    match bs_mem st with
    | Some d =>
        match batch_putmem p icr mp (batch_of p recs) (seq + 1) d hs with
        | PmOk d' _ => Some (mkBS (Some d') (bs_frozen st) (bs_levels st))
        | _ => None
        end
    | None => None
    end.

  (* ---------------- a committed transaction ---------------- *)
  (* OpenTransaction has flushed the memdbs (rotateMem(0, true): no frozen memdb, an empty live one — otherwise the step
     is not enabled); the records go into the transaction's own memdb at db.seq+1.., which Commit flushes into one table
     added at level 0 by a record committed with trivial = false *)
  Definition mem_is_empty (d : option MemDB.db) : bool :=
    match d with
    | None => true
    | Some m => match mem_iter_all m with Some [] => true | _ => false end
    end.

  Definition b_txn_commit (recs : list brec) (hs : list N) (num : N) (seq : N) (st : bstate) : option bstate :=
    if negb (mem_is_empty (bs_mem st)) then None
    else match bs_frozen st with
    | Some _ => None
    | None =>
    match MemDB.mdb_new mp with
    | MemDB.Ok d0 =>
        match batch_putmem p icr mp (batch_of p recs) (seq + 1) d0 hs with
        | PmOk d' _ =>
            match mem_iter_all d' with
            | Some [] => Some st
            | Some kvs =>
                match write_table num kvs with
                | Some f => install false st [f] {| ed_del := []; ed_add := [(O, atab f)] |} (bs_mem st) (bs_frozen st)
                | None => None
                end
            | None => None
            end
        | _ => None
        end
    | _ => None
    end
    end.

  (* ---------------- the machine ---------------- *)
  (* db.minSeq(): the oldest live snapshot, else db.seq *)
  Definition min_seq (w : wstate) : N := hd (ws_seq w) (ws_snaps w).

  Definition with_bs (w : wstate) (b : bstate) : wstate := mkWS b (ws_seq w) (ws_snaps w).

  Definition bstep (w : wstate) (op : bop) : option wstate :=
    match op with
    | BWrite recs hs =>
        option_map (fun b => mkWS b (ws_seq w + N.of_nat (length recs)) (ws_snaps w)) (b_write recs hs (ws_seq w) (ws_bs w))
    | BRotate => option_map (with_bs w) (b_rotate (ws_bs w))
    | BFlush num => option_map (with_bs w) (b_flush num (ws_bs w))
    | BCompact lvl seed os nums => option_map (with_bs w) (b_compact lvl seed os nums (min_seq w) (ws_bs w))
    | BMove lvl seed => option_map (with_bs w) (b_trivial_move lvl seed (ws_bs w))
    | BTxn recs hs num =>
        option_map (fun b => mkWS b (ws_seq w + N.of_nat (length recs)) (ws_snaps w))
                   (b_txn_commit recs hs num (ws_seq w) (ws_bs w))
    | BSnap => Some (mkWS (ws_bs w) (ws_seq w) (ws_snaps w ++ [ws_seq w]))
    | BRelease i => Some (mkWS (ws_bs w) (ws_seq w) (remove_nth i (ws_snaps w)))
    end.

  Fixpoint brun (w : wstate) (ops : list bop) : option wstate :=
    match ops with
    | [] => Some w
    | op :: r => match bstep w op with Some w' => brun w' r | None => None end
    end.

  (* Open of an empty DB: a fresh memdb, no frozen one, no tables *)
  Definition w_init : option wstate :=
    match MemDB.mdb_new mp with
    | MemDB.Ok d0 => Some (mkWS (mkBS (Some d0) None []) 0 [])
    | _ => None
    end.

  (* the history operations (Lsm/History.v) a byte-level run stands for *)
  Definition hop_writes (op : bop) : list wrec :=
    match op with
    | BWrite recs _ | BTxn recs _ _ => map (norm_rec p) recs
    | _ => []
    end.
End WritePath.
