(* Lsm/RangeProofs.v — the retry loop of DB.CompactRange (model Lsm/RangeCompact.v: compact_range) terminates and
   leaves every table overlapping the range in ONE level.
   Measure: wsum K (entries per level) = sum over levels l < K of (number of entries stored in level l) * (K - l), where
   K bounds the deepest level the loop can reach (max 1 (number of levels - 1): a pass compacts levels < m only, m <= K).
   Every table compaction of a pass removes a >= 1 entries from its source level l < m <= K and adds at most a to level
   l + 1: the measure drops by at least a.  A pass that compacted nothing ends the loop; so at most (measure) passes
   compact something.  (The number of TABLES is no measure: the builder may cut one input into many outputs.) *)
From GL Require Import Base.Order Base.OrderProofs Codec.IKey Codec.IKeyProofs Lsm.Lsm Lsm.Compact Lsm.LsmProofs
  Lsm.CompactProofs Lsm.WfProofs Lsm.OutputProofs Lsm.Pick Lsm.PickBase Lsm.OverlapProofs Lsm.ExpandProofs Lsm.WfLsm
  Lsm.FinishProofs Lsm.InsertProofs Lsm.StepProofs Lsm.ModelStep Lsm.FlushProofs Lsm.C06Steps Lsm.RangeCompact
  Lsm.RangeStep.
From Coq Require Import Arith Lia.

Local Open Scope nat_scope.

(* every level from B on is empty *)
Definition levels_below (v : list (list table)) (B : nat) : Prop := forall l, B <= l -> lv v l = [].

Lemma levels_below_length v : levels_below v (length v).
Proof. intros l H. unfold lv. apply nth_overflow. exact H. Qed.

Lemma levels_below_mono v A B : levels_below v A -> A <= B -> levels_below v B.
Proof. intros H Q l Hl. apply H. lia. Qed.

Lemma get_set_ptr ptrs level k : get_ptr (set_ptr ptrs level k) level = Some k.
Proof.
  unfold get_ptr. revert ptrs; induction level as [|l IH]; intros ptrs; destruct ptrs as [|x r]; cbn [set_ptr nth]; try reflexivity; apply IH.
Qed.

Lemma get_set_ptr_other ptrs level k l : l <> level -> get_ptr (set_ptr ptrs level k) l = get_ptr ptrs l.
Proof.
  unfold get_ptr. revert ptrs l; induction level as [|lv IH]; intros ptrs l Hl; destruct ptrs as [|x r]; cbn [set_ptr].
  - destruct l as [|l]; [congruence|]. cbn [nth]. destruct l; reflexivity.
  - destruct l as [|l]; [congruence|reflexivity].
  - destruct l as [|l]; [reflexivity|]. cbn [nth]. rewrite IH by congruence. destruct l; reflexivity.
  - destruct l as [|l]; [reflexivity|]. cbn [nth]. apply IH. congruence.
Qed.

Section Range.
  Variable c : comparer.
  Hypothesis ok : comparer_ok c.
  Variable p : kparams.
  Hypothesis pok : kparams_ok p.
  Variable sz : table -> N.
  Variable o : copts.
  Variable bld : nat -> list (list table) -> compaction -> list table.
  (* minSeq of the k-th compaction *)
  Variable ms : nat -> N.

  Notation wf_lsm := (wf_lsm c p).

  (* what the theorems assume of the output oracle: for the compaction the model picker builds on a well-formed version
     from an admissible seed, the tables are chunks of the kept merged entries, cut only between different user keys,
     under pairwise different numbers no live table carries (C06_builder_cuts_ok: Builder.v's run delivers that) *)
  Definition bld_ok : Prop :=
    forall k v lvl seed cm, wf_lsm v -> seed_ok v lvl seed ->
      new_compaction c sz v lvl (o_exp_limit o lvl) seed = POk cm ->
      exists chunks nums, bld k v cm = mk_outputs nums chunks /\
        outputs_of c p cm (ms k) (skipn (lvl + 2) v) chunks /\ length nums = length chunks /\ fresh_nums v nums.

  Hypothesis B_ok : bld_ok.

  (* the relation between the versions before and after one table compaction of level lvl *)
  Definition step_rel (v : list (list table)) (lvl : nat) (nv : list (list table)) : Prop :=
    wf_lsm nv /\ exists a, 1 <= a /\ tl nv lvl + a = tl v lvl /\ tl nv (S lvl) <= tl v (S lvl) + a /\
      (forall l, l <> lvl -> l <> S lvl -> lv nv l = lv v l).

  Lemma step_rel_of_effect v lvl cm outs nv : c_level cm = lvl -> wf_lsm nv -> step_effect v cm outs nv -> step_rel v lvl nv.
  Proof.
    intros E Wn [a [H1 [H2 [H3 [H4 _]]]]]. rewrite E in *. split; [exact Wn|]. exists a. repeat split; assumption.
  Qed.

  Lemma step_rel_below v lvl nv B : step_rel v lvl nv -> levels_below v B -> S lvl < B -> levels_below nv B.
  Proof.
    intros [_ [a [_ [_ [_ H]]]]] Hb Q l Hl. rewrite H by lia. apply Hb. exact Hl.
  Qed.

  Lemma step_rel_wsum v lvl nv K : step_rel v lvl nv -> lvl < K -> wsum K (tl nv) + 1 <= wsum K (tl v).
  Proof.
    intros [_ [a [H0 [H1 [H2 H3]]]]] Q.
    pose proof (wsum_step K lvl (tl v) (tl nv) a Q H1 H2) as S. unfold tl at 1 2 in S.
    specialize (S ltac:(intros l Q1 Q2; rewrite H3 by assumption; reflexivity)). lia.
  Qed.

  Lemma step_rel_tsum v lvl nv K : step_rel v lvl nv -> tsum K (tl nv) <= tsum K (tl v).
  Proof.
    intros [_ [a [H0 [H1 [H2 H3]]]]].
    apply (tsum_step K lvl (tl v) (tl nv) a H1 H2). intros l Q1 Q2. unfold tl. rewrite H3 by assumption. reflexivity.
  Qed.

  (* ---- DB.tableCompaction on a compaction built by the model picker ---- *)
  Lemma table_compaction_spec st lvl seed cm noTrivial :
    wf_lsm (cp_v st) -> seed_ok (cp_v st) lvl seed ->
    new_compaction c sz (cp_v st) lvl (o_exp_limit o lvl) seed = POk cm ->
    exists st', table_compaction c sz o bld st cm noTrivial = POk st' /\ step_rel (cp_v st) lvl (cp_v st') /\
      cp_n st' = S (cp_n st) /\ cp_seek st' = None /\ cp_ptrs st' = set_ptr (cp_ptrs st) lvl (c_imax cm) /\
      exists outs, step_effect (cp_v st) cm outs (cp_v st') /\
        ((noTrivial = false /\ trivial sz cm (o_gp_limit o lvl) = true /\ outs = c_t0 cm) \/
         outs = bld (cp_n st) (cp_v st) cm).
  Proof.
    intros W Sk E. pose proof Sk as [S1 [S2 S3]].
    destruct (model_pick c ok p sz (cp_v st) W lvl (o_exp_limit o lvl) seed S1 S2 S3) as [cm' [E' Pk]].
    rewrite E in E'. injection E' as <-.
    pose proof (pk_level c (cp_v st) lvl seed cm Pk) as El.
    unfold table_compaction. rewrite El.
    destruct (negb noTrivial && trivial sz cm (o_gp_limit o lvl))%bool eqn:T.
    - apply andb_prop in T as [T1 T2]. destruct (trivial_shape sz cm _ T2) as [t [E0 E1]].
      destruct (model_move_levels c ok p sz (cp_v st) W lvl seed S1 S2 cm Pk t E0 E1) as [nv [F [Wn Ef]]].
      rewrite F. cbn [pbind]. eexists. split; [reflexivity|]. cbn [cp_v cp_n cp_seek cp_ptrs].
      split; [apply (step_rel_of_effect _ lvl cm (c_t0 cm) nv El Wn Ef)|]. repeat split.
      exists (c_t0 cm). split; [exact Ef|]. left. repeat split; [|exact T2].
      destruct noTrivial; [discriminate|reflexivity].
    - destruct (B_ok (cp_n st) (cp_v st) lvl seed cm W Sk E) as [chunks [nums [Eb [[C1 C2] [Hl [F1 F2]]]]]].
      rewrite Eb.
      destruct (model_build_levels c ok p pok sz (cp_v st) W lvl seed S1 S2 cm Pk (ms (cp_n st)) _ chunks nums C1 C2 Hl F1)
        as [nv [F [Wn Ef]]].
      { intros n i s Hn Hs Q. apply (F2 n i s Hn Hs Q). }
      rewrite F. cbn [pbind]. eexists. split; [reflexivity|]. cbn [cp_v cp_n cp_seek cp_ptrs].
      split; [apply (step_rel_of_effect _ lvl cm _ nv El Wn Ef)|]. repeat split.
      exists (mk_outputs nums chunks). split; [exact Ef|]. right. reflexivity.
  Qed.

  (* ---- getCompactionRange: no compaction = no table of the level overlaps the range ---- *)
  Lemma range_none_clear v lvl umin umax noLimit sl el : wf_lsm v ->
    compaction_range c sz v lvl umin umax noLimit sl el = POk None ->
    forall t, In t (lv v lvl) -> t_overlaps c t umin umax = false.
  Proof.
    intros W H t Ht. unfold compaction_range in H.
    destruct (Nat.leb (length v) lvl) eqn:Q.
    { apply Nat.leb_le in Q. unfold lv in Ht. rewrite nth_overflow in Ht by exact Q. destruct Ht. }
    assert (Hb : Nat.eqb lvl 0 = false -> bsorted c (nth lvl v [])).
    { intros Hq. apply Nat.eqb_neq in Hq. apply (level_sorted_bsorted c p); [apply (wl_tbl c p v W)|apply (wl_deep c p v W); lia]. }
    destruct (gov_spec c ok p (nth lvl v []) umin umax (Nat.eqb lvl 0) (wl_tbl c p v W lvl) Hb) as [d [E [_ [I2 _]]]].
    rewrite E in H. cbn [pbind] in H. destruct d as [|u d'].
    - destruct (t_overlaps c t umin umax) eqn:Ov; [|reflexivity]. destruct (I2 t Ht Ov).
    - exfalso. destruct (new_compaction c sz v lvl el _) in H; cbn [pbind] in H; discriminate.
  Qed.

  (* ---- the scan for the deepest overlapping level ---- *)
  Lemma scan_max_spec umin umax : forall rest i m0, m0 <= i ->
    let r := scan_max c p umin umax i rest m0 in
    m0 <= r /\
    (r = m0 \/ (i <= r /\ r < i + length rest /\ files_overlaps c p (nth (r - i) rest []) umin umax false = true)) /\
    (forall j, r < j -> i <= j -> files_overlaps c p (nth (j - i) rest []) umin umax false = false).
  Proof.
    induction rest as [|tf rest IH]; intros i m0 Hm; cbn [scan_max].
    - split; [lia|]. split; [left; reflexivity|]. intros j _ _. destruct (j - i); reflexivity.
    - cbv zeta. set (m1 := if files_overlaps c p tf umin umax false then i else m0).
      assert (Hm1 : m1 <= S i) by (unfold m1; destruct (files_overlaps c p tf umin umax false); lia).
      specialize (IH (S i) m1 Hm1). cbv zeta in IH. destruct IH as [I1 [I2 I3]].
      set (r := scan_max c p umin umax (S i) rest m1) in *.
      assert (Hm01 : m0 <= m1) by (unfold m1; destruct (files_overlaps c p tf umin umax false); lia).
      split; [lia|]. split.
      + destruct I2 as [I2|[Q1 [Q2 Q3]]].
        * unfold m1 in I2. destruct (files_overlaps c p tf umin umax false) eqn:Ov; [|left; exact I2].
          right. rewrite I2. split; [lia|]. split; [cbn [length]; lia|]. rewrite Nat.sub_diag. exact Ov.
        * right. split; [lia|]. split; [cbn [length]; lia|].
          replace (r - i) with (S (r - S i)) by lia. exact Q3.
      + intros j Hj Hij. destruct (Nat.eq_dec j i) as [->|Hne].
        * rewrite Nat.sub_diag. cbn [nth]. destruct (files_overlaps c p tf umin umax false) eqn:Ov; [|reflexivity].
          exfalso. unfold m1 in I1. rewrite ?Ov in I1. lia.
        * replace (j - i) with (S (j - S i)) by lia. cbn [nth]. apply I3; lia.
  Qed.

  Lemma files_overlaps_nil umin umax : files_overlaps c p [] umin umax false = false.
  Proof. unfold files_overlaps. cbn [length]. destruct umin as [[|b m]|]; reflexivity. Qed.

  Lemma range_max_level_spec v umin umax :
    let m := range_max_level c p v umin umax in
    1 <= m /\ (m = 1 \/ files_overlaps c p (lv v m) umin umax false = true) /\
    (forall l, m < l -> files_overlaps c p (lv v l) umin umax false = false).
  Proof.
    unfold range_max_level. destruct (scan_max_spec umin umax (skipn 1 v) 1 1 (le_n 1)) as [H1 [H2 H3]].
    set (m := scan_max c p umin umax 1 (skipn 1 v) 1) in *. cbv zeta.
    assert (En : forall j, 1 <= j -> nth (j - 1) (skipn 1 v) [] = lv v j).
    { intros j Hj. unfold lv. destruct v as [|x r]; cbn [skipn].
      - destruct (j - 1); destruct j; reflexivity.
      - destruct j as [|j]; [lia|]. cbn [nth]. replace (S j - 1) with j by lia. reflexivity. }
    split; [exact H1|]. split.
    - destruct H2 as [H2|[Q1 [_ Q3]]]; [left; exact H2|right]. rewrite (En m Q1) in Q3. exact Q3.
    - intros l Hl. rewrite <- (En l) by lia. apply H3; lia.
  Qed.

  Lemma range_max_level_le v umin umax K : 1 <= K -> levels_below v (S K) -> range_max_level c p v umin umax <= K.
  Proof.
    intros HK Hb. destruct (range_max_level_spec v umin umax) as [_ [[E|E] _]]; [lia|].
    destruct (Nat.le_gt_cases (range_max_level c p v umin umax) K) as [Q|Q]; [exact Q|].
    rewrite (Hb _ Q), files_overlaps_nil in E. discriminate.
  Qed.

  (* ---- one pass ---- *)
  Variable umin umax : option bytes.
  Variable K : nat.
  Hypothesis HK : 1 <= K.

  Definition inv (st : cpstate) : Prop := wf_lsm (cp_v st) /\ levels_below (cp_v st) (S K).

  (* no table of levels [a, b) overlaps the range *)
  Definition clear_between (v : list (list table)) (a b : nat) : Prop :=
    forall l t, a <= l -> l < b -> In t (lv v l) -> t_overlaps c t umin umax = false.

  Lemma range_levels_spec : forall n level st log, inv st -> level + n <= K ->
    exists st' log', range_levels c sz o bld n level st umin umax log = POk (st', log ++ log') /\ inv st' /\
      wsum K (tl (cp_v st')) + length log' <= wsum K (tl (cp_v st)) /\
      tsum (S K) (tl (cp_v st')) <= tsum (S K) (tl (cp_v st)) /\
      (log' = [] -> st' = st /\ clear_between (cp_v st) level (level + n)).
  Proof.
    induction n as [|n IH]; intros level st log [W Hb] Hn; cbn [range_levels].
    - exists st, []. rewrite app_nil_r. split; [reflexivity|]. split; [split; assumption|]. split; [cbn; lia|].
      split; [lia|]. intros _. split; [reflexivity|]. intros l t H1 H2. lia.
    - unfold get_compaction_range.
      destruct (range_compaction_seed c ok p sz (cp_v st) level umin umax false (o_src_limit o level) (o_exp_limit o level) W)
        as [r [Er Hr]].
      rewrite Er. cbn [pbind]. destruct r as [cm|].
      + destruct (Hr cm eq_refl) as [seed [Sk En]].
        destruct (table_compaction_spec st level seed cm true W Sk En) as [st1 [Et [Rel _]]].
        rewrite Et. cbn [pbind].
        assert (I1 : inv st1).
        { split; [apply Rel|]. apply (step_rel_below (cp_v st) level (cp_v st1) (S K) Rel Hb). lia. }
        destruct (IH (S level) st1 (log ++ [cm]) I1 ltac:(lia)) as [st' [log' [E2 [I2 [M2 [T2 _]]]]]].
        exists st', (cm :: log'). rewrite <- app_assoc in E2. cbn [app] in E2. split; [exact E2|].
        split; [exact I2|]. pose proof (step_rel_wsum (cp_v st) level (cp_v st1) K Rel ltac:(lia)) as M1.
        pose proof (step_rel_tsum (cp_v st) level (cp_v st1) (S K) Rel) as T1.
        split; [cbn [length]; lia|]. split; [lia|]. discriminate.
      + destruct (IH (S level) st log (conj W Hb) ltac:(lia)) as [st' [log' [E2 [I2 [M2 [T2 C2]]]]]].
        exists st', log'. split; [exact E2|]. split; [exact I2|]. split; [exact M2|]. split; [exact T2|].
        intros El. destruct (C2 El) as [-> Cl]. split; [reflexivity|].
        intros l t H1 H2 Ht. destruct (Nat.eq_dec l level) as [->|Hne].
        * apply (range_none_clear (cp_v st) level umin umax false _ _ W Er t Ht).
        * apply (Cl l t); [lia|lia|exact Ht].
  Qed.

  (* the state CompactRange returns with: every table overlapping the range is in level m *)
  Definition range_post (v : list (list table)) : Prop :=
    let m := range_max_level c p v umin umax in
    (forall l t, l < m -> In t (lv v l) -> t_overlaps c t umin umax = false) /\
    (forall l, m < l -> files_overlaps c p (lv v l) umin umax false = false).

  Lemma compact_range_spec : forall fuel st passes, inv st ->
    (wsum K (tl (cp_v st)) < fuel ->
       exists st' ps, compact_range c p sz o bld fuel st umin umax passes = POk (st', passes ++ ps)) /\
    (forall st' ps, compact_range c p sz o bld fuel st umin umax passes = POk (st', ps) ->
       inv st' /\ range_post (cp_v st') /\ tsum (S K) (tl (cp_v st')) <= tsum (S K) (tl (cp_v st)) /\
       exists m, last ps (0, []) = (m, []) /\ m = range_max_level c p (cp_v st') umin umax).
  Proof.
    induction fuel as [|fuel IH]; intros st passes I.
    { split; [lia|]. intros st' ps H. discriminate. }
    cbn [compact_range]. unfold range_pass. set (m := range_max_level c p (cp_v st) umin umax).
    assert (Hm : m <= K) by (apply (range_max_level_le _ _ _ K HK); apply I).
    destruct (range_levels_spec m 0 st [] I ltac:(lia)) as [st1 [log [E1 [I1 [M1 [T1 C1]]]]]].
    cbn [app] in E1. rewrite E1. cbn [pbind fst snd]. destruct log as [|cm log].
    - destruct (C1 eq_refl) as [-> Cl]. split.
      + intros _. exists st, [(m, [])]. reflexivity.
      + intros st' ps H. injection H as <- <-. split; [exact I|]. split.
        * split; [|apply (range_max_level_spec (cp_v st) umin umax)].
          intros l t Hl Ht. apply (Cl l t); [lia|exact Hl|exact Ht].
        * split; [lia|]. exists m. split; [apply last_last|reflexivity].
    - destruct (IH st1 (passes ++ [(m, cm :: log)]) I1) as [A B]. split.
      + intros Hf. cbn [length] in M1. destruct (A ltac:(lia)) as [st' [ps E]].
        exists st', ((m, cm :: log) :: ps). rewrite E, <- app_assoc. reflexivity.
      + intros st' ps H. destruct (B st' ps H) as [B1 [B2 [B3 B4]]]. split; [exact B1|]. split; [exact B2|].
        split; [lia|exact B4].
  Qed.
End Range.

(* ---- closed forms ---- *)
Section Closed.
  Variable c : comparer.
  Hypothesis ok : comparer_ok c.
  Variable p : kparams.
  Hypothesis pok : kparams_ok p.
  Variable sz : table -> N.
  Variable o : copts.
  Variable bld : nat -> list (list table) -> compaction -> list table.
  Variable ms : nat -> N.
  Hypothesis B_ok : bld_ok c p sz o bld ms.

  (* the level bound and the fuel bound of the range loop *)
  Definition range_depth (v : list (list table)) : nat := Nat.max 1 (length v - 1).
  Definition range_fuel (v : list (list table)) : nat := S (range_depth v * elen (concat v)).

  Lemma range_inv0 st : wf_lsm c p (cp_v st) -> inv c p (range_depth (cp_v st)) st.
  Proof.
    intros W. split; [exact W|]. apply (levels_below_mono _ (length (cp_v st))); [apply levels_below_length|].
    unfold range_depth. lia.
  Qed.

  Lemma wsum_le_entries K v : wsum K (tl v) <= K * elen (concat v).
  Proof.
    eapply Nat.le_trans; [apply wsum_le_tsum|]. apply Nat.mul_le_mono_l. apply tsum_tl_le.
  Qed.

  Theorem compact_range_terminates st umin umax : wf_lsm c p (cp_v st) ->
    forall fuel, range_fuel (cp_v st) <= fuel ->
    exists st' passes, compact_range c p sz o bld fuel st umin umax [] = POk (st', passes).
  Proof.
    intros W fuel Hf. set (K := range_depth (cp_v st)).
    assert (HK : 1 <= K) by (unfold K, range_depth; lia).
    destruct (compact_range_spec c ok p pok sz o bld ms B_ok umin umax K HK fuel st [] (range_inv0 st W)) as [A _].
    destruct A as [st' [ps E]].
    - pose proof (wsum_le_entries K (cp_v st)). unfold range_fuel in Hf. fold K in Hf. lia.
    - exists st', ps. exact E.
  Qed.

  Theorem compact_range_post st umin umax fuel st' passes : wf_lsm c p (cp_v st) ->
    compact_range c p sz o bld fuel st umin umax [] = POk (st', passes) ->
    wf_lsm c p (cp_v st') /\
    (let m := range_max_level c p (cp_v st') umin umax in
     (forall l t, l < m -> In t (lv (cp_v st') l) -> t_overlaps c t umin umax = false) /\
     (forall l, m < l -> files_overlaps c p (lv (cp_v st') l) umin umax false = false) /\
     last passes (0, []) = (m, [])) /\
    levels_below (cp_v st') (S (range_depth (cp_v st))).
  Proof.
    intros W E. set (K := range_depth (cp_v st)).
    assert (HK : 1 <= K) by (unfold K, range_depth; lia).
    destruct (compact_range_spec c ok p pok sz o bld ms B_ok umin umax K HK fuel st [] (range_inv0 st W)) as [_ B].
    destruct (B st' passes E) as [[W' Hb] [[P1 P2] [_ [m [L1 L2]]]]].
    split; [exact W'|]. split; [|exact Hb]. cbv zeta. split; [exact P1|]. split; [exact P2|]. rewrite L1, L2. reflexivity.
  Qed.
End Closed.
