(* Lsm/ReadPathKey.v — interface lemmas between the byte-level layers and the L1 model (proof file):
   the internal-key order on ENCODED keys is a lawful comparer (so that the table theory C13 and the memdb
   theory C14, which are stated for an arbitrary lawful comparer, apply to the DB's tables and buffers);
   decoding of stored pairs; "first pair >= probe" of the byte layers = find_ge of the L1 model. *)
From GL Require Import Base.Bytes Base.BytesProofs Base.Order Base.OrderProofs Codec.BytesCmp Codec.BytesCmpProofs
  Codec.IKey Codec.IKeyProofs Lsm.Lsm Lsm.LsmProofs Lsm.ReadPath.
From Coq Require Import Lia.
Open Scope N_scope.

Lemma wf_bytesb_ok b : wf_bytesb b = true <-> wf_bytes b.
Proof.
  unfold wf_bytesb, wf_bytes. rewrite forallb_forall, Forall_forall. unfold wf_byte.
  split; intros H x Hx; specialize (H x Hx); [apply N.ltb_lt in H|apply N.ltb_lt]; exact H.
Qed.

Lemma ik_dec_some b k : ik_dec b = Some k -> wf_bytes b /\ split_ikey b = Some k /\ encode_ikey k = b.
Proof.
  unfold ik_dec. destruct (wf_bytesb b) eqn:W; [|discriminate]. apply wf_bytesb_ok in W.
  intros H. split; [exact W|]. split; [exact H|]. apply encode_split; assumption.
Qed.

Lemma ik_dec_inj a b k : ik_dec a = Some k -> ik_dec b = Some k -> a = b.
Proof.
  intros H1 H2. apply ik_dec_some in H1 as (_ & _ & <-). apply ik_dec_some in H2 as (_ & _ & <-). reflexivity.
Qed.

Lemma ik_dec_encode k : wf_bytes (uk k) -> num k < 2 ^ 64 -> ik_dec (encode_ikey k) = Some k.
Proof.
  intros W H. unfold ik_dec.
  assert (W2 : wf_bytesb (encode_ikey k) = true).
  { apply wf_bytesb_ok. unfold encode_ikey, wf_bytes. apply Forall_app. split; [exact W|apply le_encode_wf]. }
  rewrite W2. apply split_encode. exact H.
Qed.

Lemma ik_dec_ukey b k : ik_dec b = Some k -> ukey_b b = Some (uk k).
Proof. intros H. apply ik_dec_some in H as (_ & S & _). unfold ukey_b. rewrite S. reflexivity. Qed.

Lemma ik_dec_num_bound b k : ik_dec b = Some k -> num k < 2 ^ 64.
Proof.
  intros H. apply ik_dec_some in H as (W & S & _). unfold split_ikey in S.
  destruct (Nat.ltb (length b) 8) eqn:L; [discriminate|]. apply PeanoNat.Nat.ltb_ge in L.
  injection S as <-. cbn [num].
  assert (W2 : wf_bytes (lastn 8 b)).
  { unfold wf_bytes, lastn in *. rewrite <- (firstn_skipn (length b - 8) b) in W. apply Forall_app in W. apply W. }
  pose proof (le_decode_bound _ W2) as B. rewrite (lastn_length 8 b L) in B. exact B.
Qed.

Lemma ik_dec_wf_uk b k : ik_dec b = Some k -> wf_bytes (uk k).
Proof.
  intros H. apply ik_dec_some in H as (W & _ & E). rewrite <- E in W. unfold encode_ikey, wf_bytes in W.
  apply Forall_app in W. apply W.
Qed.

(* ------------------------------------------------------------------ the encoded order is lawful *)
Section IbcOk.
  Variable c : comparer.
  Hypothesis ok : comparer_ok c.

  Lemma ibc_dec a b x y : ik_dec a = Some x -> ik_dec b = Some y -> cmp (ibc c) a b = icmp c x y.
  Proof. intros H1 H2. cbn [cmp ibc]. unfold ibc_cmp. rewrite H1, H2. reflexivity. Qed.

  Theorem ibc_ok : comparer_ok (ibc c).
  Proof.
    constructor; cbn [cmp sep succ ibc]; unfold ibc_cmp; try discriminate.
    - intros a b. destruct (ik_dec a) as [x|] eqn:A; destruct (ik_dec b) as [y|] eqn:B.
      + rewrite (icmp_eq c ok). split.
        * intros ->. eapply ik_dec_inj; eauto.
        * intros ->. congruence.
      + split; [discriminate|]. intros ->. congruence.
      + split; [discriminate|]. intros ->. congruence.
      + apply (cmp_eq bytewise bytewise_ok).
    - intros a b. destruct (ik_dec a) as [x|]; destruct (ik_dec b) as [y|]; try reflexivity.
      + apply (icmp_opp c ok).
      + apply (cmp_opp bytewise bytewise_ok).
    - intros a b d. destruct (ik_dec a) as [x|]; destruct (ik_dec b) as [y|]; destruct (ik_dec d) as [z|];
        try discriminate; try reflexivity.
      + apply (icmp_trans c ok).
      + apply (cmp_trans bytewise bytewise_ok).
  Qed.
End IbcOk.

(* ------------------------------------------------------------------ stored pairs as entries *)
Section Entries.
  Variable c : comparer.
  Hypothesis ok : comparer_ok c.
  Variable p : kparams.
  Hypothesis pok : kparams_ok p.

  Lemma entry_of_dec kv k : ik_dec (fst kv) = Some k ->
    entry_of kv = {| e_uk := uk k; e_seq := ik_seq k; e_kind := ik_kind k; e_val := snd kv |}.
  Proof. intros H. unfold entry_of. rewrite H. reflexivity. Qed.

  Lemma e_ikey_entry_of kv k : ik_dec (fst kv) = Some k -> e_ikey (entry_of kv) = k.
  Proof.
    intros H. rewrite (entry_of_dec kv k H). unfold e_ikey, pack, ik_seq, ik_kind. cbn [e_uk e_seq e_kind].
    destruct k as [u n]. cbn [uk num]. f_equal.
    pose proof (N.div_mod n 256 ltac:(discriminate)). lia.
  Qed.

  Definition keys_ok (kvs : list (bytes * bytes)) : Prop := Forall (fun kv => key_okb p (fst kv) = true) kvs.

  Lemma key_okb_dec b : key_okb p b = true ->
    exists k, ik_dec b = Some k /\ (ik_kind k = keyTypeDel p \/ ik_kind k = keyTypeVal p).
  Proof.
    unfold key_okb. destruct (ik_dec b) as [k|]; [|discriminate]. intros H. exists k. split; [reflexivity|].
    apply Bool.orb_true_iff in H as [H|H]; apply N.eqb_eq in H; auto.
  Qed.

  Lemma kind_le_val k : ik_kind k = keyTypeDel p \/ ik_kind k = keyTypeVal p -> keyTypeSeek p <= keyTypeVal p ->
    ik_kind k <= keyTypeVal p.
  Proof. destruct pok as (H1 & H2 & _). intros [->| ->] H; lia. Qed.

  Lemma parse_ok b k : ik_dec b = Some k -> ik_kind k <= keyTypeVal p ->
    parse_ikey p b = Some (uk k, ik_seq k, ik_kind k).
  Proof.
    intros H Hk. apply ik_dec_some in H as (_ & S & _). unfold parse_ikey. rewrite S.
    replace (keyTypeVal p <? ik_kind k) with false by (symmetry; apply N.ltb_ge; exact Hk). reflexivity.
  Qed.

  Lemma keys_ok_kinds kvs : keys_ok kvs -> kinds_ok p (map entry_of kvs).
  Proof.
    intros H. unfold kinds_ok. apply Forall_map. eapply Forall_impl; [|exact H]. cbn beta.
    intros kv Hk. apply key_okb_dec in Hk as (k & D & K). rewrite (entry_of_dec kv k D). cbn [e_kind].
    destruct pok as (H1 & H2 & _). destruct K as [-> | ->]; assumption.
  Qed.

  (* "first pair whose key is not below the probe" in the encoded order = find_ge of the L1 model on the
     decoded entries *)
  Definition not_below (key : bytes) (kv : bytes * bytes) : bool :=
    match cmp (ibc c) (fst kv) key with Lt => false | _ => true end.

  Lemma find_not_below key q kvs : keys_ok kvs -> ik_dec key = Some q ->
    option_map entry_of (find (not_below key) kvs) = find_ge c q (map entry_of kvs).
  Proof.
    intros Hk Hq. induction kvs as [|kv kvs IH]; [reflexivity|].
    inversion Hk as [|? ? Hkv Hk']; subst. cbn [find map find_ge].
    apply key_okb_dec in Hkv as (k & D & _).
    unfold not_below at 1. rewrite (ibc_dec c _ _ _ _ D Hq), (e_ikey_entry_of kv k D).
    destruct (icmp c k q); try reflexivity. apply IH. exact Hk'.
  Qed.

  (* strictly increasing encoded keys = strongly sorted entries *)
  Lemma sorted_from_ssorted k0 kv0 kvs : ik_dec (fst kv0) = Some k0 -> keys_ok kvs ->
    Cursor.sorted_from (ibc c) (fst kv0) kvs ->
    Forall (fun b => ecmp c (entry_of kv0) b = Lt) (map entry_of kvs) /\ ssorted c (map entry_of kvs).
  Proof.
    revert k0 kv0. induction kvs as [|[k1 v1] kvs IH]; intros k0 kv0 D0 Hk Hs; cbn [map ssorted]; [split; [constructor|exact I]|].
    inversion Hk as [|? ? Hkv Hk']; subst. cbn [fst] in Hkv.
    apply key_okb_dec in Hkv as (x1 & D1 & _). cbn [Cursor.sorted_from] in Hs. destruct Hs as [L Hs].
    destruct (IH x1 (k1, v1) D1 Hk' Hs) as [F1 S1].
    assert (E01 : ecmp c (entry_of kv0) (entry_of (k1, v1)) = Lt).
    { unfold ecmp. rewrite (e_ikey_entry_of kv0 k0 D0), (e_ikey_entry_of (k1, v1) x1 D1).
      rewrite <- (ibc_dec c (fst kv0) k1 k0 x1 D0 D1). exact L. }
    split; [|split; assumption].
    constructor; [exact E01|].
    eapply Forall_impl; [|exact F1]. cbn beta. intros b Hb. eapply (ecmp_lt_trans c ok); eauto.
  Qed.

  Lemma sorted_ssorted kvs : keys_ok kvs -> Cursor.sorted (ibc c) kvs -> ssorted c (map entry_of kvs).
  Proof.
    destruct kvs as [|[k0 v0] kvs]; [intros; exact I|]. intros Hk Hs.
    inversion Hk as [|? ? Hkv Hk']; subst. cbn [fst] in Hkv. apply key_okb_dec in Hkv as (x0 & D0 & _).
    cbn [map ssorted]. apply (sorted_from_ssorted x0 (k0, v0) kvs D0 Hk' Hs).
  Qed.
End Entries.
