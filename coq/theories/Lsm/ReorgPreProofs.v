(* Lsm/ReorgPreProofs.v — the reorganisations the DB performs are admissible (History.reorg_ok) for every comparer
   satisfying the PREORDER contract: rearrangements, and a table compaction (inputs merged, drop rule with the user
   comparer deciding "same user key", everything else untouched). *)
From GL Require Import Base.Order Base.OrderProofs Base.OrderPre Codec.IKey Codec.IKeyProofs Codec.IKeyPreProofs
  Lsm.Lsm Lsm.Compact Lsm.LsmProofs Lsm.LsmPreProofs Lsm.CompactProofs Lsm.CompactPreProofs Lsm.History
  Lsm.HistoryProofs Lsm.ReorgProofs.
From Coq Require Import ZArith Lia ZifyN ZifyNat ZifyBool.

Section Proofs.
  Variable c : comparer.
  Hypothesis ok : comparer_pre_ok c.
  Variable p : kparams.
  Hypothesis pok : kparams_ok p.

  Notation newest := (newest c).
  Notation vis := (vis c).
  Notation res := (History.res p).
  Notation ssorted := (ssorted c).
  Notation kinds_ok := (kinds_ok p).

  (* no two distinct stored entries share user key (class) and sequence number *)
  Definition uniq_inE (l : list entry) : Prop :=
    forall a b, In a l -> In b l -> cmp c (e_uk a) (e_uk b) = Eq -> e_seq a = e_seq b -> a = b.

  Lemma pnewest_same_elems k s l1 l2 : uniq_inE l1 -> same_elems l1 l2 ->
    newest k s l1 None = newest k s l2 None.
  Proof.
    intros Hu Hse.
    destruct (newest k s l1 None) as [m1|] eqn:E1; destruct (newest k s l2 None) as [m2|] eqn:E2; try reflexivity.
    - pose proof (newest_max_acc c k s l1 None m1 E1) as [M1 _].
      pose proof (newest_max_acc c k s l2 None m2 E2) as [M2 _].
      apply (newest_in c) in E1 as [E1|[H1 V1]]; [discriminate|].
      apply (newest_in c) in E2 as [E2|[H2 V2]]; [discriminate|].
      f_equal. apply Hu; [exact H1|apply Hse; exact H2| |].
      + eapply (same_class_of_vis c ok); eauto.
      + assert (e_seq m2 <= e_seq m1) by (apply M1; [apply Hse; exact H2|exact V2]).
        assert (e_seq m1 <= e_seq m2) by (apply M2; [apply Hse; exact H1|exact V1]). lia.
    - exfalso. apply (newest_in c) in E1 as [E1|[H1 V1]]; [discriminate|].
      pose proof (newest_none_all c k s l2 E2 m1 (proj1 (Hse m1) H1)). congruence.
    - exfalso. apply (newest_in c) in E2 as [E2|[H2 V2]]; [discriminate|].
      pose proof (newest_none_all c k s l1 E1 m2 (proj2 (Hse m2) H2)). congruence.
  Qed.

  (* Rotation, flush, trivial move: the stored entries are the same, only their place changes. *)
  Theorem rearrangement_ok_pre h s' : uniq_inE (h_store h) -> same_elems (h_store h) s' -> reorg_ok c p h s'.
  Proof.
    intros Hu Hse. split.
    - intros x Hx. apply Hse. exact Hx.
    - intros k s _. rewrite (pnewest_same_elems k s (h_store h) s' Hu Hse). reflexivity.
  Qed.

  Lemma pecmp_opp a b : ecmp c b a = CompOpp (ecmp c a b).
  Proof. apply (picmp_opp c ok). Qed.

  Lemma pins_sorted e l : ssorted l -> (forall x, In x l -> ecmp c e x <> Eq) -> ssorted (ins c e l).
  Proof.
    induction l as [|y l IH]; intros Hs Hne; cbn [ins]; [split; [constructor|exact I]|].
    destruct Hs as [Hall Hs]. destruct (ecmp c e y) eqn:E.
    - exfalso. apply (Hne y); [left; reflexivity|exact E].
    - split; [|split; assumption]. constructor; [exact E|].
      rewrite Forall_forall in *. intros x Hx. eapply (picmp_trans c ok); [exact E|apply Hall; exact Hx].
    - split.
      + rewrite Forall_forall in *. intros x Hx. apply ins_in in Hx as [->|Hx]; [|apply Hall; exact Hx].
        rewrite pecmp_opp, E. reflexivity.
      + apply IH; [exact Hs|]. intros x Hx. apply Hne. right; exact Hx.
  Qed.

  Lemma pecmp_eq_ks a b : kinds_ok [a; b] -> ecmp c a b = Eq -> same_ks c a b.
  Proof.
    intros Hk H. apply (picmp_eq c) in H. unfold e_ikey in H. cbn [uk num] in H. destruct H as [Hu Hn].
    split; [exact Hu|]. unfold pack in Hn.
    inversion Hk as [|? ? Ha Hk']; subst. inversion Hk' as [|? ? Hb _]; subst.
    pose proof (seek_lt_256 p pok). lia.
  Qed.

  Lemma pisort_sorted l : kinds_ok l -> uniqE c l -> ssorted (isort c l).
  Proof.
    induction l as [|e l IH]; intros Hk Hnd; cbn [isort fold_right]; [exact I|]. fold (isort c l).
    cbn [uniqE] in Hnd. destruct Hnd as [Hn Hnd].
    apply pins_sorted; [apply IH; [eapply kinds_ok_tl; eauto|exact Hnd]|].
    intros x Hx E. apply (proj1 (isort_in c l x)) in Hx. apply (Hn x Hx).
    apply pecmp_eq_ks; [|exact E].
    apply (pkinds_pair p (e :: l)); [exact Hk|left; reflexivity|right; exact Hx].
  Qed.

  (* ---- a table compaction is an admissible reorganisation ---- *)
  Section Compaction.
    Variable minSeq : N.
    Variable base : bytes -> bool.
    Hypothesis minSeq_lt : minSeq < keyMaxSeq p.

    Variable I O : list entry.          (* entries of the input tables / everything else stored *)
    Hypothesis I_kinds : kinds_ok I.
    Hypothesis I_nodup : uniqE c I.
    Hypothesis S_uniq : uniq_inE (I ++ O).
    (* every other stored entry of a user key (class) that occurs in the inputs is either newer than all input
       entries of that key, or older — and then the key is not at base level *)
    Hypothesis others : forall o i, In o O -> In i I -> cmp c (e_uk o) (e_uk i) = Eq ->
      e_seq i < e_seq o \/ (e_seq o < e_seq i /\ base (e_uk i) = false).

    Let K := drop_run c p minSeq base None (isort c I).

    Lemma pK_incl x : In x K -> In x I.
    Proof. intros H. apply (proj1 (isort_in c I x)). eapply pdrop_incl; eauto. Qed.

    Theorem compaction_preserves_pre k s : minSeq <= s ->
      res (newest k s (K ++ O) None) = res (newest k s (I ++ O) None).
    Proof.
      intros Hms.
      assert (SE : same_elems (I ++ O) (isort c I ++ O)).
      { intros x. rewrite !in_app_iff, isort_in. tauto. }
      rewrite (pnewest_same_elems k s (I ++ O) (isort c I ++ O) S_uniq SE).
      rewrite !(newest_app c).
      pose proof (pisort_sorted I I_kinds I_nodup) as Hs.
      pose proof (isort_kinds c p I I_kinds) as Hk.
      rewrite (pnewest_sorted c ok p pok k s K None
                 (pdrop_kinds c p minSeq base None _ Hk) (pdrop_sorted c p minSeq base None _ Hs)).
      rewrite (pnewest_sorted c ok p pok k s (isort c I) None Hk Hs).
      assert (D := pdrop_fresh_strong c ok p pok minSeq base minSeq_lt k s Hms (isort c I) None Hs Hk).
      destruct D as [D|[e [F [Kd [Bk [Se D]]]]]]; [discriminate| |].
      - fold K in D. rewrite D. reflexivity.
      - fold K in D. rewrite D, F. cbn [newer].
        apply (first_vis_in c) in F as [He Ve]. apply (proj1 (isort_in c I e)) in He.
        destruct (vis_dec_list c k s O) as [Hex|Hno].
        + f_equal. symmetry. apply (newest_acc_none c); [|exact Hex].
          intros x Hx Vx.
          destruct (others x e Hx He) as [H|[_ H]]; [eapply (same_class_of_vis c ok); eauto|exact H|].
          rewrite Bk in H. discriminate.
        + rewrite !(newest_none c k s O Hno). unfold History.res. cbn [group_res]. unfold res_of.
          rewrite Kd, N.eqb_refl. reflexivity.
    Qed.

    Theorem compaction_reorg_ok_pre h s' :
      same_elems (h_store h) (I ++ O) -> same_elems s' (K ++ O) ->
      (forall q, protected h q -> minSeq <= q) ->
      reorg_ok c p h s'.
    Proof.
      intros HS HS' Hprot. split.
      - intros x Hx. apply HS. apply HS' in Hx. apply in_app_or in Hx as [Hx|Hx]; apply in_or_app;
          [left; apply pK_incl; exact Hx|right; exact Hx].
      - intros k s Hp.
        assert (US : uniq_inE (h_store h)).
        { intros a b Ha Hb. apply S_uniq; apply HS; assumption. }
        assert (UK : uniq_inE (K ++ O)).
        { intros a b Ha Hb. apply S_uniq.
          - apply in_app_or in Ha as [Ha|Ha]; apply in_or_app; [left; apply pK_incl; exact Ha|right; exact Ha].
          - apply in_app_or in Hb as [Hb|Hb]; apply in_or_app; [left; apply pK_incl; exact Hb|right; exact Hb]. }
        assert (SE' : same_elems (K ++ O) s') by (intros x; symmetry; apply HS').
        rewrite <- (pnewest_same_elems k s (K ++ O) s' UK SE').
        rewrite (pnewest_same_elems k s (h_store h) (I ++ O) US HS).
        apply compaction_preserves_pre. apply Hprot. exact Hp.
    Qed.
  End Compaction.
End Proofs.
