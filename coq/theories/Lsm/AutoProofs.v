(* Lsm/AutoProofs.v — the background loop (model Lsm/RangeCompact.v: auto_loop = tCompaction repeating
   tableAutoCompaction while needCompaction, no command and no write arriving) reaches needCompaction = false.
   Measure: the same weighted entry count as for the range loop, wsum K: every table compaction — size-triggered,
   seek-triggered, trivial move or rewrite — takes a >= 1 entries out of its source level and adds at most a one level
   down.  What has to be shown is that the source level stays below a bound K: goleveldb has no deepest level,
   computeCompaction scores EVERY level (the deepest included) against GetCompactionTotalSize(level), so the bound
   exists only if the level limits eventually exceed what the DB can hold.  Hypothesis of the theorem: from level K on
   the limit exceeds Bz * (number of stored entries), where Bz bounds the size of a table per entry.  Without it the
   statement is false (Props/C06.v: C06_auto_compaction_quiesces_refuted).
   Also: the simple output oracle satisfies bld_ok; quiescence implies the write pause is lifted. *)
From GL Require Import Base.Order Base.OrderProofs Codec.IKey Codec.IKeyProofs Lsm.Lsm Lsm.Compact Lsm.LsmProofs
  Lsm.CompactProofs Lsm.WfProofs Lsm.OutputProofs Lsm.Pick Lsm.PickBase Lsm.OverlapProofs Lsm.ExpandProofs Lsm.WfLsm
  Lsm.FinishProofs Lsm.InsertProofs Lsm.StepProofs Lsm.ModelStep Lsm.FlushProofs Lsm.C06Steps Lsm.RangeCompact
  Lsm.RangeStep Lsm.RangeProofs.
From Coq Require Import Arith ZArith Lia.

Local Open Scope nat_scope.

(* ---- float64 scores as quotients ---- *)
Ltac zb :=
  repeat (match goal with
          | |- context [(?a <? ?b)%Z] => destruct (Z.ltb_spec a b)
          | |- context [(?a <=? ?b)%Z] => destruct (Z.leb_spec a b)
          | |- context [(?a =? ?b)%Z] => destruct (Z.eqb_spec a b)
          | H : context [(?a <? ?b)%Z] |- _ => destruct (Z.ltb_spec a b)
          | H : context [(?a <=? ?b)%Z] |- _ => destruct (Z.leb_spec a b)
          | H : context [(?a =? ?b)%Z] |- _ => destruct (Z.eqb_spec a b)
          end; cbn [sc_n sc_d andb orb negb] in *).

Definition sc_real (s : score) : Prop := sc_nan (sc_norm s) = false.

Lemma sc_ge1_inv n d : sc_ge1 {| sc_n := n; sc_d := d |} = true -> (0 <= n)%Z -> (0 < n /\ 0 <= d /\ d <= n)%Z.
Proof. unfold sc_ge1, sc_norm, sc_nan. cbn [sc_n sc_d]. intros H Hn. zb; try discriminate; lia. Qed.

Lemma sc_ge1_small n d : (0 <= n)%Z -> (n < d)%Z -> sc_ge1 {| sc_n := n; sc_d := d |} = false.
Proof. unfold sc_ge1, sc_norm, sc_nan. cbn [sc_n sc_d]. intros H Hn. zb; try reflexivity; lia. Qed.

Lemma sc_ge1_big n d : (0 < d)%Z -> (d <= n)%Z -> sc_ge1 {| sc_n := n; sc_d := d |} = true.
Proof. unfold sc_ge1, sc_norm, sc_nan. cbn [sc_n sc_d]. intros H Hn. zb; try reflexivity; lia. Qed.

Lemma sc_gt_real a b : sc_gt a b = true -> sc_real a.
Proof.
  destruct a as [na da], b as [nb db]. unfold sc_real, sc_gt, sc_norm, sc_nan. cbn [sc_n sc_d]. intros H.
  zb; try discriminate; try reflexivity; lia.
Qed.

Lemma sc_dominated a b : sc_ge1 a = true -> sc_gt a b = false -> sc_real b -> sc_ge1 b = true.
Proof.
  destruct a as [na da], b as [nb db]. unfold sc_real, sc_gt, sc_ge1, sc_norm, sc_nan. cbn [sc_n sc_d]. intros H1 H2 H3.
  zb; try discriminate; try reflexivity; try lia; nia.
Qed.

Definition sc_init : score := {| sc_n := -1; sc_d := 1 |}.

Lemma sc_init_real : sc_real sc_init.
Proof. reflexivity. Qed.

Section Auto.
  Variable c : comparer.
  Hypothesis ok : comparer_ok c.
  Variable p : kparams.
  Hypothesis pok : kparams_ok p.
  Variable sz : table -> N.
  Variable o : copts.
  Variable bld : nat -> list (list table) -> compaction -> list table.
  Variable ms : nat -> N.
  Hypothesis B_ok : bld_ok c p sz o bld ms.

  Notation wf_lsm := (wf_lsm c p).
  Notation level_score := (level_score sz o).

  (* ---- computeCompaction ---- *)
  Definition best_good (v : list (list table)) (best : option nat * score) : Prop :=
    sc_real (snd best) /\
    (snd best = sc_init \/ exists l, fst best = Some l /\ snd best = level_score l (lv v l)).

  Lemma compute_from_spec v : forall ls level best, (forall j, nth j ls [] = lv v (level + j)) ->
    best_good v best -> (forall j, j < level -> sc_ge1 (level_score j (lv v j)) = true -> sc_ge1 (snd best) = true) ->
    let r := compute_from sz o level ls best in
    best_good v r /\ (forall j, j < level + length ls -> sc_ge1 (level_score j (lv v j)) = true -> sc_ge1 (snd r) = true).
  Proof.
    induction ls as [|tf ls IH]; intros level best Hn G D; cbn [compute_from].
    - cbn [length]. rewrite Nat.add_0_r. split; assumption.
    - cbv zeta. assert (Etf : tf = lv v level) by (pose proof (Hn 0) as Q0; cbn [nth] in Q0; rewrite Nat.add_0_r in Q0; exact Q0).
      set (s := level_score level tf).
      set (b1 := if sc_gt s (snd best) then (Some level, s) else best).
      assert (G1 : best_good v b1).
      { unfold b1. destruct (sc_gt s (snd best)) eqn:Q; [|exact G]. split; cbn [fst snd].
        - apply (sc_gt_real _ _ Q).
        - right. exists level. split; [reflexivity|]. unfold s. rewrite Etf. reflexivity. }
      assert (D1 : forall j, j < S level -> sc_ge1 (level_score j (lv v j)) = true -> sc_ge1 (snd b1) = true).
      { intros j Hj Hs. unfold b1. destruct (Nat.eq_dec j level) as [->|Hne].
        - rewrite <- Etf in Hs. fold s in Hs. destruct (sc_gt s (snd best)) eqn:Q; cbn [snd]; [exact Hs|].
          apply (sc_dominated s (snd best) Hs Q). apply G.
        - assert (Hb : sc_ge1 (snd best) = true) by (apply (D j); [lia|exact Hs]).
          destruct (sc_gt s (snd best)) eqn:Q; cbn [snd]; [|exact Hb].
          (* s > best >= 1 *)
          destruct s as [na da], (snd best) as [nb db]. clear -Q Hb.
          unfold sc_gt, sc_ge1, sc_norm, sc_nan in *. cbn [sc_n sc_d] in *. zb; try discriminate; try reflexivity; try lia; nia. }
      specialize (IH (S level) b1 ltac:(intros j; pose proof (Hn (S j)) as Qj; cbn [nth] in Qj; rewrite Qj; f_equal; lia) G1 D1). cbv zeta in IH.
      destruct IH as [I1 I2]. split; [exact I1|]. intros j Hj. apply I2. cbn [length] in Hj. lia.
  Qed.

  Lemma compute_compaction_spec v :
    let r := compute_compaction sz o v in
    best_good v r /\ (forall j, sc_ge1 (level_score j (lv v j)) = true -> sc_ge1 (snd r) = true).
  Proof.
    unfold compute_compaction.
    destruct (compute_from_spec v v 0 (None, sc_init)) as [G D].
    - intros j. reflexivity.
    - split; [exact sc_init_real|left; reflexivity].
    - intros j Hj. lia.
    - cbv zeta. split; [exact G|]. intros j Hs. destruct (Nat.lt_ge_cases j (length v)) as [Q|Q]; [apply (D j); [lia|exact Hs]|].
      exfalso. unfold lv in Hs. rewrite nth_overflow in Hs by exact Q.
      unfold RangeCompact.level_score in Hs. destruct (Nat.eqb j 0).
      + cbn [length] in Hs. destruct (sc_ge1_inv _ _ Hs ltac:(cbn; lia)) as [H1 _]. cbn in H1. lia.
      + cbn in Hs. destruct (sc_ge1_inv _ _ Hs ltac:(lia)) as [H1 _]. lia.
  Qed.

  Lemma total_size_from tf : forall a, fold_left (fun a t => (a + sz t)%N) tf a = (a + total_size sz tf)%N.
  Proof.
    unfold total_size. induction tf as [|t tf IH]; intros a; cbn [fold_left]; [lia|].
    rewrite IH. rewrite (IH (0 + sz t)%N). lia.
  Qed.

  Lemma total_size_cons t tf : total_size sz (t :: tf) = (sz t + total_size sz tf)%N.
  Proof. unfold total_size at 1. cbn [fold_left]. rewrite total_size_from. lia. Qed.

  (* a level whose score reaches 1 is not empty *)
  Lemma score_ge1_nonempty l tf : sc_ge1 (level_score l tf) = true -> tf <> [].
  Proof.
    intros H E. subst tf. unfold RangeCompact.level_score in H. destruct (Nat.eqb l 0).
    - destruct (sc_ge1_inv _ _ H ltac:(cbn; lia)) as [H1 _]. cbn in H1. lia.
    - destruct (sc_ge1_inv _ _ H ltac:(cbn; lia)) as [H1 _]. cbn in H1. lia.
  Qed.

  (* ---- pickCompaction ---- *)
  Definition seek_ok (st : cpstate) (K : nat) : Prop :=
    forall l t, cp_seek st = Some (l, t) -> In t (lv (cp_v st) l) /\ l < K.

  Lemma tnth_in (tf : list table) i : i < length tf -> In (tnth tf i) tf.
  Proof. intros H. unfold tnth. apply nth_In. exact H. Qed.

  Lemma pick_seed_spec st K : seek_ok st K -> need_compaction sz o st = true ->
    exists lvl seed ty, pick_seed c sz o st = POk (Some (lvl, seed, ty)) /\ seed_ok (cp_v st) lvl seed /\
      (sc_ge1 (level_score lvl (lv (cp_v st) lvl)) = true \/ lvl < K).
  Proof.
    intros Sk Hn. unfold need_compaction in Hn. unfold pick_seed.
    destruct (compute_compaction_spec (cp_v st)) as [[_ G] _]. cbv zeta in G.
    destruct (sc_ge1 (snd (compute_compaction sz o (cp_v st)))) eqn:Q.
    - destruct G as [G|[l [G1 G2]]]; [rewrite G in Q; discriminate|]. rewrite G1.
      rewrite G2 in Q. pose proof (score_ge1_nonempty l _ Q) as Hne. unfold lv in Hne.
      set (tables := nth l (cp_v st) []) in *.
      assert (Fallback : forall t0 : list table, (t0 = [] \/ exists i, i < length tables /\ t0 = [tnth tables i]) ->
                exists seed, match t0, tables with
                             | _ :: _, _ => POk (Some (l, t0, if Nat.eqb l 0 then TLevel0 else TNonLevel0))
                             | [], t :: _ => POk (Some (l, [t], if Nat.eqb l 0 then TLevel0 else TNonLevel0))
                             | [], [] => PPanic
                             end = POk (Some (l, seed, if Nat.eqb l 0 then TLevel0 else TNonLevel0)) /\
                             seed_ok (cp_v st) l seed).
      { intros t0 [->|[i [Hi ->]]].
        - destruct tables as [|t r] eqn:Et; [congruence|]. exists [t]. split; [reflexivity|].
          split; [discriminate|]. split; [|repeat constructor; intros []].
          intros x [<-|[]]. unfold lv. fold tables. rewrite Et. left; reflexivity.
        - exists [tnth tables i]. split; [reflexivity|]. split; [discriminate|]. split; [|repeat constructor; intros []].
          intros x [<-|[]]. unfold lv. fold tables. apply tnth_in. exact Hi. }
      match goal with |- context [match ?T with [] => _ | _ :: _ => _ end] => set (t0 := T) end.
      assert (Ht0 : t0 = [] \/ exists i, i < length tables /\ t0 = [tnth tables i]).
      { unfold t0. destruct (get_ptr (cp_ptrs st) l) as [cptr|]; [|left; reflexivity].
        destruct (Nat.ltb 0 l); [|left; reflexivity]. cbv zeta.
        match goal with |- context [Nat.ltb ?I (length tables)] => destruct (Nat.ltb I (length tables)) eqn:Qi end;
          [|left; reflexivity].
        apply Nat.ltb_lt in Qi. right. eexists. split; [exact Qi|reflexivity]. }
      destruct (Fallback t0 Ht0) as [seed [E Sok]]. exists l, seed, (if Nat.eqb l 0 then TLevel0 else TNonLevel0).
      split; [exact E|]. split; [exact Sok|]. left. exact Q.
    - cbn [orb] in Hn. destruct (cp_seek st) as [[l t]|] eqn:Es; [|discriminate].
      destruct (Sk l t Es) as [H1 H2]. exists l, [t], TSeek. split; [reflexivity|].
      split; [|right; exact H2]. split; [discriminate|]. split; [|repeat constructor; intros []].
      intros x [<-|[]]. exact H1.
  Qed.

  (* ---- the bound on the source level ---- *)
  Variable Bz : N.
  Hypothesis sz_bound : forall t, (sz t <= Bz * N.of_nat (length (t_entries t)))%N.

  Lemma total_size_bound tf : (total_size sz tf <= Bz * N.of_nat (elen tf))%N.
  Proof.
    induction tf as [|t tf IH]; [cbn; lia|]. rewrite total_size_cons, elen_cons. pose proof (sz_bound t). lia.
  Qed.

  Variable K n0 : nat.
  Hypothesis HK : 1 <= K.
  Hypothesis limits_grow : forall L, K <= L -> (Z.of_N (Bz * N.of_nat n0) < o_tot_limit o L)%Z.

  Definition ainv (st : cpstate) : Prop :=
    wf_lsm (cp_v st) /\ levels_below (cp_v st) (S K) /\ tsum (S K) (tl (cp_v st)) <= n0 /\ seek_ok st K.

  Lemma scored_level_below v l : levels_below v (S K) -> tsum (S K) (tl v) <= n0 ->
    sc_ge1 (level_score l (lv v l)) = true -> l < K.
  Proof.
    intros Hb Ht Hs. destruct (Nat.lt_ge_cases l K) as [Q|Q]; [exact Q|]. exfalso.
    unfold RangeCompact.level_score in Hs. replace (Nat.eqb l 0) with false in Hs by (symmetry; apply Nat.eqb_neq; lia).
    rewrite sc_ge1_small in Hs; [discriminate|lia|].
    eapply Z.le_lt_trans; [|apply (limits_grow l Q)].
    pose proof (total_size_bound (lv v l)) as B1.
    assert (B2 : elen (lv v l) <= n0).
    { destruct (Nat.eq_dec l K) as [->|Hne].
      - pose proof (tsum_member (S K) (tl v) K ltac:(lia)). unfold tl at 1 in H. lia.
      - rewrite (Hb l) by lia. cbn. lia. }
    nia.
  Qed.

  Lemma auto_step_spec st : ainv st -> need_compaction sz o st = true ->
    exists st', auto_step c sz o bld st = POk st' /\ ainv st' /\ wsum K (tl (cp_v st')) + 1 <= wsum K (tl (cp_v st)).
  Proof.
    intros [W [Hb [Ht Sk]]] Hn. unfold auto_step, pick_compaction.
    destruct (pick_seed_spec st K Sk Hn) as [lvl [seed [ty [E [Sok Hl]]]]]. rewrite E. cbn [pbind].
    assert (Hlt : lvl < K) by (destruct Hl as [Hl|Hl]; [apply (scored_level_below _ _ Hb Ht Hl)|exact Hl]).
    pose proof Sok as [S1 [S2 S3]].
    destruct (model_pick c ok p sz (cp_v st) W lvl (o_exp_limit o lvl) seed S1 S2 S3) as [cm [En _]].
    rewrite En. cbn [pbind].
    destruct (table_compaction_spec c ok p pok sz o bld ms B_ok st lvl seed cm false W Sok En)
      as [st' [Et [Rel [_ [Es _]]]]].
    exists st'. split; [exact Et|]. split.
    - split; [apply Rel|]. split; [apply (step_rel_below c p (cp_v st) lvl (cp_v st') (S K) Rel Hb); lia|].
      split; [pose proof (step_rel_tsum c p (cp_v st) lvl (cp_v st') (S K) Rel); lia|].
      intros l t Q. rewrite Es in Q. discriminate.
    - apply (step_rel_wsum c p (cp_v st) lvl (cp_v st') K Rel Hlt).
  Qed.

  Theorem auto_loop_quiesces : forall fuel st, ainv st -> wsum K (tl (cp_v st)) <= fuel ->
    exists st', auto_loop c sz o bld fuel st = POk st' /\ need_compaction sz o st' = false /\ ainv st'.
  Proof.
    induction fuel as [|fuel IH]; intros st I Hf.
    - cbn [auto_loop]. destruct (need_compaction sz o st) eqn:Hn; [|exists st; split; [reflexivity|split; [exact Hn|exact I]]].
      destruct (auto_step_spec st I Hn) as [st' [_ [_ M]]]. lia.
    - cbn [auto_loop]. destruct (need_compaction sz o st) eqn:Hn; [|exists st; split; [reflexivity|split; [exact Hn|exact I]]].
      destruct (auto_step_spec st I Hn) as [st1 [E [I1 M]]]. rewrite E. cbn [pbind]. apply (IH st1 I1). lia.
  Qed.
End Auto.

(* ---- the write throttle: a quiescent version lets writers through ---- *)
Lemma quiescent_resumes_write sz o st :
  need_compaction sz o st = false -> (0 < o_l0_trigger o)%Z -> (o_l0_trigger o <= o_l0_pause o)%Z ->
  resume_write o st = true.
Proof.
  intros Hn H0 H1. unfold need_compaction in Hn. apply Bool.orb_false_iff in Hn as [Hn _].
  unfold resume_write. apply Z.ltb_lt.
  destruct (compute_compaction_spec sz o (cp_v st)) as [_ D]. cbv zeta in D.
  destruct (Z.lt_ge_cases (Z.of_nat (length (nth 0 (cp_v st) []))) (o_l0_trigger o)) as [Q|Q]; [lia|].
  exfalso. specialize (D 0). unfold RangeCompact.level_score, lv in D. cbn [Nat.eqb] in D.
  rewrite (sc_ge1_big _ _ H0 Q) in D. specialize (D eq_refl). congruence.
Qed.

(* ---- the simple output oracle is admissible ---- *)
Lemma fold_max_ge (l : list N) x : In x l -> (x <= fold_right N.max 0 l)%N.
Proof.
  induction l as [|a l IH]; intros H; [destruct H|]. cbn [fold_right]. destruct H as [->|H]; [lia|].
  specialize (IH H). lia.
Qed.

Lemma simple_bld_ok c (ok : comparer_ok c) p sz o ms : bld_ok c p sz o (simple_bld c p ms) ms.
Proof.
  intros k v lvl seed cm W [S1 [S2 S3]] E.
  destruct (model_pick c ok p sz v W lvl (o_exp_limit o lvl) seed S1 S2 S3) as [cm' [E' Pk]].
  rewrite E in E'. injection E' as <-. pose proof (pk_level c v lvl seed cm Pk) as El.
  unfold simple_bld. rewrite El.
  destruct (compact_entries c p (ms k) (skipn (lvl + 2) v) (c_t0 cm ++ c_t1 cm)) as [|e kept] eqn:Ek.
  - exists [], []. split; [reflexivity|]. split; [split; [reflexivity|rewrite Ek; reflexivity]|].
    split; [reflexivity|]. split; [constructor|intros n i s []].
  - exists [e :: kept], [(max_num v + 1)%N]. split; [reflexivity|].
    split; [split; [reflexivity|rewrite Ek; cbn [concat]; apply app_nil_r]|]. split; [reflexivity|].
    split; [repeat constructor; intros []|]. intros n i s [<-|[]] Hs Q.
    assert (Hin : In (t_num s) (nums_of (concat v))).
    { apply in_map. apply (in_level_concat v i s Hs). }
    pose proof (fold_max_ge _ _ Hin) as Hm. unfold max_num in Q. lia.
Qed.

(* ---- closed form ---- *)
Section ClosedAuto.
  Variable c : comparer.
  Hypothesis ok : comparer_ok c.
  Variable p : kparams.
  Hypothesis pok : kparams_ok p.
  Variable sz : table -> N.
  Variable o : copts.
  Variable bld : nat -> list (list table) -> compaction -> list table.
  Variable ms : nat -> N.
  Hypothesis B_ok : bld_ok c p sz o bld ms.

  (* a table is at most Bz bytes per entry *)
  Definition size_bounded (Bz : N) : Prop := forall t, (sz t <= Bz * N.of_nat (length (t_entries t)))%N.
  (* from level K on, the level limit exceeds what n entries can weigh *)
  Definition limits_exceed (Bz : N) (n K : nat) : Prop :=
    forall L, K <= L -> (Z.of_N (Bz * N.of_nat n) < o_tot_limit o L)%Z.
  (* cSeek names a table of the version *)
  Definition seek_in (st : cpstate) : Prop := forall l t, cp_seek st = Some (l, t) -> In t (lv (cp_v st) l).

  Theorem auto_compaction_quiesces st Bz K :
    wf_lsm c p (cp_v st) -> seek_in st -> size_bounded Bz -> 1 <= K -> length (cp_v st) <= K ->
    limits_exceed Bz (elen (concat (cp_v st))) K ->
    forall fuel, K * elen (concat (cp_v st)) <= fuel ->
    exists st', auto_loop c sz o bld fuel st = POk st' /\ need_compaction sz o st' = false /\ wf_lsm c p (cp_v st') /\
                levels_below (cp_v st') (S K).
  Proof.
    intros W Sk Hz HK Hl Hlim fuel Hf.
    assert (I : ainv c p K (elen (concat (cp_v st))) st).
    { split; [exact W|]. split; [apply (levels_below_mono _ (length (cp_v st))); [apply levels_below_length|lia]|].
      split; [apply tsum_tl_le|]. intros l t E. split; [apply (Sk l t E)|].
      destruct (Nat.lt_ge_cases l K) as [Q|Q]; [exact Q|]. exfalso. pose proof (Sk l t E) as Hin.
      unfold lv in Hin. rewrite nth_overflow in Hin by lia. destruct Hin. }
    destruct (auto_loop_quiesces c ok p pok sz o bld ms B_ok Bz Hz K (elen (concat (cp_v st))) HK Hlim fuel st I)
      as [st' [E [Hn [W' [Hb _]]]]].
    - pose proof (wsum_le_entries K (cp_v st)). lia.
    - exists st'. split; [exact E|]. split; [exact Hn|]. split; [exact W'|exact Hb].
  Qed.
End ClosedAuto.
