(* Lsm/BuilderBase.v — compaction.baseLevelForKey with its per-level cursors (Builder.base_levels) answers exactly the
   stateless test Compact.is_base, provided the levels below the output level are ordered and disjoint, and the keys are
   asked in non-decreasing order (cursor invariant: every table before a cursor ends before the key). *)
From GL Require Import Base.Order Base.OrderProofs Codec.IKey Lsm.Lsm Lsm.Compact Lsm.LsmProofs Lsm.Pick Lsm.PickBase
  Lsm.Builder.
From Coq Require Import Arith Lia.

Local Open Scope nat_scope.

Section Base.
  Variable c : comparer.
  Hypothesis ok : comparer_ok c.
  Variable p : kparams.

  Notation lt := (Order.lt c).
  Notation le := (Order.le c).

  Definition lvl_ok (tables : list table) : Prop :=
    (forall t, In t tables -> tbl_ok c p t) /\ level_sorted c tables.

  (* every table before the cursor ends before the key *)
  Definition ptr_ok (u : bytes) (tables : list table) (ptr : nat) : Prop :=
    forall t, In t (firstn ptr tables) -> lt (umax_of t) u.

  Lemma ptr_ok_mono u u' tables ptr : le u u' -> ptr_ok u tables ptr -> ptr_ok u' tables ptr.
  Proof. intros H P t Ht. apply (OrderProofs.lt_le_trans c ok _ u); [apply P; exact Ht|exact H]. Qed.

  Lemma covers_iff t u : tbl_ok c p t -> t_covers c t u = Order.leb c (umin_of t) u && Order.leb c u (umax_of t).
  Proof.
    intros [_ Hne]. unfold t_covers. rewrite (t_first_lo t Hne), (t_last_hi t Hne). reflexivity.
  Qed.

  Lemma not_covers_after t u : tbl_ok c p t -> lt (umax_of t) u -> t_covers c t u = false.
  Proof.
    intros Ht H. rewrite (covers_iff t u Ht). apply Bool.andb_false_intro2.
    unfold Order.leb. apply (OrderProofs.cmp_lt_gt c ok) in H. rewrite H. reflexivity.
  Qed.

  Lemma not_covers_before t u : tbl_ok c p t -> lt u (umin_of t) -> t_covers c t u = false.
  Proof.
    intros Ht H. rewrite (covers_iff t u Ht). apply Bool.andb_false_intro1.
    unfold Order.leb. apply (OrderProofs.cmp_lt_gt c ok) in H. rewrite H. reflexivity.
  Qed.

  Lemma base_scan_spec u : forall rest ptr, lvl_ok rest ->
    let r := base_scan c rest ptr u in
    fst r = existsb (fun t => t_covers c t u) rest /\
    exists n, snd r = ptr + n /\ forall t, In t (firstn n rest) -> lt (umax_of t) u.
  Proof.
    induction rest as [|t rest IH]; intros ptr [Hok Hs]; cbn zeta.
    - cbn [base_scan fst snd existsb]. split; [reflexivity|]. exists 0. split; [lia|]. intros t [].
    - cbn [base_scan existsb].
      assert (Ht : tbl_ok c p t) by (apply Hok; left; reflexivity).
      assert (Hr : lvl_ok rest) by (split; [intros x Hx; apply Hok; right; exact Hx|apply Hs]).
      destruct (cmp c u (umax_of t)) eqn:E.
      + (* u = umax: this table decides *)
        cbn [fst snd]. split.
        * rewrite (covers_iff t u Ht). unfold Order.leb at 2. rewrite E. rewrite Bool.andb_true_r.
          assert (Hrest : existsb (fun t0 => t_covers c t0 u) rest = false).
          { apply Bool.not_true_is_false. intros Hex. apply existsb_exists in Hex as [t' [Ht' Hc]].
            rewrite (not_covers_before t' u) in Hc; [discriminate|apply Hok; right; exact Ht'|].
            destruct Hs as [Hall _]. rewrite Forall_forall in Hall.
            assert (L : lt (umax_of t) (umin_of t')).
            { apply (Hall t' Ht'); [apply t_hi_in; apply Ht|apply t_lo_in; apply (Hok t'); right; exact Ht']. }
            apply (cmp_eq c ok) in E. subst u. exact L. }
          rewrite Hrest, Bool.orb_false_r. unfold Order.leb. rewrite (cmp_opp c ok u (umin_of t)).
          destruct (cmp c u (umin_of t)); reflexivity.
        * exists 0. split; [lia|]. intros x [].
      + cbn [fst snd]. split.
        * rewrite (covers_iff t u Ht). unfold Order.leb at 2. rewrite E. rewrite Bool.andb_true_r.
          assert (Hrest : existsb (fun t0 => t_covers c t0 u) rest = false).
          { apply Bool.not_true_is_false. intros Hex. apply existsb_exists in Hex as [t' [Ht' Hc]].
            rewrite (not_covers_before t' u) in Hc; [discriminate|apply Hok; right; exact Ht'|].
            destruct Hs as [Hall _]. rewrite Forall_forall in Hall.
            assert (L : lt (umax_of t) (umin_of t')).
            { apply (Hall t' Ht'); [apply t_hi_in; apply Ht|apply t_lo_in; apply (Hok t'); right; exact Ht']. }
            apply (OrderProofs.lt_trans c ok _ (umax_of t)); [exact E|exact L]. }
          rewrite Hrest, Bool.orb_false_r. unfold Order.leb. rewrite (cmp_opp c ok u (umin_of t)).
          destruct (cmp c u (umin_of t)); reflexivity.
        * exists 0. split; [lia|]. intros x [].
      + assert (L : lt (umax_of t) u) by (apply (OrderProofs.cmp_gt_lt c ok); exact E).
        destruct (IH (S ptr) Hr) as [I1 [n [I2 I3]]]. split.
        * rewrite I1. rewrite (not_covers_after t u Ht L). reflexivity.
        * exists (S n). split; [rewrite I2; lia|]. intros x [<-|Hx]; [exact L|apply I3; exact Hx].
  Qed.

  Lemma existsb_split {A} (f : A -> bool) n l : existsb f l = existsb f (firstn n l) || existsb f (skipn n l).
  Proof. rewrite <- existsb_app, firstn_skipn. reflexivity. Qed.

  Lemma firstn_add {A} a b (l : list A) : firstn (a + b) l = firstn a l ++ firstn b (skipn a l).
  Proof.
    revert l; induction a as [|a IH]; intros l; [reflexivity|]. destruct l as [|x l]; cbn [plus firstn skipn app].
    - rewrite firstn_nil. reflexivity.
    - rewrite IH. reflexivity.
  Qed.

  (* one level: the cursor scan answers "some table of the level covers the key" and keeps the cursor invariant *)
  Lemma level_scan_spec u tables ptr : lvl_ok tables -> ptr_ok u tables ptr ->
    let r := base_scan c (skipn ptr tables) ptr u in
    fst r = existsb (fun t => t_covers c t u) tables /\ ptr_ok u tables (snd r).
  Proof.
    intros [Hok Hs] P. cbn zeta.
    assert (Hr : lvl_ok (skipn ptr tables)).
    { split; [intros t Ht; apply Hok; rewrite <- (firstn_skipn ptr tables); apply in_or_app; right; exact Ht|].
      apply (level_sorted_skipn c ptr tables Hs). }
    destruct (base_scan_spec u (skipn ptr tables) ptr Hr) as [S1 [n [S2 S3]]]. split.
    - rewrite S1. rewrite (existsb_split _ ptr tables).
      assert (F : existsb (fun t => t_covers c t u) (firstn ptr tables) = false).
      { apply Bool.not_true_is_false. intros Hex. apply existsb_exists in Hex as [t [Ht Hc]].
        rewrite (not_covers_after t u) in Hc; [discriminate| |apply P; exact Ht].
        apply Hok. rewrite <- (firstn_skipn ptr tables). apply in_or_app. left. exact Ht. }
      rewrite F. reflexivity.
    - rewrite S2. intros t Ht. rewrite firstn_add in Ht. apply in_app_or in Ht as [Ht|Ht]; [apply P; exact Ht|apply S3; exact Ht].
  Qed.

  Definition ptrs_ok (u : bytes) (lvls : list (list table)) (ptrs : list nat) : Prop := Forall2 (ptr_ok u) lvls ptrs.

  Lemma ptrs_ok_mono u u' lvls ptrs : le u u' -> ptrs_ok u lvls ptrs -> ptrs_ok u' lvls ptrs.
  Proof.
    intros H F. induction F as [|tb ptr lvls ptrs P F IH]; constructor; [|exact IH].
    apply (ptr_ok_mono u u' tb ptr H P).
  Qed.

  Lemma ptrs_ok_init u lvls : ptrs_ok u lvls (repeat 0 (length lvls)).
  Proof. induction lvls as [|tb lvls IH]; cbn [length repeat]; constructor; [intros t []|exact IH]. Qed.

  Theorem base_levels_spec u : forall lvls ptrs, Forall lvl_ok lvls -> ptrs_ok u lvls ptrs ->
    let r := base_levels c lvls ptrs u in
    fst r = is_base c lvls u /\ ptrs_ok u lvls (snd r).
  Proof.
    induction lvls as [|tb lvls IH]; intros ptrs Hok P; cbn zeta.
    - inversion P; subst. cbn [base_levels fst snd]. split; [reflexivity|constructor].
    - inversion P as [|tb' ptr lvls' pr Pp Pr]; subst. inversion Hok as [|x y Htb Hrest]; subst.
      cbn [base_levels]. unfold is_base. cbn [concat]. rewrite forallb_app.
      destruct (level_scan_spec u tb ptr Htb Pp) as [L1 L2].
      destruct (base_scan c (skipn ptr tb) ptr u) as [covered ptr'] eqn:E. cbn [fst snd] in L1, L2.
      assert (Hf : forallb (fun t => negb (t_covers c t u)) tb = negb covered).
      { rewrite L1. clear. induction tb as [|t tb IH]; [reflexivity|]. cbn [forallb existsb].
        rewrite IH, Bool.negb_orb. reflexivity. }
      rewrite Hf. destruct covered; cbn [negb andb fst snd].
      + split; [reflexivity|]. constructor; assumption.
      + destruct (IH pr Hrest Pr) as [I1 I2].
        destruct (base_levels c lvls pr u) as [b pr'] eqn:E2. cbn [fst snd] in *.
        split; [exact I1|]. constructor; assumption.
  Qed.
End Base.
